module verifkit

go 1.19
