// Package verifkit is the small statistics / evidence recorder shared by every
// harness test under /verif/harness. It has no dependencies outside the standard library. Each test process
// writes one JSON file into $VERIF_STATS_DIR; the driver (/verif/check) merges
// them into /verif/evidence/<ID>.json.
package verifkit

import (
	"encoding/json"
	"fmt"
	"hash/fnv"
	"net"
	"os"
	"path/filepath"
	"sort"
	"strconv"
	"sync"
	"time"
)

const maxHashes = 400000
const maxSamples = 6

// Stats accumulates what a test actually explored.
type Stats struct {
	mu         sync.Mutex
	Property   string            `json:"property"`
	Test       string            `json:"test"`
	Rule       string            `json:"rule"`
	Evals      int64             `json:"evaluations"`
	Nontrivial int64             `json:"nontrivial_total"`
	Hashes     map[uint64]bool   `json:"-"`
	HashList   []uint64          `json:"nontrivial_hashes"`
	Classes    map[string]int64  `json:"classes"`
	Samples    []json.RawMessage `json:"samples"`
	Known      map[string]string `json:"known_reproduced"`
	Excluded   map[string]int64  `json:"excluded_by_construction"`
	Notes      map[string]string `json:"notes"`
	Exhaustive bool              `json:"exhaustive"`
	sampleEach int64
	start      time.Time
}

var (
	regMu sync.Mutex
	reg   = map[string]*Stats{}
)

// For returns the recorder of (property, test), creating it on first use.
func For(property, test, rule string) *Stats {
	regMu.Lock()
	defer regMu.Unlock()
	k := property + "/" + test
	if s, ok := reg[k]; ok {
		return s
	}
	s := &Stats{Property: property, Test: test, Rule: rule, Hashes: map[uint64]bool{},
		Classes: map[string]int64{}, Known: map[string]string{}, Excluded: map[string]int64{},
		Notes: map[string]string{}, start: time.Now()}
	reg[k] = s
	return s
}

// Hash is FNV-64a of the canonical description of a case.
func Hash(parts ...string) uint64 {
	h := fnv.New64a()
	for _, p := range parts {
		h.Write([]byte(p))
		h.Write([]byte{0})
	}
	return h.Sum64()
}

// Case records one evaluated case. canon is the canonical description used to
// count distinct non-trivial cases; classes are histogram labels.
func (s *Stats) Case(nontrivial bool, canon string, classes ...string) {
	s.mu.Lock()
	defer s.mu.Unlock()
	s.Evals++
	if nontrivial {
		s.Nontrivial++
		if len(s.Hashes) < maxHashes {
			s.Hashes[Hash(canon)] = true
		}
	}
	for _, c := range classes {
		s.Classes[c]++
	}
}

// Class adds n to a histogram label without counting a case.
func (s *Stats) Class(c string, n int64) {
	s.mu.Lock()
	s.Classes[c] += n
	s.mu.Unlock()
}

// Exclude counts a draw removed by construction because of a known finding.
func (s *Stats) Exclude(sig string) {
	s.mu.Lock()
	s.Excluded[sig]++
	s.mu.Unlock()
}

// Note stores a free-form key/value in the evidence.
func (s *Stats) Note(k, v string) {
	s.mu.Lock()
	s.Notes[k] = v
	s.mu.Unlock()
}

// SetExhaustive marks the run as a complete enumeration of a finite space.
func (s *Stats) SetExhaustive(b bool) {
	s.mu.Lock()
	s.Exhaustive = b
	s.mu.Unlock()
}

// Sample keeps a few written-out cases (the first ones and then sparse later ones).
func (s *Stats) Sample(v interface{}) {
	s.mu.Lock()
	defer s.mu.Unlock()
	s.sampleEach++
	if len(s.Samples) >= maxSamples {
		return
	}
	n := s.sampleEach
	if !(n <= 2 || n == 17 || n == 101 || n == 523 || n == 2011) {
		return
	}
	b, err := json.Marshal(v)
	if err != nil {
		b, _ = json.Marshal(fmt.Sprintf("%+v", v))
	}
	if len(b) > 6000 {
		b, _ = json.Marshal(string(b[:6000]) + "...(cut)")
	}
	s.Samples = append(s.Samples, b)
}

// WantSample reports whether the next Sample call would be kept (lets callers
// avoid building expensive descriptions).
func (s *Stats) WantSample() bool {
	s.mu.Lock()
	defer s.mu.Unlock()
	n := s.sampleEach + 1
	return len(s.Samples) < maxSamples && (n <= 2 || n == 17 || n == 101 || n == 523 || n == 2011)
}

// KnownReproduced records that a directed campaign reproduced a finding with signature sig.
func (s *Stats) KnownReproduced(sig, what string) {
	s.mu.Lock()
	s.Known[sig] = what
	s.mu.Unlock()
	fmt.Printf("VERIF-KF[%s] %s\n", sig, what)
}

// Flush writes the stats file. Call it from TestMain or a deferred call in the test.
func (s *Stats) Flush() {
	dir := os.Getenv("VERIF_STATS_DIR")
	if dir == "" {
		return
	}
	s.mu.Lock()
	defer s.mu.Unlock()
	s.HashList = s.HashList[:0]
	for h := range s.Hashes {
		s.HashList = append(s.HashList, h)
	}
	sort.Slice(s.HashList, func(i, j int) bool { return s.HashList[i] < s.HashList[j] })
	b, err := json.Marshal(s)
	if err != nil {
		fmt.Fprintln(os.Stderr, "verifkit: marshal:", err)
		return
	}
	name := fmt.Sprintf("%s-%s-%d.json", s.Property, s.Test, os.Getpid())
	tmp := filepath.Join(dir, "."+name+".tmp")
	if err := os.WriteFile(tmp, b, 0644); err == nil {
		os.Rename(tmp, filepath.Join(dir, name))
	}
}

// FlushAll writes every recorder created in this process.
func FlushAll() {
	regMu.Lock()
	l := make([]*Stats, 0, len(reg))
	for _, s := range reg {
		l = append(l, s)
	}
	regMu.Unlock()
	for _, s := range l {
		s.Flush()
	}
}

// EnvInt reads an integer knob passed by the driver (e.g. VERIF_N), with a default.
func EnvInt(name string, def int) int {
	if v := os.Getenv(name); v != "" {
		if n, err := strconv.Atoi(v); err == nil {
			return n
		}
	}
	return def
}

// Thorough reports whether the driver asked for the thorough tier.
func Thorough() bool { return os.Getenv("VERIF_TIER") == "thorough" }

// Sig formats a violation signature so that the driver can find it in the output.
func Sig(sig string) string { return "VERIF-SIG[" + sig + "]" }

// Watch runs f and reports false if it did not finish within d (the goroutine is leaked).
func Watch(d time.Duration, f func()) bool {
	done := make(chan struct{})
	go func() { defer close(done); f() }()
	select {
	case <-done:
		return true
	case <-time.After(d):
		return false
	}
}

var (
	addrMu     sync.Mutex
	addrHanded = map[string]bool{}
)

// FreeAddr returns a loopback TCP address that was free a moment ago and that this process has not been
// handed before. Probing "127.0.0.1:0" twice in a row returns the SAME port about once in 5500 pairs (the
// kernel draws from ~7000 candidates and the first probe has been released), and a bed that configures two
// listeners from such a pair cannot start; remembering what was handed out removes that case. Another process
// can still take the port before the caller binds it: callers treat "address already in use" as a bed failure
// to be retried with fresh addresses, never as a verdict.
func FreeAddr() string {
	addrMu.Lock()
	defer addrMu.Unlock()
	if len(addrHanded) > 2048 {
		// ports handed out long ago have been bound and released by now
		addrHanded = map[string]bool{}
	}
	var last string
	for try := 0; try < 64; try++ {
		l, err := net.Listen("tcp", "127.0.0.1:0")
		if err != nil {
			panic(err)
		}
		last = l.Addr().String()
		l.Close()
		if !addrHanded[last] {
			addrHanded[last] = true
			return last
		}
	}
	return last
}
