#!/usr/bin/env python3
"""Regenerates the tables between <!-- BEGIN:x --> / <!-- END:x --> markers in DESIGN.md."""
import json, glob, re, os, subprocess
V = '/verif'
k = json.load(open(V + '/known_findings.json'))['findings']
def esc(s): return s.replace('|', '\\|').replace('\n', ' ')
log = subprocess.run(['git', '-C', '/repo', 'log', '--format=%h %s'], capture_output=True, text=True).stdout.splitlines()
subj = {l.split()[0]: l.split(' ', 1)[1] for l in log}
fixed = ["| property | signature the check reports | commit | what failed |", "|---|---|---|---|"]
for f in sorted([f for f in k if f['status'] == 'fixed'], key=lambda f: (f['property'], f['commit'])):
    fixed.append("| %s | `%s` | `%s` | %s |" % (f['property'], f['sig'], f['commit'], esc(f['what'])))
known = ["| property | signature | what fails (and why it is not repaired here) |", "|---|---|---|"]
for f in sorted([f for f in k if f['status'] == 'known'], key=lambda f: (f['property'], f['sig'])):
    known.append("| %s | `%s` | %s |" % (f['property'], f['sig'], esc(f['what'])))
seeded = ["| change | round | breaks | needs | caught by (quick tier: test → signature) | missed first | strengthening |", "|---|---|---|---|---|---|---|"]
for mf in sorted(glob.glob(V + '/seeded/C*-m*/meta.json')):
    m = json.load(open(mf))
    cb = []
    for r in m['detection']['caught_by']:
        cb.append("%s: %s → `%s`" % (r['check'], ', '.join(r['tests']) or '?', '`, `'.join(r['signatures'])))
    needs = re.sub(r'\s+', ' ', m['needs_to_manifest'])
    needs = (needs[:260] + ' …') if len(needs) > 260 else needs
    seeded.append("| %s | %s | %s | %s | %s | %s | %s |" % (m['id'], m.get('round', ''), esc(m['breaks']), esc(needs), esc('; '.join(cb)) if cb else '**not caught**',
                  'yes' if m['detection']['initially_missed'] else 'no', esc(m['detection']['strengthening'])))
s = open(V + '/DESIGN.md').read()
for name, rows in (('fixed', fixed), ('known', known), ('seeded', seeded)):
    s = re.sub(r'<!-- BEGIN:%s -->.*?<!-- END:%s -->' % (name, name), lambda _: '<!-- BEGIN:%s -->\n%s\n<!-- END:%s -->' % (name, '\n'.join(rows), name), s, flags=re.S)
open(V + '/DESIGN.md', 'w').write(s)
print(len(fixed) - 2, 'fixed', len(known) - 2, 'known', len(seeded) - 2, 'seeded')
