#!/usr/bin/env python3
"""Writes seeded/<id>/meta.json for every seeded change from its README.md, patch.diff, the demonstration file,
seeded/HISTORY.json (hand-written) and seeded/RESULTS.tsv (appended by tools/run_all_seeded.sh)."""
import json, os, re, glob, collections
V = '/verif'
hist = json.load(open(V + '/seeded/HISTORY.json'))
results = collections.defaultdict(list)
if os.path.exists(V + '/seeded/RESULTS.tsv'):
    for l in open(V + '/seeded/RESULTS.tsv'):
        f = l.rstrip('\n').split('\t')
        if len(f) >= 5:
            results[f[0]].append({"check": f[1], "tier": "quick", "exit_code": int(f[2] or -1), "verif_seed": int(f[3]),
                                  "signatures": [s for s in f[4].split(',') if s], "tests": [s for s in (f[5] if len(f) > 5 else '').split(',') if s]})
props = {json.loads(l)['id']: json.loads(l) for l in open(V + '/properties.jsonl')}

def section(readme, *names):
    # text of the first section whose heading starts with one of names
    lines = readme.split('\n')
    out, on = [], False
    for ln in lines:
        if ln.startswith('#'):
            h = re.sub(r'^\([a-d]\)\s*', '', ln.lstrip('# ').lower())
            if on:
                break
            on = any(h.startswith(n) for n in names)
            continue
        if on:
            out.append(ln)
    return '\n'.join(out).strip()

for d in sorted(glob.glob(V + '/seeded/C*-m*')):
    mid = os.path.basename(d)
    pid = mid.split('-')[0]
    readme = open(d + '/README.md').read()
    patch = open(d + '/patch.diff').read()
    title = readme.split('\n', 1)[0].lstrip('# ').strip()
    title = re.sub(r'^C\d+\s*(/|mutant)?\s*(m?\d+|[ab])?\s*[-—:]*\s*', '', title).strip() or title
    title = re.sub(r'^(R4\s*/\s*)?[ab]\s*[-—:]+\s*', '', title).strip() or title
    files = sorted(set(re.findall(r'^\+\+\+ b/(\S+)', patch, re.M)))
    demos = sorted(os.path.basename(f) for f in glob.glob(d + '/*_test.go'))
    tests, pkgname = [], None
    for f in glob.glob(d + '/*_test.go'):
        src = open(f).read()
        tests += re.findall(r'^func (Test\w+)\(', src, re.M)
        m = re.search(r'^package (\w+)', src, re.M)
        pkgname = m.group(1) if m else None
    # package directory of the demonstration: first repo directory named in the README whose package matches
    pkgdir = None
    base = (pkgname or '').replace('_test', '')
    for cand in re.findall(r'`?((?:[a-z0-9_]+/)*[a-z0-9_]+)/?`?', readme):
        p = '/repo/' + cand
        if os.path.isdir(p) and any(re.search(r'^package %s(_test)?$' % re.escape(base), open(g).read(), re.M) for g in glob.glob(p + '/*.go')[:5]):
            pkgdir = cand
            break
    if pkgdir is None and files:
        pkgdir = os.path.dirname(files[0])
    needs = section(readme, 'what it needs', 'what is needed')
    why = section(readme, 'why it breaks', 'what the change breaks', 'what it breaks')
    runs = results.get(mid, [])
    caught = [r for r in runs if r['exit_code'] == 1 and r['signatures']]
    h = hist.get(mid, {"initially_missed": False, "strengthening": ""})
    confirm = open(d + '/confirm.txt').read().strip().split('\n') if os.path.exists(d + '/confirm.txt') else None
    rnd = {'1': 1, '2': 1, '3': 2, '4': 2, '5': 3, '6': 3, '7': 4, '8': 4}.get(mid[-1], 0)
    meta = {
        "id": mid,
        "property": pid,
        "property_title": props[pid]['title'],
        "breaks": title,
        "files_changed": files,
        "why_it_breaks": why[:1500],
        "needs_to_manifest": needs[:2500],
        "demonstration": {"files": demos, "package_dir": pkgdir, "tests": tests,
                          "run": "copy the file into %s of a tree with patch.diff applied; go test -vet=off -count=1 -run '%s' ./%s  (passes on the clean tree, fails with the change)" % (pkgdir, '|'.join(tests), pkgdir)},
        "round": rnd,
        "origin": "written by a fresh sub-agent that was given only the property text and its own scratch worktree (nothing from /verif)" + ("" if rnd == 1 else "; it was also told which functions the earlier rounds had changed for this property, to get a different mechanism"),
        "what_i_ran": (confirm or []) + [
            "tools/confirm_seed.sh (scratch worktree of /repo HEAD): demonstration passes on the clean tree; patch applies and `go build ./...` succeeds; demonstration fails with the patch; the existing tests of the touched packages (`go test -vet=off -count=1 <pkgs>`) pass with the patch",
            "tools/run_seeded.sh %s seeded/%s/patch.diff (scratch worktree, VERIF_REPO=<worktree> ./check %s): see detection" % (pid, mid, pid),
        ],
        "detection": {
            "caught": bool(caught),
            "caught_by": caught,
            "all_runs": runs,
            "initially_missed": h.get("initially_missed", False),
            "strengthening": h.get("strengthening", ""),
        },
    }
    json.dump(meta, open(d + '/meta.json', 'w'), indent=1)
    print(mid, 'caught' if caught else 'NOT-CAUGHT(no run recorded)' if not runs else 'NOT-CAUGHT', pkgdir, tests[:2])
