#!/bin/bash
# usage: tools/confirm_seed.sh <seed name e.g. C04-m1> <mutant dir> <demo package dir e.g. services/hh> <go test -run regex> [touched pkgs...]
# Confirms in a scratch worktree: patch applies, builds, touched packages' tests pass with it, demo fails with it and
# passes without it. On success copies the mutant to /verif/seeded/<name>/ with meta.json.
set -u
name=$1; mdir=$2; dpkg=$3; rx=$4; shift 4; pkgs="$*"
export GOFLAGS=-mod=mod GOPROXY=off GOSUMDB=off GOTOOLCHAIN=local
# every go test runs in its own network namespace (loopback only): several suites bind fixed ports (coordinator: 127.0.0.1:7777)
nt() { unshare -n sh -c 'ip link set lo up; exec "$@"' sh "$@"; }
wt=/tmp/confirm-$name
git -C /repo worktree remove --force $wt >/dev/null 2>&1
git -C /repo worktree add --detach $wt HEAD >/dev/null 2>&1 || { echo "worktree failed"; exit 2; }
trap "git -C /repo worktree remove --force $wt >/dev/null 2>&1" EXIT
cd $wt
demo=$(ls $mdir/*_test.go | head -1)
cp $mdir/*_test.go $dpkg/
# without the change: demo passes
nt go test -vet=off -count=1 -run "$rx" ./$dpkg > /tmp/confirm-$name.clean.log 2>&1; rc_clean=$?
git apply $mdir/patch.diff || { echo "CONFIRM $name: patch does not apply"; exit 1; }
go build ./... > /tmp/confirm-$name.build.log 2>&1; rc_build=$?
nt go test -vet=off -count=1 -run "$rx" ./$dpkg > /tmp/confirm-$name.mut.log 2>&1; rc_mut=$?
rm -f $dpkg/$(basename $demo)
for f in $mdir/*_test.go; do rm -f $dpkg/$(basename $f); done
[ -z "$pkgs" ] && pkgs=$(git diff --name-only | xargs -n1 dirname | sort -u | sed 's|^|./|')
# the existing suites: up to 3 attempts (services/meta has a load-dependent flake, "panic: closing" in its own test helper,
# that also shows on the unchanged tree; a change that really breaks an existing test fails every attempt)
for attempt in 1 2 3; do
  nt go test -vet=off -count=1 -parallel 2 -timeout 40m $pkgs > /tmp/confirm-$name.suite.log 2>&1; rc_suite=$?
  [ $rc_suite -eq 0 ] && break
done
line="CONFIRM $name: demo-clean rc=$rc_clean (want 0) build rc=$rc_build (want 0) demo-mutant rc=$rc_mut (want !=0) suite rc=$rc_suite (want 0) pkgs=$pkgs"
echo "$line"
if [ $rc_clean -eq 0 ] && [ $rc_build -eq 0 ] && [ $rc_mut -ne 0 ] && [ $rc_suite -eq 0 ]; then
  d=/verif/seeded/$name; mkdir -p $d; cp $mdir/patch.diff $d/; cp $mdir/*_test.go $d/ ; [ -f $mdir/README.md ] && cp $mdir/README.md $d/
  { echo "$line"; echo "commands (scratch worktree of /repo HEAD $(git -C /repo rev-parse --short HEAD), GOFLAGS=-mod=mod GOPROXY=off):"; echo "  go test -vet=off -count=1 -run '$rx' ./$dpkg   # demonstration without the change: rc=$rc_clean"; echo "  git apply patch.diff && go build ./...            # rc=$rc_build"; echo "  go test -vet=off -count=1 -run '$rx' ./$dpkg   # demonstration with the change: rc=$rc_mut"; echo "  go test -vet=off -count=1 $pkgs   # existing tests with the change: rc=$rc_suite"; } > $d/confirm.txt
  echo "KEPT $name"
else
  tail -5 /tmp/confirm-$name.suite.log
fi
