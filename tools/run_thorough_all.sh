#!/bin/bash
# runs the thorough tier of every property, one after the other; one line per property in work/thorough.log
cd /verif
: > work/thorough.log
for id in ${*:-C06 C08 C12 C13 C15 C16 C17 C03 C04 C07 C14 C11 C05 C18 C19 C10 C02 C09 C01}; do
  t0=$(date +%s)
  out=$(./check $id --tier thorough 2>&1); rc=$?
  t1=$(date +%s)
  echo "$id rc=$rc wall=$((t1-t0))s $(echo "$out" | grep -a "$id thorough:" | tail -1)" >> work/thorough.log
  echo "$out" | grep -a "VIOLATION\|INCONCLUSIVE" | head -5 >> work/thorough.log
done
echo ALLDONE >> work/thorough.log
