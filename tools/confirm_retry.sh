#!/bin/bash
# usage: tools/confirm_retry.sh <name> <mutant dir> <demo pkg dir> <run regex> [pkgs...]
# confirm_seed.sh with up to 4 attempts when a test binary could not bind the fixed port 7777 that
# coordinator/pool_test.go uses (another coordinator test process was running at the same moment).
name=$1
for try in 1 2 3 4; do
  out=$(/verif/tools/confirm_seed.sh "$@" 2>&1); echo "$out" | tail -3
  if echo "$out" | grep -q "^KEPT"; then exit 0; fi
  if grep -qs "address already in use" /tmp/confirm-$name.*.log; then sleep $((RANDOM % 20 + 5)); continue; fi
  exit 1
done
exit 1
