#!/bin/bash
# usage: tools/run_all_seeded.sh [ids...]   (default: every directory under seeded/)
# Runs the quick check of each seeded change's property (plus the extra checks listed in
# seeded/EXTRA_CHECKS) against a scratch worktree with the change applied, four properties at a time,
# and appends one line per (change, check) to seeded/RESULTS.tsv:  id  check  rc  seed  signatures...
# NOTE: the evidence files are rewritten by these runs; re-run the real checks afterwards.
cd /verif
ids="$*"; [ -z "$ids" ] && ids=$(ls seeded | grep -E '^C[0-9]+-m[0-9]+$')
seed=${VERIF_SEED:-1}
run_prop() {  # all changes of one property, sequentially (they share build/ and replays/ of that check)
  p=$1; shift
  for id in "$@"; do
    tools/run_seeded.sh $p seeded/$id/patch.diff 2>&1 | grep -a "^RESULT" | while read -r line; do
      c=$(echo "$line" | grep -o "check=[^ ]*" | cut -d= -f2); rc=$(echo "$line" | grep -o "rc=[0-9]*" | cut -d= -f2)
      sigs=$(echo "$line" | grep -o "sig=[^ ]*" | cut -d= -f2 | sort -u | tr '\n' ',' | sed 's/,$//')
      tests=$(echo "$line" | grep -o "replays/[^/]*/[A-Za-z0-9]*-" | sed 's#.*/##; s#-$##' | sort -u | tr '\n' ',' | sed 's/,$//')
      printf "%s\t%s\t%s\t%s\t%s\t%s\n" "$id" "$c" "$rc" "$seed" "$sigs" "$tests" >> seeded/RESULTS.tsv
    done
  done
}
props=$(for id in $ids; do echo ${id%%-*}; done | sort -u)
n=0
for p in $props; do
  mine=$(for id in $ids; do [ "${id%%-*}" = "$p" ] && echo $id; done)
  run_prop $p $mine &
  n=$((n+1)); if [ $((n % 4)) -eq 0 ]; then wait; fi
done
wait
# second phase, one at a time: checks of OTHER properties that are expected to see a change too
for id in $ids; do
  extra=$(grep -E "^$id[[:space:]]" seeded/EXTRA_CHECKS 2>/dev/null | cut -f2-)
  for c in $extra; do run_prop $c $id; done
done
