#!/bin/bash
# runs the quick tier of every property against /repo (evidence/ is rewritten), N at a time; prints one line each
cd /verif
n=${1:-3}
ls checks.d | sed 's/.json//' | xargs -P $n -I{} sh -c './check {} > work/quick-{}.log 2>&1; echo "{} rc=$? $(grep -a "{} quick:" work/quick-{}.log | tail -1)"'
