#!/bin/bash
# usage: tools/intake.sh <new id> <deliverable dir> <demo package dir> <go test -run regex> [packages whose existing tests must pass]
# confirm a delivered seeded change (tools/confirm_seed.sh) and, if it is kept, run the quick checks against it
cd /verif
id=$1
tools/confirm_seed.sh "$@" > /tmp/r4/confirm-$id.log 2>&1
if grep -q "^KEPT $id" /tmp/r4/confirm-$id.log; then
  tools/run_all_seeded.sh $id > /tmp/r4/run-$id.log 2>&1
  echo "INTAKE $id done: $(grep -P "^$id\t" seeded/RESULTS.tsv | tr '\n' ';')" >> /tmp/r4/intake.log
else
  echo "INTAKE $id NOT CONFIRMED: $(head -1 /tmp/r4/confirm-$id.log)" >> /tmp/r4/intake.log
fi
