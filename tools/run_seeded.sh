#!/bin/bash
# usage: tools/run_seeded.sh <property id> <patch.diff> [extra check ids...]
# Applies a seeded change to /repo, runs the quick check(s), undoes the change. Prints one line per check.
set -u
id=$1; patch=$(readlink -f $2); shift 2
checks="$id $*"
cd /verif
if ! git -C /repo diff --quiet; then echo "repo dirty, refusing"; exit 2; fi
if ! git -C /repo apply --check "$patch" 2>/dev/null; then echo "patch does not apply: $patch"; exit 2; fi
git -C /repo apply "$patch"
for c in $checks; do
  out=$(VERIF_REPLAYS_TMP=1 ./check $c 2>&1); rc=$?
  sig=$(echo "$out" | grep -o "VIOLATION property=[^ ]* replay=[^ ]* sig=[^ ]*" | head -3 | tr '\n' ' ')
  echo "RESULT check=$c rc=$rc $(echo "$out" | grep "$c quick:" | tail -1) $sig"
done
git -C /repo checkout -- . ; git -C /repo clean -fdq
# replays created by a mutant run are not regressions of the real tree
git -C /verif clean -fdq replays/
