#!/bin/bash
# usage: tools/run_seeded.sh <property id> <patch.diff> [extra check ids...]
# Applies a seeded change to a scratch worktree of /repo's HEAD, runs the quick check(s) against it
# (VERIF_REPO), removes the worktree. Prints one RESULT line per check. (/repo itself is not touched,
# so that several people can work in parallel; the checks rebuild from whatever tree VERIF_REPO names.)
set -u
id=$1; patch=$(readlink -f $2); shift 2
checks="$id $*"
wt=/tmp/seedrun-$$
cd /verif
git -C /repo worktree add --detach $wt HEAD >/dev/null 2>&1 || { echo "worktree failed"; exit 2; }
trap "git -C /repo worktree remove --force $wt >/dev/null 2>&1" EXIT
if ! git -C $wt apply "$patch" 2>/dev/null; then echo "patch does not apply: $patch"; exit 2; fi
for c in $checks; do
  out=$(VERIF_REPO=$wt ./check $c 2>&1); rc=$?
  sig=$(echo "$out" | grep -ao "VIOLATION property=[^ ]* replay=[^ ]* sig=[^ ]*" | head -3 | tr '\n' ' ')
  echo "RESULT check=$c rc=$rc $(echo "$out" | grep -a "$c quick:" | tail -1) $sig"
done
# scratch build directories of this run (the driver keeps scratch runs apart: build/<ID>-<tree>, work/<ID>-<tier>-<tree>)
tag=$(echo $wt | sed 's/[^A-Za-z0-9]\+/_/g; s/^_//')
rm -rf /verif/build/*-$tag* /verif/work/*-$tag*
