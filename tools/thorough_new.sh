#!/bin/bash
# thorough tier of the tests added in round 4 (development aid; evidence goes to work/)
for spec in "C03 MultiShard" "C08 ClientShardGroups" "C09 StrategyDamagedBlock" "C11 SparseColumns" "C07 CacheConvergence" "C16 ExecutedDatabase" "C05 LateReply|LargeStorageRead" "C02 C02Reads" "C10 C10Deletes" "C01 C01Crash"; do
  set -- $spec
  echo "=== $1 $2"; VERIF_TIER=thorough VERIF_SEED=${VERIF_SEED:-5} VERIF_ONLY="$2" ./check $1 --tier thorough 2>&1 | tail -4 | cut -c1-1500
done
