//go:build verif

package coordinator

// C03 - a cluster write honours the requested consistency level. DESIGN.md section 4, C03.
//
// Bed W: a PointsWriter with scripted TSDBStore / ShardWriter / HintedHandoff. Every owner's outcome
// is a script; the owner's first blocking call waits on a per-owner gate that the harness opens in
// the chosen arrival order, and the harness waits (channel synchronisation, no sleeps) for every
// owner's final scripted call before it reads the ledger. The domain is finite and enumerated:
// RF x coordinator position x level x AllowOutOfOrderWrites x per-owner outcome x arrival order.

import (
	"errors"
	"fmt"
	"os"
	"runtime"
	"strconv"
	"strings"
	"sync"
	"testing"
	"time"

	"github.com/influxdata/influxdb/models"
	"github.com/influxdata/influxdb/services/hh"
	"github.com/influxdata/influxdb/services/meta"
	"github.com/influxdata/influxdb/tsdb"
	"verifkit"
)

// ---------------------------------------------------------------------------------------------
// outcome scripts

type vC03Out struct {
	name   string
	local  bool
	qne    bool // (remote) handoff queue for this owner and shard is already non-empty
	direct int  // result of the direct write, see vC03D*
	hh     int  // result of HintedHandoff.WriteShard, see vC03H*
	hang   bool // no answer before the timeout: the first blocking call is released only after the write returned
	create int  // (local, direct == notfound) 0 create ok then stored, 1 create fails, 2 create ok then store error
}

const (
	vC03DStored = iota
	vC03DRetryRefused
	vC03DRetryTimeout
	vC03DPermPartial
	vC03DPermConflict
	vC03DNotFound   // local only
	vC03DStoreError // local only
)

const (
	vC03HAccept = iota
	vC03HFull
	vC03HBlocked
	vC03HOther
)

var vC03DirectErr = map[int]error{
	vC03DRetryRefused: errors.New("dial tcp 127.0.0.1:8088: connect: connection refused"),
	vC03DRetryTimeout: errors.New("read tcp 127.0.0.1:51234->127.0.0.1:8088: i/o timeout"),
	vC03DPermPartial:  errors.New("error code 1: write shard 7: partial write: points beyond retention policy dropped=1"),
	vC03DPermConflict: errors.New(`error code 1: write shard 7: field type conflict: input field "v" on measurement "m" is type float, already exists as type integer`),
	vC03DStoreError:   errors.New("engine: error writing WAL entry: disk full"),
}

var vC03HHErr = map[int]error{
	vC03HFull:    hh.ErrQueueFull,
	vC03HBlocked: hh.ErrQueueBlocked,
	vC03HOther:   errors.New("open /var/lib/influxdb/hh/3/7/1: too many open files"),
}

var vC03ErrCreate = errors.New("mkdir /var/lib/influxdb/data/db/rp/7: permission denied")

// remote outcomes (index = code in case descriptions)
var vC03Remote = []vC03Out{
	{name: "stored"},
	{name: "retry+hhAccept", direct: vC03DRetryRefused, hh: vC03HAccept},
	{name: "retry+hhFull", direct: vC03DRetryRefused, hh: vC03HFull},
	{name: "retry+hhBlocked", direct: vC03DRetryTimeout, hh: vC03HBlocked},
	{name: "retry+hhOther", direct: vC03DRetryTimeout, hh: vC03HOther},
	{name: "permPartialWrite", direct: vC03DPermPartial},
	{name: "permFieldConflict", direct: vC03DPermConflict},
	{name: "queued+hhAccept", qne: true, direct: vC03DStored, hh: vC03HAccept},
	{name: "queued+hhFull", qne: true, direct: vC03DRetryRefused, hh: vC03HFull},
	{name: "queued+hhBlocked", qne: true, direct: vC03DRetryRefused, hh: vC03HBlocked},
	{name: "queued+hhOther", qne: true, direct: vC03DRetryTimeout, hh: vC03HOther},
	{name: "noAnswer(lateStored)", hang: true},
	{name: "noAnswer(lateRetry+hhAccept)", hang: true, direct: vC03DRetryRefused, hh: vC03HAccept},
}

var vC03Local = []vC03Out{
	{name: "L.stored", local: true},
	{name: "L.notFound+create+stored", local: true, direct: vC03DNotFound, create: 0},
	{name: "L.notFound+createFails", local: true, direct: vC03DNotFound, create: 1},
	{name: "L.storeError", local: true, direct: vC03DStoreError},
	{name: "L.notFound+create+storeError", local: true, direct: vC03DNotFound, create: 2},
	{name: "L.noAnswer(lateStored)", local: true, hang: true},
}

var vC03Levels = []models.ConsistencyLevel{models.ConsistencyLevelAny, models.ConsistencyLevelOne, models.ConsistencyLevelQuorum, models.ConsistencyLevelAll}
var vC03LevelNames = []string{"any", "one", "quorum", "all"}

// ---------------------------------------------------------------------------------------------
// one case

type vC03Case struct {
	rf    int
	coord int // index of the owner that coordinates, rf = not an owner
	level int
	ooo   bool
	outs  []int // per owner: index into vC03Remote or vC03Local (for the coordinator)
	perm  []int // arrival order
}

func (c *vC03Case) String() string {
	o := make([]string, len(c.outs))
	for i, v := range c.outs {
		o[i] = strconv.Itoa(v)
	}
	p := make([]string, len(c.perm))
	for i, v := range c.perm {
		p[i] = strconv.Itoa(v)
	}
	return fmt.Sprintf("rf=%d coord=%d level=%s ooo=%v outs=%s perm=%s", c.rf, c.coord, vC03LevelNames[c.level], c.ooo, strings.Join(o, ","), strings.Join(p, ","))
}

func vC03ParseCase(s string) (*vC03Case, error) {
	c := &vC03Case{}
	for _, f := range strings.Fields(s) {
		kv := strings.SplitN(f, "=", 2)
		if len(kv) != 2 {
			return nil, fmt.Errorf("bad field %q", f)
		}
		ints := func() []int {
			var out []int
			for _, x := range strings.Split(kv[1], ",") {
				n, _ := strconv.Atoi(x)
				out = append(out, n)
			}
			return out
		}
		switch kv[0] {
		case "rf":
			c.rf, _ = strconv.Atoi(kv[1])
		case "coord":
			c.coord, _ = strconv.Atoi(kv[1])
		case "level":
			for i, n := range vC03LevelNames {
				if n == kv[1] {
					c.level = i
				}
			}
		case "ooo":
			c.ooo = kv[1] == "true"
		case "outs":
			c.outs = ints()
		case "perm":
			c.perm = ints()
		}
	}
	if c.rf < 1 || len(c.outs) != c.rf || len(c.perm) != c.rf {
		return nil, fmt.Errorf("inconsistent case %q", s)
	}
	return c, nil
}

func (c *vC03Case) out(i int) vC03Out {
	if i == c.coord {
		return vC03Local[c.outs[i]]
	}
	return vC03Remote[c.outs[i]]
}

// ---------------------------------------------------------------------------------------------
// scripted collaborators

type vC03Owner struct {
	node uint64
	out  vC03Out
	gate chan struct{}
	done chan struct{}

	mu         sync.Mutex
	gated      bool
	finished   bool
	swCalls    int
	hhCalls    int
	emptyCalls int
	storeCalls int
	createCall int
	bad        []string
}

type vC03Bed struct {
	c       *vC03Case
	shardID uint64
	points  []models.Point
	owners  []*vC03Owner
	byNode  map[uint64]*vC03Owner
	coordID uint64
	stray   []string // calls for unknown owners
	mu      sync.Mutex
}

func (b *vC03Bed) strayf(f string, a ...interface{}) {
	b.mu.Lock()
	b.stray = append(b.stray, fmt.Sprintf(f, a...))
	b.mu.Unlock()
}

// wait blocks the owner's first blocking call until the harness opens its gate.
func (o *vC03Owner) wait() {
	o.mu.Lock()
	first := !o.gated
	o.gated = true
	o.mu.Unlock()
	if first {
		<-o.gate
	}
}

// finish marks the owner's script as complete (called just before the final scripted call returns).
func (o *vC03Owner) finish() {
	o.mu.Lock()
	if !o.finished {
		o.finished = true
		close(o.done)
	} else {
		o.bad = append(o.bad, "call after the owner's script was complete")
	}
	o.mu.Unlock()
}

func (b *vC03Bed) checkArgs(o *vC03Owner, what string, shardID uint64, pts []models.Point) {
	ok := shardID == b.shardID && len(pts) == len(b.points)
	if ok {
		for i := range pts {
			if pts[i] != b.points[i] {
				ok = false
			}
		}
	}
	if !ok {
		o.mu.Lock()
		o.bad = append(o.bad, fmt.Sprintf("%s called with shard %d and %d points, want shard %d and exactly the batch", what, shardID, len(pts), b.shardID))
		o.mu.Unlock()
	}
}

// meta client
type vC03Meta struct{ b *vC03Bed }

func (m vC03Meta) NodeID() uint64 { return m.b.coordID }
func (m vC03Meta) Database(name string) *meta.DatabaseInfo {
	return &meta.DatabaseInfo{Name: "db", DefaultRetentionPolicy: "rp"}
}
func (m vC03Meta) RetentionPolicy(db, rp string) (*meta.RetentionPolicyInfo, error) {
	return &meta.RetentionPolicyInfo{Name: "rp", ReplicaN: m.b.c.rf, ShardGroupDuration: time.Hour}, nil
}
func (m vC03Meta) CreateShardGroup(db, rp string, ts time.Time) (*meta.ShardGroupInfo, error) {
	sh := meta.ShardInfo{ID: m.b.shardID}
	for _, o := range m.b.owners {
		sh.Owners = append(sh.Owners, meta.ShardOwner{NodeID: o.node})
	}
	return &meta.ShardGroupInfo{ID: 1, StartTime: time.Unix(0, 0), EndTime: time.Unix(3600, 0), Shards: []meta.ShardInfo{sh}}, nil
}

// local store
type vC03Store struct{ b *vC03Bed }

func (s vC03Store) local() *vC03Owner {
	if s.b.c.coord < s.b.c.rf {
		return s.b.owners[s.b.c.coord]
	}
	return nil
}

func (s vC03Store) WriteToShard(shardID uint64, pts []models.Point) error {
	o := s.local()
	if o == nil {
		s.b.strayf("TSDBStore.WriteToShard called although the coordinator owns no copy")
		return errors.New("stray")
	}
	s.b.checkArgs(o, "TSDBStore.WriteToShard", shardID, pts)
	o.wait()
	o.mu.Lock()
	o.storeCalls++
	n := o.storeCalls
	o.mu.Unlock()
	switch o.out.direct {
	case vC03DStored:
		o.finish()
		return nil
	case vC03DStoreError:
		o.finish()
		return vC03DirectErr[vC03DStoreError]
	case vC03DNotFound:
		if n == 1 {
			return tsdb.ErrShardNotFound
		}
		o.finish()
		if o.out.create == 2 {
			return vC03DirectErr[vC03DStoreError]
		}
		return nil
	}
	o.finish()
	return nil
}

func (s vC03Store) CreateShard(db, rp string, shardID uint64, enabled bool) error {
	o := s.local()
	if o == nil {
		s.b.strayf("TSDBStore.CreateShard called although the coordinator owns no copy")
		return errors.New("stray")
	}
	o.mu.Lock()
	o.createCall++
	if db != "db" || rp != "rp" || shardID != s.b.shardID {
		o.bad = append(o.bad, fmt.Sprintf("CreateShard(%q,%q,%d)", db, rp, shardID))
	}
	o.mu.Unlock()
	if o.out.direct == vC03DNotFound && o.out.create == 1 {
		o.finish()
		return vC03ErrCreate
	}
	return nil
}

// remote writer
type vC03Writer struct{ b *vC03Bed }

func (w vC03Writer) WriteShard(shardID, ownerID uint64, pts []models.Point) error {
	o := w.b.byNode[ownerID]
	if o == nil || o.out.local {
		w.b.strayf("ShardWriter.WriteShard called for node %d which is not a remote owner", ownerID)
		return errors.New("stray")
	}
	w.b.checkArgs(o, "ShardWriter.WriteShard", shardID, pts)
	o.wait()
	o.mu.Lock()
	o.swCalls++
	o.mu.Unlock()
	err := vC03DirectErr[o.out.direct] // nil for stored
	if err == nil || !hh.IsRetryable(err) {
		o.finish()
	}
	return err
}

// hinted handoff
type vC03HH struct{ b *vC03Bed }

func (h vC03HH) Empty(shardID, ownerID uint64) bool {
	o := h.b.byNode[ownerID]
	if o == nil || o.out.local {
		h.b.strayf("HintedHandoff.Empty called for node %d which is not a remote owner", ownerID)
		return true
	}
	o.mu.Lock()
	o.emptyCalls++
	if shardID != h.b.shardID {
		o.bad = append(o.bad, fmt.Sprintf("Empty(%d, %d): wrong shard", shardID, ownerID))
	}
	o.mu.Unlock()
	return !o.out.qne
}

func (h vC03HH) WriteShard(shardID, ownerID uint64, pts []models.Point) error {
	o := h.b.byNode[ownerID]
	if o == nil || o.out.local {
		h.b.strayf("HintedHandoff.WriteShard called for node %d which is not a remote owner", ownerID)
		return errors.New("stray")
	}
	h.b.checkArgs(o, "HintedHandoff.WriteShard", shardID, pts)
	o.wait()
	o.mu.Lock()
	o.hhCalls++
	o.mu.Unlock()
	o.finish()
	return vC03HHErr[o.out.hh] // nil for accept
}

// ---------------------------------------------------------------------------------------------
// oracle

type vC03Expect struct {
	result   string // "nil", "timeout", "partial", "failed"
	ok       int
	required int
	hangs    int
}

func vC03Oracle(c *vC03Case) vC03Expect {
	any := vC03Levels[c.level] == models.ConsistencyLevelAny
	e := vC03Expect{}
	switch vC03Levels[c.level] {
	case models.ConsistencyLevelAny, models.ConsistencyLevelOne:
		e.required = 1
	case models.ConsistencyLevelQuorum:
		e.required = c.rf/2 + 1
	default:
		e.required = c.rf
	}
	for i := 0; i < c.rf; i++ {
		o := c.out(i)
		if o.hang {
			e.hangs++
			continue
		}
		succ := false
		switch {
		case o.local:
			succ = o.direct == vC03DStored || (o.direct == vC03DNotFound && o.create == 0)
		case o.qne && !c.ooo:
			succ = any && o.hh == vC03HAccept
		case o.direct == vC03DStored:
			succ = true
		case o.direct == vC03DRetryRefused || o.direct == vC03DRetryTimeout:
			succ = any && o.hh == vC03HAccept
		}
		if succ {
			e.ok++
		}
	}
	switch {
	case e.ok >= e.required:
		e.result = "nil"
	case e.hangs > 0:
		e.result = "timeout"
	case e.ok > 0:
		e.result = "partial"
	default:
		e.result = "failed"
	}
	return e
}

// expected number of handoff offers for owner i
func vC03WantHH(c *vC03Case, i int) int {
	o := c.out(i)
	if o.local {
		return 0
	}
	if o.qne && !c.ooo {
		return 1
	}
	if o.direct == vC03DRetryRefused || o.direct == vC03DRetryTimeout {
		return 1
	}
	return 0
}

type vC03Violation struct{ sig, msg string }

const vC03Watchdog = 30 * time.Second

// vC03Run executes one case and returns the first violation (or nil) and the classes of the case.
func vC03Run(c *vC03Case) (*vC03Violation, []string, *vC03Bed) {
	b := &vC03Bed{c: c, shardID: 7, byNode: map[uint64]*vC03Owner{}}
	b.points = []models.Point{
		models.MustNewPoint("m", models.NewTags(map[string]string{"host": "a"}), models.Fields{"v": 1.0}, time.Unix(10, 0)),
		models.MustNewPoint("m", models.NewTags(map[string]string{"host": "b"}), models.Fields{"v": 2.0}, time.Unix(20, 0)),
	}
	for i := 0; i < c.rf; i++ {
		o := &vC03Owner{node: uint64(i + 1), out: c.out(i), gate: make(chan struct{}), done: make(chan struct{})}
		b.owners = append(b.owners, o)
		b.byNode[o.node] = o
	}
	b.coordID = 99
	if c.coord < c.rf {
		b.coordID = uint64(c.coord + 1)
	}
	exp := vC03Oracle(c)

	w := NewPointsWriter()
	w.AllowOutOfOrderWrites = c.ooo
	w.MetaClient = vC03Meta{b}
	w.TSDBStore = vC03Store{b}
	w.ShardWriter = vC03Writer{b}
	w.HintedHandoff = vC03HH{b}
	// Only a case that must end in ErrTimeout runs with a short timeout; its verdict does not depend
	// on when the answering owners answer, because the silent owner is released only after the
	// write has returned. Every other case gets a timeout far beyond the watchdog.
	if exp.result == "timeout" {
		w.WriteTimeout = 10 * time.Millisecond
	} else {
		w.WriteTimeout = time.Hour
	}

	type res struct {
		err error
		pan interface{}
	}
	resCh := make(chan res, 1)
	go func() {
		var r res
		defer func() {
			r.pan = recover()
			resCh <- r
		}()
		r.err = w.WritePointsPrivileged("db", "rp", vC03Levels[c.level], b.points)
	}()

	fail := func(sig, f string, a ...interface{}) (*vC03Violation, []string, *vC03Bed) {
		// let every parked owner goroutine go before leaving
		for _, o := range b.owners {
			select {
			case <-o.gate:
			default:
				close(o.gate)
			}
		}
		return &vC03Violation{sig, fmt.Sprintf(f, a...)}, nil, b
	}
	waitDone := func(o *vC03Owner) bool {
		select {
		case <-o.done:
			return true
		case <-time.After(vC03Watchdog):
			return false
		}
	}

	// answering owners arrive in the chosen order
	stuck := -1
	for _, i := range c.perm {
		o := b.owners[i]
		if o.out.hang {
			continue
		}
		close(o.gate)
		if !waitDone(o) {
			stuck = i
			break
		}
		runtime.Gosched()
	}
	var r res
	if stuck < 0 {
		select {
		case r = <-resCh:
		case <-time.After(vC03Watchdog):
			return fail("write-hang", "WritePointsPrivileged did not return within %s although every answering owner had answered (expected %s)", vC03Watchdog, exp.result)
		}
		// now the silent owners answer (too late)
		for i, o := range b.owners {
			if o.out.hang {
				close(o.gate)
				if !waitDone(o) {
					stuck = i
					break
				}
			}
		}
	}
	// give a goroutine that makes a call beyond its script the chance to be seen
	for k := 0; k < 4; k++ {
		runtime.Gosched()
	}

	// ---- ledger
	b.mu.Lock()
	stray := append([]string(nil), b.stray...)
	b.mu.Unlock()
	if len(stray) > 0 {
		return fail("call-for-non-owner", "%s", stray[0])
	}
	for i, o := range b.owners {
		o.mu.Lock()
		sw, hhN, st, bad := o.swCalls, o.hhCalls, o.storeCalls, append([]string(nil), o.bad...)
		o.mu.Unlock()
		want := vC03WantHH(c, i)
		name := fmt.Sprintf("owner %d (node %d, %s)", i, o.node, o.out.name)
		switch {
		case hhN > want && want == 1:
			return fail("handoff-offered-more-than-once", "%s: HintedHandoff.WriteShard called %d times, want exactly once", name, hhN)
		case hhN > want:
			return fail("handoff-offered-without-cause", "%s: HintedHandoff.WriteShard called %d times, want never (owner stored, rejected permanently, or is the local node)", name, hhN)
		case hhN < want:
			return fail("handoff-not-offered", "%s: HintedHandoff.WriteShard never called although the owner could not be written for a retryable reason or its queue was non-empty", name)
		}
		if !o.out.local && o.out.qne && !c.ooo && sw > 0 {
			return fail("direct-write-overtakes-nonempty-queue", "%s: ShardWriter.WriteShard called %d times although the owner's handoff queue was non-empty and out-of-order writes are off", name, sw)
		}
		if !o.out.local && !(o.out.qne && !c.ooo) && sw == 0 {
			return fail("owner-never-written", "%s: ShardWriter.WriteShard was never called", name)
		}
		if o.out.local && st == 0 {
			return fail("owner-never-written", "%s: TSDBStore.WriteToShard was never called", name)
		}
		if len(bad) > 0 {
			sig := "wrong-arguments"
			if strings.Contains(bad[0], "after the owner's script") {
				sig = "call-after-script-complete"
			}
			return fail(sig, "%s: %s", name, bad[0])
		}
	}
	if stuck >= 0 {
		return fail("owner-goroutine-hang", "owner %d (%s) did not make its final scripted call within %s", stuck, c.out(stuck).name, vC03Watchdog)
	}

	// ---- result
	if r.pan != nil {
		return fail("write-panic", "WritePointsPrivileged panicked: %v", r.pan)
	}
	got := "failed"
	switch {
	case r.err == nil:
		got = "nil"
	case r.err == ErrTimeout:
		got = "timeout"
	case r.err == ErrPartialWrite:
		got = "partial"
	case strings.HasPrefix(r.err.Error(), "write failed"):
		got = "failed"
	default:
		got = "other:" + r.err.Error()
	}
	if got != exp.result {
		sig := "result-" + exp.result + "-reported-as-" + strings.SplitN(got, ":", 2)[0]
		return fail(sig, "level %s needs %d of %d owners; %d succeeded, %d gave no answer: want result %s, got %v", vC03LevelNames[c.level], exp.required, c.rf, exp.ok, exp.hangs, exp.result, r.err)
	}

	classes := []string{"level:" + vC03LevelNames[c.level], "rf:" + strconv.Itoa(c.rf), "expect:" + exp.result, fmt.Sprintf("ooo:%v", c.ooo)}
	if c.coord < c.rf {
		classes = append(classes, "coord:owner")
	} else {
		classes = append(classes, "coord:not-an-owner")
	}
	seen := map[string]bool{}
	for i := 0; i < c.rf; i++ {
		n := c.out(i).name
		if !seen[n] {
			seen[n] = true
			classes = append(classes, "has:"+n)
		}
	}
	if c.coord == c.rf && vC03Levels[c.level] == models.ConsistencyLevelAny {
		all := true
		for i := 0; i < c.rf; i++ {
			if o := c.out(i); !(o.qne && o.hh == vC03HAccept) {
				all = false
			}
		}
		if all && !c.ooo {
			classes = append(classes, "shape:any+not-owner+every-owner-queued")
		}
	}
	return nil, classes, b
}

func vC03Nontrivial(c *vC03Case) bool {
	for i := 0; i < c.rf; i++ {
		if i != c.coord && c.outs[i] != 0 {
			return true
		}
	}
	return false
}

// ---------------------------------------------------------------------------------------------
// enumeration

func vC03Perms(n int) [][]int {
	var out [][]int
	var rec func(cur []int, used []bool)
	rec = func(cur []int, used []bool) {
		if len(cur) == n {
			out = append(out, append([]int(nil), cur...))
			return
		}
		for i := 0; i < n; i++ {
			if !used[i] {
				used[i] = true
				rec(append(cur, i), used)
				used[i] = false
			}
		}
	}
	rec(nil, make([]bool, n))
	return out
}

// vC03Enumerate calls f for every case of replication factor rf.
func vC03Enumerate(rf int, f func(c *vC03Case)) {
	perms := vC03Perms(rf)
	for coord := 0; coord <= rf; coord++ {
		radix := make([]int, rf)
		total := 1
		for i := range radix {
			radix[i] = len(vC03Remote)
			if i == coord {
				radix[i] = len(vC03Local)
			}
			total *= radix[i]
		}
		for n := 0; n < total; n++ {
			outs := make([]int, rf)
			x := n
			for i := range outs {
				outs[i] = x % radix[i]
				x /= radix[i]
			}
			for level := range vC03Levels {
				for _, ooo := range []bool{false, true} {
					for _, p := range perms {
						f(&vC03Case{rf: rf, coord: coord, level: level, ooo: ooo, outs: outs, perm: p})
					}
				}
			}
		}
	}
}

const vC03Rule = "enumeration of replication factor x coordinator position (each owner / not an owner) x level {any,one,quorum,all} x AllowOutOfOrderWrites x per-owner outcome (13 remote: stored, retryable failure with handoff accepted/full/blocked/other error, 2 permanent rejections, queue already non-empty with enqueue accepted/full/blocked/other, 2 kinds of no answer before the timeout; 6 local: stored, shard-not-found then create+stored / create fails / create then store error, store error, no answer) x every arrival order; complete for RF 1-3 (quick tier: RF 1-2 complete and a seeded 1/N sample of RF 3), seeded sample of RF 4-5; non-trivial = at least one remote owner whose outcome is not 'stored'; every enumerated case is distinct"

func TestVerifC03Enumerate(t *testing.T) {
	st := verifkit.For("C03", "TestVerifC03Enumerate", vC03Rule)
	defer st.Flush()

	if cs := os.Getenv("VERIF_CASE"); cs != "" {
		c, err := vC03ParseCase(cs)
		if err != nil {
			t.Fatalf("bad VERIF_CASE: %v", err)
		}
		v, classes, _ := vC03Run(c)
		if v != nil {
			fmt.Printf("VERIF-CASE %s\n", c)
			t.Fatalf("%s %s\ncase: %s", verifkit.Sig(v.sig), v.msg, vC03Describe(c))
		}
		st.Case(vC03Nontrivial(c), c.String(), classes...)
		st.Case(true, c.String()+" (replay)", classes...)
		st.Sample(vC03Describe(c))
		return
	}

	shard := uint64(vEnvInt64("VERIF_SHARD", 0))
	nshards := uint64(vEnvInt64("VERIF_NSHARDS", 1))
	seed := uint64(vEnvInt64("VERIF_PLAIN_SEED", 1))
	rf3Sample := uint64(vEnvInt64("VERIF_C03_RF3_SAMPLE", 8))
	highRF := int(vEnvInt64("VERIF_C03_HIGH_RF", 300))
	width := int(vEnvInt64("VERIF_C03_WIDTH", 32))

	var mu sync.Mutex
	var first *vC03Violation
	var firstCase *vC03Case
	sem := make(chan struct{}, width)
	var wg sync.WaitGroup
	idx := uint64(0)
	submit := func(c *vC03Case) {
		mu.Lock()
		stop := first != nil
		mu.Unlock()
		if stop {
			return
		}
		cc := *c
		cc.outs = append([]int(nil), c.outs...)
		cc.perm = append([]int(nil), c.perm...)
		sem <- struct{}{}
		wg.Add(1)
		go func() {
			defer func() { <-sem; wg.Done() }()
			v, classes, _ := vC03Run(&cc)
			if v != nil {
				mu.Lock()
				if first == nil {
					first, firstCase = v, &cc
				}
				mu.Unlock()
				return
			}
			st.Case(vC03Nontrivial(&cc), cc.String(), classes...)
			if st.WantSample() {
				st.Sample(vC03Describe(&cc))
			} else {
				st.Sample(nil)
			}
		}()
	}
	for rf := 1; rf <= 3; rf++ {
		vC03Enumerate(rf, func(c *vC03Case) {
			idx++
			if idx%nshards != shard {
				return
			}
			if rf == 3 && rf3Sample > 1 && vMix(seed, idx)%rf3Sample != 0 {
				return
			}
			submit(c)
		})
	}
	// sampled RF 4-5
	rng := vSplitMix{s: seed ^ 0xc03}
	for k := 0; k < highRF; k++ {
		rf := 4 + rng.intn(2)
		c := &vC03Case{rf: rf, coord: rng.intn(rf + 1), level: rng.intn(4), ooo: rng.intn(2) == 0, outs: make([]int, rf), perm: make([]int, rf)}
		for i := range c.outs {
			if i == c.coord {
				c.outs[i] = rng.intn(len(vC03Local))
			} else {
				// half of the owners simply store, so that quorum/all are reachable
				if rng.intn(2) == 0 {
					c.outs[i] = 0
				} else {
					c.outs[i] = rng.intn(len(vC03Remote))
				}
			}
			c.perm[i] = i
		}
		for i := rf - 1; i > 0; i-- {
			j := rng.intn(i + 1)
			c.perm[i], c.perm[j] = c.perm[j], c.perm[i]
		}
		if uint64(k)%nshards != shard {
			continue
		}
		submit(c)
	}
	wg.Wait()
	if first != nil {
		fmt.Printf("VERIF-CASE %s\n", firstCase)
		t.Fatalf("%s %s\ncase: %s", verifkit.Sig(first.sig), first.msg, vC03Describe(firstCase))
	}
	if rf3Sample <= 1 {
		st.SetExhaustive(true)
		st.Note("exhaustive", "every case of replication factor 1, 2 and 3 was run (split over the shards of this run)")
	} else {
		st.Note("exhaustive", fmt.Sprintf("replication factors 1 and 2 complete; replication factor 3 sampled 1/%d", rf3Sample))
	}
}

func vC03Describe(c *vC03Case) map[string]interface{} {
	var owners []string
	for i := 0; i < c.rf; i++ {
		owners = append(owners, fmt.Sprintf("node %d: %s", i+1, c.out(i).name))
	}
	coord := "not an owner"
	if c.coord < c.rf {
		coord = fmt.Sprintf("node %d", c.coord+1)
	}
	e := vC03Oracle(c)
	return map[string]interface{}{"case": c.String(), "coordinator": coord, "level": vC03LevelNames[c.level], "allowOutOfOrderWrites": c.ooo,
		"owners": owners, "arrival_order": c.perm, "expected_result": e.result, "required": e.required, "successful_owners": e.ok}
}
