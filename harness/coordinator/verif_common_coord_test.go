//go:build verif

package coordinator

// Helpers shared by the coordinator beds (W: points writer, R: routing, N: network).

import (
	"os"
	"strconv"
)

// vEnvInt64 reads an integer knob passed by the driver.
func vEnvInt64(name string, def int64) int64 {
	if v := os.Getenv(name); v != "" {
		if n, err := strconv.ParseInt(v, 10, 64); err == nil {
			return n
		}
	}
	return def
}

// vSplitMix is the deterministic pseudo-random source of the plain (non-rapid) tests. It is
// seeded from VERIF_PLAIN_SEED only.
type vSplitMix struct{ s uint64 }

func (r *vSplitMix) next() uint64 {
	r.s += 0x9e3779b97f4a7c15
	z := r.s
	z = (z ^ (z >> 30)) * 0xbf58476d1ce4e5b9
	z = (z ^ (z >> 27)) * 0x94d049bb133111eb
	return z ^ (z >> 31)
}

func (r *vSplitMix) intn(n int) int { return int(r.next() % uint64(n)) }

// vMix hashes a case index with a seed (used to take a seeded 1/k sample of an enumeration).
func vMix(seed, i uint64) uint64 {
	r := vSplitMix{s: seed ^ (i * 0x9e3779b97f4a7c15)}
	return r.next()
}

// The repository's own pool_test.go starts a TCP server on the fixed address 127.0.0.1:7777 from an
// init function and calls log.Fatal when the port is taken, so two test processes of this package
// could never run at the same time. Package-level variables are initialised before any init
// function runs, and this initialiser depends on `address`, so it runs after `address` got its
// literal value and before pool_test.go's init reads it: the helper server then listens on a free
// port. (Only the repository's own pool tests use that server; the harness never runs them.)
var _ = func() bool { address = "127.0.0.1:0"; return true }()
