//go:build verif

package coordinator

// C15 (b) - every request and response of the inter-node protocol decodes to what was encoded,
// including streamed query points with tags, auxiliary values and nil markers.

import (
	"bytes"
	"context"
	"encoding"
	"errors"
	"fmt"
	"math"
	"reflect"
	"regexp"
	"sort"
	"strings"
	"testing"
	"time"

	"github.com/influxdata/influxdb/models"
	"github.com/influxdata/influxdb/pkg/estimator"
	"github.com/influxdata/influxdb/pkg/estimator/hll"
	"github.com/influxdata/influxdb/pkg/tracing"
	"github.com/influxdata/influxdb/query"
	"github.com/influxdata/influxdb/services/meta"
	"github.com/influxdata/influxdb/tsdb"
	"github.com/influxdata/influxql"
	"pgregory.net/rapid"
	"verifkit"
)

// ---------------------------------------------------------------------------------------------
// canonical exported view of a message (reflection over exported fields; nil and empty slices/maps
// are the same; errors by text; expressions, sources, regexes, locations by their text; sketches by
// their encoding; floats by bits)

func vC15View(v interface{}) string {
	var sb strings.Builder
	vC15ViewVal(&sb, reflect.ValueOf(v), 0)
	return sb.String()
}

var (
	vC15ErrType    = reflect.TypeOf((*error)(nil)).Elem()
	vC15StringerT  = reflect.TypeOf((*fmt.Stringer)(nil)).Elem()
	vC15TimeType   = reflect.TypeOf(time.Time{})
	vC15SketchType = reflect.TypeOf((*estimator.Sketch)(nil)).Elem()
)

func vC15ViewVal(sb *strings.Builder, v reflect.Value, depth int) {
	if depth > 12 {
		sb.WriteString("<deep>")
		return
	}
	if !v.IsValid() {
		sb.WriteString("nil")
		return
	}
	t := v.Type()
	// special renderings
	if v.CanInterface() {
		switch x := v.Interface().(type) {
		case time.Time:
			fmt.Fprintf(sb, "time(%d)", x.UnixNano())
			return
		case *time.Location:
			if x == nil {
				sb.WriteString("loc(nil)")
			} else {
				fmt.Fprintf(sb, "loc(%s)", x.String())
			}
			return
		case *regexp.Regexp:
			if x == nil {
				sb.WriteString("re(nil)")
			} else {
				fmt.Fprintf(sb, "re(%s)", x.String())
			}
			return
		case influxql.Measurement:
			fmt.Fprintf(sb, "measurement{%q %q %q regex=%v sys=%q target=%v}", x.Database, x.RetentionPolicy, x.Name, vC15Regex(x.Regex), x.SystemIterator, x.IsTarget)
			return
		case *influxql.Measurement:
			if x == nil {
				sb.WriteString("measurement(nil)")
				return
			}
			fmt.Fprintf(sb, "measurement{%q %q %q regex=%v sys=%q target=%v}", x.Database, x.RetentionPolicy, x.Name, vC15Regex(x.Regex), x.SystemIterator, x.IsTarget)
			return
		case influxql.VarRef:
			fmt.Fprintf(sb, "ref(%s::%s)", x.Val, x.Type)
			return
		case error:
			if x == nil {
				sb.WriteString("err(nil)")
			} else {
				fmt.Fprintf(sb, "err(%q)", x.Error())
			}
			return
		case estimator.Sketch:
			if x == nil || (v.Kind() == reflect.Ptr && v.IsNil()) {
				sb.WriteString("sketch(nil)")
			} else {
				// the binary form of an HLL++ sketch is not canonical (sparse/dense, pending set);
				// its estimate is what the protocol has to carry
				fmt.Fprintf(sb, "sketch(count=%d)", x.Count())
			}
			return
		case models.Row:
			fmt.Fprintf(sb, "row{%q %v %v %v partial=%v}", x.Name, vC15SortedMap(x.Tags), x.Columns, x.Values, x.Partial)
			return
		}
	}
	switch t.Kind() {
	case reflect.Interface:
		if v.IsNil() {
			sb.WriteString("nil")
			return
		}
		if t == vC15ErrType {
			fmt.Fprintf(sb, "err(%q)", v.Interface().(error).Error())
			return
		}
		e := v.Elem()
		if s, ok := v.Interface().(influxql.Node); ok && !(e.Kind() == reflect.Ptr && e.IsNil()) {
			fmt.Fprintf(sb, "node(%s)", s.String())
			return
		}
		fmt.Fprintf(sb, "(%s)", e.Type())
		vC15ViewVal(sb, e, depth+1)
	case reflect.Ptr:
		if v.IsNil() {
			fmt.Fprintf(sb, "nil(%s)", t)
			return
		}
		sb.WriteString("&")
		vC15ViewVal(sb, v.Elem(), depth+1)
	case reflect.Struct:
		sb.WriteString(t.Name() + "{")
		for i := 0; i < t.NumField(); i++ {
			if t.Field(i).PkgPath != "" {
				continue // unexported
			}
			sb.WriteString(t.Field(i).Name + ":")
			if t.Field(i).Name == "FillValue" && v.Field(i).Kind() == reflect.Interface && !v.Field(i).IsNil() {
				// the wire carries the fill value as a double: fill(5) (int64) arrives as 5.0, value-equal
				switch x := v.Field(i).Interface().(type) {
				case int64:
					fmt.Fprintf(sb, "number(%v) ", float64(x))
					continue
				case float64:
					fmt.Fprintf(sb, "number(%v) ", x)
					continue
				}
			}
			vC15ViewVal(sb, v.Field(i), depth+1)
			sb.WriteString(" ")
		}
		sb.WriteString("}")
	case reflect.Slice, reflect.Array:
		if t.Kind() == reflect.Slice && t.Elem().Kind() == reflect.Uint8 {
			fmt.Fprintf(sb, "bytes(%x)", v.Bytes())
			return
		}
		sb.WriteString("[")
		for i := 0; i < v.Len(); i++ {
			vC15ViewVal(sb, v.Index(i), depth+1)
			sb.WriteString(",")
		}
		sb.WriteString("]")
	case reflect.Map:
		var keys []string
		m := map[string]reflect.Value{}
		for _, k := range v.MapKeys() {
			ks := fmt.Sprint(k.Interface())
			keys = append(keys, ks)
			m[ks] = v.MapIndex(k)
		}
		sort.Strings(keys)
		sb.WriteString("map[")
		for _, k := range keys {
			sb.WriteString(k + ":")
			vC15ViewVal(sb, m[k], depth+1)
			sb.WriteString(",")
		}
		sb.WriteString("]")
	case reflect.Float32, reflect.Float64:
		fmt.Fprintf(sb, "f(%x)", math.Float64bits(v.Float()))
	case reflect.String:
		fmt.Fprintf(sb, "%q", v.String())
	default:
		fmt.Fprintf(sb, "%v", v.Interface())
	}
}

func vC15Regex(r *influxql.RegexLiteral) string {
	if r == nil || r.Val == nil {
		return "nil"
	}
	return "/" + r.Val.String() + "/"
}

func vC15SortedMap(m map[string]string) string {
	var ks []string
	for k := range m {
		ks = append(ks, k)
	}
	sort.Strings(ks)
	var sb strings.Builder
	for _, k := range ks {
		fmt.Fprintf(&sb, "%q=%q,", k, m[k])
	}
	return sb.String()
}

// view of the two messages whose fields are unexported protobuf structs
func vC15ViewMsg(m interface{}) string {
	switch x := m.(type) {
	case *WriteShardRequest:
		return fmt.Sprintf("WriteShardRequest{shard=%d db=%q rp=%q points=%x}", x.ShardID(), x.Database(), x.RetentionPolicy(), x.pb.Points)
	case *WriteShardResponse:
		return fmt.Sprintf("WriteShardResponse{code=%d msg=%q}", x.Code(), x.Message())
	case *ExecuteStatementRequest:
		return fmt.Sprintf("ExecuteStatementRequest{stmt=%q db=%q}", x.Statement(), x.Database())
	case *ExecuteStatementResponse:
		return fmt.Sprintf("ExecuteStatementResponse{code=%d msg=%q}", x.Code(), x.Message())
	}
	return vC15View(m)
}

// ---------------------------------------------------------------------------------------------
// response generators

func vC15DrawErr(rt *rapid.T, label string) error {
	switch rapid.IntRange(0, 3).Draw(rt, label+".err") {
	case 0:
		return errors.New(rapid.SampledFrom([]string{"shard not found", "", "engine: closed", "ünïcode \x00 msg", "partial write: dropped=1"}).Draw(rt, label+".errText"))
	default:
		return nil
	}
}

func vC15DrawSketch(rt *rapid.T, label string) estimator.Sketch {
	if rapid.IntRange(0, 3).Draw(rt, label+".nil") == 0 {
		return nil
	}
	s := hll.NewDefaultPlus()
	for i := rapid.IntRange(0, 40).Draw(rt, label+".n"); i > 0; i-- {
		s.Add([]byte(fmt.Sprintf("series-%d-%d", i, rapid.IntRange(0, 1000).Draw(rt, label+".k"))))
	}
	return s
}

type vC15RT struct {
	name string
	draw func(rt *rapid.T) vC15Marshaler
	zero func() encoding.BinaryUnmarshaler
}

func vC15Responses() []vC15RT {
	strs := func(rt *rapid.T, label string) []string {
		return rapid.SliceOfN(rapid.SampledFrom([]string{"host", "region", "", "a b", "ü"}), 0, 4).Draw(rt, label)
	}
	return []vC15RT{
		{"WriteShardResponse", func(rt *rapid.T) vC15Marshaler {
			var r WriteShardResponse
			r.SetCode(rapid.IntRange(-2, 3).Draw(rt, "code"))
			if rapid.Bool().Draw(rt, "hasMsg") {
				r.SetMessage(rapid.SampledFrom([]string{"", "write shard 7: engine closed", "x"}).Draw(rt, "msg"))
			}
			return &r
		}, func() encoding.BinaryUnmarshaler { return &WriteShardResponse{} }},
		{"ExecuteStatementResponse", func(rt *rapid.T) vC15Marshaler {
			var r ExecuteStatementResponse
			r.SetCode(rapid.IntRange(0, 2).Draw(rt, "code"))
			r.SetMessage(rapid.SampledFrom([]string{"", "database not found", "x"}).Draw(rt, "msg"))
			return &r
		}, func() encoding.BinaryUnmarshaler { return &ExecuteStatementResponse{} }},
		{"TaskManagerStatementResponse", func(rt *rapid.T) vC15Marshaler {
			r := &TaskManagerStatementResponse{Err: vC15DrawErr(rt, "e")}
			r.Result.StatementID = rapid.IntRange(0, 3).Draw(rt, "sid")
			if rapid.Bool().Draw(rt, "rows") {
				r.Result.Series = models.Rows{&models.Row{Name: "queries", Columns: []string{"qid", "query", "database", "duration", "status"}, Values: [][]interface{}{{float64(1), "SELECT 1", "db", "1s", "running"}}}}
			}
			if rapid.Bool().Draw(rt, "msgs") {
				r.Result.Messages = []*query.Message{{Level: "warning", Text: "read only"}}
			}
			if rapid.IntRange(0, 3).Draw(rt, "resErr") == 0 {
				r.Result.Err = errors.New("query interrupted")
			}
			return r
		}, func() encoding.BinaryUnmarshaler { return &TaskManagerStatementResponse{} }},
		{"MeasurementNamesResponse", func(rt *rapid.T) vC15Marshaler {
			r := &MeasurementNamesResponse{Err: vC15DrawErr(rt, "e")}
			for _, s := range strs(rt, "names") {
				r.Names = append(r.Names, []byte(s))
			}
			return r
		}, func() encoding.BinaryUnmarshaler { return &MeasurementNamesResponse{} }},
		{"TagKeysResponse", func(rt *rapid.T) vC15Marshaler {
			r := &TagKeysResponse{Err: vC15DrawErr(rt, "e")}
			for i := rapid.IntRange(0, 3).Draw(rt, "n"); i > 0; i-- {
				r.TagKeys = append(r.TagKeys, tsdb.TagKeys{Measurement: rapid.SampledFrom([]string{"cpu", "", "a,b"}).Draw(rt, "m"), Keys: strs(rt, "keys")})
			}
			return r
		}, func() encoding.BinaryUnmarshaler { return &TagKeysResponse{} }},
		{"TagValuesResponse", func(rt *rapid.T) vC15Marshaler {
			r := &TagValuesResponse{Err: vC15DrawErr(rt, "e")}
			for i := rapid.IntRange(0, 3).Draw(rt, "n"); i > 0; i-- {
				tv := tsdb.TagValues{Measurement: rapid.SampledFrom([]string{"cpu", "", "a,b"}).Draw(rt, "m")}
				for _, s := range strs(rt, "kvs") {
					tv.Values = append(tv.Values, tsdb.KeyValue{Key: s, Value: s + "v"})
				}
				r.TagValues = append(r.TagValues, tv)
			}
			return r
		}, func() encoding.BinaryUnmarshaler { return &TagValuesResponse{} }},
		{"SeriesSketchesResponse", func(rt *rapid.T) vC15Marshaler {
			return &SeriesSketchesResponse{Sketch: vC15DrawSketch(rt, "s"), TSSketch: vC15DrawSketch(rt, "ts"), Err: vC15DrawErr(rt, "e")}
		}, func() encoding.BinaryUnmarshaler { return &SeriesSketchesResponse{} }},
		{"MeasurementsSketchesResponse", func(rt *rapid.T) vC15Marshaler {
			return &MeasurementsSketchesResponse{Sketch: vC15DrawSketch(rt, "s"), TSSketch: vC15DrawSketch(rt, "ts"), Err: vC15DrawErr(rt, "e")}
		}, func() encoding.BinaryUnmarshaler { return &MeasurementsSketchesResponse{} }},
		{"StoreReadFilterResponse", func(rt *rapid.T) vC15Marshaler { return &StoreReadFilterResponse{Err: vC15DrawErr(rt, "e")} }, func() encoding.BinaryUnmarshaler { return &StoreReadFilterResponse{} }},
		{"StoreReadGroupResponse", func(rt *rapid.T) vC15Marshaler { return &StoreReadGroupResponse{Err: vC15DrawErr(rt, "e")} }, func() encoding.BinaryUnmarshaler { return &StoreReadGroupResponse{} }},
		{"CreateIteratorResponse", func(rt *rapid.T) vC15Marshaler {
			return &CreateIteratorResponse{Err: vC15DrawErr(rt, "e"), Type: influxql.DataType(rapid.IntRange(0, 9).Draw(rt, "type")), Stats: query.IteratorStats{SeriesN: rapid.IntRange(0, 1<<40).Draw(rt, "sn"), PointN: rapid.IntRange(0, 1<<40).Draw(rt, "pn")}}
		}, func() encoding.BinaryUnmarshaler { return &CreateIteratorResponse{} }},
		{"IteratorCostResponse", func(rt *rapid.T) vC15Marshaler {
			i64 := func(l string) int64 { return rapid.Int64().Draw(rt, l) }
			return &IteratorCostResponse{Err: vC15DrawErr(rt, "e"), Cost: query.IteratorCost{NumShards: i64("a"), NumSeries: i64("b"), CachedValues: i64("c"), NumFiles: i64("d"), BlocksRead: i64("e2"), BlockSize: i64("f")}}
		}, func() encoding.BinaryUnmarshaler { return &IteratorCostResponse{} }},
		{"FieldDimensionsResponse", func(rt *rapid.T) vC15Marshaler {
			r := &FieldDimensionsResponse{Err: vC15DrawErr(rt, "e")}
			if rapid.Bool().Draw(rt, "hasF") {
				r.Fields = map[string]influxql.DataType{}
				for _, s := range strs(rt, "f") {
					r.Fields[s] = influxql.DataType(rapid.IntRange(0, 8).Draw(rt, "ft"))
				}
			}
			if rapid.Bool().Draw(rt, "hasD") {
				r.Dimensions = map[string]struct{}{}
				for _, s := range strs(rt, "d") {
					r.Dimensions[s] = struct{}{}
				}
			}
			return r
		}, func() encoding.BinaryUnmarshaler { return &FieldDimensionsResponse{} }},
		{"MapTypeResponse", func(rt *rapid.T) vC15Marshaler {
			return &MapTypeResponse{Err: vC15DrawErr(rt, "e"), Type: influxql.DataType(rapid.IntRange(0, 9).Draw(rt, "type"))}
		}, func() encoding.BinaryUnmarshaler { return &MapTypeResponse{} }},
		{"ExpandSourcesResponse", func(rt *rapid.T) vC15Marshaler {
			r := &ExpandSourcesResponse{Err: vC15DrawErr(rt, "e")}
			for i := rapid.IntRange(0, 3).Draw(rt, "n"); i > 0; i-- {
				m := vC15DrawMeasurement(rt, fmt.Sprintf("m%d", i))
				r.Sources = append(r.Sources, &m)
			}
			return r
		}, func() encoding.BinaryUnmarshaler { return &ExpandSourcesResponse{} }},
		{"CopyShardResponse", func(rt *rapid.T) vC15Marshaler { return &CopyShardResponse{Err: vC15DrawErr(rt, "e")} }, func() encoding.BinaryUnmarshaler { return &CopyShardResponse{} }},
		{"RemoveShardResponse", func(rt *rapid.T) vC15Marshaler { return &RemoveShardResponse{Err: vC15DrawErr(rt, "e")} }, func() encoding.BinaryUnmarshaler { return &RemoveShardResponse{} }},
		{"ListShardsResponse", func(rt *rapid.T) vC15Marshaler {
			r := &ListShardsResponse{Err: vC15DrawErr(rt, "e")}
			if rapid.Bool().Draw(rt, "has") {
				r.Shards = map[uint64]*meta.ShardOwnerInfo{}
				for i := rapid.IntRange(0, 3).Draw(rt, "n"); i > 0; i-- {
					r.Shards[rapid.Uint64().Draw(rt, "id")] = &meta.ShardOwnerInfo{ID: rapid.Uint64Range(0, 9).Draw(rt, "node"), TCPAddr: "127.0.0.1:8088", State: rapid.SampledFrom([]string{"hot", "cold", ""}).Draw(rt, "state"),
						LastModified: time.Unix(0, rapid.Int64Range(0, 4e18).Draw(rt, "lm")).UTC(), Size: rapid.Int64().Draw(rt, "size"), Err: rapid.SampledFrom([]string{"", "not found"}).Draw(rt, "serr")}
				}
			}
			return r
		}, func() encoding.BinaryUnmarshaler { return &ListShardsResponse{} }},
		{"JoinClusterResponse", func(rt *rapid.T) vC15Marshaler {
			r := &JoinClusterResponse{Err: vC15DrawErr(rt, "e")}
			if rapid.Bool().Draw(rt, "node") {
				r.Node = &meta.NodeInfo{ID: rapid.Uint64().Draw(rt, "id"), Addr: rapid.SampledFrom([]string{"", "h:8086"}).Draw(rt, "addr"), TCPAddr: rapid.SampledFrom([]string{"", "h:8088"}).Draw(rt, "tcp")}
			}
			return r
		}, func() encoding.BinaryUnmarshaler { return &JoinClusterResponse{} }},
		{"LeaveClusterResponse", func(rt *rapid.T) vC15Marshaler { return &LeaveClusterResponse{Err: vC15DrawErr(rt, "e")} }, func() encoding.BinaryUnmarshaler { return &LeaveClusterResponse{} }},
		{"RemoveHintedHandoffResponse", func(rt *rapid.T) vC15Marshaler { return &RemoveHintedHandoffResponse{Err: vC15DrawErr(rt, "e")} }, func() encoding.BinaryUnmarshaler { return &RemoveHintedHandoffResponse{} }},
	}
}

const vC15RTRule = "rapid: one message per case, drawn from all 20 request types with a payload (generated shard lists, names, conditions, measurements with regex / system iterator, iterator options with expression, aux, dimensions, interval, fill, location, sources, read requests with predicate trees) and all 21 response types (errors incl. empty text, sketches incl. nil, maps, JSON-carried bodies); oracle: Unmarshal(Marshal(m)) has the same canonical exported view as m; non-trivial = message has a non-default field beyond ids (all generated ones do) - counted distinct by the view hash"

func TestVerifC15RoundTrip(t *testing.T) {
	st := verifkit.For("C15", "TestVerifC15RoundTrip", vC15RTRule)
	defer st.Flush()
	resps := vC15Responses()
	var reqKinds []*vC15Kind
	for _, k := range vC15Kinds {
		if !k.noLV {
			reqKinds = append(reqKinds, k)
		}
	}
	rapid.Check(t, func(rt *rapid.T) {
		var m vC15Marshaler
		var zero encoding.BinaryUnmarshaler
		var name string
		if rapid.Bool().Draw(rt, "isRequest") {
			k := reqKinds[rapid.IntRange(0, len(reqKinds)-1).Draw(rt, "req")]
			_, content, v := vC15DrawValidValue(rt, k, "m")
			if content == "undecodable-binary-point" {
				content = "" // the envelope itself still has to round-trip
			}
			m, zero, name = v, k.newReq(), k.name+"Request"
		} else {
			r := resps[rapid.IntRange(0, len(resps)-1).Draw(rt, "resp")]
			m, zero, name = r.draw(rt), r.zero(), r.name
		}
		before := vC15ViewMsg(m)
		var b []byte
		var err error
		var pan interface{}
		func() {
			defer func() { pan = recover() }()
			b, err = m.MarshalBinary()
			if err == nil {
				err = zero.UnmarshalBinary(b)
			}
		}()
		if pan != nil {
			rt.Fatalf("%s %s: Marshal/Unmarshal panicked: %v\nmessage: %s", verifkit.Sig("roundtrip-panic"), name, pan, before)
		}
		if err != nil {
			rt.Fatalf("%s %s: a well-formed message does not survive Marshal+Unmarshal: %v\nmessage: %s", verifkit.Sig("roundtrip-error:"+name), name, err, before)
		}
		after := vC15ViewMsg(zero)
		if before != after {
			rt.Fatalf("%s %s decodes to something else than was encoded\nencoded: %s\ndecoded: %s", verifkit.Sig("roundtrip-differs:"+name), name, before, after)
		}
		st.Case(true, before, "msg:"+name)
		if st.WantSample() {
			st.Sample(map[string]interface{}{"message": name, "view": before, "encoded_bytes": len(b)})
		} else {
			st.Sample(nil)
		}
	})
}


// ---------------------------------------------------------------------------------------------
// streamed query points: IteratorEncoder -> ReaderIterator

type vC15FloatItr struct {
	pts   []query.FloatPoint
	i     int
	stats query.IteratorStats
}

func (it *vC15FloatItr) Stats() query.IteratorStats { return it.stats }
func (it *vC15FloatItr) Close() error               { return nil }
func (it *vC15FloatItr) Next() (*query.FloatPoint, error) {
	if it.i >= len(it.pts) {
		return nil, nil
	}
	it.i++
	return &it.pts[it.i-1], nil
}

type vC15IntItr struct {
	pts   []query.IntegerPoint
	i     int
	stats query.IteratorStats
}

func (it *vC15IntItr) Stats() query.IteratorStats { return it.stats }
func (it *vC15IntItr) Close() error               { return nil }
func (it *vC15IntItr) Next() (*query.IntegerPoint, error) {
	if it.i >= len(it.pts) {
		return nil, nil
	}
	it.i++
	return &it.pts[it.i-1], nil
}

type vC15UintItr struct {
	pts   []query.UnsignedPoint
	i     int
	stats query.IteratorStats
}

func (it *vC15UintItr) Stats() query.IteratorStats { return it.stats }
func (it *vC15UintItr) Close() error               { return nil }
func (it *vC15UintItr) Next() (*query.UnsignedPoint, error) {
	if it.i >= len(it.pts) {
		return nil, nil
	}
	it.i++
	return &it.pts[it.i-1], nil
}

type vC15StrItr struct {
	pts   []query.StringPoint
	i     int
	stats query.IteratorStats
}

func (it *vC15StrItr) Stats() query.IteratorStats { return it.stats }
func (it *vC15StrItr) Close() error               { return nil }
func (it *vC15StrItr) Next() (*query.StringPoint, error) {
	if it.i >= len(it.pts) {
		return nil, nil
	}
	it.i++
	return &it.pts[it.i-1], nil
}

type vC15BoolItr struct {
	pts   []query.BooleanPoint
	i     int
	stats query.IteratorStats
}

func (it *vC15BoolItr) Stats() query.IteratorStats { return it.stats }
func (it *vC15BoolItr) Close() error               { return nil }
func (it *vC15BoolItr) Next() (*query.BooleanPoint, error) {
	if it.i >= len(it.pts) {
		return nil, nil
	}
	it.i++
	return &it.pts[it.i-1], nil
}

type vC15Common struct {
	name string
	tags query.Tags
	time int64
	aux  []interface{}
	agg  uint32
	null bool
}

func vC15DrawCommon(rt *rapid.T, label string) vC15Common {
	c := vC15Common{
		name: rapid.SampledFrom([]string{"cpu", "", "a b", "ü"}).Draw(rt, label+".name"),
		time: rapid.SampledFrom([]int64{0, 1, -1, math.MinInt64, math.MaxInt64, 1600000000000000000}).Draw(rt, label+".time"),
		agg:  rapid.SampledFrom([]uint32{0, 0, 1, 7, math.MaxUint32}).Draw(rt, label+".agg"),
		null: rapid.IntRange(0, 3).Draw(rt, label+".nil") == 0,
	}
	tm := map[string]string{}
	for i := rapid.IntRange(0, 3).Draw(rt, label+".ntags"); i > 0; i-- {
		tm[rapid.SampledFrom([]string{"host", "region", "dc", "a b"}).Draw(rt, label+".tk")] = rapid.SampledFrom([]string{"a", "", "x y", "ü", "b"}).Draw(rt, label+".tv")
	}
	c.tags = query.NewTags(tm)
	n := rapid.IntRange(0, 5).Draw(rt, label+".naux")
	if n > 0 || rapid.Bool().Draw(rt, label+".emptyAux") {
		c.aux = make([]interface{}, n)
	}
	for i := 0; i < n; i++ {
		switch rapid.IntRange(0, 10).Draw(rt, label+".auxKind") {
		case 0:
			c.aux[i] = rapid.Float64().Draw(rt, label+".af")
		case 1:
			c.aux[i] = (*float64)(nil)
		case 2:
			c.aux[i] = rapid.Int64().Draw(rt, label+".ai")
		case 3:
			c.aux[i] = (*int64)(nil)
		case 4:
			c.aux[i] = rapid.Uint64().Draw(rt, label+".au")
		case 5:
			c.aux[i] = (*uint64)(nil)
		case 6:
			c.aux[i] = rapid.SampledFrom([]string{"", "s", "x\x00y", "ü"}).Draw(rt, label+".as")
		case 7:
			c.aux[i] = (*string)(nil)
		case 8:
			c.aux[i] = rapid.Bool().Draw(rt, label+".ab")
		case 9:
			c.aux[i] = (*bool)(nil)
		default:
			c.aux[i] = nil
		}
	}
	return c
}

func vC15PointView(name string, tags query.Tags, tm int64, value interface{}, aux []interface{}, agg uint32, null bool) string {
	var sb strings.Builder
	fmt.Fprintf(&sb, "name=%q tags=%q{%s} time=%d agg=%d nil=%v value=", name, tags.ID(), vC15SortedMap(tags.KeyValues()), tm, agg, null)
	if null {
		sb.WriteString("-") // the value of a nil point is not observable (value() returns nil)
	} else {
		vC15ViewVal(&sb, reflect.ValueOf(value), 0)
	}
	sb.WriteString(" aux=[")
	for _, a := range aux {
		if a == nil {
			sb.WriteString("untyped-nil,")
			continue
		}
		fmt.Fprintf(&sb, "(%T)", a)
		vC15ViewVal(&sb, reflect.ValueOf(a), 0)
		sb.WriteString(",")
	}
	sb.WriteString("]")
	return sb.String()
}

const vC15StreamRule = "rapid: 0-12 points of one of the five value types with generated name, tags (empty values, spaces), extreme times, aggregated counts, nil marker, aux values of every type including typed nil pointers and untyped nil, extreme and NaN/Inf float values; encoded with query.IteratorEncoder (initial and final stats frames, optionally a trace frame) and read back with query.NewReaderIterator; oracle: same number of points, every point equal field by field, final stats equal; non-trivial = at least one point with aux values or a nil marker; distinct = hash of the point views"

func TestVerifC15PointStream(t *testing.T) {
	st := verifkit.For("C15", "TestVerifC15PointStream", vC15StreamRule)
	defer st.Flush()
	rapid.Check(t, func(rt *rapid.T) {
		typ := rapid.SampledFrom([]influxql.DataType{influxql.Float, influxql.Integer, influxql.Unsigned, influxql.String, influxql.Boolean}).Draw(rt, "type")
		n := rapid.IntRange(0, 12).Draw(rt, "n")
		stats := query.IteratorStats{SeriesN: rapid.IntRange(0, 1000).Draw(rt, "seriesN"), PointN: rapid.IntRange(0, 1<<40).Draw(rt, "pointN")}
		var want []string
		var itr query.Iterator
		nt := false
		var fl []query.FloatPoint
		var il []query.IntegerPoint
		var ul []query.UnsignedPoint
		var sl []query.StringPoint
		var bl []query.BooleanPoint
		for i := 0; i < n; i++ {
			c := vC15DrawCommon(rt, fmt.Sprintf("p%d", i))
			if len(c.aux) > 0 || c.null {
				nt = true
			}
			switch typ {
			case influxql.Float:
				v := rapid.OneOf(rapid.Float64(), rapid.SampledFrom([]float64{0, math.Copysign(0, -1), math.NaN(), math.Inf(1), math.Inf(-1), math.MaxFloat64, math.SmallestNonzeroFloat64})).Draw(rt, "fv")
				fl = append(fl, query.FloatPoint{Name: c.name, Tags: c.tags, Time: c.time, Value: v, Aux: c.aux, Aggregated: c.agg, Nil: c.null})
				want = append(want, vC15PointView(c.name, c.tags, c.time, v, c.aux, c.agg, c.null))
			case influxql.Integer:
				v := rapid.Int64().Draw(rt, "iv")
				il = append(il, query.IntegerPoint{Name: c.name, Tags: c.tags, Time: c.time, Value: v, Aux: c.aux, Aggregated: c.agg, Nil: c.null})
				want = append(want, vC15PointView(c.name, c.tags, c.time, v, c.aux, c.agg, c.null))
			case influxql.Unsigned:
				v := rapid.Uint64().Draw(rt, "uv")
				ul = append(ul, query.UnsignedPoint{Name: c.name, Tags: c.tags, Time: c.time, Value: v, Aux: c.aux, Aggregated: c.agg, Nil: c.null})
				want = append(want, vC15PointView(c.name, c.tags, c.time, v, c.aux, c.agg, c.null))
			case influxql.String:
				v := rapid.SampledFrom([]string{"", "s", "x\x00y", "ü", strings.Repeat("z", 300)}).Draw(rt, "sv")
				sl = append(sl, query.StringPoint{Name: c.name, Tags: c.tags, Time: c.time, Value: v, Aux: c.aux, Aggregated: c.agg, Nil: c.null})
				want = append(want, vC15PointView(c.name, c.tags, c.time, v, c.aux, c.agg, c.null))
			case influxql.Boolean:
				v := rapid.Bool().Draw(rt, "bv")
				bl = append(bl, query.BooleanPoint{Name: c.name, Tags: c.tags, Time: c.time, Value: v, Aux: c.aux, Aggregated: c.agg, Nil: c.null})
				want = append(want, vC15PointView(c.name, c.tags, c.time, v, c.aux, c.agg, c.null))
			}
		}
		switch typ {
		case influxql.Float:
			itr = &vC15FloatItr{pts: fl, stats: stats}
		case influxql.Integer:
			itr = &vC15IntItr{pts: il, stats: stats}
		case influxql.Unsigned:
			itr = &vC15UintItr{pts: ul, stats: stats}
		case influxql.String:
			itr = &vC15StrItr{pts: sl, stats: stats}
		case influxql.Boolean:
			itr = &vC15BoolItr{pts: bl, stats: stats}
		}
		var buf bytes.Buffer
		enc := query.NewIteratorEncoder(&buf)
		// statistics frames are interleaved with the points whenever the encoder's ticker fires; with the shortest
		// interval that happens between almost any two points, with an hour never (the frames must not cost a point)
		enc.StatsInterval = rapid.SampledFrom([]time.Duration{time.Hour, time.Nanosecond, time.Nanosecond, 20 * time.Microsecond}).Draw(rt, "statsInterval")
		var pan interface{}
		var err error
		withTrace := rapid.Bool().Draw(rt, "trace")
		func() {
			defer func() { pan = recover() }()
			err = enc.EncodeIterator(itr)
			if err == nil && withTrace {
				tr, span := tracing.NewTrace("remote_iterator")
				span.Finish()
				err = enc.EncodeTrace(tr)
			}
		}()
		if pan != nil {
			rt.Fatalf("%s EncodeIterator panicked for %s points: %v", verifkit.Sig("point-stream-encode-panic"), typ, pan)
		}
		if err != nil {
			rt.Fatalf("%s EncodeIterator failed for %s points: %v", verifkit.Sig("point-stream-encode-error"), typ, err)
		}
		ctx := context.Background()
		if withTrace {
			tr, _ := tracing.NewTrace("parent")
			ctx = tracing.NewContextWithTrace(ctx, tr)
		}
		rd := query.NewReaderIterator(ctx, &buf, typ, query.IteratorStats{})
		var got []string
		func() {
			defer func() { pan = recover() }()
			for {
				var view string
				var done bool
				switch r := rd.(type) {
				case query.FloatIterator:
					p, e := r.Next()
					if err = e; p == nil {
						done = true
					} else {
						view = vC15PointView(p.Name, p.Tags, p.Time, p.Value, p.Aux, p.Aggregated, p.Nil)
					}
				case query.IntegerIterator:
					p, e := r.Next()
					if err = e; p == nil {
						done = true
					} else {
						view = vC15PointView(p.Name, p.Tags, p.Time, p.Value, p.Aux, p.Aggregated, p.Nil)
					}
				case query.UnsignedIterator:
					p, e := r.Next()
					if err = e; p == nil {
						done = true
					} else {
						view = vC15PointView(p.Name, p.Tags, p.Time, p.Value, p.Aux, p.Aggregated, p.Nil)
					}
				case query.StringIterator:
					p, e := r.Next()
					if err = e; p == nil {
						done = true
					} else {
						view = vC15PointView(p.Name, p.Tags, p.Time, p.Value, p.Aux, p.Aggregated, p.Nil)
					}
				case query.BooleanIterator:
					p, e := r.Next()
					if err = e; p == nil {
						done = true
					} else {
						view = vC15PointView(p.Name, p.Tags, p.Time, p.Value, p.Aux, p.Aggregated, p.Nil)
					}
				default:
					err, done = fmt.Errorf("reader iterator of unexpected type %T", rd), true
				}
				if err != nil || done {
					return
				}
				got = append(got, view)
			}
		}()
		if pan != nil {
			rt.Fatalf("%s reading the %s point stream panicked: %v", verifkit.Sig("point-stream-decode-panic"), typ, pan)
		}
		if err != nil {
			rt.Fatalf("%s reading the %s point stream failed after %d of %d points: %v", verifkit.Sig("point-stream-decode-error"), typ, len(got), len(want), err)
		}
		if len(got) != len(want) {
			rt.Fatalf("%s %d %s points encoded, %d decoded", verifkit.Sig("point-stream-count-differs"), len(want), typ, len(got))
		}
		for i := range want {
			if got[i] != want[i] {
				rt.Fatalf("%s %s point %d decodes to something else than was encoded\nencoded: %s\ndecoded: %s", verifkit.Sig("point-stream-point-differs"), typ, i, want[i], got[i])
			}
		}
		if rd.Stats() != stats {
			rt.Fatalf("%s stats %+v encoded, %+v decoded", verifkit.Sig("point-stream-stats-differ"), stats, rd.Stats())
		}
		cl := []string{"stream:" + typ.String()}
		if withTrace {
			cl = append(cl, "stream:with-trace-frame")
		}
		if n == 0 {
			cl = append(cl, "stream:empty")
		}
		st.Case(nt, strings.Join(want, "|"), cl...)
		if st.WantSample() {
			st.Sample(map[string]interface{}{"type": typ.String(), "points": want, "stats": fmt.Sprintf("%+v", stats)})
		} else {
			st.Sample(nil)
		}
	})
}

// ---------------------------------------------------------------------------------------------
// native fuzz target (thorough tier): every UnmarshalBinary of rpc.go

func vC15AllDecoders() []func() encoding.BinaryUnmarshaler {
	var out []func() encoding.BinaryUnmarshaler
	for _, k := range vC15Kinds {
		if k.newReq != nil {
			out = append(out, k.newReq)
		}
	}
	for _, r := range vC15Responses() {
		out = append(out, r.zero)
	}
	return out
}

func FuzzVerifC15Unmarshal(f *testing.F) {
	decs := vC15AllDecoders()
	var w WriteShardRequest
	w.SetShardID(1)
	w.SetDatabase("db")
	w.AddPoints([]models.Point{models.MustNewPoint("m", nil, models.Fields{"v": 1.0}, time.Unix(1, 0))})
	wb, _ := w.MarshalBinary()
	for i := range decs {
		f.Add(byte(i), wb)
		f.Add(byte(i), []byte{})
		f.Add(byte(i), []byte{0x0a, 0x02, 'd', 'b', 0x12, 0x00})
	}
	for _, c := range vC15BadConds {
		f.Add(byte(4), vC15BadConditionPayload(c))
	}
	f.Fuzz(func(t *testing.T, which byte, data []byte) {
		if len(data) > 1<<16 {
			return
		}
		m := decs[int(which)%len(decs)]()
		var pan interface{}
		var err error
		func() {
			defer func() { pan = recover() }()
			err = m.UnmarshalBinary(data)
		}()
		if pan != nil {
			t.Fatalf("%s %T.UnmarshalBinary panicked on %x: %v", verifkit.Sig("unmarshal-panic"), m, data, pan)
		}
		if err != nil {
			return
		}
		// whatever decodes is a message value: it must be encodable again (no panic); when the type
		// carries no InfluxQL text, the re-encoded form must decode to the same view
		mm, ok := m.(vC15Marshaler)
		if !ok {
			return
		}
		var b []byte
		func() {
			defer func() { pan = recover() }()
			b, err = mm.MarshalBinary()
		}()
		if pan != nil {
			t.Fatalf("%s %T.MarshalBinary panicked on a decoded message (input %x): %v", verifkit.Sig("marshal-panic"), m, data, pan)
		}
		if err != nil {
			return
		}
		switch m.(type) {
		case *WriteShardRequest, *WriteShardResponse, *ExecuteStatementRequest, *ExecuteStatementResponse, *TaskManagerStatementRequest,
			*SeriesSketchesRequest, *MeasurementsSketchesRequest, *BackupShardRequest, *CopyShardRequest, *RemoveShardRequest, *JoinClusterRequest,
			*RemoveHintedHandoffRequest, *MeasurementNamesResponse, *StoreReadFilterResponse, *StoreReadGroupResponse, *CreateIteratorResponse,
			*IteratorCostResponse, *MapTypeResponse, *CopyShardResponse, *RemoveShardResponse, *JoinClusterResponse, *LeaveClusterResponse, *RemoveHintedHandoffResponse:
			m2 := decs[int(which)%len(decs)]()
			if err := m2.UnmarshalBinary(b); err != nil {
				t.Fatalf("%s %T: re-encoded message does not decode: %v", verifkit.Sig("reencoded-message-undecodable"), m, err)
			}
			if a, c := vC15ViewMsg(m), vC15ViewMsg(m2); a != c {
				t.Fatalf("%s %T: decoded %s, re-encoded and decoded %s", verifkit.Sig("reencode-differs"), m, a, c)
			}
		}
	})
}
