//go:build verif

package coordinator_test

// C16 - the statement path of grants: CREATE USER / GRANT / REVOKE / GRANT ALL PRIVILEGES / REVOKE ALL
// PRIVILEGES / SET PASSWORD / DROP USER / CREATE|DROP DATABASE are executed by the real
// coordinator.StatementExecutor over a meta client backed by a real meta.Data (the repository's own
// MetaClient mock from meta_client_test.go provides the plumbing). After every statement, what the query
// and write authorizers would be told (UserInfo.AuthorizeDatabase(READ|WRITE, db), the admin flag) is
// compared with an independent model.
//
// The model keeps privileges as the set {READ, WRITE} per (user, database):
//   GRANT p     adds p (ALL = both);   REVOKE p   removes p (ALL = both), whether or not it was held;
//   DROP DATABASE removes every grant on it; DROP USER forgets the user; admin covers everything.
// The documentation does not say whether GRANT READ to a WRITE holder keeps WRITE (the implementation
// replaces). Therefore the comparison is: (safety) the implementation never authorizes what the model's
// accumulated set does not contain; (effect) right after an accepted GRANT p the user is authorized for p,
// right after an accepted REVOKE p the user is not authorized for p. Both hold for "replace" and "add".

import (
	"fmt"
	"sort"
	"strings"
	"testing"

	"github.com/influxdata/influxdb/services/meta"
	"github.com/influxdata/influxql"
	"pgregory.net/rapid"
	"verifkit"
)

type vC16GUser struct {
	pw     string
	admin  bool
	grants map[string]int // bit 1 = READ, bit 2 = WRITE
}

type vC16GModel struct {
	users map[string]*vC16GUser
	dbs   map[string]bool
}

func (m *vC16GModel) String() string {
	var names []string
	for n := range m.users {
		names = append(names, n)
	}
	sort.Strings(names)
	var b strings.Builder
	for _, n := range names {
		u := m.users[n]
		fmt.Fprintf(&b, "%s{admin=%v pw=%s", n, u.admin, u.pw)
		var ds []string
		for d := range u.grants {
			ds = append(ds, d)
		}
		sort.Strings(ds)
		for _, d := range ds {
			fmt.Fprintf(&b, " %s:%s", d, [...]string{"-", "R", "W", "RW"}[u.grants[d]])
		}
		b.WriteString("} ")
	}
	var ds []string
	for d := range m.dbs {
		ds = append(ds, d)
	}
	sort.Strings(ds)
	fmt.Fprintf(&b, "dbs=%v", ds)
	return b.String()
}

var vC16GPrivWords = map[int]string{1: "READ", 2: "WRITE", 3: "ALL"}

func TestVerifC16GrantStatements(t *testing.T) {
	st := verifkit.For("C16", "TestVerifC16GrantStatements",
		"rapid histories of 4..40 statements over 3 user names and 2 databases executed by the real StatementExecutor on a meta client backed by a real meta.Data: CREATE USER (with/without ALL PRIVILEGES), DROP USER, SET PASSWORD, GRANT/REVOKE READ|WRITE|ALL ON db (held, partly held, not held, repeated), GRANT/REVOKE ALL PRIVILEGES, CREATE/DROP DATABASE; after every statement AuthorizeDatabase(READ|WRITE) of every user on every database and the admin flag are compared with the set model. Non-trivial = a REVOKE of a privilege that was not (fully) held, or the same REVOKE twice in a row; distinct = hash of the (statement kind, accepted) sequence")
	defer st.Flush()
	users := []string{"u0", "u1", "u2"}
	dbs := []string{"db0", "db1"}
	rapid.Check(t, func(rt *rapid.T) {
		data := &meta.Data{}
		m := &vC16GModel{users: map[string]*vC16GUser{}, dbs: map[string]bool{}}
		e := NewQueryExecutor()
		defer e.Executor.Close()
		mc := &e.MetaClient
		mc.CreateUserFn = func(name, password string, admin bool) (meta.User, error) {
			if err := data.CreateUser(name, "hash-of:"+password, admin); err != nil {
				return nil, err
			}
			return data.User(name), nil
		}
		mc.UpdateUserFn = func(name, password string) error { return data.UpdateUser(name, "hash-of:"+password) }
		mc.DropUserFn = data.DropUser
		mc.SetPrivilegeFn = data.SetPrivilege
		mc.UserPrivilegeFn = data.UserPrivilege
		mc.UserPrivilegesFn = data.UserPrivileges
		mc.SetAdminPrivilegeFn = data.SetAdminPrivilege
		mc.DatabaseFn = data.Database
		mc.DatabasesFn = func() []meta.DatabaseInfo { return data.Databases }
		mc.UsersFn = func() []meta.UserInfo { return data.Users }
		mc.DropDatabaseFn = data.DropDatabase
		mc.CreateDatabaseFn = func(name string) (*meta.DatabaseInfo, error) {
			if err := data.CreateDatabase(name); err != nil {
				return nil, err
			}
			return data.Database(name), nil
		}
		e.TSDBStore.DeleteDatabaseFn = func(string) error { return nil }

		classes := map[string]bool{}
		var canon strings.Builder
		var trace []string
		nt := false
		lastRevoke := ""
		// most histories start with both databases and two users
		var script []string
		if rapid.IntRange(0, 3).Draw(rt, "warm") > 0 {
			script = []string{"CREATE DATABASE db0", "CREATE DATABASE db1", "CREATE USER u0 WITH PASSWORD 'p0' WITH ALL PRIVILEGES", "CREATE USER u1 WITH PASSWORD 'p1'", "CREATE USER u2 WITH PASSWORD 'p2'"}
		}
		n := rapid.IntRange(4, 40).Draw(rt, "steps")
		for i := 0; i < len(script)+n; i++ {
			var text string
			if i < len(script) {
				text = script[i]
			} else {
				u := rapid.SampledFrom(users).Draw(rt, "user")
				db := rapid.SampledFrom(dbs).Draw(rt, "db")
				p := rapid.IntRange(1, 3).Draw(rt, "priv")
				switch rapid.SampledFrom([]string{"grant", "grant", "grant", "revoke", "revoke", "revoke", "revoke", "revoke", "grantAdmin", "revokeAdmin", "createUser", "createAdmin", "dropUser", "setPassword", "dropDB", "createDB"}).Draw(rt, "stmt") {
				case "grant":
					text = fmt.Sprintf("GRANT %s ON %s TO %s", vC16GPrivWords[p], db, u)
				case "revoke":
					text = fmt.Sprintf("REVOKE %s ON %s FROM %s", vC16GPrivWords[p], db, u)
				case "grantAdmin":
					text = "GRANT ALL PRIVILEGES TO " + u
				case "revokeAdmin":
					text = "REVOKE ALL PRIVILEGES FROM " + u
				case "createUser":
					text = fmt.Sprintf("CREATE USER %s WITH PASSWORD 'p%d'", u, rapid.IntRange(0, 3).Draw(rt, "pw"))
				case "createAdmin":
					text = fmt.Sprintf("CREATE USER %s WITH PASSWORD 'p%d' WITH ALL PRIVILEGES", u, rapid.IntRange(0, 3).Draw(rt, "pw"))
				case "dropUser":
					text = "DROP USER " + u
				case "setPassword":
					text = fmt.Sprintf("SET PASSWORD FOR %s = 'p%d'", u, rapid.IntRange(0, 3).Draw(rt, "pw"))
				case "dropDB":
					text = "DROP DATABASE " + db
				default:
					text = "CREATE DATABASE " + db
				}
			}
			q, err := influxql.ParseQuery(text)
			if err != nil || len(q.Statements) != 1 {
				rt.Fatalf("%s %q: %v", verifkit.Sig("harness-unparseable-statement"), text, err)
			}
			var execErr error
			for _, res := range ReadAllResults(e.ExecuteQuery(text, "", 0)) {
				if res.Err != nil {
					execErr = res.Err
				}
			}
			accepted := execErr == nil
			kind := strings.TrimSuffix(strings.TrimPrefix(fmt.Sprintf("%T", q.Statements[0]), "*influxql."), "Statement")
			// ---- model transition (only for accepted statements) and the "effect" expectation
			var effUser, effDB string
			effBits, effWant := 0, false
			if accepted {
				switch s := q.Statements[0].(type) {
				case *influxql.CreateDatabaseStatement:
					m.dbs[s.Name] = true
				case *influxql.DropDatabaseStatement:
					delete(m.dbs, s.Name)
					for _, u := range m.users {
						delete(u.grants, s.Name)
					}
				case *influxql.CreateUserStatement:
					if m.users[s.Name] != nil {
						rt.Fatalf("%s %q accepted although the user exists; model: %s", verifkit.Sig("create-user-over-existing-user"), text, m)
					}
					m.users[s.Name] = &vC16GUser{pw: s.Password, admin: s.Admin, grants: map[string]int{}}
				case *influxql.DropUserStatement:
					if m.users[s.Name] == nil {
						rt.Fatalf("%s %q accepted for an unknown user", verifkit.Sig("statement-accepted-for-unknown-user"), text)
					}
					delete(m.users, s.Name)
				case *influxql.SetPasswordUserStatement:
					if m.users[s.Name] == nil {
						rt.Fatalf("%s %q accepted for an unknown user", verifkit.Sig("statement-accepted-for-unknown-user"), text)
					}
					m.users[s.Name].pw = s.Password
				case *influxql.GrantAdminStatement:
					if m.users[s.User] == nil {
						rt.Fatalf("%s %q accepted for an unknown user", verifkit.Sig("statement-accepted-for-unknown-user"), text)
					}
					m.users[s.User].admin = true
				case *influxql.RevokeAdminStatement:
					if m.users[s.User] == nil {
						rt.Fatalf("%s %q accepted for an unknown user", verifkit.Sig("statement-accepted-for-unknown-user"), text)
					}
					m.users[s.User].admin = false
				case *influxql.GrantStatement:
					if m.users[s.User] == nil || !m.dbs[s.On] {
						rt.Fatalf("%s %q accepted for an unknown user or database; model: %s", verifkit.Sig("statement-accepted-for-unknown-user"), text, m)
					}
					bits := map[string]int{"READ": 1, "WRITE": 2, "ALL": 3}[strings.Fields(text)[1]]
					m.users[s.User].grants[s.On] |= bits
					effUser, effDB, effBits, effWant = s.User, s.On, bits, true
				case *influxql.RevokeStatement:
					if m.users[s.User] == nil || !m.dbs[s.On] {
						rt.Fatalf("%s %q accepted for an unknown user or database; model: %s", verifkit.Sig("statement-accepted-for-unknown-user"), text, m)
					}
					bits := map[string]int{"READ": 1, "WRITE": 2, "ALL": 3}[strings.Fields(text)[1]]
					held := m.users[s.User].grants[s.On]
					switch {
					case held&bits == bits:
						classes["revoke:held"] = true
					case held&bits == 0:
						classes["revoke:not-held"] = true
						nt = true
					default:
						classes["revoke:partly-held"] = true
						nt = true
					}
					if text == lastRevoke {
						classes["revoke:repeated"] = true
						nt = true
					}
					m.users[s.User].grants[s.On] = held &^ bits
					effUser, effDB, effBits, effWant = s.User, s.On, bits, false
				}
			}
			if _, ok := q.Statements[0].(*influxql.RevokeStatement); ok && accepted {
				lastRevoke = text
			} else {
				lastRevoke = ""
			}
			trace = append(trace, fmt.Sprintf("%s => %v", text, execErr))
			fmt.Fprintf(&canon, "%s:%v;", kind, accepted)
			classes[fmt.Sprintf("stmt:%s:accepted=%v", kind, accepted)] = true
			// ---- comparison after every statement
			for _, name := range users {
				mu := m.users[name]
				iu, _ := data.User(name).(*meta.UserInfo)
				if (mu == nil) != (iu == nil) {
					rt.Fatalf("%s after %q: user %s exists in metadata=%v, in model=%v; history: %v", verifkit.Sig("grant-statements-user-set-differs"), text, name, iu != nil, mu != nil, trace)
				}
				if mu == nil {
					continue
				}
				if iu.Admin != mu.admin {
					sig := "admin-flag-not-revoked"
					if !iu.Admin {
						sig = "admin-flag-not-granted"
					}
					rt.Fatalf("%s after %q: %s admin=%v, model %v; history: %v", verifkit.Sig(sig), text, name, iu.Admin, mu.admin, trace)
				}
				if iu.Hash != "hash-of:"+mu.pw {
					rt.Fatalf("%s after %q: %s has hash %q, model password %q; history: %v", verifkit.Sig("password-statement-not-applied"), text, name, iu.Hash, mu.pw, trace)
				}
				for _, db := range dbs {
					for bit, priv := range map[int]influxql.Privilege{1: influxql.ReadPrivilege, 2: influxql.WritePrivilege} {
						got := iu.AuthorizeDatabase(priv, db)
						may := mu.admin || mu.grants[db]&bit != 0
						if got && !may {
							sig := "statement-leaves-privilege-never-granted-or-revoked"
							if strings.HasPrefix(text, "REVOKE") {
								sig = "revoke-adds-or-keeps-privilege"
							} else if strings.HasPrefix(text, "DROP DATABASE") {
								sig = "drop-database-keeps-grant"
							}
							rt.Fatalf("%s after %q: %s is authorized for %s on %s (stored %v) but the model holds %s; history: %v", verifkit.Sig(sig), text, name, priv, db, iu.Privileges[db], m, trace)
						}
						if name == effUser && db == effDB && effBits&bit != 0 && !mu.admin && got != effWant {
							sig := "grant-without-effect"
							if !effWant {
								sig = "revoke-adds-or-keeps-privilege"
							}
							rt.Fatalf("%s right after %q: %s authorized for %s on %s = %v; history: %v", verifkit.Sig(sig), text, name, priv, db, got, trace)
						}
					}
				}
			}
		}
		var cl []string
		for k := range classes {
			cl = append(cl, k)
		}
		st.Case(nt, canon.String(), cl...)
		if st.WantSample() {
			st.Sample(map[string]interface{}{"statements": trace, "final_model": m.String()})
		} else {
			st.Sample(nil)
		}
	})
}
