//go:build verif

package coordinator

// C08 - every point is routed to exactly one, well-defined shard. DESIGN.md section 4, C08.
//
// Bed R: PointsWriter.MapShards over a MetaClient that is a thin adapter around a real meta.Data
// value (same lookup-then-create sequence as meta.Client.CreateShardGroup). The oracle recomputes
// the designated group and shard from the metadata *after* the call with its own hash, its own
// canonical series key and its own interval logic.

import (
	"bytes"
	"fmt"
	"sort"
	"strings"
	"testing"
	"time"

	"github.com/influxdata/influxdb/models"
	"github.com/influxdata/influxdb/services/meta"
	"pgregory.net/rapid"
	"verifkit"
)

// ---------------------------------------------------------------------------------------------
// metadata adapter

type vC08Meta struct {
	d       *meta.Data
	creates int
}

func (m *vC08Meta) NodeID() uint64                          { return 1 }
func (m *vC08Meta) Database(name string) *meta.DatabaseInfo { return m.d.Database(name) }
func (m *vC08Meta) RetentionPolicy(db, rp string) (*meta.RetentionPolicyInfo, error) {
	return m.d.RetentionPolicy(db, rp)
}

// CreateShardGroup mirrors meta.Client.CreateShardGroup: look the group up in the cached data,
// otherwise apply the command (Data.CreateShardGroup is what the state machine runs) and look again.
func (m *vC08Meta) CreateShardGroup(db, rp string, ts time.Time) (*meta.ShardGroupInfo, error) {
	if sg, _ := m.d.ShardGroupByTimestamp(db, rp, ts); sg != nil {
		return sg, nil
	}
	m.d.Index++
	m.creates++
	if err := m.d.CreateShardGroup(db, rp, ts); err != nil {
		return nil, err
	}
	rpi, err := m.d.RetentionPolicy(db, rp)
	if err != nil {
		return nil, err
	}
	return rpi.ShardGroupByTimestamp(ts), nil
}

// ---------------------------------------------------------------------------------------------
// the harness's own hash and canonical series key

func vC08FNV64a(b []byte) uint64 {
	h := uint64(14695981039346656037)
	for _, c := range b {
		h ^= uint64(c)
		h *= 1099511628211
	}
	return h
}

func vC08Esc(s string, chars string) string {
	var sb strings.Builder
	for i := 0; i < len(s); i++ {
		if strings.IndexByte(chars, s[i]) >= 0 {
			sb.WriteByte('\\')
		}
		sb.WriteByte(s[i])
	}
	return sb.String()
}

type vC08Series struct {
	meas string
	tags [][2]string // unescaped, any order, distinct plain keys
}

// canonKey is escaped measurement followed by ,key=value for the tags sorted by key.
func (s vC08Series) canonKey() []byte {
	t := append([][2]string(nil), s.tags...)
	sort.Slice(t, func(i, j int) bool { return t[i][0] < t[j][0] })
	var sb strings.Builder
	sb.WriteString(vC08Esc(s.meas, ", "))
	for _, kv := range t {
		sb.WriteString("," + vC08Esc(kv[0], ", =") + "=" + vC08Esc(kv[1], ", ="))
	}
	return []byte(sb.String())
}

// line renders the series as line protocol with the tags in the given order.
func (s vC08Series) line(order []int, field string, ts int64) string {
	var sb strings.Builder
	sb.WriteString(vC08Esc(s.meas, ", "))
	for _, i := range order {
		kv := s.tags[i]
		sb.WriteString("," + vC08Esc(kv[0], ", =") + "=" + vC08Esc(kv[1], ", ="))
	}
	fmt.Fprintf(&sb, " %s %d", field, ts)
	return sb.String()
}

var (
	vC08Meas   = []string{"cpu", "m", "mem", "my m", "a,b", "disk io", "x"}
	vC08Keys   = []string{"host", "region", "dc", "a", "b", "zz", "host1", "dc-zone", "dc.rack", "a-b", "a0", "region-1"}
	// pairs in which one tag key is a prefix of the other and the next byte sorts below '=': a tag
	// sort that looks past the key (at '=' and the value) orders them differently than a sort by key
	vC08PrefixPairs = [][2]string{{"dc", "dc-zone"}, {"host", "host1"}, {"a", "a-b"}, {"dc", "dc.rack"}, {"a", "a0"}, {"region", "region-1"}}
	vC08Vals   = []string{"a", "b", "server01", "x y", "p,q", "k=v", "1", "us-west"}
	vC08Fields = []string{"v=1i", "v=2.5", "v=\"s\"", "v=t", "a=1i,b=2i"}
)

func vC08DrawSeries(rt *rapid.T, label string) vC08Series {
	s := vC08Series{meas: rapid.SampledFrom(vC08Meas).Draw(rt, label+".meas")}
	n := rapid.IntRange(0, 3).Draw(rt, label+".ntags")
	used := map[string]bool{}
	if rapid.IntRange(0, 2).Draw(rt, label+".prefixPair") == 0 {
		pp := rapid.SampledFrom(vC08PrefixPairs).Draw(rt, label+".pair")
		for _, k := range pp {
			used[k] = true
			s.tags = append(s.tags, [2]string{k, rapid.SampledFrom(vC08Vals).Draw(rt, label+".pv")})
		}
	}
	for i := 0; i < n; i++ {
		k := rapid.SampledFrom(vC08Keys).Draw(rt, label+".k")
		if used[k] {
			continue
		}
		used[k] = true
		s.tags = append(s.tags, [2]string{k, rapid.SampledFrom(vC08Vals).Draw(rt, label+".v")})
	}
	return s
}

func vC08Perm(rt *rapid.T, n int, label string) []int {
	p := make([]int, n)
	for i := range p {
		p[i] = i
	}
	for i := n - 1; i > 0; i-- {
		j := rapid.IntRange(0, i).Draw(rt, label)
		p[i], p[j] = p[j], p[i]
	}
	return p
}

// ---------------------------------------------------------------------------------------------
// oracle over the metadata after the call

type vC08Group struct {
	sg     *meta.ShardGroupInfo
	effEnd time.Time
}

func vC08LiveGroups(rpi *meta.RetentionPolicyInfo) []vC08Group {
	var out []vC08Group
	for i := range rpi.ShardGroups {
		sg := &rpi.ShardGroups[i]
		if !sg.DeletedAt.IsZero() {
			continue
		}
		e := sg.EndTime
		if !sg.TruncatedAt.IsZero() && sg.TruncatedAt.Before(e) {
			e = sg.TruncatedAt
		}
		out = append(out, vC08Group{sg, e})
	}
	return out
}

// designated returns the live groups with start <= t < min(end, truncatedAt).
func vC08Designated(groups []vC08Group, t time.Time) []vC08Group {
	var out []vC08Group
	for _, g := range groups {
		if !t.Before(g.sg.StartTime) && t.Before(g.effEnd) {
			out = append(out, g)
		}
	}
	return out
}

type vC08Pt struct {
	ser   vC08Series
	order []int
	field string
	ts    int64
	p     models.Point
	old   bool // older than the retention period (by more than the guard)
}

func (p *vC08Pt) parse(order []int) (models.Point, error) {
	pts, err := models.ParsePointsWithPrecision([]byte(p.ser.line(order, p.field, p.ts)), time.Unix(0, 0), "n")
	if err != nil {
		return nil, err
	}
	if len(pts) != 1 {
		return nil, fmt.Errorf("parsed %d points", len(pts))
	}
	return pts[0], nil
}

const vC08Guard = time.Minute

type vC08Case struct {
	rt      *rapid.T
	mc      *vC08Meta
	w       *PointsWriter
	base    time.Time
	finite  bool
	classes map[string]bool
	nt      bool
	canon   strings.Builder
	log     []string
	instant []int64 // interesting instants (ns)
}

func (c *vC08Case) rp() *meta.RetentionPolicyInfo {
	rpi, _ := c.mc.d.RetentionPolicy("db", "rp")
	return rpi
}

func (c *vC08Case) logf(f string, a ...interface{}) {
	if len(c.log) < 60 {
		c.log = append(c.log, fmt.Sprintf(f, a...))
	}
}

// refreshInstants recomputes the pool of interesting instants from the current metadata.
func (c *vC08Case) refreshInstants() {
	c.instant = c.instant[:0]
	add := func(t time.Time) {
		if t.Before(time.Unix(0, models.MinNanoTime)) || t.After(time.Unix(0, models.MaxNanoTime)) {
			return
		}
		c.instant = append(c.instant, t.UnixNano())
	}
	for i := range c.rp().ShardGroups {
		sg := &c.rp().ShardGroups[i]
		add(sg.StartTime)
		add(sg.StartTime.Add(-1))
		add(sg.EndTime.Add(-1))
		add(sg.EndTime)
		if !sg.TruncatedAt.IsZero() {
			add(sg.TruncatedAt.Add(-1))
			add(sg.TruncatedAt)
			add(sg.TruncatedAt.Add(1))
		}
	}
}

// drawTime draws a timestamp (ns). kind is recorded as a class.
func (c *vC08Case) drawTime(label string) (int64, string) {
	rt := c.rt
	sgd := c.rp().ShardGroupDuration
	k := rapid.IntRange(0, 9).Draw(rt, label+".kind")
	switch {
	case k <= 2 && len(c.instant) > 0:
		return rapid.SampledFrom(c.instant).Draw(rt, label+".instant"), "t:instant"
	case k == 3 && !c.finite:
		if rapid.Bool().Draw(rt, label+".minmax") {
			return models.MinNanoTime + int64(rapid.IntRange(0, 2).Draw(rt, label+".off")), "t:min-nano"
		}
		return models.MaxNanoTime - int64(rapid.IntRange(0, 2).Draw(rt, label+".off")), "t:max-nano"
	case k == 3 && c.finite:
		return models.MaxNanoTime - int64(rapid.IntRange(0, 2).Draw(rt, label+".off")), "t:max-nano"
	case k == 4 && c.finite:
		d := c.rp().Duration
		if rapid.Bool().Draw(rt, label+".near") {
			// just beyond or just inside the retention period: old and live points that share the
			// (still existing) shard group containing the cut-off
			off := time.Duration(rapid.Int64Range(int64(2*time.Minute), int64(40*time.Minute)).Draw(rt, label+".nearOff"))
			if rapid.Bool().Draw(rt, label+".nearSide") {
				return time.Now().Add(-d + off).UnixNano(), "t:just-inside-retention"
			}
			return time.Now().Add(-d - off).UnixNano(), "t:just-beyond-retention"
		}
		// far past, beyond retention
		off := time.Duration(rapid.Int64Range(int64(time.Hour), int64(400*24*time.Hour)).Draw(rt, label+".past"))
		return c.base.Add(-d - off).UnixNano(), "t:beyond-retention"
	case k == 5:
		// exact multiples of the shard duration around base
		n := rapid.IntRange(-3, 3).Draw(rt, label+".cell")
		t := c.base.Truncate(sgd).Add(time.Duration(n) * sgd)
		return t.UnixNano() + int64(rapid.IntRange(-1, 1).Draw(rt, label+".edge")), "t:cell-edge"
	default:
		span := int64(3 * sgd)
		return c.base.UnixNano() + rapid.Int64Range(-span, span).Draw(rt, label+".rand"), "t:random"
	}
}

// adjust keeps a timestamp away from the moving retention cut-off and classifies it.
func (c *vC08Case) adjust(ts int64) (int64, bool) {
	if !c.finite {
		return ts, false
	}
	cut := time.Now().Add(-c.rp().Duration)
	t := time.Unix(0, ts)
	if t.After(cut.Add(-vC08Guard)) && t.Before(cut.Add(vC08Guard)) {
		t = cut.Add(vC08Guard + time.Second)
		ts = t.UnixNano()
	}
	return ts, t.Before(cut)
}

func (c *vC08Case) drawBatch(n int, label string) []*vC08Pt {
	rt := c.rt
	npool := rapid.IntRange(1, 4).Draw(rt, label+".npool")
	pool := make([]vC08Series, npool)
	for i := range pool {
		pool[i] = vC08DrawSeries(rt, fmt.Sprintf("%s.ser%d", label, i))
	}
	var out []*vC08Pt
	for i := 0; i < n; i++ {
		ser := pool[rapid.IntRange(0, npool-1).Draw(rt, label+".which")]
		ts, cl := c.drawTime(fmt.Sprintf("%s.t%d", label, i))
		ts, old := c.adjust(ts)
		c.classes[cl] = true
		p := &vC08Pt{ser: ser, order: vC08Perm(rt, len(ser.tags), label+".perm"), ts: ts, old: old,
			field: rapid.SampledFrom(vC08Fields).Draw(rt, label+".field")}
		pt, err := p.parse(p.order)
		if err != nil {
			rt.Fatalf("harness: generated line does not parse: %q: %v", p.ser.line(p.order, p.field, p.ts), err)
		}
		p.p = pt
		out = append(out, p)
	}
	return out
}

// mapAndCheck runs MapShards on the batch and checks clauses (1)-(4). It returns a violation
// (sig, msg) or "".
func (c *vC08Case) mapAndCheck(batch []*vC08Pt, tag string) (string, string) {
	pts := make([]models.Point, len(batch))
	idx := map[models.Point]int{}
	for i, p := range batch {
		pts[i] = p.p
		idx[p.p] = i
	}
	createsBefore := c.mc.creates
	var mapping *ShardMapping
	var err error
	var pan interface{}
	func() {
		defer func() { pan = recover() }()
		mapping, err = c.w.MapShards(&WritePointsRequest{Database: "db", RetentionPolicy: "rp", Points: pts})
	}()
	if pan != nil {
		return "mapshards-panic", fmt.Sprintf("MapShards panicked: %v", pan)
	}
	if err != nil {
		return "mapshards-error", fmt.Sprintf("MapShards failed on a valid batch: %v", err)
	}
	if c.mc.creates > createsBefore {
		c.classes["call-created-groups"] = true
	}
	c.refreshInstants()

	// (1) mapped + dropped is exactly the input multiset
	seen := make([]int, len(batch))
	where := make([]uint64, len(batch)) // shard id, 0 = dropped
	for id, l := range mapping.Points {
		for _, p := range l {
			i, ok := idx[p]
			if !ok {
				return "foreign-point-in-mapping", fmt.Sprintf("shard %d holds a point that was not in the batch: %s", id, p.String())
			}
			seen[i]++
			where[i] = id
		}
		if mapping.Shards[id] == nil || mapping.Shards[id].ID != id {
			return "mapping-shard-info-missing", fmt.Sprintf("mapping.Shards[%d] = %+v", id, mapping.Shards[id])
		}
	}
	for _, p := range mapping.Dropped {
		i, ok := idx[p]
		if !ok {
			return "foreign-point-in-mapping", fmt.Sprintf("Dropped holds a point that was not in the batch: %s", p.String())
		}
		seen[i]++
	}
	for i, n := range seen {
		if n == 0 {
			return "point-lost", fmt.Sprintf("point %d (%s) is neither mapped nor dropped", i, batch[i].p.String())
		}
		if n > 1 {
			return "point-duplicated", fmt.Sprintf("point %d (%s) appears %d times in the mapping", i, batch[i].p.String(), n)
		}
	}

	// (2),(4) each point sits in the designated shard of the designated group; dropped <=> old
	rpi := c.rp()
	groups := vC08LiveGroups(rpi)
	for i := range groups {
		for j := i + 1; j < len(groups); j++ {
			a, b := groups[i], groups[j]
			if a.sg.StartTime.Before(b.effEnd) && b.sg.StartTime.Before(a.effEnd) {
				// two live groups overlap: the metadata does not designate a unique group (C06's
				// business, not C08's); do not judge this case
				c.classes["skipped:live-groups-overlap"] = true
				return "", ""
			}
		}
	}
	straddle := map[uint64][2]bool{}
	for i, p := range batch {
		t := time.Unix(0, p.ts)
		if p.old {
			if where[i] != 0 {
				return "old-point-not-dropped", fmt.Sprintf("%s: point %d at %s is older than the retention period (%s) but was mapped to shard %d", tag, i, t.UTC().Format(time.RFC3339Nano), rpi.Duration, where[i])
			}
			c.classes["pt:dropped-old"] = true
			for _, g := range groups {
				if !t.Before(g.sg.StartTime) && t.Before(g.effEnd) {
					c.classes["pt:dropped-old-although-a-live-group-covers-it"] = true
				}
			}
			fmt.Fprintf(&c.canon, "D;")
			continue
		}
		if where[i] == 0 {
			return "live-point-dropped", fmt.Sprintf("%s: point %d at %s (%d) lies within the retention period but was dropped", tag, i, t.UTC().Format(time.RFC3339Nano), p.ts)
		}
		des := vC08Designated(groups, t)
		if len(des) == 0 {
			g := vC08FindShard(rpi, where[i])
			return "mapped-outside-designated-group", fmt.Sprintf("%s: point %d at %d was mapped to shard %d (%s) but no live group covers that time after the call", tag, i, p.ts, where[i], g)
		}
		g := des[0]
		n := uint64(len(g.sg.Shards))
		want := g.sg.Shards[vC08FNV64a(p.ser.canonKey())%n]
		if where[i] != want.ID {
			sig := "wrong-shard-in-group"
			if !vC08ShardInGroup(g.sg, where[i]) {
				sig = "mapped-outside-designated-group"
			}
			return sig, fmt.Sprintf("%s: point %d key %q at %d mapped to shard %d (%s), want shard %d of group %d [%d,%d) trunc=%v (hash %% %d)", tag, i, p.ser.canonKey(), p.ts, where[i], vC08FindShard(rpi, where[i]), want.ID, g.sg.ID, g.sg.StartTime.UnixNano(), g.sg.EndTime.UnixNano(), g.sg.TruncatedAt, n)
		}
		got := mapping.Shards[want.ID]
		if len(got.Owners) != len(want.Owners) {
			return "mapping-shard-info-stale", fmt.Sprintf("%s: mapping.Shards[%d] owners %v, metadata %v", tag, want.ID, got.Owners, want.Owners)
		}
		for k := range want.Owners {
			if got.Owners[k] != want.Owners[k] {
				return "mapping-shard-info-stale", fmt.Sprintf("%s: mapping.Shards[%d] owners %v, metadata %v", tag, want.ID, got.Owners, want.Owners)
			}
		}
		if !bytes.Equal(p.p.Key(), p.ser.canonKey()) {
			c.classes["note:key-differs-from-harness-canon"] = true
		}
		// classification
		pos := "mid"
		switch {
		case t.Equal(g.sg.StartTime):
			pos = "start"
		case t.Equal(g.effEnd.Add(-1)):
			pos = "end-1"
		}
		if pos != "mid" {
			c.nt = true
			c.classes["nt:point-at-group-edge:"+pos] = true
		}
		if n > 1 {
			c.classes["group:multi-shard"] = true
		}
		if !g.sg.TruncatedAt.IsZero() {
			c.classes["pt:in-truncated-group"] = true
		}
		if g.sg.EndTime.Sub(g.sg.StartTime) != rpi.ShardGroupDuration {
			c.classes["pt:in-odd-sized-group"] = true
		}
		fmt.Fprintf(&c.canon, "%s/g%d/s%d;", pos, vC08GroupOrdinal(groups, g.sg.ID), vC08FNV64a(p.ser.canonKey())%n)
		// straddling: a truncated (live or not) group whose [start, end) covers t
		for _, h := range vC08LiveGroups(rpi) {
			if h.sg.TruncatedAt.IsZero() || t.Before(h.sg.StartTime) || !t.Before(h.sg.EndTime) {
				continue
			}
			s := straddle[h.sg.ID]
			if t.Before(h.effEnd) {
				s[0] = true
			} else {
				s[1] = true
			}
			straddle[h.sg.ID] = s
		}
		for k := range rpi.ShardGroups {
			d := &rpi.ShardGroups[k]
			if !d.DeletedAt.IsZero() && !t.Before(d.StartTime) && t.Before(d.EndTime) {
				c.classes["pt:time-covered-by-deleted-group"] = true
			}
		}
	}
	for _, s := range straddle {
		if s[0] && s[1] {
			c.nt = true
			c.classes["nt:batch-straddles-truncation"] = true
		}
	}
	sizes := map[time.Duration]bool{}
	for _, p := range batch {
		if p.old {
			continue
		}
		if des := vC08Designated(groups, time.Unix(0, p.ts)); len(des) == 1 {
			sizes[des[0].sg.EndTime.Sub(des[0].sg.StartTime)] = true
		}
	}
	if len(sizes) > 1 {
		c.nt = true
		c.classes["nt:batch-spans-altered-duration-boundary"] = true
	}

	// (3) batch independence on the metadata after the call: alone, permuted, tags permuted, and the
	// same series built through NewPoint all give the same shard
	if sig, msg := c.independence(batch, where, tag); sig != "" {
		return sig, msg
	}
	return "", ""
}

func (c *vC08Case) independence(batch []*vC08Pt, where []uint64, tag string) (string, string) {
	rt := c.rt
	snapshot := func() *PointsWriter {
		w := NewPointsWriter()
		w.MetaClient = &vC08Meta{d: c.mc.d.Clone()}
		return w
	}
	lookup := func(m *ShardMapping, p models.Point) uint64 {
		for id, l := range m.Points {
			for _, q := range l {
				if q == p {
					return id
				}
			}
		}
		return 0
	}
	// alone (a sample of at most 8 points, always including the first and last)
	for k, i := range vC08Sample(len(batch), 8) {
		_ = k
		p := batch[i]
		if p.old {
			continue
		}
		m, err := snapshot().MapShards(&WritePointsRequest{Database: "db", RetentionPolicy: "rp", Points: []models.Point{p.p}})
		if err != nil {
			return "mapshards-error", fmt.Sprintf("%s: MapShards(alone) failed: %v", tag, err)
		}
		if got := lookup(m, p.p); got != where[i] {
			return "depends-on-batch-composition", fmt.Sprintf("%s: point %d at %d goes to shard %d in the batch but to shard %d alone", tag, i, p.ts, where[i], got)
		}
	}
	// permuted order with permuted tags
	perm := vC08Perm(rt, len(batch), "indep.perm")
	pts := make([]models.Point, len(batch))
	back := map[models.Point]int{}
	for k, i := range perm {
		p := batch[i]
		q, err := p.parse(vC08Perm(rt, len(p.ser.tags), "indep.tags"))
		if err != nil {
			rt.Fatalf("harness: re-rendered line does not parse: %v", err)
		}
		if rapid.IntRange(0, 3).Draw(rt, "indep.newpoint") == 0 {
			// the same series through the NewPoint path (map of tags -> NewTags sorts them)
			tm := map[string]string{}
			for _, kv := range p.ser.tags {
				tm[kv[0]] = kv[1]
			}
			np, err := models.NewPoint(p.ser.meas, models.NewTags(tm), models.Fields{"v": int64(1)}, time.Unix(0, p.ts))
			if err != nil {
				rt.Fatalf("harness: NewPoint failed: %v", err)
			}
			q = np
			c.classes["indep:newpoint-path"] = true
		}
		pts[k] = q
		back[q] = i
	}
	m, err := snapshot().MapShards(&WritePointsRequest{Database: "db", RetentionPolicy: "rp", Points: pts})
	if err != nil {
		return "mapshards-error", fmt.Sprintf("%s: MapShards(permuted) failed: %v", tag, err)
	}
	got := make([]uint64, len(batch))
	for id, l := range m.Points {
		for _, q := range l {
			got[back[q]] = id
		}
	}
	for i := range batch {
		if batch[i].old {
			continue
		}
		if got[i] != where[i] {
			return "depends-on-batch-order-or-tag-order", fmt.Sprintf("%s: point %d at %d goes to shard %d, but to shard %d when the batch and its tags are permuted", tag, i, batch[i].ts, where[i], got[i])
		}
	}
	return "", ""
}

func vC08Sample(n, k int) []int {
	if n <= k {
		out := make([]int, n)
		for i := range out {
			out[i] = i
		}
		return out
	}
	out := []int{0}
	for i := 1; i < k-1; i++ {
		out = append(out, i*(n-1)/(k-1))
	}
	return append(out, n-1)
}

func vC08ShardInGroup(sg *meta.ShardGroupInfo, id uint64) bool {
	for _, s := range sg.Shards {
		if s.ID == id {
			return true
		}
	}
	return false
}

func vC08FindShard(rpi *meta.RetentionPolicyInfo, id uint64) string {
	for i := range rpi.ShardGroups {
		g := &rpi.ShardGroups[i]
		if vC08ShardInGroup(g, id) {
			return fmt.Sprintf("group %d [%d,%d) truncatedAt=%v deleted=%v", g.ID, g.StartTime.UnixNano(), g.EndTime.UnixNano(), g.TruncatedAt, !g.DeletedAt.IsZero())
		}
	}
	return "unknown shard"
}

func vC08GroupOrdinal(groups []vC08Group, id uint64) int {
	for i, g := range groups {
		if g.sg.ID == id {
			return i
		}
	}
	return -1
}

var vC08Durations = []time.Duration{time.Hour, 2 * time.Hour, 24 * time.Hour, 7 * 24 * time.Hour}

// vC08NewCase builds nodes, database, policy.
func vC08NewCase(rt *rapid.T) *vC08Case {
	d := &meta.Data{Index: 1}
	nodes := rapid.IntRange(1, 5).Draw(rt, "nodes")
	for i := 0; i < nodes; i++ {
		if err := d.CreateDataNode(fmt.Sprintf("h%d", i), fmt.Sprintf("t%d", i)); err != nil {
			rt.Fatalf("harness: %v", err)
		}
	}
	if err := d.CreateDatabase("db"); err != nil {
		rt.Fatalf("harness: %v", err)
	}
	sgd := rapid.SampledFrom(vC08Durations).Draw(rt, "sgd")
	var dur time.Duration
	switch rapid.IntRange(0, 3).Draw(rt, "durKind") {
	case 0, 1:
		dur = 0
	case 2:
		dur = sgd * time.Duration(rapid.IntRange(1, 4).Draw(rt, "durMul"))
	case 3:
		dur = 30 * 24 * time.Hour
	}
	rpi := &meta.RetentionPolicyInfo{Name: "rp", ReplicaN: rapid.IntRange(1, 3).Draw(rt, "replicaN"), Duration: dur, ShardGroupDuration: sgd}
	if err := d.CreateRetentionPolicy("db", rpi, true); err != nil {
		rt.Fatalf("harness: %v", err)
	}
	c := &vC08Case{rt: rt, mc: &vC08Meta{d: d}, classes: map[string]bool{}, finite: dur > 0}
	c.w = NewPointsWriter()
	c.w.MetaClient = c.mc
	if c.finite {
		c.base = time.Now().UTC()
		c.classes["rp:finite"] = true
	} else {
		// 2020-01-01T00:00:00Z plus a generated offset; fully deterministic
		c.base = time.Unix(1577836800, 0).UTC().Add(time.Duration(rapid.Int64Range(0, int64(14*24*time.Hour)).Draw(rt, "baseOff")))
		c.classes["rp:infinite"] = true
	}
	return c
}

func (c *vC08Case) historyStep(st *verifkit.Stats, step int) (string, string) {
	rt := c.rt
	d := c.mc.d
	op := rapid.SampledFrom([]string{"precreate", "precreate", "write", "write", "alter", "truncate", "truncate", "delete", "addnode", "rmnode"}).Draw(rt, "op")
	fmt.Fprintf(&c.canon, "%s|", op)
	c.classes["op:"+op] = true
	switch op {
	case "precreate":
		ts, _ := c.drawTime(fmt.Sprintf("h%d", step))
		ts, old := c.adjust(ts)
		if old {
			return "", ""
		}
		d.Index++
		if err := d.CreateShardGroup("db", "rp", time.Unix(0, ts)); err != nil {
			rt.Fatalf("harness: CreateShardGroup: %v", err)
		}
		c.logf("precreate at %d", ts)
	case "write":
		b := c.drawBatch(rapid.IntRange(1, 4).Draw(rt, "hn"), fmt.Sprintf("hw%d", step))
		if len(b) == 0 {
			return "", ""
		}
		c.logf("write %s", vC08Describe(b))
		return c.mapAndCheck(b, fmt.Sprintf("history write %d", step))
	case "alter":
		rpi := c.rp()
		nd := rapid.SampledFrom(vC08Durations).Draw(rt, "newSgd")
		if rpi.Duration > 0 && rpi.Duration < nd {
			return "", ""
		}
		u := &meta.RetentionPolicyUpdate{}
		u.SetShardGroupDuration(nd)
		if err := d.UpdateRetentionPolicy("db", "rp", u, false); err != nil {
			rt.Fatalf("harness: UpdateRetentionPolicy: %v", err)
		}
		d.Index++
		c.logf("alter shard duration -> %s", nd)
	case "truncate":
		ts, _ := c.drawTime(fmt.Sprintf("h%d", step))
		d.TruncateShardGroups(time.Unix(0, ts))
		d.Index++
		c.logf("truncate at %d", ts)
	case "delete":
		var ids []uint64
		for _, g := range vC08LiveGroups(c.rp()) {
			ids = append(ids, g.sg.ID)
		}
		if len(ids) == 0 {
			return "", ""
		}
		id := rapid.SampledFrom(ids).Draw(rt, "delId")
		if err := d.DeleteShardGroup("db", "rp", id); err != nil {
			rt.Fatalf("harness: DeleteShardGroup: %v", err)
		}
		d.Index++
		c.logf("delete group %d", id)
	case "addnode":
		if len(d.DataNodes) >= 6 {
			return "", ""
		}
		d.Index++
		n := d.MaxNodeID + 1
		if err := d.CreateDataNode(fmt.Sprintf("h%d", n+100), fmt.Sprintf("t%d", n+100)); err != nil {
			rt.Fatalf("harness: CreateDataNode: %v", err)
		}
		c.logf("add node")
	case "rmnode":
		if len(d.DataNodes) <= 1 {
			return "", ""
		}
		id := d.DataNodes[rapid.IntRange(0, len(d.DataNodes)-1).Draw(rt, "rmIdx")].ID
		d.Index++
		if err := d.DeleteDataNode(id); err != nil {
			rt.Fatalf("harness: DeleteDataNode: %v", err)
		}
		c.logf("remove node %d", id)
	}
	c.refreshInstants()
	return "", ""
}

func vC08Describe(b []*vC08Pt) string {
	var sb strings.Builder
	for i, p := range b {
		if i > 0 {
			sb.WriteString(" ; ")
		}
		sb.WriteString(p.ser.line(p.order, p.field, p.ts))
		if p.old {
			sb.WriteString(" (old)")
		}
	}
	return sb.String()
}

func (c *vC08Case) describeGroups() []string {
	var out []string
	for i := range c.rp().ShardGroups {
		g := &c.rp().ShardGroups[i]
		var ids []uint64
		for _, s := range g.Shards {
			ids = append(ids, s.ID)
		}
		tr := ""
		if !g.TruncatedAt.IsZero() {
			tr = fmt.Sprintf(" truncatedAt=%d", g.TruncatedAt.UnixNano())
		}
		if !g.DeletedAt.IsZero() {
			tr += " deleted"
		}
		out = append(out, fmt.Sprintf("group %d [%s, %s)%s shards=%v", g.ID, g.StartTime.UTC().Format(time.RFC3339Nano), g.EndTime.UTC().Format(time.RFC3339Nano), tr, ids))
	}
	return out
}

const vC08Rule = "rapid: policy (retention 0 or finite, shard duration 1h..7d, replicaN 1-3, 1-5 nodes), then 0-12 metadata steps {pre-create, checked small write, alter shard duration, truncate, delete group, add/remove node}, then a checked batch of 1-60 line-protocol points (series pool with shuffled tags and duplicates; times from group edges, truncation time -1/0/+1, cell edges, Min/MaxNanoTime, beyond retention, random); non-trivial = a point exactly at a group start or last nanosecond, or a batch straddling a truncation time, or a batch spanning groups of different length; distinct = hash of step kinds and per-point (edge position, group ordinal, shard index); the final batch is also sent through WritePointsPrivileged with stores, shard writers and a handoff queue that always succeed: points older than the retention period must be reported by a partial-write error carrying exactly their number (also when the batch mixes them with live points), and every other point must reach every owner of exactly one shard exactly once"

func TestVerifC08Routing(t *testing.T) {
	st := verifkit.For("C08", "TestVerifC08Routing", vC08Rule)
	defer st.Flush()
	rapid.Check(t, func(rt *rapid.T) {
		c := vC08NewCase(rt)
		steps := rapid.IntRange(0, 12).Draw(rt, "steps")
		for i := 0; i < steps; i++ {
			if sig, msg := c.historyStep(st, i); sig != "" {
				rt.Fatalf("%s %s\nhistory: %v\ngroups: %v", verifkit.Sig(sig), msg, c.log, c.describeGroups())
			}
		}
		n := rapid.IntRange(1, 60).Draw(rt, "batchLen")
		if rapid.IntRange(0, 2).Draw(rt, "small") == 0 {
			n = rapid.IntRange(1, 6).Draw(rt, "batchLenSmall")
		}
		batch := c.drawBatch(n, "b")
		if len(batch) > 0 {
			c.logf("final batch %s", vC08Describe(batch))
			if sig, msg := c.mapAndCheck(batch, "final batch"); sig != "" {
				rt.Fatalf("%s %s\nhistory: %v\ngroups: %v", verifkit.Sig(sig), msg, c.log, c.describeGroups())
			}
			if !c.classes["skipped:live-groups-overlap"] {
				if sig, msg := c.writeAndCheck(batch, "final batch written"); sig != "" {
					rt.Fatalf("%s %s\nhistory: %v\ngroups: %v", verifkit.Sig(sig), msg, c.log, c.describeGroups())
				}
			}
			dup := map[string]bool{}
			for _, p := range batch {
				for _, pp := range vC08PrefixPairs {
					has := 0
					for _, kv := range p.ser.tags {
						if kv[0] == pp[0] || kv[0] == pp[1] {
							has++
						}
					}
					if has == 2 {
						c.classes["series:prefix-related-tag-keys"] = true
					}
				}
				k := string(p.ser.canonKey())
				if dup[k] {
					c.classes["batch:duplicate-series"] = true
				}
				dup[k] = true
			}
		}
		var cl []string
		for k := range c.classes {
			cl = append(cl, k)
		}
		st.Case(c.nt, c.canon.String(), cl...)
		if st.WantSample() {
			st.Sample(map[string]interface{}{"history": c.log, "groups_after": c.describeGroups(), "nontrivial": c.nt})
		} else {
			st.Sample(nil)
		}
	})
}
