//go:build verif

package coordinator_test

// Installs the real services/storage.Store into bed N. That package imports coordinator, so only
// the external test package can import it; the in-package harness reaches it through this hook.

import (
	"github.com/influxdata/influxdb/coordinator"
	"github.com/influxdata/influxdb/services/storage"
	"github.com/influxdata/influxdb/tsdb"
)

func init() {
	coordinator.VC15NewStore = func(ts *tsdb.Store, mc coordinator.VC15StoreMeta) coordinator.Store {
		return storage.NewStore(ts, mc)
	}
}
