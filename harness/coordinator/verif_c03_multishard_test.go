//go:build verif

package coordinator

// C03 - a request whose points fall into several shards reports success only if EVERY shard met the level.
//
// TestVerifC03Enumerate decides one shard completely; a client's batch usually spans several shards, each
// written in its own goroutine, and the request's answer is assembled from the per-shard answers in whatever
// order they arrive. Here 2..4 shards with independent owner sets and scripted outcomes are written by one
// WritePointsPrivileged call; the harness chooses the order in which the shards complete.

import (
	"errors"
	"fmt"
	"runtime"
	"strings"
	"sync"
	"testing"
	"time"

	"github.com/influxdata/influxdb/models"
	"github.com/influxdata/influxdb/services/hh"
	"github.com/influxdata/influxdb/services/meta"
	"pgregory.net/rapid"
	"verifkit"
)

type vC03MOwner struct {
	node  uint64
	out   vC03Out
	calls int // scripted calls still expected (direct + handoff)

	mu      sync.Mutex
	direct  int
	hhCalls int
	bad     []string
}

type vC03MShard struct {
	id     uint64
	owners []*vC03MOwner
	points []models.Point
	gate   chan struct{}
	left   sync.WaitGroup // scripted calls of this shard that have not returned yet
}

type vC03MBed struct {
	coordID uint64
	shards  map[uint64]*vC03MShard
	mu      sync.Mutex
	stray   []string
}

func (b *vC03MBed) strayf(f string, a ...interface{}) {
	b.mu.Lock()
	b.stray = append(b.stray, fmt.Sprintf(f, a...))
	b.mu.Unlock()
}

func (b *vC03MBed) owner(what string, shardID, node uint64, pts []models.Point) (*vC03MShard, *vC03MOwner) {
	sh := b.shards[shardID]
	if sh == nil {
		b.strayf("%s for unknown shard %d", what, shardID)
		return nil, nil
	}
	for _, o := range sh.owners {
		if o.node == node {
			ok := len(pts) == len(sh.points)
			if ok {
				for i := range pts {
					if pts[i] != sh.points[i] {
						ok = false
					}
				}
			}
			if !ok {
				o.mu.Lock()
				o.bad = append(o.bad, fmt.Sprintf("%s(shard %d, node %d) called with %d points, want exactly the %d points of that shard", what, shardID, node, len(pts), len(sh.points)))
				o.mu.Unlock()
			}
			return sh, o
		}
	}
	b.strayf("%s(shard %d) for node %d which does not own that shard", what, shardID, node)
	return nil, nil
}

type vC03MMeta struct{ b *vC03MBed }

func (m vC03MMeta) NodeID() uint64 { return m.b.coordID }
func (m vC03MMeta) Database(name string) *meta.DatabaseInfo {
	return &meta.DatabaseInfo{Name: "db", DefaultRetentionPolicy: "rp"}
}
func (m vC03MMeta) RetentionPolicy(db, rp string) (*meta.RetentionPolicyInfo, error) {
	return &meta.RetentionPolicyInfo{Name: "rp", ReplicaN: 3, ShardGroupDuration: time.Hour}, nil
}
func (m vC03MMeta) CreateShardGroup(db, rp string, ts time.Time) (*meta.ShardGroupInfo, error) {
	g := ts.Unix() / 3600
	sh := m.b.shards[uint64(10+g)]
	if sh == nil {
		return nil, fmt.Errorf("no group for %v", ts)
	}
	si := meta.ShardInfo{ID: sh.id}
	for _, o := range sh.owners {
		si.Owners = append(si.Owners, meta.ShardOwner{NodeID: o.node})
	}
	return &meta.ShardGroupInfo{ID: uint64(100 + g), StartTime: time.Unix(g*3600, 0), EndTime: time.Unix((g+1)*3600, 0), Shards: []meta.ShardInfo{si}}, nil
}

type vC03MStore struct{ b *vC03MBed }

func (s vC03MStore) WriteToShard(shardID uint64, pts []models.Point) error {
	sh, o := s.b.owner("TSDBStore.WriteToShard", shardID, s.b.coordID, pts)
	if o == nil {
		return errors.New("stray")
	}
	<-sh.gate
	defer sh.left.Done()
	o.mu.Lock()
	o.direct++
	o.mu.Unlock()
	return vC03DirectErr[o.out.direct]
}
func (s vC03MStore) CreateShard(db, rp string, shardID uint64, enabled bool) error {
	s.b.strayf("CreateShard(%d) although no store answered shard-not-found", shardID)
	return nil
}

type vC03MWriter struct{ b *vC03MBed }

func (w vC03MWriter) WriteShard(shardID, ownerID uint64, pts []models.Point) error {
	sh, o := w.b.owner("ShardWriter.WriteShard", shardID, ownerID, pts)
	if o == nil {
		return errors.New("stray")
	}
	<-sh.gate
	defer sh.left.Done()
	o.mu.Lock()
	o.direct++
	o.mu.Unlock()
	return vC03DirectErr[o.out.direct]
}

type vC03MHH struct{ b *vC03MBed }

func (h vC03MHH) Empty(shardID, ownerID uint64) bool {
	sh := h.b.shards[shardID]
	if sh != nil {
		for _, o := range sh.owners {
			if o.node == ownerID {
				return !o.out.qne
			}
		}
	}
	h.b.strayf("HintedHandoff.Empty(%d, %d): not an owner", shardID, ownerID)
	return true
}
func (h vC03MHH) WriteShard(shardID, ownerID uint64, pts []models.Point) error {
	sh, o := h.b.owner("HintedHandoff.WriteShard", shardID, ownerID, pts)
	if o == nil {
		return errors.New("stray")
	}
	<-sh.gate
	defer sh.left.Done()
	o.mu.Lock()
	o.hhCalls++
	o.mu.Unlock()
	return vC03HHErr[o.out.hh]
}

// outcomes used here (no silent owners: every call answers once its shard's gate is open)
var vC03MRemote = []vC03Out{
	{name: "stored"},
	{name: "retry+hhAccept", direct: vC03DRetryRefused, hh: vC03HAccept},
	{name: "retry+hhFull", direct: vC03DRetryRefused, hh: vC03HFull},
	{name: "retry+hhBlocked", direct: vC03DRetryTimeout, hh: vC03HBlocked},
	{name: "permPartialWrite", direct: vC03DPermPartial},
	{name: "permFieldConflict", direct: vC03DPermConflict},
	{name: "queued+hhAccept", qne: true, hh: vC03HAccept},
	{name: "queued+hhFull", qne: true, hh: vC03HFull},
}
var vC03MLocal = []vC03Out{
	{name: "L.stored", local: true},
	{name: "L.storeError", local: true, direct: vC03DStoreError},
}

func TestVerifC03MultiShard(t *testing.T) {
	st := verifkit.For("C03", "TestVerifC03MultiShard",
		"bed W with several shards: one WritePointsPrivileged call whose 2..4 point groups fall into 2..4 shards (one per hourly group), each shard with its own 1..3 owners out of 4 nodes (the coordinating node may be one) and a scripted outcome per owner (stored, retryable failure with handoff accepted/full/blocked, permanent rejection, queue already non-empty with handoff accepted/full; local store error); the harness lets the shards complete in a drawn order. Oracle: closed form per shard (as in TestVerifC03Enumerate); the request is nil iff every shard met the level, otherwise an error of the class of one of the failing shards; every owner's direct write is attempted at most once with exactly its shard's points, and handoff is offered exactly once where due. non-trivial = at least one shard misses the level and at least one meets it; distinct = (level, per shard: owners+outcomes+class, completion order)")
	defer st.Flush()
	rapid.Check(t, func(rt *rapid.T) {
		level := rapid.IntRange(0, 3).Draw(rt, "level")
		ns := rapid.IntRange(2, 4).Draw(rt, "shards")
		b := &vC03MBed{coordID: 1, shards: map[uint64]*vC03MShard{}}
		var all []models.Point
		var order []uint64
		desc := []string{vC03LevelNames[level]}
		classes := map[uint64]string{}
		// a drawn bias makes "all but one shard fine" frequent
		healthyBias := rapid.IntRange(0, 2).Draw(rt, "healthyBias")
		for g := 0; g < ns; g++ {
			sh := &vC03MShard{id: uint64(10 + g), gate: make(chan struct{})}
			rf := rapid.IntRange(1, 3).Draw(rt, "rf")
			nodes := rapid.Permutation([]uint64{1, 2, 3, 4}).Draw(rt, "owners")[:rf]
			np := rapid.IntRange(1, 3).Draw(rt, "points")
			for i := 0; i < np; i++ {
				p := models.MustNewPoint("m", models.NewTags(map[string]string{"host": fmt.Sprintf("h%d", i)}), models.Fields{"v": float64(g*10 + i)}, time.Unix(int64(g)*3600+int64(i), 0))
				sh.points = append(sh.points, p)
				all = append(all, p)
			}
			c := &vC03Case{rf: rf, coord: rf, level: level}
			var names []string
			for i, n := range nodes {
				var out vC03Out
				healthy := healthyBias > 0 && rapid.IntRange(0, healthyBias+1).Draw(rt, "healthy") > 0
				if n == b.coordID {
					c.coord = i
					k := 0
					if !healthy {
						k = rapid.IntRange(0, len(vC03MLocal)-1).Draw(rt, "localOutcome")
					}
					out = vC03MLocal[k]
				} else {
					k := 0
					if !healthy {
						k = rapid.IntRange(0, len(vC03MRemote)-1).Draw(rt, "remoteOutcome")
					}
					out = vC03MRemote[k]
				}
				o := &vC03MOwner{node: n, out: out}
				sh.owners = append(sh.owners, o)
				names = append(names, fmt.Sprintf("n%d:%s", n, out.name))
			}
			// closed-form expectation of this shard (same rules as vC03Oracle, restated for these outcomes)
			required := 1
			switch vC03Levels[level] {
			case models.ConsistencyLevelQuorum:
				required = rf/2 + 1
			case models.ConsistencyLevelAll:
				required = rf
			}
			any := vC03Levels[level] == models.ConsistencyLevelAny
			ok := 0
			for _, o := range sh.owners {
				switch {
				case o.out.local:
					o.calls = 1
					if o.out.direct == vC03DStored {
						ok++
					}
				case o.out.qne:
					o.calls = 1 // handoff only
					if any && o.out.hh == vC03HAccept {
						ok++
					}
				case o.out.direct == vC03DStored:
					o.calls = 1
					ok++
				case hh.IsRetryable(vC03DirectErr[o.out.direct]):
					o.calls = 2
					if any && o.out.hh == vC03HAccept {
						ok++
					}
				default:
					o.calls = 1
				}
				sh.left.Add(o.calls)
			}
			cls := "failed"
			if ok >= required {
				cls = "nil"
			} else if ok > 0 {
				cls = "partial"
			}
			classes[sh.id] = cls
			desc = append(desc, fmt.Sprintf("s%d[%s]=%s", sh.id, strings.Join(names, ","), cls))
			b.shards[sh.id] = sh
			order = append(order, sh.id)
		}
		order = rapid.Permutation(order).Draw(rt, "completionOrder")
		pts := rapid.Permutation(all).Draw(rt, "batchOrder")
		// the shard's points reach the owners in batch order
		for _, sh := range b.shards {
			sh.points = sh.points[:0]
		}
		for _, p := range pts {
			id := uint64(10 + p.Time().Unix()/3600)
			b.shards[id].points = append(b.shards[id].points, p)
		}

		w := NewPointsWriter()
		w.MetaClient = vC03MMeta{b}
		w.TSDBStore = vC03MStore{b}
		w.ShardWriter = vC03MWriter{b}
		w.HintedHandoff = vC03MHH{b}
		w.WriteTimeout = time.Hour
		resCh := make(chan error, 1)
		go func() { resCh <- w.WritePointsPrivileged("db", "rp", vC03Levels[level], pts) }()
		// let the shards complete in the drawn order: a shard's gate opens only after every scripted call of the
		// shards before it has returned (scheduling aid only; the oracle does not depend on the order)
		for _, id := range order {
			sh := b.shards[id]
			close(sh.gate)
			if !verifkit.Watch(vC03Watchdog, sh.left.Wait) {
				rt.Fatalf("%s shard %d: not every expected call to its owners was made within %v; case %v", verifkit.Sig("multishard-owner-call-missing"), id, vC03Watchdog, desc)
			}
			for i := 0; i < 20; i++ {
				runtime.Gosched()
			}
			time.Sleep(200 * time.Microsecond)
		}
		var err error
		select {
		case err = <-resCh:
		case <-time.After(vC03Watchdog):
			rt.Fatalf("%s WritePointsPrivileged did not return within %v after every owner answered; case %v", verifkit.Sig("multishard-write-hang"), vC03Watchdog, desc)
		}
		failing := map[string]bool{}
		for _, c := range classes {
			if c != "nil" {
				failing[c] = true
			}
		}
		got := "nil"
		switch {
		case err == nil:
		case err == ErrPartialWrite:
			got = "partial"
		case err == ErrWriteFailed || strings.HasPrefix(err.Error(), "write failed"):
			got = "failed"
		default:
			got = "other(" + err.Error() + ")"
		}
		if len(failing) == 0 && err != nil {
			rt.Fatalf("%s every shard met level %s but the request failed with %q; case %v", verifkit.Sig("multishard-level-met-reported-as-failure"), vC03LevelNames[level], err, desc)
		}
		if len(failing) > 0 && err == nil {
			rt.Fatalf("%s the request was acknowledged although a shard missed level %s; completion order %v; case %v", verifkit.Sig("multishard-failed-shard-reported-as-success"), vC03LevelNames[level], order, desc)
		}
		if len(failing) > 0 && !failing[got] {
			rt.Fatalf("%s the request failed with %q (class %s) but the failing shards are of class %v; case %v", verifkit.Sig("multishard-wrong-error-class"), err, got, failing, desc)
		}
		// ledger
		if len(b.stray) > 0 {
			rt.Fatalf("%s %v; case %v", verifkit.Sig("multishard-stray-call"), b.stray, desc)
		}
		for _, sh := range b.shards {
			for _, o := range sh.owners {
				o.mu.Lock()
				wantHH, wantDirect := 0, 1
				if o.out.qne {
					wantHH, wantDirect = 1, 0
				} else if !o.out.local && hh.IsRetryable(vC03DirectErr[o.out.direct]) {
					wantHH = 1
				}
				bad, d, h := o.bad, o.direct, o.hhCalls
				o.mu.Unlock()
				if len(bad) > 0 {
					rt.Fatalf("%s %v; case %v", verifkit.Sig("multishard-wrong-points-for-owner"), bad, desc)
				}
				if d != wantDirect {
					rt.Fatalf("%s shard %d owner %d (%s): %d direct writes, want %d; case %v", verifkit.Sig("multishard-direct-write-count"), sh.id, o.node, o.out.name, d, wantDirect, desc)
				}
				if h != wantHH {
					rt.Fatalf("%s shard %d owner %d (%s): handoff offered %d times, want %d; case %v", verifkit.Sig("multishard-handoff-not-exactly-once"), sh.id, o.node, o.out.name, h, wantHH, desc)
				}
			}
		}
		mixed := len(failing) > 0 && len(failing) < len(classes)
		nOK := 0
		for _, c := range classes {
			if c == "nil" {
				nOK++
			}
		}
		mixed = len(failing) > 0 && nOK > 0
		firstFails := classes[order[0]] != "nil"
		st.Case(mixed, strings.Join(desc, " ")+fmt.Sprint(order), "level:"+vC03LevelNames[level], fmt.Sprintf("shards:%d", ns), "result:"+got, fmt.Sprintf("mixed:%v", mixed), fmt.Sprintf("failingShardCompletesFirst:%v", mixed && firstFails))
		if st.WantSample() {
			st.Sample(map[string]interface{}{"case": desc, "completion_order": order, "result": got})
		} else {
			st.Sample(nil)
		}
	})
}
