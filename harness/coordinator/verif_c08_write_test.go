//go:build verif

package coordinator

// C08 at the level of the write call: the batch is sent through WritePointsPrivileged with stores and
// shard writers that always succeed. Points older than the retention period must be REPORTED as dropped
// (a partial-write error carrying their number), every other point must reach every owner of exactly
// one shard exactly once.

import (
	"fmt"
	"sync"

	"github.com/influxdata/influxdb/models"
	"github.com/influxdata/influxdb/services/meta"
	"github.com/influxdata/influxdb/tsdb"
)

type vC08Delivery struct {
	shard, owner uint64
}

type vC08Sink struct {
	mu   sync.Mutex
	got  map[models.Point][]vC08Delivery
	self uint64
}

func (s *vC08Sink) add(shard, owner uint64, pts []models.Point) {
	s.mu.Lock()
	for _, p := range pts {
		s.got[p] = append(s.got[p], vC08Delivery{shard, owner})
	}
	s.mu.Unlock()
}

type vC08Store struct{ s *vC08Sink }

func (st vC08Store) CreateShard(database, retentionPolicy string, shardID uint64, enabled bool) error {
	return nil
}
func (st vC08Store) WriteToShard(shardID uint64, points []models.Point) error {
	st.s.add(shardID, st.s.self, points)
	return nil
}

type vC08Remote struct{ s *vC08Sink }

func (r vC08Remote) WriteShard(shardID, ownerID uint64, points []models.Point) error {
	r.s.add(shardID, ownerID, points)
	return nil
}

type vC08HH struct{}

func (vC08HH) WriteShard(shardID, ownerID uint64, points []models.Point) error { return nil }
func (vC08HH) Empty(shardID, ownerID uint64) bool                              { return true }

// writeAndCheck returns a violation (sig, msg) or "".
func (c *vC08Case) writeAndCheck(batch []*vC08Pt, tag string) (string, string) {
	sink := &vC08Sink{got: map[models.Point][]vC08Delivery{}, self: c.mc.NodeID()}
	w := NewPointsWriter()
	w.MetaClient = c.mc
	w.TSDBStore = vC08Store{sink}
	w.ShardWriter = vC08Remote{sink}
	w.HintedHandoff = vC08HH{}
	if err := w.Open(); err != nil {
		return "", ""
	}
	defer w.Close()
	pts := make([]models.Point, len(batch))
	old := 0
	for i, p := range batch {
		pts[i] = p.p
		if p.old {
			old++
		}
	}
	var err error
	var pan interface{}
	func() {
		defer func() { pan = recover() }()
		err = w.WritePointsPrivileged("db", "rp", models.ConsistencyLevelAll, pts)
	}()
	if pan != nil {
		return "write-panic", fmt.Sprintf("%s: WritePointsPrivileged panicked: %v", tag, pan)
	}
	// the report
	if old == 0 {
		if err != nil {
			return "write-error-with-all-owners-succeeding", fmt.Sprintf("%s: every point lies within the retention period and every owner stores what it is given, but the write returned %v", tag, err)
		}
	} else {
		pwe, ok := err.(tsdb.PartialWriteError)
		if !ok {
			return "dropped-points-not-reported", fmt.Sprintf("%s: %d of %d points are older than the retention period and were not written, but the write returned %v instead of a partial-write error naming them", tag, old, len(batch), err)
		}
		if pwe.Dropped != old {
			return "dropped-points-miscounted", fmt.Sprintf("%s: %d of %d points are older than the retention period, the partial-write error reports %d", tag, old, len(batch), pwe.Dropped)
		}
		c.classes["write:dropped-reported"] = true
		if old < len(batch) {
			c.classes["write:mixed-old-and-live"] = true
			c.nt = true
		}
	}
	// the deliveries
	rpi := c.rp()
	for i, p := range batch {
		ds := sink.got[p.p]
		if p.old {
			if len(ds) != 0 {
				return "old-point-not-dropped", fmt.Sprintf("%s: point %d is older than the retention period but was delivered to %v", tag, i, ds)
			}
			continue
		}
		if len(ds) == 0 {
			return "point-lost", fmt.Sprintf("%s: point %d (%s) was delivered to no owner although the write of its shard succeeded everywhere", tag, i, p.p.String())
		}
		shard := ds[0].shard
		owners := map[uint64]int{}
		for _, d := range ds {
			if d.shard != shard {
				return "point-duplicated", fmt.Sprintf("%s: point %d (%s) was delivered to two shards: %v", tag, i, p.p.String(), ds)
			}
			owners[d.owner]++
		}
		var want []meta.ShardOwner
		for gi := range rpi.ShardGroups {
			for _, sh := range rpi.ShardGroups[gi].Shards {
				if sh.ID == shard {
					want = sh.Owners
				}
			}
		}
		if len(want) != len(owners) {
			return "point-not-delivered-to-every-owner-once", fmt.Sprintf("%s: point %d of shard %d with owners %v was delivered as %v", tag, i, shard, want, ds)
		}
		for _, o := range want {
			if owners[o.NodeID] != 1 {
				return "point-not-delivered-to-every-owner-once", fmt.Sprintf("%s: point %d of shard %d with owners %v was delivered as %v", tag, i, shard, want, ds)
			}
		}
	}
	return "", ""
}
