//go:build verif

package coordinator

// C15 (a) - no byte stream received on the inter-node port crashes the node or makes it allocate
// beyond the frame limit; malformed requests are answered with an error or a closed connection.
// DESIGN.md section 4, C15.

import (
	"bytes"
	"encoding/binary"
	"fmt"
	"math"
	"os"
	"runtime"
	"strings"
	"sync"
	"testing"
	"time"

	"github.com/gogo/protobuf/proto"
	"github.com/influxdata/influxdb/coordinator/internal"
	"github.com/influxdata/influxql"
	"pgregory.net/rapid"
	"verifkit"
)

var (
	vC15BedMu  sync.Mutex
	vC15TheBed *vC15Bed
)

// vC15GetBed returns the shared bed, rebuilding it every 1500 cases (hostile requests create and
// delete shards; a fresh store keeps the cost per case flat).
func vC15GetBed() (*vC15Bed, error) {
	vC15BedMu.Lock()
	defer vC15BedMu.Unlock()
	if vC15TheBed != nil && vC15TheBed.cases >= 1500 {
		vC15TheBed.Close()
		vC15TheBed = nil
	}
	if vC15TheBed == nil {
		b, err := vC15NewBed()
		if err != nil {
			return nil, err
		}
		vC15TheBed = b
	}
	vC15TheBed.cases++
	return vC15TheBed, nil
}

func vC15DropBed() {
	vC15BedMu.Lock()
	if vC15TheBed != nil {
		vC15TheBed.Close()
		vC15TheBed = nil
	}
	vC15BedMu.Unlock()
}

type vC15GenFrame struct {
	desc  string
	bytes []byte
}

// vC15DrawFrame draws one frame: type byte x payload kind x length-prefix policy.
func vC15DrawFrame(rt *rapid.T, label string, thoroughLens bool) vC15GenFrame {
	var typ byte
	var k *vC15Kind
	switch rapid.IntRange(0, 11).Draw(rt, label+".typeKind") {
	case 0:
		typ = rapid.SampledFrom([]byte{0, 255, 45, 46, 100}).Draw(rt, label+".undefType")
	case 1:
		// a response type
		typ = vC15Kinds[rapid.IntRange(0, len(vC15Kinds)-1).Draw(rt, label+".respOf")].typ + 1
	default:
		k = vC15Kinds[rapid.IntRange(0, len(vC15Kinds)-1).Draw(rt, label+".kind")]
		typ = k.typ
	}
	if k == nil {
		// not a request: the server skips the byte; follow it by nothing or a few raw bytes
		raw := rapid.SliceOfN(rapid.Byte(), 0, 6).Draw(rt, label+".junk")
		return vC15GenFrame{desc: fmt.Sprintf("type %d (not a request) +%d raw bytes", typ, len(raw)), bytes: append([]byte{typ}, raw...)}
	}
	if k.noLV {
		return vC15GenFrame{desc: k.name, bytes: []byte{typ}}
	}
	// payload
	var payload []byte
	pdesc := ""
	valid, content := vC15DrawValid(rt, k, label+".valid")
	switch rapid.IntRange(0, 11).Draw(rt, label+".payloadKind") {
	case 0:
		payload = rapid.SliceOfN(rapid.Byte(), 0, 48).Draw(rt, label+".raw")
		pdesc = "raw"
	case 1:
		if len(valid) > 0 {
			payload = valid[:rapid.IntRange(0, len(valid)-1).Draw(rt, label+".truncAt")]
		}
		pdesc = "truncated-message"
	case 2:
		payload = append([]byte(nil), valid...)
		if len(payload) > 0 {
			for n := rapid.IntRange(1, 3).Draw(rt, label+".nflips"); n > 0; n-- {
				i := rapid.IntRange(0, len(payload)-1).Draw(rt, label+".flipAt")
				payload[i] ^= 1 << uint(rapid.IntRange(0, 7).Draw(rt, label+".flipBit"))
			}
		}
		pdesc = "bit-flipped"
	case 3:
		payload = nil
		pdesc = "empty"
	default:
		payload = valid
		pdesc = "valid"
		if content != "" {
			pdesc = "valid-envelope:" + content
		}
	}
	// length prefix
	lenField := int64(len(payload))
	ldesc := "exact"
	switch rapid.IntRange(0, 29).Draw(rt, label+".lenKind") {
	case 0:
		lenField, ldesc = -1, "-1"
	case 1:
		lenField, ldesc = math.MinInt64, "MinInt64"
	case 2:
		lenField, ldesc = MaxMessageSize, "MaxMessageSize"
	case 3:
		lenField, ldesc = MaxMessageSize+1, "MaxMessageSize+1"
	case 4:
		lenField, ldesc = math.MaxInt64, "MaxInt64"
	case 5:
		lenField, ldesc = int64(len(payload))+int64(rapid.IntRange(1, 200).Draw(rt, label+".over")), "claimed>provided"
	case 6:
		if len(payload) > 0 {
			lenField, ldesc = int64(rapid.IntRange(0, len(payload)-1).Draw(rt, label+".under")), "claimed<provided"
		}
	case 7:
		lenField, ldesc = -int64(rapid.Int64Range(2, math.MaxInt64).Draw(rt, label+".neg")), "negative"
	case 8:
		lenField, ldesc = rapid.Int64Range(MaxMessageSize, math.MaxInt64).Draw(rt, label+".huge"), "huge"
	case 9:
		if rapid.IntRange(0, 3).Draw(rt, label+".mid") == 0 {
			// claims up to 8 MiB but provides little: a legitimate allocation of that size
			lenField, ldesc = int64(len(payload))+rapid.Int64Range(1<<16, 8<<20).Draw(rt, label+".midLen"), "claimed>provided(<=8MiB)"
		}
	}
	return vC15GenFrame{desc: fmt.Sprintf("%s[%s,len=%s]", k.name, pdesc, ldesc), bytes: vC15Encode(typ, lenField, payload)}
}

// vC15Unsafe reports why a stream must not be fed to the bed (it would make the node dial an
// arbitrary host or wait in a 10 s retry loop that the scripted meta client cannot satisfy).
func vC15Unsafe(frames []*vC15Frame) string {
	for _, f := range frames {
		if f.req == nil {
			continue
		}
		if f.kind.hostOf != nil {
			if h, _ := f.kind.hostOf(f.req); h != vC15CopyHost {
				return "copyShard-foreign-host"
			}
		}
		if f.kind.updateOf != nil && f.kind.updateOf(f.req) {
			return "joinCluster-update-retry-loop"
		}
		// tsdb.Shards.IteratorCost leaks a WaitGroup count when an earlier shard has already failed
		// (Take/Add happen before the error check, the loop then breaks without Done): the connection
		// goroutine waits forever. A hang is not a crash (C15) but it stalls the campaign for minutes,
		// so iteratorCost requests over more than one shard are not fed unless VERIF_C15_MULTICOST is set.
		if r, ok := f.req.(*IteratorCostRequest); ok && len(r.ShardIDs) > 1 && os.Getenv("VERIF_C15_MULTICOST") == "" {
			return "iteratorCost-multi-shard-may-hang"
		}
	}
	return ""
}

// vC15Known returns the signature of a known finding that the stream would trigger ("" if none).
// Such streams are excluded by construction from the main campaign and counted; each signature has
// a directed test. VERIF_C15_KNOWN lists the signatures to exclude (set in checks.d/C15.json; empty
// when every finding of this property has been repaired).
func vC15Known(frames []*vC15Frame) string {
	known := os.Getenv("VERIF_C15_KNOWN")
	if known == "" {
		return ""
	}
	for _, f := range frames {
		if r, ok := f.req.(*MeasurementNamesRequest); ok && strings.Contains(known, "measurement-names-and-or-on-empty-index-panics") {
			if vC15HasAndOr(r.Condition) {
				return "measurement-names-and-or-on-empty-index-panics"
			}
		}
	}
	return ""
}

func vC15HasAndOr(e influxql.Expr) bool {
	found := false
	influxql.WalkFunc(e, func(n influxql.Node) {
		if b, ok := n.(*influxql.BinaryExpr); ok && (b.Op == influxql.AND || b.Op == influxql.OR) {
			found = true
		}
	})
	return found
}

type vC15Verdict struct {
	sig, msg string
	classes  []string
	nt       bool
	canon    string
}

// vC15Judge feeds the stream to the bed and applies oracles (1)-(3).
func vC15Judge(b *vC15Bed, stream []byte, frames []*vC15Frame) vC15Verdict {
	var v vC15Verdict
	var claimed int64
	for _, f := range frames {
		if !f.badLen && f.lenField > 0 {
			claimed += f.lenField
		}
	}
	var m0, m1 runtime.MemStats
	runtime.ReadMemStats(&m0)
	var conn *vC15Conn
	var pan interface{}
	var stack string
	finished := verifkit.Watch(300*time.Second, func() { conn, pan, stack = b.feed(stream) })
	runtime.ReadMemStats(&m1)
	if !finished {
		// A connection goroutine that does not come back is not a crash of the node and not a C15
		// violation (deadlocks are C19's subject); it also cannot be retried in this process because
		// the stuck goroutine keeps the store busy. Dump every goroutine for diagnosis and leave with
		// a non-test exit code: the driver re-runs the identical command once and reports the run
		// as inconclusive, never as a violation.
		buf := make([]byte, 4<<20)
		buf = buf[:runtime.Stack(buf, true)]
		fmt.Fprintf(os.Stderr, "VERIF-INCONCLUSIVE handleConn did not return within 300 s; stream %x\n%s\n", vC15Cap(stream), buf)
		verifkit.FlushAll()
		os.Exit(3)
	}
	if pan != nil {
		v.sig = "handleconn-panic"
		s := fmt.Sprint(pan)
		switch {
		case strings.Contains(s, "makeslice"):
			v.sig = "handleconn-panic-makeslice"
		case strings.Contains(s, "nil pointer"):
			v.sig = "handleconn-panic-nil-deref"
		case strings.Contains(s, "index out of range") || strings.Contains(s, "slice bounds"):
			v.sig = "handleconn-panic-index"
		}
		v.msg = fmt.Sprintf("handleConn panicked (a data node would exit): %v\n%s", pan, vC15TrimStack(stack))
		return v
	}
	// (2) never a read buffer for an out-of-range length, never more than the limit
	if conn.maxRead >= MaxMessageSize {
		v.sig, v.msg = "frame-buffer-over-limit", fmt.Sprintf("a read buffer of %d bytes was allocated for one frame (limit %d)", conn.maxRead, MaxMessageSize)
		return v
	}
	for _, f := range frames {
		if f.badLen {
			for _, n := range conn.reads {
				if int64(n) == f.lenField {
					v.sig, v.msg = "buffer-allocated-for-out-of-range-length", fmt.Sprintf("%s frame with length %d: a buffer of exactly that size was read into", f.kind.name, f.lenField)
					return v
				}
			}
		}
	}
	grown := int64(m1.TotalAlloc - m0.TotalAlloc)
	if budget := 16*claimed + 256<<20; grown > budget {
		v.sig, v.msg = "allocation-beyond-claimed-length", fmt.Sprintf("handleConn allocated %d bytes for a stream whose in-range frames claim %d bytes in total", grown, claimed)
		return v
	}
	// (3) replies: one TLV of the matching response type per processed request; malformed requests
	// are never answered with success
	reply := conn.out.Bytes()
	pos := 0
	for i, f := range frames {
		last := i == len(frames)-1
		if f.kind.noReply {
			break // raw stream follows (or nothing)
		}
		if (f.badLen || f.cut) && f.kind.bareErr {
			break // connection is dropped without an answer
		}
		if pos == len(reply) {
			// no answer: acceptable only as "closed the connection" for a malformed request
			if f.malformed() {
				v.classes = append(v.classes, "reply:none-for-malformed")
				break
			}
			v.sig, v.msg = "request-not-answered", fmt.Sprintf("frame %d (%s): well-formed request got no reply although the connection was served to the end", i, f.kind.name)
			return v
		}
		if pos+1 == len(reply) && reply[pos] == f.kind.typ+1 {
			v.sig, v.msg = "reply-type-byte-without-length-value", fmt.Sprintf("frame %d (%s): the reply consists of the type byte %d alone - the response could not be marshalled after its type byte had been written; the peer gets no error and the stream is desynchronised", i, f.kind.name, reply[pos])
			if f.kind.typ == seriesSketchesRequestMessage || f.kind.typ == measurementsSketchesRequestMessage {
				v.sig = "sketches-error-reply-not-encodable"
			}
			return v
		}
		if pos+9 > len(reply) {
			v.sig, v.msg = "reply-truncated", fmt.Sprintf("frame %d (%s): reply stream ends inside a frame header", i, f.kind.name)
			return v
		}
		typ := reply[pos]
		sz := int64(binary.BigEndian.Uint64(reply[pos+1 : pos+9]))
		if typ != f.kind.typ+1 || sz < 0 || int64(len(reply)-pos-9) < sz {
			v.sig, v.msg = "reply-type-mismatch", fmt.Sprintf("frame %d (%s, type %d): reply has type %d length %d (%d bytes left)", i, f.kind.name, f.kind.typ, typ, sz, len(reply)-pos-9)
			return v
		}
		body := reply[pos+9 : pos+9+int(sz)]
		pos += 9 + int(sz)
		isErr, derr := f.kind.respErr(body)
		if derr != nil {
			v.sig, v.msg = "reply-undecodable", fmt.Sprintf("frame %d (%s): reply of type %d does not decode: %v", i, f.kind.name, typ, derr)
			return v
		}
		switch {
		case f.malformed() && !isErr:
			why := "undecodable payload"
			switch {
			case f.badLen:
				why = fmt.Sprintf("length %d out of range", f.lenField)
			case f.cut:
				why = "stream ends inside the frame"
			case f.badStmt:
				why = "statement does not parse"
			}
			v.sig, v.msg = "malformed-request-answered-with-success", fmt.Sprintf("frame %d (%s): %s, but the reply reports success", i, f.kind.name, why)
			return v
		case isErr:
			v.classes = append(v.classes, "reply:error:"+f.kind.name)
		default:
			v.classes = append(v.classes, "reply:ok:"+f.kind.name)
		}
		if last && pos < len(reply) {
			v.classes = append(v.classes, "reply:streamed-data-follows")
		}
	}
	return v
}

func vC15TrimStack(s string) string {
	lines := strings.Split(s, "\n")
	var keep []string
	for _, l := range lines {
		if strings.Contains(l, "/influxdb/") || strings.Contains(l, "influxql") || strings.HasPrefix(l, "panic") {
			keep = append(keep, strings.TrimSpace(l))
		}
		if len(keep) >= 14 {
			break
		}
	}
	return strings.Join(keep, "\n")
}

func vC15FrameClasses(frames []*vC15Frame, skipped int) (classes []string, nt bool, canon string) {
	var sb strings.Builder
	if skipped > 0 {
		classes = append(classes, "stream:non-request-type-bytes")
		nt = true
		fmt.Fprintf(&sb, "skip%d;", skipped)
	}
	for _, f := range frames {
		st := "wellformed"
		switch {
		case f.badLen && f.lenField < 0:
			st = "negative-length"
		case f.badLen:
			st = "length>=max"
		case f.cut:
			st = "cut"
		case f.undecoded:
			st = "undecodable"
		case f.badStmt:
			st = "unparsable-statement"
		}
		if st != "wellformed" {
			nt = true
		}
		classes = append(classes, "frame:"+st, "type:"+f.kind.name+":"+st)
		fmt.Fprintf(&sb, "%s:%s:%d;", f.kind.name, st, len(f.payload))
	}
	return classes, nt, sb.String()
}

const vC15ConnRule = "rapid: stream of 1-5 frames; type byte from every request type / response types / undefined; payload from {valid message with generated fields, valid envelope with invalid contents (undecodable binary points, unparsable statement, missing or bad read source, degenerate predicate trees), truncated, bit-flipped, raw, empty}; length prefix from {exact, -1, MinInt64, other negatives, MaxMessageSize, +1, MaxInt64, other huge, claimed>provided (small / up to 8 MiB), claimed<provided}; fed to handleConn over an in-memory connection under recover, then a well-formed writeShard on a fresh net.Pipe connection; non-trivial = at least one frame that is not a well-formed request (as consumed by the server); distinct = hash of (type, status, payload length) per consumed frame"

func TestVerifC15HandleConn(t *testing.T) {
	st := verifkit.For("C15", "TestVerifC15HandleConn", vC15ConnRule)
	defer st.Flush()
	defer vC15DropBed()
	n := 0
	rapid.Check(t, func(rt *rapid.T) {
		b, err := vC15GetBed()
		if err != nil {
			rt.Fatalf("harness: bed: %v", err)
		}
		nf := rapid.IntRange(1, 5).Draw(rt, "frames")
		var stream []byte
		var descs []string
		for i := 0; i < nf; i++ {
			f := vC15DrawFrame(rt, fmt.Sprintf("f%d", i), false)
			stream = append(stream, f.bytes...)
			descs = append(descs, f.desc)
		}
		frames, skipped := vC15Walk(stream)
		if why := vC15Unsafe(frames); why != "" {
			st.Class("skipped:"+why, 1)
			rt.Skip(why)
		}
		if sig := vC15Known(frames); sig != "" {
			st.Exclude(sig)
			rt.Skip("known finding excluded: " + sig)
		}
		v := vC15Judge(b, stream, frames)
		if v.sig != "" {
			vC15DropBed()
			rt.Fatalf("%s %s\nframes: %v\nstream: %x", verifkit.Sig(v.sig), v.msg, descs, vC15Cap(stream))
		}
		n++
		if n%25 == 0 || len(frames) == 0 {
			if err := b.alive(); err != nil {
				vC15DropBed()
				rt.Fatalf("%s after the stream the node no longer serves a well-formed request: %v\nframes: %v", verifkit.Sig("node-not-serving-after-stream"), err, descs)
			}
		}
		classes, nt, canon := vC15FrameClasses(frames, skipped)
		classes = append(classes, v.classes...)
		st.Case(nt, canon, vC15Uniq(classes)...)
		if st.WantSample() {
			st.Sample(map[string]interface{}{"frames": descs, "stream_hex": fmt.Sprintf("%x", vC15Cap(stream)), "consumed_frames": canon, "reply_classes": v.classes})
		} else {
			st.Sample(nil)
		}
	})
}

func vC15Cap(b []byte) []byte {
	if len(b) > 600 {
		return b[:600]
	}
	return b
}

func vC15Uniq(in []string) []string {
	seen := map[string]bool{}
	var out []string
	for _, s := range in {
		if !seen[s] {
			seen[s] = true
			out = append(out, s)
		}
	}
	return out
}

// ---------------------------------------------------------------------------------------------
// frame-length oracle on ReadLV itself

type vC15CountingReader struct {
	r        *bytes.Reader
	requests []int
}

func (c *vC15CountingReader) Read(p []byte) (int, error) {
	c.requests = append(c.requests, len(p))
	return c.r.Read(p)
}

// vC15ReadLVOnce calls ReadLV on an 8-byte length followed by payload under recover and reports the
// allocation growth of the process during the call.
func vC15ReadLVOnce(lenField int64, payload []byte) (buf []byte, err error, pan interface{}, grown int64, reads []int) {
	var hdr [8]byte
	binary.BigEndian.PutUint64(hdr[:], uint64(lenField))
	cr := &vC15CountingReader{r: bytes.NewReader(append(hdr[:], payload...))}
	var m0, m1 runtime.MemStats
	runtime.ReadMemStats(&m0)
	func() {
		defer func() { pan = recover() }()
		buf, err = ReadLV(cr)
	}()
	runtime.ReadMemStats(&m1)
	return buf, err, pan, int64(m1.TotalAlloc - m0.TotalAlloc), cr.requests
}

func TestVerifC15FrameLength(t *testing.T) {
	st := verifkit.For("C15", "TestVerifC15FrameLength", "enumeration + seeded sample of length prefixes handed to ReadLV: every boundary value (-1, MinInt64, -2^31, -2^32, MaxMessageSize-1 is left to the huge-frame test, MaxMessageSize, +1, 2^31, 2^32, 2^40, MaxInt64), 4000 seeded negative and 4000 seeded huge values, and in-range lengths 0..70000 with exact, short and long payloads; out-of-range must give an error, no panic, no read request of that size and < 16 MiB allocated during the call; in-range must return exactly the payload or an error when it is short; non-trivial = length out of range or payload shorter than claimed")
	defer st.Flush()
	seed := uint64(vEnvInt64("VERIF_PLAIN_SEED", 1))
	rng := vSplitMix{s: seed ^ 0xc15}
	check := func(lenField int64, payload []byte, class string) {
		buf, err, pan, grown, reads := vC15ReadLVOnce(lenField, payload)
		desc := fmt.Sprintf("len=%d provided=%d", lenField, len(payload))
		fail := func(sig, f string, a ...interface{}) {
			fmt.Printf("VERIF-CASE %s\n", desc)
			t.Fatalf("%s %s: %s", verifkit.Sig(sig), desc, fmt.Sprintf(f, a...))
		}
		if pan != nil {
			fail("readlv-panic", "ReadLV panicked: %v", pan)
		}
		out := lenField < 0 || lenField >= MaxMessageSize
		switch {
		case out:
			if err == nil {
				fail("out-of-range-length-accepted", "ReadLV returned %d bytes and no error", len(buf))
			}
			if grown > 16<<20 {
				fail("allocation-for-out-of-range-length", "%d bytes were allocated while ReadLV rejected the frame", grown)
			}
			if len(reads) != 1 {
				fail("buffer-allocated-for-out-of-range-length", "ReadLV went on reading after the length field (read requests %v)", reads)
			}
		case int64(len(payload)) < lenField:
			if err == nil {
				fail("short-frame-accepted", "ReadLV returned no error for a payload shorter than claimed")
			}
			if grown > lenField+16<<20 {
				fail("allocation-beyond-claimed-length", "%d bytes allocated for a claimed length of %d", grown, lenField)
			}
		default:
			if err != nil {
				fail("valid-frame-rejected", "ReadLV failed: %v", err)
			}
			if !bytes.Equal(buf, payload[:lenField]) {
				fail("frame-payload-altered", "ReadLV returned different bytes than were sent")
			}
		}
		nt := out || int64(len(payload)) < lenField
		st.Case(nt, class+":"+desc, "length:"+class)
		if st.WantSample() {
			st.Sample(map[string]interface{}{"length_field": lenField, "payload_bytes": len(payload), "error": fmt.Sprint(err), "allocated_during_call": grown})
		} else {
			st.Sample(nil)
		}
	}
	if cs := os.Getenv("VERIF_CASE"); cs != "" {
		var l int64
		var p int
		fmt.Sscanf(cs, "len=%d provided=%d", &l, &p)
		check(l, make([]byte, p), "replay")
		st.Case(true, "replay2", "length:replay")
		return
	}
	few := []byte("0123456789")
	for _, l := range []int64{-1, math.MinInt64, math.MinInt64 + 1, -(1 << 31), -(1 << 32), -(1 << 62), MaxMessageSize, MaxMessageSize + 1, 1 << 31, 1<<31 - 1 + MaxMessageSize, 1 << 32, 1 << 40, 1 << 62, math.MaxInt64 - 1, math.MaxInt64} {
		check(l, few, "boundary-out-of-range")
		check(l, nil, "boundary-out-of-range")
	}
	for i := 0; i < 4000; i++ {
		check(-int64(rng.next()>>1)-1, few, "negative")
		check(MaxMessageSize+int64(rng.next()>>1)%(math.MaxInt64-MaxMessageSize), few, "huge")
	}
	big := make([]byte, 70100)
	for i := range big {
		big[i] = byte(rng.next())
	}
	for _, l := range []int64{0, 1, 2, 7, 8, 9, 255, 256, 4095, 4096, 4097, 65535, 65536, 70000} {
		check(l, big[:l], "in-range-exact")
		check(l, big[:l+100], "in-range-extra-bytes-follow")
		if l > 0 {
			check(l, big[:l-1], "in-range-short-by-one")
			check(l, big[:l/2], "in-range-short")
		}
	}
	for i := 0; i < 2000; i++ {
		l := int64(rng.intn(70000))
		have := rng.intn(70100)
		check(l, big[:have], "in-range-random")
	}
}

// TestVerifC15HugeFrames (thorough tier only): lengths in (64 MiB, 1 GiB), one at a time. Each
// legitimately allocates that much; the frame is cut short, so the answer must be an error or a
// closed connection and the node must keep serving.
func TestVerifC15HugeFrames(t *testing.T) {
	st := verifkit.For("C15", "TestVerifC15HugeFrames", "directed, one at a time: frames of every request type class with claimed length 64 MiB+1, 256 MiB, 512 MiB, 1 GiB-1 and a few payload bytes; no panic, allocation <= claimed + 64 MiB, error reply or closed connection, node still serving")
	defer st.Flush()
	defer vC15DropBed()
	b, err := vC15GetBed()
	if err != nil {
		t.Fatalf("harness: %v", err)
	}
	kinds := []byte{writeShardRequestMessage, executeStatementRequestMessage, tagKeysRequestMessage, createIteratorRequestMessage, copyShardRequestMessage}
	for i, l := range []int64{64<<20 + 1, 256 << 20, 512 << 20, MaxMessageSize - 1} {
		typ := kinds[i%len(kinds)]
		stream := vC15Encode(typ, l, []byte("only a few bytes"))
		frames, _ := vC15Walk(stream)
		runtime.GC()
		var m0, m1 runtime.MemStats
		runtime.ReadMemStats(&m0)
		conn, pan, stack := b.feed(stream)
		runtime.ReadMemStats(&m1)
		desc := fmt.Sprintf("type=%d len=%d", typ, l)
		if pan != nil {
			t.Fatalf("%s %s: handleConn panicked: %v\n%s", verifkit.Sig("handleconn-panic"), desc, pan, vC15TrimStack(stack))
		}
		if grown := int64(m1.TotalAlloc - m0.TotalAlloc); grown > l+64<<20 {
			t.Fatalf("%s %s: %d bytes allocated for a claimed length of %d", verifkit.Sig("allocation-beyond-claimed-length"), desc, grown, l)
		}
		v := vC15JudgeReplyOnly(conn, frames)
		if v.sig != "" {
			t.Fatalf("%s %s: %s", verifkit.Sig(v.sig), desc, v.msg)
		}
		if err := b.alive(); err != nil {
			t.Fatalf("%s %s: %v", verifkit.Sig("node-not-serving-after-stream"), desc, err)
		}
		st.Case(true, desc, "huge-frame:cut")
		st.Sample(map[string]interface{}{"frame": desc, "allocated": int64(m1.TotalAlloc - m0.TotalAlloc)})
		runtime.GC()
	}
}

// vC15JudgeReplyOnly applies oracle (3) to an already served connection.
func vC15JudgeReplyOnly(conn *vC15Conn, frames []*vC15Frame) vC15Verdict {
	var v vC15Verdict
	reply := conn.out.Bytes()
	if len(frames) == 0 || len(reply) == 0 {
		return v
	}
	f := frames[0]
	if len(reply) < 9 || reply[0] != f.kind.typ+1 {
		v.sig, v.msg = "reply-type-mismatch", fmt.Sprintf("reply starts with type %d", reply[0])
		return v
	}
	sz := int(binary.BigEndian.Uint64(reply[1:9]))
	if sz < 0 || 9+sz > len(reply) {
		v.sig, v.msg = "reply-truncated", "reply frame is cut"
		return v
	}
	isErr, derr := f.kind.respErr(reply[9 : 9+sz])
	if derr != nil {
		v.sig, v.msg = "reply-undecodable", derr.Error()
	} else if f.malformed() && !isErr {
		v.sig, v.msg = "malformed-request-answered-with-success", "cut frame answered with success"
	}
	return v
}

// keep the hand-built invalid-condition envelope generator referenced (used by the fuzz seeds)
func vC15BadConditionPayload(cond string) []byte {
	b, _ := proto.Marshal(&internal.TagKeysRequest{ShardIDs: []uint64{1}, Condition: proto.String(cond)})
	return b
}

// ---------------------------------------------------------------------------------------------
// native fuzz target (thorough tier): the input stream of handleConn

func FuzzVerifC15HandleConn(f *testing.F) {
	// seeds: one well-formed request of several types, a negative length, an undecodable point
	var w WriteShardRequest
	w.SetShardID(1)
	w.SetDatabase("db")
	w.SetRetentionPolicy("rp")
	w.SetBinaryPoints([][]byte{[]byte("garbage")})
	wb, _ := w.MarshalBinary()
	f.Add(vC15Encode(writeShardRequestMessage, int64(len(wb)), wb))
	f.Add(vC15Encode(writeShardRequestMessage, -1, nil))
	f.Add(vC15Encode(tagKeysRequestMessage, MaxMessageSize, []byte("x")))
	for _, c := range vC15BadConds {
		p := vC15BadConditionPayload(c)
		f.Add(vC15Encode(tagKeysRequestMessage, int64(len(p)), p))
	}
	var e ExecuteStatementRequest
	e.SetDatabase("db")
	e.SetStatement("DROP SERIES FROM \"nope\"")
	eb, _ := e.MarshalBinary()
	f.Add(append(vC15Encode(executeStatementRequestMessage, int64(len(eb)), eb), listShardsRequestMessage))
	ci := CreateIteratorRequest{ShardIDs: []uint64{1}}
	ci.Measurement.Name = "cpu"
	cb, _ := ci.MarshalBinary()
	f.Add(vC15Encode(createIteratorRequestMessage, int64(len(cb)), cb))
	f.Add([]byte{0, 255, leaveClusterRequestMessage})
	f.Fuzz(func(t *testing.T, stream []byte) {
		if len(stream) > 1<<16 {
			return
		}
		frames, _ := vC15Walk(stream)
		if vC15Unsafe(frames) != "" || vC15Known(frames) != "" {
			return
		}
		for _, fr := range frames {
			// a claimed length the stream does not provide is a legitimate allocation of that size;
			// keep it small here (the huge-frame test covers large ones one at a time)
			if !fr.badLen && fr.lenField > 1<<20 {
				return
			}
		}
		b, err := vC15GetBed()
		if err != nil {
			t.Skip(err)
		}
		v := vC15Judge(b, stream, frames)
		if v.sig != "" {
			vC15DropBed()
			t.Fatalf("%s %s\nstream: %x", verifkit.Sig(v.sig), v.msg, vC15Cap(stream))
		}
	})
}
