//go:build verif

package coordinator

// C19 - connection pool under concurrent use (run with -race). DESIGN.md section 4, C19.

import (
	"fmt"
	"net"
	"sync"
	"sync/atomic"
	"testing"
	"time"

	"pgregory.net/rapid"
	"verifkit"
)

type vC19Conn struct {
	net.Conn
	id      int64
	holders int32
	closed  int32
	live    *int64
}

func (c *vC19Conn) Close() error {
	if atomic.CompareAndSwapInt32(&c.closed, 0, 1) {
		atomic.AddInt64(c.live, -1)
	}
	return nil
}

func TestVerifC19Pool(t *testing.T) {
	stats := verifkit.For("C19", "TestVerifC19Pool",
		"generated programs of 2..10 goroutines doing Get / Close (return) / MarkUnusable+Close / Len / Size on one bounded pool with a small maxCap, optionally closing the pool while they run; invariants: never more than maxCap connections are held at once, a connection is never held by two goroutines, no panic, no race-detector report, every goroutine finishes. non-trivial = >=3 goroutines and more goroutines than maxCap; distinct = hash of the program")
	defer stats.Flush()
	old := PoolWaitTimeout
	PoolWaitTimeout = 50 * time.Millisecond
	defer func() { PoolWaitTimeout = old }()
	rapid.Check(t, func(rt *rapid.T) {
		maxCap := rapid.IntRange(1, 4).Draw(rt, "maxCap")
		initial := rapid.IntRange(0, maxCap).Draw(rt, "initialCap")
		g := rapid.IntRange(2, 10).Draw(rt, "goroutines")
		closePool := rapid.Bool().Draw(rt, "closePoolMidway")
		var live, created, maxLive int64
		var seq int64
		var held int64 // connections currently held by program goroutines (between Get and Close)
		factory := func() (net.Conn, error) {
			atomic.AddInt64(&live, 1)
			atomic.AddInt64(&created, 1)
			return &vC19Conn{id: atomic.AddInt64(&seq, 1), live: &live}, nil
		}
		p, err := NewBoundedPool(initial, maxCap, time.Hour, factory)
		if err != nil {
			rt.Fatalf("NewBoundedPool: %v", err)
		}
		progs := make([][]int, g)
		for i := range progs {
			progs[i] = rapid.SliceOfN(rapid.IntRange(0, 3), 3, 25).Draw(rt, fmt.Sprintf("prog%d", i))
		}
		var wg sync.WaitGroup
		var bad atomic.Value
		for i := 0; i < g; i++ {
			wg.Add(1)
			go func(ops []int) {
				defer wg.Done()
				defer func() {
					if r := recover(); r != nil {
						bad.Store(fmt.Sprintf("panic: %v", r))
					}
				}()
				for _, op := range ops {
					switch op {
					case 0, 1:
						c, err := p.Get()
						if err != nil {
							continue
						}
						h := atomic.AddInt64(&held, 1)
						for {
							m := atomic.LoadInt64(&maxLive)
							if h <= m || atomic.CompareAndSwapInt64(&maxLive, m, h) {
								break
							}
						}
						pc := c.(*pooledConn)
						raw := pc.Conn.(*vC19Conn)
						if atomic.AddInt32(&raw.holders, 1) != 1 {
							bad.Store(fmt.Sprintf("connection %d handed to two holders", raw.id))
						}
						if atomic.LoadInt32(&raw.closed) == 1 {
							bad.Store(fmt.Sprintf("closed connection %d handed out", raw.id))
						}
						atomic.AddInt32(&raw.holders, -1)
						if op == 1 {
							MarkUnusable(c)
						}
						atomic.AddInt64(&held, -1)
						c.Close()
					case 2:
						p.Len()
					case 3:
						p.Size()
					}
				}
			}(progs[i])
		}
		if closePool {
			p.Close()
		}
		done := make(chan struct{})
		go func() { wg.Wait(); close(done) }()
		select {
		case <-done:
		case <-time.After(30 * time.Second):
			rt.Fatalf("%s pool users did not finish within 30s", verifkit.Sig("pool-deadlock"))
		}
		p.Close()
		if v := bad.Load(); v != nil {
			rt.Fatalf("%s %v", verifkit.Sig("pool-invariant"), v)
		}
		if m := atomic.LoadInt64(&maxLive); m > int64(maxCap) {
			rt.Fatalf("%s %d connections held at once with maxCap %d", verifkit.Sig("pool-exceeds-maxcap"), m, maxCap)
		}
		stats.Case(g >= 3 && g > maxCap, fmt.Sprint(maxCap, initial, closePool, progs), fmt.Sprintf("maxCap:%d", maxCap), fmt.Sprintf("closeMidway:%v", closePool))
		if stats.WantSample() {
			stats.Sample(map[string]interface{}{"maxCap": maxCap, "initialCap": initial, "goroutines": g, "closePoolMidway": closePool, "programs": progs, "created": created})
		} else {
			stats.Sample(nil)
		}
	})
}
