//go:build verif

package coordinator_test

// C03 with the real ShardWriter: a cluster write may count an owner as "stored" only if that owner stored
// THIS write. The scripted-writer enumeration (TestVerifC03Enumerate) cannot see what the real shard writer does
// with its pooled connections when an owner answers later than the timeout, so this test drives the real
// ShardWriter against a real coordinator.Service on loopback whose store is scripted per call.

import (
	"fmt"
	"strings"
	"sync"
	"testing"
	"time"

	"github.com/influxdata/influxdb/coordinator"
	"github.com/influxdata/influxdb/models"
	"github.com/influxdata/influxdb/tsdb"
	"pgregory.net/rapid"
	"verifkit"
)

func TestVerifC03RealShardWriter(t *testing.T) {
	stats := verifkit.For("C03", "TestVerifC03RealShardWriter",
		"a real ShardWriter (timeout 250 ms, pooled connections) writes 2..6 uniquely identifiable batches, one after the other, to one remote owner: a real coordinator.Service on loopback whose store is scripted per call (stores at once, rejects at once, or stores after 700 ms, i.e. answers after the writer's timeout; at most two slow calls per case). Oracle: a write is reported as successful only if the owner stored exactly that batch, a rejected batch is never reported as successful, and nothing is stored twice; a write that the owner stored but that is reported as timed out is legitimate (the level was not met within the timeout). non-trivial = a fast write follows a slow one; distinct = the outcome script")
	defer stats.Flush()
	rapid.Check(t, func(rt *rapid.T) {
		const (
			shardID = uint64(7)
			ownerID = uint64(2)
			timeout = 250 * time.Millisecond
			slowFor = 700 * time.Millisecond
		)
		n := rapid.IntRange(2, 6).Draw(rt, "writes")
		script := make([]string, n)
		slow := 0
		for i := range script {
			k := rapid.SampledFrom([]string{"ok", "ok", "reject", "slow-ok", "slow-ok"}).Draw(rt, "outcome")
			if k == "slow-ok" {
				if slow == 2 {
					k = "ok"
				} else {
					slow++
				}
			}
			script[i] = k
		}
		// the owner may not have the shard yet (first batch after the shard group was created): its store then
		// answers ErrShardNotFound, the service creates the shard and must write the batch again
		newShard := rapid.Bool().Draw(rt, "ownerLacksShard")
		var mu sync.Mutex
		created := !newShard
		stored := map[string]int{}
		var wg sync.WaitGroup
		ts := newTestWriteService(func(id uint64, points []models.Point) error {
			mu.Lock()
			missing := !created
			mu.Unlock()
			if missing {
				return tsdb.ErrShardNotFound
			}
			// the batch identifies its write: measurement w<i>
			idx := -1
			if len(points) > 0 {
				fmt.Sscanf(string(points[0].Name()), "w%d", &idx)
			}
			if idx < 0 || idx >= n {
				return fmt.Errorf("harness: unknown batch")
			}
			wg.Add(1)
			defer wg.Done()
			switch script[idx] {
			case "reject":
				return fmt.Errorf("partial write: field type conflict dropped=%d", len(points))
			case "slow-ok":
				time.Sleep(slowFor)
			}
			mu.Lock()
			for _, p := range points {
				stored[p.String()]++
			}
			mu.Unlock()
			return nil
		})
		ts.TSDBStore.CreateShardFn = func(database, policy string, shardID uint64, enabled bool) error {
			mu.Lock()
			created = true
			mu.Unlock()
			return nil
		}
		remote := coordinator.NewService(coordinator.Config{})
		remote.Listener = ts.muxln
		remote.DefaultListener = ts.defln
		remote.MetaClient = &metaClient{addr: ts.ln.Addr().String()}
		remote.TSDBStore = &ts.TSDBStore
		remote.Server = &server{}
		if err := remote.Open(); err != nil {
			rt.Fatalf("VERIF-INCONCLUSIVE harness: remote service: %v", err)
		}
		defer remote.Close()
		defer ts.Close()
		sw := coordinator.NewShardWriter(timeout, time.Second, time.Minute, 3)
		sw.MetaClient = &metaClient{addr: ts.ln.Addr().String()}
		defer sw.Close()

		errs := make([]error, n)
		pts := make([]models.Point, n)
		for i := 0; i < n; i++ {
			pts[i] = models.MustNewPoint(fmt.Sprintf("w%d", i), models.NewTags(map[string]string{"host": "h"}), models.Fields{"value": float64(i)}, time.Unix(int64(1000+i), 0))
			errs[i] = sw.WriteShard(shardID, ownerID, []models.Point{pts[i]})
		}
		// let the slow calls finish before judging
		time.Sleep(50 * time.Millisecond)
		wg.Wait()
		mu.Lock()
		defer mu.Unlock()
		afterSlow := false
		nontrivial := false
		var outcome []string
		for i := 0; i < n; i++ {
			got := stored[pts[i].String()]
			res := "ok"
			if errs[i] != nil {
				res = "err"
			}
			outcome = append(outcome, script[i]+"->"+res)
			if got > 1 {
				rt.Fatalf("%s write %d was stored %d times by the owner (script %v)", verifkit.Sig("remote-write-stored-twice"), i, got, script)
			}
			switch script[i] {
			case "reject":
				if errs[i] == nil {
					rt.Fatalf("%s write %d was rejected by its owner (nothing stored) but the shard writer reported success; script %v, results %v - the answer of an earlier, slow write was taken for this one", verifkit.Sig("rejected-remote-write-reported-as-stored"), i, script, outcome)
				}
			case "ok":
				if errs[i] == nil && got != 1 {
					rt.Fatalf("%s write %d reported success but the owner stored it %d times; script %v", verifkit.Sig("remote-write-success-without-store"), i, got, script)
				}
				if errs[i] != nil && !strings.Contains(errs[i].Error(), "timeout") && !strings.Contains(errs[i].Error(), "i/o") {
					rt.Fatalf("%s write %d was stored at once by its owner, but the shard writer reported %v (the answer of another write was taken for this one?); script %v, results %v", verifkit.Sig("stored-remote-write-reported-as-failed"), i, errs[i], script, outcome)
				}
				if errs[i] != nil {
					stats.Class("skipped:fast-write-timed-out-on-a-slow-machine", 1)
				}
				if afterSlow {
					nontrivial = true
				}
			case "slow-ok":
				if errs[i] == nil {
					rt.Fatalf("%s write %d was answered after %v, later than the writer's timeout of %v, but was reported as successful at once; script %v, results %v", verifkit.Sig("late-remote-write-reported-as-stored"), i, slowFor, timeout, script, outcome)
				}
				afterSlow = true
			}
		}
		stats.Case(nontrivial || newShard, fmt.Sprint(script, newShard), fmt.Sprintf("writes:%d", n), fmt.Sprintf("slow:%d", slow), fmt.Sprintf("ownerLacksShard:%v", newShard))
		if stats.WantSample() {
			stats.Sample(map[string]interface{}{"script": script, "results": outcome})
		} else {
			stats.Sample(nil)
		}
	})
}
