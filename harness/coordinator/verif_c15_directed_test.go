//go:build verif

package coordinator

// C15 directed tests: silent regressions for the repaired findings of this property (each fails
// with the finding's signature if the defect comes back).

import (
	"bytes"
	"context"
	"fmt"
	"testing"

	"github.com/influxdata/influxdb/query"
	"github.com/influxdata/influxdb/storage/reads/datatypes"
	"github.com/influxdata/influxql"
	"verifkit"
)

// TestVerifC15DirectedSketchesError: regression for the repaired finding
// sketches-error-reply-not-encodable (error replies of SeriesSketches / MeasurementsSketches had
// required sketch fields left nil, MarshalBinary failed after the type byte was on the wire).
func TestVerifC15DirectedSketchesError(t *testing.T) {
	st := verifkit.For("C15", "TestVerifC15DirectedSketchesError", "directed: seriesSketches / measurementsSketches requests that must be answered with an error (length -1, length >= max, undecodable payload, cut payload); the reply must be one complete error response frame")
	defer st.Flush()
	defer vC15DropBed()
	b, err := vC15GetBed()
	if err != nil {
		t.Fatalf("harness: %v", err)
	}
	for _, typ := range []byte{seriesSketchesRequestMessage, measurementsSketchesRequestMessage} {
		for name, stream := range map[string][]byte{
			"len=-1":      vC15Encode(typ, -1, nil),
			"len=max":     vC15Encode(typ, MaxMessageSize, nil),
			"undecodable": vC15Encode(typ, 3, []byte{0x0a, 0xff, 0xff}),
			"cut":         vC15Encode(typ, 50, []byte("short")),
		} {
			frames, _ := vC15Walk(stream)
			v := vC15Judge(b, stream, frames)
			if v.sig != "" {
				fmt.Printf("VERIF-CASE type=%d %s\n", typ, name)
				t.Fatalf("%s type %d, %s: %s", verifkit.Sig(v.sig), typ, name, v.msg)
			}
			st.Case(true, fmt.Sprintf("type=%d %s", typ, name), "directed:sketches-error-reply")
		}
	}
	// and the response values themselves
	for _, m := range []vC15Marshaler{&SeriesSketchesResponse{Err: fmt.Errorf("boom")}, &MeasurementsSketchesResponse{Err: fmt.Errorf("boom")}} {
		if _, err := m.MarshalBinary(); err != nil {
			t.Fatalf("%s %T with an error and no sketches cannot be marshalled: %v", verifkit.Sig("sketches-error-reply-not-encodable"), m, err)
		}
	}
	st.Sample(map[string]interface{}{"directed": "sketches requests answered with an error"})
}

// TestVerifC15DirectedReadGroup: a StoreReadGroup request whose Group mode is not GroupNone/GroupBy, or
// whose Aggregate type is not Sum/Count, makes storage/reads panic inside the connection goroutine.
func TestVerifC15DirectedReadGroup(t *testing.T) {
	st := verifkit.For("C15", "TestVerifC15DirectedReadGroup", "directed: well-formed StoreReadGroup envelopes with group mode 1 / 3 / 7 and with aggregate type None / 9 against shard 1")
	defer st.Flush()
	defer vC15DropBed()
	try := func(sig, what string, mut func(r *StoreReadGroupRequest)) {
		b, err := vC15GetBed()
		if err != nil {
			t.Fatalf("harness: %v", err)
		}
		r := StoreReadGroupRequest{ShardIDs: []uint64{1}}
		r.Request.ReadSource = vC15ReadSource("db", "rp")
		r.Request.Range = datatypes.TimestampRange{Start: 0, End: 100e9}
		mut(&r)
		buf, err := r.MarshalBinary()
		if err != nil {
			t.Fatalf("harness: %v", err)
		}
		_, pan, _ := b.feed(vC15Encode(storeReadGroupRequestMessage, int64(len(buf)), buf))
		st.Case(true, what, fmt.Sprintf("directed:%s:panicked=%v", sig, pan != nil))
		if pan != nil {
			vC15DropBed()
			fmt.Printf("VERIF-CASE %s\n", what)
			t.Fatalf("%s %s: handleConn panicked (%v); a data node would exit", verifkit.Sig(sig), what, pan)
		}
	}
	for _, g := range []int32{1, 3, 7} {
		g := g
		try("readgroup-unknown-group-mode-panics", fmt.Sprintf("StoreReadGroup with group mode %d", g), func(r *StoreReadGroupRequest) {
			r.Request.Group = datatypes.ReadGroupRequest_Group(g)
		})
	}
	for _, a := range []int32{0, 9} {
		a := a
		try("readgroup-invalid-aggregate-panics", fmt.Sprintf("StoreReadGroup with aggregate type %d", a), func(r *StoreReadGroupRequest) {
			r.Request.Group = datatypes.GroupNone
			r.Request.Aggregate = &datatypes.Aggregate{Type: datatypes.Aggregate_AggregateType(a)}
		})
	}
	st.Sample(map[string]interface{}{"directed": "StoreReadGroup with unsupported group mode / aggregate type"})
}

// TestVerifC15DirectedUnsignedPoint: query.encodeUnsignedPoint does not put the value on the wire.
func TestVerifC15DirectedUnsignedPoint(t *testing.T) {
	st := verifkit.For("C15", "TestVerifC15DirectedUnsignedPoint", "directed: unsigned points with values 1, 7, MaxUint64 through IteratorEncoder and ReaderIterator")
	defer st.Flush()
	lost := 0
	for _, v := range []uint64{1, 7, 1<<64 - 1} {
		var buf bytes.Buffer
		enc := query.NewIteratorEncoder(&buf)
		if err := enc.EncodeIterator(&vC15UintItr{pts: []query.UnsignedPoint{{Name: "cpu", Time: 1, Value: v}}}); err != nil {
			t.Fatalf("%s %v", verifkit.Sig("point-stream-encode-error"), err)
		}
		rd := query.NewReaderIterator(context.Background(), &buf, influxql.Unsigned, query.IteratorStats{})
		ui, ok := rd.(query.UnsignedIterator)
		if !ok {
			t.Fatalf("%s reader iterator for unsigned is %T", verifkit.Sig("point-stream-decode-error"), rd)
		}
		p, err := ui.Next()
		if err != nil || p == nil {
			t.Fatalf("%s unsigned point not read back: %v", verifkit.Sig("point-stream-decode-error"), err)
		}
		st.Case(true, fmt.Sprintf("value=%d decoded=%d", v, p.Value), fmt.Sprintf("directed:unsigned-value-lost=%v", p.Value != v))
		if p.Value != v {
			lost++
		}
	}
	if lost > 0 {
		t.Fatalf("%s unsigned point values are not put on the wire by the point encoder: %d of 3 streamed values arrived as 0", verifkit.Sig("unsigned-point-value-not-encoded"), lost)
	}
	st.Sample(map[string]interface{}{"directed": "unsigned point values through the iterator stream", "lost": lost})
}

// TestVerifC15DirectedIntegerFill: IteratorOptions.FillValue is only encoded when it is a float64;
// fill(5) parses to int64(5) and arrives as nil.
func TestVerifC15DirectedIntegerFill(t *testing.T) {
	st := verifkit.For("C15", "TestVerifC15DirectedIntegerFill", "directed: CreateIteratorRequest whose options carry fill(<integer>) as the InfluxQL parser produces it")
	defer st.Flush()
	stmt, err := influxql.ParseStatement("SELECT mean(v) FROM cpu WHERE time > 0 AND time < 10m GROUP BY time(1m) fill(5)")
	if err != nil {
		t.Fatalf("harness: %v", err)
	}
	sel := stmt.(*influxql.SelectStatement)
	req := CreateIteratorRequest{ShardIDs: []uint64{1}}
	req.Measurement.Name = "cpu"
	req.Opt = query.IteratorOptions{Expr: sel.Fields[0].Expr, Fill: sel.Fill, FillValue: sel.FillValue, StartTime: influxql.MinTime, EndTime: influxql.MaxTime}
	buf, err := req.MarshalBinary()
	if err != nil {
		t.Fatalf("%s %v", verifkit.Sig("roundtrip-error:createIteratorRequest"), err)
	}
	var got CreateIteratorRequest
	if err := got.UnmarshalBinary(buf); err != nil {
		t.Fatalf("%s %v", verifkit.Sig("roundtrip-error:createIteratorRequest"), err)
	}
	dropped := fmt.Sprint(got.Opt.FillValue) != fmt.Sprint(req.Opt.FillValue) // int64(5) -> float64(5) prints the same
	st.Case(true, fmt.Sprintf("fill=%v(%T) decoded=%v(%T)", req.Opt.FillValue, req.Opt.FillValue, got.Opt.FillValue, got.Opt.FillValue), fmt.Sprintf("directed:integer-fill-dropped=%v", dropped))
	if dropped {
		t.Fatalf("%s fill(5) is parsed to %T(%v); after Marshal+Unmarshal of the iterator options the fill value is %v", verifkit.Sig("iterator-options-integer-fill-value-dropped"), req.Opt.FillValue, req.Opt.FillValue, got.Opt.FillValue)
	}
	st.Sample(map[string]interface{}{"directed": "integer fill value in iterator options", "dropped": dropped})
}

// TestVerifC15DirectedMeasurementNamesAndOr: regression for the repaired finding
// measurement-names-and-or-on-empty-index-panics (a well-formed MeasurementNames request with an
// AND/OR condition for a database whose local shards are gone dereferenced a nil iterator in
// tsdb.IndexSet.measurementNamesByExpr).
func TestVerifC15DirectedMeasurementNamesAndOr(t *testing.T) {
	st := verifkit.For("C15", "TestVerifC15DirectedMeasurementNamesAndOr", "directed: MeasurementNames requests with AND / OR / nested conditions for a database whose last local shard was removed, a database that never had a shard, and a populated one")
	defer st.Flush()
	defer vC15DropBed()
	reproduced := ""
	for _, db := range []string{"emptydb", "nodb", "db"} {
		for _, cond := range []string{"host = 'h1' OR region = 'east'", "host = 'h1' AND region = 'west'", "host = 'h1' OR (region = 'east' AND host !~ /x$/)"} {
			b, err := vC15GetBed()
			if err != nil {
				t.Fatalf("harness: %v", err)
			}
			if db == "emptydb" {
				// a database whose last local shard has been removed (retention, shard moved away):
				// its series file is still registered in the store but there is no index left
				if err := b.store.CreateShard("emptydb", "rp", 50, true); err != nil {
					t.Fatalf("harness: %v", err)
				}
				if err := b.store.DeleteShard(50); err != nil {
					t.Fatalf("harness: %v", err)
				}
			}
			r := MeasurementNamesRequest{Database: db, Condition: vC15ParseCond(cond)}
			buf, _ := r.MarshalBinary()
			stream := vC15Encode(measurementNamesRequestMessage, int64(len(buf)), buf)
			conn, pan, _ := b.feed(stream)
			st.Case(true, db+"|"+cond, fmt.Sprintf("directed:measurement-names-and-or:db=%s:panicked=%v", db, pan != nil))
			if pan != nil {
				vC15DropBed()
				reproduced = fmt.Sprintf("MeasurementNames on database %q with condition %s: handleConn panicked (%v); a data node would exit", db, cond, pan)
				continue
			}
			frames, _ := vC15Walk(stream)
			if v := vC15JudgeReplyOnly(conn, frames); v.sig != "" {
				t.Fatalf("%s %s", verifkit.Sig(v.sig), v.msg)
			}
		}
	}
	if reproduced != "" {
		t.Fatalf("%s %s", verifkit.Sig("measurement-names-and-or-on-empty-index-panics"), reproduced)
	}
	st.Sample(map[string]interface{}{"directed": "MeasurementNames with AND/OR conditions", "reproduced": reproduced})
}
