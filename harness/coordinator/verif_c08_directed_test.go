//go:build verif

package coordinator

// C08 directed regression for the repaired finding "old-point-kept-by-covering-group" (fix 91705e7):
// MapShards skipped a point older than the retention period when it collected shard groups, but
// its second loop found the point in the group collected for another point of the batch (the
// group containing the retention cut-off still exists), so the old point was written instead of
// reported as dropped; alone it was dropped. Silent while the repair is in place, a violation
// (signature old-point-not-dropped, the same as in the main campaign) if it comes back.

import (
	"fmt"
	"testing"
	"time"

	"github.com/influxdata/influxdb/models"
	"github.com/influxdata/influxdb/services/meta"
	"verifkit"
)

func TestVerifC08DirectedOldPoint(t *testing.T) {
	st := verifkit.For("C08", "TestVerifC08DirectedOldPoint", "directed: one point 2-9 minutes older than the retention cut-off and one point 2-9 minutes younger, both inside the shard group that contains the cut-off; mapped alone and together in both orders")
	defer st.Flush()
	for k := 0; k < 8; k++ {
		sgd := []time.Duration{time.Hour, 24 * time.Hour}[k%2]
		gap := time.Duration(2+k) * time.Minute
		now := time.Now().UTC()
		// choose a retention duration such that the cut-off is well inside a group
		var dur time.Duration
		for _, m := range []time.Duration{3 * sgd, 3*sgd + sgd/2, 3*sgd + sgd/4} {
			cut := now.Add(-m)
			g := cut.Truncate(sgd)
			if cut.Sub(g) > gap+time.Minute && g.Add(sgd).Sub(cut) > gap+time.Minute {
				dur = m
				break
			}
		}
		if dur == 0 {
			continue
		}
		d := &meta.Data{Index: 1}
		d.CreateDataNode("h1", "t1")
		d.CreateDataNode("h2", "t2")
		d.CreateDatabase("db")
		if err := d.CreateRetentionPolicy("db", &meta.RetentionPolicyInfo{Name: "rp", ReplicaN: 1, Duration: dur, ShardGroupDuration: sgd}, true); err != nil {
			t.Fatalf("harness: %v", err)
		}
		cut := now.Add(-dur)
		old := models.MustNewPoint("m", nil, models.Fields{"v": 1.0}, cut.Add(-gap))
		live := models.MustNewPoint("m", nil, models.Fields{"v": 2.0}, cut.Add(gap))
		mapOf := func(pts ...models.Point) *ShardMapping {
			w := NewPointsWriter()
			w.MetaClient = &vC08Meta{d: d}
			m, err := w.MapShards(&WritePointsRequest{Database: "db", RetentionPolicy: "rp", Points: pts})
			if err != nil {
				t.Fatalf("%s MapShards: %v", verifkit.Sig("mapshards-error"), err)
			}
			return m
		}
		alone := mapOf(old)
		if len(alone.Dropped) != 1 || len(alone.Points) != 0 {
			t.Fatalf("%s a point %s older than the retention period (%s) was not dropped when mapped alone", verifkit.Sig("old-point-not-dropped"), gap, dur)
		}
		for _, order := range [][]models.Point{{live, old}, {old, live}} {
			both := mapOf(order...)
			if len(both.Dropped) != 1 || both.Dropped[0] != old {
				fmt.Printf("VERIF-CASE sgd=%s dur=%s gap=%s firstOld=%v\n", sgd, dur, gap, order[0] == old)
				t.Fatalf("%s a point %s older than the retention period (%s) is mapped to a shard instead of being dropped when another point of the batch lies in the same shard group; mapped alone it is dropped", verifkit.Sig("old-point-not-dropped"), gap, dur)
			}
			n := 0
			for _, l := range both.Points {
				n += len(l)
			}
			if n != 1 {
				t.Fatalf("%s live point mapped %d times", verifkit.Sig("point-lost"), n)
			}
			st.Case(true, fmt.Sprintf("sgd=%s gap=%s first-old=%v", sgd, gap, order[0] == old), "directed:old+live-share-group")
		}
	}
	st.Sample(map[string]interface{}{"directed": "old and live point in the group that contains the retention cut-off"})
}
