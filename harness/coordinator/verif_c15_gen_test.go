//go:build verif

package coordinator

// C15 generators: well-formed request payloads (with generated field values) and valid envelopes
// with invalid contents, for every request type of the inter-node protocol.

import (
	"fmt"
	"regexp"
	"runtime/debug"
	"time"

	"github.com/gogo/protobuf/types"
	"github.com/influxdata/influxdb/models"
	"github.com/influxdata/influxdb/pkg/tracing"
	"github.com/influxdata/influxdb/query"
	"github.com/influxdata/influxdb/storage/reads/datatypes"
	"github.com/influxdata/influxql"
	"pgregory.net/rapid"
)

func vC15Stack() string { return string(debug.Stack()) }

var (
	vC15Conds      = []string{"", "host = 'h1'", "host =~ /h.*/", "host != 'h2' AND region = 'west'", "time > 0", "v > 1.5", "host = 'h1' OR (region = 'east' AND host !~ /x$/)"}
	vC15BadConds   = []string{"host = ", "((", "= 1", "host =~ /[/"}
	vC15Stmts      = []string{"DROP SERIES FROM \"nope\"", "DELETE FROM \"nope\" WHERE time < 0", "DROP MEASUREMENT \"nope\"", "DROP SHARD 77", "DROP RETENTION POLICY \"nope\" ON \"nodb\"", "DROP DATABASE \"nodb\"", "SELECT * FROM cpu", "SHOW DATABASES", "DROP SERIES FROM \"alive\" WHERE host = 'zz'"}
	vC15TaskStmts  = []string{"SHOW QUERIES", "KILL QUERY 12345", "KILL QUERY 1 ON \"127.0.0.1:8088\"", "SELECT * FROM cpu", "DROP DATABASE \"nodb\""}
	vC15BadStmts   = []string{"", "DROP", "SELEC * FROM cpu", "DROP SERIES FROM", "KILL QUERY x", "\x00\xff"}
	vC15DBs        = []string{"db", "db", "nodb", ""}
	vC15RPs        = []string{"rp", "rp", "norp", ""}
	vC15MeasNames  = []string{"cpu", "cpu", "mem", "nope", ""}
	vC15ShardLists = [][]uint64{{1}, {1}, {1, 2}, {77}, {}, nil, {1, 1, 77}}
)

func vC15DrawMeasurement(rt *rapid.T, label string) influxql.Measurement {
	m := influxql.Measurement{
		Database:        rapid.SampledFrom(vC15DBs).Draw(rt, label+".db"),
		RetentionPolicy: rapid.SampledFrom(vC15RPs).Draw(rt, label+".rp"),
		Name:            rapid.SampledFrom(vC15MeasNames).Draw(rt, label+".name"),
	}
	switch rapid.IntRange(0, 5).Draw(rt, label+".mkind") {
	case 0:
		m.Name = ""
		m.Regex = &influxql.RegexLiteral{Val: regexp.MustCompile(rapid.SampledFrom([]string{"c.*", ".*", "", "^mem$", "(cpu|mem)"}).Draw(rt, label+".regex"))}
	case 1:
		m.SystemIterator = rapid.SampledFrom([]string{"_fieldKeys", "_series", "_tagKeys", "_nope"}).Draw(rt, label+".sys")
	case 2:
		m.IsTarget = true
	}
	return m
}

func vC15DrawExpr(rt *rapid.T, label string) influxql.Expr {
	refs := []influxql.VarRef{{Val: "v", Type: influxql.Float}, {Val: "i", Type: influxql.Integer}, {Val: "s", Type: influxql.String}, {Val: "b", Type: influxql.Boolean}, {Val: "u", Type: influxql.Unsigned}, {Val: "host", Type: influxql.Tag}, {Val: "nope", Type: influxql.Unknown}, {Val: "v"}}
	r := rapid.SampledFrom(refs).Draw(rt, label+".ref")
	switch rapid.IntRange(0, 6).Draw(rt, label+".ekind") {
	case 0:
		return nil
	case 1, 2:
		return &influxql.Call{Name: rapid.SampledFrom([]string{"mean", "count", "sum", "min", "max", "first", "last", "nope"}).Draw(rt, label+".fn"), Args: []influxql.Expr{&r}}
	case 3:
		return &influxql.Call{Name: "percentile", Args: []influxql.Expr{&r, &influxql.IntegerLiteral{Val: 90}}}
	default:
		return &r
	}
}

func vC15ParseCond(s string) influxql.Expr {
	if s == "" {
		return nil
	}
	e, err := influxql.ParseExpr(s)
	if err != nil {
		panic("harness: condition pool entry does not parse: " + s)
	}
	return e
}

func vC15DrawOptions(rt *rapid.T, label string) query.IteratorOptions {
	opt := query.IteratorOptions{
		Expr:      vC15DrawExpr(rt, label+".expr"),
		Ascending: rapid.Bool().Draw(rt, label+".asc"),
		Ordered:   rapid.Bool().Draw(rt, label+".ordered"),
		Dedupe:    rapid.Bool().Draw(rt, label+".dedupe"),
		StripName: rapid.Bool().Draw(rt, label+".strip"),
		Condition: vC15ParseCond(rapid.SampledFrom(vC15Conds).Draw(rt, label+".cond")),
	}
	switch rapid.IntRange(0, 3).Draw(rt, label+".range") {
	case 0:
		opt.StartTime, opt.EndTime = influxql.MinTime, influxql.MaxTime
	case 1:
		opt.StartTime, opt.EndTime = 0, int64(20*time.Second)
	case 2:
		opt.StartTime, opt.EndTime = int64(12*time.Second), int64(13*time.Second)
	default:
		opt.StartTime, opt.EndTime = rapid.Int64().Draw(rt, label+".start"), rapid.Int64().Draw(rt, label+".end")
	}
	if rapid.Bool().Draw(rt, label+".hasAux") {
		opt.Aux = []influxql.VarRef{{Val: "host", Type: influxql.Tag}, {Val: "i", Type: influxql.Integer}, {Val: "s", Type: influxql.String}}[:rapid.IntRange(0, 3).Draw(rt, label+".naux")]
	}
	if rapid.Bool().Draw(rt, label+".hasDims") {
		opt.Dimensions = []string{"host", "region"}[:rapid.IntRange(1, 2).Draw(rt, label+".ndims")]
		opt.GroupBy = map[string]struct{}{"host": {}}
	}
	if rapid.IntRange(0, 2).Draw(rt, label+".hasInterval") == 0 {
		opt.Interval = query.Interval{Duration: time.Duration(rapid.SampledFrom([]int64{int64(time.Second), int64(10 * time.Second), int64(time.Hour), 1}).Draw(rt, label+".ivl")), Offset: time.Duration(rapid.IntRange(0, 2).Draw(rt, label+".ivlOff"))}
	}
	switch rapid.IntRange(0, 4).Draw(rt, label+".fill") {
	case 0:
		opt.Fill = influxql.NoFill
	case 1:
		opt.Fill, opt.FillValue = influxql.NumberFill, float64(rapid.IntRange(-3, 3).Draw(rt, label+".fillv"))+0.5
	case 2:
		opt.Fill = influxql.PreviousFill
	case 3:
		// fill(<integer>) as the InfluxQL parser produces it
		opt.Fill, opt.FillValue = influxql.NumberFill, int64(rapid.IntRange(-3, 300).Draw(rt, label+".fillInt"))
	}
	opt.Limit = rapid.IntRange(0, 3).Draw(rt, label+".limit")
	opt.Offset = rapid.IntRange(0, 2).Draw(rt, label+".offset")
	opt.SLimit = rapid.IntRange(0, 2).Draw(rt, label+".slimit")
	opt.SOffset = rapid.IntRange(0, 2).Draw(rt, label+".soffset")
	opt.MaxSeriesN = rapid.IntRange(0, 2).Draw(rt, label+".maxSeries")
	if rapid.IntRange(0, 3).Draw(rt, label+".loc") == 0 {
		loc, err := time.LoadLocation(rapid.SampledFrom([]string{"UTC", "America/New_York", "Asia/Shanghai"}).Draw(rt, label+".locName"))
		if err == nil {
			opt.Location = loc
		}
	}
	if rapid.IntRange(0, 3).Draw(rt, label+".srcs") == 0 {
		m := vC15DrawMeasurement(rt, label+".src")
		opt.Sources = influxql.Sources{&m}
	}
	return opt
}

func vC15ReadSource(db, rp string) *types.Any {
	var v []byte
	if db != "" {
		v = append(v, 0x0a, byte(len(db)))
		v = append(v, db...)
	}
	if rp != "" {
		v = append(v, 0x12, byte(len(rp)))
		v = append(v, rp...)
	}
	return &types.Any{TypeUrl: "type.googleapis.com/com.github.influxdata.influxdb.services.storage.ReadSource", Value: v}
}

func vC15DrawPredicate(rt *rapid.T, label string) *datatypes.Predicate {
	tagRef := &datatypes.Node{NodeType: datatypes.NodeTypeTagRef, Value: &datatypes.Node_TagRefValue{TagRefValue: "host"}}
	lit := &datatypes.Node{NodeType: datatypes.NodeTypeLiteral, Value: &datatypes.Node_StringValue{StringValue: "h1"}}
	cmp := &datatypes.Node{NodeType: datatypes.NodeTypeComparisonExpression, Value: &datatypes.Node_Comparison_{Comparison: datatypes.ComparisonEqual}, Children: []*datatypes.Node{tagRef, lit}}
	switch rapid.IntRange(0, 7).Draw(rt, label+".pred") {
	case 0, 1:
		return nil
	case 2, 3:
		return &datatypes.Predicate{Root: cmp}
	case 4:
		rx := &datatypes.Node{NodeType: datatypes.NodeTypeLiteral, Value: &datatypes.Node_RegexValue{RegexValue: rapid.SampledFrom([]string{"h.*", "[", ""}).Draw(rt, label+".rx")}}
		return &datatypes.Predicate{Root: &datatypes.Node{NodeType: datatypes.NodeTypeComparisonExpression, Value: &datatypes.Node_Comparison_{Comparison: datatypes.ComparisonRegex}, Children: []*datatypes.Node{tagRef, rx}}}
	case 5:
		// invalid contents: comparison / logical nodes with too few children, nil root, nil value
		bad := []*datatypes.Node{
			{NodeType: datatypes.NodeTypeComparisonExpression, Value: &datatypes.Node_Comparison_{Comparison: datatypes.ComparisonEqual}},
			{NodeType: datatypes.NodeTypeComparisonExpression, Value: &datatypes.Node_Comparison_{Comparison: datatypes.ComparisonEqual}, Children: []*datatypes.Node{tagRef}},
			{NodeType: datatypes.NodeTypeLogicalExpression, Value: &datatypes.Node_Logical_{Logical: datatypes.LogicalAnd}},
			{NodeType: datatypes.NodeTypeLogicalExpression, Value: &datatypes.Node_Logical_{Logical: datatypes.LogicalAnd}, Children: []*datatypes.Node{cmp}},
			{NodeType: datatypes.NodeTypeParenExpression},
			{NodeType: datatypes.NodeTypeLiteral},
			{NodeType: datatypes.NodeTypeTagRef},
			{NodeType: datatypes.Node_Type(99)},
			{NodeType: datatypes.NodeTypeComparisonExpression, Value: &datatypes.Node_Comparison_{Comparison: datatypes.Node_Comparison(42)}, Children: []*datatypes.Node{tagRef, lit}},
			{NodeType: datatypes.NodeTypeComparisonExpression, Children: []*datatypes.Node{tagRef, lit}},
		}
		return &datatypes.Predicate{Root: rapid.SampledFrom(bad).Draw(rt, label+".badPred")}
	case 6:
		return &datatypes.Predicate{}
	default:
		fieldRef := &datatypes.Node{NodeType: datatypes.NodeTypeFieldRef, Value: &datatypes.Node_FieldRefValue{FieldRefValue: "v"}}
		flit := &datatypes.Node{NodeType: datatypes.NodeTypeLiteral, Value: &datatypes.Node_FloatValue{FloatValue: 1.5}}
		c2 := &datatypes.Node{NodeType: datatypes.NodeTypeComparisonExpression, Value: &datatypes.Node_Comparison_{Comparison: datatypes.ComparisonGreater}, Children: []*datatypes.Node{fieldRef, flit}}
		return &datatypes.Predicate{Root: &datatypes.Node{NodeType: datatypes.NodeTypeLogicalExpression, Value: &datatypes.Node_Logical_{Logical: datatypes.LogicalAnd}, Children: []*datatypes.Node{cmp, c2}}}
	}
}

func vC15DrawPoints(rt *rapid.T, label string) []models.Point {
	n := rapid.IntRange(0, 4).Draw(rt, label+".npts")
	var pts []models.Point
	for i := 0; i < n; i++ {
		tags := models.NewTags(map[string]string{"host": rapid.SampledFrom([]string{"h1", "h2", "x y"}).Draw(rt, label+".host")})
		var f models.Fields
		switch rapid.IntRange(0, 3).Draw(rt, label+".ftype") {
		case 0:
			f = models.Fields{"v": rapid.Float64Range(-1e6, 1e6).Draw(rt, label+".fv")}
		case 1:
			f = models.Fields{"v": 1.0, "i": int64(rapid.IntRange(-5, 5).Draw(rt, label+".iv"))}
		case 2:
			f = models.Fields{"s": "str", "b": true}
		default:
			f = models.Fields{"v": "type conflict with the float field"}
		}
		p, err := models.NewPoint(rapid.SampledFrom([]string{"cpu", "w", "w2"}).Draw(rt, label+".meas"), tags, f, time.Unix(int64(rapid.IntRange(0, 3000).Draw(rt, label+".ts")), 0))
		if err != nil {
			continue
		}
		pts = append(pts, p)
	}
	return pts
}

// vC15DrawValid returns a marshalled request of the kind. content is "" for a plain valid request or
// names the invalid content placed inside the valid envelope.
func vC15DrawValid(rt *rapid.T, k *vC15Kind, label string) (payload []byte, content string) {
	payload, content, _ = vC15DrawValidValue(rt, k, label)
	return
}

type vC15Marshaler interface {
	MarshalBinary() ([]byte, error)
}

// vC15DrawValidValue is vC15DrawValid that also returns the message value that was marshalled.
func vC15DrawValidValue(rt *rapid.T, k *vC15Kind, label string) (payload []byte, content string, val vC15Marshaler) {
	enc := func(v vC15Marshaler) []byte {
		val = v
		b, err := v.MarshalBinary()
		if err != nil {
			rt.Fatalf("harness: marshal %s: %v", k.name, err)
		}
		return b
	}
	shards := func() []uint64 { return rapid.SampledFrom(vC15ShardLists).Draw(rt, label+".shards") }
	invalid := rapid.IntRange(0, 3).Draw(rt, label+".invalidContent") == 0
	switch k.typ {
	case writeShardRequestMessage:
		var r WriteShardRequest
		r.SetShardID(rapid.SampledFrom([]uint64{1, 1, 2, 3, 77}).Draw(rt, label+".shard"))
		r.SetDatabase(rapid.SampledFrom(vC15DBs).Draw(rt, label+".db"))
		r.SetRetentionPolicy(rapid.SampledFrom(vC15RPs).Draw(rt, label+".rp"))
		r.AddPoints(vC15DrawPoints(rt, label))
		if invalid {
			content = "undecodable-binary-point"
			bad := [][]byte{[]byte("garbage"), {}, {0, 0, 0, 200, 1, 2}, {0xff, 0xff, 0xff, 0xff}, rapid.SliceOfN(rapid.Byte(), 0, 24).Draw(rt, label+".badpt")}
			pts := append([][]byte{}, r.pb.Points...)
			at := rapid.IntRange(0, len(pts)).Draw(rt, label+".badAt")
			pts = append(pts[:at], append([][]byte{rapid.SampledFrom(bad).Draw(rt, label+".bad")}, pts[at:]...)...)
			r.SetBinaryPoints(pts)
		}
		return enc(&r), content, val
	case executeStatementRequestMessage:
		var r ExecuteStatementRequest
		r.SetDatabase(rapid.SampledFrom(vC15DBs).Draw(rt, label+".db"))
		if invalid {
			content = "unparsable-statement"
			r.SetStatement(rapid.SampledFrom(vC15BadStmts).Draw(rt, label+".badstmt"))
		} else {
			r.SetStatement(rapid.SampledFrom(vC15Stmts).Draw(rt, label+".stmt"))
		}
		return enc(&r), content, val
	case taskManagerStatementRequestMessage:
		r := TaskManagerStatementRequest{Statement: rapid.SampledFrom(vC15TaskStmts).Draw(rt, label+".stmt")}
		if invalid {
			content = "unparsable-statement"
			r.Statement = rapid.SampledFrom(vC15BadStmts).Draw(rt, label+".badstmt")
		}
		return enc(&r), content, val
	case measurementNamesRequestMessage:
		r := MeasurementNamesRequest{Database: rapid.SampledFrom(vC15DBs).Draw(rt, label+".db"), RetentionPolicy: rapid.SampledFrom(vC15RPs).Draw(rt, label+".rp"), Condition: vC15ParseCond(rapid.SampledFrom(vC15Conds).Draw(rt, label+".cond"))}
		return enc(&r), "", val
	case tagKeysRequestMessage:
		r := TagKeysRequest{ShardIDs: shards(), Condition: vC15ParseCond(rapid.SampledFrom(vC15Conds).Draw(rt, label+".cond"))}
		return enc(&r), "", val
	case tagValuesRequestMessage:
		r := TagValuesRequest{ShardIDs: shards(), Condition: vC15ParseCond(rapid.SampledFrom(vC15Conds).Draw(rt, label+".cond"))}
		return enc(&r), "", val
	case seriesSketchesRequestMessage:
		r := SeriesSketchesRequest{Database: rapid.SampledFrom(vC15DBs).Draw(rt, label+".db")}
		return enc(&r), "", val
	case measurementsSketchesRequestMessage:
		r := MeasurementsSketchesRequest{Database: rapid.SampledFrom(vC15DBs).Draw(rt, label+".db")}
		return enc(&r), "", val
	case storeReadFilterRequestMessage:
		r := StoreReadFilterRequest{ShardIDs: shards()}
		if !invalid {
			r.Request.ReadSource = vC15ReadSource(rapid.SampledFrom(vC15DBs).Draw(rt, label+".db"), rapid.SampledFrom(vC15RPs).Draw(rt, label+".rp"))
		} else if rapid.Bool().Draw(rt, label+".anyKind") {
			content = "bad-read-source"
			r.Request.ReadSource = &types.Any{TypeUrl: rapid.SampledFrom([]string{"", "type.googleapis.com/nope", "type.googleapis.com/com.github.influxdata.influxdb.services.storage.ReadSource"}).Draw(rt, label+".url"), Value: []byte{0x0a, 0xff}}
		} else {
			content = "no-read-source"
		}
		r.Request.Range = datatypes.TimestampRange{Start: rapid.SampledFrom([]int64{0, -1 << 63, 12e9}).Draw(rt, label+".start"), End: rapid.SampledFrom([]int64{100e9, 1<<63 - 1, 0}).Draw(rt, label+".end")}
		r.Request.Predicate = vC15DrawPredicate(rt, label)
		return enc(&r), content, val
	case storeReadGroupRequestMessage:
		r := StoreReadGroupRequest{ShardIDs: shards()}
		if !invalid {
			r.Request.ReadSource = vC15ReadSource(rapid.SampledFrom(vC15DBs).Draw(rt, label+".db"), rapid.SampledFrom(vC15RPs).Draw(rt, label+".rp"))
		} else {
			content = "no-read-source"
		}
		r.Request.Range = datatypes.TimestampRange{Start: 0, End: rapid.SampledFrom([]int64{100e9, 1<<63 - 1, 0}).Draw(rt, label+".end")}
		r.Request.Predicate = vC15DrawPredicate(rt, label)
		r.Request.Group = datatypes.ReadGroupRequest_Group(rapid.SampledFrom([]int32{0, 2, 1, 7}).Draw(rt, label+".group"))
		if rapid.Bool().Draw(rt, label+".keys") {
			r.Request.GroupKeys = []string{"host"}
		}
		if rapid.Bool().Draw(rt, label+".agg") {
			r.Request.Aggregate = &datatypes.Aggregate{Type: datatypes.Aggregate_AggregateType(rapid.SampledFrom([]int32{0, 1, 2, 9}).Draw(rt, label+".aggType"))}
		}
		r.Request.Hints = datatypes.HintFlags(rapid.Uint32Range(0, 7).Draw(rt, label+".hints"))
		return enc(&r), content, val
	case createIteratorRequestMessage:
		r := CreateIteratorRequest{ShardIDs: shards(), Measurement: vC15DrawMeasurement(rt, label+".m"), Opt: vC15DrawOptions(rt, label+".opt")}
		if rapid.Bool().Draw(rt, label+".span") {
			r.SpanContext = tracing.SpanContext{TraceID: rapid.Uint64().Draw(rt, label+".trace"), SpanID: rapid.Uint64().Draw(rt, label+".spanid")}
		}
		return enc(&r), "", val
	case iteratorCostRequestMessage:
		r := IteratorCostRequest{ShardIDs: shards(), Measurement: vC15DrawMeasurement(rt, label+".m"), Opt: vC15DrawOptions(rt, label+".opt")}
		return enc(&r), "", val
	case fieldDimensionsRequestMessage:
		r := FieldDimensionsRequest{ShardIDs: shards(), Measurement: vC15DrawMeasurement(rt, label+".m")}
		return enc(&r), "", val
	case mapTypeRequestMessage:
		r := MapTypeRequest{ShardIDs: shards(), Measurement: vC15DrawMeasurement(rt, label+".m"), Field: rapid.SampledFrom([]string{"v", "i", "host", "nope", ""}).Draw(rt, label+".field")}
		return enc(&r), "", val
	case expandSourcesRequestMessage:
		var srcs influxql.Sources
		for i := rapid.IntRange(0, 2).Draw(rt, label+".nsrc"); i > 0; i-- {
			m := vC15DrawMeasurement(rt, fmt.Sprintf("%s.src%d", label, i))
			srcs = append(srcs, &m)
		}
		r := ExpandSourcesRequest{ShardIDs: shards(), Sources: srcs}
		return enc(&r), "", val
	case backupShardRequestMessage:
		r := BackupShardRequest{ShardID: rapid.SampledFrom([]uint64{1, 77}).Draw(rt, label+".shard"), Since: time.Unix(0, rapid.SampledFrom([]int64{0, 1, 1 << 62}).Draw(rt, label+".since"))}
		return enc(&r), "", val
	case copyShardRequestMessage:
		r := CopyShardRequest{Host: vC15CopyHost, Database: rapid.SampledFrom(vC15DBs).Draw(rt, label+".db"), Policy: rapid.SampledFrom(vC15RPs).Draw(rt, label+".rp"), ShardID: rapid.SampledFrom([]uint64{1, 77}).Draw(rt, label+".shard"), Since: time.Unix(0, 0)}
		return enc(&r), "", val
	case removeShardRequestMessage:
		r := RemoveShardRequest{ShardID: rapid.SampledFrom([]uint64{2, 3, 77, 77}).Draw(rt, label+".shard")}
		return enc(&r), "", val
	case joinClusterRequestMessage:
		r := JoinClusterRequest{MetaServers: [][]string{nil, {"127.0.0.1:8091"}, {"a:1", "b:2"}}[rapid.IntRange(0, 2).Draw(rt, label+".metas")]}
		return enc(&r), "", val
	case removeHintedHandoffRequestMessage:
		r := RemoveHintedHandoffRequest{NodeID: rapid.SampledFrom([]uint64{2, 13, 0}).Draw(rt, label+".node")}
		return enc(&r), "", val
	}
	return nil, "", nil
}
