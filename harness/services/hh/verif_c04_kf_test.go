//go:build verif

package hh

// Directed campaigns for the C04 findings that the main campaign excludes by construction, and regression
// tests for repaired ones. Each enumerates every torn-write position of one operation.

import (
	"bytes"
	"fmt"
	"os"
	"path/filepath"
	"testing"
	"time"

	"github.com/influxdata/influxdb/models"
	"github.com/influxdata/influxdb/pkg/verifhook"
	"verifkit"
)

type vTornResult struct {
	Total, OK, Lost, Garbage, ReadErr int
	Example                           string
}

func (r *vTornResult) add(o vTornResult) {
	r.Total += o.Total
	r.OK += o.OK
	r.Lost += o.Lost
	r.Garbage += o.Garbage
	r.ReadErr += o.ReadErr
	if r.Example == "" {
		r.Example = o.Example
	}
}

func (r vTornResult) bad() int { return r.Lost + r.Garbage + r.ReadErr }

// vTornEnumerate builds a queue with pre, runs op with a hook that freezes the directory at the first event ev,
// and then recovers from every image in which a prefix of the bytes written since the last fsync survived.
// allowed lists the queue contents the property permits after the crash.
func vTornEnumerate(t *testing.T, seg int64, pre func(q *queue) []vBlk, op func(q *queue), ev string, allowed func(pend []vBlk) [][]vBlk, label string) vTornResult {
	var res vTornResult
	base, err := os.MkdirTemp("", "c04kf")
	if err != nil {
		t.Fatal(err)
	}
	defer os.RemoveAll(base)
	dir := filepath.Join(base, "live")
	os.MkdirAll(dir, 0700)
	d := vDurable()
	q, err := newQueue(dir, 1<<30, 16)
	if err != nil {
		t.Fatal(err)
	}
	q.maxSegmentSize = seg
	if err := q.Open(); err != nil {
		t.Fatal(err)
	}
	pend := pre(q)
	d.opDone(dir)
	snap := filepath.Join(base, "snap")
	var cur, dur []byte
	var rel string
	frozen := false
	verifhook.Set(func(e, path string, n int64) {
		if frozen {
			return
		}
		d.onHook(e, path)
		if e != ev {
			return
		}
		frozen = true
		d.poll()
		cur, _ = os.ReadFile(path)
		if fi, err := os.Stat(path); err == nil {
			dur, _ = d.lookup(path, vIno(fi))
		}
		rel, _ = filepath.Rel(dir, path)
		vCopyTree(dir, snap)
	})
	op(q)
	verifhook.Set(nil)
	q.Close()
	if !frozen {
		t.Fatalf("event %s did not fire in %s", ev, label)
	}
	_, o, _ := vCutBytes(cur, dur, vCut{Kind: 0})
	al := allowed(pend)
	for x := o; x <= len(cur); x++ {
		img, _, _ := vCutBytes(cur, dur, vCut{Kind: 5, R: x - o})
		if x == len(cur) {
			img = cur
		}
		idir := filepath.Join(base, fmt.Sprintf("img%d", x))
		vCopyTree(snap, idir)
		os.WriteFile(filepath.Join(idir, rel), img, 0600)
		got, err := vDrainCopy(idir, seg)
		os.RemoveAll(idir)
		res.Total++
		okc := false
		for _, c := range al {
			if err == nil && vEqualBlocks(got, vRaws(c)) {
				okc = true
			}
		}
		if okc {
			res.OK++
			continue
		}
		ex := fmt.Sprintf("%s: seg=%d file %s had %d durable bytes, the write reached byte %d of %d: recovered %s", label, seg, rel, len(dur), x, len(cur), vRawIDs(got))
		if err != nil {
			res.ReadErr++
			ex += fmt.Sprintf(" then error %v", err)
		}
		if _, miss := vMissing(al, got); miss {
			res.Lost++
			if res.Example == "" || res.Lost == 1 {
				res.Example = ex + "; acknowledged and synced before: " + vBlkIDs(pend)
			}
		} else if err == nil {
			res.Garbage++
		}
		if res.Example == "" {
			res.Example = ex + "; allowed " + vBlkIDs(al[0])
		}
	}
	return res
}

func vKFAppendN(t *testing.T, q *queue, shard uint64, sizes []int, firstID int) []vBlk {
	var out []vBlk
	for i, sz := range sizes {
		b := vRawBlk(firstID+i, shard, sz)
		if err := q.Append(b.Raw); err != nil {
			t.Fatalf("append: %v", err)
		}
		out = append(out, b)
	}
	return out
}

// TestVerifC04KFTornFlush: a crash in the middle of the single write of segment.flush leaves the old footer
// overwritten and no valid footer at the end of the file. Known finding hh-torn-flush-loses-synced-blocks.
func TestVerifC04KFTornFlush(t *testing.T) {
	st := verifkit.For("C04", "TestVerifC04KFTornFlush", "directed: every byte position of a torn flush write (hh.flush.written) for 1-3 acknowledged+synced blocks, head advanced 0-1 times, segment 128-512 B; non-trivial = image differs from both the old and the new file")
	defer st.Flush()
	st.Note("fsync_source", vDurable().src)
	var total vTornResult
	for _, seg := range []int64{128, 256, 512} {
		for nAck := 1; nAck <= 3; nAck++ {
			for adv := 0; adv <= 1; adv++ {
				if adv >= nAck {
					continue
				}
				label := fmt.Sprintf("flush after %d acked blocks, %d advanced", nAck, adv)
				x := vRawBlk(99, 7, 30)
				r := vTornEnumerate(t, seg, func(q *queue) []vBlk {
					sizes := []int{24, 33, 21}[:nAck]
					p := vKFAppendN(t, q, 7, sizes, 1)
					for i := 0; i < adv; i++ {
						q.Current()
						q.Advance()
					}
					return p[adv:]
				}, func(q *queue) { q.Append(x.Raw) }, "hh.flush.written", func(p []vBlk) [][]vBlk {
					return [][]vBlk{p, append(append([]vBlk(nil), p...), x)}
				}, label)
				total.add(r)
				st.Case(r.Total > 2, label+fmt.Sprint(seg), fmt.Sprintf("torn-flush:positions-with-loss-or-garbage:%v", r.bad() > 0))
			}
		}
	}
	st.Class("torn-flush:cut-positions", int64(total.Total))
	st.Class("torn-flush:recovered-correctly", int64(total.OK))
	st.Class("torn-flush:acked-synced-block-lost", int64(total.Lost))
	st.Class("torn-flush:garbage-or-extra-block", int64(total.Garbage))
	st.Class("torn-flush:recovery-error", int64(total.ReadErr))
	st.Sample(total)
	if total.Lost > 0 {
		st.KnownReproduced(vSigTornFlush, fmt.Sprintf("%d of %d torn-flush positions lose blocks that were acknowledged and fsynced before the flush (%d more deliver garbage or fail to read); e.g. %s", total.Lost, total.Total, total.Garbage+total.ReadErr, total.Example))
	} else if total.bad() > 0 {
		st.KnownReproduced(vSigTornFlush, fmt.Sprintf("%d of %d torn-flush positions recover to a queue the property does not allow; e.g. %s", total.bad(), total.Total, total.Example))
	}
}

// TestVerifC04KFTornAdvance: the 8-byte footer overwrite of segment.advance torn at every byte.
func TestVerifC04KFTornAdvance(t *testing.T) {
	st := verifkit.For("C04", "TestVerifC04KFTornAdvance", "directed: every byte position (0..8) of a torn footer overwrite in segment.advance (hh.advance.written), head offsets below and above 256; non-trivial = footer bytes differ in more than one byte")
	defer st.Flush()
	st.Note("fsync_source", vDurable().src)
	var total vTornResult
	for _, seg := range []int64{256, 512, 1024} {
		for adv := 0; adv <= 4; adv++ {
			label := fmt.Sprintf("advance #%d over 100-byte blocks", adv+1)
			var sizes []int
			for i := 0; int64(8+(i+1)*108) <= seg && i < 7; i++ {
				sizes = append(sizes, 100)
			}
			if adv >= len(sizes) {
				continue
			}
			r := vTornEnumerate(t, seg, func(q *queue) []vBlk {
				p := vKFAppendN(t, q, 7, sizes, 1)
				for i := 0; i < adv; i++ {
					q.Current()
					q.Advance()
				}
				q.Current()
				return p[adv:]
			}, func(q *queue) { q.Advance() }, "hh.advance.written", func(p []vBlk) [][]vBlk {
				return [][]vBlk{p, p[1:]}
			}, label)
			total.add(r)
			st.Case(r.Total > 2, label+fmt.Sprint(seg), fmt.Sprintf("torn-advance:positions-with-loss-or-garbage:%v", r.bad() > 0))
		}
	}
	st.Class("torn-advance:cut-positions", int64(total.Total))
	st.Class("torn-advance:recovered-correctly", int64(total.OK))
	st.Class("torn-advance:acked-synced-block-lost", int64(total.Lost))
	st.Class("torn-advance:garbage-or-extra-block", int64(total.Garbage))
	st.Class("torn-advance:recovery-error", int64(total.ReadErr))
	st.Sample(total)
	if total.bad() > 0 {
		st.KnownReproduced(vSigTornAdvance, fmt.Sprintf("%d of %d torn footer overwrites in advance lose undelivered synced blocks (%d) or recover to garbage (%d); e.g. %s", total.bad(), total.Total, total.Lost, total.Garbage+total.ReadErr, total.Example))
	}
}

// TestVerifC04KFBufferedAck: with >= 10 writers inside Append a block is acknowledged while it is only in the
// write buffer; a crash before the next unbuffered writer (or inside its flush) loses it.
func TestVerifC04KFBufferedAck(t *testing.T) {
	st := verifkit.For("C04", "TestVerifC04KFBufferedAck", "directed: 10-14 pending writers (tokens held by the harness), 1-5 buffered appends acknowledged, crash before / at the begin of / after the write of the next unbuffered flush; non-trivial = at least one buffered acknowledgement")
	defer st.Flush()
	d := vDurable()
	st.Note("fsync_source", d.src)
	lostCases, cases := 0, 0
	example := ""
	for _, writers := range []int{10, 12, 14} {
		for _, where := range []string{"after-buffered-ack", "hh.flush.begin", "hh.flush.written/none", "hh.flush.synced"} {
			base, _ := os.MkdirTemp("", "c04kfb")
			dir := filepath.Join(base, "live")
			os.MkdirAll(dir, 0700)
			q, _ := newQueue(dir, 1<<30, 16)
			q.maxSegmentSize = 4096
			if err := q.Open(); err != nil {
				t.Fatal(err)
			}
			pre := vKFAppendN(t, q, 7, []int{25, 31}, 1)
			d.opDone(dir)
			for i := 0; i < writers; i++ {
				if !q.limiter.TryTake() {
					t.Fatal("no token")
				}
			}
			var acked []vBlk
			id := 10
			held := writers
			for held >= 10 { // these writers see >= 10 tokens out: buffered path
				q.limiter.Release()
				b := vRawBlk(id, 7, 28)
				id++
				if err := q.Append(b.Raw); err != nil {
					t.Fatalf("buffered append: %v", err)
				}
				acked = append(acked, b)
				held--
			}
			img := filepath.Join(base, "img")
			var inflight []vBlk
			if where == "after-buffered-ack" {
				d.opDone(dir)
				if _, err := vTakeImage(dir, img, vCut{Kind: 0}); err != nil {
					t.Fatal(err)
				}
			} else {
				ev := where
				if ev == "hh.flush.written/none" {
					ev = "hh.flush.written"
				}
				taken := false
				verifhook.Set(func(e, path string, n int64) {
					d.onHook(e, path)
					if e == ev && !taken {
						taken = true
						vTakeImage(dir, img, vCut{Kind: 0})
					}
				})
				q.limiter.Release()
				b := vRawBlk(id, 7, 28)
				q.Append(b.Raw) // unbuffered: writes the buffer and its own block, then fsync
				verifhook.Set(nil)
				inflight = []vBlk{b}
				if !taken {
					t.Fatalf("%s did not fire", ev)
				}
			}
			q.Close()
			got, err := vDrainCopy(img, 4096)
			want := append(append([]vBlk(nil), pre...), acked...)
			cases++
			ok := err == nil && (vEqualBlocks(got, vRaws(want)) || vEqualBlocks(got, vRaws(append(append([]vBlk(nil), want...), inflight...))))
			lost := false
			if !ok {
				if _, miss := vMissing([][]vBlk{want}, got); miss {
					lost = true
					lostCases++
					if example == "" {
						example = fmt.Sprintf("%d writers inside Append, %d buffered appends returned nil, crash %s: recovered %s, acknowledged %s", writers, len(acked), where, vRawIDs(got), vBlkIDs(want))
					}
				} else {
					t.Fatalf("%s unexpected recovery result %s err %v, acknowledged %s", verifkit.Sig("buffered-crash-queue-differs"), vRawIDs(got), err, vBlkIDs(want))
				}
			}
			st.Case(true, fmt.Sprint(writers, where), fmt.Sprintf("buffered-ack:%s:lost=%v", where, lost))
			os.RemoveAll(base)
		}
	}
	st.Sample(map[string]interface{}{"cases": cases, "lost": lostCases, "example": example})
	if lostCases > 0 {
		st.KnownReproduced(vSigBufferedAck, fmt.Sprintf("%d of %d crash placements lose appends that had returned nil on the buffered (>=10 writers) path; e.g. %s", lostCases, cases, example))
	}
}

// TestVerifC04KFPurgeLastSegment: regression for the repaired PurgeOlderThan (the tail pointer was left on the
// removed segment when the only segment was purged: every later Append failed, Empty() stayed false).
func TestVerifC04KFPurgeLastSegment(t *testing.T) {
	st := verifkit.For("C04", "TestVerifC04KFPurgeLastSegment", "directed regression: purge a queue whose only segment is older than the cut-off, then append, read, and ask Empty(); non-trivial always")
	defer st.Flush()
	for _, n := range []int{0, 1, 3} {
		dir, _ := os.MkdirTemp("", "c04kfp")
		q, _ := newQueue(dir, 1<<30, 16)
		q.maxSegmentSize = 512
		if err := q.Open(); err != nil {
			t.Fatal(err)
		}
		sizes := []int{30, 40, 50}[:n]
		vKFAppendN(t, q, 7, sizes, 1)
		old := time.Now().Add(-50 * time.Hour)
		for _, s := range q.segments {
			os.Chtimes(s.path, old, old)
		}
		if err := q.PurgeOlderThan(time.Now().Add(-time.Hour)); err != nil {
			t.Fatalf("purge: %v", err)
		}
		what := ""
		if !q.Empty() {
			what = "Empty() is false after everything was purged"
		}
		b := vRawBlk(9, 7, 33)
		if err := q.Append(b.Raw); err != nil {
			what = fmt.Sprintf("Append after purging the only segment returns %v", err)
		} else if got, err := q.Current(); err != nil || !bytes.Equal(got, b.Raw) {
			what = fmt.Sprintf("block appended after the purge is not readable: %v", err)
		}
		st.Case(true, fmt.Sprint("purge-last", n), fmt.Sprintf("purge-only-segment:blocks=%d:broken=%v", n, what != ""))
		q.Close()
		os.RemoveAll(dir)
		if what != "" {
			st.KnownReproduced("hh-purge-last-segment-stale-tail", what)
		}
	}
	st.Sample("purge of the only segment, then append + current + Empty")
}

// TestVerifC04KFRefusedAppend: an append refused with ErrSegmentFull (block within 8 bytes of the segment size)
// has already created a new empty tail segment; with nothing pending Empty() then reports false until the
// next SendWrite trims the exhausted head.
func TestVerifC04KFRefusedAppend(t *testing.T) {
	st := verifkit.For("C04", "TestVerifC04KFRefusedAppend", "directed: refused over-sized append (len+8 > segment size) on a queue with 0-2 delivered blocks, then Empty(); non-trivial always")
	defer st.Flush()
	what := ""
	for _, n := range []int{0, 1, 2} {
		dir, _ := os.MkdirTemp("", "c04kfr")
		q, _ := newQueue(dir, 1<<30, 16)
		q.maxSegmentSize = 256
		if err := q.Open(); err != nil {
			t.Fatal(err)
		}
		vKFAppendN(t, q, 7, []int{30, 40}[:n], 1)
		for i := 0; i < n; i++ {
			q.Current()
			q.Advance()
		}
		if !q.Empty() {
			t.Fatalf("%s Empty() false on a drained queue", verifkit.Sig("empty-false-while-nothing-pending"))
		}
		err := q.Append(vRawBlk(9, 7, 250).Raw)
		if err != ErrSegmentFull {
			t.Fatalf("%s append of 250 bytes with segment size 256 returned %v", verifkit.Sig("oversized-block-accepted"), err)
		}
		broken := !q.Empty()
		if broken && what == "" {
			what = fmt.Sprintf("after %d delivered blocks an append of 250 bytes (segment size 256) is refused with ErrSegmentFull but leaves %d segments; Empty() is false with nothing pending until the next SendWrite", n, len(q.segments))
		}
		st.Case(true, fmt.Sprint("refused", n), fmt.Sprintf("refused-append:empty-false=%v", broken))
		q.Close()
		os.RemoveAll(dir)
	}
	st.Sample("refused over-sized append then Empty()")
	if what != "" {
		st.KnownReproduced(vSigRefusedSeg, what)
	}
}

// TestVerifC04KFBatchNearLimit (not registered in checks.d/C04.json; see the builder report): a batch whose
// encoding is at most 10 MiB but larger than 10 MiB - 8 is neither split (WriteShard splits only above
// 10 MiB) nor storable (a segment holds 10 MiB including its 8-byte footer): WriteShard returns ErrSegmentFull.
func TestVerifC04KFBatchNearLimit(t *testing.T) {
	st := verifkit.For("C04", "TestVerifC04KFBatchNearLimit", "directed: two-point batches whose encoding is 10 MiB-12 .. 10 MiB+4 bytes; non-trivial always")
	defer st.Flush()
	what := ""
	for _, delta := range []int{-12, -8, -4, 0, 4} {
		root, _ := os.MkdirTemp("", "c04kfn")
		w := &vWriter{}
		svc := NewService(vConfig(root, 1<<32, 16), w)
		svc.MetaClient = &vMetaC{gone: map[uint64]bool{}}
		if err := svc.Open(); err != nil {
			t.Fatal(err)
		}
		pts := []models.Point{vBigPoint(1, 0, 5<<20), vBigPoint(1, 1, 100)}
		base := len(vPointsBlk(1, 7, pts).Raw)
		pts[1] = vBigPoint(1, 1, 100+defaultSegmentSize+delta-base)
		size := len(vPointsBlk(1, 7, pts).Raw)
		err := svc.WriteShard(7, 2, pts)
		st.Case(true, fmt.Sprint("near", delta), fmt.Sprintf("batch-near-limit:delta=%d:err=%v", delta, err))
		if err != nil && what == "" {
			what = fmt.Sprintf("a 2-point batch encoding to %d bytes (10 MiB%+d) is refused with %v instead of being split", size, size-defaultSegmentSize, err)
		}
		svc.Close()
		os.RemoveAll(root)
	}
	st.Sample(what)
	if what != "" {
		st.KnownReproduced("hh-batch-within-8-bytes-of-block-limit-refused", what)
	}
}

// TestVerifC04KFEOFAdvance: NodeProcessor.SendWrite on a drained queue sees EOF from Current and then calls
// Advance as a second critical section; an Append that lands in between is skipped (acknowledged, never
// delivered, no crash involved). The harness owns the schedule: it holds the queue mutex exactly as Append does,
// lets the real SendWrite run up to its Advance (which waits for that mutex), performs the body of Append
// (tail.append, the only statement Append runs under the mutex for a block that fits), and releases the mutex.
func TestVerifC04KFEOFAdvance(t *testing.T) {
	const sig = "hh-eof-advance-skips-concurrent-append"
	st := verifkit.For("C04", "TestVerifC04KFEOFAdvance", "directed, owned schedule: real SendWrite on a drained queue (0-2 blocks delivered before) with one Append placed between its Current and its Advance; non-trivial always")
	defer st.Flush()
	lost, tried := 0, 0
	what := ""
	for _, pre := range []int{0, 1, 2} {
		for attempt := 0; attempt < 3; attempt++ {
			root, _ := os.MkdirTemp("", "c04kfe")
			w := &vWriter{}
			svc := NewService(vConfig(root, 1<<30, 16), w)
			svc.MetaClient = &vMetaC{gone: map[uint64]bool{}}
			if err := svc.Open(); err != nil {
				t.Fatal(err)
			}
			var preBlks []vBlk
			for i := 0; i < pre+1; i++ { // the first write creates the processor
				pts := []models.Point{vPoint(i+1, 0, 60)}
				if err := svc.WriteShard(7, 2, pts); err != nil {
					t.Fatal(err)
				}
				preBlks = append(preBlks, vPointsBlk(i+1, 7, pts))
			}
			np, _ := svc.processor(2, 7)
			for range preBlks {
				if _, err := np.SendWrite(); err != nil {
					t.Fatalf("drain: %v", err)
				}
			}
			w.take()
			if !np.Empty() {
				t.Fatalf("%s queue not empty after draining", verifkit.Sig("empty-false-while-nothing-pending"))
			}
			q := np.queue
			x := vRawBlk(50, 7, 40)
			q.mu.Lock() // a writer is inside Append
			done := make(chan error, 1)
			go func() { _, err := np.SendWrite(); done <- err }()
			time.Sleep(time.Duration(5*(attempt+1)) * time.Millisecond) // schedule driver only: lets SendWrite reach Advance
			aerr := q.tail.append(x.Raw, false)
			q.mu.Unlock() // the writer's Append returns nil here: the block is acknowledged
			<-done
			if aerr != nil {
				t.Fatalf("append: %v", aerr)
			}
			tried++
			// what does the queue deliver now?
			_, serr := np.SendWrite()
			calls := w.take()
			gone := len(calls) == 0 && np.Empty()
			st.Case(true, fmt.Sprint("eofadv", pre, attempt), fmt.Sprintf("append-between-current-and-advance:lost=%v", gone))
			if gone {
				lost++
				if what == "" {
					what = fmt.Sprintf("after %d delivered blocks, an Append that returned nil while SendWrite was between Current()=EOF and Advance() is skipped: next SendWrite -> %v with no delivery, Empty() true", pre+1, serr)
				}
			} else if len(calls) != 1 || !vEqualBlocks(calls[0].Pts, x.Pts) {
				t.Fatalf("%s after the interleaved append the queue delivered %d calls (err %v)", verifkit.Sig("delivered-wrong-block"), len(calls), serr)
			}
			svc.Close()
			os.RemoveAll(root)
			if gone {
				break
			}
		}
	}
	st.Sample(map[string]interface{}{"tried": tried, "lost": lost, "example": what})
	if lost > 0 {
		st.KnownReproduced(sig, fmt.Sprintf("%d of %d owned schedules lose the block: %s", lost, tried, what))
	}
}
