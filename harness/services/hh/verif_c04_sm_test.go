//go:build verif

package hh

// C04 - hinted-handoff queue loses nothing and keeps order (DESIGN.md section 4, C04).
// State machine over Service / NodeProcessor / queue / segment with a FIFO reference model, an owned
// schedule of concurrent appenders (tokens of queue.limiter taken by the harness) and crash injection at
// the hh.* hook events with the un-synced-suffix rule.

import (
	"bytes"
	"fmt"
	"io"
	"os"
	"path/filepath"
	"strings"
	"testing"
	"time"

	"github.com/influxdata/influxdb/models"
	"github.com/influxdata/influxdb/pkg/verifhook"
	"pgregory.net/rapid"
	"verifkit"
)

const (
	vSigTornFlush   = "hh-torn-flush-loses-synced-blocks"
	vSigBufferedAck = "hh-buffered-ack-lost-on-crash"
	vSigTornAdvance = "hh-torn-advance-corrupts-head"
	vSigRefusedSeg  = "hh-empty-false-after-refused-append"
)

var vHookKinds = []string{"hh.flush.begin", "hh.flush.written", "hh.flush.synced", "hh.advance.written", "hh.advance.synced", "hh.trim", "hh.truncate"}

type vLane struct {
	node, shard uint64
	pend        []vBlk
	phantomOK   bool // SetMaxSegmentSize (test-only API) may have added a tail segment behind an exhausted one
	maxSegs     int
}

func (l *vLane) String() string { return fmt.Sprintf("%d/%d", l.node, l.shard) }

type vWaiter struct {
	lane *vLane
	q    *queue
}

type vPlan struct {
	ev  string
	occ int
	cut vCut
}

type vSM struct {
	st        *verifkit.Stats
	rt        *rapid.T
	base      string
	gen       int
	root      string
	svc       *Service
	w         *vWriter
	mc        *vMetaC
	seg       int64
	maxSize   int64
	maxWrites int
	lanes     []*vLane
	waiters   []vWaiter
	nextID    int

	plan     *vPlan
	plan0cut string
	seen     map[string]int
	fired    bool
	firedEv  string
	imgRoot  string
	imgDesc  []string
	quiet    bool
	hookErr  error
	crashes  int
	allowMid map[string]bool // events at which mid (torn) cuts are allowed

	classes map[string]bool
	canon   []string
	trace   []string
}

func (m *vSM) class(c string) { m.classes[c] = true }

func (m *vSM) log(f string, a ...interface{}) {
	m.trace = append(m.trace, fmt.Sprintf(f, a...))
}

func (m *vSM) fatalf(sig, f string, a ...interface{}) {
	tail := m.trace
	if len(tail) > 60 {
		tail = tail[len(tail)-60:]
	}
	m.rt.Fatalf("%s %s\nseg=%d maxSize=%d fsync_source=%s\nhistory:\n  %s", verifkit.Sig(sig), fmt.Sprintf(f, a...), m.seg, m.maxSize, vDurable().src, strings.Join(tail, "\n  "))
}

func (m *vSM) laneDir(l *vLane) string {
	return filepath.Join(m.root, fmt.Sprint(l.node), fmt.Sprint(l.shard))
}

func (m *vSM) proc(l *vLane) *NodeProcessor {
	if m.svc == nil {
		return nil
	}
	m.svc.mu.RLock()
	defer m.svc.mu.RUnlock()
	p, _ := m.svc.processor(l.node, l.shard)
	return p
}

func (m *vSM) hook(ev, path string, n int64) {
	if m.quiet {
		return
	}
	d := vDurable()
	d.onHook(ev, path)
	m.class("event:" + ev)
	vEvTotal[ev]++
	if ev == "hh.trim" {
		d.forget(path)
	}
	if m.plan == nil || m.fired || ev != m.plan.ev {
		return
	}
	m.seen[ev]++
	if m.seen[ev]-1 != m.plan.occ {
		return
	}
	m.fired, m.firedEv = true, ev
	m.gen++
	m.imgRoot = filepath.Join(m.base, fmt.Sprintf("g%d", m.gen))
	m.imgDesc, m.hookErr = vTakeImage(m.root, m.imgRoot, m.plan.cut)
}

func (m *vSM) openService() error {
	cfg := vConfig(m.root, m.maxSize, m.maxWrites)
	s := NewService(cfg, m.w)
	s.MetaClient = m.mc
	if err := s.Open(); err != nil {
		return err
	}
	m.svc = s
	for _, l := range m.lanes {
		if p := m.proc(l); p != nil {
			vSetSegSize(p.queue, m.seg)
		}
	}
	return nil
}

func (m *vSM) dropLive() {
	if m.svc != nil {
		q := m.quiet
		m.quiet = true
		m.svc.Close()
		m.quiet = q
		m.svc = nil
	}
	m.waiters = nil
}

func (m *vSM) anyBuffered() bool {
	for _, l := range m.lanes {
		if p := m.proc(l); p != nil && p.queue != nil {
			p.queue.mu.RLock()
			segs := append(segments(nil), p.queue.segments...)
			p.queue.mu.RUnlock()
			for _, s := range segs {
				if len(vBufBlocks(s)) > 0 {
					return true
				}
			}
		}
	}
	return false
}

// drawPlan decides whether the next operation runs with a crash plan.
func (m *vSM) drawPlan(rt *rapid.T, evs []string, maxOcc int) {
	m.plan, m.fired, m.seen = nil, false, map[string]int{}
	if len(evs) == 0 || m.crashes >= 4 {
		return
	}
	if rapid.IntRange(0, 3).Draw(rt, "crash?") != 0 {
		return
	}
	if m.anyBuffered() {
		// known finding: acknowledged appends that are still in the write buffer do not survive a crash
		m.st.Exclude(vSigBufferedAck)
		return
	}
	p := &vPlan{ev: rapid.SampledFrom(evs).Draw(rt, "crashEv")}
	if maxOcc > 0 {
		p.occ = rapid.IntRange(0, maxOcc).Draw(rt, "crashOcc")
	}
	p.cut = vCut{Kind: rapid.IntRange(0, 5).Draw(rt, "cut"), R: rapid.IntRange(0, 600).Draw(rt, "cutR")}
	if p.cut.mid() && !m.allowMid[p.ev] {
		switch p.ev {
		case "hh.flush.written":
			m.st.Exclude(vSigTornFlush)
		case "hh.advance.written":
			m.st.Exclude(vSigTornAdvance)
		}
		p.cut.Kind = p.cut.R % 2
	}
	m.plan = p
}

// afterOp finishes an operation: returns true when the crash plan fired (the caller then recovers).
func (m *vSM) afterOp() bool {
	vDurable().opDone(m.root)
	if m.hookErr != nil {
		m.fatalf("harness-image-error", "taking the crash image failed: %v", m.hookErr)
	}
	fired := m.fired
	if m.plan != nil && !fired {
		m.class("crash-plan-missed")
	}
	m.plan = nil
	return fired
}

func vMissing(cands [][]vBlk, got [][]byte) (int, bool) {
	// a block contained in every candidate but not in got
	if len(cands) == 0 {
		return 0, false
	}
	for _, b := range cands[0] {
		inAll := true
		for _, c := range cands[1:] {
			f := false
			for _, x := range c {
				if x.ID == b.ID {
					f = true
				}
			}
			inAll = inAll && f
		}
		if !inAll {
			continue
		}
		f := false
		for _, g := range got {
			if bytes.Equal(g, b.Raw) {
				f = true
			}
		}
		if !f {
			return b.ID, true
		}
	}
	return 0, false
}

// recoverCrash continues the history on the crash image. cands are the queue contents the property allows
// for lane target after this crash; every other lane must hold exactly its model content.
func (m *vSM) recoverCrash(rt *rapid.T, op string, target *vLane, cands [][]vBlk) {
	for depth := 0; ; depth++ {
		m.crashes++
		m.class("crash@" + m.firedEv)
		m.class("crash-cut:" + m.plan0cut)
		if len(m.imgDesc) > 0 {
			m.class("crash-image-differs-from-live-files")
		}
		m.canon = append(m.canon, "crash@"+m.firedEv)
		m.log("CRASH in %s at %s cut=%s image=%v", op, m.firedEv, m.plan0cut, m.imgDesc)
		m.dropLive()
		m.root = m.imgRoot
		for _, l := range m.lanes {
			m.quiet = true
			got, err := vDrainCopy(m.laneDir(l), m.seg)
			m.quiet = false
			if err != nil {
				m.fatalf("crash-recovery-read-error", "lane %s: reading the recovered queue failed after %s (model %s): %v; read so far %s", l, op, vBlkIDs(l.pend), err, vRawIDs(got))
			}
			cs := [][]vBlk{l.pend}
			if l == target {
				cs = cands
			}
			hit := -1
			for i, c := range cs {
				if vEqualBlocks(got, vRaws(c)) {
					hit = i
					break
				}
			}
			if hit < 0 {
				var al []string
				for _, c := range cs {
					al = append(al, vBlkIDs(c))
				}
				if id, miss := vMissing(cs, got); miss {
					m.fatalf("crash-lost-acked-block", "lane %s: after the crash in %s at %s the acknowledged block %d is gone: recovered %s, allowed %s", l, op, m.firedEv, id, vRawIDs(got), strings.Join(al, " or "))
				}
				m.fatalf("crash-queue-differs", "lane %s: after the crash in %s at %s the queue holds %s, allowed %s", l, op, m.firedEv, vRawIDs(got), strings.Join(al, " or "))
			}
			if l == target && len(cs) > 1 {
				m.class(fmt.Sprintf("crash-outcome:%s:%d", op, hit))
			}
			l.pend = cs[hit]
		}
		// the real recovery, possibly crashing again
		evs := []string(nil)
		if depth < 2 {
			evs = []string{"hh.trim", "hh.truncate"}
		}
		m.drawPlan(rt, evs, 0)
		m.setCut()
		err := m.openService()
		if err != nil {
			m.fatalf("crash-recovery-open-failed", "Service.Open on the crash image failed: %v", err)
		}
		if !m.afterOp() {
			return
		}
		m.class("crash-during-recovery")
		op, target, cands = "recovery", nil, nil
	}
}

// plan0cut is kept as a separate field because afterOp clears the plan.
func (m *vSM) setCut() {
	if m.plan != nil {
		m.plan0cut = m.plan.cut.String()
	}
}

// ---------------------------------------------------------------------------------------------

func (m *vSM) check(rt *rapid.T) {
	m.rt = rt
	for _, l := range m.lanes {
		p := m.proc(l)
		empty := m.svc.Empty(l.shard, l.node)
		if p == nil {
			if len(l.pend) != 0 {
				m.fatalf("processor-missing", "lane %s has %d pending blocks but no processor", l, len(l.pend))
			}
			if !empty {
				m.fatalf("empty-false-while-nothing-pending", "lane %s: Service.Empty is false without a processor", l)
			}
			continue
		}
		content, nseg, _, bad, err := vQueueContent(p.queue)
		if err != nil {
			m.fatalf("harness-read-error", "%v", err)
		}
		if bad != "" {
			m.fatalf("segment-malformed", "lane %s: %s", l, bad)
		}
		if !vEqualBlocks(content, vRaws(l.pend)) {
			m.fatalf("queue-content-differs", "lane %s: files+buffers hold %s, model %s", l, vRawIDs(content), vBlkIDs(l.pend))
		}
		if nseg > l.maxSegs {
			l.maxSegs = nseg
		}
		if nseg >= 2 {
			m.class("multi-segment")
		}
		if nseg >= 4 {
			m.class("segments>=4")
		}
		want := len(l.pend) == 0
		if empty && !want {
			m.fatalf("empty-true-while-pending", "lane %s: Empty() is true but %d blocks are pending %s", l, len(l.pend), vBlkIDs(l.pend))
		}
		if !empty && want {
			if l.phantomOK && nseg > 1 {
				m.class("empty-false-after-resize-added-segment(relaxed)")
			} else {
				m.fatalf("empty-false-while-nothing-pending", "lane %s: Empty() is false but nothing is pending (segments %d)", l, nseg)
			}
		}
		if nseg == 1 {
			l.phantomOK = false
		}
	}
}

func (m *vSM) pickLane(rt *rapid.T) *vLane {
	i := rapid.SampledFrom([]int{0, 0, 0, 0, 1, 2}).Draw(rt, "lane")
	return m.lanes[i]
}

func (m *vSM) fileBytes(l *vLane) int64 {
	var n int64
	views, _ := vReadQueueDir(m.laneDir(l))
	for _, v := range views {
		n += v.Size
	}
	return n
}

func (m *vSM) drawSize(rt *rapid.T, l *vLane, allowOver bool) int {
	seg := int(m.seg)
	max := seg - 8
	rem := max
	if p := m.proc(l); p != nil && p.queue.tail != nil {
		t := p.queue.tail
		t.mu.RLock()
		rem = seg - int(t.size)
		if t.buf != nil {
			rem -= t.buf.Len()
		}
		t.mu.RUnlock()
	}
	var sz int
	switch k := rapid.IntRange(0, 29).Draw(rt, "sizeKind"); {
	case k < 14:
		sz = rapid.IntRange(20, 20+max/3).Draw(rt, "size")
	case k < 20:
		sz = rem + rapid.IntRange(-1, 1).Draw(rt, "remDelta")
		if sz > max {
			sz = max
		}
	case k < 25:
		sz = max - rapid.IntRange(0, 3).Draw(rt, "capDelta")
	case k < 29:
		sz = rapid.IntRange(20, max).Draw(rt, "size")
	default:
		if allowOver {
			sz = max + rapid.IntRange(1, 16).Draw(rt, "over")
		} else {
			sz = max
		}
	}
	if sz < 20 {
		sz = 20
	}
	if sz > max && !(allowOver && sz <= max+16) {
		sz = max
	}
	return sz
}

// doAppend performs one append (the critical section of one writer) and updates the model.
// viaService chooses Service.WriteShard with real points, otherwise queue.Append with an opaque block.
func (m *vSM) doAppend(rt *rapid.T, l *vLane, viaService bool, buffered bool, crashOK bool) {
	p := m.proc(l)
	if p == nil {
		viaService = true
	}
	m.nextID++
	id := m.nextID
	var blk vBlk
	var pts []models.Point
	size := m.drawSize(rt, l, p != nil)
	if viaService {
		k := rapid.IntRange(1, 3).Draw(rt, "npoints")
		per := (size - 8) / k
		for i := 0; i < k; i++ {
			pts = append(pts, vPoint(id, i, per-4))
		}
		blk = vPointsBlk(id, l.shard, pts)
		if p == nil && int64(len(blk.Raw)) > m.seg-8 {
			// the first block of a lazily created queue is written before the harness can set the segment size
			pts = pts[:1]
			pts[0] = vPoint(id, 0, 0)
			blk = vPointsBlk(id, l.shard, pts)
			if int64(len(blk.Raw)) > m.seg-8 {
				m.nextID--
				return
			}
		}
	} else {
		blk = vRawBlk(id, l.shard, size)
	}
	over := int64(len(blk.Raw))+8 > m.seg
	before := m.fileBytes(l)
	evs := []string{"hh.flush.begin", "hh.flush.written", "hh.flush.synced"}
	if !crashOK || buffered {
		evs = nil
	}
	m.drawPlan(rt, evs, 0)
	m.setCut()
	var err error
	if viaService {
		err = m.svc.WriteShard(l.shard, l.node, pts)
		if np := m.proc(l); np != nil && np.queue.maxSegmentSize != m.seg {
			vSetSegSize(np.queue, m.seg)
			m.class("lane-created-by-write")
		}
	} else {
		err = p.queue.Append(blk.Raw)
	}
	kind := "raw"
	if viaService {
		kind = "svc"
	}
	m.log("append %s lane %s block %d size %d buffered=%v -> %v", kind, l, id, len(blk.Raw), buffered, err)
	if m.afterOp() {
		m.recoverCrash(rt, "append", l, [][]vBlk{l.pend, append(append([]vBlk(nil), l.pend...), blk)})
		m.canon = append(m.canon, "append-crashed")
		return
	}
	switch err {
	case nil:
		if over {
			m.fatalf("oversized-block-accepted", "block of %d bytes accepted with segment size %d", len(blk.Raw), m.seg)
		}
		l.pend = append(l.pend, blk)
		m.canon = append(m.canon, "append:"+kind)
		if buffered {
			m.class("buffered-append(>=10 writers)")
			m.canon = append(m.canon, "buffered")
		}
	case ErrQueueFull:
		if before+int64(len(blk.Raw)) <= m.maxSize {
			m.fatalf("queue-full-below-limit", "ErrQueueFull with %d bytes on disk + %d <= max %d", before, len(blk.Raw), m.maxSize)
		}
		m.class("append-refused:queue-full")
		m.canon = append(m.canon, "append:full")
	case ErrQueueBlocked:
		held := 0
		for _, w := range m.waiters {
			if p != nil && w.q == p.queue {
				held++
			}
		}
		if held < m.maxWrites {
			m.fatalf("queue-blocked-below-limit", "ErrQueueBlocked with %d of %d writer tokens taken", held, m.maxWrites)
		}
		m.class("append-refused:queue-blocked")
		m.canon = append(m.canon, "append:blocked")
	case ErrSegmentFull:
		if !over {
			m.fatalf("segment-full-for-fitting-block", "ErrSegmentFull for a block of %d bytes, segment size %d", len(blk.Raw), m.seg)
		}
		m.class("append-refused:block-larger-than-segment")
		m.canon = append(m.canon, "append:oversize")
	default:
		m.fatalf("append-unexpected-error", "append of %d bytes returned %v", len(blk.Raw), err)
	}
}

func (m *vSM) actAppend(rt *rapid.T) {
	l := m.pickLane(rt)
	via := m.seg >= 96 && rapid.IntRange(0, 3).Draw(rt, "via") == 0
	m.doAppend(rt, l, via, false, true)
}

// actArrive: a writer enters Append and takes its limiter token but has not reached the queue mutex yet.
func (m *vSM) actArrive(rt *rapid.T) {
	l := m.pickLane(rt)
	p := m.proc(l)
	if p == nil {
		m.doAppend(rt, l, true, false, true)
		return
	}
	n := 1
	if rapid.IntRange(0, 2).Draw(rt, "burst") == 0 {
		n = rapid.IntRange(8, 14).Draw(rt, "burstN")
	}
	for i := 0; i < n; i++ {
		if !p.queue.limiter.TryTake() {
			// all tokens are out: this writer is turned away
			err := p.queue.Append(vRawBlk(0, l.shard, 20).Raw)
			if err != ErrQueueBlocked {
				m.fatalf("blocked-append-not-refused", "append with all %d tokens taken returned %v", m.maxWrites, err)
			}
			m.class("append-refused:queue-blocked")
			m.canon = append(m.canon, "blocked")
			break
		}
		m.waiters = append(m.waiters, vWaiter{lane: l, q: p.queue})
	}
	m.log("arrive x%d on lane %s -> %d writers pending", n, l, len(m.waiters))
	m.canon = append(m.canon, "arrive")
}

// actProceed: one pending writer runs its critical section.
func (m *vSM) actProceed(rt *rapid.T) {
	if len(m.waiters) == 0 {
		m.actAppend(rt)
		return
	}
	n := 1
	if rapid.IntRange(0, 3).Draw(rt, "many") == 0 {
		n = rapid.IntRange(1, len(m.waiters)).Draw(rt, "proceedN")
	}
	for ; n > 0 && len(m.waiters) > 0; n-- {
		i := rapid.IntRange(0, len(m.waiters)-1).Draw(rt, "writer")
		w := m.waiters[i]
		m.waiters = append(m.waiters[:i], m.waiters[i+1:]...)
		holders := 0
		for _, o := range m.waiters {
			if o.q == w.q {
				holders++
			}
		}
		buffered := holders+1 >= 10
		w.q.limiter.Release() // the token is taken again inside Append, by the same writer
		via := m.seg >= 96 && rapid.IntRange(0, 3).Draw(rt, "via") == 0
		m.doAppend(rt, w.lane, via, buffered, true)
		if m.svc == nil || m.proc(w.lane) == nil || m.proc(w.lane).queue != w.q {
			return // a crash replaced the live objects
		}
	}
}

func (m *vSM) actCurrent(rt *rapid.T) {
	l := m.pickLane(rt)
	p := m.proc(l)
	if p == nil {
		return
	}
	b, err := p.queue.Current()
	_, nseg, buffered, _, _ := vQueueContent(p.queue)
	m.log("current lane %s -> %d bytes, %v", l, len(b), err)
	if len(l.pend) == 0 {
		if err != io.EOF {
			m.fatalf("current-on-empty-queue", "Current on an empty queue returned %d bytes, err %v", len(b), err)
		}
		return
	}
	if err == io.EOF && (buffered > 0 || nseg > 1) {
		m.class("current-eof-before-data(buffer or exhausted head)")
		return
	}
	if err != nil {
		m.fatalf("current-error", "Current returned %v with %s pending", err, vBlkIDs(l.pend))
	}
	if !bytes.Equal(b, l.pend[0].Raw) {
		m.fatalf("current-wrong-block", "Current returned %s, model head is %s", vRawIDs([][]byte{b}), vBlkIDs(l.pend[:1]))
	}
	m.canon = append(m.canon, "current")
}

var vOutcomes = []string{"stored", "stored", "stored", "stored", "retry", "permanent", "shard-gone", "node-gone", "meta-error"}

func (m *vSM) actSendWrite(rt *rapid.T) {
	l := m.pickLane(rt)
	p := m.proc(l)
	if p == nil {
		return
	}
	outcome := rapid.SampledFrom(vOutcomes).Draw(rt, "outcome")
	n := 1
	if outcome == "stored" && rapid.IntRange(0, 3).Draw(rt, "drain") == 0 {
		n = rapid.IntRange(1, 6).Draw(rt, "sends")
	}
	for ; n > 0; n-- {
		if !m.sendOnce(rt, l, outcome) {
			return
		}
	}
}

// sendOnce runs NodeProcessor.SendWrite once; false when a crash replaced the live objects.
func (m *vSM) sendOnce(rt *rapid.T, l *vLane, outcome string) bool {
	p := m.proc(l)
	m.w.take()
	var werr error
	switch outcome {
	case "retry":
		werr = fmt.Errorf("dial tcp: connection refused")
	case "permanent":
		werr = fmt.Errorf(rapid.SampledFrom([]string{"partial write: points beyond retention policy dropped=1", "field type conflict: input field \"v\" is type float, already exists as type integer"}).Draw(rt, "perm"))
	}
	m.w.outcome = func(uint64, uint64) error { return werr }
	m.mc.mu.Lock()
	m.mc.gone, m.mc.err = map[uint64]bool{}, nil
	if outcome == "node-gone" {
		m.mc.gone[l.node] = true
	}
	if outcome == "meta-error" {
		m.mc.err = fmt.Errorf("meta service unavailable")
	}
	m.mc.mu.Unlock()
	defer func() {
		m.mc.mu.Lock()
		m.mc.gone, m.mc.err = map[uint64]bool{}, nil
		m.mc.mu.Unlock()
		m.w.outcome = nil
	}()

	advances := outcome == "stored" || outcome == "permanent" || outcome == "shard-gone"
	var evs []string
	if advances && len(l.pend) > 0 {
		evs = []string{"hh.advance.written", "hh.advance.synced", "hh.trim"}
	}
	before := append([]vBlk(nil), l.pend...)
	m.drawPlan(rt, evs, 0)
	m.setCut()
	var sent int
	var err error
	_, nseg0, _, _, _ := vQueueContent(p.queue)
	for try := 0; ; try++ {
		sent, err = p.SendWrite()
		calls := m.w.take()
		m.log("sendWrite lane %s outcome %s -> %d, %v (%d writer calls)", l, outcome, sent, err, len(calls))
		if outcome == "node-gone" || outcome == "meta-error" {
			if len(calls) != 0 || err == nil {
				m.fatalf("send-to-inactive-node", "SendWrite with %s returned %v and called the writer %d times", outcome, err, len(calls))
			}
			if outcome == "node-gone" && err != io.EOF {
				m.fatalf("send-to-inactive-node", "SendWrite for a removed node returned %v, want EOF", err)
			}
			m.afterOp()
			m.class("sendwrite:" + outcome)
			m.canon = append(m.canon, "send:"+outcome)
			return true
		}
		if len(before) == 0 {
			if err != io.EOF || len(calls) != 0 {
				m.fatalf("delivery-from-empty-queue", "SendWrite on an empty queue returned %v and delivered %d calls", err, len(calls))
			}
			m.afterOp()
			m.canon = append(m.canon, "send:empty")
			return true
		}
		if err == io.EOF && len(calls) == 0 {
			_, _, buffered, _, _ := vQueueContent(p.queue)
			if buffered > 0 && try == 0 {
				// appended blocks still sit in the write buffer; the next unbuffered append or Close writes them
				m.afterOp()
				m.class("sendwrite-eof-while-blocks-buffered")
				m.canon = append(m.canon, "send:eof-buffered")
				return true
			}
			if nseg0 > 1 && try < nseg0+1 {
				// the head segment is used up but is only trimmed by the Advance that SendWrite issues on EOF;
				// the run loop comes back after RetryInterval, the harness comes back at once
				m.class("sendwrite-eof-on-exhausted-head(retried)")
				continue
			}
			m.fatalf("pending-block-not-delivered", "SendWrite returns EOF although %s are pending", vBlkIDs(before))
		}
		if len(calls) != 1 {
			m.fatalf("delivery-count", "SendWrite made %d writer calls (err %v)", len(calls), err)
		}
		c := calls[0]
		if c.Shard != l.shard || c.Node != l.node {
			m.fatalf("delivered-to-wrong-target", "block sent to shard %d node %d, lane %s", c.Shard, c.Node, l)
		}
		if !vEqualBlocks(c.Pts, before[0].Pts) {
			sig := "delivered-unknown-block"
			for _, b := range before[1:] {
				if vEqualBlocks(c.Pts, b.Pts) {
					sig = "delivered-out-of-order"
				}
			}
			m.fatalf(sig, "writer received %s, model head is block %d (pending %s)", vRawIDs([][]byte{vMarshal(c.Shard, c.Pts)}), before[0].ID, vBlkIDs(before))
		}
		break
	}
	if m.afterOp() {
		m.recoverCrash(rt, "sendWrite:"+outcome, l, [][]vBlk{before, before[1:]})
		if len(l.pend) == len(before) && outcome == "stored" {
			m.class("block-in-flight-at-crash-will-be-resent")
		}
		m.canon = append(m.canon, "send-crashed")
		return false
	}
	m.class("sendwrite:" + outcome)
	m.canon = append(m.canon, "send:"+outcome)
	if advances {
		if err != nil {
			m.fatalf("send-error-after-ack", "SendWrite returned %v although the target answered %s", err, outcome)
		}
		if sent != len(before[0].Raw) {
			m.fatalf("send-size", "SendWrite reported %d bytes, block has %d", sent, len(before[0].Raw))
		}
		l.pend = before[1:]
	} else if err == nil {
		m.fatalf("retryable-error-swallowed", "SendWrite returned nil although the target failed with a retryable error")
	}
	return true
}

func (m *vSM) actResize(rt *rapid.T) {
	if m.anyBuffered() {
		return // SetMaxSegmentSize has no production caller; it is exercised on quiescent queues only
	}
	n := int64(rapid.SampledFrom([]int{64, 96, 128, 200, 256, 384, 512}).Draw(rt, "newSeg"))
	for _, l := range m.lanes {
		for _, b := range l.pend {
			if int64(len(b.Raw))+8 > n {
				return // precondition: every pending block plus its length prefix fits
			}
		}
	}
	if n == m.seg {
		return
	}
	for _, l := range m.lanes {
		if p := m.proc(l); p != nil {
			if err := p.queue.SetMaxSegmentSize(n); err != nil {
				m.fatalf("resize-error", "SetMaxSegmentSize(%d): %v", n, err)
			}
			l.phantomOK = true
		}
	}
	m.log("resize %d -> %d", m.seg, n)
	m.seg = n
	vDurable().opDone(m.root)
	m.class("resize")
	m.canon = append(m.canon, "resize")
}

// layout returns, per segment in order, the pending blocks it holds (file and write buffer).
func vLayout(q *queue) (per [][][]byte, paths []string, err error) {
	views, err := vReadQueueDir(q.dir)
	if err != nil {
		return nil, nil, err
	}
	q.mu.RLock()
	byID := map[uint64]*segment{}
	for _, s := range q.segments {
		byID[s.id] = s
	}
	q.mu.RUnlock()
	for _, v := range views {
		blocks := append([][]byte(nil), v.Pending...)
		if s := byID[v.ID]; s != nil {
			blocks = append(blocks, vBufBlocks(s)...)
		}
		per = append(per, blocks)
		paths = append(paths, v.Path)
	}
	return per, paths, nil
}

func (m *vSM) actPurge(rt *rapid.T) {
	l := m.pickLane(rt)
	p := m.proc(l)
	if p == nil {
		return
	}
	per, paths, err := vLayout(p.queue)
	if err != nil || len(per) == 0 {
		return
	}
	k := rapid.IntRange(0, len(per)).Draw(rt, "oldSegments")
	extraOld := -1
	if k < len(per)-1 && rapid.Bool().Draw(rt, "laterOld") {
		extraOld = rapid.IntRange(k+1, len(per)-1).Draw(rt, "laterOldIdx")
	}
	now := time.Now()
	old := now.Add(-50 * time.Hour)
	for i, path := range paths {
		t := now
		if i < k || i == extraOld {
			t = old
		}
		if err := os.Chtimes(path, t, t); err != nil {
			m.fatalf("harness-chtimes", "%v", err)
		}
	}
	before := append([]vBlk(nil), l.pend...)
	var cands [][]vBlk
	dropped := 0
	cands = append(cands, before)
	for i := 0; i < k; i++ {
		dropped += len(per[i])
		cands = append(cands, before[dropped:])
	}
	var evs []string
	if k > 0 {
		evs = []string{"hh.trim"}
	}
	m.drawPlan(rt, evs, k-1)
	m.setCut()
	err = p.queue.PurgeOlderThan(now.Add(-time.Hour))
	m.log("purge lane %s: %d of %d segments aged (later old %d) -> %v, %d blocks dropped by age", l, k, len(per), extraOld, err, dropped)
	if m.afterOp() {
		m.recoverCrash(rt, "purge", l, cands)
		m.canon = append(m.canon, "purge-crashed")
		return
	}
	if err != nil {
		m.fatalf("purge-error", "PurgeOlderThan: %v", err)
	}
	l.pend = before[dropped:]
	m.class("purge")
	if k == len(per) {
		m.class("purge-all-segments")
	}
	if dropped > 0 {
		m.class("purge-dropped-blocks-by-age")
	}
	if k == 0 && extraOld >= 0 {
		m.class("purge-stops-at-fresh-head")
	}
	m.canon = append(m.canon, fmt.Sprintf("purge:%d", k))
}

func (m *vSM) actReopen(rt *rapid.T) {
	if len(m.waiters) > 0 {
		m.class("close-during-burst")
		if m.anyBuffered() {
			m.class("close-with-buffered-acknowledged-appends")
		}
	}
	m.quiet = true
	err := m.svc.Close()
	m.quiet = false
	if err != nil {
		m.fatalf("close-error", "Service.Close: %v", err)
	}
	// writers that were still waiting now run into a closed queue: none of them may be acknowledged
	for _, w := range m.waiters {
		w.q.limiter.Release()
		var aerr error
		if rapid.Bool().Draw(rt, "lateVia") {
			aerr = m.svc.WriteShard(w.lane.shard, w.lane.node, []models.Point{vPoint(0, 0, 0)})
		} else {
			aerr = w.q.Append(vRawBlk(0, w.lane.shard, 24).Raw)
		}
		if aerr == nil {
			m.fatalf("append-acknowledged-after-close", "an append that ran after Close returned nil")
		}
	}
	m.waiters = nil
	m.svc = nil
	vDurable().opDone(m.root)
	for _, l := range m.lanes {
		m.quiet = true
		got, err := vDrainCopy(m.laneDir(l), m.seg)
		m.quiet = false
		if err != nil {
			m.fatalf("reopen-read-error", "lane %s: reading the closed queue failed: %v", l, err)
		}
		if !vEqualBlocks(got, vRaws(l.pend)) {
			sig := "reopen-queue-differs"
			if _, miss := vMissing([][]vBlk{l.pend}, got); miss {
				sig = "reopen-lost-acked-block"
			}
			m.fatalf(sig, "lane %s: after close the queue reads back %s, model %s", l, vRawIDs(got), vBlkIDs(l.pend))
		}
	}
	m.drawPlan(rt, []string{"hh.trim", "hh.truncate"}, 0)
	m.setCut()
	if err := m.openService(); err != nil {
		m.fatalf("reopen-failed", "Service.Open: %v", err)
	}
	m.log("reopen")
	m.class("reopen")
	m.canon = append(m.canon, "reopen")
	if m.afterOp() {
		m.recoverCrash(rt, "reopen", nil, nil)
	}
}

func (m *vSM) actRemoveNode(rt *rapid.T) {
	node := rapid.SampledFrom([]uint64{2, 2, 3}).Draw(rt, "node")
	var late []vWaiter
	var keep []vWaiter
	for _, w := range m.waiters {
		if w.lane.node == node {
			late = append(late, w)
		} else {
			keep = append(keep, w)
		}
	}
	m.quiet = true
	err := m.svc.RemoveNode(node)
	m.quiet = false
	if err != nil {
		m.fatalf("remove-node-error", "%v", err)
	}
	for _, w := range late {
		w.q.limiter.Release()
		if aerr := w.q.Append(vRawBlk(0, w.lane.shard, 24).Raw); aerr == nil {
			m.fatalf("append-acknowledged-after-close", "an append into the queue of a removed node returned nil")
		}
	}
	m.waiters = keep
	dir := filepath.Join(m.root, fmt.Sprint(node))
	if _, serr := os.Stat(dir); serr == nil {
		m.fatalf("remove-node-left-files", "directory of removed node %d still exists", node)
	}
	vDurable().forgetTree(dir)
	for _, l := range m.lanes {
		if l.node == node {
			if len(l.pend) > 0 {
				m.class("remove-node-dropped-blocks")
			}
			l.pend = nil
			l.phantomOK = false
		}
	}
	m.log("removeNode %d", node)
	m.class("remove-node")
	m.canon = append(m.canon, "removeNode")
}

func vC04Machine(t *testing.T, st *verifkit.Stats, allowMid map[string]bool) func(rt *rapid.T) {
	dur := vDurable()
	st.Note("fsync_source", dur.src)
	st.Note("fsync_source_detail", dur.why)
	return func(rt *rapid.T) {
		base, err := os.MkdirTemp("", "c04")
		if err != nil {
			rt.Fatal(err)
		}
		m := &vSM{st: st, rt: rt, base: base, classes: map[string]bool{}, allowMid: allowMid,
			w: &vWriter{}, mc: &vMetaC{gone: map[uint64]bool{}}, maxWrites: 16}
		m.root = filepath.Join(base, "g0")
		m.seg = int64(rapid.SampledFrom([]int{64, 96, 128, 128, 200, 256, 256, 384, 512}).Draw(rt, "seg"))
		m.maxSize = int64(rapid.SampledFrom([]int{700, 1500, 4000, 1 << 20, 1 << 20}).Draw(rt, "maxSize"))
		m.lanes = []*vLane{{node: 2, shard: 7}, {node: 2, shard: 8}, {node: 3, shard: 7}}
		// the first lane exists from the start (directory scan of Service.Open), the others are created by writes
		os.MkdirAll(m.laneDir(m.lanes[0]), 0700)
		verifhook.Set(m.hook)
		defer func() {
			verifhook.Set(nil)
			m.quiet = true
			if m.svc != nil {
				m.svc.Close()
			}
			vDurable().forgetTree(base)
			os.RemoveAll(base)
		}()
		if err := m.openService(); err != nil {
			rt.Fatalf("open: %v", err)
		}
		vDurable().opDone(m.root)
		rt.Repeat(map[string]func(*rapid.T){
			"step": func(rt *rapid.T) {
				m.rt = rt
				k := rapid.IntRange(0, 99).Draw(rt, "kind")
				switch {
				case k < 30:
					m.actAppend(rt)
				case k < 42:
					m.actArrive(rt)
				case k < 58:
					m.actProceed(rt)
				case k < 78:
					m.actSendWrite(rt)
				case k < 82:
					m.actCurrent(rt)
				case k < 88:
					m.actReopen(rt)
				case k < 92:
					m.actResize(rt)
				case k < 97:
					m.actPurge(rt)
				default:
					m.actRemoveNode(rt)
				}
			},
			"": m.check,
		})
		// final drain: everything still pending must come out, in order
		for _, l := range m.lanes {
			p := m.proc(l)
			if p == nil {
				continue
			}
			if m.anyBuffered() {
				continue
			}
			for guard := 0; len(l.pend) > 0 && guard < 200; guard++ {
				if !m.sendOnce(rt, l, "stored") {
					break
				}
			}
		}
		m.check(rt)
		nt := false
		for _, l := range m.lanes {
			if l.maxSegs >= 2 {
				nt = true
			}
		}
		nt = nt && (m.classes["reopen"] || m.crashes > 0 || m.classes["buffered-append(>=10 writers)"] || m.classes["resize"])
		var cl []string
		for c := range m.classes {
			cl = append(cl, c)
		}
		if m.crashes > 0 {
			cl = append(cl, "history-with-crash")
		}
		if m.crashes > 1 {
			cl = append(cl, "history-with->=2-crashes")
		}
		st.Case(nt, strings.Join(m.canon, ","), cl...)
		if st.WantSample() {
			st.Sample(map[string]interface{}{"seg": m.seg, "maxSize": m.maxSize, "history": m.trace})
		} else {
			st.Sample(nil)
		}
	}
}

func TestVerifC04Queue(t *testing.T) {
	st := verifkit.For("C04", "TestVerifC04Queue",
		"rapid state machine on a real hh.Service (3 node/shard queues, segment size 64-512 B): appends around the segment limit "+
			"(queue.Append and Service.WriteShard), owned schedule of up to 16 pending writers (buffered path at >=10), SendWrite with six "+
			"target outcomes, Current, SetMaxSegmentSize, PurgeOlderThan with chosen file ages, Close+Open, RemoveNode, and a crash at a chosen "+
			"hh.* hook event with the un-synced-suffix rule; after every action Empty() and files+buffers are compared with a FIFO model. "+
			"Non-trivial: >=2 segments alive and >=1 of reopen/crash/burst>=10/resize; distinct by the sequence of action kinds and outcomes")
	defer st.Flush()
	rapid.Check(t, vC04Machine(t, st, nil))
	vC04HookCoverage(t, st)
}

// vC04HookCoverage: a hook that silently disappeared must not leave the check green.
func vC04HookCoverage(t *testing.T, st *verifkit.Stats) {
	if t.Failed() {
		return
	}
	st.Note("fsync_lines_consumed", fmt.Sprint(vDurable().lines))
	if st.Evals < 50 {
		return
	}
	for _, ev := range vHookKinds {
		if ev == "hh.truncate" {
			continue // only reached from torn files, which the main campaign excludes (known findings)
		}
		if vEvTotal[ev] == 0 {
			st.Flush()
			fmt.Printf("VERIF-INCONCLUSIVE hook event %s never fired in %d histories: instrumentation missing?\n", ev, st.Evals)
			os.Exit(3)
		}
	}
}

var vEvTotal = map[string]int{}
