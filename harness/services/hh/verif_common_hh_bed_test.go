//go:build verif

package hh

// Bed Q (DESIGN.md section 3): hinted-handoff queue / NodeProcessor / Service with a recording shard
// writer, a scripted meta client, an independent reader of the segment file format, and a crash imager
// whose notion of "durable bytes" is observed from the strace fsync log (section 2.4) and only falls back
// to the declared *.synced hook events when no log is available.

import (
	"bufio"
	"bytes"
	"encoding/binary"
	"fmt"
	"io"
	"os"
	"path/filepath"
	"regexp"
	"sort"
	"strconv"
	"strings"
	"sync"
	"syscall"
	"time"

	"github.com/influxdata/influxdb/models"
	"github.com/influxdata/influxdb/services/meta"
	"github.com/influxdata/influxdb/toml"
)

// ---------------------------------------------------------------------------------------------
// durability observation

type vSnap struct {
	ino  uint64
	data []byte
}

// vDurT remembers, per file path, the content the file had when its last fsync was observed.
type vDurT struct {
	mu      sync.Mutex
	src     string // "strace" or "hook"
	why     string
	f       *os.File
	r       *bufio.Reader
	pending map[string]string
	snap    map[string]vSnap
	lines   int64
	prefix  string
}

var (
	vDurOnce sync.Once
	vDurInst *vDurT
)

var vReFsync = regexp.MustCompile(`^(\d+)\s+(?:fsync|fdatasync)\(\d+<([^>]*)>(.*)$`)
var vReResumed = regexp.MustCompile(`^(\d+)\s+<\.\.\. (?:fsync|fdatasync) resumed>\)\s+=\s+0`)

// vDurable returns the process-wide durability observer.
func vDurable() *vDurT {
	vDurOnce.Do(func() {
		d := &vDurT{src: "hook", why: "VERIF_FSYNC_LOG not set", pending: map[string]string{}, snap: map[string]vSnap{}, prefix: os.TempDir()}
		vDurInst = d
		p := os.Getenv("VERIF_FSYNC_LOG")
		if p == "" {
			return
		}
		f, err := os.Open(p)
		if err != nil {
			d.why = "cannot open fsync log: " + err.Error()
			return
		}
		d.f, d.r = f, bufio.NewReader(f)
		d.src = "strace"
		// self-test: an fsync issued by this process must be visible in the log when Sync returns
		tf, err := os.CreateTemp("", "vselftest")
		if err == nil {
			tf.Write([]byte("x"))
			ok := false
			for i := 0; i < 5 && !ok; i++ {
				tf.Sync()
				d.poll()
				_, ok = d.snap[tf.Name()]
			}
			tf.Close()
			os.Remove(tf.Name())
			delete(d.snap, tf.Name())
			if !ok {
				d.src, d.why = "hook", "strace self-test failed: fsync of this process not visible in the log"
			} else {
				d.why = "fsync lines tailed from " + p
			}
		}
	})
	return vDurInst
}

func vIno(fi os.FileInfo) uint64 {
	if st, ok := fi.Sys().(*syscall.Stat_t); ok {
		return st.Ino
	}
	return 0
}

// mark records the present content of path as durable.
func (d *vDurT) mark(path string) {
	if !strings.HasPrefix(path, d.prefix) {
		return
	}
	fi, err := os.Stat(path)
	if err != nil || fi.IsDir() {
		return
	}
	if fi.Size() > 1<<20 {
		// large files (split batches) are never crash-imaged; remember only that they were synced
		d.snap[path] = vSnap{ino: vIno(fi)}
		return
	}
	b, err := os.ReadFile(path)
	if err != nil {
		return
	}
	d.snap[path] = vSnap{ino: vIno(fi), data: b}
}

func (d *vDurT) markTree(root string) {
	filepath.Walk(root, func(p string, fi os.FileInfo, err error) error {
		if err == nil && !fi.IsDir() {
			d.mark(p)
		}
		return nil
	})
}

func (d *vDurT) forget(path string) { delete(d.snap, path) }

func (d *vDurT) forgetTree(root string) {
	for p := range d.snap {
		if strings.HasPrefix(p, root) {
			delete(d.snap, p)
		}
	}
}

// lookup returns the durable content of path (nil, false when the file was never seen synced).
func (d *vDurT) lookup(path string, ino uint64) ([]byte, bool) {
	s, ok := d.snap[path]
	if !ok || s.ino != ino {
		return nil, false
	}
	return s.data, true
}

// poll consumes new lines of the strace log.
func (d *vDurT) poll() {
	if d.f == nil {
		return
	}
	for {
		line, err := d.r.ReadString('\n')
		if err != nil {
			if len(line) > 0 {
				d.f.Seek(-int64(len(line)), io.SeekCurrent)
				d.r.Reset(d.f)
			}
			return
		}
		line = strings.TrimRight(line, "\n")
		if m := vReFsync.FindStringSubmatch(line); m != nil {
			if strings.Contains(m[3], "unfinished") {
				d.pending[m[1]] = m[2]
			} else if strings.Contains(m[3], "= 0") {
				d.lines++
				d.mark(m[2])
			}
			continue
		}
		if m := vReResumed.FindStringSubmatch(line); m != nil {
			if p, ok := d.pending[m[1]]; ok {
				d.lines++
				d.mark(p)
				delete(d.pending, m[1])
			}
		}
	}
}

// onHook is called for every hh hook event; in hook mode the declared sync events are believed.
func (d *vDurT) onHook(ev, path string) {
	if d.src == "strace" {
		d.poll()
		return
	}
	if strings.HasSuffix(ev, ".synced") {
		d.mark(path)
	}
}

// opDone is called when an operation of the code under test has returned.
func (d *vDurT) opDone(root string) {
	if d.src == "strace" {
		d.poll()
		return
	}
	// declared durability: every operation syncs what it wrote before it returns
	d.markTree(root)
}

// ---------------------------------------------------------------------------------------------
// crash images

// vCut selects how much of the un-synced part of a file survives the crash.
type vCut struct {
	Kind int // 0 nothing, 1 everything, 2 one byte, 3 half, 4 all but one byte, 5 R-th byte
	R    int
}

func (c vCut) String() string {
	return [...]string{"none", "full", "one", "half", "allbut1", "rand"}[c.Kind]
}

func (c vCut) mid() bool { return c.Kind >= 2 }

// vCutBytes applies the un-synced-suffix rule to one file: cur is the content at the crash instant,
// dur the content at the last observed fsync. Everything before the first differing byte is durable; of the
// bytes written since, a prefix survives.
func vCutBytes(cur, dur []byte, cut vCut) (img []byte, o, x int) {
	n := len(cur)
	o = 0
	for o < n && o < len(dur) && cur[o] == dur[o] {
		o++
	}
	if o == n && n == len(dur) {
		return append([]byte(nil), cur...), n, n
	}
	r := n - o
	switch cut.Kind {
	case 0:
		x = o
	case 1:
		return append([]byte(nil), cur...), o, n
	case 2:
		x = o + 1
	case 3:
		x = o + r/2
	case 4:
		x = n - 1
	default:
		if r > 0 {
			x = o + cut.R%(r+1)
		} else {
			x = o
		}
	}
	if x > n {
		x = n
	}
	if x < o {
		x = o
	}
	img = append([]byte(nil), cur[:x]...)
	if len(dur) > x {
		img = append(img, dur[x:]...)
	}
	return img, o, x
}

// vTakeImage copies the tree src to dst as it would be found after a crash at this instant.
func vTakeImage(src, dst string, cut vCut) (desc []string, err error) {
	d := vDurable()
	d.poll()
	err = filepath.Walk(src, func(p string, fi os.FileInfo, werr error) error {
		if werr != nil {
			return werr
		}
		rel, _ := filepath.Rel(src, p)
		q := filepath.Join(dst, rel)
		if fi.IsDir() {
			return os.MkdirAll(q, 0700)
		}
		cur, rerr := os.ReadFile(p)
		if rerr != nil {
			return rerr
		}
		dur, known := d.lookup(p, vIno(fi))
		img := cur
		if !known || !bytes.Equal(cur, dur) {
			var o, x int
			img, o, x = vCutBytes(cur, dur, cut)
			desc = append(desc, fmt.Sprintf("%s: len %d durable %d (seen synced %v) first-unsynced %d kept-to %d -> %d", rel, len(cur), len(dur), known, o, x, len(img)))
		}
		if werr := os.WriteFile(q, img, 0600); werr != nil {
			return werr
		}
		return os.Chtimes(q, fi.ModTime(), fi.ModTime())
	})
	if err == nil {
		// what is in the image is, by definition, what survived
		d.markTree(dst)
	}
	return desc, err
}

func vCopyTree(src, dst string) error {
	return filepath.Walk(src, func(p string, fi os.FileInfo, werr error) error {
		if werr != nil {
			return werr
		}
		rel, _ := filepath.Rel(src, p)
		q := filepath.Join(dst, rel)
		if fi.IsDir() {
			return os.MkdirAll(q, 0700)
		}
		b, err := os.ReadFile(p)
		if err != nil {
			return err
		}
		if err := os.WriteFile(q, b, 0600); err != nil {
			return err
		}
		return os.Chtimes(q, fi.ModTime(), fi.ModTime())
	})
}

// ---------------------------------------------------------------------------------------------
// recording shard writer and scripted meta client

type vCall struct {
	Shard, Node uint64
	Pts         [][]byte
}

type vWriter struct {
	mu      sync.Mutex
	outcome func(shard, node uint64) error
	calls   []vCall
}

func (w *vWriter) WriteShardBinary(shardID, ownerID uint64, points [][]byte) error {
	w.mu.Lock()
	defer w.mu.Unlock()
	c := vCall{Shard: shardID, Node: ownerID}
	for _, p := range points {
		c.Pts = append(c.Pts, append([]byte(nil), p...))
	}
	w.calls = append(w.calls, c)
	if w.outcome != nil {
		return w.outcome(shardID, ownerID)
	}
	return nil
}

func (w *vWriter) take() []vCall {
	w.mu.Lock()
	defer w.mu.Unlock()
	c := w.calls
	w.calls = nil
	return c
}

type vMetaC struct {
	mu   sync.Mutex
	gone map[uint64]bool
	err  error
}

func (m *vMetaC) DataNode(id uint64) (*meta.NodeInfo, error) {
	m.mu.Lock()
	defer m.mu.Unlock()
	if m.err != nil {
		return nil, m.err
	}
	if m.gone[id] {
		return nil, meta.ErrNodeNotFound
	}
	return &meta.NodeInfo{ID: id, Addr: "h:1", TCPAddr: "t:1"}, nil
}

// ---------------------------------------------------------------------------------------------
// blocks

// vBlk is one block of the reference model: the points it carries and its expected encoding.
type vBlk struct {
	ID  int
	Pts [][]byte
	Raw []byte
}

// vMarshal is the harness's own encoder of the documented block format
// (8-byte shard id, then per point a 4-byte length and the point bytes).
func vMarshal(shard uint64, pts [][]byte) []byte {
	var b bytes.Buffer
	var u8 [8]byte
	binary.BigEndian.PutUint64(u8[:], shard)
	b.Write(u8[:])
	for _, p := range pts {
		var u4 [4]byte
		binary.BigEndian.PutUint32(u4[:], uint32(len(p)))
		b.Write(u4[:])
		b.Write(p)
	}
	return b.Bytes()
}

// vUnmarshal is the harness's own decoder of a block.
func vUnmarshal(b []byte) (shard uint64, pts [][]byte, ok bool) {
	if len(b) < 8 {
		return 0, nil, false
	}
	shard = binary.BigEndian.Uint64(b)
	b = b[8:]
	for len(b) > 0 {
		if len(b) < 4 {
			return shard, pts, false
		}
		n := int(binary.BigEndian.Uint32(b))
		b = b[4:]
		if n > len(b) {
			return shard, pts, false
		}
		pts = append(pts, b[:n])
		b = b[n:]
	}
	return shard, pts, true
}

// vRawBlk builds a block of exactly size bytes (size >= 20) carrying one opaque "point".
func vRawBlk(id int, shard uint64, size int) vBlk {
	if size < 20 {
		size = 20
	}
	p := make([]byte, size-12)
	binary.BigEndian.PutUint32(p, uint32(id))
	for i := 4; i < len(p); i++ {
		p[i] = byte('a' + (id+i)%23)
	}
	pts := [][]byte{p}
	return vBlk{ID: id, Pts: pts, Raw: vMarshal(shard, pts)}
}

// vPoint builds a real point whose binary encoding is padded to about n bytes.
func vPoint(id, k, n int) models.Point {
	pad := n - 47
	if pad < 0 {
		pad = 0
	}
	p, err := models.NewPoint("m", nil, models.Fields{"i": int64(id)*1000 + int64(k), "s": strings.Repeat("z", pad)}, time.Unix(0, int64(id)*1000+int64(k)))
	if err != nil {
		panic(err)
	}
	return p
}

// vPointsBlk builds the model block for a batch of real points.
func vPointsBlk(id int, shard uint64, points []models.Point) vBlk {
	var pts [][]byte
	for _, p := range points {
		pb, err := p.MarshalBinary()
		if err != nil {
			panic(err)
		}
		pts = append(pts, pb)
	}
	return vBlk{ID: id, Pts: pts, Raw: vMarshal(shard, pts)}
}

func vBlkIDs(l []vBlk) string {
	var s []string
	for _, b := range l {
		s = append(s, fmt.Sprintf("%d/%dB", b.ID, len(b.Raw)))
	}
	return "[" + strings.Join(s, " ") + "]"
}

func vRawIDs(l [][]byte) string {
	var s []string
	for _, b := range l {
		id := -1
		if _, pts, ok := vUnmarshal(b); ok && len(pts) > 0 && len(pts[0]) >= 4 {
			id = int(binary.BigEndian.Uint32(pts[0]))
			if id > 1<<20 {
				id = -2 // a real point, id not in the first bytes
			}
		}
		s = append(s, fmt.Sprintf("%d/%dB", id, len(b)))
	}
	return "[" + strings.Join(s, " ") + "]"
}

// ---------------------------------------------------------------------------------------------
// independent reader of the on-disk format

type vSegView struct {
	ID      uint64
	Path    string
	Size    int64
	Pos     int64
	Pending [][]byte // blocks from the head position to the end of the file
	Bad     string   // non-empty when the file does not follow the documented format
	MTime   time.Time
}

// vParseSegment decodes one segment file: blocks (8-byte length + body) followed by an 8-byte footer holding
// the offset of the head block.
func vParseSegment(f []byte) (pos int64, pending [][]byte, bad string) {
	n := int64(len(f))
	if n < footerSize {
		return 0, nil, fmt.Sprintf("file shorter than a footer (%d bytes)", n)
	}
	pos = int64(binary.BigEndian.Uint64(f[n-footerSize:]))
	end := n - footerSize
	if pos < 0 || pos > end {
		return pos, nil, fmt.Sprintf("head offset %d outside the block area [0,%d]", pos, end)
	}
	off := int64(0)
	onBoundary := pos == 0
	for off < end {
		if off+8 > end {
			return pos, pending, fmt.Sprintf("truncated length prefix at %d", off)
		}
		l := int64(binary.BigEndian.Uint64(f[off:]))
		if l < 0 || off+8+l > end {
			return pos, pending, fmt.Sprintf("block at %d has length %d, beyond the block area end %d", off, l, end)
		}
		if off == pos {
			onBoundary = true
		}
		if off >= pos {
			pending = append(pending, f[off+8:off+8+l])
		}
		off += 8 + l
	}
	if pos == end {
		onBoundary = true
	}
	if !onBoundary {
		return pos, pending, fmt.Sprintf("head offset %d is not a block boundary", pos)
	}
	return pos, pending, ""
}

// vReadQueueDir reads every segment file of a queue directory in id order.
func vReadQueueDir(dir string) ([]vSegView, error) {
	ents, err := os.ReadDir(dir)
	if err != nil {
		if os.IsNotExist(err) {
			return nil, nil
		}
		return nil, err
	}
	var out []vSegView
	for _, e := range ents {
		if e.IsDir() {
			continue
		}
		id, err := strconv.ParseUint(e.Name(), 10, 64)
		if err != nil {
			continue
		}
		p := filepath.Join(dir, e.Name())
		b, err := os.ReadFile(p)
		if err != nil {
			return nil, err
		}
		fi, err := os.Stat(p)
		if err != nil {
			return nil, err
		}
		v := vSegView{ID: id, Path: p, Size: int64(len(b)), MTime: fi.ModTime()}
		v.Pos, v.Pending, v.Bad = vParseSegment(b)
		out = append(out, v)
	}
	sort.Slice(out, func(i, j int) bool { return out[i].ID < out[j].ID })
	return out, nil
}

// vBufBlocks decodes the blocks sitting in a segment's in-memory write buffer.
func vBufBlocks(s *segment) [][]byte {
	s.mu.RLock()
	defer s.mu.RUnlock()
	if s.buf == nil {
		return nil
	}
	b := append([]byte(nil), s.buf.Bytes()...)
	var out [][]byte
	for len(b) >= 8 {
		l := int(binary.BigEndian.Uint64(b))
		if 8+l > len(b) {
			break
		}
		out = append(out, b[8:8+l])
		b = b[8+l:]
	}
	return out
}

// vQueueContent is what the queue holds according to the files plus the write buffers, in order.
func vQueueContent(q *queue) (content [][]byte, nseg int, buffered int, bad string, err error) {
	views, err := vReadQueueDir(q.dir)
	if err != nil {
		return nil, 0, 0, "", err
	}
	q.mu.RLock()
	segs := append(segments(nil), q.segments...)
	q.mu.RUnlock()
	byID := map[uint64]*segment{}
	for _, s := range segs {
		byID[s.id] = s
	}
	for _, v := range views {
		if v.Bad != "" && bad == "" {
			bad = fmt.Sprintf("segment %d: %s", v.ID, v.Bad)
		}
		content = append(content, v.Pending...)
		if s := byID[v.ID]; s != nil {
			bb := vBufBlocks(s)
			buffered += len(bb)
			content = append(content, bb...)
		}
	}
	return content, len(views), buffered, bad, nil
}

// vSetSegSize makes the queue behave as if the segment-size constant had always been seg. (Production
// never changes the size; queue.SetMaxSegmentSize, which may add a segment, is exercised as its own action.)
func vSetSegSize(q *queue, seg int64) {
	q.mu.Lock()
	defer q.mu.Unlock()
	q.maxSegmentSize = seg
	for _, s := range q.segments {
		s.SetMaxSegmentSize(seg)
	}
}

// vDrainCopy copies a queue directory and reads the copy through the queue's own API until it is empty:
// "the queue contents after reopen" as an observer of the API sees them.
func vDrainCopy(dir string, seg int64) (got [][]byte, err error) {
	if _, serr := os.Stat(dir); os.IsNotExist(serr) {
		return nil, nil
	}
	tmp, err := os.MkdirTemp("", "vdrain")
	if err != nil {
		return nil, err
	}
	defer os.RemoveAll(tmp)
	if err := vCopyTree(dir, tmp); err != nil {
		return nil, err
	}
	q, err := newQueue(tmp, 1<<40, 16)
	if err != nil {
		return nil, err
	}
	q.maxSegmentSize = seg
	if err := q.Open(); err != nil {
		return nil, fmt.Errorf("open: %v", err)
	}
	defer q.Close()
	for guard := 0; guard < 100000; guard++ {
		b, err := q.Current()
		if err == io.EOF {
			if len(q.segments) > 1 {
				// what NodeProcessor.SendWrite does on EOF: advance, which trims the exhausted head
				if err := q.Advance(); err != nil {
					return got, fmt.Errorf("advance at EOF: %v", err)
				}
				continue
			}
			return got, nil
		}
		if err != nil {
			return got, fmt.Errorf("current: %v", err)
		}
		got = append(got, append([]byte(nil), b...))
		if err := q.Advance(); err != nil {
			return got, fmt.Errorf("advance: %v", err)
		}
	}
	return got, fmt.Errorf("drain did not terminate")
}

// vConfig returns a Service configuration whose background loops never fire during a test.
func vConfig(dir string, maxSize int64, maxWrites int) Config {
	c := NewConfig()
	c.Enabled = true
	c.Dir = dir
	c.MaxSize = maxSize
	c.MaxWritesPending = maxWrites
	c.RetryInterval = toml.Duration(10 * time.Hour)
	c.RetryMaxInterval = toml.Duration(10 * time.Hour)
	c.PurgeInterval = toml.Duration(10 * time.Hour)
	c.MaxAge = toml.Duration(100 * time.Hour)
	c.RetryRateLimit = 0
	return c
}

func vEqualBlocks(a, b [][]byte) bool {
	if len(a) != len(b) {
		return false
	}
	for i := range a {
		if !bytes.Equal(a[i], b[i]) {
			return false
		}
	}
	return true
}

func vRaws(l []vBlk) [][]byte {
	out := make([][]byte, 0, len(l))
	for _, b := range l {
		out = append(out, b.Raw)
	}
	return out
}
