//go:build verif

package hh

// C19 / C04 - concurrent FIRST writers of a hinted-handoff queue that does not exist yet: exactly one
// queue (node processor) per owner/shard comes into being and every acknowledged point is delivered.

import (
	"bytes"
	"fmt"
	"os"
	"runtime"
	"sync"
	"sync/atomic"
	"testing"
	"time"

	"github.com/influxdata/influxdb/models"
	"github.com/influxdata/influxdb/toml"
	"pgregory.net/rapid"
	"verifkit"
)

func TestVerifC19HHFirstWriters(t *testing.T) {
	st := verifkit.For("C19", "TestVerifC19HHFirstWriters",
		"a real hh.Service with no queues yet: for each of 2..6 new (owner, shard) pairs, 2..10 writer goroutines lined up by a spin barrier call Service.WriteShard with one uniquely identifiable point each (the calls that create the queue race with each other); the real NodeProcessor loops deliver with a 1 ms retry interval to a recording shard writer. Oracle: every acknowledged point is delivered within the bound (30 s, otherwise the case is inconclusive only if the service still reports pending work), no point is delivered that was not written, and Empty() is not true while an acknowledged point is undelivered. non-trivial = at least 4 writers per queue; distinct = (queues, writers)")
	defer st.Flush()
	rapid.Check(t, func(rt *rapid.T) {
		root, err := os.MkdirTemp("", "c19hh")
		if err != nil {
			rt.Fatal(err)
		}
		defer os.RemoveAll(root)
		queues := rapid.IntRange(2, 6).Draw(rt, "queues")
		writers := rapid.IntRange(2, 10).Draw(rt, "writers")
		w := &vWriter{}
		cfg := vConfig(root, 1<<30, 64)
		cfg.RetryInterval = toml.Duration(time.Millisecond)
		cfg.RetryMaxInterval = toml.Duration(5 * time.Millisecond)
		svc := NewService(cfg, w)
		svc.MetaClient = &vMetaC{gone: map[uint64]bool{}}
		if err := svc.Open(); err != nil {
			rt.Fatalf("open: %v", err)
		}
		defer svc.Close()
		type key struct{ node, shard uint64 }
		var mu sync.Mutex
		acked := map[key][][]byte{}
		var wg sync.WaitGroup
		for q := 0; q < queues; q++ {
			k := key{node: uint64(2 + q), shard: uint64(100 + q)}
			var bar int64
			for i := 0; i < writers; i++ {
				wg.Add(1)
				go func(i int) {
					defer wg.Done()
					pts := []models.Point{vPoint(int(k.node)*100+i, int(k.shard), 40)}
					enc := []byte(pts[0].String())
					atomic.AddInt64(&bar, 1)
					for atomic.LoadInt64(&bar) < int64(writers) {
						runtime.Gosched()
					}
					if err := svc.WriteShard(k.shard, k.node, pts); err == nil {
						mu.Lock()
						acked[k] = append(acked[k], enc)
						mu.Unlock()
					}
				}(i)
			}
			wg.Wait()
		}
		// delivery
		delivered := map[key]map[string]int{}
		collect := func() {
			for _, c := range w.take() {
				k := key{c.Node, c.Shard}
				if delivered[k] == nil {
					delivered[k] = map[string]int{}
				}
				for _, p := range c.Pts {
					pt, err := models.NewPointFromBytes(p)
					if err != nil {
						rt.Fatalf("%s delivered bytes do not decode: %v", verifkit.Sig("hh-delivered-garbage"), err)
					}
					delivered[k][pt.String()]++
				}
			}
		}
		missing := func() (key, string, int) {
			n := 0
			var mk key
			var mp string
			for k, pts := range acked {
				for _, p := range pts {
					if delivered[k][string(bytes.TrimSpace(p))] == 0 {
						n++
						mk, mp = k, string(p)
					}
				}
			}
			return mk, mp, n
		}
		deadline := time.Now().Add(30 * time.Second)
		for {
			collect()
			mk, mp, n := missing()
			if n == 0 {
				break
			}
			if svc.Empty(mk.shard, mk.node) {
				// nothing pending according to the service, yet an acknowledged point was never delivered: look once
				// more (a delivery may have been in flight) before judging
				time.Sleep(50 * time.Millisecond)
				collect()
				if _, _, n2 := missing(); n2 > 0 && svc.Empty(mk.shard, mk.node) {
					rt.Fatalf("%s %d acknowledged hinted points were never delivered although the service reports the queue of owner %d / shard %d empty (e.g. %s); %d queues were created by %d concurrent first writers each", verifkit.Sig("hh-acknowledged-point-never-delivered"), n2, mk.node, mk.shard, mp, queues, writers)
				}
			}
			if time.Now().After(deadline) {
				rt.Fatalf("%s %d acknowledged hinted points were not delivered within 30 s (e.g. owner %d shard %d: %s); %d queues, %d concurrent first writers each", verifkit.Sig("hh-acknowledged-point-never-delivered"), n, mk.node, mk.shard, mp, queues, writers)
			}
			time.Sleep(5 * time.Millisecond)
		}
		for k, m := range delivered {
			for p := range m {
				found := false
				for _, a := range acked[k] {
					if string(bytes.TrimSpace(a)) == p {
						found = true
					}
				}
				if !found {
					rt.Fatalf("%s owner %d shard %d received a point nobody was acknowledged for: %s", verifkit.Sig("hh-delivered-unwritten-point"), k.node, k.shard, p)
				}
			}
		}
		st.Case(writers >= 4, fmt.Sprint(queues, writers), fmt.Sprintf("queues:%d", queues), fmt.Sprintf("writers>=4:%v", writers >= 4))
		if st.WantSample() {
			st.Sample(map[string]interface{}{"queues": queues, "writers_per_queue": writers})
		} else {
			st.Sample(nil)
		}
	})
}
