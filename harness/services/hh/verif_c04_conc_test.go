//go:build verif

package hh

// C04: (a) batches larger than one block are split without losing or reordering points (clause 4);
// (b) real-goroutine burst of writers racing with the send loop, Empty() and Close, run under -race.

import (
	"bytes"
	"fmt"
	"os"
	"path/filepath"
	"runtime"
	"strings"
	"sync"
	"sync/atomic"
	"testing"
	"time"

	"github.com/influxdata/influxdb/models"
	"github.com/influxdata/influxdb/toml"
	"pgregory.net/rapid"
	"verifkit"
)

func vBigPoint(id, k, strLen int) models.Point {
	p, err := models.NewPoint("big", models.NewTags(map[string]string{"k": fmt.Sprint(k)}),
		models.Fields{"i": int64(id)*1000 + int64(k), "s": strings.Repeat(string(rune('a'+k%26)), strLen)}, time.Unix(0, int64(id)*1000+int64(k)))
	if err != nil {
		panic(err)
	}
	return p
}

func TestVerifC04Split(t *testing.T) {
	st := verifkit.For("C04", "TestVerifC04Split",
		"rapid: Service.WriteShard with batches of 2-9 points carrying 1.2-5.5 MiB strings (marshalled size below, at and above the 10 MiB block limit) "+
			"mixed with small batches, deliveries and reopen, default 10 MiB segments; every block on disk and every delivery is decoded by the harness. "+
			"Non-trivial: at least one batch was split into >=2 blocks; distinct by batch shapes and action order")
	defer st.Flush()
	rapid.Check(t, func(rt *rapid.T) {
		root, err := os.MkdirTemp("", "c04split")
		if err != nil {
			rt.Fatal(err)
		}
		defer os.RemoveAll(root)
		w := &vWriter{}
		mc := &vMetaC{gone: map[uint64]bool{}}
		open := func() *Service {
			s := NewService(vConfig(root, 1<<32, 16), w)
			s.MetaClient = mc
			if err := s.Open(); err != nil {
				rt.Fatalf("open: %v", err)
			}
			return s
		}
		svc := open()
		defer func() { svc.Close() }()
		const node, shard = 2, 7
		var pend []vBlk // one entry per block on disk
		var canon []string
		classes := map[string]bool{}
		id := 0
		splits := 0
		proc := func() *NodeProcessor {
			svc.mu.RLock()
			defer svc.mu.RUnlock()
			p, _ := svc.processor(node, shard)
			return p
		}
		checkDisk := func(when string) {
			p := proc()
			if p == nil {
				if len(pend) > 0 {
					rt.Fatalf("%s no processor but %d blocks pending", verifkit.Sig("processor-missing"), len(pend))
				}
				return
			}
			content, _, _, bad, err := vQueueContent(p.queue)
			if err != nil || bad != "" {
				rt.Fatalf("%s %s: %v %s", verifkit.Sig("segment-malformed"), when, err, bad)
			}
			if !vEqualBlocks(content, vRaws(pend)) {
				rt.Fatalf("%s %s: disk holds %d blocks, model %d", verifkit.Sig("queue-content-differs"), when, len(content), len(pend))
			}
			if e := svc.Empty(shard, node); e != (len(pend) == 0) {
				rt.Fatalf("%s %s: Empty()=%v with %d blocks pending", verifkit.Sig("empty-wrong"), when, e, len(pend))
			}
		}
		write := func(points []models.Point, label string) {
			id++
			whole := vPointsBlk(id, shard, points)
			err := svc.WriteShard(shard, node, points)
			if err != nil {
				rt.Fatalf("%s WriteShard(%s): %v", verifkit.Sig("split-write-error"), label, err)
			}
			content, _, _, bad, rerr := vQueueContent(proc().queue)
			if rerr != nil || bad != "" {
				rt.Fatalf("%s after %s: %v %s", verifkit.Sig("segment-malformed"), label, rerr, bad)
			}
			if len(content) < len(pend) || !vEqualBlocks(content[:len(pend)], vRaws(pend)) {
				rt.Fatalf("%s after %s the older blocks changed", verifkit.Sig("queue-content-differs"), label)
			}
			fresh := content[len(pend):]
			var cat [][]byte
			for i, b := range fresh {
				if len(b) > defaultSegmentSize {
					rt.Fatalf("%s block %d of %s has %d bytes", verifkit.Sig("split-block-too-large"), i, label, len(b))
				}
				sh, pts, ok := vUnmarshal(b)
				if !ok || sh != shard {
					rt.Fatalf("%s block %d of %s does not decode (shard %d ok %v)", verifkit.Sig("split-block-undecodable"), i, label, sh, ok)
				}
				if len(pts) == 0 {
					rt.Fatalf("%s block %d of %s carries no point", verifkit.Sig("split-empty-block"), i, label)
				}
				cat = append(cat, pts...)
				pend = append(pend, vBlk{ID: id*100 + i, Pts: pts, Raw: b})
			}
			if !vEqualBlocks(cat, whole.Pts) {
				sig := "split-loses-or-reorders-points"
				rt.Fatalf("%s %s: %d points written, blocks carry %d points (first difference at %d)", verifkit.Sig(sig), label, len(whole.Pts), len(cat), vFirstDiff(cat, whole.Pts))
			}
			if len(whole.Raw) <= defaultSegmentSize && len(fresh) != 1 {
				rt.Fatalf("%s %s fits one block (%d bytes) but was stored as %d blocks", verifkit.Sig("split-unneeded"), label, len(whole.Raw), len(fresh))
			}
			if len(fresh) > 1 {
				splits++
				classes[fmt.Sprintf("split-into-%d-blocks", len(fresh))] = true
			}
			canon = append(canon, fmt.Sprintf("%s->%d", label, len(fresh)))
		}
		steps := rapid.IntRange(2, 6).Draw(rt, "steps")
		bigs := 0
		for s := 0; s < steps; s++ {
			k := rapid.IntRange(0, 9).Draw(rt, "kind")
			switch {
			case k < 4 && bigs < 2:
				bigs++
				n := rapid.IntRange(2, 9).Draw(rt, "n")
				var pts []models.Point
				var shape []string
				for i := 0; i < n; i++ {
					sl := rapid.SampledFrom([]int{1258291, 1310720, 2621440, 3495253, 5767168, 100}).Draw(rt, "strLen")
					pts = append(pts, vBigPoint(id+1, i, sl))
					shape = append(shape, fmt.Sprint(sl>>18))
				}
				write(pts, "big["+strings.Join(shape, ".")+"]")
				classes["big-batch"] = true
			case k < 6:
				n := rapid.IntRange(1, 3).Draw(rt, "nSmall")
				var pts []models.Point
				for i := 0; i < n; i++ {
					pts = append(pts, vPoint(id+1, i, 60))
				}
				write(pts, fmt.Sprintf("small%d", n))
			case k < 9:
				n := rapid.IntRange(1, 3).Draw(rt, "sends")
				for ; n > 0 && proc() != nil; n-- {
					w.take()
					sent, err := proc().SendWrite()
					calls := w.take()
					if len(pend) == 0 {
						if len(calls) != 0 {
							rt.Fatalf("%s delivery from an empty queue", verifkit.Sig("delivery-from-empty-queue"))
						}
						break
					}
					if err != nil && len(calls) == 0 {
						// exhausted head segment: trimmed by this call, data comes with the next one
						sent, err = proc().SendWrite()
						calls = w.take()
					}
					if err != nil || len(calls) != 1 || !vEqualBlocks(calls[0].Pts, pend[0].Pts) || sent != len(pend[0].Raw) {
						rt.Fatalf("%s SendWrite -> %d, %v, %d calls; head block has %d points / %d bytes", verifkit.Sig("delivered-wrong-block"), sent, err, len(calls), len(pend[0].Pts), len(pend[0].Raw))
					}
					pend = pend[1:]
					canon = append(canon, "send")
				}
			default:
				if err := svc.Close(); err != nil {
					rt.Fatalf("%s %v", verifkit.Sig("close-error"), err)
				}
				svc = open()
				classes["reopen"] = true
				canon = append(canon, "reopen")
			}
			checkDisk(fmt.Sprintf("step %d", s))
		}
		// drain
		for guard := 0; len(pend) > 0 && guard < 100; guard++ {
			w.take()
			_, err := proc().SendWrite()
			calls := w.take()
			if err != nil && len(calls) == 0 {
				continue
			}
			if len(calls) != 1 || !vEqualBlocks(calls[0].Pts, pend[0].Pts) {
				rt.Fatalf("%s final drain delivered a wrong block", verifkit.Sig("delivered-wrong-block"))
			}
			pend = pend[1:]
		}
		if len(pend) > 0 {
			rt.Fatalf("%s %d blocks never delivered", verifkit.Sig("pending-block-not-delivered"), len(pend))
		}
		checkDisk("end")
		var cl []string
		for c := range classes {
			cl = append(cl, c)
		}
		st.Case(splits > 0, strings.Join(canon, ","), cl...)
		if st.WantSample() {
			st.Sample(canon)
		} else {
			st.Sample(nil)
		}
	})
}

func vFirstDiff(a, b [][]byte) int {
	for i := 0; i < len(a) && i < len(b); i++ {
		if !bytes.Equal(a[i], b[i]) {
			return i
		}
	}
	if len(a) < len(b) {
		return len(a)
	}
	return len(b)
}

// TestVerifC04Race: real goroutines. A burst of writers (more than ten inside Append at once), the processor's
// own send loop, Empty() polling and a Close in the middle of the burst. Whatever was acknowledged must be delivered
// exactly once (before the close or after the reopen), per writer in the order written. Built with -race.
func TestVerifC04Race(t *testing.T) {
	st := verifkit.For("C04", "TestVerifC04Race",
		"rapid, -race: 12-28 writer goroutines x 3-8 Service.WriteShard calls on one queue (segment 256-1024 B, 64 writer tokens), the real "+
			"NodeProcessor.run loop delivering with 1 ms retry interval and scripted retryable failures, Empty() polled concurrently, Close after a drawn "+
			"number of acknowledgements, then reopen and drain. Non-trivial: >=10 tokens were observed out at once and Close interrupted the burst")
	defer st.Flush()
	rapid.Check(t, func(rt *rapid.T) {
		root, err := os.MkdirTemp("", "c04race")
		if err != nil {
			rt.Fatal(err)
		}
		defer os.RemoveAll(root)
		const node, shard = 2, 7
		os.MkdirAll(filepath.Join(root, "2", "7"), 0700)
		seg := int64(rapid.SampledFrom([]int{256, 512, 1024}).Draw(rt, "seg"))
		writers := rapid.IntRange(12, 28).Draw(rt, "writers")
		per := rapid.IntRange(3, 8).Draw(rt, "perWriter")
		closeAfter := rapid.IntRange(1, writers*per).Draw(rt, "closeAfter")
		failEvery := rapid.SampledFrom([]int{0, 0, 3, 7}).Draw(rt, "failEvery")
		sendLoop := rapid.Bool().Draw(rt, "sendLoop")

		w := &vWriter{}
		var calls int64
		w.outcome = func(uint64, uint64) error {
			n := atomic.AddInt64(&calls, 1)
			if failEvery > 0 && n%int64(failEvery) == 0 {
				return fmt.Errorf("connection reset by peer")
			}
			return nil
		}
		mc := &vMetaC{gone: map[uint64]bool{}}
		cfg := vConfig(root, 1<<30, 64)
		if sendLoop {
			cfg.RetryInterval = toml.Duration(time.Millisecond)
			cfg.RetryMaxInterval = toml.Duration(5 * time.Millisecond)
		}
		svc := NewService(cfg, w)
		svc.MetaClient = mc
		if err := svc.Open(); err != nil {
			rt.Fatalf("open: %v", err)
		}
		np, _ := svc.processor(node, shard)
		vSetSegSize(np.queue, seg)
		lim := np.queue.limiter

		type ack struct {
			w, k int
			pts  [][]byte
		}
		var mu sync.Mutex
		var acked []ack
		var nAcked int64
		var maxOut int64
		var refused int64
		stop := make(chan struct{})
		var wg, rg sync.WaitGroup
		rg.Add(1)
		go func() { // Empty() poller, also samples how many writers are inside Append
			defer rg.Done()
			for {
				select {
				case <-stop:
					return
				default:
				}
				svc.Empty(shard, node)
				if n := int64(len(lim)); n > atomic.LoadInt64(&maxOut) {
					atomic.StoreInt64(&maxOut, n)
				}
				runtime.Gosched()
			}
		}()
		start := make(chan struct{})
		for i := 0; i < writers; i++ {
			wg.Add(1)
			go func(i int) {
				defer wg.Done()
				<-start
				for k := 0; k < per; k++ {
					pts := []models.Point{vPoint(i+1, k, 70)}
					blk := vPointsBlk(0, shard, pts)
					if err := svc.WriteShard(shard, node, pts); err != nil {
						atomic.AddInt64(&refused, 1)
						if err == ErrQueueBlocked {
							continue
						}
						return // closed
					}
					mu.Lock()
					acked = append(acked, ack{i, k, blk.Pts})
					mu.Unlock()
					atomic.AddInt64(&nAcked, 1)
				}
			}(i)
		}
		done := make(chan struct{})
		go func() { wg.Wait(); close(done) }()
		close(start)
		var closeErr error
		finished := verifkit.Watch(60*time.Second, func() {
			for atomic.LoadInt64(&nAcked) < int64(closeAfter) {
				select {
				case <-done:
					goto closeNow
				default:
					runtime.Gosched()
				}
			}
		closeNow:
			closeErr = svc.Close()
			<-done
		})
		close(stop)
		rg.Wait()
		if !finished {
			rt.Fatalf("%s burst + close did not finish in 60 s", verifkit.Sig("race-case-hang"))
		}
		if closeErr != nil {
			rt.Fatalf("%s Service.Close: %v", verifkit.Sig("close-error"), closeErr)
		}
		interrupted := atomic.LoadInt64(&nAcked) < int64(writers*per)
		first := w.take()
		// reopen with an inert loop and drain by hand
		w.outcome = nil
		svc2 := NewService(vConfig(root, 1<<30, 64), w)
		svc2.MetaClient = mc
		if err := svc2.Open(); err != nil {
			rt.Fatalf("%s reopen: %v", verifkit.Sig("reopen-failed"), err)
		}
		defer svc2.Close()
		np2, ok := svc2.processor(node, shard)
		if !ok {
			rt.Fatalf("%s no processor after reopen", verifkit.Sig("processor-missing"))
		}
		vSetSegSize(np2.queue, seg)
		eofs := 0
		for guard := 0; guard < 100000 && eofs < 3; guard++ {
			if _, err := np2.SendWrite(); err != nil {
				eofs++
			} else {
				eofs = 0
			}
		}
		if !svc2.Empty(shard, node) {
			rt.Fatalf("%s queue not empty after draining", verifkit.Sig("empty-false-while-nothing-pending"))
		}
		second := w.take()
		// stored deliveries: before the close only those the script accepted
		var delivered [][]byte
		n := int64(0)
		for _, c := range first {
			n++
			if failEvery > 0 && n%int64(failEvery) == 0 {
				continue
			}
			for _, p := range c.Pts {
				delivered = append(delivered, p)
			}
		}
		for _, c := range second {
			for _, p := range c.Pts {
				delivered = append(delivered, p)
			}
		}
		pos := map[string][]int{}
		for i, p := range delivered {
			pos[string(p)] = append(pos[string(p)], i)
		}
		last := map[int]int{}
		known := map[string]bool{}
		// per-writer order: acked is appended under a mutex after each return, so per writer it is in k order
		for _, a := range acked {
			key := string(a.pts[0])
			known[key] = true
			ps := pos[key]
			if len(ps) == 0 {
				rt.Fatalf("%s block %d of writer %d was acknowledged but never delivered (acked %d, delivered %d, close interrupted=%v, max writers inside Append %d)", verifkit.Sig("race-lost-acked-block"), a.k, a.w, len(acked), len(delivered), interrupted, atomic.LoadInt64(&maxOut))
			}
			if len(ps) > 1 {
				rt.Fatalf("%s block %d of writer %d was stored %d times without a crash", verifkit.Sig("race-duplicate-delivery"), a.k, a.w, len(ps))
			}
			if l, ok := last[a.w]; ok && ps[0] < l {
				rt.Fatalf("%s writer %d: block %d delivered before an earlier block", verifkit.Sig("race-reordered"), a.w, a.k)
			}
			last[a.w] = ps[0]
		}
		for k := range pos {
			if !known[k] {
				rt.Fatalf("%s a block was delivered whose append had not been acknowledged", verifkit.Sig("race-unacked-delivered"))
			}
		}
		mo := atomic.LoadInt64(&maxOut)
		cl := []string{}
		if mo >= 10 {
			cl = append(cl, "burst>=10-writers-inside-append")
		}
		if interrupted {
			cl = append(cl, "close-interrupted-burst")
		}
		if sendLoop {
			cl = append(cl, "send-loop-running")
		}
		if len(second) > 0 {
			cl = append(cl, "blocks-left-for-after-reopen")
		}
		if failEvery > 0 {
			cl = append(cl, "retryable-failures")
		}
		st.Case(mo >= 10 && interrupted, fmt.Sprint(seg, writers, per, closeAfter, failEvery, sendLoop), cl...)
		if st.WantSample() {
			st.Sample(map[string]interface{}{"writers": writers, "per": per, "closeAfter": closeAfter, "acked": len(acked), "delivered_before_close": len(first), "after_reopen": len(second), "max_tokens_out": mo})
		} else {
			st.Sample(nil)
		}
	})
}
