//go:build verif

package httpd

// C03 at the HTTP boundary: the consistency level a write request asks for - "one" when the request names
// none, as documented - is the level the points writer is called with.

import (
	"fmt"
	"net/http"
	"net/http/httptest"
	"strings"
	"sync"
	"testing"

	"github.com/influxdata/influxdb/models"
	"github.com/influxdata/influxdb/services/meta"
	"pgregory.net/rapid"
	"verifkit"
)

type vLevelRecorder struct {
	mu     sync.Mutex
	levels []models.ConsistencyLevel
}

func (p *vLevelRecorder) WritePoints(database, retentionPolicy string, level models.ConsistencyLevel, user meta.User, points []models.Point) error {
	p.mu.Lock()
	p.levels = append(p.levels, level)
	p.mu.Unlock()
	return nil
}

func TestVerifC03HTTPConsistencyParam(t *testing.T) {
	st := verifkit.For("C03", "TestVerifC03HTTPConsistencyParam",
		"write requests to /write and /api/v2/write (real httpd.Handler, recording points writer) with the consistency parameter absent, empty, or one of any/one/quorum/all in drawn letter case, in drawn positions among the other query parameters; oracle: the points writer is called exactly once with the level asked for, and with level one when none is given (the documented default); non-trivial = the parameter is absent or empty; distinct = (endpoint, value)")
	defer st.Flush()
	b, err := vNewAuthBed()
	if err != nil {
		t.Fatalf("VERIF-INCONCLUSIVE harness: %v", err)
	}
	defer b.close()
	d := b.d.Clone()
	if err := d.CreateDatabase("db0"); err != nil {
		t.Fatalf("VERIF-INCONCLUSIVE harness: %v", err)
	}
	d.Index++
	if err := b.install(d); err != nil {
		t.Fatalf("VERIF-INCONCLUSIVE harness: %v", err)
	}
	b.h.Config.AuthEnabled = false
	rec := &vLevelRecorder{}
	b.h.PointsWriter = rec
	want := map[string]models.ConsistencyLevel{"any": models.ConsistencyLevelAny, "one": models.ConsistencyLevelOne, "quorum": models.ConsistencyLevelQuorum, "all": models.ConsistencyLevelAll}
	rapid.Check(t, func(rt *rapid.T) {
		endpoint := rapid.SampledFrom([]string{"/write", "/api/v2/write"}).Draw(rt, "endpoint")
		val := rapid.SampledFrom([]string{"<absent>", "<absent>", "", "any", "one", "quorum", "all"}).Draw(rt, "consistency")
		expect := models.ConsistencyLevelOne
		sent := val
		if l, ok := want[val]; ok {
			expect = l
			if rapid.Bool().Draw(rt, "upper") {
				sent = strings.ToUpper(val)
			}
		}
		params := []string{"precision=ns"}
		if endpoint == "/write" {
			params = append(params, "db=db0")
		} else {
			params = append(params, "bucket=db0/")
		}
		if val != "<absent>" {
			params = append(params, "consistency="+sent)
		}
		// drawn order
		for i := len(params) - 1; i > 0; i-- {
			j := rapid.IntRange(0, i).Draw(rt, "swap")
			params[i], params[j] = params[j], params[i]
		}
		req := httptest.NewRequest("POST", endpoint+"?"+strings.Join(params, "&"), strings.NewReader("cpu,host=a value=1 1000\n"))
		w := httptest.NewRecorder()
		rec.mu.Lock()
		rec.levels = nil
		rec.mu.Unlock()
		b.h.ServeHTTP(w, req)
		rec.mu.Lock()
		got := append([]models.ConsistencyLevel(nil), rec.levels...)
		rec.mu.Unlock()
		if w.Code != http.StatusNoContent {
			rt.Fatalf("%s POST %s?%s answered %d %s", verifkit.Sig("http-write-refused"), endpoint, strings.Join(params, "&"), w.Code, w.Body.String())
		}
		if len(got) != 1 || got[0] != expect {
			rt.Fatalf("%s POST %s?%s: the points writer was called with consistency levels %v, the request asks for %v (a request that names no level asks for the documented default, one)", verifkit.Sig("http-write-runs-at-another-consistency-level"), endpoint, strings.Join(params, "&"), got, expect)
		}
		st.Case(val == "<absent>" || val == "", fmt.Sprint(endpoint, val), "endpoint:"+endpoint, "consistency:"+val)
		if st.WantSample() {
			st.Sample(map[string]interface{}{"request": endpoint + "?" + strings.Join(params, "&"), "level_passed": fmt.Sprint(got)})
		} else {
			st.Sample(nil)
		}
	})
}
