//go:build verif

package httpd

// C16 - independent privilege model, statement table and statement generator.
//
// THIS FILE IS KEPT BYTE-IDENTICAL (except for the package clause) IN
//   harness/services/meta/verif_c16_model_test.go   and
//   harness/services/httpd/verif_c16_model_test.go
// (test code cannot be imported across packages). Edit the meta copy and regenerate the other:
//   sed 's/^package meta$/package httpd/' harness/services/meta/verif_c16_model_test.go > harness/services/httpd/verif_c16_model_test.go
//
// Nothing in this file calls Statement.RequiredPrivileges, UserInfo.AuthorizeDatabase or any other
// authorisation code of the repository: the table below is a transcription of the InfluxQL
// documentation ("Authentication and authorization", "Explore your schema", "Manage your database",
// "Continuous queries") and of the semantics of each statement (which databases it reads, which it
// changes).

import (
	"fmt"
	"reflect"
	"sort"
	"strings"

	"github.com/influxdata/influxql"
	"pgregory.net/rapid"
)

type vPriv int

const (
	vNone vPriv = iota
	vRead
	vWrite
	vAll
)

func (p vPriv) String() string { return [...]string{"NONE", "READ", "WRITE", "ALL"}[p] }

type vC16User struct {
	Pw     string
	Admin  bool
	Grants map[string]vPriv
}

// vC16Model is the reference state: user -> {current password, admin, db -> privilege}, plus the
// set of databases (grants can only be given on existing databases; dropping a database revokes).
type vC16Model struct {
	Users map[string]*vC16User
	DBs   map[string]bool
	// every password a user name ever had and no longer has (for classification and for choosing
	// "previous" credentials); survives drop/re-create of the name
	Old map[string][]string
}

func vC16NewModel() *vC16Model {
	return &vC16Model{Users: map[string]*vC16User{}, DBs: map[string]bool{}, Old: map[string][]string{}}
}

func (m *vC16Model) hasAdmin() bool {
	for _, u := range m.Users {
		if u.Admin {
			return true
		}
	}
	return false
}

// authOK: authentication succeeds <=> the user exists and the password is the current one.
func (m *vC16Model) authOK(name, pw string) bool {
	u := m.Users[name]
	return u != nil && u.Pw == pw
}

// covers: the user's grant on db covers privilege p (p is vRead or vWrite). ALL = READ + WRITE.
// An administrator has READ and WRITE on every database.
func (m *vC16Model) covers(name, db string, p vPriv) bool {
	u := m.Users[name]
	if u == nil {
		return false
	}
	if u.Admin {
		return true
	}
	if db == "" {
		return false // no database in scope: nothing a non-admin could hold a grant on
	}
	g := u.Grants[db]
	return g == vAll || g == p
}

func (m *vC16Model) wasOld(name, pw string) bool {
	for _, o := range m.Old[name] {
		if o == pw {
			return true
		}
	}
	return false
}

func (m *vC16Model) retire(name, pw string) {
	if !m.wasOld(name, pw) {
		m.Old[name] = append(m.Old[name], pw)
	}
}

// model-side transitions; each returns false when the metadata command is expected to be refused
func (m *vC16Model) createUser(name, pw string, admin bool) bool {
	if name == "" || m.Users[name] != nil {
		return false
	}
	m.Users[name] = &vC16User{Pw: pw, Admin: admin, Grants: map[string]vPriv{}}
	return true
}
func (m *vC16Model) dropUser(name string) bool {
	u := m.Users[name]
	if u == nil {
		return false
	}
	m.retire(name, u.Pw)
	delete(m.Users, name)
	return true
}
func (m *vC16Model) setPassword(name, pw string) bool {
	u := m.Users[name]
	if u == nil {
		return false
	}
	if u.Pw != pw {
		m.retire(name, u.Pw)
	}
	u.Pw = pw
	return true
}
func (m *vC16Model) setPriv(name, db string, p vPriv) bool {
	u := m.Users[name]
	if u == nil || !m.DBs[db] {
		return false
	}
	u.Grants[db] = p
	return true
}
func (m *vC16Model) setAdmin(name string, a bool) bool {
	u := m.Users[name]
	if u == nil {
		return false
	}
	u.Admin = a
	return true
}
func (m *vC16Model) createDB(db string) bool { m.DBs[db] = true; return true }
func (m *vC16Model) dropDB(db string) bool {
	delete(m.DBs, db)
	for _, u := range m.Users {
		delete(u.Grants, db)
	}
	return true
}

func (m *vC16Model) String() string {
	var names []string
	for n := range m.Users {
		names = append(names, n)
	}
	sort.Strings(names)
	var b strings.Builder
	for _, n := range names {
		u := m.Users[n]
		var dbs []string
		for d := range u.Grants {
			dbs = append(dbs, d)
		}
		sort.Strings(dbs)
		fmt.Fprintf(&b, "%s{pw=%s admin=%v", n, u.Pw, u.Admin)
		for _, d := range dbs {
			fmt.Fprintf(&b, " %s:%s", d, u.Grants[d])
		}
		b.WriteString("} ")
	}
	var dbs []string
	for d := range m.DBs {
		dbs = append(dbs, d)
	}
	sort.Strings(dbs)
	fmt.Fprintf(&b, "dbs=%v", dbs)
	return b.String()
}

// ---------------------------------------------------------------------------------------------
// statement kind -> required privilege

type vNeed struct {
	DB string
	P  vPriv
}

type vReq struct {
	Admin bool    // administrators only
	Needs []vNeed // otherwise: every listed (database, READ|WRITE) must be covered
}

// vC16Classes is the table "statement kind -> class". Classes:
//   admin    cluster, user, database and retention-policy administration: administrators only
//   none     any authenticated user (the result is filtered per database)
//   read     reads schema or data of the database(s) it names -> READ there
//   write    removes data or definitions inside one database -> WRITE there
//   ctx      server-wide listing that is evaluated in the context of the request's database -> READ there
//   select   READ on every database a source (at any sub-query depth) lives in, WRITE on the INTO target
//   cq       stored SELECT ... INTO: READ on the database it is defined on and on every source database,
//            WRITE on the target database
//   part     not a statement (component of one)
// The documentation lists DROP SERIES / DELETE / DROP RETENTION POLICY / DROP CONTINUOUS QUERY among
// the statements administrators may run but does not say they are reserved to them; they change one
// database only, so the table asks for WRITE on that database (the weaker reading: nothing that the
// table allows is forbidden by the documentation for a user holding WRITE).
var vC16Classes = map[string]string{
	"CreateDatabaseStatement":             "admin",
	"DropDatabaseStatement":               "admin",
	"CreateUserStatement":                 "admin",
	"DropUserStatement":                   "admin",
	"SetPasswordUserStatement":            "admin",
	"GrantStatement":                      "admin",
	"GrantAdminStatement":                 "admin",
	"RevokeStatement":                     "admin",
	"RevokeAdminStatement":                "admin",
	"ShowUsersStatement":                  "admin",
	"ShowGrantsForUserStatement":          "admin",
	"CreateRetentionPolicyStatement":      "admin",
	"AlterRetentionPolicyStatement":       "admin",
	"DropMeasurementStatement":            "admin",
	"DropShardStatement":                  "admin",
	"ShowShardsStatement":                 "admin",
	"ShowShardGroupsStatement":            "admin",
	"ShowStatsStatement":                  "admin",
	"ShowDiagnosticsStatement":            "admin",
	"CreateSubscriptionStatement":         "admin",
	"DropSubscriptionStatement":           "admin",
	"ShowSubscriptionsStatement":          "admin",
	"KillQueryStatement":                  "admin",
	"ShowDatabasesStatement":              "none",
	"ShowSeriesStatement":                 "read",
	"ShowMeasurementsStatement":           "read",
	"ShowTagKeysStatement":                "read",
	"ShowTagValuesStatement":              "read",
	"ShowFieldKeysStatement":              "read",
	"ShowRetentionPoliciesStatement":      "read",
	"ShowSeriesCardinalityStatement":      "read",
	"ShowMeasurementCardinalityStatement": "read",
	"ShowTagKeyCardinalityStatement":      "read",
	"ShowTagValuesCardinalityStatement":   "read",
	"ShowFieldKeyCardinalityStatement":    "read",
	"ShowQueriesStatement":                "ctx",
	"ShowServersStatement":                "ctx",
	"ShowContinuousQueriesStatement":      "ctx",
	"DropRetentionPolicyStatement":        "write",
	"DropContinuousQueryStatement":        "write",
	"DropSeriesStatement":                 "write",
	"DeleteSeriesStatement":               "write",
	"DeleteStatement":                     "write",
	"SelectStatement":                     "select",
	"ExplainStatement":                    "select",
	"CreateContinuousQueryStatement":      "cq",
	"Sources":                             "part",
}

func vC16TypeName(s interface{}) string {
	t := reflect.TypeOf(s)
	for t.Kind() == reflect.Ptr {
		t = t.Elem()
	}
	return t.Name()
}

func vOr(a, b string) string {
	if a != "" {
		return a
	}
	return b
}

// vSourceDBs: databases read by a FROM clause; eff is the database an unqualified source lives in.
func vSourceDBs(srcs influxql.Sources, eff string, out map[string]bool) {
	for _, s := range srcs {
		switch s := s.(type) {
		case *influxql.Measurement:
			out[vOr(s.Database, eff)] = true
		case *influxql.SubQuery:
			vSourceDBs(s.Statement.Sources, eff, out)
		}
	}
}

func vSortedNeeds(read, write map[string]bool) []vNeed {
	var n []vNeed
	var ks []string
	for k := range read {
		ks = append(ks, k)
	}
	sort.Strings(ks)
	for _, k := range ks {
		n = append(n, vNeed{k, vRead})
	}
	ks = ks[:0]
	for k := range write {
		ks = append(ks, k)
	}
	sort.Strings(ks)
	for _, k := range ks {
		n = append(n, vNeed{k, vWrite})
	}
	return n
}

// vShowNeeds: a SHOW ... [ON db] [FROM sources] statement reads the databases its sources live in;
// an unqualified source, or no source at all, means the ON database (or the request's database).
func vShowNeeds(on string, srcs influxql.Sources, def string) []vNeed {
	eff := vOr(on, def)
	r := map[string]bool{}
	if len(srcs) == 0 {
		r[eff] = true
	} else {
		vSourceDBs(srcs, eff, r)
	}
	return vSortedNeeds(r, nil)
}

func vSelectNeeds(s *influxql.SelectStatement, eff string) []vNeed {
	r, w := map[string]bool{}, map[string]bool{}
	vSourceDBs(s.Sources, eff, r)
	if s.Target != nil && s.Target.Measurement != nil {
		w[vOr(s.Target.Measurement.Database, eff)] = true
	}
	return vSortedNeeds(r, w)
}

// vC16Required returns what the model demands for one statement executed with default database def.
// allDBs is only used by SHOW MEASUREMENTS ON *.* (every existing database is read).
// ok=false: the statement kind is not in the table.
func vC16Required(stmt influxql.Statement, def string, allDBs []string) (req vReq, ok bool) {
	name := vC16TypeName(stmt)
	class, ok := vC16Classes[name]
	if !ok {
		return vReq{}, false
	}
	switch class {
	case "admin":
		return vReq{Admin: true}, true
	case "none":
		return vReq{}, true
	case "ctx":
		return vReq{Needs: []vNeed{{def, vRead}}}, true
	}
	switch s := stmt.(type) {
	case *influxql.ShowSeriesStatement:
		return vReq{Needs: vShowNeeds(s.Database, s.Sources, def)}, true
	case *influxql.ShowMeasurementsStatement:
		// SHOW MEASUREMENTS / TAG KEYS / TAG VALUES read the ON (or request) database only: a database
		// qualifier on a source is ignored at execution (confirmed on a real node by
		// TestVerifC16KFExecution: with "FROM db2..m" even an administrator gets db0's answer).
		// The wildcard form ON *.* is never generated (it returned no rows for any user on a real node).
		if s.WildcardDatabase {
			r := map[string]bool{}
			for _, d := range allDBs {
				r[d] = true
			}
			return vReq{Needs: vSortedNeeds(r, nil)}, true
		}
		return vReq{Needs: vShowNeeds(s.Database, nil, def)}, true
	case *influxql.ShowTagKeysStatement:
		return vReq{Needs: vShowNeeds(s.Database, nil, def)}, true
	case *influxql.ShowTagValuesStatement:
		return vReq{Needs: vShowNeeds(s.Database, nil, def)}, true
	case *influxql.ShowFieldKeysStatement:
		return vReq{Needs: vShowNeeds(s.Database, s.Sources, def)}, true
	case *influxql.ShowRetentionPoliciesStatement:
		return vReq{Needs: vShowNeeds(s.Database, nil, def)}, true
	case *influxql.ShowSeriesCardinalityStatement:
		return vReq{Needs: vShowNeeds(s.Database, s.Sources, def)}, true
	case *influxql.ShowMeasurementCardinalityStatement:
		return vReq{Needs: vShowNeeds(s.Database, s.Sources, def)}, true
	case *influxql.ShowTagKeyCardinalityStatement:
		return vReq{Needs: vShowNeeds(s.Database, s.Sources, def)}, true
	case *influxql.ShowTagValuesCardinalityStatement:
		return vReq{Needs: vShowNeeds(s.Database, s.Sources, def)}, true
	case *influxql.ShowFieldKeyCardinalityStatement:
		return vReq{Needs: vShowNeeds(s.Database, s.Sources, def)}, true
	case *influxql.DropRetentionPolicyStatement:
		return vReq{Needs: []vNeed{{vOr(s.Database, def), vWrite}}}, true
	case *influxql.DropContinuousQueryStatement:
		return vReq{Needs: []vNeed{{vOr(s.Database, def), vWrite}}}, true
	case *influxql.DropSeriesStatement, *influxql.DeleteSeriesStatement, *influxql.DeleteStatement:
		// the grammar does not allow a database in DROP SERIES / DELETE: they act on the request's database
		return vReq{Needs: []vNeed{{def, vWrite}}}, true
	case *influxql.SelectStatement:
		return vReq{Needs: vSelectNeeds(s, def)}, true
	case *influxql.ExplainStatement:
		return vReq{Needs: vSelectNeeds(s.Statement, def)}, true
	case *influxql.CreateContinuousQueryStatement:
		eff := vOr(s.Database, def)
		n := vSelectNeeds(s.Source, eff)
		have := false
		for _, x := range n {
			if x.DB == eff && x.P == vRead {
				have = true
			}
		}
		if !have {
			n = append([]vNeed{{eff, vRead}}, n...)
		}
		return vReq{Needs: n}, true
	}
	return vReq{}, false
}

// allows: may `user` (already authenticated; "" = nobody) run stmt?
func (m *vC16Model) allowsStmt(user string, stmt influxql.Statement, def string) (bool, string) {
	u := m.Users[user]
	if u == nil {
		return false, "no authenticated user"
	}
	if u.Admin {
		return true, ""
	}
	var dbs []string
	for d := range m.DBs {
		dbs = append(dbs, d)
	}
	req, ok := vC16Required(stmt, def, dbs)
	if !ok {
		return false, "statement kind not in table"
	}
	if req.Admin {
		return false, "needs admin"
	}
	for _, n := range req.Needs {
		if !m.covers(user, n.DB, n.P) {
			return false, fmt.Sprintf("needs %s on %q", n.P, n.DB)
		}
	}
	return true, ""
}

// allowsQuery: the request (all statements) may run for `user` ("" = no authenticated user).
// Before any user exists only the creation of the first administrator is allowed.
func (m *vC16Model) allowsQuery(user string, stmts []influxql.Statement, def string) (bool, string) {
	if len(m.Users) == 0 {
		if len(stmts) == 0 {
			return false, "empty request at zero users"
		}
		if len(stmts) != 1 {
			return false, "zero users: the request is more than the creation of the first administrator"
		}
		cu, ok := stmts[0].(*influxql.CreateUserStatement)
		if !ok || !cu.Admin {
			return false, "zero users: the statement is not CREATE USER ... WITH ALL PRIVILEGES"
		}
		return true, ""
	}
	for i, s := range stmts {
		if ok, why := m.allowsStmt(user, s, def); !ok {
			return false, fmt.Sprintf("statement %d (%s): %s", i, s.String(), why)
		}
	}
	return true, ""
}

func (m *vC16Model) allowsWrite(user, db string) bool { return m.covers(user, db, vWrite) }

// ---------------------------------------------------------------------------------------------
// statement generator

var vC16DBPool = []string{"db0", "db1", "db2"}
var vC16UserPool = []string{"u0", "u1", "u2", "u3"}
var vC16PwPool = []string{"pw-a", "pw-b", "pw-c", "pw-d"}

type vC16Stmt struct {
	Kind string // influxql type name
	Text string
}

// vSigZeroUsersMulti is the signature of a repaired defect (directed regression tests); the others are
// known-finding shapes, never produced by the main generator (see the KF tests)
const (
	vSigZeroUsersMulti = "first-admin-request-carries-extra-statements"
	vSigCardOn         = "show-cardinality-on-database-unchecked"
	vSigShowFrom       = "show-from-other-database-unchecked"
	vSigCQ             = "create-cq-select-privileges-unchecked"
)

type vExcluder interface{ Exclude(sig string) }

func vDrawDB(rt *rapid.T, label string) string { return rapid.SampledFrom(vC16DBPool).Draw(rt, label) }

// vOptOn: "" or " ON <db>"
func vOptOn(rt *rapid.T) (clause, db string) {
	if rapid.Bool().Draw(rt, "explicitOn") {
		db = vDrawDB(rt, "onDB")
		return " ON " + db, db
	}
	return "", ""
}

// vSafeFrom draws a FROM clause whose sources are unqualified, or qualified with `same` (when non-empty).
func vSafeFrom(rt *rapid.T, same string, must bool) string {
	n := rapid.IntRange(0, 2).Draw(rt, "nFrom")
	if must && n == 0 {
		n = 1
	}
	if n == 0 {
		return ""
	}
	var parts []string
	for i := 0; i < n; i++ {
		m := rapid.SampledFrom([]string{"m", "cpu", "/m.*/"}).Draw(rt, "meas")
		if same != "" && rapid.Bool().Draw(rt, "qualifySame") {
			m = same + ".." + m
		}
		parts = append(parts, m)
	}
	return " FROM " + strings.Join(parts, ", ")
}

func vAnyFrom(rt *rapid.T) string {
	n := rapid.IntRange(1, 2).Draw(rt, "nFromAny")
	var parts []string
	for i := 0; i < n; i++ {
		m := rapid.SampledFrom([]string{"m", "cpu", "/m.*/"}).Draw(rt, "meas")
		switch rapid.IntRange(0, 2).Draw(rt, "qual") {
		case 1:
			m = vDrawDB(rt, "srcDB") + ".." + m
		case 2:
			m = vDrawDB(rt, "srcDB") + ".autogen." + m
		}
		parts = append(parts, m)
	}
	return " FROM " + strings.Join(parts, ", ")
}

func vDrawSelect(rt *rapid.T, depth int) string {
	fields := rapid.SampledFrom([]string{"*", "v", "mean(v)"}).Draw(rt, "fields")
	n := rapid.IntRange(1, 3).Draw(rt, "nSrc")
	var parts []string
	for i := 0; i < n; i++ {
		k := rapid.IntRange(0, 5).Draw(rt, "srcKind")
		switch {
		case k == 5 && depth < 2:
			parts = append(parts, "("+vDrawSelect(rt, depth+1)+")")
		case k == 1 || k == 3:
			parts = append(parts, vDrawDB(rt, "srcDB")+".."+rapid.SampledFrom([]string{"m", "/c.*/"}).Draw(rt, "meas"))
		case k == 2:
			parts = append(parts, vDrawDB(rt, "srcDB")+".autogen.m")
		default:
			parts = append(parts, rapid.SampledFrom([]string{"m", "cpu", "/.*/"}).Draw(rt, "meas"))
		}
	}
	into := ""
	if depth == 0 {
		switch rapid.IntRange(0, 5).Draw(rt, "into") {
		case 0:
			into = " INTO x"
		case 1:
			into = " INTO " + vDrawDB(rt, "intoDB") + "..x"
		}
	}
	return "SELECT " + fields + into + " FROM " + strings.Join(parts, ", ")
}

var vC16AdminTemplates = []vC16Stmt{
	{"CreateDatabaseStatement", "CREATE DATABASE %D"},
	{"CreateDatabaseStatement", "CREATE DATABASE %D WITH DURATION 1d REPLICATION 1 NAME rp0"},
	{"DropDatabaseStatement", "DROP DATABASE %D"},
	{"CreateUserStatement", "CREATE USER %U WITH PASSWORD 'secret'"},
	{"CreateUserStatement", "CREATE USER %U WITH PASSWORD 'secret' WITH ALL PRIVILEGES"},
	{"DropUserStatement", "DROP USER %U"},
	{"SetPasswordUserStatement", "SET PASSWORD FOR %U = 'other'"},
	{"GrantStatement", "GRANT READ ON %D TO %U"},
	{"GrantStatement", "GRANT ALL ON %D TO %U"},
	{"GrantAdminStatement", "GRANT ALL PRIVILEGES TO %U"},
	{"RevokeStatement", "REVOKE WRITE ON %D FROM %U"},
	{"RevokeAdminStatement", "REVOKE ALL PRIVILEGES FROM %U"},
	{"ShowUsersStatement", "SHOW USERS"},
	{"ShowGrantsForUserStatement", "SHOW GRANTS FOR %U"},
	{"CreateRetentionPolicyStatement", "CREATE RETENTION POLICY rp1 ON %D DURATION 1h REPLICATION 1"},
	{"AlterRetentionPolicyStatement", "ALTER RETENTION POLICY rp1 ON %D DURATION 2h"},
	{"DropMeasurementStatement", "DROP MEASUREMENT m"},
	{"DropShardStatement", "DROP SHARD 1"},
	{"ShowShardsStatement", "SHOW SHARDS"},
	{"ShowShardGroupsStatement", "SHOW SHARD GROUPS"},
	{"ShowStatsStatement", "SHOW STATS"},
	{"ShowStatsStatement", "SHOW STATS FOR 'runtime'"},
	{"ShowDiagnosticsStatement", "SHOW DIAGNOSTICS"},
	{"CreateSubscriptionStatement", "CREATE SUBSCRIPTION s0 ON %D.rp0 DESTINATIONS ALL 'udp://h:9'"},
	{"DropSubscriptionStatement", "DROP SUBSCRIPTION s0 ON %D.rp0"},
	{"ShowSubscriptionsStatement", "SHOW SUBSCRIPTIONS"},
	{"KillQueryStatement", "KILL QUERY 3"},
	{"KillQueryStatement", "KILL QUERY 3 ON \"h:8088\""},
}

var vC16DBKinds = []string{
	"ShowDatabasesStatement",
	"ShowSeriesStatement", "ShowMeasurementsStatement", "ShowTagKeysStatement", "ShowTagValuesStatement",
	"ShowFieldKeysStatement", "ShowRetentionPoliciesStatement",
	"ShowSeriesCardinalityStatement", "ShowMeasurementCardinalityStatement", "ShowTagKeyCardinalityStatement",
	"ShowTagValuesCardinalityStatement", "ShowFieldKeyCardinalityStatement",
	"ShowQueriesStatement", "ShowServersStatement", "ShowContinuousQueriesStatement",
	"DropRetentionPolicyStatement", "DropContinuousQueryStatement", "DropSeriesStatement", "DeleteSeriesStatement",
	"SelectStatement", "SelectStatement", "SelectStatement", "ExplainStatement", "CreateContinuousQueryStatement",
}

// vC16GenKinds lists every statement kind the generator can produce (for the completeness test).
func vC16GenKinds() map[string]bool {
	out := map[string]bool{}
	for _, t := range vC16AdminTemplates {
		out[t.Kind] = true
	}
	for _, k := range vC16DBKinds {
		out[k] = true
	}
	return out
}

// vC16DrawStmt draws one statement text. def is the request's default database ("" if none): it is needed
// to stay out of the known-finding shapes, which are counted with ex.Exclude and replaced by the
// nearest shape on which the documentation-derived table and the implementation are expected to agree.
func vC16DrawStmt(rt *rapid.T, def string, ex vExcluder) vC16Stmt {
	if rapid.IntRange(0, 9).Draw(rt, "adminKind") < 3 {
		t := rapid.SampledFrom(vC16AdminTemplates).Draw(rt, "adminStmt")
		txt := strings.Replace(t.Text, "%D", vDrawDB(rt, "stmtDB"), -1)
		txt = strings.Replace(txt, "%U", rapid.SampledFrom(vC16UserPool).Draw(rt, "stmtUser"), -1)
		return vC16Stmt{t.Kind, txt}
	}
	kind := rapid.SampledFrom(vC16DBKinds).Draw(rt, "dbKind")
	risky := rapid.IntRange(0, 19).Draw(rt, "riskyShape") == 0
	switch kind {
	case "ShowDatabasesStatement":
		return vC16Stmt{kind, "SHOW DATABASES"}
	case "ShowQueriesStatement":
		return vC16Stmt{kind, "SHOW QUERIES"}
	case "ShowServersStatement":
		return vC16Stmt{kind, "SHOW SERVERS"}
	case "ShowContinuousQueriesStatement":
		return vC16Stmt{kind, "SHOW CONTINUOUS QUERIES"}
	case "ShowRetentionPoliciesStatement":
		on, _ := vOptOn(rt)
		return vC16Stmt{kind, "SHOW RETENTION POLICIES" + on}
	case "ShowTagKeysStatement", "ShowTagValuesStatement", "ShowMeasurementsStatement":
		// these three ignore a source's database qualifier at execution: any qualifier may be drawn
		on, _ := vOptOn(rt)
		from := ""
		if rapid.Bool().Draw(rt, "withFrom") {
			from = vAnyFrom(rt)
		}
		switch kind {
		case "ShowTagKeysStatement":
			return vC16Stmt{kind, "SHOW TAG KEYS" + on + from}
		case "ShowTagValuesStatement":
			return vC16Stmt{kind, "SHOW TAG VALUES" + on + from + " WITH KEY = k"}
		default:
			w := ""
			if rapid.Bool().Draw(rt, "withMeasurement") {
				w = " WITH MEASUREMENT = m"
				if rapid.Bool().Draw(rt, "qualify") {
					w = " WITH MEASUREMENT = " + vDrawDB(rt, "srcDB") + "..m"
				}
			}
			return vC16Stmt{kind, "SHOW MEASUREMENTS" + on + w}
		}
	case "ShowSeriesStatement", "ShowFieldKeysStatement":
		// a FROM source naming another database than the statement's own is a known-finding shape
		if risky {
			ex.Exclude(vSigShowFrom)
		}
		on, db := vOptOn(rt)
		eff := vOr(db, def)
		if kind == "ShowSeriesStatement" {
			return vC16Stmt{kind, "SHOW SERIES" + on + vSafeFrom(rt, eff, false)}
		}
		return vC16Stmt{kind, "SHOW FIELD KEYS" + on + vSafeFrom(rt, eff, false)}
	case "ShowSeriesCardinalityStatement", "ShowMeasurementCardinalityStatement":
		what := "SERIES"
		if kind == "ShowMeasurementCardinalityStatement" {
			what = "MEASUREMENT"
		}
		if !rapid.Bool().Draw(rt, "exact") {
			if risky {
				ex.Exclude(vSigShowFrom)
			}
			on, db := vOptOn(rt)
			return vC16Stmt{kind, "SHOW " + what + " CARDINALITY" + on + vSafeFrom(rt, vOr(db, def), false)}
		}
		// exact: an ON clause, or no FROM clause, is a known-finding shape
		if risky {
			ex.Exclude(vSigCardOn)
		}
		return vC16Stmt{kind, "SHOW " + what + " EXACT CARDINALITY" + vAnyFrom(rt)}
	case "ShowTagKeyCardinalityStatement", "ShowTagValuesCardinalityStatement", "ShowFieldKeyCardinalityStatement":
		if risky {
			ex.Exclude(vSigCardOn)
		}
		exact := ""
		if rapid.Bool().Draw(rt, "exact") {
			exact = " EXACT"
		}
		switch kind {
		case "ShowTagKeyCardinalityStatement":
			return vC16Stmt{kind, "SHOW TAG KEY" + exact + " CARDINALITY" + vAnyFrom(rt)}
		case "ShowFieldKeyCardinalityStatement":
			return vC16Stmt{kind, "SHOW FIELD KEY" + exact + " CARDINALITY" + vAnyFrom(rt)}
		default:
			return vC16Stmt{kind, "SHOW TAG VALUES" + exact + " CARDINALITY" + vAnyFrom(rt) + " WITH KEY = k"}
		}
	case "DropRetentionPolicyStatement":
		return vC16Stmt{kind, "DROP RETENTION POLICY rp1 ON " + vDrawDB(rt, "stmtDB")}
	case "DropContinuousQueryStatement":
		return vC16Stmt{kind, "DROP CONTINUOUS QUERY cq0 ON " + vDrawDB(rt, "stmtDB")}
	case "DropSeriesStatement":
		return vC16Stmt{kind, rapid.SampledFrom([]string{"DROP SERIES FROM m", "DROP SERIES WHERE host = 'a'", "DROP SERIES FROM /c.*/ WHERE host = 'a'"}).Draw(rt, "text")}
	case "DeleteSeriesStatement":
		return vC16Stmt{kind, rapid.SampledFrom([]string{"DELETE FROM m", "DELETE WHERE time < '2020-01-01'", "DELETE FROM cpu WHERE host = 'a'"}).Draw(rt, "text")}
	case "SelectStatement":
		return vC16Stmt{kind, vDrawSelect(rt, 0)}
	case "ExplainStatement":
		pre := "EXPLAIN "
		if rapid.Bool().Draw(rt, "analyze") {
			pre = "EXPLAIN ANALYZE "
		}
		s := vDrawSelect(rt, 1) // depth 1: no INTO
		return vC16Stmt{kind, pre + s}
	case "CreateContinuousQueryStatement":
		// an unqualified INTO target or a source in another database is a known-finding shape
		if risky {
			ex.Exclude(vSigCQ)
		}
		db := vDrawDB(rt, "cqDB")
		src := "m"
		if rapid.Bool().Draw(rt, "qualifySame") {
			src = db + ".autogen.m"
		}
		return vC16Stmt{kind, "CREATE CONTINUOUS QUERY cq0 ON " + db + " BEGIN SELECT mean(v) INTO " + vDrawDB(rt, "intoDB") + "..x FROM " + src + " GROUP BY time(1m) END"}
	}
	panic("unreachable kind " + kind)
}
