//go:build verif

package httpd

// C16 - HTTP side of bed A: the recorder executor / points writer behind a real handler with
// authentication enabled is invoked <=> the independent model (verif_c16_model_test.go) allows the
// request; otherwise 401 / 403. Credential carriers: basic, u/p parameters, "Token u:p", bearer JWT
// (valid, expired, not yet valid, wrong secret, no exp, exp 0, unsigned, unknown user, empty user), none,
// and parameters together with a header (parameters win, as documented).

import (
	"fmt"
	"net/http"
	"net/http/httptest"
	"net/url"
	"os"
	"sort"
	"strings"
	"sync"
	"testing"
	"time"

	jwt "github.com/dgrijalva/jwt-go/v4"
	"github.com/influxdata/influxdb/pkg/verifhook"
	"github.com/influxdata/influxdb/services/meta"
	"github.com/influxdata/influxql"
	"golang.org/x/crypto/bcrypt"
	"pgregory.net/rapid"
	"verifkit"
)

const vHookAuth = "meta.auth.beforecache"

var (
	vBedOnce sync.Once
	vBed     *vAuthBed
	vBedErr  error
)

func vC16Inconclusive(msg string) {
	fmt.Println("VERIF-INCONCLUSIVE " + msg)
	verifkit.FlushAll()
	os.Exit(3)
}

func vC16Hash(pw string) string {
	h, err := bcrypt.GenerateFromPassword([]byte(pw), bcrypt.MinCost)
	if err != nil {
		panic(err)
	}
	return string(h)
}

type vC16Change struct {
	Kind  string
	User  string
	DB    string
	Pw    string
	Priv  vPriv
	Admin bool
}

func (ch vC16Change) String() string {
	return fmt.Sprintf("%s(user=%s db=%s pw=%s priv=%s admin=%v)", ch.Kind, ch.User, ch.DB, ch.Pw, ch.Priv, ch.Admin)
}

var vPrivToQL = map[vPriv]influxql.Privilege{vNone: influxql.NoPrivileges, vRead: influxql.ReadPrivilege, vWrite: influxql.WritePrivilege, vAll: influxql.AllPrivileges}

func vC16ApplyData(d *meta.Data, ch vC16Change) (*meta.Data, error) {
	n := d.Clone()
	n.Index++
	var err error
	switch ch.Kind {
	case "createUser":
		err = n.CreateUser(ch.User, vC16Hash(ch.Pw), ch.Admin)
	case "dropUser":
		err = n.DropUser(ch.User)
	case "recreateUser":
		if err = n.DropUser(ch.User); err == nil {
			err = n.CreateUser(ch.User, vC16Hash(ch.Pw), ch.Admin)
		}
	case "setPassword":
		err = n.UpdateUser(ch.User, vC16Hash(ch.Pw))
	case "setPriv":
		err = n.SetPrivilege(ch.User, ch.DB, vPrivToQL[ch.Priv])
	case "setAdmin":
		err = n.SetAdminPrivilege(ch.User, ch.Admin)
	case "createDB":
		err = n.CreateDatabase(ch.DB)
	case "dropDB":
		err = n.DropDatabase(ch.DB)
	default:
		panic("unknown change " + ch.Kind)
	}
	if err != nil {
		return d, err
	}
	return n, nil
}

func vC16ApplyModel(m *vC16Model, ch vC16Change) bool {
	switch ch.Kind {
	case "createUser":
		return m.createUser(ch.User, ch.Pw, ch.Admin)
	case "dropUser":
		return m.dropUser(ch.User)
	case "recreateUser":
		return m.dropUser(ch.User) && m.createUser(ch.User, ch.Pw, ch.Admin)
	case "setPassword":
		return m.setPassword(ch.User, ch.Pw)
	case "setPriv":
		return m.setPriv(ch.User, ch.DB, ch.Priv)
	case "setAdmin":
		return m.setAdmin(ch.User, ch.Admin)
	case "createDB":
		return m.createDB(ch.DB)
	case "dropDB":
		return m.dropDB(ch.DB)
	}
	panic("unknown change " + ch.Kind)
}

type vC16World struct {
	b *vAuthBed
	m *vC16Model
}

// change applies ch; refused commands (unknown user, ...) leave both sides unchanged.
func (w *vC16World) change(ch vC16Change) (bool, error) {
	nd, err := vC16ApplyData(w.b.d, ch)
	if err != nil {
		return false, nil
	}
	if !vC16ApplyModel(w.m, ch) {
		return false, fmt.Errorf("%s accepted by Data but refused by the model", ch)
	}
	if err := w.b.install(nd); err != nil {
		vC16Inconclusive(err.Error())
	}
	return true, nil
}

func vC16PickUser(rt *rapid.T, m *vC16Model) string {
	var ex []string
	for _, n := range vC16UserPool {
		if m.Users[n] != nil {
			ex = append(ex, n)
		}
	}
	if len(ex) > 0 && rapid.IntRange(0, 4).Draw(rt, "existingUser") > 0 {
		return rapid.SampledFrom(ex).Draw(rt, "user")
	}
	return rapid.SampledFrom(vC16UserPool).Draw(rt, "user")
}

func vC16DrawChange(rt *rapid.T, m *vC16Model, forUser string) vC16Change {
	kinds := []string{"createUser", "createUser", "dropUser", "setPassword", "setPassword", "recreateUser", "setPriv", "setPriv", "setPriv", "setPriv", "setAdmin", "createDB", "createDB", "dropDB"}
	if forUser != "" {
		kinds = []string{"dropUser", "setPassword", "setPassword", "setPassword", "recreateUser", "recreateUser", "setPriv", "setAdmin"}
	}
	ch := vC16Change{Kind: rapid.SampledFrom(kinds).Draw(rt, "changeKind"), User: forUser}
	switch ch.Kind {
	case "createDB", "dropDB":
		ch.DB = vDrawDB(rt, "db")
		return ch
	}
	if ch.User == "" {
		if ch.Kind == "createUser" {
			ch.User = rapid.SampledFrom(vC16UserPool).Draw(rt, "user")
		} else {
			ch.User = vC16PickUser(rt, m)
		}
	}
	switch ch.Kind {
	case "createUser", "recreateUser":
		ch.Pw = rapid.SampledFrom(vC16PwPool).Draw(rt, "pw")
		ch.Admin = rapid.IntRange(0, 3).Draw(rt, "admin") == 0
	case "setPassword":
		ch.Pw = rapid.SampledFrom(vC16PwPool).Draw(rt, "pw")
	case "setPriv":
		ch.DB = vDrawDB(rt, "db")
		ch.Priv = vPriv(rapid.SampledFrom([]int{0, 1, 1, 2, 2, 3, 3}).Draw(rt, "priv"))
	case "setAdmin":
		ch.Admin = rapid.Bool().Draw(rt, "admin")
	}
	return ch
}

// ---------------------------------------------------------------------------------------------
// credentials

type vC16Cred struct {
	Carrier string // basic params token bearer none params+basic
	User    string
	Pw      string
	PwKind  string
	Bearer  string // kind of token
	// for params+basic: the header's credentials
	HUser, HPw string
}

func (c vC16Cred) String() string {
	switch c.Carrier {
	case "none":
		return "no credentials"
	case "bearer":
		return fmt.Sprintf("bearer[%s] user=%q", c.Bearer, c.User)
	case "params+basic":
		return fmt.Sprintf("params %q/%q + basic %q/%q", c.User, c.Pw, c.HUser, c.HPw)
	}
	return fmt.Sprintf("%s %q/%q[%s]", c.Carrier, c.User, c.Pw, c.PwKind)
}

func vC16DrawPw(rt *rapid.T, m *vC16Model, name string) (pw, kind string) {
	u := m.Users[name]
	switch rapid.IntRange(0, 7).Draw(rt, "pwKind") {
	case 0, 1, 2, 3, 4:
		if u != nil {
			return u.Pw, "current"
		}
		if old := m.Old[name]; len(old) > 0 {
			return old[len(old)-1], "previous"
		}
		return "never-valid", "never"
	case 5:
		if old := m.Old[name]; len(old) > 0 {
			p := rapid.SampledFrom(old).Draw(rt, "oldPw")
			if u != nil && u.Pw == p {
				return p, "current"
			}
			return p, "previous"
		}
		return "never-valid", "never"
	case 6:
		return "never-valid", "never"
	}
	return "", "empty"
}

var vBearerKinds = []string{"valid", "valid", "valid", "valid", "expired", "not-yet-valid", "wrong-secret", "no-exp", "exp-zero", "unsigned", "empty-user", "no-user-claim"}

func vC16DrawCred(rt *rapid.T, m *vC16Model) vC16Cred {
	c := vC16Cred{Carrier: rapid.SampledFrom([]string{"basic", "basic", "params", "params", "token", "bearer", "bearer", "none", "params+basic"}).Draw(rt, "carrier")}
	switch c.Carrier {
	case "none":
	case "bearer":
		c.User = vC16PickUser(rt, m)
		c.Bearer = rapid.SampledFrom(vBearerKinds).Draw(rt, "bearerKind")
	case "params+basic":
		c.User = vC16PickUser(rt, m)
		c.Pw, c.PwKind = vC16DrawPw(rt, m, c.User)
		c.HUser = vC16PickUser(rt, m)
		c.HPw, _ = vC16DrawPw(rt, m, c.HUser)
	default:
		c.User = vC16PickUser(rt, m)
		c.Pw, c.PwKind = vC16DrawPw(rt, m, c.User)
	}
	return c
}

func vC16Token(c vC16Cred, now time.Time) string {
	claims := jwt.MapClaims{"username": c.User, "exp": now.Add(time.Hour).Unix()}
	secret := vSharedSecret
	method := jwt.SigningMethod(jwt.SigningMethodHS512)
	var key interface{}
	switch c.Bearer {
	case "expired":
		claims["exp"] = now.Add(-time.Hour).Unix()
	case "not-yet-valid":
		claims["nbf"] = now.Add(time.Hour).Unix()
		claims["exp"] = now.Add(2 * time.Hour).Unix()
	case "wrong-secret":
		secret = "another-secret"
	case "no-exp":
		delete(claims, "exp")
	case "exp-zero":
		claims["exp"] = 0
	case "unsigned":
		method = jwt.SigningMethodNone
		key = jwt.UnsafeAllowNoneSignatureType
	case "empty-user":
		claims["username"] = ""
	case "no-user-claim":
		delete(claims, "username")
	}
	if key == nil {
		key = []byte(secret)
	}
	if c.Bearer == "valid" && len(c.User)%2 == 0 {
		method = jwt.SigningMethodHS256
	}
	s, err := jwt.NewWithClaims(method, claims).SignedString(key)
	if err != nil {
		panic(err)
	}
	return s
}

// apply puts the credentials on the request.
func (c vC16Cred) apply(r *http.Request, now time.Time) {
	q := r.URL.Query()
	switch c.Carrier {
	case "basic":
		r.SetBasicAuth(c.User, c.Pw)
	case "params":
		q.Set("u", c.User)
		q.Set("p", c.Pw)
	case "token":
		r.Header.Set("Authorization", "Token "+c.User+":"+c.Pw)
	case "bearer":
		r.Header.Set("Authorization", "Bearer "+vC16Token(c, now))
	case "params+basic":
		q.Set("u", c.User)
		q.Set("p", c.Pw)
		r.SetBasicAuth(c.HUser, c.HPw)
	}
	r.URL.RawQuery = q.Encode()
}

// authUser: which user (if any) the credentials identify according to the model.
// Password carriers: the user exists and the password is the current one. Parameters need both u and p
// non-empty and then take precedence over a header. Bearer: a token signed with the shared secret (HMAC),
// carrying an expiry in the future, no future nbf, and the name of an existing user.
func (m *vC16Model) authUser(c vC16Cred) (string, bool) {
	switch c.Carrier {
	case "none":
		return "", false
	case "bearer":
		if c.Bearer == "valid" && m.Users[c.User] != nil {
			return c.User, true
		}
		return "", false
	case "params+basic":
		if c.User != "" && c.Pw != "" {
			if m.authOK(c.User, c.Pw) {
				return c.User, true
			}
			return "", false
		}
		if c.HUser != "" && m.authOK(c.HUser, c.HPw) {
			return c.HUser, true
		}
		return "", false
	}
	if c.User != "" && m.authOK(c.User, c.Pw) {
		return c.User, true
	}
	return "", false
}

// ---------------------------------------------------------------------------------------------

func (w *vC16World) doQuery(rt *rapid.T, cred vC16Cred, stmts []vC16Stmt, q *influxql.Query, def, method string, classes map[string]bool) (mixed bool) {
	now := time.Now()
	text := make([]string, len(stmts))
	for i, s := range stmts {
		text[i] = s.Text
	}
	qs := strings.Join(text, "; ")
	form := url.Values{}
	form.Set("q", qs)
	if def != "" {
		form.Set("db", def)
	}
	var r *http.Request
	if method == "GET" {
		r = httptest.NewRequest("GET", "/query?"+form.Encode(), nil)
	} else {
		r = httptest.NewRequest("POST", "/query", strings.NewReader(form.Encode()))
		r.Header.Set("Content-Type", "application/x-www-form-urlencoded")
	}
	cred.apply(r, now)
	w.b.exec.dbs = vC16DBPool
	w.b.exec.take()
	rec := httptest.NewRecorder()
	if !verifkit.Watch(30*time.Second, func() { w.b.h.ServeHTTP(rec, r) }) {
		rt.Fatalf("%s query request did not return in 30s: %s", verifkit.Sig("http-request-hang"), qs)
	}
	ran, coarse := w.b.exec.take()

	// model
	wantStatus := http.StatusOK
	user, authed := "", false
	var why string
	if w.m.hasAdmin() {
		user, authed = w.m.authUser(cred)
		if !authed {
			wantStatus, why = http.StatusUnauthorized, "credentials not valid"
		}
	}
	if wantStatus == http.StatusOK {
		if ok, y := w.m.allowsQuery(user, q.Statements, def); !ok {
			wantStatus, why = http.StatusForbidden, y
		}
	}
	desc := fmt.Sprintf("%s /query q=%q db=%q with %s -> %d, executed %d statement(s) %v; model expects %d (%s); model: %s", method, qs, def, cred, rec.Code, len(ran), ran, wantStatus, why, w.m)
	if wantStatus != http.StatusOK && len(ran) > 0 {
		sig := "http-query-runs-unauthorized"
		switch {
		case wantStatus == http.StatusUnauthorized && cred.Carrier == "bearer":
			sig = "http-query-runs-with-invalid-token"
		case wantStatus == http.StatusUnauthorized && cred.Carrier == "none":
			sig = "http-query-runs-without-credentials"
		case wantStatus == http.StatusUnauthorized && w.m.wasOld(cred.User, cred.Pw):
			sig = "http-query-runs-with-stale-password"
		case wantStatus == http.StatusUnauthorized:
			sig = "http-query-runs-with-invalid-credentials"
		case len(w.m.Users) == 0:
			sig = "zero-users-runs-non-bootstrap-request"
		case strings.Contains(why, "needs admin"):
			sig = "query-runs-without-admin"
		case strings.Contains(why, "needs READ"):
			sig = "query-runs-without-read-grant"
		case strings.Contains(why, "needs WRITE"):
			sig = "query-runs-without-write-grant"
		}
		rt.Fatalf("%s %s", verifkit.Sig(sig), desc)
	}
	if wantStatus == http.StatusOK && (rec.Code != http.StatusOK || len(ran) != len(stmts)) {
		rt.Fatalf("%s %s", verifkit.Sig("authorized-query-refused"), desc)
	}
	if rec.Code != wantStatus {
		rt.Fatalf("%s %s", verifkit.Sig("refused-with-unexpected-status"), desc)
	}
	if coarse != nil {
		// the per-database answers the executor gets for SHOW DATABASES
		for _, db := range vC16DBPool {
			wr, ww := w.m.covers(user, db, vRead), w.m.covers(user, db, vWrite)
			if coarse[db][0] && !wr || coarse[db][1] && !ww {
				rt.Fatalf("%s coarse authorizer of user %q answers read=%v write=%v for %s, model read=%v write=%v; %s", verifkit.Sig("show-databases-lists-ungranted-database"), user, coarse[db][0], coarse[db][1], db, wr, ww, desc)
			}
			if coarse[db][0] != wr || coarse[db][1] != ww {
				rt.Fatalf("%s coarse authorizer of user %q answers read=%v write=%v for %s, model read=%v write=%v; %s", verifkit.Sig("show-databases-hides-granted-database"), user, coarse[db][0], coarse[db][1], db, wr, ww, desc)
			}
		}
		classes["query:show-databases-filter-checked"] = true
	}
	multi := "single"
	if len(stmts) > 1 {
		multi = "multi"
	}
	classes[fmt.Sprintf("query:%d:%s", wantStatus, multi)] = true
	classes[fmt.Sprintf("query:%d:carrier:%s", wantStatus, cred.Carrier)] = true
	if cred.Carrier == "bearer" {
		classes[fmt.Sprintf("bearer:%s:%d", cred.Bearer, wantStatus)] = true
	}
	if wantStatus == http.StatusUnauthorized && cred.PwKind != "" {
		classes["401:password:"+cred.PwKind] = true
	}
	if !w.m.hasAdmin() {
		if len(w.m.Users) == 0 {
			classes[fmt.Sprintf("query:zero-users:%d", wantStatus)] = true
		} else {
			classes[fmt.Sprintf("query:users-but-no-admin:%d", wantStatus)] = true
		}
	}
	if authed {
		nA, nD := 0, 0
		u := w.m.Users[user]
		for i, s := range q.Statements {
			ok, _ := w.m.allowsStmt(user, s, def)
			if ok {
				nA++
			} else {
				nD++
			}
			if !u.Admin {
				v := "deny"
				if ok {
					v = "allow"
				}
				classes["stmt:"+stmts[i].Kind+":"+v] = true
			}
		}
		return nA > 0 && nD > 0
	}
	return false
}

func (w *vC16World) doWrite(rt *rapid.T, cred vC16Cred, db string, v2 bool, classes map[string]bool) {
	now := time.Now()
	var r *http.Request
	if v2 {
		r = httptest.NewRequest("POST", "/api/v2/write?bucket="+url.QueryEscape(db+"/"), strings.NewReader("m,host=a v=1 1000\n"))
	} else {
		r = httptest.NewRequest("POST", "/write?db="+url.QueryEscape(db), strings.NewReader("m,host=a v=1 1000\nm,host=b v=2 2000\n"))
	}
	cred.apply(r, now)
	w.b.pw.take()
	rec := httptest.NewRecorder()
	if !verifkit.Watch(30*time.Second, func() { w.b.h.ServeHTTP(rec, r) }) {
		rt.Fatalf("%s write request did not return in 30s", verifkit.Sig("http-request-hang"))
	}
	wrote := w.b.pw.take()
	want := http.StatusNoContent
	user, authed := "", false
	if w.m.hasAdmin() {
		user, authed = w.m.authUser(cred)
		if !authed {
			want = http.StatusUnauthorized
		}
	}
	if want == http.StatusNoContent {
		switch {
		case !w.m.DBs[db]:
			want = http.StatusNotFound
		case !w.m.allowsWrite(user, db):
			want = http.StatusForbidden
		}
	}
	desc := fmt.Sprintf("write db=%q (v2=%v) with %s -> %d, points writer calls %v; model expects %d; model: %s", db, v2, cred, rec.Code, wrote, want, w.m)
	if want != http.StatusNoContent && len(wrote) > 0 {
		sig := "http-write-runs-unauthorized"
		switch {
		case want == http.StatusUnauthorized && w.m.wasOld(cred.User, cred.Pw):
			sig = "http-write-runs-with-stale-password"
		case want == http.StatusUnauthorized:
			sig = "http-write-runs-with-invalid-credentials"
		case want == http.StatusForbidden:
			sig = "write-runs-without-write-grant"
		}
		rt.Fatalf("%s %s", verifkit.Sig(sig), desc)
	}
	if want == http.StatusNoContent && (rec.Code != want || len(wrote) != 1 || wrote[0].DB != db || wrote[0].User != user) {
		rt.Fatalf("%s %s", verifkit.Sig("authorized-write-refused"), desc)
	}
	if rec.Code != want {
		rt.Fatalf("%s %s", verifkit.Sig("refused-with-unexpected-status"), desc)
	}
	classes[fmt.Sprintf("write:%d", want)] = true
	classes[fmt.Sprintf("write:%d:carrier:%s", want, cred.Carrier)] = true
}

func vC16DrawRequest(rt *rapid.T, m *vC16Model, def string, ex vExcluder) (stmts []vC16Stmt, q *influxql.Query) {
	n := rapid.SampledFrom([]int{1, 1, 1, 2, 2, 3, 4}).Draw(rt, "nStmts")
	var texts []string
	for i := 0; i < n; i++ {
		var s vC16Stmt
		if len(m.Users) == 0 && rapid.Bool().Draw(rt, "bootstrap") {
			s = vC16Stmt{"CreateUserStatement", "CREATE USER " + rapid.SampledFrom(vC16UserPool).Draw(rt, "stmtUser") + " WITH PASSWORD 'secret' WITH ALL PRIVILEGES"}
		} else {
			s = vC16DrawStmt(rt, def, ex)
		}
		stmts = append(stmts, s)
		texts = append(texts, s.Text)
	}
	q, err := influxql.ParseQuery(strings.Join(texts, "; "))
	if err != nil || len(q.Statements) != n {
		rt.Fatalf("%s generator produced an unparseable request %q: %v", verifkit.Sig("harness-unparseable-statement"), strings.Join(texts, "; "), err)
	}
	return stmts, q
}

func TestVerifC16HTTP(t *testing.T) {
	st := verifkit.For("C16", "TestVerifC16HTTP",
		"rapid histories of 6..40 steps against a real httpd.Handler (auth enabled, shared secret set) over a real meta.Client fed by its own poll loop: metadata changes as in TestVerifC16History; GET/POST /query with 1..4 statements of every kind, explicit/default db; POST /write and /api/v2/write; credentials as basic, u/p parameters, Token header, bearer JWT (12 kinds), none, or parameters+header; basic-auth requests with a change installed at the meta.auth.beforecache hook. Oracle: recorder executor / points writer invoked <=> model allows, else 401 (credentials) / 403 (grants) / 404 (write to unknown db). Non-trivial = a request with once-valid credentials after the user was re-keyed or removed, or a multi-statement request mixing allowed and refused statements, or a refused bearer token of an existing user; distinct = hash of (step kind, status) sequence")
	defer st.Flush()
	vBedOnce.Do(func() { vBed, vBedErr = vNewAuthBed() })
	if vBedErr != nil {
		vC16Inconclusive("cannot start the auth bed: " + vBedErr.Error())
	}
	totalFired := 0
	rapid.Check(t, func(rt *rapid.T) {
		defer verifhook.Set(nil)
		// reset: publish an empty metadata value (no users, no databases) on top of the current index
		fresh := &meta.Data{Index: vBed.d.Index + 1, ClusterID: 1, MetaNodes: vBed.d.MetaNodes, MaxNodeID: 1}
		if err := vBed.install(fresh); err != nil {
			vC16Inconclusive(err.Error())
		}
		w := &vC16World{b: vBed, m: vC16NewModel()}
		classes := map[string]bool{}
		var canon strings.Builder
		var trace []string
		nt := false
		must := func(ch vC16Change) {
			if ok, err := w.change(ch); err != nil || !ok {
				rt.Fatalf("%s setup %s: ok=%v err=%v", verifkit.Sig("harness-model-action-mismatch"), ch, ok, err)
			}
		}
		if rapid.IntRange(0, 3).Draw(rt, "warm") > 0 {
			for _, db := range vC16DBPool {
				must(vC16Change{Kind: "createDB", DB: db})
			}
			must(vC16Change{Kind: "createUser", User: "u0", Pw: "pw-a", Admin: true})
			must(vC16Change{Kind: "createUser", User: "u1", Pw: "pw-b"})
			must(vC16Change{Kind: "createUser", User: "u2", Pw: "pw-c"})
			must(vC16Change{Kind: "setPriv", User: "u1", DB: "db0", Priv: vPriv(rapid.IntRange(1, 3).Draw(rt, "warmPriv"))})
			must(vC16Change{Kind: "setPriv", User: "u1", DB: "db1", Priv: vPriv(rapid.IntRange(0, 3).Draw(rt, "warmPriv"))})
			must(vC16Change{Kind: "setPriv", User: "u2", DB: vDrawDB(rt, "warmDB"), Priv: vPriv(rapid.IntRange(1, 3).Draw(rt, "warmPriv"))})
			must(vC16Change{Kind: "setPriv", User: "u2", DB: vDrawDB(rt, "warmDB"), Priv: vPriv(rapid.IntRange(1, 3).Draw(rt, "warmPriv"))})
			trace = append(trace, "warm: "+w.m.String())
		}
		n := rapid.IntRange(6, 40).Draw(rt, "steps")
		for i := 0; i < n; i++ {
			switch k := rapid.SampledFrom([]string{"change", "change", "change", "query", "query", "query", "query", "query", "write", "write", "interleave"}).Draw(rt, "step"); k {
			case "change":
				ch := vC16DrawChange(rt, w.m, "")
				ok, err := w.change(ch)
				if err != nil {
					rt.Fatalf("%s %v", verifkit.Sig("harness-model-action-mismatch"), err)
				}
				classes[fmt.Sprintf("change:%s:%v", ch.Kind, ok)] = true
				fmt.Fprintf(&canon, "c:%s:%v;", ch.Kind, ok)
				trace = append(trace, fmt.Sprintf("%s => %v", ch, ok))
			case "query":
				def := rapid.SampledFrom([]string{"", "db0", "db0", "db1", "db2"}).Draw(rt, "defaultDB")
				stmts, q := vC16DrawRequest(rt, w.m, def, st)
				cred := vC16DrawCred(rt, w.m)
				method := rapid.SampledFrom([]string{"GET", "POST"}).Draw(rt, "method")
				stale := cred.PwKind == "previous" || (cred.Carrier == "bearer" && cred.Bearer != "valid" && w.m.Users[cred.User] != nil)
				if w.doQuery(rt, cred, stmts, q, def, method, classes) {
					nt = true
					classes["nt:mixed-request"] = true
				}
				if stale && w.m.hasAdmin() {
					nt = true
					classes["nt:stale-or-invalid-credentials-of-known-user"] = true
				}
				fmt.Fprintf(&canon, "q:%s:%d;", cred.Carrier, len(stmts))
				trace = append(trace, fmt.Sprintf("%s /query %q db=%q with %s", method, q.String(), def, cred))
			case "write":
				cred := vC16DrawCred(rt, w.m)
				db := vDrawDB(rt, "db")
				if cred.PwKind == "previous" && w.m.hasAdmin() {
					nt = true
					classes["nt:stale-or-invalid-credentials-of-known-user"] = true
				}
				w.doWrite(rt, cred, db, rapid.IntRange(0, 3).Draw(rt, "v2") == 0, classes)
				fmt.Fprintf(&canon, "w:%s;", cred.Carrier)
				trace = append(trace, fmt.Sprintf("write db=%s with %s", db, cred))
			case "interleave":
				name := vC16PickUser(rt, w.m)
				u := w.m.Users[name]
				if u == nil || !w.m.hasAdmin() {
					classes["interleave:skipped"] = true
					continue
				}
				old := u.Pw
				ch := vC16DrawChange(rt, w.m, name)
				fired := false
				var hookErr error
				verifhook.Set(func(ev, path string, n int64) {
					if ev != vHookAuth || path != name || fired {
						return
					}
					fired = true
					verifhook.Set(nil)
					_, hookErr = w.change(ch)
				})
				r := httptest.NewRequest("GET", "/query?q="+url.QueryEscape("SHOW DATABASES"), nil)
				r.SetBasicAuth(name, old)
				w.b.exec.take()
				rec := httptest.NewRecorder()
				if !verifkit.Watch(60*time.Second, func() { w.b.h.ServeHTTP(rec, r) }) {
					rt.Fatalf("%s request with an install at the hook did not return", verifkit.Sig("http-request-hang"))
				}
				verifhook.Set(nil)
				w.b.exec.take()
				if hookErr != nil {
					rt.Fatalf("%s %v", verifkit.Sig("harness-model-action-mismatch"), hookErr)
				}
				if fired {
					totalFired++
				} else if _, err := w.change(ch); err != nil {
					rt.Fatalf("%s %v", verifkit.Sig("harness-model-action-mismatch"), err)
				}
				classes[fmt.Sprintf("interleave:%s:fired=%v", ch.Kind, fired)] = true
				fmt.Fprintf(&canon, "i:%s:%v;", ch.Kind, fired)
				trace = append(trace, fmt.Sprintf("basic-auth request of %s with %s installed at %s (fired=%v)", name, ch, vHookAuth, fired))
				// afterwards the old credentials are judged by the model like any others
				q, _ := influxql.ParseQuery("SHOW DATABASES")
				probe := vC16Cred{Carrier: rapid.SampledFrom([]string{"basic", "params", "token"}).Draw(rt, "probeCarrier"), User: name, Pw: old, PwKind: "previous-or-current"}
				w.doQuery(rt, probe, []vC16Stmt{{"ShowDatabasesStatement", "SHOW DATABASES"}}, q, "", "GET", classes)
				if fired && (ch.Kind == "setPassword" || ch.Kind == "dropUser" || ch.Kind == "recreateUser") {
					nt = true
					classes["nt:rekeyed-inside-authenticate-then-probed"] = true
				}
			}
		}
		st.Case(nt, canon.String(), vC16ClassList(classes)...)
		if st.WantSample() {
			st.Sample(map[string]interface{}{"history": trace, "final_model": w.m.String()})
		} else {
			st.Sample(nil)
		}
	})
	st.Note("hook_meta.auth.beforecache_fired", fmt.Sprint(totalFired))
	if !t.Failed() && totalFired == 0 {
		vC16Inconclusive("hook meta.auth.beforecache never fired in TestVerifC16HTTP")
	}
}

func vC16ClassList(m map[string]bool) []string {
	var out []string
	for k := range m {
		out = append(out, k)
	}
	sort.Strings(out)
	return out
}

// TestVerifC16HTTPFirstAdminOnly is the directed regression for the repaired defect
// first-admin-request-carries-extra-statements (fix: commit "with no users, authorize only a request that
// solely creates the first admin"): at zero users an unauthenticated request whose first statement creates
// an administrator must not have further statements executed.
func TestVerifC16HTTPFirstAdminOnly(t *testing.T) {
	st := verifkit.For("C16", "TestVerifC16HTTPFirstAdminOnly", "directed: unauthenticated multi-statement /query requests at zero users whose first statement creates an administrator; one case per request")
	defer st.Flush()
	vBedOnce.Do(func() { vBed, vBedErr = vNewAuthBed() })
	if vBedErr != nil {
		vC16Inconclusive("cannot start the auth bed: " + vBedErr.Error())
	}
	fresh := &meta.Data{Index: vBed.d.Index + 1, ClusterID: 1, MetaNodes: vBed.d.MetaNodes, MaxNodeID: 1}
	if err := vBed.install(fresh); err != nil {
		vC16Inconclusive(err.Error())
	}
	qs := []string{
		"CREATE USER a WITH PASSWORD 'x' WITH ALL PRIVILEGES; DROP DATABASE db0",
		"CREATE USER a WITH PASSWORD 'x' WITH ALL PRIVILEGES; SELECT * FROM db1..m; DROP SERIES FROM m",
		"CREATE USER a WITH PASSWORD 'x' WITH ALL PRIVILEGES; CREATE USER b WITH PASSWORD 'y' WITH ALL PRIVILEGES",
	}
	for _, q := range qs {
		r := httptest.NewRequest("POST", "/query", strings.NewReader(url.Values{"q": {q}, "db": {"db0"}}.Encode()))
		r.Header.Set("Content-Type", "application/x-www-form-urlencoded")
		vBed.exec.take()
		rec := httptest.NewRecorder()
		vBed.h.ServeHTTP(rec, r)
		ran, _ := vBed.exec.take()
		if len(ran) > 0 {
			fmt.Printf("VERIF-CASE %s\n", q)
			t.Fatalf("%s POST /query q=%q without credentials at zero users -> %d, executed %v", verifkit.Sig(vSigZeroUsersMulti), q, rec.Code, ran)
		}
		st.Case(true, q, fmt.Sprintf("status:%d", rec.Code))
		st.Sample(fmt.Sprintf("POST /query q=%q without credentials -> %d, nothing executed", q, rec.Code))
	}
}
