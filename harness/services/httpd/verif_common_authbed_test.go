//go:build verif

package httpd

// Bed A, HTTP side (DESIGN.md section 3): a real httpd.Handler with AuthEnabled whose MetaClient is a
// real meta.Client. The client gets its metadata through its own pollForUpdates loop from a tiny
// long-polling meta server run by the harness (the only exported way to install metadata in a client,
// and exactly the production path: getSnapshot -> swap -> updateAuthCache). QueryAuthorizer and
// WriteAuthorizer are the real ones over that client; QueryExecutor's StatementExecutor and the
// PointsWriter are recorders.

import (
	"fmt"
	"net/http"
	"net/http/httptest"
	"os"
	"strconv"
	"strings"
	"sync"
	"time"

	"github.com/influxdata/influxdb/models"
	"github.com/influxdata/influxdb/query"
	"github.com/influxdata/influxdb/services/meta"
	"github.com/influxdata/influxql"
	"verifkit"
)

type vMetaSrv struct {
	mu     sync.Mutex
	cond   *sync.Cond
	data   *meta.Data
	closed bool
	srv    *httptest.Server
}

func vNewMetaSrv() *vMetaSrv {
	s := &vMetaSrv{}
	s.cond = sync.NewCond(&s.mu)
	s.srv = httptest.NewServer(s)
	d := &meta.Data{Index: 1, ClusterID: 1}
	d.MetaNodes = []meta.NodeInfo{{ID: 1, Addr: s.addr(), TCPAddr: "127.0.0.1:1"}}
	d.MaxNodeID = 1
	s.data = d
	return s
}

func (s *vMetaSrv) addr() string { return strings.TrimPrefix(s.srv.URL, "http://") }

// ServeHTTP answers the client's snapshot long-poll: GET /?index=N returns once the published
// metadata is newer than N.
func (s *vMetaSrv) ServeHTTP(w http.ResponseWriter, r *http.Request) {
	idx, _ := strconv.ParseUint(r.URL.Query().Get("index"), 10, 64)
	s.mu.Lock()
	for !s.closed && s.data.Index <= idx {
		s.cond.Wait()
	}
	if s.closed {
		s.mu.Unlock()
		http.Error(w, "closed", http.StatusServiceUnavailable)
		return
	}
	b, err := s.data.MarshalBinary()
	s.mu.Unlock()
	if err != nil {
		http.Error(w, err.Error(), http.StatusInternalServerError)
		return
	}
	w.Write(b)
}

func (s *vMetaSrv) publish(d *meta.Data) {
	s.mu.Lock()
	s.data = d
	s.cond.Broadcast()
	s.mu.Unlock()
}

func (s *vMetaSrv) close() {
	s.mu.Lock()
	s.closed = true
	s.cond.Broadcast()
	s.mu.Unlock()
	s.srv.CloseClientConnections()
	s.srv.Close()
}

type vStmtRecorder struct {
	mu    sync.Mutex
	stmts []string
	// visible[db] = what the coarse authorizer handed to the executor says about db (SHOW DATABASES filter)
	coarse map[string][2]bool
	dbs    []string
}

func (r *vStmtRecorder) ExecuteStatement(ctx *query.ExecutionContext, stmt influxql.Statement) error {
	r.mu.Lock()
	r.stmts = append(r.stmts, stmt.String())
	if _, ok := stmt.(*influxql.ShowDatabasesStatement); ok && ctx.CoarseAuthorizer != nil {
		// what coordinator.StatementExecutor.executeShowDatabasesStatement asks for every database
		r.coarse = map[string][2]bool{}
		for _, db := range r.dbs {
			r.coarse[db] = [2]bool{ctx.CoarseAuthorizer.AuthorizeDatabase(influxql.ReadPrivilege, db), ctx.CoarseAuthorizer.AuthorizeDatabase(influxql.WritePrivilege, db)}
		}
	}
	r.mu.Unlock()
	return ctx.Send(&query.Result{})
}

func (r *vStmtRecorder) take() (stmts []string, coarse map[string][2]bool) {
	r.mu.Lock()
	defer r.mu.Unlock()
	stmts, coarse = r.stmts, r.coarse
	r.stmts, r.coarse = nil, nil
	return
}

type vWriteRec struct {
	DB   string
	User string
	N    int
}

type vPointsRecorder struct {
	mu     sync.Mutex
	writes []vWriteRec
}

func (p *vPointsRecorder) WritePoints(database, retentionPolicy string, consistencyLevel models.ConsistencyLevel, user meta.User, points []models.Point) error {
	p.mu.Lock()
	defer p.mu.Unlock()
	id := ""
	if user != nil {
		id = user.ID()
	}
	p.writes = append(p.writes, vWriteRec{database, id, len(points)})
	return nil
}

func (p *vPointsRecorder) take() []vWriteRec {
	p.mu.Lock()
	defer p.mu.Unlock()
	w := p.writes
	p.writes = nil
	return w
}

const vSharedSecret = "verif-shared-secret"

type vAuthBed struct {
	srv  *vMetaSrv
	c    *meta.Client
	dir  string
	d    *meta.Data // last published
	h    *Handler
	exec *vStmtRecorder
	pw   *vPointsRecorder
}

func vNewAuthBed() (*vAuthBed, error) {
	b := &vAuthBed{srv: vNewMetaSrv(), exec: &vStmtRecorder{}, pw: &vPointsRecorder{}}
	dir, err := os.MkdirTemp("", "c16meta")
	if err != nil {
		return nil, err
	}
	b.dir = dir
	cfg := meta.NewConfig()
	cfg.Dir = dir
	b.c = meta.NewClient(cfg)
	b.c.SetMetaServers([]string{b.srv.addr()})
	b.d = b.srv.data
	if err := b.c.Open(); err != nil {
		return nil, err
	}
	hc := NewConfig()
	hc.AuthEnabled = true
	hc.SharedSecret = vSharedSecret
	hc.LogEnabled = false
	hc.PprofEnabled = false
	b.h = NewHandler(hc)
	b.h.MetaClient = b.c
	b.h.QueryAuthorizer = meta.NewQueryAuthorizer(b.c)
	b.h.WriteAuthorizer = meta.NewWriteAuthorizer(b.c)
	b.h.QueryExecutor = query.NewExecutor()
	b.h.QueryExecutor.StatementExecutor = b.exec
	b.h.PointsWriter = b.pw
	b.h.Version = "0.0.0"
	b.h.BuildType = "verif"
	return b, nil
}

// install publishes d (whose Index must be the previous index + 1) and waits until the client's own
// pollForUpdates loop has swapped it in (the `changed` channel is closed after the swap and
// updateAuthCache, under the client's lock). A missed deadline is a harness problem (inconclusive).
func (b *vAuthBed) install(d *meta.Data) error {
	ch := b.c.WaitForDataChanged()
	b.srv.publish(d)
	if !verifkit.Watch(20*time.Second, func() { <-ch }) {
		return fmt.Errorf("meta client did not pick up index %d within 20s", d.Index)
	}
	if got := b.c.Data().Index; got != d.Index {
		return fmt.Errorf("meta client is at index %d after install of %d", got, d.Index)
	}
	b.d = d
	return nil
}

func (b *vAuthBed) close() {
	b.c.Close()
	b.srv.close()
	b.h.QueryExecutor.Close()
	b.h.Close()
	os.RemoveAll(b.dir)
}
