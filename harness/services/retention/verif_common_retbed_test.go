//go:build verif

package retention

// Bed S (DESIGN.md section 3): the real retention.Service with a tiny CheckInterval; its MetaClient is an
// adapter over a real meta.Data (every accepted command clones the value and applies the Data method the
// state machine applies, so a published value is never mutated) with scripted errors; its TSDBStore is a
// recorder over a set of local shard ids.
//
// The service has no function for a single enforcement pass (the pass is the body of the ticker case in
// run()), so passes are made synchronous with a gate instead: the adapter's Databases() - the first call
// of every pass - parks the service goroutine until the harness lets exactly one pass through, and
// PruneShardGroups() - the last call of every pass - reports the end of the pass. No sleeps; a pass that
// does not arrive or finish within the watchdog is inconclusive.

import (
	"errors"
	"fmt"
	"sort"
	"sync"
	"time"

	"github.com/influxdata/influxdb/services/meta"
	"github.com/influxdata/influxdb/toml"
)

type vRetEvent struct {
	Kind string // "dsg" DeleteShardGroup, "ds" DeleteShard, "prune"
	DB   string
	RP   string
	ID   uint64
	Err  bool
	At   *meta.Data // metadata value current when the call was made (immutable)
}

// vRetMeta is the metadata shared by all nodes of one case.
type vRetMeta struct {
	mu   sync.Mutex
	data *meta.Data
	// want is the duration REQUESTED for each policy ("db.rp") by the last accepted create / alter; the
	// oracle judges expiry by it, not by what the metadata happens to store
	want map[string]time.Duration
}

// view returns a copy of d in which every policy carries its requested duration (the oracle's reading).
func (m *vRetMeta) view(d *meta.Data) *meta.Data {
	n := d.Clone()
	for i := range n.Databases {
		for j := range n.Databases[i].RetentionPolicies {
			rp := &n.Databases[i].RetentionPolicies[j]
			if w, ok := m.want[n.Databases[i].Name+"."+rp.Name]; ok {
				rp.Duration = w
			}
		}
	}
	return n
}

func (m *vRetMeta) get() *meta.Data {
	m.mu.Lock()
	defer m.mu.Unlock()
	return m.data
}

// update applies f to a clone and publishes it.
func (m *vRetMeta) update(f func(d *meta.Data) error) error {
	m.mu.Lock()
	defer m.mu.Unlock()
	n := m.data.Clone()
	if err := f(n); err != nil {
		return err
	}
	n.Index++
	m.data = n
	return nil
}

var errScripted = errors.New("scripted failure")

// vRetNode is one data node: the service, its view of the metadata and its local shards.
type vRetNode struct {
	id     int
	meta   *vRetMeta
	svc    *Service
	arrive chan struct{}
	go1    chan struct{}
	done   chan struct{}
	quit   chan struct{}

	mu        sync.Mutex
	local     map[uint64]bool
	events    []vRetEvent
	failSG    map[uint64]bool
	failShard map[uint64]bool
	failPrune bool
	inPass    bool
}

// --- MetaClient side
func (n *vRetNode) Databases() []meta.DatabaseInfo {
	select {
	case n.arrive <- struct{}{}:
	case <-n.quit:
		return nil
	}
	select {
	case <-n.go1:
	case <-n.quit:
		return nil
	}
	n.mu.Lock()
	n.inPass = true
	n.mu.Unlock()
	return n.meta.get().Databases
}

func (n *vRetNode) DeleteShardGroup(database, policy string, id uint64) error {
	n.mu.Lock()
	fail := n.failSG[id]
	n.events = append(n.events, vRetEvent{Kind: "dsg", DB: database, RP: policy, ID: id, Err: fail, At: n.meta.get()})
	n.mu.Unlock()
	if fail {
		return errScripted
	}
	return n.meta.update(func(d *meta.Data) error { return d.DeleteShardGroup(database, policy, id) })
}

func (n *vRetNode) PruneShardGroups() error {
	n.mu.Lock()
	if !n.inPass { // after quit
		n.mu.Unlock()
		return nil
	}
	fail := n.failPrune
	n.events = append(n.events, vRetEvent{Kind: "prune", Err: fail, At: n.meta.get()})
	n.inPass = false
	n.mu.Unlock()
	var err error
	if fail {
		err = errScripted
	} else {
		err = n.meta.update(func(d *meta.Data) error { d.PruneShardGroups(); return nil })
	}
	select {
	case n.done <- struct{}{}:
	case <-n.quit:
	}
	return err
}

// --- TSDBStore side
func (n *vRetNode) ShardIDs() []uint64 {
	n.mu.Lock()
	defer n.mu.Unlock()
	ids := make([]uint64, 0, len(n.local))
	for id := range n.local {
		ids = append(ids, id)
	}
	sort.Slice(ids, func(i, j int) bool { return ids[i] < ids[j] })
	return ids
}

func (n *vRetNode) DeleteShard(id uint64) error {
	n.mu.Lock()
	defer n.mu.Unlock()
	fail := n.failShard[id]
	n.events = append(n.events, vRetEvent{Kind: "ds", ID: id, Err: fail, At: n.meta.get()})
	if fail {
		return errScripted
	}
	delete(n.local, id)
	return nil
}

func vNewRetNode(id int, m *vRetMeta, local []uint64) *vRetNode {
	n := &vRetNode{id: id, meta: m, arrive: make(chan struct{}), go1: make(chan struct{}), done: make(chan struct{}), quit: make(chan struct{}), local: map[uint64]bool{}}
	for _, s := range local {
		n.local[s] = true
	}
	n.svc = NewService(Config{Enabled: true, CheckInterval: toml.Duration(2 * time.Millisecond)})
	n.svc.MetaClient = n
	n.svc.TSDBStore = n
	return n
}

// pass lets exactly one enforcement pass of this node run with the given scripted failures and returns
// the calls it made. ok=false: the pass did not start or finish within the watchdog (inconclusive).
func (n *vRetNode) pass(failSG, failShard map[uint64]bool, failPrune bool, watchdog time.Duration) (ev []vRetEvent, ok bool) {
	timer := time.NewTimer(watchdog)
	defer timer.Stop()
	select {
	case <-n.arrive:
	case <-timer.C:
		return nil, false
	}
	n.mu.Lock()
	n.events = nil
	n.failSG, n.failShard, n.failPrune = failSG, failShard, failPrune
	n.mu.Unlock()
	select {
	case n.go1 <- struct{}{}:
	case <-timer.C:
		return nil, false
	}
	select {
	case <-n.done:
	case <-timer.C:
		return nil, false
	}
	n.mu.Lock()
	defer n.mu.Unlock()
	ev = n.events
	n.events = nil
	return ev, true
}

func (n *vRetNode) localIDs() []uint64 { return n.ShardIDs() }

func (n *vRetNode) close() {
	close(n.quit)
	n.svc.Close()
}

// vFindGroupOfShard returns the policy and group a shard id belongs to in d (nil if unknown).
func vFindGroupOfShard(d *meta.Data, id uint64) (*meta.RetentionPolicyInfo, *meta.ShardGroupInfo) {
	for i := range d.Databases {
		for j := range d.Databases[i].RetentionPolicies {
			rp := &d.Databases[i].RetentionPolicies[j]
			for k := range rp.ShardGroups {
				for _, sh := range rp.ShardGroups[k].Shards {
					if sh.ID == id {
						return rp, &rp.ShardGroups[k]
					}
				}
			}
		}
	}
	return nil, nil
}

func vFindGroup(d *meta.Data, db, rpName string, id uint64) (*meta.RetentionPolicyInfo, *meta.ShardGroupInfo) {
	for i := range d.Databases {
		if db != "" && d.Databases[i].Name != db {
			continue
		}
		for j := range d.Databases[i].RetentionPolicies {
			rp := &d.Databases[i].RetentionPolicies[j]
			if rpName != "" && rp.Name != rpName {
				continue
			}
			for k := range rp.ShardGroups {
				if rp.ShardGroups[k].ID == id {
					return rp, &rp.ShardGroups[k]
				}
			}
		}
	}
	return nil, nil
}

// vExpiredAt is the harness's expiry predicate: the group's entire time range is older than the
// retention period at instant t; an infinite policy (duration 0) never expires anything.
func vExpiredAt(rp *meta.RetentionPolicyInfo, g *meta.ShardGroupInfo, t time.Time) bool {
	if rp.Duration == 0 {
		return false
	}
	return g.EndTime.UnixNano()+int64(rp.Duration) < t.UnixNano()
}

func vDescribeGroup(rp *meta.RetentionPolicyInfo, g *meta.ShardGroupInfo, now time.Time) string {
	var sh []uint64
	for _, s := range g.Shards {
		sh = append(sh, s.ID)
	}
	del := "-"
	if g.Deleted() {
		del = now.Sub(g.DeletedAt).Round(time.Second).String() + " ago"
	}
	return fmt.Sprintf("group %d of %s(dur=%s sgd=%s) end=now%+v deleted=%s shards=%v", g.ID, rp.Name, rp.Duration, rp.ShardGroupDuration, g.EndTime.Sub(now).Round(time.Second), del, sh)
}
