//go:build verif

package retention

// C17 - retention removes only expired data, and removes all of it. DESIGN.md section 4, C17.
// (The write-side clause "a point is dropped as too old <=> t < now - duration" is checked by C08.)

import (
	"fmt"
	"os"
	"sort"
	"strings"
	"testing"
	"time"

	"github.com/influxdata/influxdb/services/meta"
	"pgregory.net/rapid"
	"verifkit"
)

// generated instants stay this far from every boundary time.Now() decides (DESIGN asks for >= 5 s; 65 s is
// used so that a case may take up to 30 s on a busy machine before it is declared inconclusive)
const vMargin = 65 * time.Second
const vPruneAge = 14 * 24 * time.Hour

func vC17Inconclusive(msg string) {
	fmt.Println("VERIF-INCONCLUSIVE " + msg)
	verifkit.FlushAll()
	os.Exit(3)
}

var vC17Durations = []time.Duration{0, time.Hour, 2 * time.Hour, 6 * time.Hour, 24 * time.Hour, 3 * 24 * time.Hour, 7 * 24 * time.Hour, 30 * 24 * time.Hour}

type vC17Policy struct {
	DB, RP string
}

// vC17Build draws the metadata of one case. now is the real instant captured at case start.
func vC17Build(rt *rapid.T, now time.Time, classes map[string]bool, want map[string]time.Duration) (*meta.Data, []vC17Policy) {
	d := &meta.Data{Index: 1}
	nNodes := rapid.IntRange(1, 3).Draw(rt, "dataNodes")
	for i := 0; i < nNodes; i++ {
		if err := d.CreateDataNode(fmt.Sprintf("h%d:8086", i), fmt.Sprintf("h%d:8088", i)); err != nil {
			rt.Fatalf("%s CreateDataNode: %v", verifkit.Sig("harness-setup"), err)
		}
	}
	var pols []vC17Policy
	nDB := rapid.IntRange(1, 2).Draw(rt, "databases")
	for i := 0; i < nDB; i++ {
		db := fmt.Sprintf("db%d", i)
		if err := d.CreateDatabase(db); err != nil {
			rt.Fatalf("%s CreateDatabase: %v", verifkit.Sig("harness-setup"), err)
		}
		nRP := rapid.IntRange(1, 2).Draw(rt, "policies")
		for j := 0; j < nRP; j++ {
			dur := rapid.SampledFrom(vC17Durations).Draw(rt, "duration")
			var sgd time.Duration // 0 = default for the duration
			if rapid.Bool().Draw(rt, "explicitShardDuration") {
				sgd = rapid.SampledFrom([]time.Duration{time.Hour, 2 * time.Hour, 24 * time.Hour}).Draw(rt, "shardDuration")
				if dur != 0 && sgd > dur {
					sgd = dur
				}
			}
			rp := &meta.RetentionPolicyInfo{Name: fmt.Sprintf("rp%d", j), ReplicaN: rapid.IntRange(1, 2).Draw(rt, "replicaN"), Duration: dur, ShardGroupDuration: sgd}
			if err := d.CreateRetentionPolicy(db, rp, j == 0); err != nil {
				rt.Fatalf("%s CreateRetentionPolicy(%v): %v", verifkit.Sig("harness-setup"), rp, err)
			}
			if got, _ := d.RetentionPolicy(db, rp.Name); got == nil || got.Duration != dur {
				rt.Fatalf("%s CreateRetentionPolicy(%s.%s, duration %s) stored %v", verifkit.Sig("policy-duration-not-stored"), db, rp.Name, dur, got)
			}
			want[db+"."+rp.Name] = dur
			pols = append(pols, vC17Policy{db, rp.Name})
		}
	}
	for _, p := range pols {
		vC17AddGroups(rt, d, p, now, rapid.IntRange(0, 6).Draw(rt, "groups"))
	}
	return d, pols
}

// vC17AddGroups creates n shard groups in policy p through Data.CreateShardGroup (so they are aligned and
// non-overlapping like real ones) at instants chosen relative to now and to the policy's duration:
// long expired, just expired, straddling now-duration (start is older than the retention period, end is
// not), alive, current, future.
func vC17AddGroups(rt *rapid.T, d *meta.Data, p vC17Policy, now time.Time, n int) {
	rp, _ := d.RetentionPolicy(p.DB, p.RP)
	dur := rp.Duration
	if dur == 0 {
		dur = rapid.SampledFrom([]time.Duration{time.Hour, 24 * time.Hour, 30 * 24 * time.Hour}).Draw(rt, "pseudoDuration")
	}
	sgd := rp.ShardGroupDuration
	for i := 0; i < n; i++ {
		var ts time.Time
		switch rapid.SampledFrom([]string{"long-expired", "just-expired", "just-expired", "straddling", "straddling", "just-alive", "alive", "current", "future"}).Draw(rt, "groupAt") {
		case "long-expired":
			ts = now.Add(-dur - sgd*time.Duration(rapid.IntRange(3, 40).Draw(rt, "k")))
		case "just-expired": // the last group that is entirely older than the retention period
			ts = now.Add(-dur - sgd)
		case "straddling": // contains now-duration
			ts = now.Add(-dur)
		case "just-alive":
			ts = now.Add(-dur + sgd)
		case "alive":
			ts = now.Add(-time.Duration(rapid.Int64Range(0, int64(dur)).Draw(rt, "age")))
		case "current":
			ts = now
		default:
			ts = now.Add(sgd * time.Duration(rapid.IntRange(1, 3).Draw(rt, "k")))
		}
		if err := d.CreateShardGroup(p.DB, p.RP, ts); err != nil {
			rt.Fatalf("%s CreateShardGroup(%s.%s,%v): %v", verifkit.Sig("harness-setup"), p.DB, p.RP, ts, err)
		}
	}
}

// vC17DropNearBoundary removes (directly, harness-side) every group whose expiry instant, or whose prune
// instant, is within vMargin of now: for those the verdict would depend on the wall clock.
func vC17DropNearBoundary(d *meta.Data, now time.Time, want map[string]time.Duration) (dropped int) {
	for i := range d.Databases {
		for j := range d.Databases[i].RetentionPolicies {
			rp := &d.Databases[i].RetentionPolicies[j]
			var keep []meta.ShardGroupInfo
			for _, g := range rp.ShardGroups {
				near := false
				for _, dur := range []time.Duration{rp.Duration, want[d.Databases[i].Name+"."+rp.Name]} {
					if dur != 0 {
						x := g.EndTime.Add(dur).Sub(now)
						near = near || (x > -vMargin && x < vMargin)
					}
				}
				if g.Deleted() {
					x := now.Sub(g.DeletedAt) - vPruneAge
					near = near || (x > -vMargin && x < vMargin)
				}
				if near {
					dropped++
					continue
				}
				keep = append(keep, g)
			}
			rp.ShardGroups = keep
		}
	}
	return dropped
}

type vC17Group struct {
	DB, RP string
	ID     uint64
}

func vC17AllGroups(d *meta.Data) []vC17Group {
	var out []vC17Group
	for _, db := range d.Databases {
		for _, rp := range db.RetentionPolicies {
			for _, g := range rp.ShardGroups {
				out = append(out, vC17Group{db.Name, rp.Name, g.ID})
			}
		}
	}
	return out
}

func vC17AllShards(d *meta.Data) []uint64 {
	var out []uint64
	for _, db := range d.Databases {
		for _, rp := range db.RetentionPolicies {
			for _, g := range rp.ShardGroups {
				for _, s := range g.Shards {
					out = append(out, s.ID)
				}
			}
		}
	}
	sort.Slice(out, func(i, j int) bool { return out[i] < out[j] })
	return out
}

// vC17Mutate draws one metadata change made between passes (or before the first one).
func vC17Mutate(rt *rapid.T, m *vRetMeta, pols []vC17Policy, now time.Time, classes map[string]bool) string {
	p := rapid.SampledFrom(pols).Draw(rt, "policy")
	switch k := rapid.SampledFrom([]string{"alterDuration", "alterDuration", "markDeletedNow", "markDeletedLongAgo", "markDeleted13d", "truncate", "newGroups"}).Draw(rt, "mutation"); k {
	case "alterDuration":
		// through the real Data.UpdateRetentionPolicy: finite->INF, INF->finite, shorter, longer (a duration
		// below the shard duration is refused by the validation and leaves everything as it was)
		old := m.want[p.DB+"."+p.RP]
		nd := rapid.SampledFrom(vC17Durations).Draw(rt, "newDuration")
		if rapid.IntRange(0, 3).Draw(rt, "toInfinite") == 0 {
			nd = 0
		}
		err := m.update(func(d *meta.Data) error {
			if err := d.UpdateRetentionPolicy(p.DB, p.RP, &meta.RetentionPolicyUpdate{Duration: &nd}, false); err != nil {
				return err
			}
			if got, _ := d.RetentionPolicy(p.DB, p.RP); got == nil || got.Duration != nd {
				rt.Fatalf("%s UpdateRetentionPolicy(%s.%s, duration %s -> %s) returned nil but the stored duration is %v", verifkit.Sig("alter-duration-not-applied"), p.DB, p.RP, old, nd, got.Duration)
			}
			return nil
		})
		kind := "same"
		switch {
		case err != nil:
			kind = "refused"
		case old != 0 && nd == 0:
			kind = "finite->inf"
		case old == 0 && nd != 0:
			kind = "inf->finite"
		case nd < old:
			kind = "shorter"
		case nd > old:
			kind = "longer"
		}
		if err == nil {
			m.want[p.DB+"."+p.RP] = nd
		}
		classes["mutation:alterDuration:"+kind] = true
		return fmt.Sprintf("alter %s.%s duration %s -> %s (err=%v)", p.DB, p.RP, old, nd, err)
	case "markDeletedNow", "markDeletedLongAgo", "markDeleted13d":
		gs := vC17AllGroups(m.get())
		if len(gs) == 0 {
			return "no group to delete"
		}
		g := rapid.SampledFrom(gs).Draw(rt, "group")
		m.update(func(d *meta.Data) error {
			if err := d.DeleteShardGroup(g.DB, g.RP, g.ID); err != nil {
				return err
			}
			_, sg := vFindGroup(d, g.DB, g.RP, g.ID)
			switch k {
			case "markDeletedLongAgo": // prunable
				sg.DeletedAt = now.Add(-vPruneAge - time.Duration(rapid.IntRange(1, 400).Draw(rt, "hoursBeyond"))*time.Hour)
			case "markDeleted13d": // deleted, not yet prunable
				sg.DeletedAt = now.Add(-13 * 24 * time.Hour)
			}
			return nil
		})
		classes["mutation:"+k] = true
		return fmt.Sprintf("%s group %d of %s.%s", k, g.ID, g.DB, g.RP)
	case "truncate":
		at := now.Add(-time.Duration(rapid.Int64Range(0, int64(48*time.Hour)).Draw(rt, "truncAge")))
		m.update(func(d *meta.Data) error { d.TruncateShardGroups(at); return nil })
		classes["mutation:truncate"] = true
		return fmt.Sprintf("truncate at now-%s", now.Sub(at))
	default:
		m.update(func(d *meta.Data) error {
			vC17AddGroups(rt, d, p, now, rapid.IntRange(1, 3).Draw(rt, "moreGroups"))
			return nil
		})
		classes["mutation:newGroups"] = true
		return fmt.Sprintf("new groups in %s.%s", p.DB, p.RP)
	}
}

func vSubset(rt *rapid.T, ids []uint64, label string) map[uint64]bool {
	out := map[uint64]bool{}
	for _, id := range ids {
		if rapid.IntRange(0, 3).Draw(rt, label) == 0 {
			out[id] = true
		}
	}
	return out
}

func TestVerifC17Retention(t *testing.T) {
	st := verifkit.For("C17", "TestVerifC17Retention",
		"rapid cases: 1-3 data nodes, 1-2 databases x 1-2 policies (duration infinite, 1h..30d; default or explicit shard duration), 0-6 groups per policy created with Data.CreateShardGroup at instants relative to the real now (long expired, just expired, straddling now-duration, just alive, alive, current, future; every expiry/prune instant >= 5 s from now), mutations before and between passes (duration altered, group marked deleted now / 13 d ago / > 14 d ago, truncation, new groups), 1-2 service nodes whose local shard sets are random subsets of the metadata's shards plus unknown ids, 1-4 gated enforcement passes per case with scripted DeleteShardGroup / DeleteShard / PruneShardGroups failures. Non-trivial = some policy has an expired and an alive group at a pass, or a scripted error hit a call; distinct = hash of per-pass (calls, failures) shape")
	defer st.Flush()
	rapid.Check(t, func(rt *rapid.T) {
		now := time.Now().UTC()
		classes := map[string]bool{}
		var trace []string
		var canon strings.Builder
		want := map[string]time.Duration{}
		d, pols := vC17Build(rt, now, classes, want)
		m := &vRetMeta{data: d, want: want}
		for i, n := 0, rapid.IntRange(0, 4).Draw(rt, "preMutations"); i < n; i++ {
			trace = append(trace, vC17Mutate(rt, m, pols, now, classes))
		}
		m.update(func(d *meta.Data) error {
			if k := vC17DropNearBoundary(d, now, m.want); k > 0 {
				classes["dropped-near-boundary-group"] = true
			}
			return nil
		})
		// nodes and their local shards
		all := vC17AllShards(m.get())
		maxID := m.get().MaxShardID
		nNodes := rapid.IntRange(1, 2).Draw(rt, "serviceNodes")
		var nodes []*vRetNode
		for i := 0; i < nNodes; i++ {
			var local []uint64
			for _, id := range all {
				if rapid.IntRange(0, 2).Draw(rt, "holdsShard") > 0 {
					local = append(local, id)
				}
			}
			for k, u := 0, rapid.IntRange(0, 2).Draw(rt, "unknownShards"); k < u; k++ {
				local = append(local, maxID+100+uint64(10*i+k))
			}
			nd := vNewRetNode(i, m, local)
			if err := nd.svc.Open(); err != nil {
				rt.Fatalf("%s Open: %v", verifkit.Sig("harness-setup"), err)
			}
			nodes = append(nodes, nd)
			trace = append(trace, fmt.Sprintf("node %d local shards %v", i, local))
		}
		defer func() {
			for _, nd := range nodes {
				nd.close()
			}
		}()
		classes[fmt.Sprintf("service-nodes:%d", nNodes)] = true
		nt := false
		passes := rapid.IntRange(1, 4).Draw(rt, "passes")
		for p := 0; p < passes; p++ {
			if p > 0 && rapid.Bool().Draw(rt, "mutateBetween") {
				trace = append(trace, vC17Mutate(rt, m, pols, now, classes))
				m.update(func(d *meta.Data) error { vC17DropNearBoundary(d, now, m.want); return nil })
			}
			nd := nodes[rapid.IntRange(0, nNodes-1).Draw(rt, "node")]
			before := m.view(m.get())
			localBefore := nd.localIDs()
			var failSG, failShard map[uint64]bool
			failPrune := false
			if rapid.IntRange(0, 2).Draw(rt, "scriptErrors") == 0 {
				var gids []uint64
				for _, g := range vC17AllGroups(before) {
					gids = append(gids, g.ID)
				}
				failSG = vSubset(rt, gids, "failDeleteShardGroup")
				failShard = vSubset(rt, localBefore, "failDeleteShard")
				failPrune = rapid.Bool().Draw(rt, "failPrune")
			}
			// what the metadata looks like to the oracle before the pass
			t0 := time.Now().UTC()
			if t0.Sub(now) > 2*time.Second {
				// the case has taken unexpectedly long: margins are still 5 s, keep going, but count it
				classes["slow-case"] = true
			}
			ev, ok := nd.pass(failSG, failShard, failPrune, 20*time.Second)
			if !ok {
				vC17Inconclusive("an enforcement pass did not start or finish within 20 s (ticker interval 2 ms)")
			}
			t1 := time.Now().UTC()
			if t1.Sub(now) > 30*time.Second {
				vC17Inconclusive("case ran longer than 30 s: the margin around generated instants is no longer comfortable")
			}
			after := m.view(m.get())
			// ---- classification of the situation
			errHit := false
			for _, e := range ev {
				if e.Err {
					errHit = true
					classes["scripted-error-hit:"+e.Kind] = true
				}
			}
			for _, db := range before.Databases {
				for i := range db.RetentionPolicies {
					rp := &db.RetentionPolicies[i]
					exp, alive, strad := 0, 0, 0
					for k := range rp.ShardGroups {
						g := &rp.ShardGroups[k]
						switch {
						case g.Deleted():
							if now.Sub(g.DeletedAt) > vPruneAge {
								classes["group:deleted-prunable"] = true
							} else {
								classes["group:deleted-recent"] = true
							}
						case vExpiredAt(rp, g, t0):
							exp++
							classes["group:expired"] = true
							if g.Truncated() {
								classes["group:expired-truncated"] = true
							}
						default:
							alive++
							if rp.Duration != 0 && g.StartTime.Add(rp.Duration).Before(t0) {
								strad++
								classes["group:alive-straddling-cutoff"] = true
							} else if rp.Duration == 0 {
								classes["group:infinite-policy"] = true
							} else {
								classes["group:alive"] = true
							}
							if g.Truncated() {
								classes["group:alive-truncated"] = true
							}
						}
					}
					if exp > 0 && alive > 0 {
						nt = true
						classes["nt:expired-and-alive-in-one-policy"] = true
					}
				}
			}
			if errHit {
				nt = true
			}
			// ---- safety: every call made in this pass
			var shape []string
			deletedShards := map[uint64]bool{}
			for _, e := range ev {
				switch e.Kind {
				case "dsg":
					rp, g := vFindGroup(m.view(e.At), e.DB, e.RP, e.ID)
					switch {
					case g == nil:
						rt.Fatalf("%s DeleteShardGroup(%s,%s,%d): no such group in the metadata", verifkit.Sig("retention-deletes-missing-group"), e.DB, e.RP, e.ID)
					case rp.Duration == 0:
						rt.Fatalf("%s DeleteShardGroup on an infinite policy: %s", verifkit.Sig("retention-expires-infinite-policy"), vDescribeGroup(rp, g, now))
					case !vExpiredAt(rp, g, t1):
						rt.Fatalf("%s DeleteShardGroup on a group that is not older than the retention period: %s", verifkit.Sig("retention-marks-unexpired-group-deleted"), vDescribeGroup(rp, g, now))
					}
					shape = append(shape, fmt.Sprintf("dsg:%v", e.Err))
				case "ds":
					rp, g := vFindGroupOfShard(m.view(e.At), e.ID)
					switch {
					case g == nil:
						rt.Fatalf("%s DeleteShard(%d): the shard is unknown to the metadata", verifkit.Sig("retention-deletes-unknown-shard"), e.ID)
					case g.Deleted() || vExpiredAt(rp, g, t1):
					case rp.Duration == 0:
						rt.Fatalf("%s DeleteShard(%d) of an infinite policy: %s", verifkit.Sig("retention-deletes-shard-of-infinite-policy"), e.ID, vDescribeGroup(rp, g, now))
					default:
						rt.Fatalf("%s DeleteShard(%d): its group is neither marked deleted nor older than the retention period: %s", verifkit.Sig("retention-deletes-live-shard"), e.ID, vDescribeGroup(rp, g, now))
					}
					if !e.Err {
						deletedShards[e.ID] = true
					}
					shape = append(shape, fmt.Sprintf("ds:%v", e.Err))
				case "prune":
					shape = append(shape, fmt.Sprintf("prune:%v", e.Err))
				}
			}
			// prune safety: a group may disappear from the metadata only if it was marked deleted more than 14 d ago
			for _, gb := range vC17AllGroups(before) {
				if _, ga := vFindGroup(after, gb.DB, gb.RP, gb.ID); ga == nil {
					rp, g := vFindGroup(before, gb.DB, gb.RP, gb.ID)
					if !g.Deleted() || t1.Sub(g.DeletedAt) < vPruneAge {
						rt.Fatalf("%s group removed from the metadata: %s", verifkit.Sig("retention-prunes-live-or-recent-group"), vDescribeGroup(rp, g, now))
					}
					classes["pruned-group"] = true
				}
			}
			// ---- bounded liveness: this pass, for everything no scripted failure was aimed at
			for _, gb := range vC17AllGroups(before) {
				rp, g := vFindGroup(before, gb.DB, gb.RP, gb.ID)
				if g.Deleted() {
					if !failPrune && t0.Sub(g.DeletedAt) > vPruneAge {
						if _, ga := vFindGroup(after, gb.DB, gb.RP, gb.ID); ga != nil {
							rt.Fatalf("%s group deleted more than 14 d ago survived a pass without prune failure: %s", verifkit.Sig("retention-prunable-group-kept"), vDescribeGroup(rp, g, now))
						}
					}
					continue
				}
				if vExpiredAt(rp, g, t0) && !failSG[g.ID] {
					if _, ga := vFindGroup(after, gb.DB, gb.RP, gb.ID); ga == nil || !ga.Deleted() {
						rt.Fatalf("%s expired group not marked deleted by a pass without failure for it: %s", verifkit.Sig("retention-expired-group-not-marked-deleted"), vDescribeGroup(rp, g, now))
					}
					classes["liveness:group-marked-deleted"] = true
				}
			}
			localAfter := map[uint64]bool{}
			for _, id := range nd.localIDs() {
				localAfter[id] = true
			}
			for _, id := range localBefore {
				rp, g := vFindGroupOfShard(before, id)
				if g == nil {
					classes["local-shard-unknown-to-metadata"] = true
					if !localAfter[id] {
						rt.Fatalf("%s local shard %d unknown to the metadata disappeared", verifkit.Sig("retention-deletes-unknown-shard"), id)
					}
					continue
				}
				due := g.Deleted() || (vExpiredAt(rp, g, t0) && !failSG[g.ID])
				if due && !failShard[id] {
					if localAfter[id] || !deletedShards[id] {
						rt.Fatalf("%s local shard %d of a deleted group was not removed by a pass without failure for it: %s", verifkit.Sig("retention-shard-of-deleted-group-kept"), id, vDescribeGroup(rp, g, now))
					}
					classes["liveness:local-shard-removed"] = true
				}
				if !due && !localAfter[id] {
					rt.Fatalf("%s local shard %d disappeared: %s", verifkit.Sig("retention-deletes-live-shard"), id, vDescribeGroup(rp, g, now))
				}
				if due && failShard[id] && g.Deleted() && t0.Sub(g.DeletedAt) > vPruneAge && !failPrune {
					classes["shard-orphaned-by-prune-after-failed-delete"] = true
				}
			}
			sort.Strings(shape)
			fmt.Fprintf(&canon, "n%d[%s];", nd.id, strings.Join(shape, ","))
			trace = append(trace, fmt.Sprintf("pass %d on node %d failSG=%v failShard=%v failPrune=%v: %d calls %v", p, nd.id, keys(failSG), keys(failShard), failPrune, len(ev), shape))
			classes[fmt.Sprintf("pass:calls>0=%v", len(ev) > 1)] = true
		}
		var cl []string
		for k := range classes {
			cl = append(cl, k)
		}
		st.Case(nt, canon.String(), cl...)
		if st.WantSample() {
			var groups []string
			fd := m.get()
			for i := range fd.Databases {
				for j := range fd.Databases[i].RetentionPolicies {
					rp := &fd.Databases[i].RetentionPolicies[j]
					for k := range rp.ShardGroups {
						groups = append(groups, fd.Databases[i].Name+": "+vDescribeGroup(rp, &rp.ShardGroups[k], now))
					}
				}
			}
			st.Sample(map[string]interface{}{"steps": trace, "final_groups": groups})
		} else {
			st.Sample(nil)
		}
	})
}

func keys(m map[uint64]bool) []uint64 {
	var out []uint64
	for k := range m {
		out = append(out, k)
	}
	sort.Slice(out, func(i, j int) bool { return out[i] < out[j] })
	return out
}

// TestVerifC17ExpiryBoundary: the exact boundary, on the pure predicate that takes t as an argument.
// ExpiredShardGroups(t) must return exactly the groups that are not marked deleted and whose
// EndTime + Duration is strictly before t; nothing for an infinite policy.
func TestVerifC17ExpiryBoundary(t *testing.T) {
	st := verifkit.For("C17", "TestVerifC17ExpiryBoundary",
		"rapid: a policy (duration 0 or 1h..400d) with 1-8 groups at arbitrary instants (some deleted, some truncated), t drawn from {end+duration-1ns, end+duration, end+duration+1ns, start+duration, start+duration+1ns} of a drawn group or an arbitrary instant; ExpiredShardGroups(t) and DeletedShardGroups() compared with the harness predicate. Non-trivial = t is within 1 ns of some group's expiry instant; distinct = (relative position pattern of the groups to t)")
	defer st.Flush()
	rapid.Check(t, func(rt *rapid.T) {
		base := time.Date(2024, 5, 1, 0, 0, 0, 0, time.UTC)
		dur := time.Duration(0)
		if rapid.IntRange(0, 5).Draw(rt, "infinite") > 0 {
			dur = time.Duration(rapid.Int64Range(int64(time.Hour), int64(400*24*time.Hour)).Draw(rt, "duration"))
		}
		rp := &meta.RetentionPolicyInfo{Name: "rp", ReplicaN: 1, Duration: dur, ShardGroupDuration: time.Hour}
		n := rapid.IntRange(1, 8).Draw(rt, "groups")
		for i := 0; i < n; i++ {
			start := base.Add(time.Duration(rapid.Int64Range(-int64(1000*24*time.Hour), int64(1000*24*time.Hour)).Draw(rt, "start")))
			end := start.Add(time.Duration(rapid.Int64Range(1, int64(7*24*time.Hour)).Draw(rt, "len")))
			g := meta.ShardGroupInfo{ID: uint64(i + 1), StartTime: start, EndTime: end, Shards: []meta.ShardInfo{{ID: uint64(100 + i)}}}
			switch rapid.IntRange(0, 5).Draw(rt, "state") {
			case 0:
				g.DeletedAt = base.Add(time.Duration(rapid.Int64Range(-int64(24*time.Hour), int64(24*time.Hour)).Draw(rt, "deletedAt")))
			case 1:
				g.TruncatedAt = start.Add(end.Sub(start) / 2)
			}
			rp.ShardGroups = append(rp.ShardGroups, g)
		}
		pick := rp.ShardGroups[rapid.IntRange(0, n-1).Draw(rt, "pick")]
		var at time.Time
		kind := rapid.SampledFrom([]string{"end+d-1", "end+d", "end+d+1", "start+d", "start+d+1", "any"}).Draw(rt, "tKind")
		switch kind {
		case "end+d-1":
			at = pick.EndTime.Add(dur).Add(-1)
		case "end+d":
			at = pick.EndTime.Add(dur)
		case "end+d+1":
			at = pick.EndTime.Add(dur).Add(1)
		case "start+d":
			at = pick.StartTime.Add(dur)
		case "start+d+1":
			at = pick.StartTime.Add(dur).Add(1)
		default:
			at = base.Add(time.Duration(rapid.Int64Range(-int64(1500*24*time.Hour), int64(1500*24*time.Hour)).Draw(rt, "t")))
		}
		want := map[uint64]bool{}
		wantDel := map[uint64]bool{}
		nearBoundary := false
		var pattern []string
		for i := range rp.ShardGroups {
			g := &rp.ShardGroups[i]
			if !g.DeletedAt.IsZero() {
				wantDel[g.ID] = true
				pattern = append(pattern, "D")
				continue
			}
			if dur == 0 {
				pattern = append(pattern, "I")
				continue
			}
			x := at.UnixNano() - (g.EndTime.UnixNano() + int64(dur))
			if x > 0 {
				want[g.ID] = true
			}
			switch {
			case x == 0:
				pattern = append(pattern, "=")
				nearBoundary = true
			case x == 1 || x == -1:
				pattern = append(pattern, fmt.Sprint(x))
				nearBoundary = true
			case x > 0:
				pattern = append(pattern, "E")
			default:
				pattern = append(pattern, "A")
			}
		}
		got := map[uint64]bool{}
		for _, g := range rp.ExpiredShardGroups(at) {
			got[g.ID] = true
		}
		for i := range rp.ShardGroups {
			g := &rp.ShardGroups[i]
			if got[g.ID] && !want[g.ID] {
				sig := "expiry-predicate-includes-unexpired-group"
				switch {
				case dur == 0:
					sig = "expiry-predicate-expires-infinite-policy"
				case !g.DeletedAt.IsZero():
					sig = "expiry-predicate-includes-deleted-group"
				case at.UnixNano() == g.EndTime.UnixNano()+int64(dur):
					sig = "expiry-predicate-includes-group-at-exact-boundary"
				}
				rt.Fatalf("%s ExpiredShardGroups(%v) contains group %d [%v,%v) duration %s (t - (end+duration) = %d ns)", verifkit.Sig(sig), at, g.ID, g.StartTime, g.EndTime, dur, at.UnixNano()-(g.EndTime.UnixNano()+int64(dur)))
			}
			if !got[g.ID] && want[g.ID] {
				rt.Fatalf("%s ExpiredShardGroups(%v) misses group %d [%v,%v) duration %s (t - (end+duration) = %d ns)", verifkit.Sig("expiry-predicate-misses-expired-group"), at, g.ID, g.StartTime, g.EndTime, dur, at.UnixNano()-(g.EndTime.UnixNano()+int64(dur)))
			}
		}
		gotDel := map[uint64]bool{}
		for _, g := range rp.DeletedShardGroups() {
			gotDel[g.ID] = true
		}
		for i := range rp.ShardGroups {
			id := rp.ShardGroups[i].ID
			if gotDel[id] != wantDel[id] {
				rt.Fatalf("%s DeletedShardGroups: group %d listed=%v, marked deleted=%v", verifkit.Sig("deleted-groups-listing-wrong"), id, gotDel[id], wantDel[id])
			}
		}
		st.Case(nearBoundary, strings.Join(pattern, ""), "t:"+kind, fmt.Sprintf("infinite:%v", dur == 0))
		if st.WantSample() {
			st.Sample(map[string]interface{}{"duration": dur.String(), "t": at, "pattern": pattern, "expired": fmt.Sprint(got)})
		} else {
			st.Sample(nil)
		}
	})
}
