//go:build verif

package meta

// C06 - cluster metadata is a deterministic function of the committed command log and
// keeps its structural invariants after every command. DESIGN.md section 4, C06.

import (
	"fmt"
	"strings"
	"testing"

	"pgregory.net/rapid"
	"verifkit"
)

const vC06Replicas = 4

type vC06State struct {
	reps         []*store
	idx          uint64
	log          [][]byte
	maxShard     uint64
	maxSG        uint64
	removed      map[uint64]bool // ids removed by an accepted DeleteDataNode and not re-created
	everShardIDs map[uint64]bool
	everSGIDs    map[uint64]bool
}

// vC06Invariants checks I1, I2, I4 on one metadata value. It returns "" or a signature + message.
func vC06Invariants(d *Data, st *vC06State) (sig, msg string) {
	nodes := map[uint64]bool{}
	for _, n := range d.DataNodes {
		if nodes[n.ID] {
			return "dup-data-node-id", fmt.Sprintf("two data nodes share id %d", n.ID)
		}
		nodes[n.ID] = true
	}
	shardIDs := map[uint64]bool{}
	sgIDs := map[uint64]bool{}
	for _, db := range d.Databases {
		for _, rp := range db.RetentionPolicies {
			type rng struct {
				a, b int64
				id   uint64
			}
			var live []rng
			for _, sg := range rp.ShardGroups {
				if sgIDs[sg.ID] {
					return "I2-dup-group-id", fmt.Sprintf("duplicate shard group id %d", sg.ID)
				}
				sgIDs[sg.ID] = true
				if sg.ID > d.MaxShardGroupID {
					return "I2-group-id-above-counter", fmt.Sprintf("group id %d > MaxShardGroupID %d", sg.ID, d.MaxShardGroupID)
				}
				for _, sh := range sg.Shards {
					if shardIDs[sh.ID] {
						return "I2-dup-shard-id", fmt.Sprintf("duplicate shard id %d", sh.ID)
					}
					shardIDs[sh.ID] = true
					if sh.ID > d.MaxShardID {
						return "I2-shard-id-above-counter", fmt.Sprintf("shard id %d > MaxShardID %d", sh.ID, d.MaxShardID)
					}
					seen := map[uint64]bool{}
					for _, o := range sh.Owners {
						if !sg.Deleted() && st.removed[o.NodeID] && !nodes[o.NodeID] {
							return "I4-owned-by-removed-node", fmt.Sprintf("shard %d owned by removed node %d", sh.ID, o.NodeID)
						}
						if seen[o.NodeID] {
							return "I3-duplicate-owner", fmt.Sprintf("shard %d lists owner %d twice", sh.ID, o.NodeID)
						}
						seen[o.NodeID] = true
					}
				}
				if sg.Deleted() {
					continue
				}
				e := sg.EndTime.UnixNano()
				if sg.Truncated() && sg.TruncatedAt.UnixNano() < e {
					e = sg.TruncatedAt.UnixNano()
				}
				live = append(live, rng{sg.StartTime.UnixNano(), e, sg.ID})
			}
			for i := range live {
				for j := i + 1; j < len(live); j++ {
					if live[i].a < live[j].b && live[j].a < live[i].b {
						return "I1-live-groups-overlap", fmt.Sprintf("live groups %d [%d,%d) and %d [%d,%d) overlap in %s.%s", live[i].id, live[i].a, live[i].b, live[j].id, live[j].a, live[j].b, db.Name, rp.Name)
					}
				}
			}
		}
	}
	if d.MaxShardID < st.maxShard || d.MaxShardGroupID < st.maxSG {
		return "I2-counter-went-backwards", fmt.Sprintf("MaxShardID %d (was %d) MaxShardGroupID %d (was %d)", d.MaxShardID, st.maxShard, d.MaxShardGroupID, st.maxSG)
	}
	return "", ""
}

// vC06NewGroups checks I2 (never reused) and I3 for groups that did not exist before the command.
func vC06NewGroups(before, after *Data, st *vC06State) (sig, msg string) {
	old := map[uint64]bool{}
	oldShards := map[uint64]bool{}
	for _, db := range before.Databases {
		for _, rp := range db.RetentionPolicies {
			for _, sg := range rp.ShardGroups {
				old[sg.ID] = true
				for _, sh := range sg.Shards {
					oldShards[sh.ID] = true
				}
			}
		}
	}
	nodes := map[uint64]bool{}
	for _, n := range after.DataNodes {
		nodes[n.ID] = true
	}
	for _, db := range after.Databases {
		for _, rp := range db.RetentionPolicies {
			for _, sg := range rp.ShardGroups {
				if old[sg.ID] {
					continue
				}
				if st.everSGIDs[sg.ID] {
					return "I2-group-id-reused", fmt.Sprintf("new group re-uses id %d", sg.ID)
				}
				want := rp.ReplicaN
				if want < 1 {
					want = 1
				}
				if want > len(after.DataNodes) {
					want = len(after.DataNodes)
				}
				perNode := map[uint64]int{}
				for _, sh := range sg.Shards {
					if oldShards[sh.ID] || st.everShardIDs[sh.ID] {
						return "I2-shard-id-reused", fmt.Sprintf("new group %d re-uses shard id %d", sg.ID, sh.ID)
					}
					if len(sh.Owners) != want {
						return "I3-owner-count", fmt.Sprintf("new shard %d of group %d has %d owners, want min(max(rf,1)=%d, nodes=%d)", sh.ID, sg.ID, len(sh.Owners), rp.ReplicaN, len(after.DataNodes))
					}
					seen := map[uint64]bool{}
					for _, o := range sh.Owners {
						if !nodes[o.NodeID] {
							return "I3-owner-not-a-node", fmt.Sprintf("new shard %d owner %d is not a data node", sh.ID, o.NodeID)
						}
						if seen[o.NodeID] {
							return "I3-duplicate-owner", fmt.Sprintf("new shard %d lists owner %d twice", sh.ID, o.NodeID)
						}
						seen[o.NodeID] = true
						perNode[o.NodeID]++
					}
				}
				if len(sg.Shards) == 0 {
					return "I3-no-shards", fmt.Sprintf("new group %d has no shards", sg.ID)
				}
				mn, mx := 1<<30, 0
				for id := range nodes {
					c := perNode[id]
					if c < mn {
						mn = c
					}
					if c > mx {
						mx = c
					}
				}
				if mx-mn > 1 {
					return "I3-uneven-spread", fmt.Sprintf("new group %d ownership per node differs by %d: %v", sg.ID, mx-mn, perNode)
				}
			}
		}
	}
	return "", ""
}

func (st *vC06State) remember(d *Data) {
	for _, db := range d.Databases {
		for _, rp := range db.RetentionPolicies {
			for _, sg := range rp.ShardGroups {
				st.everSGIDs[sg.ID] = true
				for _, sh := range sg.Shards {
					st.everShardIDs[sh.ID] = true
				}
			}
		}
	}
	st.maxShard, st.maxSG = d.MaxShardID, d.MaxShardGroupID
}

func TestVerifC06Determinism(t *testing.T) {
	stats := verifkit.For("C06", "TestVerifC06Determinism",
		"rapid-generated command logs (34 command kinds over small name pools) applied to 4 fresh replicas command by command and replayed on 2 more at the end; non-trivial = an accepted DeleteDataNode/CopyShardOwner/RemoveShardOwner while a live shard group exists, or a truncate followed by a CreateShardGroup in a policy that had a group; distinct = hash of (kind,result) sequence")
	defer stats.Flush()
	rapid.Check(t, func(rt *rapid.T) {
		auto := rapid.Bool().Draw(rt, "retentionAutoCreate")
		st := &vC06State{removed: map[uint64]bool{}, everShardIDs: map[uint64]bool{}, everSGIDs: map[uint64]bool{}}
		for i := 0; i < vC06Replicas; i++ {
			st.reps = append(st.reps, vReplica(auto))
		}
		st.idx = 1
		n := rapid.IntRange(1, 80).Draw(rt, "logLen")
		// two thirds of the logs start with a generated prefix that builds nodes, a database and
		// groups, so that the rest of the log operates on a populated value
		var warm []string
		if rapid.IntRange(0, 2).Draw(rt, "warm") > 0 {
			for i := rapid.IntRange(1, 4).Draw(rt, "warmNodes"); i > 0; i-- {
				warm = append(warm, "createDataNode")
			}
			warm = append(warm, "createDB", "createRP", "createSG", "createSG", "createSG")
		}
		var canon strings.Builder
		nontrivial := false
		truncatedSeen := false
		classes := map[string]bool{}
		var sample []string
		for step := 0; step < n; step++ {
			cur := st.reps[0].data
			var c vCommand
			if step < len(warm) {
				c = vDrawCommandOfKind(rt, cur, warm[step])
			} else {
				c = vDrawCommand(rt, cur)
			}
			before := cur // Apply never mutates the published value (it clones), checked by C07(c)
			beforeLive := vCanon(before, true)
			beforeFull := vCanon(before, false)
			hadLive := vHasLiveGroup(before)
			st.idx++
			st.log = append(st.log, c.Bytes)
			var res0 string
			for i, r := range st.reps {
				res, p := vApply(r, st.idx, c.Bytes)
				if p != nil {
					rt.Fatalf("%s Apply panicked on replica %d for %s: %v", verifkit.Sig("apply-panic"), i, c.Desc, p)
				}
				if i == 0 {
					res0 = res
				} else if res != res0 {
					rt.Fatalf("%s replica %d returned %q, replica 0 returned %q for %s", verifkit.Sig("D-result-differs"), i, res, res0, c.Desc)
				}
			}
			after := st.reps[0].data
			c0 := vCanon(after, true)
			for i := 1; i < len(st.reps); i++ {
				if ci := vCanon(st.reps[i].data, true); ci != c0 {
					rt.Fatalf("%s replica %d diverged after step %d %s:\n%s\n--- vs replica 0 ---\n%s", verifkit.Sig("D-replicas-diverge"), i, step, c.Desc, ci, c0)
				}
			}
			rejected := res0 != "<nil>"
			if rejected && vCanon(after, false) != beforeFull {
				rt.Fatalf("%s rejected command (%s) changed state: %s\nbefore:\n%s\nafter:\n%s", verifkit.Sig("I5-rejected-command-changed-state"), res0, c.Desc, beforeFull, vCanon(after, false))
			}
			// removed-node bookkeeping from accepted commands only
			curNodes := map[uint64]bool{}
			for _, nd := range after.DataNodes {
				curNodes[nd.ID] = true
				delete(st.removed, nd.ID)
			}
			for _, nd := range before.DataNodes {
				if !curNodes[nd.ID] {
					st.removed[nd.ID] = true
				}
			}
			if sig, msg := vC06Invariants(after, st); sig != "" {
				rt.Fatalf("%s %s after step %d %s\n%s", verifkit.Sig(sig), msg, step, c.Desc, vCanon(after, false))
			}
			if sig, msg := vC06NewGroups(before, after, st); sig != "" {
				rt.Fatalf("%s %s after step %d %s\n%s", verifkit.Sig(sig), msg, step, c.Desc, vCanon(after, false))
			}
			st.remember(after)
			// classification
			r := "ok"
			if rejected {
				r = "rejected"
			} else if c0 == beforeLive {
				r = "noop"
			}
			fmt.Fprintf(&canon, "%s:%s;", c.Kind, r)
			classes["cmd:"+c.Kind+":"+r] = true
			if len(sample) < 40 {
				sample = append(sample, c.Desc+" => "+res0)
			}
			if r == "ok" && hadLive && (c.Kind == "deleteDataNode" || c.Kind == "copyOwner" || c.Kind == "removeOwner") {
				nontrivial = true
				classes["nt:owner-change-with-live-group"] = true
			}
			if c.Kind == "truncate" && r == "ok" {
				truncatedSeen = true
			}
			if c.Kind == "createSG" && r == "ok" && truncatedSeen {
				nontrivial = true
				classes["nt:create-after-truncate"] = true
			}
		}
		// replay the whole log on two more fresh replicas
		final := vCanon(st.reps[0].data, true)
		for k := 0; k < 2; k++ {
			r := vReplica(auto)
			idx := uint64(1)
			for _, b := range st.log {
				idx++
				if _, p := vApply(r, idx, b); p != nil {
					rt.Fatalf("%s replay panicked: %v", verifkit.Sig("apply-panic"), p)
				}
			}
			if got := vCanon(r.data, true); got != final {
				rt.Fatalf("%s replay %d of the log diverged:\n%s\n--- vs ---\n%s", verifkit.Sig("D-replay-diverges"), k, got, final)
			}
		}
		var cl []string
		for k := range classes {
			cl = append(cl, k)
		}
		stats.Case(nontrivial, canon.String(), cl...)
		if stats.WantSample() {
			stats.Sample(map[string]interface{}{"retentionAutoCreate": auto, "log": sample, "final": strings.Split(final, "\n")})
		} else {
			stats.Sample(nil)
		}
	})
}
