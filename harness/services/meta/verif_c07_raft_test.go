//go:build verif

package meta

// C07 (a): histories with faults on a real three-node raft meta cluster (bed M).

import (
	"runtime"
	"fmt"
	"net"
	"net/http"
	"net/url"
	"os"
	"path/filepath"
	"sort"
	"strings"
	"sync"
	"testing"
	"time"

	"github.com/influxdata/influxdb/tcp"
	itoml "github.com/influxdata/influxdb/toml"
	"pgregory.net/rapid"
	"verifkit"
)

type vMNode struct {
	cfg *Config
	svc *Service
	ln  net.Listener
	up  bool
}

// vFreeAddr: a loopback address no other listener of this process has been given (verifkit.FreeAddr).
func vFreeAddr() string { return verifkit.FreeAddr() }

func (m *vMNode) start() error {
	var ln net.Listener
	var err error
	for i := 0; i < 50; i++ {
		ln, err = net.Listen("tcp", m.cfg.BindAddress)
		if err == nil {
			break
		}
		time.Sleep(100 * time.Millisecond)
	}
	if err != nil {
		return err
	}
	m.ln = ln
	mux := tcp.NewMux()
	s := NewService(m.cfg)
	s.RaftListener = mux.Listen(MuxHeader)
	go mux.Serve(ln)
	m.svc = s
	for i := 0; i < 50; i++ {
		if err = s.Open(); err == nil {
			m.up = true
			return nil
		}
		if !strings.Contains(err.Error(), "address already in use") {
			break
		}
		time.Sleep(100 * time.Millisecond)
	}
	ln.Close()
	return err
}

func (m *vMNode) stop() {
	if m.up {
		m.svc.Close()
		m.ln.Close()
		m.up = false
	}
}

func (m *vMNode) dataCanon() (string, uint64) {
	m.svc.store.mu.RLock()
	defer m.svc.store.mu.RUnlock()
	return vCanon(m.svc.store.data, false), m.svc.store.data.Index
}

type vCluster struct {
	nodes []*vMNode
	https []string
}

func vStartCluster(dir string) (*vCluster, error) { return vStartClusterN(dir, 3) }

func vStartClusterN(dir string, size int) (*vCluster, error) {
	c := &vCluster{}
	for i := 0; i < size; i++ {
		cfg := NewConfig()
		cfg.BindAddress = vFreeAddr()
		cfg.HTTPBindAddress = vFreeAddr()
		cfg.Dir = filepath.Join(dir, fmt.Sprint("m", i))
		cfg.LoggingEnabled = false
		cfg.ElectionTimeout = itoml.Duration(300 * time.Millisecond)
		cfg.HeartbeatTimeout = itoml.Duration(300 * time.Millisecond)
		cfg.LeaderLeaseTimeout = itoml.Duration(200 * time.Millisecond)
		cfg.CommitTimeout = itoml.Duration(20 * time.Millisecond)
		c.nodes = append(c.nodes, &vMNode{cfg: cfg})
		c.https = append(c.https, cfg.HTTPBindAddress)
	}
	// Service.Open blocks until a raft leader is known, i.e. until the joins below happened
	var wg sync.WaitGroup
	errs := make([]error, size)
	for i, n := range c.nodes {
		wg.Add(1)
		go func(i int, n *vMNode) { defer wg.Done(); errs[i] = n.start() }(i, n)
	}
	time.Sleep(300 * time.Millisecond)
	deadline := time.Now().Add(30 * time.Second)
	for _, h := range c.https {
		for {
			resp, err := http.PostForm("http://"+c.https[0]+"/join", url.Values{"addr": {h}})
			if err == nil && resp.StatusCode == 200 {
				resp.Body.Close()
				break
			}
			if resp != nil {
				resp.Body.Close()
			}
			if time.Now().After(deadline) {
				return nil, fmt.Errorf("cluster did not form: %v", err)
			}
			time.Sleep(100 * time.Millisecond)
		}
	}
	wg.Wait()
	for _, e := range errs {
		if e != nil {
			return nil, e
		}
	}
	return c, nil
}

// startAll starts every stopped node concurrently (Open returns once a leader is elected).
func (c *vCluster) startAll() error {
	var wg sync.WaitGroup
	errs := make([]error, len(c.nodes))
	for i, n := range c.nodes {
		if n.up {
			continue
		}
		wg.Add(1)
		go func(i int, n *vMNode) { defer wg.Done(); errs[i] = n.start() }(i, n)
	}
	// every node of the cluster is being started, so a leader can be elected and Service.Open returns (normally
	// within a second); a start that has not returned after two minutes is a node that cannot come back
	if !verifkit.Watch(2*time.Minute, wg.Wait) {
		buf := make([]byte, 1<<20)
		buf = buf[:runtime.Stack(buf, true)]
		stacks := string(buf)
		if i := strings.Index(stacks, "(*store).open"); i >= 0 {
			lo, hi := i-1500, i+2500
			if lo < 0 {
				lo = 0
			}
			if hi > len(stacks) {
				hi = len(stacks)
			}
			stacks = stacks[lo:hi]
		} else if len(stacks) > 4000 {
			stacks = stacks[:4000]
		}
		return fmt.Errorf("%s starting every meta node of the cluster did not finish within 2 minutes (Service.Open blocked); goroutines around store.open:\n%s", vErrRestartHangs, stacks)
	}
	for _, e := range errs {
		if e != nil {
			return e
		}
	}
	return nil
}

const vErrRestartHangs = "RESTART-HANGS"

func (c *vCluster) upCount() int {
	n := 0
	for _, m := range c.nodes {
		if m.up {
			n++
		}
	}
	return n
}

func (c *vCluster) stopAll() {
	for _, m := range c.nodes {
		m.stop()
	}
}

func TestVerifC07RaftHistories(t *testing.T) {
	stats := verifkit.For("C07", "TestVerifC07RaftHistories",
		"(a) a real 3-node meta cluster (hashicorp/raft + boltdb + file snapshots, 300 ms election timeout) driven by generated histories of uniquely named client commands (create/drop database, create user, create retention policy), node kills, restarts, full restarts and forced raft snapshots; a command whose client call returned nil is acknowledged and must be reflected in the final state of every meta node and of every client cache after a final full restart, and replicas that have all applied the final barrier command must hold equal metadata. non-trivial = >=1 acknowledged command before and >=1 after a leader loss or full restart, or a forced snapshot followed by a restart; distinct = hash of the action sequence")
	defer stats.Flush()
	rapid.Check(t, func(rt *rapid.T) {
		dir, err := os.MkdirTemp("", "c07raft")
		if err != nil {
			rt.Fatal(err)
		}
		defer os.RemoveAll(dir)
		cl, err := vStartCluster(dir)
		if err != nil {
			stats.Class("inconclusive:cluster-did-not-form", 1)
			rt.Skip("cluster did not form: " + err.Error())
		}
		defer cl.stopAll()
		clients := []*Client{}
		for i := 0; i < 2; i++ {
			cc := NewConfig()
			cc.Dir = filepath.Join(dir, fmt.Sprint("client", i))
			os.MkdirAll(cc.Dir, 0755)
			c := NewClient(cc)
			c.SetMetaServers(cl.https)
			if err := c.Open(); err != nil {
				rt.Fatalf("client open: %v", err)
			}
			defer c.Close()
			clients = append(clients, c)
		}
		ackedDB := map[string]bool{}   // acknowledged create, not dropped
		droppedDB := map[string]bool{} // acknowledged drop
		maybeDB := map[string]bool{}   // unacknowledged create or drop
		ackedUser := map[string]bool{}
		ackedRP := map[string]bool{} // "db.rp"
		seq := 0
		var actions []string
		ackedBefore, ackedAfter, disrupted, snapThenRestart := 0, 0, false, false
		snapped := false
		steps := rapid.IntRange(6, 18).Draw(rt, "steps")
		for s := 0; s < steps; s++ {
			act := rapid.SampledFrom([]string{"cmd", "cmd", "cmd", "cmd", "kill", "restart", "restartAll", "snapshot", "snapshot", "killLeader"}).Draw(rt, "action")
			switch act {
			case "cmd":
				if cl.upCount() < 2 {
					// no quorum: a client call would only time out
					continue
				}
				c := clients[rapid.IntRange(0, len(clients)-1).Draw(rt, "client")]
				kind := rapid.SampledFrom([]string{"createDB", "createDB", "createUser", "dropDB", "createRP"}).Draw(rt, "kind")
				seq++
				var err error
				var desc string
				switch kind {
				case "createDB":
					name := fmt.Sprintf("db_%d", seq)
					desc = "createDB " + name
					_, err = c.CreateDatabase(name)
					if err == nil {
						ackedDB[name] = true
					} else {
						maybeDB[name] = true
					}
				case "createUser":
					name := fmt.Sprintf("u_%d", seq)
					desc = "createUser " + name
					_, err = c.CreateUser(name, "pw", false)
					if err == nil {
						ackedUser[name] = true
					}
				case "dropDB":
					var names []string
					for n := range ackedDB {
						names = append(names, n)
					}
					if len(names) == 0 {
						continue
					}
					sort.Strings(names)
					name := rapid.SampledFrom(names).Draw(rt, "db")
					desc = "dropDB " + name
					err = c.DropDatabase(name)
					delete(ackedDB, name)
					if err == nil {
						droppedDB[name] = true
					} else {
						maybeDB[name] = true
					}
				case "createRP":
					var names []string
					for n := range ackedDB {
						names = append(names, n)
					}
					if len(names) == 0 {
						continue
					}
					sort.Strings(names)
					db := rapid.SampledFrom(names).Draw(rt, "db")
					rp := fmt.Sprintf("rp_%d", seq)
					desc = "createRP " + db + "." + rp
					one := 1
					dur := time.Duration(0)
					_, err = c.CreateRetentionPolicy(db, &RetentionPolicySpec{Name: rp, ReplicaN: &one, Duration: &dur}, false)
					if err == nil {
						ackedRP[db+"."+rp] = true
					}
				}
				if err == nil {
					if disrupted {
						ackedAfter++
					} else {
						ackedBefore++
					}
					actions = append(actions, desc+" ok")
				} else {
					actions = append(actions, desc+" ERR")
				}
			case "kill":
				i := rapid.IntRange(0, 2).Draw(rt, "node")
				if cl.nodes[i].up {
					cl.nodes[i].stop()
					actions = append(actions, fmt.Sprint("kill ", i))
				}
			case "killLeader":
				for i, n := range cl.nodes {
					if n.up && n.svc.store.isLeader() {
						n.stop()
						disrupted = true
						actions = append(actions, fmt.Sprint("killLeader ", i))
						break
					}
				}
			case "restart":
				i := rapid.IntRange(0, 2).Draw(rt, "node")
				if !cl.nodes[i].up && cl.upCount() >= 1 { // Open blocks without a quorum: only restart into one
					if err := cl.nodes[i].start(); err != nil {
						rt.Fatalf("%s meta node %d does not restart: %v", verifkit.Sig("meta-node-restart-fails"), i, err)
					}
					if snapped {
						snapThenRestart = true
					}
					actions = append(actions, fmt.Sprint("restart ", i))
				}
			case "restartAll":
				cl.stopAll()
				if err := cl.startAll(); err != nil {
					if strings.Contains(err.Error(), vErrRestartHangs) {
						rt.Fatalf("%s after history %v: %v", verifkit.Sig("meta-node-restart-hangs"), actions, err)
					}
					rt.Fatalf("%s meta nodes do not restart: %v", verifkit.Sig("meta-node-restart-fails"), err)
				}
				disrupted = true
				if snapped {
					snapThenRestart = true
				}
				actions = append(actions, "restartAll")
			case "snapshot":
				i := rapid.IntRange(0, 2).Draw(rt, "node")
				if cl.nodes[i].up {
					if err := cl.nodes[i].svc.store.raftState.snapshot(); err == nil {
						snapped = true
						actions = append(actions, fmt.Sprint("snapshot ", i))
					}
				}
			}
		}
		// quiescence: full restart, wait for convergence
		cl.stopAll()
		if err := cl.startAll(); err != nil {
			if strings.Contains(err.Error(), vErrRestartHangs) {
				rt.Fatalf("%s after history %v: %v", verifkit.Sig("meta-node-restart-hangs"), actions, err)
			}
			rt.Fatalf("%s meta nodes do not restart: %v", verifkit.Sig("meta-node-restart-fails"), err)
		}
		deadline := time.Now().Add(60 * time.Second)
		// barrier: a freshly restarted raft node applies its log only up to the commit index it
		// learns from the new leader; a command acknowledged now is ordered after everything
		// acknowledged earlier, so a node that shows it has applied the whole history.
		barrier := false
		for time.Now().Before(deadline) {
			if _, err := clients[0].CreateDatabase("zz_barrier"); err == nil {
				barrier = true
				break
			}
			time.Sleep(200 * time.Millisecond)
		}
		var canons [3]string
		converged := false
		for barrier && time.Now().Before(deadline) {
			var idx [3]uint64
			all := true
			for i, n := range cl.nodes {
				canons[i], idx[i] = n.dataCanon()
				if !strings.Contains(canons[i], `db "zz_barrier"`) {
					all = false
				}
			}
			if all && canons[0] == canons[1] && canons[1] == canons[2] {
				converged = true
				break
			}
			if all {
				// every node has applied the barrier command, hence (raft applies in log order) every command
				// acknowledged before it: the replicas are at the same point of the same log and must be equal
				// now - waiting longer cannot repair a difference
				rt.Fatalf("%s after the final restart every meta node has applied the barrier command, but the replicas hold different metadata (a node restored from a log snapshot, or replayed its log, into a different state); history %v\nnode 0: %s\nnode 1: %s\nnode 2: %s", verifkit.Sig("replicas-diverge-after-restart"), actions, canons[0], canons[1], canons[2])
			}
			time.Sleep(100 * time.Millisecond)
		}
		if !converged {
			// liveness within a bound: inconclusive, never a violation
			stats.Class("inconclusive:no-convergence-within-60s", 1)
			return
		}
		final := cl.nodes[0]
		final.svc.store.mu.RLock()
		d := final.svc.store.data.Clone()
		final.svc.store.mu.RUnlock()
		for name := range ackedDB {
			if d.Database(name) == nil {
				rt.Fatalf("%s acknowledged CREATE DATABASE %s is missing after the history %v", verifkit.Sig("acked-metadata-change-lost"), name, actions)
			}
		}
		for name := range droppedDB {
			if d.Database(name) != nil && !maybeDB[name] {
				rt.Fatalf("%s acknowledged DROP DATABASE %s was undone after the history %v", verifkit.Sig("acked-metadata-change-lost"), name, actions)
			}
		}
		for name := range ackedUser {
			if d.user(name) == nil {
				rt.Fatalf("%s acknowledged CREATE USER %s is missing after the history %v", verifkit.Sig("acked-metadata-change-lost"), name, actions)
			}
		}
		for k := range ackedRP {
			p := strings.SplitN(k, ".", 2)
			if !ackedDB[p[0]] {
				continue // database dropped later
			}
			if rpi, _ := d.RetentionPolicy(p[0], p[1]); rpi == nil {
				rt.Fatalf("%s acknowledged CREATE RETENTION POLICY %s is missing after the history %v", verifkit.Sig("acked-metadata-change-lost"), k, actions)
			}
		}
		// client caches converge to the same metadata
		cdeadline := time.Now().Add(30 * time.Second)
		for ci, c := range clients {
			for {
				cd := c.Data()
				if vCanon(&cd, false) == canons[0] {
					break
				}
				if time.Now().After(cdeadline) {
					stats.Class("inconclusive:client-cache-not-converged-within-30s", 1)
					_ = ci
					return
				}
				time.Sleep(100 * time.Millisecond)
			}
		}
		nt := (ackedBefore > 0 && ackedAfter > 0) || snapThenRestart
		cls := []string{}
		if snapThenRestart {
			cls = append(cls, "snapshot-then-restart")
		}
		if disrupted {
			cls = append(cls, "leader-loss-or-full-restart")
		}
		stats.Case(nt, strings.Join(actions, ";"), cls...)
		if stats.WantSample() {
			stats.Sample(map[string]interface{}{"actions": actions, "acked_before": ackedBefore, "acked_after": ackedAfter})
		} else {
			stats.Sample(nil)
		}
	})
}
