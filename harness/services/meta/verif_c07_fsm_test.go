//go:build verif

package meta

// C07 sub-checks on bed F (no raft): (b) snapshot fidelity, (c) snapshot immutability under
// later commands, (d) every request body accepted by /execute can be applied. DESIGN.md C07.

import (
	"bytes"
	"fmt"
	"io"
	"strings"
	"testing"
	"time"

	"github.com/gogo/protobuf/proto"
	internal "github.com/influxdata/influxdb/services/meta/internal"
	"pgregory.net/rapid"
	"verifkit"
)


// vCanonFull is vCanon plus deletion/truncation stamps: the form a snapshot must preserve.
func vCanonFull(d *Data) string {
	var b strings.Builder
	b.WriteString(vCanon(d, false))
	fmt.Fprintf(&b, "term=%d index=%d\n", d.Term, d.Index)
	for _, db := range d.Databases {
		for _, rp := range db.RetentionPolicies {
			for _, sg := range rp.ShardGroups {
				del, tr := int64(0), int64(0)
				if !sg.DeletedAt.IsZero() {
					del = sg.DeletedAt.UnixNano()
				}
				if !sg.TruncatedAt.IsZero() {
					tr = sg.TruncatedAt.UnixNano()
				}
				fmt.Fprintf(&b, "stamp sg %d deleted=%d(%v) truncated=%d(%v)\n", sg.ID, del, sg.Deleted(), tr, sg.Truncated())
			}
		}
	}
	return b.String()
}

// vBuildData applies a generated command log and returns the replica.
func vBuildData(rt *rapid.T, maxLen int) (*store, []string) {
	r := vReplica(rapid.Bool().Draw(rt, "autoCreate"))
	n := rapid.IntRange(0, maxLen).Draw(rt, "logLen")
	idx := uint64(1)
	var kinds []string
	warm := []string{}
	if rapid.IntRange(0, 2).Draw(rt, "warm") > 0 {
		warm = []string{"createDataNode", "createDataNode", "createDB", "createRP", "createSG", "createSG", "truncate", "createSG", "deleteSG"}
	}
	for i := 0; i < n; i++ {
		var c vCommand
		if i < len(warm) {
			c = vDrawCommandOfKind(rt, r.data, warm[i])
		} else {
			c = vDrawCommand(rt, r.data)
		}
		idx++
		if _, p := vApply(r, idx, c.Bytes); p != nil {
			rt.Fatalf("%s Apply panicked for %s: %v", verifkit.Sig("apply-panic"), c.Desc, p)
		}
		kinds = append(kinds, c.Kind)
	}
	return r, kinds
}

func TestVerifC07SnapshotFidelity(t *testing.T) {
	stats := verifkit.For("C07", "TestVerifC07SnapshotFidelity",
		"(b) metadata values reached by generated command logs (incl. deleted groups, groups truncated at/around the epoch and at extreme times, empty names, privileges) are persisted through storeFSM.Snapshot().Persist and restored with Restore into a fresh store; restored value must equal the original in the full canonical form (with stamps) and re-marshal to identical bytes. non-trivial = value has >=1 truncated or deleted shard group; distinct = hash of canonical form")
	defer stats.Flush()
	rapid.Check(t, func(rt *rapid.T) {
		r, kinds := vBuildData(rt, 60)
		// direct surgery for extreme values the command generator reaches rarely
		if rapid.Bool().Draw(rt, "surgery") {
			for di := range r.data.Databases {
				for ri := range r.data.Databases[di].RetentionPolicies {
					sgs := r.data.Databases[di].RetentionPolicies[ri].ShardGroups
					for gi := range sgs {
						switch rapid.IntRange(0, 5).Draw(rt, "surg") {
						case 1:
							sgs[gi].TruncatedAt = time.Unix(0, rapid.SampledFrom([]int64{0, 1, -1, sgs[gi].StartTime.UnixNano(), sgs[gi].EndTime.UnixNano()}).Draw(rt, "trAt")).UTC()
						case 2:
							sgs[gi].DeletedAt = time.Unix(0, rapid.SampledFrom([]int64{1, -1, 1e18, 1600000000e9}).Draw(rt, "delAt")).UTC()
						}
					}
				}
			}
		}
		want := vCanonFull(r.data)
		if strings.Contains(want, "truncated=0(true)") {
			// known finding truncated-at-epoch-restores-untruncated: excluded from the main campaign
			stats.Exclude("truncated-at-epoch-restores-untruncated")
			return
		}
		wantBytes, err := r.data.MarshalBinary()
		if err != nil {
			rt.Fatalf("marshal: %v", err)
		}
		snap, err := (*storeFSM)(r).Snapshot()
		if err != nil {
			rt.Fatalf("snapshot: %v", err)
		}
		sink := &vSink{}
		if err := snap.Persist(sink); err != nil {
			rt.Fatalf("persist: %v", err)
		}
		fresh := vReplica(false)
		if err := (*storeFSM)(fresh).Restore(io.NopCloser(bytes.NewReader(sink.Bytes()))); err != nil {
			rt.Fatalf("%s restore: %v", verifkit.Sig("restore-error"), err)
		}
		got := vCanonFull(fresh.data)
		if got != want {
			rt.Fatalf("%s restored metadata differs from the snapshotted one:\n--- restored\n%s\n--- original\n%s", verifkit.Sig("snapshot-restore-differs"), got, want)
		}
		// (the marshalled BYTES are not compared: a user's privileges are marshalled in map iteration order, so two
		// marshals of equal metadata legitimately differ)
		_ = wantBytes
		nt := strings.Contains(want, "del=true") || (strings.Contains(want, " tr=") && !strings.Contains(want, " tr=- del=false") || strings.Count(want, "tr=-") < strings.Count(want, "  sg "))
		cls := []string{}
		if strings.Contains(want, "del=true") {
			cls = append(cls, "has-deleted-group")
		}
		if strings.Count(want, "tr=-") < strings.Count(want, "  sg ") {
			cls = append(cls, "has-truncated-group")
		}
		if strings.Contains(want, "truncated=0(true)") {
			cls = append(cls, "truncated-exactly-at-epoch")
		}
		stats.Case(nt, want, cls...)
		if stats.WantSample() {
			stats.Sample(map[string]interface{}{"kinds": kinds, "canon": strings.Split(want, "\n")})
		} else {
			stats.Sample(nil)
		}
	})
}

func TestVerifC07SnapshotImmutable(t *testing.T) {
	stats := verifkit.For("C07", "TestVerifC07SnapshotImmutable",
		"(c) command log; at a generated point fsm.Snapshot() is taken and the state is marshalled eagerly as the reference; more commands are applied; then the snapshot is persisted: the persisted bytes must equal the reference whatever was applied in between (deterministic replacement for every interleaving of snapshot persistence with further commands). non-trivial = >=1 state-changing command between Snapshot and Persist; distinct = hash of the kinds applied in between")
	defer stats.Flush()
	rapid.Check(t, func(rt *rapid.T) {
		r, _ := vBuildData(rt, 30)
		ref, err := r.data.MarshalBinary()
		if err != nil {
			rt.Fatal(err)
		}
		refCanon := vCanonFull(r.data)
		snap, err := (*storeFSM)(r).Snapshot()
		if err != nil {
			rt.Fatal(err)
		}
		// also hold the values a client / the HTTP snapshot endpoint would hold
		published := r.data
		n := rapid.IntRange(1, 25).Draw(rt, "later")
		idx := uint64(1000)
		var kinds []string
		changed := 0
		for i := 0; i < n; i++ {
			c := vDrawCommand(rt, r.data)
			before := vCanon(r.data, false)
			idx++
			if _, p := vApply(r, idx, c.Bytes); p != nil {
				rt.Fatalf("%s Apply panicked for %s: %v", verifkit.Sig("apply-panic"), c.Desc, p)
			}
			if vCanon(r.data, false) != before {
				changed++
			}
			kinds = append(kinds, c.Kind)
			if got := vCanonFull(published); got != refCanon {
				rt.Fatalf("%s metadata value published before %s was mutated by it:\n--- now\n%s\n--- when published\n%s", verifkit.Sig("published-metadata-mutated"), c.Desc, got, refCanon)
			}
		}
		sink := &vSink{}
		if err := snap.Persist(sink); err != nil {
			rt.Fatal(err)
		}
		if !bytes.Equal(sink.Bytes(), ref) {
			d := &Data{}
			d.UnmarshalBinary(sink.Bytes())
			rt.Fatalf("%s snapshot persisted after %v differs from the state it was taken at:\n--- persisted\n%s\n--- taken at\n%s", verifkit.Sig("snapshot-image-changed-by-later-commands"), kinds, vCanonFull(d), refCanon)
		}
		stats.Case(changed > 0, strings.Join(kinds, ","), fmt.Sprintf("later-changing:%d", min(changed, 5)))
		if stats.WantSample() {
			stats.Sample(map[string]interface{}{"later": kinds, "changed": changed})
		} else {
			stats.Sample(nil)
		}
	})
}

func min(a, b int) int {
	if a < b {
		return a
	}
	return b
}

// vDrawBody draws an /execute request body of one of the classes of DESIGN C07(d).
func vDrawBody(rt *rapid.T, cur *Data) (class string, body []byte) {
	switch rapid.IntRange(0, 6).Draw(rt, "bodyClass") {
	case 0, 1:
		return "valid", vDrawCommand(rt, cur).Bytes
	case 2: // known type without extension
		typ := internal.Command_Type(rapid.IntRange(1, 40).Draw(rt, "type"))
		b, _ := proto.Marshal(&internal.Command{Type: &typ})
		return "no-extension", b
	case 3: // extension of a different command
		c := vDrawCommand(rt, cur)
		var cmd internal.Command
		proto.Unmarshal(c.Bytes, &cmd)
		typ := internal.Command_Type(rapid.IntRange(1, 40).Draw(rt, "type"))
		cmd.Type = &typ
		b, _ := proto.Marshal(&cmd)
		return "wrong-extension", b
	case 4: // truncated / bit-flipped valid command
		b := append([]byte(nil), vDrawCommand(rt, cur).Bytes...)
		if len(b) > 0 {
			if rapid.Bool().Draw(rt, "truncate") {
				b = b[:rapid.IntRange(0, len(b)-1).Draw(rt, "cut")]
			} else {
				i := rapid.IntRange(0, len(b)-1).Draw(rt, "flipAt")
				b[i] ^= byte(1 << uint(rapid.IntRange(0, 7).Draw(rt, "bit")))
			}
		}
		return "mutated", b
	case 5: // retired / unknown type numbers with some payload
		typ := internal.Command_Type(rapid.SampledFrom([]int{0, 7, 20, 35, 99, -1}).Draw(rt, "type"))
		b, _ := proto.Marshal(&internal.Command{Type: &typ})
		return "unknown-type", append(b, rapid.SliceOfN(rapid.Byte(), 0, 8).Draw(rt, "tail")...)
	default:
		return "raw", rapid.SliceOfN(rapid.Byte(), 0, 40).Draw(rt, "raw")
	}
}

func TestVerifC07AcceptedBodies(t *testing.T) {
	stats := verifkit.For("C07", "TestVerifC07AcceptedBodies",
		"(d) request bodies of 6 classes (valid; known type without extension; extension of another command; truncated/bit-flipped; unknown or retired type numbers; raw bytes): whenever validateCommand (what /execute runs before proposing to raft) accepts a body, storeFSM.Apply must return without panicking on a populated replica and again when the log is replayed on a fresh replica. non-trivial = body is not a well-formed command; distinct = hash of (class, accepted, body)")
	defer stats.Flush()
	rapid.Check(t, func(rt *rapid.T) {
		r, _ := vBuildData(rt, 15)
		class, body := vDrawBody(rt, r.data)
		verr := validateCommand(body)
		accepted := verr == nil
		if accepted {
			if _, p := vApply(r, 5000, body); p != nil {
				rt.Fatalf("%s /execute would accept this %s body (%x) but Apply panics: %v", verifkit.Sig("accepted-command-panics-apply"), class, body, p)
			}
			fresh := vReplica(true)
			if _, p := vApply(fresh, 2, body); p != nil {
				rt.Fatalf("%s /execute would accept this %s body (%x) but Apply panics on a fresh replica: %v", verifkit.Sig("accepted-command-panics-apply"), class, body, p)
			}
		}
		stats.Case(class != "valid", fmt.Sprintf("%s/%v/%x", class, accepted, body), fmt.Sprintf("%s:accepted=%v", class, accepted))
		if stats.WantSample() {
			stats.Sample(map[string]interface{}{"class": class, "accepted": accepted, "body_hex": fmt.Sprintf("%x", body)})
		} else {
			stats.Sample(nil)
		}
	})
}

// Directed campaign for known finding truncated-at-epoch-restores-untruncated.
func TestVerifC07KFTruncatedAtEpoch(t *testing.T) {
	stats := verifkit.For("C07", "TestVerifC07KFTruncatedAtEpoch", "directed: a group starting at the Unix epoch truncated by TruncateShardGroups(t<=epoch), persisted and restored")
	defer stats.Flush()
	r := vReplica(false)
	idx := uint64(1)
	ap := func(typ internal.Command_Type, desc *proto.ExtensionDesc, v interface{}) {
		idx++
		vApply(r, idx, vCmd(typ, desc, v))
	}
	ap(internal.Command_CreateDataNodeCommand, internal.E_CreateDataNodeCommand_Command, &internal.CreateDataNodeCommand{HTTPAddr: proto.String("h0"), TCPAddr: proto.String("t0")})
	ap(internal.Command_CreateDatabaseCommand, internal.E_CreateDatabaseCommand_Command, &internal.CreateDatabaseCommand{Name: proto.String("d0"), RetentionPolicy: &internal.RetentionPolicyInfo{Name: proto.String("r0"), Duration: proto.Int64(0), ShardGroupDuration: proto.Int64(vHour), ReplicaN: proto.Uint32(1)}})
	ap(internal.Command_CreateShardGroupCommand, internal.E_CreateShardGroupCommand_Command, &internal.CreateShardGroupCommand{Database: proto.String("d0"), Policy: proto.String("r0"), Timestamp: proto.Int64(0)})
	ap(internal.Command_TruncateShardGroupsCommand, internal.E_TruncateShardGroupsCommand_Command, &internal.TruncateShardGroupsCommand{Timestamp: proto.Int64(0)})
	want := vCanonFull(r.data)
	snap, _ := (*storeFSM)(r).Snapshot()
	sink := &vSink{}
	if err := snap.Persist(sink); err != nil {
		t.Fatal(err)
	}
	fresh := vReplica(false)
	if err := (*storeFSM)(fresh).Restore(io.NopCloser(bytes.NewReader(sink.Bytes()))); err != nil {
		t.Fatal(err)
	}
	got := vCanonFull(fresh.data)
	stats.Case(true, "epoch-truncation", "directed")
	stats.Case(true, "epoch-truncation-restored:"+fmt.Sprint(got == want), "directed")
	stats.Sample(map[string]interface{}{"original": strings.Split(want, "\n"), "restored": strings.Split(got, "\n")})
	if strings.Contains(want, "truncated=0(true)") && got != want {
		stats.KnownReproduced("truncated-at-epoch-restores-untruncated", "a shard group truncated exactly at the Unix epoch (TruncateShardGroups(t<=0) on a group starting at 0) is marshalled with TruncatedAt=0 and restores as not truncated")
	}
}
