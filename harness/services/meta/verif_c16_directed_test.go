//go:build verif

package meta

// C16 - table completeness, the owned stale-cache interleaving, and the directed known-finding tests.

import (
	"fmt"
	"go/ast"
	"go/parser"
	"go/token"
	"os"
	"path/filepath"
	"reflect"
	"runtime"
	"sort"
	"strings"
	"testing"

	"github.com/influxdata/influxdb/pkg/verifhook"
	"github.com/influxdata/influxql"
	"pgregory.net/rapid"
	"verifkit"
)

// vC16InfluxqlDir locates the source directory of the influxql module the binary was built with.
func vC16InfluxqlDir() string {
	f := runtime.FuncForPC(reflect.ValueOf(influxql.ParseQuery).Pointer())
	if f == nil {
		return ""
	}
	file, _ := f.FileLine(f.Entry())
	return filepath.Dir(file)
}

// TestVerifC16TableComplete scans the influxql package source for every type with a
// RequiredPrivileges method. A kind that the model's table or the generator does not know makes the
// property inconclusive (a new statement kind must not slip through unnoticed), never a violation.
func TestVerifC16TableComplete(t *testing.T) {
	st := verifkit.For("C16", "TestVerifC16TableComplete", "go/parser scan of the influxql package (module cache) for every type with a RequiredPrivileges method, compared with the model's table and with the kinds the generator produces; one case per type")
	defer st.Flush()
	dir := vC16InfluxqlDir()
	if dir == "" {
		vC16Inconclusive("cannot locate the influxql package source")
	}
	fset := token.NewFileSet()
	pkgs, err := parser.ParseDir(fset, dir, func(fi os.FileInfo) bool { return !strings.HasSuffix(fi.Name(), "_test.go") }, 0)
	if err != nil || pkgs["influxql"] == nil {
		vC16Inconclusive(fmt.Sprintf("cannot parse %s: %v", dir, err))
	}
	found := map[string]bool{}
	stmtTypes := map[string]bool{} // types with a stmt() marker method = Statement implementations
	for _, f := range pkgs["influxql"].Files {
		for _, d := range f.Decls {
			fd, ok := d.(*ast.FuncDecl)
			if !ok || fd.Recv == nil || len(fd.Recv.List) != 1 {
				continue
			}
			var recv string
			switch x := fd.Recv.List[0].Type.(type) {
			case *ast.StarExpr:
				if id, ok := x.X.(*ast.Ident); ok {
					recv = id.Name
				}
			case *ast.Ident:
				recv = x.Name
			}
			if recv == "" {
				continue
			}
			switch fd.Name.Name {
			case "RequiredPrivileges":
				found[recv] = true
			case "stmt":
				stmtTypes[recv] = true
			}
		}
	}
	if len(found) < 40 {
		vC16Inconclusive(fmt.Sprintf("only %d RequiredPrivileges methods found in %s: scan is broken", len(found), dir))
	}
	gen := vC16GenKinds()
	gen["DeleteStatement"] = true // constructed node in TestVerifC16History
	var missing []string
	var names []string
	for k := range found {
		names = append(names, k)
	}
	for k := range stmtTypes {
		if !found[k] {
			names = append(names, k)
		}
	}
	sort.Strings(names)
	for _, k := range names {
		class, ok := vC16Classes[k]
		switch {
		case !ok:
			missing = append(missing, k+" (not in table)")
		case class != "part" && !gen[k]:
			missing = append(missing, k+" (in table, never generated)")
		}
		st.Case(true, k, "class:"+class)
	}
	for k := range vC16Classes {
		if !found[k] {
			missing = append(missing, k+" (in table, not in influxql)")
		}
	}
	st.Sample(map[string]interface{}{"influxql_dir": dir, "types": names})
	if len(missing) > 0 {
		sort.Strings(missing)
		vC16Inconclusive("statement table out of date: " + strings.Join(missing, ", "))
	}
}

// TestVerifC16OwnedInterleaving is the cache clause under an owned schedule: a credential change for user
// u is installed at the meta.auth.beforecache hook of an Authenticate(u, old) call, i.e. after its bcrypt
// comparison and before its cache store. Afterwards the old password must be refused (also repeatedly,
// also after further installs that do not touch u) and the new one accepted.
func TestVerifC16OwnedInterleaving(t *testing.T) {
	st := verifkit.For("C16", "TestVerifC16OwnedInterleaving",
		"rapid: user u (admin or not, with grants) created; optionally authenticated and then re-keyed so that the cache entry is dropped; Authenticate(u, current) runs with one change for u (set password / drop / drop+re-create / set admin / set privilege) installed at the meta.auth.beforecache hook; then 1..4 probes drawn from Authenticate(old), Authenticate(new), unrelated install, Authenticate(never valid). Non-trivial = the hook fired and the change replaced or removed the password; distinct = (prefix, change kind, probe sequence)")
	defer st.Flush()
	totalFired := 0
	rapid.Check(t, func(rt *rapid.T) {
		defer verifhook.Set(nil)
		b := vC16NewBed()
		classes := map[string]bool{}
		must := func(ch vC16Change) {
			if ok, fail := b.change(ch); fail != "" || !ok {
				rt.Fatalf("%s setup %s: ok=%v %s", verifkit.Sig("harness-model-action-mismatch"), ch, ok, fail)
			}
		}
		must(vC16Change{Kind: "createDB", DB: "db0"})
		must(vC16Change{Kind: "createUser", User: "u0", Pw: "pw-a", Admin: true})
		name := "u1"
		pw0 := rapid.SampledFrom(vC16PwPool).Draw(rt, "pw0")
		must(vC16Change{Kind: "createUser", User: name, Pw: pw0, Admin: rapid.Bool().Draw(rt, "admin")})
		must(vC16Change{Kind: "setPriv", User: name, DB: "db0", Priv: vPriv(rapid.IntRange(0, 3).Draw(rt, "priv"))})
		prefix := rapid.SampledFrom([]string{"fresh", "auth-then-rekey", "auth-cached"}).Draw(rt, "prefix")
		switch prefix {
		case "auth-then-rekey":
			b.checkAuth(rt, name, pw0, "current", classes)
			pw0 = rapid.SampledFrom(vC16PwPool).Draw(rt, "pw0b")
			must(vC16Change{Kind: "setPassword", User: name, Pw: pw0})
		case "auth-cached":
			b.checkAuth(rt, name, pw0, "current", classes)
		}
		ch := vC16DrawChange(rt, b.m, name)
		fired := b.interleave(rt, name, pw0, ch)
		canon := prefix + "|" + ch.Kind + fmt.Sprintf("|fired=%v|", fired)
		classes[fmt.Sprintf("interleave:%s:fired=%v", ch.Kind, fired)] = true
		classes["prefix:"+prefix] = true
		var trace []string
		trace = append(trace, fmt.Sprintf("prefix=%s; authenticate(%s,%q) with %s at hook (fired=%v)", prefix, name, pw0, ch, fired))
		for i, n := 0, rapid.IntRange(1, 4).Draw(rt, "probes"); i < n; i++ {
			switch p := rapid.SampledFrom([]string{"old", "old", "new", "unrelated-install", "never"}).Draw(rt, "probe"); p {
			case "old":
				b.checkAuth(rt, name, pw0, "previous-or-current", classes)
			case "new":
				if u := b.m.Users[name]; u != nil {
					b.checkAuth(rt, name, u.Pw, "current", classes)
				}
			case "unrelated-install":
				must(vC16Change{Kind: "createDB", DB: vDrawDB(rt, "db")})
			case "never":
				b.checkAuth(rt, name, "never-valid", "never", classes)
			}
			canon += "p"
			trace = append(trace, "probe")
		}
		// the old password once more at the end, whatever the probes were
		b.checkAuth(rt, name, pw0, "previous-or-current", classes)
		rekeyed := ch.Kind == "dropUser" || ch.Kind == "recreateUser" || (ch.Kind == "setPassword")
		totalFired += b.hookFired
		st.Case(fired && rekeyed, canon, vC16ClassList(classes)...)
		if st.WantSample() {
			st.Sample(map[string]interface{}{"history": trace, "final_model": b.m.String()})
		} else {
			st.Sample(nil)
		}
	})
	st.Note("hook_meta.auth.beforecache_fired", fmt.Sprint(totalFired))
	if !t.Failed() && totalFired == 0 {
		vC16Inconclusive("hook meta.auth.beforecache never fired in TestVerifC16OwnedInterleaving")
	}
}

// ---------------------------------------------------------------------------------------------
// directed known-finding tests: each reproduces one confirmed defect shape and records it; none of
// them fails for the known shape.

type vC16KFCase struct {
	Grants map[string]vPriv // grants of the non-admin user "u1" on db0/db1/db2 (all three exist)
	Def    string
	Text   string
}

func vC16KFRun(t *testing.T, st *verifkit.Stats, sig, what string, zeroUsers bool, cases []vC16KFCase) {
	reproduced := 0
	for _, c := range cases {
		b := vC16NewBed()
		for _, db := range vC16DBPool {
			b.change(vC16Change{Kind: "createDB", DB: db})
		}
		name := ""
		var uo User
		if !zeroUsers {
			b.change(vC16Change{Kind: "createUser", User: "u0", Pw: "pw-a", Admin: true})
			b.change(vC16Change{Kind: "createUser", User: "u1", Pw: "pw-b"})
			for db, p := range c.Grants {
				b.change(vC16Change{Kind: "setPriv", User: "u1", DB: db, Priv: p})
			}
			name = "u1"
			uo, _ = b.c.User(name)
		}
		q, err := influxql.ParseQuery(c.Text)
		if err != nil {
			t.Fatalf("%s %q: %v", verifkit.Sig("harness-unparseable-statement"), c.Text, err)
		}
		want, why := b.m.allowsQuery(name, q.Statements, c.Def)
		var uarg User
		if uo != nil {
			uarg = uo
		}
		_, err = b.qa.AuthorizeQuery(uarg, q, c.Def)
		got := err == nil
		desc := fmt.Sprintf("user=%q grants=%v db=%q %q: implementation allows=%v, model allows=%v (%s)", name, c.Grants, c.Def, c.Text, got, want, why)
		if want {
			t.Fatalf("%s directed case is not refused by the model: %s", verifkit.Sig("harness-kf-case-not-refused"), desc)
		}
		if got {
			reproduced++
			st.Case(true, c.Text, "kf:reproduced")
			st.Sample(desc)
		} else {
			st.Case(true, c.Text, "kf:not-reproduced")
			st.Sample(nil)
		}
	}
	if reproduced > 0 {
		st.KnownReproduced(sig, fmt.Sprintf("%s (%d of %d directed requests run although the model refuses them)", what, reproduced, len(cases)))
	}
}

// TestVerifC16FirstAdminOnly is the directed regression for the repaired defect
// first-admin-request-carries-extra-statements: with zero users a request is authorized only if it is
// exactly one CREATE USER ... WITH ALL PRIVILEGES statement.
func TestVerifC16FirstAdminOnly(t *testing.T) {
	st := verifkit.For("C16", "TestVerifC16FirstAdminOnly", "directed: requests at zero users (single bootstrap statement, bootstrap statement followed by others, non-bootstrap statements); one case per request")
	defer st.Flush()
	for _, c := range []struct {
		text string
		want bool
	}{
		{"CREATE USER a WITH PASSWORD 'x' WITH ALL PRIVILEGES", true},
		{"CREATE USER a WITH PASSWORD 'x'", false},
		{"SHOW DATABASES", false},
		{"CREATE USER a WITH PASSWORD 'x' WITH ALL PRIVILEGES; DROP DATABASE db0", false},
		{"CREATE USER a WITH PASSWORD 'x' WITH ALL PRIVILEGES; SELECT * FROM db1..m", false},
		{"CREATE USER a WITH PASSWORD 'x' WITH ALL PRIVILEGES; CREATE USER b WITH PASSWORD 'y' WITH ALL PRIVILEGES; DROP SERIES FROM m", false},
		{"SHOW DATABASES; CREATE USER a WITH PASSWORD 'x' WITH ALL PRIVILEGES", false},
	} {
		b := vC16NewBed()
		q, err := influxql.ParseQuery(c.text)
		if err != nil {
			t.Fatalf("%s %q: %v", verifkit.Sig("harness-unparseable-statement"), c.text, err)
		}
		if want, _ := b.m.allowsQuery("", q.Statements, "db0"); want != c.want {
			t.Fatalf("%s model verdict for %q is %v", verifkit.Sig("harness-kf-case-not-refused"), c.text, want)
		}
		_, err = b.qa.AuthorizeQuery(nil, q, "db0")
		if got := err == nil; got != c.want {
			sig := vSigZeroUsersMulti
			if c.want {
				sig = "authorized-query-refused"
			}
			fmt.Printf("VERIF-CASE %s\n", c.text)
			t.Fatalf("%s zero users: AuthorizeQuery(nil, %q) allowed=%v, model %v", verifkit.Sig(sig), c.text, got, c.want)
		}
		st.Case(true, c.text, fmt.Sprintf("allowed:%v", c.want))
		st.Sample(fmt.Sprintf("zero users: %q allowed=%v", c.text, c.want))
	}
}

func TestVerifC16KFShowCardinalityOn(t *testing.T) {
	st := verifkit.For("C16", "TestVerifC16KFShowCardinalityOn", "directed: SHOW ... CARDINALITY ON <db> statements whose privileges are derived from the FROM clause only, run by a user without any grant on <db>")
	defer st.Flush()
	g := map[string]vPriv{"db0": vRead}
	vC16KFRun(t, st, vSigCardOn,
		"SHOW TAG KEY / TAG VALUES / FIELD KEY CARDINALITY and SHOW SERIES / MEASUREMENT EXACT CARDINALITY ignore the ON database: without FROM nothing is required, with an unqualified FROM the request's database is checked instead",
		false, []vC16KFCase{
			{g, "db0", "SHOW TAG KEY CARDINALITY ON db2"},
			{g, "db0", "SHOW SERIES EXACT CARDINALITY ON db2"},
			{g, "db0", "SHOW MEASUREMENT EXACT CARDINALITY ON db2"},
			{g, "db0", "SHOW FIELD KEY CARDINALITY ON db2"},
			{g, "db0", "SHOW TAG VALUES CARDINALITY ON db2 WITH KEY = k"},
			{g, "db0", "SHOW TAG VALUES EXACT CARDINALITY ON db2 FROM m WITH KEY = k"},
			{nil, "", "SHOW TAG KEY EXACT CARDINALITY ON db1"},
			{nil, "", "SHOW FIELD KEY CARDINALITY"},
		})
}

func TestVerifC16KFShowFromOtherDatabase(t *testing.T) {
	st := verifkit.For("C16", "TestVerifC16KFShowFromOtherDatabase", "directed: SHOW statements whose FROM source names a database the user has no grant on")
	defer st.Flush()
	g := map[string]vPriv{"db0": vRead}
	vC16KFRun(t, st, vSigShowFrom,
		"SHOW SERIES / FIELD KEYS / estimated SERIES CARDINALITY check READ on the ON database only; a FROM source qualified with another database is read without any grant on it",
		false, []vC16KFCase{
			{g, "db0", "SHOW SERIES ON db0 FROM db2..m"},
			{g, "db0", "SHOW SERIES FROM db2.autogen.m"},
			{g, "db0", "SHOW FIELD KEYS ON db0 FROM db2..m"},
			{g, "db0", "SHOW SERIES CARDINALITY ON db0 FROM db2..m"},
		})
}

func TestVerifC16KFCreateCQ(t *testing.T) {
	st := verifkit.For("C16", "TestVerifC16KFCreateCQ", "directed: CREATE CONTINUOUS QUERY by a user holding READ on the query's database only")
	defer st.Flush()
	g := map[string]vPriv{"db0": vRead}
	vC16KFRun(t, st, vSigCQ,
		"CREATE CONTINUOUS QUERY requires READ on its ON database only (plus WRITE on an explicitly qualified target): a READ-only user stores a query that writes into that database and may read any other database",
		false, []vC16KFCase{
			{g, "", "CREATE CONTINUOUS QUERY cq0 ON db0 BEGIN SELECT mean(v) INTO x FROM m GROUP BY time(1m) END"},
			{g, "", "CREATE CONTINUOUS QUERY cq0 ON db0 BEGIN SELECT mean(v) INTO x FROM db2.autogen.m GROUP BY time(1m) END"},
			{map[string]vPriv{"db0": vAll}, "", "CREATE CONTINUOUS QUERY cq0 ON db0 BEGIN SELECT mean(v) INTO db0..x FROM db2.autogen.m GROUP BY time(1m) END"},
		})
}
