//go:build verif

package meta

// Bed F (DESIGN.md section 3): the metadata state machine without raft. A replica is a
// store whose raftState has a nil raft; commands are applied by calling storeFSM.Apply
// directly, exactly as hashicorp/raft does after a log entry is committed.

import (
	"bytes"
	"fmt"
	"sort"
	"strings"
	"time"

	"github.com/gogo/protobuf/proto"
	"github.com/hashicorp/raft"
	internal "github.com/influxdata/influxdb/services/meta/internal"
	"pgregory.net/rapid"
)

func vCmd(typ internal.Command_Type, desc *proto.ExtensionDesc, v interface{}) []byte {
	cmd := &internal.Command{Type: &typ}
	if err := proto.SetExtension(cmd, desc, v); err != nil {
		panic(err)
	}
	b, err := proto.Marshal(cmd)
	if err != nil {
		panic(err)
	}
	return b
}

func vReplica(autoCreate bool) *store {
	c := NewConfig()
	c.Dir = "/nonexistent-verif"
	c.RetentionAutoCreate = autoCreate
	s := newStore(c, "h:1", "r:1")
	s.raftState = &raftState{}
	return s
}

func vApply(s *store, idx uint64, b []byte) (res string, panicked interface{}) {
	defer func() {
		if r := recover(); r != nil {
			panicked = r
			// Apply panics while holding s.mu (deferred unlock runs), nothing to repair.
		}
	}()
	out := (*storeFSM)(s).Apply(&raft.Log{Index: idx, Term: 1, Data: b})
	return fmt.Sprint(out), nil
}

// vCanon renders the metadata in a canonical textual form. live=true is the form the
// determinism clause of C06 speaks about: live shard groups only, no deletion stamps.
// live=false additionally lists deleted groups (as a flag, the stamp is wall-clock time).
func vCanon(d *Data, live bool) string {
	var b strings.Builder
	fmt.Fprintf(&b, "cluster=%d maxnode=%d maxsg=%d maxshard=%d\n", d.ClusterID, d.MaxNodeID, d.MaxShardGroupID, d.MaxShardID)
	for _, n := range d.DataNodes {
		fmt.Fprintf(&b, "dn %d %q %q\n", n.ID, n.Addr, n.TCPAddr)
	}
	for _, n := range d.MetaNodes {
		fmt.Fprintf(&b, "mn %d %q %q\n", n.ID, n.Addr, n.TCPAddr)
	}
	for _, db := range d.Databases {
		fmt.Fprintf(&b, "db %q default=%q\n", db.Name, db.DefaultRetentionPolicy)
		for _, rp := range db.RetentionPolicies {
			fmt.Fprintf(&b, " rp %q n=%d d=%d sgd=%d\n", rp.Name, rp.ReplicaN, rp.Duration, rp.ShardGroupDuration)
			for _, sg := range rp.ShardGroups {
				if sg.Deleted() && live {
					continue
				}
				tr := "-"
				if sg.Truncated() {
					tr = fmt.Sprint(sg.TruncatedAt.UnixNano())
				}
				fmt.Fprintf(&b, "  sg %d [%d,%d) tr=%s del=%v:", sg.ID, sg.StartTime.UnixNano(), sg.EndTime.UnixNano(), tr, sg.Deleted())
				for _, sh := range sg.Shards {
					fmt.Fprintf(&b, " %d[", sh.ID)
					for _, o := range sh.Owners {
						fmt.Fprintf(&b, "%d,", o.NodeID)
					}
					b.WriteString("]")
				}
				b.WriteString("\n")
			}
			for _, s := range rp.Subscriptions {
				fmt.Fprintf(&b, "  sub %q %q %q\n", s.Name, s.Mode, s.Destinations)
			}
		}
		for _, cq := range db.ContinuousQueries {
			fmt.Fprintf(&b, " cq %q %q\n", cq.Name, cq.Query)
		}
	}
	for _, u := range d.Users {
		var ps []string
		for k, v := range u.Privileges {
			ps = append(ps, fmt.Sprintf("%q=%d", k, v))
		}
		sort.Strings(ps)
		fmt.Fprintf(&b, "user %q %q admin=%v %v\n", u.Name, u.Hash, u.Admin, ps)
	}
	return b.String()
}

// vCommand is one generated metadata command.
type vCommand struct {
	Kind  string
	Desc  string
	Bytes []byte
	// for the non-triviality rule
	Policy string
}

var (
	vDBs   = []string{"d0", "d1", "d2"}
	vRPs   = []string{"r0", "r1", "autogen"}
	vUsers = []string{"u0", "u1", "u2", "u3", "u4", "u5"}
	vCQs   = []string{"cq0", "cq1"}
	vSubs  = []string{"s0", "s1"}
)

const vHour = int64(time.Hour)

var vKinds = []string{
	"createDataNode", "createDataNode", "deleteDataNode", "updateDataNode",
	"createMetaNode", "setMetaNode", "deleteMetaNode",
	"createDB", "createDB", "dropDB", "createRP", "createRP", "createRP", "updateRP", "updateRP", "dropRP",
	"createSG", "createSG", "createSG", "createSG", "deleteSG", "truncate", "truncate", "prune", "dropShard",
	"copyOwner", "removeOwner",
	"createUser", "dropUser", "updateUser", "setPriv", "setAdmin",
	"createCQ", "dropCQ", "createSub", "dropSub",
	// commands that succeed without changing anything (legacy < 0.10 node commands, remove-peer on a non-leader)
	"legacyUpdateNode", "legacyDeleteNode", "removePeer",
}

func vTimestampGen(d *Data) *rapid.Generator[int64] {
	// instants around existing group boundaries, the epoch, and the extremes
	edges := []int64{0, -1, 1, vHour, vHour - 1, 24 * vHour, 168 * vHour, -9223372036854775806, 9223372036854775806, 9223372036854775806 - vHour}
	for _, db := range d.Databases {
		for _, rp := range db.RetentionPolicies {
			for _, sg := range rp.ShardGroups {
				s, e := sg.StartTime.UnixNano(), sg.EndTime.UnixNano()
				edges = append(edges, s, s-1, e, e-1, (s/2 + e/2))
				if sg.Truncated() {
					t := sg.TruncatedAt.UnixNano()
					edges = append(edges, t, t-1, t+1)
				}
			}
		}
	}
	return rapid.OneOf(rapid.Int64Range(-5*vHour, 400*vHour), rapid.SampledFrom(edges), rapid.SampledFrom(edges))
}

// vDrawCommand draws one command. cur is the current metadata (used only to bias
// arguments towards existing ids so that commands hit something).
func vDrawCommand(rt *rapid.T, cur *Data) vCommand {
	kind := rapid.SampledFrom(vKinds).Draw(rt, "kind")
	return vDrawCommandOfKind(rt, cur, kind)
}

func vDrawCommandOfKind(rt *rapid.T, cur *Data, kind string) vCommand {
	// names are biased (3 in 4) towards entities that exist so that commands hit something;
	// the remaining draws come from the small pools and produce the conflicting/unknown cases.
	var lastDB string
	db := func() string {
		lastDB = ""
		if len(cur.Databases) > 0 && rapid.IntRange(0, 3).Draw(rt, "dbExisting") > 0 {
			lastDB = rapid.SampledFrom(cur.Databases).Draw(rt, "dbi").Name
			return lastDB
		}
		lastDB = rapid.SampledFrom(vDBs).Draw(rt, "db")
		return lastDB
	}
	rp := func() string {
		if di := cur.Database(lastDB); di != nil && len(di.RetentionPolicies) > 0 && rapid.IntRange(0, 3).Draw(rt, "rpExisting") > 0 {
			return rapid.SampledFrom(di.RetentionPolicies).Draw(rt, "rpi").Name
		}
		return rapid.SampledFrom(vRPs).Draw(rt, "rp")
	}
	user := func() string {
		if len(cur.Users) > 0 && rapid.IntRange(0, 3).Draw(rt, "userExisting") > 0 {
			return rapid.SampledFrom(cur.Users).Draw(rt, "ui").Name
		}
		return rapid.SampledFrom(vUsers).Draw(rt, "user")
	}
	nodeID := func() uint64 {
		ids := []uint64{0, 1, 2, 3, 9}
		for _, n := range cur.DataNodes {
			ids = append(ids, n.ID, n.ID, n.ID)
		}
		return rapid.SampledFrom(ids).Draw(rt, "nodeID")
	}
	shardID := func() uint64 {
		ids := []uint64{0, 1, 99}
		for _, d := range cur.Databases {
			for _, r := range d.RetentionPolicies {
				for _, sg := range r.ShardGroups {
					for _, sh := range sg.Shards {
						ids = append(ids, sh.ID, sh.ID)
					}
				}
			}
		}
		return rapid.SampledFrom(ids).Draw(rt, "shardID")
	}
	c := vCommand{Kind: kind}
	mk := func(typ internal.Command_Type, desc *proto.ExtensionDesc, v proto.Message) {
		c.Bytes = vCmd(typ, desc, v)
		c.Desc = kind + " " + proto.CompactTextString(v)
	}
	switch kind {
	case "createDataNode":
		// data-node addresses come from a pool disjoint from the meta-node pool (DESIGN C06 precondition)
		n := rapid.IntRange(0, 7).Draw(rt, "n")
		mk(internal.Command_CreateDataNodeCommand, internal.E_CreateDataNodeCommand_Command, &internal.CreateDataNodeCommand{HTTPAddr: proto.String(fmt.Sprintf("h%d", n)), TCPAddr: proto.String(fmt.Sprintf("t%d", n))})
	case "deleteDataNode":
		mk(internal.Command_DeleteDataNodeCommand, internal.E_DeleteDataNodeCommand_Command, &internal.DeleteDataNodeCommand{ID: proto.Uint64(nodeID())})
	case "updateDataNode":
		n := rapid.IntRange(0, 7).Draw(rt, "n")
		mk(internal.Command_UpdateDataNodeCommand, internal.E_UpdateDataNodeCommand_Command, &internal.UpdateDataNodeCommand{ID: proto.Uint64(nodeID()), HTTPAddr: proto.String(fmt.Sprintf("h%d", n)), TCPAddr: proto.String(fmt.Sprintf("t%d", n))})
	case "createMetaNode":
		n := rapid.IntRange(0, 3).Draw(rt, "n")
		mk(internal.Command_CreateMetaNodeCommand, internal.E_CreateMetaNodeCommand_Command, &internal.CreateMetaNodeCommand{HTTPAddr: proto.String(fmt.Sprintf("mh%d", n)), TCPAddr: proto.String(fmt.Sprintf("mt%d", n)), Rand: proto.Uint64(uint64(rapid.IntRange(1, 9).Draw(rt, "rand")))})
	case "setMetaNode":
		n := rapid.IntRange(0, 3).Draw(rt, "n")
		mk(internal.Command_SetMetaNodeCommand, internal.E_SetMetaNodeCommand_Command, &internal.SetMetaNodeCommand{HTTPAddr: proto.String(fmt.Sprintf("mh%d", n)), TCPAddr: proto.String(fmt.Sprintf("mt%d", n)), Rand: proto.Uint64(uint64(rapid.IntRange(1, 9).Draw(rt, "rand")))})
	case "deleteMetaNode":
		ids := []uint64{0, 1, 2, 7}
		for _, n := range cur.MetaNodes {
			ids = append(ids, n.ID)
		}
		mk(internal.Command_DeleteMetaNodeCommand, internal.E_DeleteMetaNodeCommand_Command, &internal.DeleteMetaNodeCommand{ID: proto.Uint64(rapid.SampledFrom(ids).Draw(rt, "id"))})
	case "createDB":
		v := &internal.CreateDatabaseCommand{Name: proto.String(db())}
		if rapid.Bool().Draw(rt, "withrp") {
			v.RetentionPolicy = &internal.RetentionPolicyInfo{Name: proto.String(rp()),
				Duration:           proto.Int64(rapid.SampledFrom([]int64{0, vHour, 48 * vHour, 1, 30 * 60 * 1e9}).Draw(rt, "dur")),
				ShardGroupDuration: proto.Int64(rapid.SampledFrom([]int64{0, vHour, 24 * vHour, 72 * vHour}).Draw(rt, "sgd")),
				ReplicaN:           proto.Uint32(uint32(rapid.IntRange(0, 5).Draw(rt, "rn")))}
		}
		mk(internal.Command_CreateDatabaseCommand, internal.E_CreateDatabaseCommand_Command, v)
	case "dropDB":
		mk(internal.Command_DropDatabaseCommand, internal.E_DropDatabaseCommand_Command, &internal.DropDatabaseCommand{Name: proto.String(db())})
	case "createRP":
		mk(internal.Command_CreateRetentionPolicyCommand, internal.E_CreateRetentionPolicyCommand_Command, &internal.CreateRetentionPolicyCommand{Database: proto.String(db()),
			RetentionPolicy: &internal.RetentionPolicyInfo{Name: proto.String(rapid.SampledFrom(vRPs).Draw(rt, "newrp")),
				Duration:           proto.Int64(rapid.SampledFrom([]int64{0, 0, 200 * vHour, 48 * vHour, vHour, 1, 30 * 60 * 1e9}).Draw(rt, "dur")),
				ShardGroupDuration: proto.Int64(rapid.SampledFrom([]int64{0, vHour, vHour, 24 * vHour, 72 * vHour, 7 * vHour}).Draw(rt, "sgd")),
				ReplicaN:           proto.Uint32(uint32(rapid.SampledFrom([]int{1, 1, 2, 2, 3, 5, 0}).Draw(rt, "rn")))},
			Default: proto.Bool(rapid.Bool().Draw(rt, "def"))})
	case "updateRP":
		v := &internal.UpdateRetentionPolicyCommand{Database: proto.String(db()), Name: proto.String(rp())}
		if rapid.Bool().Draw(rt, "sgd?") {
			v.ShardGroupDuration = proto.Int64(rapid.SampledFrom([]int64{vHour, 5 * vHour, 24 * vHour, 7 * vHour, 0}).Draw(rt, "sgd"))
		}
		if rapid.Bool().Draw(rt, "dur?") {
			v.Duration = proto.Int64(rapid.SampledFrom([]int64{0, vHour, 100 * vHour, 1}).Draw(rt, "dur"))
		}
		if rapid.Bool().Draw(rt, "rn?") {
			v.ReplicaN = proto.Uint32(uint32(rapid.IntRange(0, 5).Draw(rt, "rn")))
		}
		if rapid.Bool().Draw(rt, "name?") {
			v.NewName = proto.String(rp())
		}
		if rapid.Bool().Draw(rt, "def?") {
			v.Default = proto.Bool(rapid.Bool().Draw(rt, "def"))
		}
		mk(internal.Command_UpdateRetentionPolicyCommand, internal.E_UpdateRetentionPolicyCommand_Command, v)
	case "dropRP":
		mk(internal.Command_DropRetentionPolicyCommand, internal.E_DropRetentionPolicyCommand_Command, &internal.DropRetentionPolicyCommand{Database: proto.String(db()), Name: proto.String(rp())})
	case "createSG":
		d, r := db(), rp()
		c.Policy = d + "." + r
		mk(internal.Command_CreateShardGroupCommand, internal.E_CreateShardGroupCommand_Command, &internal.CreateShardGroupCommand{Database: proto.String(d), Policy: proto.String(r), Timestamp: proto.Int64(vTimestampGen(cur).Draw(rt, "ts"))})
	case "deleteSG":
		type tgt struct {
			db, rp string
			id     uint64
		}
		var tgts []tgt
		for _, d := range cur.Databases {
			for _, r := range d.RetentionPolicies {
				for _, sg := range r.ShardGroups {
					tgts = append(tgts, tgt{d.Name, r.Name, sg.ID})
				}
			}
		}
		if len(tgts) > 0 && rapid.IntRange(0, 3).Draw(rt, "sgExisting") > 0 {
			g := rapid.SampledFrom(tgts).Draw(rt, "tgt")
			mk(internal.Command_DeleteShardGroupCommand, internal.E_DeleteShardGroupCommand_Command, &internal.DeleteShardGroupCommand{Database: proto.String(g.db), Policy: proto.String(g.rp), ShardGroupID: proto.Uint64(g.id)})
		} else {
			d := db()
			mk(internal.Command_DeleteShardGroupCommand, internal.E_DeleteShardGroupCommand_Command, &internal.DeleteShardGroupCommand{Database: proto.String(d), Policy: proto.String(rp()), ShardGroupID: proto.Uint64(rapid.SampledFrom([]uint64{0, 1, 2, 50}).Draw(rt, "id"))})
		}
	case "truncate":
		mk(internal.Command_TruncateShardGroupsCommand, internal.E_TruncateShardGroupsCommand_Command, &internal.TruncateShardGroupsCommand{Timestamp: proto.Int64(vTimestampGen(cur).Draw(rt, "ts"))})
	case "prune":
		mk(internal.Command_PruneShardGroupsCommand, internal.E_PruneShardGroupsCommand_Command, &internal.PruneShardGroupsCommand{})
	case "dropShard":
		mk(internal.Command_DropShardCommand, internal.E_DropShardCommand_Command, &internal.DropShardCommand{ID: proto.Uint64(shardID())})
	case "copyOwner":
		mk(internal.Command_CopyShardOwnerCommand, internal.E_CopyShardOwnerCommand_Command, &internal.CopyShardOwnerCommand{ID: proto.Uint64(shardID()), NodeID: proto.Uint64(nodeID())})
	case "removeOwner":
		mk(internal.Command_RemoveShardOwnerCommand, internal.E_RemoveShardOwnerCommand_Command, &internal.RemoveShardOwnerCommand{ID: proto.Uint64(shardID()), NodeID: proto.Uint64(nodeID())})
	case "createUser":
		mk(internal.Command_CreateUserCommand, internal.E_CreateUserCommand_Command, &internal.CreateUserCommand{Name: proto.String(user()), Hash: proto.String(rapid.SampledFrom([]string{"h1", "h2", ""}).Draw(rt, "hash")), Admin: proto.Bool(rapid.Bool().Draw(rt, "adm"))})
	case "dropUser":
		mk(internal.Command_DropUserCommand, internal.E_DropUserCommand_Command, &internal.DropUserCommand{Name: proto.String(user())})
	case "updateUser":
		mk(internal.Command_UpdateUserCommand, internal.E_UpdateUserCommand_Command, &internal.UpdateUserCommand{Name: proto.String(user()), Hash: proto.String(rapid.SampledFrom([]string{"h1", "h2", "h3"}).Draw(rt, "hash"))})
	case "setPriv":
		mk(internal.Command_SetPrivilegeCommand, internal.E_SetPrivilegeCommand_Command, &internal.SetPrivilegeCommand{Username: proto.String(user()), Database: proto.String(db()), Privilege: proto.Int32(int32(rapid.IntRange(0, 3).Draw(rt, "p")))})
	case "setAdmin":
		mk(internal.Command_SetAdminPrivilegeCommand, internal.E_SetAdminPrivilegeCommand_Command, &internal.SetAdminPrivilegeCommand{Username: proto.String(user()), Admin: proto.Bool(rapid.Bool().Draw(rt, "adm"))})
	case "createCQ":
		name := rapid.SampledFrom(vCQs).Draw(rt, "cq")
		q := rapid.SampledFrom([]string{"CREATE CONTINUOUS QUERY %s ON %s BEGIN SELECT count(v) INTO m2 FROM m GROUP BY time(1h) END", "CREATE CONTINUOUS QUERY %s ON %s BEGIN SELECT mean(v) INTO m3 FROM m GROUP BY time(5m) END"}).Draw(rt, "q")
		d := db()
		mk(internal.Command_CreateContinuousQueryCommand, internal.E_CreateContinuousQueryCommand_Command, &internal.CreateContinuousQueryCommand{Database: proto.String(d), Name: proto.String(name), Query: proto.String(fmt.Sprintf(q, name, d))})
	case "dropCQ":
		mk(internal.Command_DropContinuousQueryCommand, internal.E_DropContinuousQueryCommand_Command, &internal.DropContinuousQueryCommand{Database: proto.String(db()), Name: proto.String(rapid.SampledFrom(vCQs).Draw(rt, "cq"))})
	case "createSub":
		mk(internal.Command_CreateSubscriptionCommand, internal.E_CreateSubscriptionCommand_Command, &internal.CreateSubscriptionCommand{Database: proto.String(db()), RetentionPolicy: proto.String(rp()), Name: proto.String(rapid.SampledFrom(vSubs).Draw(rt, "sub")),
			Mode: proto.String(rapid.SampledFrom([]string{"ANY", "ALL"}).Draw(rt, "mode")), Destinations: rapid.SampledFrom([][]string{{"udp://h:9000"}, {"http://a:1", "http://b:2"}, {"bogus"}, {}}).Draw(rt, "dest")})
	case "dropSub":
		mk(internal.Command_DropSubscriptionCommand, internal.E_DropSubscriptionCommand_Command, &internal.DropSubscriptionCommand{Database: proto.String(db()), RetentionPolicy: proto.String(rp()), Name: proto.String(rapid.SampledFrom(vSubs).Draw(rt, "sub"))})
	case "legacyUpdateNode":
		mk(internal.Command_UpdateNodeCommand, internal.E_UpdateNodeCommand_Command, &internal.UpdateNodeCommand{ID: proto.Uint64(nodeID()), Host: proto.String("h")})
	case "legacyDeleteNode":
		mk(internal.Command_DeleteNodeCommand, internal.E_DeleteNodeCommand_Command, &internal.DeleteNodeCommand{ID: proto.Uint64(nodeID()), Force: proto.Bool(false)})
	case "removePeer":
		mk(internal.Command_RemovePeerCommand, internal.E_RemovePeerCommand_Command, &internal.RemovePeerCommand{ID: proto.Uint64(nodeID()), Addr: proto.String("mt0")})
	default:
		panic("unknown kind " + kind)
	}
	return c
}

func vHasLiveGroup(d *Data) bool {
	for _, db := range d.Databases {
		for _, rp := range db.RetentionPolicies {
			for _, sg := range rp.ShardGroups {
				if !sg.Deleted() {
					return true
				}
			}
		}
	}
	return false
}

// vSink is an in-memory raft.SnapshotSink.
type vSink struct {
	bytes.Buffer
	cancelled bool
}

func (s *vSink) ID() string    { return "verif" }
func (s *vSink) Cancel() error { s.cancelled = true; return nil }
func (s *vSink) Close() error  { return nil }
