//go:build verif

package meta

// C07 - removal of meta nodes (influxd-ctl remove-meta, i.e. POST /remove on the leader): acknowledged
// metadata survives on every remaining node, also when the cluster shrinks to a single node.

import (
	"fmt"
	"sync"
	"io"
	"net/http"
	"net/url"
	"os"
	"path/filepath"
	"sort"
	"strings"
	"testing"
	"time"

	"pgregory.net/rapid"
	"verifkit"
)

func (m *vMNode) names() (dbs, users []string) {
	m.svc.store.mu.RLock()
	defer m.svc.store.mu.RUnlock()
	for _, d := range m.svc.store.data.Databases {
		dbs = append(dbs, d.Name)
	}
	for _, u := range m.svc.store.data.Users {
		users = append(users, u.Name)
	}
	sort.Strings(dbs)
	sort.Strings(users)
	return
}

func TestVerifC07Membership(t *testing.T) {
	stats := verifkit.For("C07", "TestVerifC07Membership",
		"a real meta cluster of 2 or 3 nodes gets a generated number of uniquely named commands acknowledged (create database / create user); then followers are removed one after the other through the leader's /remove endpoint (what influxd-ctl remove-meta sends) down to a drawn size >= 1, each removed node is shut down, and further commands are issued in between. Oracle: after every acknowledged removal every remaining node still holds every acknowledged change, and the changes acknowledged afterwards arrive too; a cluster that does not elect a leader or does not answer within the bound makes the case inconclusive, not a violation. non-trivial = the cluster was shrunk to one node, or commands were acknowledged both before and after a removal; distinct = (size, removals, commands)")
	defer stats.Flush()
	rapid.Check(t, func(rt *rapid.T) {
		dir, err := os.MkdirTemp("", "c07mem")
		if err != nil {
			rt.Fatal(err)
		}
		defer os.RemoveAll(dir)
		size := rapid.IntRange(2, 3).Draw(rt, "size")
		cl, err := vStartClusterN(dir, size)
		if err != nil {
			stats.Class("inconclusive:cluster-did-not-form", 1)
			rt.Skip("cluster did not form: " + err.Error())
		}
		defer cl.stopAll()
		removals := rapid.IntRange(1, size-1).Draw(rt, "removals")
		ackedDB, ackedUser := map[string]bool{}, map[string]bool{}
		seq := 0
		issue := func(https []string, n int) int {
			cc := NewConfig()
			cc.Dir = filepath.Join(dir, fmt.Sprint("client", seq))
			os.MkdirAll(cc.Dir, 0755)
			c := NewClient(cc)
			c.SetMetaServers(https)
			if err := c.Open(); err != nil {
				return 0
			}
			// a client call retries until a leader answers; without one it never returns: bound it
			var mu sync.Mutex
			cancelled := false
			ok := 0
			first := seq
			seq += n
			verifkit.Watch(25*time.Second, func() {
				for i := 1; i <= n; i++ {
					id := first + i
					var err error
					name := ""
					if id%3 == 0 {
						name = fmt.Sprintf("u_%d", id)
						_, err = c.CreateUser(name, "pw", false)
					} else {
						name = fmt.Sprintf("db_%d", id)
						_, err = c.CreateDatabase(name)
					}
					mu.Lock()
					if cancelled {
						mu.Unlock()
						return
					}
					if err == nil {
						if id%3 == 0 {
							ackedUser[name] = true
						} else {
							ackedDB[name] = true
						}
						ok++
					}
					mu.Unlock()
				}
			})
			mu.Lock()
			cancelled = true
			got := ok
			mu.Unlock()
			c.Close()
			return got
		}
		holdsAll := func(m *vMNode) string {
			dbs, users := m.names()
			have := map[string]bool{}
			for _, d := range dbs {
				have["db:"+d] = true
			}
			for _, u := range users {
				have["user:"+u] = true
			}
			var missing []string
			for d := range ackedDB {
				if !have["db:"+d] {
					missing = append(missing, "database "+d)
				}
			}
			for u := range ackedUser {
				if !have["user:"+u] {
					missing = append(missing, "user "+u)
				}
			}
			sort.Strings(missing)
			return strings.Join(missing, ", ")
		}
		// waitAll: every running node holds every acknowledged change (bounded; "" = yes)
		waitAll := func(bound time.Duration) string {
			deadline := time.Now().Add(bound)
			for {
				worst := ""
				for i, m := range cl.nodes {
					if m.up {
						if miss := holdsAll(m); miss != "" {
							worst = fmt.Sprintf("node %d lacks %s", i, miss)
						}
					}
				}
				if worst == "" || time.Now().After(deadline) {
					return worst
				}
				time.Sleep(50 * time.Millisecond)
			}
		}
		liveHTTPs := func() []string {
			var out []string
			for i, m := range cl.nodes {
				if m.up {
					out = append(out, cl.https[i])
				}
			}
			return out
		}
		before := issue(liveHTTPs(), rapid.IntRange(1, 5).Draw(rt, "commandsBefore"))
		if before == 0 {
			stats.Class("inconclusive:no-command-acknowledged", 1)
			rt.Skip("no command acknowledged")
		}
		if miss := waitAll(15 * time.Second); miss != "" {
			stats.Class("inconclusive:followers-did-not-catch-up", 1)
			rt.Skip("before any removal: " + miss)
		}
		after := 0
		var log []string
		for r := 0; r < removals; r++ {
			leader := -1
			var followers []int
			deadline := time.Now().Add(10 * time.Second)
			for leader < 0 && time.Now().Before(deadline) {
				followers = followers[:0]
				for i, m := range cl.nodes {
					if !m.up {
						continue
					}
					if m.svc.store.isLeader() {
						leader = i
					} else {
						followers = append(followers, i)
					}
				}
				if leader < 0 {
					time.Sleep(50 * time.Millisecond)
				}
			}
			if leader < 0 || len(followers) == 0 {
				stats.Class("inconclusive:no-leader", 1)
				rt.Skip("no leader before removal")
			}
			victim := followers[rapid.IntRange(0, len(followers)-1).Draw(rt, "victim")]
			resp, err := http.PostForm("http://"+cl.https[leader]+"/remove", url.Values{"httpAddr": {cl.https[victim]}, "force": {"false"}, "tcpAddr": {""}})
			if err != nil {
				stats.Class("inconclusive:remove-request-failed", 1)
				rt.Skip("POST /remove: " + err.Error())
			}
			body, _ := io.ReadAll(resp.Body)
			resp.Body.Close()
			log = append(log, fmt.Sprintf("remove node %d via leader %d: %s", victim, leader, resp.Status))
			if resp.StatusCode/100 != 2 {
				// a refused removal is not judged; nothing may be lost either way
				stats.Class("removal-refused", 1)
				log = append(log, string(body))
			}
			// right after the answer: the remaining nodes still hold everything that was acknowledged
			for i, m := range cl.nodes {
				if !m.up || i == victim {
					continue
				}
				if miss := holdsAll(m); miss != "" {
					rt.Fatalf("%s after removing meta node %d (%s) through the leader's /remove (%s), the remaining meta node %d no longer holds acknowledged metadata: %s; cluster of %d, history %v", verifkit.Sig("acknowledged-metadata-lost-on-member-removal"), victim, cl.https[victim], resp.Status, i, miss, size, log)
				}
			}
			if resp.StatusCode/100 == 2 {
				// decommission the removed node. Its raft instance sometimes never finishes shutting down once it
				// is no longer a peer (observation, outside this property): bound the wait and cut it off instead.
				v := cl.nodes[victim]
				if !verifkit.Watch(15*time.Second, func() { v.svc.Close() }) {
					stats.Class("observation:removed-meta-node-does-not-shut-down", 1)
				}
				v.ln.Close()
				v.up = false
			}
			// the shrunk cluster keeps working: further commands (bounded, otherwise inconclusive)
			n := rapid.IntRange(0, 3).Draw(rt, "commandsAfter")
			if n > 0 {
				got := 0
				deadline := time.Now().Add(20 * time.Second)
				for got == 0 && time.Now().Before(deadline) {
					got = issue(liveHTTPs(), n)
				}
				after += got
				if got == 0 {
					stats.Class("inconclusive:no-command-acknowledged-after-removal", 1)
				}
			}
			if miss := waitAll(15 * time.Second); miss != "" {
				rt.Fatalf("%s after removing meta node %d and %d further acknowledged commands: %s; cluster of %d, history %v", verifkit.Sig("acknowledged-metadata-lost-on-member-removal"), victim, after, miss, size, log)
			}
		}
		left := cl.upCount()
		stats.Case(left == 1 || (before > 0 && after > 0), fmt.Sprint(size, removals, before, after), fmt.Sprintf("size:%d", size), fmt.Sprintf("left:%d", left), fmt.Sprintf("ackedAfterRemoval:%v", after > 0))
		if stats.WantSample() {
			stats.Sample(map[string]interface{}{"size": size, "removals": removals, "acknowledged_before": before, "acknowledged_after": after, "history": log})
		} else {
			stats.Sample(nil)
		}
	})
}
