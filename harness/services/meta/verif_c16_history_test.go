//go:build verif

package meta

// C16 - requests run only with valid credentials and sufficient grants. Bed A, meta side:
// a meta.Client whose cacheData is installed the way pollForUpdates does it (swap + updateAuthCache,
// the installed value being a freshly unmarshalled snapshot as getSnapshot produces it),
// QueryAuthorizer and WriteAuthorizer on top of it, compared with the independent model of
// verif_c16_model_test.go. DESIGN.md section 4, C16.

import (
	"fmt"
	"os"
	"strings"
	"testing"

	"github.com/influxdata/influxdb/pkg/verifhook"
	"github.com/influxdata/influxql"
	"golang.org/x/crypto/bcrypt"
	"pgregory.net/rapid"
	"verifkit"
)

func init() {
	// the package variable the repository's own tests lower (services/meta/meta_test.go)
	bcryptCost = bcrypt.MinCost
}

const vHookAuth = "meta.auth.beforecache"

type vC16Bed struct {
	c  *Client
	d  *Data
	m  *vC16Model
	qa *QueryAuthorizer
	wa *WriteAuthorizer
	// cache bookkeeping for the non-triviality rule
	populated      map[string]bool // a successful Authenticate stored an entry for the current hash
	changedAfter   map[string]bool // ... and the user was changed afterwards
	probedAfter    bool            // ... and an authentication was attempted after that
	hookFired      int
	interleaveDone int
}

func vC16NewBed() *vC16Bed {
	c := NewClient(NewConfig())
	b := &vC16Bed{c: c, m: vC16NewModel(), populated: map[string]bool{}, changedAfter: map[string]bool{}}
	b.qa = NewQueryAuthorizer(c)
	b.wa = NewWriteAuthorizer(c)
	b.install(&Data{Index: 1})
	return b
}

// install publishes d the way pollForUpdates does: d is first passed through the wire encoding
// (getSnapshot returns a freshly unmarshalled value), then swapped in under the lock followed by
// updateAuthCache.
func (b *vC16Bed) install(d *Data) {
	buf, err := d.MarshalBinary()
	if err != nil {
		panic(err)
	}
	nd := &Data{}
	if err := nd.UnmarshalBinary(buf); err != nil {
		panic(err)
	}
	b.c.mu.Lock()
	b.c.cacheData = nd
	b.c.updateAuthCache()
	b.c.mu.Unlock()
	b.d = nd
}

func vC16Hash(pw string) string {
	h, err := bcrypt.GenerateFromPassword([]byte(pw), bcrypt.MinCost)
	if err != nil {
		panic(err)
	}
	return string(h)
}

type vC16Change struct {
	Kind  string // createUser dropUser setPassword recreateUser setPriv setAdmin createDB dropDB
	User  string
	DB    string
	Pw    string
	Priv  vPriv
	Admin bool
}

func (ch vC16Change) String() string {
	switch ch.Kind {
	case "createUser":
		return fmt.Sprintf("createUser(%s,%s,admin=%v)", ch.User, ch.Pw, ch.Admin)
	case "recreateUser":
		return fmt.Sprintf("drop+createUser(%s,%s,admin=%v)", ch.User, ch.Pw, ch.Admin)
	case "dropUser":
		return fmt.Sprintf("dropUser(%s)", ch.User)
	case "setPassword":
		return fmt.Sprintf("setPassword(%s,%s)", ch.User, ch.Pw)
	case "setPriv":
		return fmt.Sprintf("setPrivilege(%s,%s,%s)", ch.User, ch.DB, ch.Priv)
	case "setAdmin":
		return fmt.Sprintf("setAdmin(%s,%v)", ch.User, ch.Admin)
	}
	return fmt.Sprintf("%s(%s)", ch.Kind, ch.DB)
}

var vPrivToQL = map[vPriv]influxql.Privilege{vNone: influxql.NoPrivileges, vRead: influxql.ReadPrivilege, vWrite: influxql.WritePrivilege, vAll: influxql.AllPrivileges}

// vC16ApplyData applies one change to a clone of d with the Data methods the state machine uses.
func vC16ApplyData(d *Data, ch vC16Change) (*Data, error) {
	n := d.Clone()
	n.Index++
	var err error
	switch ch.Kind {
	case "createUser":
		err = n.CreateUser(ch.User, vC16Hash(ch.Pw), ch.Admin)
	case "dropUser":
		err = n.DropUser(ch.User)
	case "recreateUser":
		if err = n.DropUser(ch.User); err == nil {
			err = n.CreateUser(ch.User, vC16Hash(ch.Pw), ch.Admin)
		}
	case "setPassword":
		err = n.UpdateUser(ch.User, vC16Hash(ch.Pw))
	case "setPriv":
		err = n.SetPrivilege(ch.User, ch.DB, vPrivToQL[ch.Priv])
	case "setAdmin":
		err = n.SetAdminPrivilege(ch.User, ch.Admin)
	case "createDB":
		err = n.CreateDatabase(ch.DB)
	case "dropDB":
		err = n.DropDatabase(ch.DB)
	default:
		panic("unknown change " + ch.Kind)
	}
	if err != nil {
		return d, err
	}
	return n, nil
}

func vC16ApplyModel(m *vC16Model, ch vC16Change) bool {
	switch ch.Kind {
	case "createUser":
		return m.createUser(ch.User, ch.Pw, ch.Admin)
	case "dropUser":
		return m.dropUser(ch.User)
	case "recreateUser":
		return m.dropUser(ch.User) && m.createUser(ch.User, ch.Pw, ch.Admin)
	case "setPassword":
		return m.setPassword(ch.User, ch.Pw)
	case "setPriv":
		return m.setPriv(ch.User, ch.DB, ch.Priv)
	case "setAdmin":
		return m.setAdmin(ch.User, ch.Admin)
	case "createDB":
		return m.createDB(ch.DB)
	case "dropDB":
		return m.dropDB(ch.DB)
	}
	panic("unknown change " + ch.Kind)
}

// change applies ch to the metadata and (if accepted) installs it and updates the model.
// It returns "" or a failure text (model and Data disagree on whether the command is accepted).
func (b *vC16Bed) change(ch vC16Change) (accepted bool, fail string) {
	nd, err := vC16ApplyData(b.d, ch)
	if err != nil {
		// refused commands leave the model unchanged; the model must agree that they are refused
		if vC16WouldAccept(b.m, ch) {
			return false, fmt.Sprintf("%s refused by Data (%v) but accepted by the model", ch, err)
		}
		return false, ""
	}
	if !vC16ApplyModel(b.m, ch) {
		return false, fmt.Sprintf("%s accepted by Data but refused by the model", ch)
	}
	b.install(nd)
	if ch.User != "" && b.populated[ch.User] && ch.Kind != "createUser" {
		b.changedAfter[ch.User] = true
	}
	if ch.Kind == "setPassword" || ch.Kind == "dropUser" || ch.Kind == "recreateUser" {
		b.populated[ch.User] = false
	}
	return true, ""
}

func vC16WouldAccept(m *vC16Model, ch vC16Change) bool {
	switch ch.Kind {
	case "createUser":
		return ch.User != "" && m.Users[ch.User] == nil
	case "dropUser", "recreateUser", "setPassword", "setAdmin":
		return m.Users[ch.User] != nil
	case "setPriv":
		return m.Users[ch.User] != nil && m.DBs[ch.DB]
	case "createDB":
		return !m.DBs[ch.DB] // CreateDatabase on an existing name is accepted as a no-op as well
	}
	return true
}

func vC16DrawChange(rt *rapid.T, m *vC16Model, forUser string) vC16Change {
	kinds := []string{"createUser", "createUser", "dropUser", "setPassword", "setPassword", "recreateUser", "setPriv", "setPriv", "setPriv", "setPriv", "setAdmin", "createDB", "createDB", "dropDB"}
	if forUser != "" {
		kinds = []string{"dropUser", "setPassword", "setPassword", "setPassword", "recreateUser", "recreateUser", "setPriv", "setAdmin"}
	}
	ch := vC16Change{Kind: rapid.SampledFrom(kinds).Draw(rt, "changeKind")}
	ch.User = forUser
	switch ch.Kind {
	case "createDB", "dropDB":
		ch.DB = vDrawDB(rt, "db")
		return ch
	}
	if ch.User == "" {
		if ch.Kind == "createUser" {
			ch.User = rapid.SampledFrom(vC16UserPool).Draw(rt, "user")
		} else {
			ch.User = vC16PickUser(rt, m)
		}
	}
	switch ch.Kind {
	case "createUser", "recreateUser":
		ch.Pw = rapid.SampledFrom(vC16PwPool).Draw(rt, "pw")
		ch.Admin = rapid.IntRange(0, 3).Draw(rt, "admin") == 0
	case "setPassword":
		ch.Pw = rapid.SampledFrom(vC16PwPool).Draw(rt, "pw")
	case "setPriv":
		ch.DB = vDrawDB(rt, "db")
		ch.Priv = vPriv(rapid.SampledFrom([]int{0, 1, 1, 2, 2, 3, 3}).Draw(rt, "priv"))
	case "setAdmin":
		ch.Admin = rapid.Bool().Draw(rt, "admin")
	}
	return ch
}

// vC16PickUser prefers names that currently exist (3 of 4 draws) so that most requests get past authentication.
func vC16PickUser(rt *rapid.T, m *vC16Model) string {
	var ex []string
	for _, n := range vC16UserPool {
		if m.Users[n] != nil {
			ex = append(ex, n)
		}
	}
	if len(ex) > 0 && rapid.IntRange(0, 3).Draw(rt, "existingUser") > 0 {
		return rapid.SampledFrom(ex).Draw(rt, "user")
	}
	return rapid.SampledFrom(vC16UserPool).Draw(rt, "user")
}

// vC16DrawPw draws a password to present for user `name`: current / previous / never valid / empty.
func vC16DrawPw(rt *rapid.T, m *vC16Model, name string) (pw, kind string) {
	u := m.Users[name]
	switch rapid.IntRange(0, 7).Draw(rt, "pwKind") {
	case 0, 1, 2, 6, 7:
		if u != nil {
			return u.Pw, "current"
		}
		if old := m.Old[name]; len(old) > 0 {
			return old[len(old)-1], "previous"
		}
		return "never-valid", "never"
	case 3:
		if old := m.Old[name]; len(old) > 0 {
			p := rapid.SampledFrom(old).Draw(rt, "oldPw")
			if u != nil && u.Pw == p {
				return p, "current"
			}
			return p, "previous"
		}
		return "never-valid", "never"
	case 4:
		return "never-valid", "never"
	}
	return "", "empty"
}

// checkAuth runs Authenticate and compares with the model. It returns the user object (nil if refused).
func (b *vC16Bed) checkAuth(rt *rapid.T, name, pw, pwKind string, classes map[string]bool) User {
	want := b.m.authOK(name, pw)
	u, err := b.c.Authenticate(name, pw)
	got := err == nil
	if b.changedAfter[name] {
		b.probedAfter = true
	}
	if got && !want {
		sig := "auth-accepts-wrong-password"
		switch {
		case b.m.Users[name] == nil:
			sig = "auth-accepts-removed-user"
		case b.m.wasOld(name, pw):
			sig = "auth-accepts-stale-password"
		}
		rt.Fatalf("%s Authenticate(%q,%q [%s]) succeeded; model: %s", verifkit.Sig(sig), name, pw, pwKind, b.m)
	}
	if !got && want {
		rt.Fatalf("%s Authenticate(%q,%q) failed with %v; model: %s", verifkit.Sig("auth-rejects-current-password"), name, pw, err, b.m)
	}
	if got {
		if u == nil || u.ID() != name {
			rt.Fatalf("%s Authenticate(%q) returned user %v", verifkit.Sig("auth-returns-other-user"), name, u)
		}
		b.populated[name] = true
		classes["auth:ok"] = true
	} else {
		classes["auth:refused:"+pwKind] = true
		if b.m.Users[name] == nil {
			classes["auth:refused:no-such-user"] = true
		}
		return nil
	}
	return u
}

func vC16DenySig(why string, zeroUsers bool) string {
	switch {
	case zeroUsers:
		return "zero-users-runs-non-bootstrap-request"
	case strings.Contains(why, "needs admin"):
		return "query-runs-without-admin"
	case strings.Contains(why, "needs READ"):
		return "query-runs-without-read-grant"
	case strings.Contains(why, "needs WRITE"):
		return "query-runs-without-write-grant"
	case strings.Contains(why, "no authenticated user"):
		return "query-runs-without-user"
	}
	return "query-runs-unauthorized"
}

func vC16WhyClass(why string) string {
	for _, k := range []string{"needs admin", "needs READ", "needs WRITE", "no authenticated user", "zero users"} {
		if strings.Contains(why, k) {
			return strings.Replace(k, " ", "-", -1)
		}
	}
	return "other"
}

// vC16DrawRequest draws a request of 1..4 statements (at zero users half of the statements are the
// bootstrap statement, so that "first statement creates an administrator, more follow" is frequent).
func vC16DrawRequest(rt *rapid.T, m *vC16Model, def string, ex vExcluder, allowAST bool) (stmts []vC16Stmt, q *influxql.Query) {
	n := rapid.SampledFrom([]int{1, 1, 1, 2, 2, 3, 4}).Draw(rt, "nStmts")
	var texts []string
	for i := 0; i < n; i++ {
		var s vC16Stmt
		if len(m.Users) == 0 && rapid.Bool().Draw(rt, "bootstrap") {
			s = vC16Stmt{"CreateUserStatement", "CREATE USER " + rapid.SampledFrom(vC16UserPool).Draw(rt, "stmtUser") + " WITH PASSWORD 'secret' WITH ALL PRIVILEGES"}
		} else {
			s = vC16DrawStmt(rt, def, ex)
		}
		stmts = append(stmts, s)
		texts = append(texts, s.Text)
	}
	q, err := influxql.ParseQuery(strings.Join(texts, "; "))
	if err != nil {
		rt.Fatalf("%s generator produced an unparseable request %q: %v", verifkit.Sig("harness-unparseable-statement"), strings.Join(texts, "; "), err)
	}
	if len(q.Statements) != n {
		rt.Fatalf("%s %q parsed into %d statements, want %d", verifkit.Sig("harness-unparseable-statement"), strings.Join(texts, "; "), len(q.Statements), n)
	}
	for i, s := range q.Statements {
		if got := vC16TypeName(s); got != stmts[i].Kind {
			rt.Fatalf("%s %q parsed as %s, generator says %s", verifkit.Sig("harness-unparseable-statement"), stmts[i].Text, got, stmts[i].Kind)
		}
	}
	// DeleteStatement is not produced by the parser (DELETE parses into DeleteSeriesStatement); it is
	// added as a constructed node so that every kind of the table is exercised
	if allowAST && len(m.Users) > 0 && rapid.IntRange(0, 19).Draw(rt, "astDelete") == 0 {
		q.Statements = append(q.Statements, &influxql.DeleteStatement{Source: &influxql.Measurement{Name: "m"}})
		stmts = append(stmts, vC16Stmt{"DeleteStatement", "DELETE FROM m (constructed DeleteStatement)"})
	}
	return stmts, q
}

// checkQuery runs AuthorizeQuery for user object uo (nil = none) known to the model as `name` ("" = none).
func (b *vC16Bed) checkQuery(rt *rapid.T, uo User, name string, stmts []vC16Stmt, q *influxql.Query, def string, classes map[string]bool) (mixed bool) {
	want, why := b.m.allowsQuery(name, q.Statements, def)
	var uarg User
	if uo != nil {
		uarg = uo // avoid a typed-nil interface
	}
	_, err := b.qa.AuthorizeQuery(uarg, q, def)
	got := err == nil
	if got && !want {
		rt.Fatalf("%s AuthorizeQuery(user=%q, %q, db=%q) allowed; model refuses: %s; model: %s", verifkit.Sig(vC16DenySig(why, len(b.m.Users) == 0)), name, q.String(), def, why, b.m)
	}
	if !got && want {
		rt.Fatalf("%s AuthorizeQuery(user=%q, %q, db=%q) refused with %v; model allows; model: %s", verifkit.Sig("authorized-query-refused"), name, q.String(), def, err, b.m)
	}
	multi := "single"
	if len(stmts) > 1 {
		multi = "multi"
	}
	if got {
		classes["query:allowed:"+multi] = true
	} else {
		classes["query:refused:"+multi+":"+vC16WhyClass(why)] = true
	}
	// per-statement verdicts (model only) for the histogram and the "mixed request" rule
	nAllow, nDeny := 0, 0
	u := b.m.Users[name]
	for i, s := range q.Statements {
		ok := false
		if len(b.m.Users) == 0 {
			ok, _ = b.m.allowsQuery(name, q.Statements[i:i+1], def)
		} else {
			ok, _ = b.m.allowsStmt(name, s, def)
		}
		if ok {
			nAllow++
		} else {
			nDeny++
		}
		if u != nil && !u.Admin {
			v := "deny"
			if ok {
				v = "allow"
			}
			classes["stmt:"+stmts[i].Kind+":"+v] = true
		}
	}
	if u != nil && u.Admin {
		classes["query:by-admin"] = true
	}
	return nAllow > 0 && nDeny > 0
}

func (b *vC16Bed) checkWrite(rt *rapid.T, name, db string, classes map[string]bool) {
	want := b.m.allowsWrite(name, db)
	err := b.wa.AuthorizeWrite(name, db)
	got := err == nil
	if got && !want {
		sig := "write-runs-without-write-grant"
		if b.m.Users[name] == nil {
			sig = "write-runs-without-user"
		}
		rt.Fatalf("%s AuthorizeWrite(%q,%q) allowed; model: %s", verifkit.Sig(sig), name, db, b.m)
	}
	if !got && want {
		rt.Fatalf("%s AuthorizeWrite(%q,%q) refused: %v; model: %s", verifkit.Sig("authorized-write-refused"), name, db, err, b.m)
	}
	if got {
		classes["write:allowed"] = true
	} else {
		classes["write:refused"] = true
	}
}

// interleave runs Authenticate(name, pw) and applies ch at the meta.auth.beforecache hook, i.e. between
// the bcrypt comparison and the cache store of that Authenticate (owned schedule, one goroutine).
// If the hook does not fire (cache hit, or refused credentials) the change is applied afterwards, so
// the history is the same for the model. Returns whether the hook fired.
func (b *vC16Bed) interleave(rt *rapid.T, name, pw string, ch vC16Change) (fired bool) {
	var hookFail string
	verifhook.Set(func(ev, path string, n int64) {
		if ev != vHookAuth || path != name || fired {
			return
		}
		fired = true
		b.hookFired++
		verifhook.Set(nil)
		_, hookFail = b.change(ch)
	})
	_, err := b.c.Authenticate(name, pw)
	verifhook.Set(nil)
	if hookFail != "" {
		rt.Fatalf("%s %s", verifkit.Sig("harness-model-action-mismatch"), hookFail)
	}
	if fired {
		// the hook sits after a successful bcrypt comparison: the overlapping call itself was decided
		// before the change and must have been accepted
		if err != nil {
			rt.Fatalf("%s Authenticate(%q) reached the cache store but returned %v", verifkit.Sig("auth-rejects-current-password"), name, err)
		}
		b.interleaveDone++
		// the overlapping Authenticate has stored (or tried to store) an entry made from the old hash
		if ch.Kind == "setPassword" || ch.Kind == "dropUser" || ch.Kind == "recreateUser" {
			b.changedAfter[name] = true
		}
		return true
	}
	if _, fail := b.change(ch); fail != "" {
		rt.Fatalf("%s %s", verifkit.Sig("harness-model-action-mismatch"), fail)
	}
	return false
}

func vC16ClassList(m map[string]bool) []string {
	var out []string
	for k := range m {
		out = append(out, k)
	}
	return out
}

func vC16Inconclusive(msg string) {
	// the driver has no first-class "inconclusive" outcome for a test that ran: a worker that exits
	// non-zero without a FAIL line or a signature twice is reported as inconclusive (exit 2)
	fmt.Println("VERIF-INCONCLUSIVE " + msg)
	verifkit.FlushAll()
	os.Exit(3)
}

func TestVerifC16History(t *testing.T) {
	st := verifkit.For("C16", "TestVerifC16History",
		"rapid histories of 5..45 steps over 4 user names, 3 databases, 4 passwords: metadata changes (create/drop/re-create user, set password, set privilege NONE/READ/WRITE/ALL, set/unset admin, create/drop database), each installed in the client like pollForUpdates; Authenticate with current/previous/never-valid/empty password; AuthorizeQuery for requests of 1..4 statements drawn from every statement kind with explicit and default database, for an authenticated, looked-up or absent user; AuthorizeWrite; Authenticate with a change installed at the meta.auth.beforecache hook. Non-trivial = an authentication populated the cache, the user was changed afterwards and an authentication was attempted after that, or a multi-statement request mixing allowed and refused statements; distinct = hash of the (step kind, outcome) sequence")
	defer st.Flush()
	totalFired := 0
	rapid.Check(t, func(rt *rapid.T) {
		defer verifhook.Set(nil)
		b := vC16NewBed()
		classes := map[string]bool{}
		var canon strings.Builder
		var trace []string
		mixedSeen := false
		// two thirds of the histories start populated
		if rapid.IntRange(0, 2).Draw(rt, "warm") > 0 {
			warm := []vC16Change{{Kind: "createDB", DB: "db0"}, {Kind: "createDB", DB: "db1"}, {Kind: "createDB", DB: "db2"},
				{Kind: "createUser", User: "u0", Pw: "pw-a", Admin: true}, {Kind: "createUser", User: "u1", Pw: "pw-b"}, {Kind: "createUser", User: "u2", Pw: "pw-c"},
				{Kind: "setPriv", User: "u1", DB: "db0", Priv: vPriv(rapid.IntRange(1, 3).Draw(rt, "warmPriv"))},
				{Kind: "setPriv", User: "u1", DB: "db1", Priv: vPriv(rapid.IntRange(0, 3).Draw(rt, "warmPriv"))},
				{Kind: "setPriv", User: "u2", DB: vDrawDB(rt, "warmDB"), Priv: vPriv(rapid.IntRange(1, 3).Draw(rt, "warmPriv"))},
				{Kind: "setPriv", User: "u2", DB: vDrawDB(rt, "warmDB"), Priv: vPriv(rapid.IntRange(1, 3).Draw(rt, "warmPriv"))}}
			for _, ch := range warm {
				if _, fail := b.change(ch); fail != "" {
					rt.Fatalf("%s %s", verifkit.Sig("harness-model-action-mismatch"), fail)
				}
			}
			trace = append(trace, "warm: db0 db1 db2 u0(admin,pw-a) u1(pw-b) u2(pw-c) with grants: "+b.m.String())
		}
		n := rapid.IntRange(5, 45).Draw(rt, "steps")
		for i := 0; i < n; i++ {
			switch k := rapid.SampledFrom([]string{"change", "change", "change", "auth", "auth", "auth", "query", "query", "query", "query", "query", "write", "interleave", "interleave"}).Draw(rt, "step"); k {
			case "change":
				ch := vC16DrawChange(rt, b.m, "")
				ok, fail := b.change(ch)
				if fail != "" {
					rt.Fatalf("%s %s", verifkit.Sig("harness-model-action-mismatch"), fail)
				}
				r := "refused"
				if ok {
					r = "ok"
				}
				classes["change:"+ch.Kind+":"+r] = true
				fmt.Fprintf(&canon, "c:%s:%s;", ch.Kind, r)
				trace = append(trace, ch.String()+" => "+r)
			case "auth":
				name := vC16PickUser(rt, b.m)
				pw, kind := vC16DrawPw(rt, b.m, name)
				u := b.checkAuth(rt, name, pw, kind, classes)
				fmt.Fprintf(&canon, "a:%s:%v;", kind, u != nil)
				trace = append(trace, fmt.Sprintf("authenticate(%s,%q[%s]) => %v", name, pw, kind, u != nil))
			case "query":
				def := rapid.SampledFrom([]string{"", "db0", "db0", "db1", "db2"}).Draw(rt, "defaultDB")
				stmts, q := vC16DrawRequest(rt, b.m, def, st, true)
				name := ""
				var uo User
				cred := rapid.SampledFrom([]string{"password", "password", "password", "lookup", "none"}).Draw(rt, "cred")
				switch cred {
				case "password":
					name = vC16PickUser(rt, b.m)
					pw, kind := vC16DrawPw(rt, b.m, name)
					uo = b.checkAuth(rt, name, pw, kind, classes)
					if uo == nil {
						name = ""
					}
				case "lookup": // the bearer-token path: the user is looked up by name, no password
					name = vC16PickUser(rt, b.m)
					x, err := b.c.User(name)
					if (err == nil && x != nil) != (b.m.Users[name] != nil) {
						rt.Fatalf("%s User(%q) = %v, %v; model: %s", verifkit.Sig("user-lookup-differs"), name, x, err, b.m)
					}
					if err != nil || x == nil {
						name = ""
					} else {
						uo = x
					}
				}
				if b.checkQuery(rt, uo, name, stmts, q, def, classes) {
					mixedSeen = true
					classes["nt:mixed-request"] = true
				}
				if def == "" {
					classes["query:no-default-db"] = true
				}
				fmt.Fprintf(&canon, "q:%s:%d;", cred, len(stmts))
				trace = append(trace, fmt.Sprintf("authorizeQuery(user=%q via %s, %q, db=%q)", name, cred, q.String(), def))
			case "write":
				name := vC16PickUser(rt, b.m)
				db := vDrawDB(rt, "db")
				b.checkWrite(rt, name, db, classes)
				fmt.Fprintf(&canon, "w;")
				trace = append(trace, fmt.Sprintf("authorizeWrite(%s,%s)", name, db))
			case "interleave":
				name := vC16PickUser(rt, b.m)
				u := b.m.Users[name]
				if u == nil {
					classes["interleave:no-such-user"] = true
					continue
				}
				old := u.Pw
				ch := vC16DrawChange(rt, b.m, name)
				fired := b.interleave(rt, name, old, ch)
				classes[fmt.Sprintf("interleave:%s:fired=%v", ch.Kind, fired)] = true
				fmt.Fprintf(&canon, "i:%s:%v;", ch.Kind, fired)
				trace = append(trace, fmt.Sprintf("authenticate(%s,%q) with %s installed at %s (fired=%v)", name, old, ch, vHookAuth, fired))
				// the credentials that were valid before the change, and the ones valid now
				b.checkAuth(rt, name, old, "previous-or-current", classes)
				if nu := b.m.Users[name]; nu != nil {
					b.checkAuth(rt, name, nu.Pw, "current", classes)
				}
			}
		}
		nt := b.probedAfter || mixedSeen
		if b.probedAfter {
			classes["nt:cache-populated-then-changed-then-probed"] = true
		}
		totalFired += b.hookFired
		st.Case(nt, canon.String(), vC16ClassList(classes)...)
		if st.WantSample() {
			st.Sample(map[string]interface{}{"history": trace, "final_model": b.m.String()})
		} else {
			st.Sample(nil)
		}
	})
	st.Note("hook_meta.auth.beforecache_fired", fmt.Sprint(totalFired))
	if !t.Failed() && totalFired == 0 {
		vC16Inconclusive("hook meta.auth.beforecache never fired in TestVerifC16History")
	}
}
