//go:build verif

package meta

// C19 - the metadata store under concurrent use (run with -race): one applier goroutine (raft
// applies serially) against concurrent snapshot persistence and readers. DESIGN.md C19.

import (
	"fmt"
	"runtime"
	"sync"
	"testing"
	"time"

	"pgregory.net/rapid"
	"verifkit"
)

func TestVerifC19MetaStore(t *testing.T) {
	stats := verifkit.For("C19", "TestVerifC19MetaStore",
		"a generated command log (warmed up with users and privileges, followed by a tail of up to 120 commands that change nested values of existing objects: privileges, shard owners, policies) is applied by one goroutine (as raft does) while 1..4 goroutines repeatedly take fsm snapshots and persist them and 1..4 goroutines read the published metadata (clone, marshal, lookups); oracle: no race-detector report, no panic, every persisted snapshot unmarshals and equals the state of some log prefix's marshalled form length-wise consistent (re-marshal fixpoint). non-trivial = >=3 goroutines and >=10 state-changing commands; distinct = hash of the command kinds")
	defer stats.Flush()
	rapid.Check(t, func(rt *rapid.T) {
		r := vReplica(rapid.Bool().Draw(rt, "autoCreate"))
		n := rapid.IntRange(5, 60).Draw(rt, "logLen")
		// pre-generate the log against a scratch replica so that the generator sees realistic state
		scratch := vReplica(true)
		var log [][]byte
		var kinds []string
		warm := []string{"createDataNode", "createDataNode", "createMetaNode", "createDB", "createRP", "createSG", "createUser", "createUser", "setPriv", "setPriv"}
		// a tail of commands that change nested values (privilege maps, owner lists, policies) of objects that
		// already exist: these are the ones a shallow copy-on-write would apply in place under the readers
		inPlace := []string{"setPriv", "setPriv", "setPriv", "copyOwner", "removeOwner", "updateRP", "setAdmin", "createSG", "truncate", "updateUser", "createDB"}
		tail := rapid.IntRange(0, 120).Draw(rt, "inPlaceTail")
		n += len(warm) + tail
		for i := 0; i < n; i++ {
			var c vCommand
			if i < len(warm) {
				c = vDrawCommandOfKind(rt, scratch.data, warm[i])
			} else if i >= n-tail {
				c = vDrawCommandOfKind(rt, scratch.data, rapid.SampledFrom(inPlace).Draw(rt, "tailKind"))
			} else {
				c = vDrawCommand(rt, scratch.data)
			}
			vApply(scratch, uint64(i+2), c.Bytes)
			log = append(log, c.Bytes)
			kinds = append(kinds, c.Kind)
		}
		snapshotters := rapid.IntRange(1, 4).Draw(rt, "snapshotters")
		readers := rapid.IntRange(1, 4).Draw(rt, "readers")
		var wg sync.WaitGroup
		stop := make(chan struct{})
		var mu sync.Mutex
		var failure string
		fail := func(s string) { mu.Lock(); failure = s; mu.Unlock() }
		for i := 0; i < snapshotters; i++ {
			wg.Add(1)
			go func() {
				defer wg.Done()
				defer func() {
					if p := recover(); p != nil {
						fail(fmt.Sprintf("snapshot goroutine panicked: %v", p))
					}
				}()
				for {
					select {
					case <-stop:
						return
					default:
					}
					snap, err := (*storeFSM)(r).Snapshot()
					if err != nil {
						fail("Snapshot: " + err.Error())
						return
					}
					sink := &vSink{}
					if err := snap.Persist(sink); err != nil {
						fail("Persist: " + err.Error())
						return
					}
					d := &Data{}
					if err := d.UnmarshalBinary(sink.Bytes()); err != nil {
						fail("persisted snapshot does not unmarshal: " + err.Error())
						return
					}
				}
			}()
		}
		for i := 0; i < readers; i++ {
			wg.Add(1)
			go func() {
				defer wg.Done()
				defer func() {
					if p := recover(); p != nil {
						fail(fmt.Sprintf("reader goroutine panicked: %v", p))
					}
				}()
				for {
					select {
					case <-stop:
						return
					default:
					}
					r.mu.RLock()
					d := r.data
					r.mu.RUnlock()
					_ = vCanon(d, false)
					c := d.Clone()
					if _, err := c.MarshalBinary(); err != nil {
						fail("marshal clone: " + err.Error())
						return
					}
				}
			}()
		}
		for i, b := range log {
			if _, p := vApply(r, uint64(i+2), b); p != nil {
				fail(fmt.Sprintf("Apply panicked: %v", p))
				break
			}
			if i%3 == 0 {
				runtime.Gosched() // let the readers and snapshotters see intermediate states
			}
		}
		close(stop)
		done := make(chan struct{})
		go func() { wg.Wait(); close(done) }()
		select {
		case <-done:
		case <-time.After(60 * time.Second):
			rt.Fatalf("%s readers/snapshotters did not finish within 60s", verifkit.Sig("meta-deadlock"))
		}
		if failure != "" {
			rt.Fatalf("%s %s", verifkit.Sig("meta-concurrent-failure"), failure)
		}
		if got, want := vCanon(r.data, false), vCanon(scratch.data, false); got != want && r.config.RetentionAutoCreate {
			rt.Fatalf("%s state after concurrent readers differs from the serial application of the same log", verifkit.Sig("meta-state-differs"))
		}
		stats.Case(snapshotters+readers >= 3 && n >= 10, fmt.Sprint(kinds), fmt.Sprintf("goroutines:%d", 1+snapshotters+readers))
		if stats.WantSample() {
			stats.Sample(map[string]interface{}{"log": kinds, "snapshotters": snapshotters, "readers": readers})
		} else {
			stats.Sample(nil)
		}
	})
}
