//go:build verif

package meta

// C07 - the metadata caches of data nodes converge: a long poll (GET /?index=N, served by waiting on
// store.afterIndex(N) and then sending store.snapshot()) is answered for EVERY change, whatever its timing
// relative to the change - a cache must not need some later, unrelated change to shake it loose.
//
// The oracle is a state predicate, not a time limit: once every writer has been acknowledged and nothing more
// will be applied, a poller that is blocked on the channel it got for an index below the store's index, while that
// channel is still open, can never wake up.

import (
	"fmt"
	"net"
	"os"
	"runtime"
	"sync"
	"testing"
	"time"

	"github.com/gogo/protobuf/proto"
	internal "github.com/influxdata/influxdb/services/meta/internal"
	"github.com/influxdata/influxdb/tcp"
	"pgregory.net/rapid"
	"verifkit"
)

type vC07Poller struct {
	mu      sync.Mutex
	idx     uint64          // index of the cache
	waitIdx uint64          // index passed to afterIndex
	waitCh  <-chan struct{} // channel it is blocked on (nil while it is fetching)
}

func TestVerifC07CacheConvergence(t *testing.T) {
	st := verifkit.For("C07", "TestVerifC07CacheConvergence",
		"a real single-server meta store; 8..64 pollers run the long-poll protocol of the snapshot handler (wait on afterIndex(cache index), then fetch snapshot) while 2..6 writers apply create/drop database commands at the same time (raft commits them together, the state machine applies them back to back), for 50..400 rounds. After every round, with all writers acknowledged and nothing in flight: every poller either reaches the store's index, or is found blocked on a still open channel obtained for an index below the store's index - a lost wake-up, since no further change will close it (state predicate, no time limit; the wait for a poller to settle is bounded only by the test watchdog). non-trivial = at least 16 pollers and 3 writers; distinct = (pollers, writers, rounds)")
	defer st.Flush()
	rapid.Check(t, func(rt *rapid.T) {
		ln, err := net.Listen("tcp", "127.0.0.1:0")
		if err != nil {
			rt.Fatal(err)
		}
		defer ln.Close()
		mux := tcp.NewMux()
		raftLn := mux.Listen(MuxHeader)
		go mux.Serve(ln)
		dir, err := os.MkdirTemp("", "c07poll")
		if err != nil {
			rt.Fatal(err)
		}
		defer os.RemoveAll(dir)
		cfg := NewConfig()
		cfg.Dir = dir
		cfg.SingleServer = true
		cfg.LoggingEnabled = false
		cfg.BindAddress = ln.Addr().String()
		cfg.HTTPBindAddress = "127.0.0.1:1"
		s := newStore(cfg, cfg.HTTPBindAddress, cfg.BindAddress)
		if err := s.open(raftLn); err != nil {
			rt.Fatalf("VERIF-INCONCLUSIVE harness: open store: %v", err)
		}
		defer s.close()
		np := rapid.SampledFrom([]int{8, 16, 32, 64}).Draw(rt, "pollers")
		nw := rapid.IntRange(2, 6).Draw(rt, "writers")
		rounds := rapid.SampledFrom([]int{50, 150, 400}).Draw(rt, "rounds")
		stop := make(chan struct{})
		var wg sync.WaitGroup
		ps := make([]*vC07Poller, np)
		for i := range ps {
			p := &vC07Poller{}
			ps[i] = p
			wg.Add(1)
			go func() {
				defer wg.Done()
				for {
					p.mu.Lock()
					idx := p.idx
					p.mu.Unlock()
					ch := s.afterIndex(idx)
					p.mu.Lock()
					p.waitIdx, p.waitCh = idx, ch
					p.mu.Unlock()
					select {
					case <-ch:
					case <-stop:
						return
					}
					p.mu.Lock()
					p.waitCh = nil
					p.mu.Unlock()
					d, err := s.snapshot()
					if err != nil {
						return
					}
					p.mu.Lock()
					p.idx = d.Index
					p.mu.Unlock()
				}
			}()
		}
		defer wg.Wait()
		defer close(stop)
		apply := func(typ internal.Command_Type, desc *proto.ExtensionDesc, v interface{}) error {
			return s.apply(vCmd(typ, desc, v))
		}
		for r := 1; r <= rounds; r++ {
			errs := make(chan error, nw)
			for w := 0; w < nw; w++ {
				go func(w int) {
					name := fmt.Sprintf("db%d", w)
					if r%2 == 1 {
						errs <- apply(internal.Command_CreateDatabaseCommand, internal.E_CreateDatabaseCommand_Command, &internal.CreateDatabaseCommand{Name: proto.String(name)})
					} else {
						errs <- apply(internal.Command_DropDatabaseCommand, internal.E_DropDatabaseCommand_Command, &internal.DropDatabaseCommand{Name: proto.String(name)})
					}
				}(w)
			}
			for w := 0; w < nw; w++ {
				if err := <-errs; err != nil {
					rt.Fatalf("VERIF-INCONCLUSIVE harness: apply in round %d: %v", r, err)
				}
			}
			// every change is acknowledged, nothing is in flight
			now := s.index()
			for pi, p := range ps {
				for spin := 0; ; spin++ {
					p.mu.Lock()
					idx, wi, ch := p.idx, p.waitIdx, p.waitCh
					p.mu.Unlock()
					if idx >= now {
						break
					}
					if ch != nil && wi < now {
						open := true
						select {
						case <-ch:
							open = false
						default:
						}
						if open {
							rt.Fatalf("%s round %d: the store acknowledged every change up to index %d; poller %d holds index %d and is blocked on the channel afterIndex(%d) gave it, which is still open - no further change is coming, so this cache stays behind until some unrelated change is made (%d pollers, %d writers)",
								verifkit.Sig("cache-long-poll-misses-a-change"), r, now, pi, idx, wi, np, nw)
						}
					}
					if spin%64 == 63 {
						time.Sleep(50 * time.Microsecond)
					} else {
						runtime.Gosched()
					}
				}
			}
		}
		st.Case(np >= 16 && nw >= 3, fmt.Sprint(np, nw, rounds), fmt.Sprintf("pollers:%d", np), fmt.Sprintf("writers:%d", nw), fmt.Sprintf("rounds:%d", rounds))
		if st.WantSample() {
			st.Sample(map[string]interface{}{"pollers": np, "writers": nw, "rounds": rounds})
		} else {
			st.Sample(nil)
		}
	})
}
