//go:build verif

package meta_test

// C08 - routing through the REAL meta client and meta service. TestVerifC08Routing drives MapShards over an
// adapter on a meta.Data value; on a data node the group for a timestamp comes from meta.Client.CreateShardGroup
// (cached metadata first, then a command through the meta service). This test runs histories of shard-group
// creation, truncation, deletion and duration changes against a single-node meta service and checks what the
// client hands out, and what coordinator.PointsWriter.MapShards builds from it.

import (
	"fmt"
	"io"
	"log"
	"net"
	"os"
	"sort"
	"strings"
	"testing"
	"time"

	"github.com/influxdata/influxdb/coordinator"
	"github.com/influxdata/influxdb/models"
	"github.com/influxdata/influxdb/services/meta"
	"github.com/influxdata/influxdb/tcp"
	"github.com/influxdata/influxdb/toml"
	"pgregory.net/rapid"
	"verifkit"
)

// vC08Bed is one single-server meta service with one client, configured as the package's own
// newServiceAndClient configures them. That helper is not used: it takes its two listen addresses from two
// successive probes of "127.0.0.1:0", which return the same port about once in 5500 pairs, and panics when
// the service then cannot open its second listener (observed as a rapid "flaky test" failure of a case that
// had not drawn anything yet, DESIGN.md section 8.8). Starting the bed is not part of the property: a start
// that fails is repeated with fresh addresses.
type vC08Bed struct {
	dir string
	ln  net.Listener
	svc *meta.Service
	cli *meta.Client
}

func (b *vC08Bed) close() {
	if b.cli != nil {
		b.cli.Close()
	}
	if b.svc != nil {
		b.svc.Close()
	}
	if b.ln != nil {
		b.ln.Close()
	}
	os.RemoveAll(b.dir)
}

func vC08StartBedOnce() (bed *vC08Bed, err error) {
	cfg := meta.NewConfig()
	cfg.BindAddress = verifkit.FreeAddr()
	cfg.HTTPBindAddress = verifkit.FreeAddr()
	cfg.LeaseDuration = toml.Duration(time.Second)
	cfg.SingleServer = true
	if cfg.Dir, err = os.MkdirTemp("", "c08client"); err != nil {
		return nil, err
	}
	b := &vC08Bed{dir: cfg.Dir}
	defer func() {
		if r := recover(); r != nil {
			err = fmt.Errorf("panic while starting the bed: %v", r)
		}
		if err != nil {
			b.close()
			bed = nil
		}
	}()
	if b.ln, err = net.Listen("tcp", cfg.BindAddress); err != nil {
		return nil, err
	}
	mux := tcp.NewMux()
	mux.Logger = log.New(io.Discard, "", 0)
	s := meta.NewService(cfg)
	s.RaftListener = mux.Listen(meta.MuxHeader)
	go mux.Serve(b.ln)
	if err = s.Open(); err != nil {
		// the service holds no handler or store to close yet
		s.RaftListener.Close()
		return nil, err
	}
	b.svc = s
	c := meta.NewClient(cfg)
	c.SetMetaServers([]string{cfg.HTTPBindAddress})
	if err = c.Open(); err != nil {
		return nil, err
	}
	b.cli = c
	return b, nil
}

// vC08StartBed tries fresh addresses a few times; what it reports afterwards is a failure of the bed.
func vC08StartBed() (*vC08Bed, int, error) {
	var err error
	for try := 0; try < 5; try++ {
		var b *vC08Bed
		if b, err = vC08StartBedOnce(); err == nil {
			return b, try, nil
		}
		if !strings.Contains(err.Error(), "address already in use") {
			break
		}
	}
	return nil, 0, err
}

func vC08Accepts(sg *meta.ShardGroupInfo, ts time.Time) bool {
	if sg == nil || sg.Deleted() || !sg.Contains(ts) {
		return false
	}
	return !sg.Truncated() || ts.Before(sg.TruncatedAt)
}

func TestVerifC08ClientShardGroups(t *testing.T) {
	st := verifkit.For("C08", "TestVerifC08ClientShardGroups",
		"a real single-node meta service and meta.Client: histories of 4..14 steps out of CreateShardGroup(ts), truncate-shards(T), DeleteShardGroup, ALTER shard group duration (1h/6h/1d) and MapShards of a 1..8-point batch through coordinator.PointsWriter with the real client, with timestamps from a pool of half-hour marks over 36 hours plus every truncation time -1ns/0/+1ns. Oracle: the group the client hands out for ts is live, contains ts and is not truncated at or before ts; asking again gives the same group; every mapped point sits in a shard of such a group and none is dropped (infinite retention); live groups stay pairwise disjoint. non-trivial = a group was requested or a point mapped at or after a truncation time inside a truncated group's original range; distinct = action sequence")
	defer st.Flush()
	rapid.Check(t, func(rt *rapid.T) {
		bed, restarts, err := vC08StartBed()
		if err != nil {
			rt.Fatalf("VERIF-INCONCLUSIVE harness: the meta service and client of the bed did not start: %v", err)
		}
		defer bed.close()
		if restarts > 0 {
			st.Class("bed-start-repeated:address-in-use", int64(restarts))
		}
		c := bed.cli
		for i := 0; i < rapid.IntRange(1, 3).Draw(rt, "dataNodes"); i++ {
			if _, err := c.CreateDataNode(fmt.Sprintf("h%d:8086", i), fmt.Sprintf("h%d:8088", i)); err != nil {
				rt.Fatalf("VERIF-INCONCLUSIVE harness: CreateDataNode: %v", err)
			}
		}
		rf := 1
		sgd := rapid.SampledFrom([]time.Duration{time.Hour, 6 * time.Hour, 24 * time.Hour}).Draw(rt, "shardGroupDuration")
		if _, err := c.CreateDatabaseWithRetentionPolicy("db", &meta.RetentionPolicySpec{Name: "rp", ReplicaN: &rf, ShardGroupDuration: sgd}); err != nil {
			rt.Fatalf("VERIF-INCONCLUSIVE harness: create database: %v", err)
		}
		base := time.Date(2024, 1, 3, 12, 0, 0, 0, time.UTC)
		var truncs []time.Time
		drawTS := func(label string) time.Time {
			if len(truncs) > 0 && rapid.IntRange(0, 2).Draw(rt, label+"AtTrunc") == 0 {
				T := rapid.SampledFrom(truncs).Draw(rt, label+"Trunc")
				return T.Add(time.Duration(rapid.SampledFrom([]int{-1, 0, 1, int(time.Hour)}).Draw(rt, label+"Delta")))
			}
			return base.Add(time.Duration(rapid.IntRange(-6, 66).Draw(rt, label)) * 30 * time.Minute)
		}
		rp := func() *meta.RetentionPolicyInfo {
			r, err := c.RetentionPolicy("db", "rp")
			if err != nil || r == nil {
				rt.Fatalf("VERIF-INCONCLUSIVE harness: retention policy: %v", err)
			}
			return r
		}
		// was ts inside the original range of a group that is now truncated at or before ts?
		pastTruncation := func(ts time.Time) bool {
			for _, g := range rp().ShardGroups {
				if !g.Deleted() && g.Truncated() && g.Contains(ts) && !ts.Before(g.TruncatedAt) {
					return true
				}
			}
			return false
		}
		var canon []string
		nontrivial := false
		check := func(ts time.Time, where string) *meta.ShardGroupInfo {
			past := pastTruncation(ts)
			sg, err := c.CreateShardGroup("db", "rp", ts)
			if err != nil {
				rt.Fatalf("%s CreateShardGroup(%v) %s: %v", verifkit.Sig("client-create-shard-group-error"), ts, where, err)
			}
			if !vC08Accepts(sg, ts) {
				rt.Fatalf("%s %s: the client handed out group %+v for %v (history %v)", verifkit.Sig("client-hands-out-group-that-does-not-take-the-timestamp"), where, sg, ts, canon)
			}
			again, err := c.CreateShardGroup("db", "rp", ts)
			if err != nil || again == nil || again.ID != sg.ID {
				rt.Fatalf("%s %s: asking twice for %v gave group %d and then %+v (%v)", verifkit.Sig("client-group-for-timestamp-not-stable"), where, ts, sg.ID, again, err)
			}
			if past {
				nontrivial = true
			}
			return sg
		}
		steps := rapid.IntRange(4, 14).Draw(rt, "steps")
		for i := 0; i < steps; i++ {
			switch rapid.SampledFrom([]string{"create", "create", "truncate", "delete", "alter", "map", "map"}).Draw(rt, "action") {
			case "create":
				ts := drawTS("ts")
				check(ts, "create")
				canon = append(canon, "create@"+ts.Sub(base).String())
			case "truncate":
				T := base.Add(time.Duration(rapid.IntRange(-4, 60).Draw(rt, "truncAt")) * 30 * time.Minute).Add(time.Duration(rapid.SampledFrom([]int{0, 0, 1, 17 * int(time.Minute)}).Draw(rt, "truncOdd")))
				if err := c.TruncateShardGroups(T); err != nil {
					rt.Fatalf("%s TruncateShardGroups: %v", verifkit.Sig("client-truncate-error"), err)
				}
				truncs = append(truncs, T)
				canon = append(canon, "truncate@"+T.Sub(base).String())
			case "delete":
				var live []uint64
				for _, g := range rp().ShardGroups {
					if !g.Deleted() {
						live = append(live, g.ID)
					}
				}
				if len(live) == 0 {
					continue
				}
				id := rapid.SampledFrom(live).Draw(rt, "deleteGroup")
				if err := c.DeleteShardGroup("db", "rp", id); err != nil {
					rt.Fatalf("%s DeleteShardGroup: %v", verifkit.Sig("client-delete-group-error"), err)
				}
				canon = append(canon, fmt.Sprintf("delete#%d", id))
			case "alter":
				nd := rapid.SampledFrom([]time.Duration{time.Hour, 6 * time.Hour, 24 * time.Hour}).Draw(rt, "newDuration")
				if err := c.UpdateRetentionPolicy("db", "rp", &meta.RetentionPolicyUpdate{ShardGroupDuration: &nd}, false); err != nil {
					rt.Fatalf("%s UpdateRetentionPolicy: %v", verifkit.Sig("client-alter-error"), err)
				}
				canon = append(canon, "alter:"+nd.String())
			case "map":
				n := rapid.IntRange(1, 8).Draw(rt, "batch")
				var pts []models.Point
				for k := 0; k < n; k++ {
					ts := drawTS("pt")
					if pastTruncation(ts) {
						nontrivial = true
					}
					pts = append(pts, models.MustNewPoint("m", models.NewTags(map[string]string{"host": fmt.Sprintf("h%d", rapid.IntRange(0, 3).Draw(rt, "host"))}), models.Fields{"v": float64(k)}, ts))
				}
				w := coordinator.NewPointsWriter()
				w.MetaClient = c
				sm, err := w.MapShards(&coordinator.WritePointsRequest{Database: "db", RetentionPolicy: "rp", Points: pts})
				if err != nil {
					rt.Fatalf("%s MapShards: %v", verifkit.Sig("mapshards-error"), err)
				}
				if len(sm.Dropped) > 0 {
					rt.Fatalf("%s %d of %d points reported as dropped under an infinite retention policy, e.g. %v (history %v)", verifkit.Sig("live-point-dropped"), len(sm.Dropped), len(pts), sm.Dropped[0], canon)
				}
				groupOf := map[uint64]*meta.ShardGroupInfo{}
				r := rp()
				for gi := range r.ShardGroups {
					for _, sh := range r.ShardGroups[gi].Shards {
						groupOf[sh.ID] = &r.ShardGroups[gi]
					}
				}
				mapped := 0
				for shardID, ps := range sm.Points {
					for _, p := range ps {
						mapped++
						if g := groupOf[shardID]; !vC08Accepts(g, p.Time()) {
							rt.Fatalf("%s point at %v mapped to shard %d of group %+v which does not take that timestamp (history %v)", verifkit.Sig("mapped-outside-designated-group"), p.Time(), shardID, g, canon)
						}
					}
				}
				if mapped != len(pts) {
					rt.Fatalf("%s %d points in, %d mapped", verifkit.Sig("batch-not-preserved"), len(pts), mapped)
				}
				canon = append(canon, fmt.Sprintf("map(%d)", n))
			}
			// live groups pairwise disjoint (effective ranges)
			var live []meta.ShardGroupInfo
			for _, g := range rp().ShardGroups {
				if !g.Deleted() {
					live = append(live, g)
				}
			}
			end := func(g meta.ShardGroupInfo) time.Time {
				if g.Truncated() && g.TruncatedAt.Before(g.EndTime) {
					return g.TruncatedAt
				}
				return g.EndTime
			}
			sort.Slice(live, func(a, b int) bool { return live[a].StartTime.Before(live[b].StartTime) })
			for k := 1; k < len(live); k++ {
				if live[k].StartTime.Before(end(live[k-1])) && end(live[k]).After(live[k].StartTime) && end(live[k-1]).After(live[k-1].StartTime) {
					rt.Fatalf("%s live groups %d [%v,%v) and %d [%v,%v) overlap (history %v)", verifkit.Sig("I1-live-groups-overlap"), live[k-1].ID, live[k-1].StartTime, end(live[k-1]), live[k].ID, live[k].StartTime, end(live[k]), canon)
				}
			}
		}
		st.Case(nontrivial, fmt.Sprint(sgd, canon), fmt.Sprintf("truncations:%d", len(truncs)), fmt.Sprintf("pastTruncation:%v", nontrivial))
		if st.WantSample() {
			st.Sample(map[string]interface{}{"shard_group_duration": sgd.String(), "history": canon})
		} else {
			st.Sample(nil)
		}
	})
}
