//go:build verif

package models

// C12 - line protocol and binary point encoding are faithful. DESIGN.md section 4, C12.
//
// This file holds the harness's own model of a point, its own line-protocol writer (documented
// escaping rules only), the known-finding class detectors and the oracle that every *accepted*
// point has to pass (O3, O4, O5, O6). It shares no code with models/points.go.

import (
	"bytes"
	"fmt"
	"hash/fnv"
	"math"
	"math/big"
	"regexp"
	"sort"
	"strconv"
	"strings"
	"time"

	"pgregory.net/rapid"
)

func init() {
	// unsigned fields are part of the property ("all numeric forms"); the parser only accepts
	// them when the switch that the build tags uint/uint64 set is on.
	EnableUintSupport()
}

var vC12Precisions = []string{"n", "u", "ms", "s", "m", "h"}

func vC12Mult(prec string) int64 {
	switch prec {
	case "u":
		return 1000
	case "ms":
		return 1000 * 1000
	case "s":
		return 1000 * 1000 * 1000
	case "m":
		return 60 * 1000 * 1000 * 1000
	case "h":
		return 3600 * 1000 * 1000 * 1000
	}
	return 1
}

// ---------------------------------------------------------------- model

type vC12Field struct {
	key string
	typ byte // 'f' 'i' 'u' 'b' 's'
	f   float64
	i   int64
	u   uint64
	b   bool
	s   string
}

func (f vC12Field) goValue() interface{} {
	switch f.typ {
	case 'f':
		return f.f
	case 'i':
		return f.i
	case 'u':
		return f.u
	case 'b':
		return f.b
	}
	return f.s
}

type vC12Point struct {
	name   string
	tags   [][2]string // unique keys, in the order they are written
	fields []vC12Field // unique keys
	hasTS  bool
	// tsValid: ts*multiplier lies inside [MinNanoTime, MaxNanoTime] (computed with big integers);
	// only the time-boundary draws of the model-first generator can make it false
	tsValid bool
	ts     int64 // in units of prec
	prec   string
}

// ---------------------------------------------------------------- generators for the model

// name pieces: ordinary bytes (including multi-byte runes and bytes that are not UTF-8), the
// characters that need escaping, a double quote, and a backslash that is followed by an
// ordinary character (the documented "literal backslash"). A backslash in front of a special
// character or at the end of a name has no documented spelling and is left to the text-first
// generators.
var vC12Ordinary = []string{"a", "b", "c", "z", "A", "0", "7", "_", "-", ".", "/", ":", "é", "日", "\xff", "\x80", "#", "!", "~", "i", "u", "t", "e", "n"}
var vC12Special = []string{",", " ", "=", `"`}
var vC12BackslashOrd = []string{`\a`, `\z`, `\0`, `\n`, `\é`}

func vC12DrawName(rt *rapid.T, label string, classes map[string]bool) string {
	n := rapid.IntRange(1, 6).Draw(rt, label+"N")
	var b strings.Builder
	for i := 0; i < n; i++ {
		k := rapid.IntRange(0, 9).Draw(rt, label+"K")
		switch {
		case k <= 5:
			b.WriteString(rapid.SampledFrom(vC12Ordinary).Draw(rt, label+"O"))
		case k <= 8:
			s := rapid.SampledFrom(vC12Special).Draw(rt, label+"S")
			classes["name-has:"+map[string]string{",": "comma", " ": "space", "=": "equals", `"`: "quote"}[s]] = true
			b.WriteString(s)
		default:
			classes["name-has:backslash-literal"] = true
			b.WriteString(rapid.SampledFrom(vC12BackslashOrd).Draw(rt, label+"B"))
		}
	}
	return b.String()
}

var vC12FloatSpecials = []uint64{
	0, 1 << 63, // +0 -0
	math.Float64bits(1), math.Float64bits(-1), math.Float64bits(0.1), math.Float64bits(1.5),
	math.Float64bits(math.MaxFloat64), math.Float64bits(-math.MaxFloat64),
	math.Float64bits(math.SmallestNonzeroFloat64), math.Float64bits(-math.SmallestNonzeroFloat64),
	0x000FFFFFFFFFFFFF, 0x0010000000000000, // largest subnormal, smallest normal
	math.Float64bits(1e20), math.Float64bits(1e21), math.Float64bits(1e22), math.Float64bits(1e23),
	math.Float64bits(9007199254740993), math.Float64bits(1e-7), math.Float64bits(123456789.125),
	math.Float64bits(2.2250738585072011e-308), // the famous slow-path constant
}

func vC12DrawFloat(rt *rapid.T, classes map[string]bool) float64 {
	k := rapid.IntRange(0, 3).Draw(rt, "fk")
	var bits uint64
	switch k {
	case 0:
		bits = rapid.SampledFrom(vC12FloatSpecials).Draw(rt, "fspecial")
		classes["num:float-extreme"] = true
	case 1:
		bits = math.Float64bits(float64(rapid.Int64Range(-1000000, 1000000).Draw(rt, "fsmall")) / 1000)
	default:
		bits = rapid.Uint64().Draw(rt, "fbits")
		if bits&0x7FF0000000000000 == 0x7FF0000000000000 { // NaN / Inf are not line protocol
			bits &^= 0x0010000000000000
		}
	}
	f := math.Float64frombits(bits)
	if f == 0 && math.Signbit(f) {
		classes["num:float-negzero"] = true
	}
	if f != 0 && math.Abs(f) < 2.2250738585072014e-308 {
		classes["num:float-subnormal"] = true
	}
	return f
}

func vC12DrawInt(rt *rapid.T, classes map[string]bool) int64 {
	switch rapid.IntRange(0, 3).Draw(rt, "ik") {
	case 0:
		classes["num:int-extreme"] = true
		return rapid.SampledFrom([]int64{math.MinInt64, math.MaxInt64, math.MinInt64 + 1, math.MaxInt64 - 1, 0, -1, 1, 999999999999999999, 1000000000000000000, -999999999999999999, -1000000000000000000}).Draw(rt, "iext")
	case 1:
		return rapid.Int64Range(-1000, 1000).Draw(rt, "ismall")
	}
	return rapid.Int64().Draw(rt, "iany")
}

func vC12DrawUint(rt *rapid.T, classes map[string]bool) uint64 {
	switch rapid.IntRange(0, 3).Draw(rt, "uk") {
	case 0:
		classes["num:uint-extreme"] = true
		return rapid.SampledFrom([]uint64{math.MaxUint64, math.MaxUint64 - 1, 1 << 63, 1<<63 - 1, 1<<63 + 1, 0, 1, 9999999999999999999, 10000000000000000000}).Draw(rt, "uext")
	case 1:
		return rapid.Uint64Range(0, 1000).Draw(rt, "usmall")
	}
	return rapid.Uint64().Draw(rt, "uany")
}

var vC12StrPieces = []string{"a", "b", " ", ",", "=", `"`, `\`, "\n", "é", "\xff", "x", "0", "i", "#", "\t", `'`}

func vC12DrawString(rt *rapid.T, classes map[string]bool) string {
	n := rapid.IntRange(0, 8).Draw(rt, "sN")
	var b strings.Builder
	for i := 0; i < n; i++ {
		p := rapid.SampledFrom(vC12StrPieces).Draw(rt, "sP")
		switch p {
		case `"`:
			classes["str-has:quote"] = true
		case `\`:
			classes["str-has:backslash"] = true
		case "\n":
			classes["str-has:newline"] = true
		case ",", "=", " ":
			classes["str-has:separator"] = true
		}
		b.WriteString(p)
	}
	if n == 0 {
		classes["str-has:empty"] = true
	}
	return b.String()
}

func vC12DrawPoint(rt *rapid.T, classes map[string]bool, prec string) vC12Point {
	var p vC12Point
	for {
		p.name = vC12DrawName(rt, "m", classes)
		if p.name[0] != '#' { // a line that starts with '#' is a comment by definition
			break
		}
	}
	nt := rapid.IntRange(0, 4).Draw(rt, "ntags")
	seen := map[string]bool{}
	for i := 0; i < nt; i++ {
		k := vC12DrawName(rt, "tk", classes)
		if seen[k] {
			continue
		}
		seen[k] = true
		p.tags = append(p.tags, [2]string{k, vC12DrawName(rt, "tv", classes)})
	}
	nf := rapid.IntRange(1, 4).Draw(rt, "nfields")
	seen = map[string]bool{}
	for i := 0; i < nf; i++ {
		f := vC12Field{key: vC12DrawName(rt, "fk", classes)}
		if seen[f.key] {
			continue
		}
		seen[f.key] = true
		f.typ = rapid.SampledFrom([]byte{'f', 'i', 'u', 'b', 's'}).Draw(rt, "ftype")
		switch f.typ {
		case 'f':
			f.f = vC12DrawFloat(rt, classes)
		case 'i':
			f.i = vC12DrawInt(rt, classes)
		case 'u':
			f.u = vC12DrawUint(rt, classes)
		case 'b':
			f.b = rapid.Bool().Draw(rt, "bval")
		case 's':
			f.s = vC12DrawString(rt, classes)
		}
		p.fields = append(p.fields, f)
	}
	p.prec = prec
	if prec == "" {
		p.prec = rapid.SampledFrom(vC12Precisions).Draw(rt, "prec")
	}
	p.hasTS = rapid.IntRange(0, 4).Draw(rt, "hasTS") > 0
	if p.hasTS {
		m := vC12Mult(p.prec)
		lo, hi := MinNanoTime/m, MaxNanoTime/m // both truncate toward zero: inside the range
		p.tsValid = true
		switch rapid.IntRange(0, 4).Draw(rt, "tsk") {
		case 0:
			p.ts = rapid.SampledFrom([]int64{lo, hi, lo + 1, hi - 1, 0, -1, 1}).Draw(rt, "tsext")
			classes["time:extreme"] = true
		case 1, 2:
			// at and around the points where ts*multiplier leaves the valid range or wraps int64
			p.ts = rapid.SampledFrom(vC12BoundaryTimes(p.prec)).Draw(rt, "tsboundary")
			_, p.tsValid = vC12TimeProduct(p.ts, p.prec)
			classes["time:range-boundary"] = true
			if !p.tsValid {
				classes["time:out-of-range"] = true
			}
		case 3:
			p.ts = rapid.Int64Range(-100000, 100000).Draw(rt, "tssmall")
		default:
			p.ts = rapid.Int64Range(lo, hi).Draw(rt, "tsany")
		}
		if p.ts < 0 {
			classes["time:negative"] = true
		}
	} else {
		classes["time:default"] = true
	}
	return p
}

// vC12TimeProduct computes ts*multiplier(prec) with big integers and says whether it lies in the
// range the parser documents as valid: [MinNanoTime, MaxNanoTime], both ends included
// (models/time.go: CheckTime rejects t.Before(min) and t.After(max)).
func vC12TimeProduct(ts int64, prec string) (*big.Int, bool) {
	v := new(big.Int).Mul(big.NewInt(ts), big.NewInt(vC12Mult(prec)))
	return v, v.Cmp(big.NewInt(MinNanoTime)) >= 0 && v.Cmp(big.NewInt(MaxNanoTime)) <= 0
}

var vC12BoundaryCache = map[string][]int64{}

// vC12BoundaryTimes lists, for one precision, the timestamps at and around the places where
// ts*multiplier crosses MinInt64/MaxInt64 (+-0,1,2) and where it wraps a whole number of times
// around 2^64 (k*2^64/multiplier for k = +-1, +-2, offsets -1..2), as far as they fit an int64.
func vC12BoundaryTimes(prec string) []int64 {
	if l, ok := vC12BoundaryCache[prec]; ok {
		return l
	}
	m := big.NewInt(vC12Mult(prec))
	set := map[int64]bool{}
	add := func(v *big.Int) {
		if v.IsInt64() {
			set[v.Int64()] = true
		}
	}
	for _, base := range []*big.Int{big.NewInt(math.MaxInt64), big.NewInt(math.MinInt64), big.NewInt(MaxNanoTime), big.NewInt(MinNanoTime)} {
		q := new(big.Int).Quo(base, m) // truncated
		for d := int64(-2); d <= 2; d++ {
			add(new(big.Int).Add(q, big.NewInt(d)))
		}
	}
	two64 := new(big.Int).Lsh(big.NewInt(1), 64)
	for _, k := range []int64{-2, -1, 1, 2} {
		q := new(big.Int).Mul(two64, big.NewInt(k))
		q.Div(q, m) // floor
		for d := int64(-1); d <= 2; d++ {
			add(new(big.Int).Add(q, big.NewInt(d)))
		}
	}
	var l []int64
	for v := range set {
		l = append(l, v)
	}
	sort.Slice(l, func(i, j int) bool { return l[i] < l[j] })
	vC12BoundaryCache[prec] = l
	return l
}

// vC12ForceValidTime is used by the generators that need valid lines only: an out-of-range
// boundary timestamp is replaced by the nearest valid one.
func vC12ForceValidTime(m *vC12Point) {
	if m.hasTS && !m.tsValid {
		mult := vC12Mult(m.prec)
		if m.ts < 0 {
			m.ts = MinNanoTime / mult
		} else {
			m.ts = MaxNanoTime / mult
		}
		m.tsValid = true
	}
}

// ---------------------------------------------------------------- writer (documented escaping only)

func vC12EscMeasurement(s string) string {
	var b strings.Builder
	for i := 0; i < len(s); i++ {
		if s[i] == ',' || s[i] == ' ' {
			b.WriteByte('\\')
		}
		b.WriteByte(s[i])
	}
	return b.String()
}

func vC12EscKey(s string) string {
	var b strings.Builder
	for i := 0; i < len(s); i++ {
		if s[i] == ',' || s[i] == ' ' || s[i] == '=' {
			b.WriteByte('\\')
		}
		b.WriteByte(s[i])
	}
	return b.String()
}

// vC12EscString writes a string field value. A double quote is always escaped; a backslash
// must be doubled in front of a quote, a backslash or the end of the string and may be
// written either way elsewhere (choice drawn when rt != nil).
func vC12EscString(rt *rapid.T, s string) string {
	var b strings.Builder
	for i := 0; i < len(s); i++ {
		switch s[i] {
		case '"':
			b.WriteString(`\"`)
		case '\\':
			must := i+1 >= len(s) || s[i+1] == '"' || s[i+1] == '\\'
			if must || rt == nil || rapid.Bool().Draw(rt, "doubleBackslash") {
				b.WriteString(`\\`)
			} else {
				b.WriteByte('\\')
			}
		default:
			b.WriteByte(s[i])
		}
	}
	return b.String()
}

var vC12True = []string{"t", "T", "true", "True", "TRUE"}
var vC12False = []string{"f", "F", "false", "False", "FALSE"}

func vC12FloatText(rt *rapid.T, f float64, classes map[string]bool) string {
	k := 0
	if rt != nil {
		k = rapid.IntRange(0, 5).Draw(rt, "ffmt")
	}
	var s string
	switch k {
	case 0:
		s = strconv.FormatFloat(f, 'g', -1, 64)
	case 1:
		s = strconv.FormatFloat(f, 'e', -1, 64)
	case 2:
		s = strconv.FormatFloat(f, 'E', -1, 64)
	case 3:
		s = strconv.FormatFloat(f, 'f', -1, 64)
		classes["num:float-plain-digits"] = true
	case 4:
		s = strconv.FormatFloat(f, 'e', 17, 64) // more digits than needed, still exact
	default:
		// integral mantissa with a bare trailing dot in front of the exponent: "1.e+78"
		s = strconv.FormatFloat(f, 'e', -1, 64)
		if !strings.Contains(s, ".") {
			s = strings.Replace(s, "e", ".e", 1)
			classes["num:float-dot-exponent"] = true
		}
	}
	if strings.ContainsAny(s, "eE") {
		classes["num:float-exponent"] = true
	}
	if len(s) >= 25 {
		classes["num:float-long-text"] = true
	}
	return s
}

// vC12Render writes the model as one line. order is the permutation of the tags.
func vC12Render(rt *rapid.T, p vC12Point, order []int, classes map[string]bool) string {
	var b strings.Builder
	b.WriteString(vC12EscMeasurement(p.name))
	for _, i := range order {
		b.WriteByte(',')
		b.WriteString(vC12EscKey(p.tags[i][0]))
		b.WriteByte('=')
		b.WriteString(vC12EscKey(p.tags[i][1]))
	}
	b.WriteByte(' ')
	for i, f := range p.fields {
		if i > 0 {
			b.WriteByte(',')
		}
		b.WriteString(vC12EscKey(f.key))
		b.WriteByte('=')
		switch f.typ {
		case 'f':
			b.WriteString(vC12FloatText(rt, f.f, classes))
		case 'i':
			b.WriteString(strconv.FormatInt(f.i, 10))
			b.WriteByte('i')
		case 'u':
			b.WriteString(strconv.FormatUint(f.u, 10))
			b.WriteByte('u')
		case 'b':
			l := vC12False
			if f.b {
				l = vC12True
			}
			if rt != nil {
				b.WriteString(rapid.SampledFrom(l).Draw(rt, "bspell"))
			} else {
				b.WriteString(l[2])
			}
		case 's':
			b.WriteByte('"')
			b.WriteString(vC12EscString(rt, f.s))
			b.WriteByte('"')
		}
	}
	if p.hasTS {
		b.WriteByte(' ')
		b.WriteString(strconv.FormatInt(p.ts, 10))
	}
	return b.String()
}

func vC12Perm(rt *rapid.T, n int) []int {
	o := make([]int, n)
	for i := range o {
		o[i] = i
	}
	if n > 1 {
		for i := n - 1; i > 0; i-- {
			j := rapid.IntRange(0, i).Draw(rt, "perm")
			o[i], o[j] = o[j], o[i]
		}
	}
	return o
}

// ---------------------------------------------------------------- comparison helpers

func vC12ValEq(a, b interface{}) bool {
	switch x := a.(type) {
	case float64:
		y, ok := b.(float64)
		return ok && math.Float64bits(x) == math.Float64bits(y)
	case int64:
		y, ok := b.(int64)
		return ok && x == y
	case uint64:
		y, ok := b.(uint64)
		return ok && x == y
	case bool:
		y, ok := b.(bool)
		return ok && x == y
	case string:
		y, ok := b.(string)
		return ok && x == y
	}
	return false
}

func vC12ValStr(v interface{}) string {
	switch x := v.(type) {
	case float64:
		return fmt.Sprintf("float64(bits %016x = %v)", math.Float64bits(x), x)
	case string:
		return fmt.Sprintf("string(%q)", x)
	}
	return fmt.Sprintf("%T(%v)", v, v)
}

func vC12FieldsEq(a, b Fields) string {
	if len(a) != len(b) {
		return fmt.Sprintf("field count %d vs %d", len(a), len(b))
	}
	for k, v := range a {
		w, ok := b[k]
		if !ok {
			return fmt.Sprintf("field %q missing", k)
		}
		if !vC12ValEq(v, w) {
			return fmt.Sprintf("field %q: %s vs %s", k, vC12ValStr(v), vC12ValStr(w))
		}
	}
	return ""
}

func vC12TagsEq(a, b Tags) bool {
	if len(a) != len(b) {
		return false
	}
	for i := range a {
		if !bytes.Equal(a[i].Key, b[i].Key) || !bytes.Equal(a[i].Value, b[i].Value) {
			return false
		}
	}
	return true
}

func vC12FNV(b []byte) uint64 {
	h := fnv.New64a()
	h.Write(b)
	return h.Sum64()
}

// ---------------------------------------------------------------- known-finding classes

const (
	vC12SigFieldKeyBackslash = "fieldkey-backslash-before-equals"
	vC12SigBytesAfterQuote   = "string-field-bytes-after-closing-quote"
	vC12SigBinaryLoneQuote   = "binary-point-lone-quote-panics-stringvalue"
	vC12SigEmptyFieldKey     = "empty-field-key-after-tab-or-nul"
	vC12SigBinaryEmptyKeyLQ  = "binary-point-empty-key-lone-quote-panics"
	vC12SigKeyBackslashSpace = "key-double-backslash-before-space"
	vC12SigNewlineInKey      = "newline-in-key-after-leading-space"
	vC12SigMalformedFields   = "malformed-field-section-accepted"
	vC12SigBackslashJoins    = "trailing-backslash-joins-next-line"
	vC12SigCommentSwallows   = "comment-with-quote-swallows-following-lines"
)

// vC12HasEvenBackslashEquals reports the text shape behind the first known finding: an even,
// non-zero run of backslashes directly in front of '='. The field scanner reads the run as
// escaped backslashes (so '=' separates), the field iterator reads "\=" as an escaped equals
// sign. The detector works on the raw text and therefore also skips harmless occurrences
// inside string values; that only makes the campaign smaller.
func vC12HasEvenBackslashEquals(line []byte) bool {
	for i := 0; i < len(line); i++ {
		if line[i] != '=' {
			continue
		}
		n := 0
		for j := i - 1; j >= 0 && line[j] == '\\'; j-- {
			n++
		}
		if n >= 2 && n%2 == 0 {
			return true
		}
	}
	return false
}

// vC12BytesAfterQuote reports the second known finding on an accepted point: a raw field
// value that starts with a double quote and has an unescaped double quote before its last
// byte (the value was closed early and the rest of the token swallowed).
func vC12BytesAfterQuote(p Point) bool {
	bad := false
	p.ForEachField(func(k, v []byte) bool {
		if len(v) == 0 || v[0] != '"' {
			return true
		}
		i := 1
		for i < len(v) {
			if v[i] == '\\' && i+1 < len(v) && (v[i+1] == '"' || v[i+1] == '\\') {
				i += 2
				continue
			}
			if v[i] == '"' {
				break
			}
			i++
		}
		if i != len(v)-1 {
			bad = true
			return false
		}
		return true
	})
	return bad
}

// vC12EmptyFieldKey reports the third text-side known finding on an accepted point: a field
// whose key is empty ("m \t=1": the missing-field-key check only looks for ' ' and ',' in
// front of '=', while the whitespace skipped in front of the field section also includes
// tab and NUL).
func vC12EmptyFieldKey(p Point) bool {
	bad := false
	p.ForEachField(func(k, v []byte) bool {
		if len(k) == 0 {
			bad = true
			return false
		}
		return true
	})
	return bad
}

// vC12KeyBackslashSpace: the series key holds an even, non-zero run of backslashes directly in
// front of a space. The key scanners treat that space as escaped (previous byte is a
// backslash), the line splitter pairs the backslashes up and treats it as the separator in
// front of the fields, so it starts interpreting '=' ',' '"' too early; where a line ends then
// depends on the order of the tags, and String() of the accepted point can split differently.
func vC12KeyBackslashSpace(key []byte) bool {
	for i := 0; i < len(key); i++ {
		if key[i] != ' ' {
			continue
		}
		n := 0
		for j := i - 1; j >= 0 && key[j] == '\\'; j-- {
			n++
		}
		if n >= 2 && n%2 == 0 {
			return true
		}
	}
	return false
}

// vC12NewlineInKey: the series key holds a newline that is not preceded by a backslash. That
// can only happen when the line splitter was in "inside a string value" state while still in
// the key, which it enters when the line starts with a space (the leading space is taken for
// the separator in front of the fields). String() of such a point has no leading space and
// is split at the newline.
func vC12NewlineInKey(key []byte) bool {
	for i := 0; i < len(key); i++ {
		if key[i] == '\n' && (i == 0 || key[i-1] != '\\') {
			return true
		}
	}
	return false
}

// vC12StrictFields reads a raw field section with the strict grammar
//   fields = field *("," field) ; field = key "=" value ; value = string / number / boolean
// and returns "" when it matches, else the reason it does not. A backslash in a key always
// takes the next byte with it; a doubled backslash directly in front of a separator is
// reported, because the scanners of the code under test disagree on what it means.
func vC12StrictFields(f []byte) string {
	i := 0
	for {
		ks := i
		for i < len(f) {
			c := f[i]
			if c == '\\' {
				if i+1 >= len(f) {
					return "backslash-at-end"
				}
				if f[i+1] == '\\' && i+2 < len(f) && (f[i+2] == '=' || f[i+2] == ',' || f[i+2] == ' ') {
					return "double-backslash-before-separator"
				}
				i += 2
				continue
			}
			if c == '=' || c == ',' || c == ' ' {
				break
			}
			if c == '\n' {
				return "newline-in-field-key"
			}
			i++
		}
		if i == ks {
			if i < len(f) && f[i] == '=' {
				return "empty-key" // "=value" with nothing in front: the repaired shape, not tolerated
			}
			return "key-without-equals" // leading or doubled comma: the counting-heuristic family
		}
		if i >= len(f) || f[i] != '=' {
			return "key-without-equals"
		}
		i++
		if i >= len(f) {
			return "no-value"
		}
		if f[i] == '"' {
			i++
			closed := false
			for i < len(f) {
				if f[i] == '\\' && i+1 < len(f) {
					i += 2
					continue
				}
				if f[i] == '"' {
					closed = true
					i++
					break
				}
				i++
			}
			if !closed {
				return "unterminated-string"
			}
			if i < len(f) && f[i] != ',' {
				return "bytes-after-quote"
			}
		} else {
			vs := i
			for i < len(f) && f[i] != ',' {
				i++
			}
			if _, ok := vC12RefValue(string(f[vs:i])); !ok {
				return "bad-value-token"
			}
		}
		if i >= len(f) {
			return ""
		}
		i++
		if i >= len(f) {
			return "trailing-comma"
		}
	}
}

// vC12KnownShape returns the signature of the known finding an accepted point falls under, or "".
func vC12KnownShape(p Point) string {
	if vC12KeyBackslashSpace(p.Key()) {
		return vC12SigKeyBackslashSpace
	}
	if vC12NewlineInKey(p.Key()) {
		return vC12SigNewlineInKey
	}
	pp, ok := p.(*point)
	if !ok {
		return ""
	}
	switch vC12StrictFields(pp.fields) {
	case "", "bad-value-token", "empty-key":
		// a bad value token is left to the oracle: it must never be accepted. An empty field key
		// ("m \t=1") was a finding that is repaired (fix 476b3e4): it is not tolerated any more, the
		// oracle reports it (accepted-without-fields / field-key-lost).
		return ""
	case "newline-in-field-key":
		return vC12SigNewlineInKey
	case "bytes-after-quote":
		return vC12SigBytesAfterQuote
	}
	return vC12SigMalformedFields
}

// ---------------------------------------------------------------- strict reference for unquoted values

var (
	vC12ReTime  = regexp.MustCompile(`^-?[0-9]+$`)
	vC12ReInt   = regexp.MustCompile(`^-?[0-9]+i$`)
	vC12ReUint  = regexp.MustCompile(`^[0-9]+u$`)
	vC12ReFloat = regexp.MustCompile(`^-?([0-9]+\.?[0-9]*|\.[0-9]+)([eE][+-]?[0-9]+)?$`)
)

// vC12RefValue decides, independently of the parser, what an unquoted value token means.
// ok=false: the token is not a number or boolean of line protocol.
func vC12RefValue(tok string) (interface{}, bool) {
	switch tok {
	case "t", "T", "true", "True", "TRUE":
		return true, true
	case "f", "F", "false", "False", "FALSE":
		return false, true
	}
	switch {
	case vC12ReInt.MatchString(tok):
		v, err := strconv.ParseInt(tok[:len(tok)-1], 10, 64)
		return v, err == nil
	case vC12ReUint.MatchString(tok):
		v, err := strconv.ParseUint(tok[:len(tok)-1], 10, 64)
		return v, err == nil
	case vC12ReFloat.MatchString(tok):
		v, err := strconv.ParseFloat(tok, 64)
		if err != nil || math.IsInf(v, 0) || math.IsNaN(v) {
			return nil, false
		}
		return v, true
	}
	return nil, false
}

// ---------------------------------------------------------------- oracle for every accepted point

type vC12Err struct{ sig, msg string }

func vC12Fail(sig, f string, a ...interface{}) *vC12Err {
	return &vC12Err{sig, fmt.Sprintf(f, a...)}
}

// vC12Safely runs f and converts a panic of the code under test into a failure.
func vC12Safely(what string, f func() *vC12Err) (e *vC12Err) {
	defer func() {
		if r := recover(); r != nil {
			e = vC12Fail(what+"-panic", "%s panicked: %v", what, r)
		}
	}()
	return f()
}

var vC12RefTime = time.Unix(0, 1500000000123456789).UTC()

// vC12CheckAccepted is O3+O4+O5(hash)+O6 for a point the text parser returned. prec is the
// precision it was parsed with. It never uses NewPoint.
func vC12CheckAccepted(p Point, prec string, splitSize int) *vC12Err {
	return vC12Safely("accessor", func() *vC12Err {
		flds, err := p.Fields()
		if err != nil {
			return vC12Fail("accepted-fields-undecodable", "Fields() of an accepted point fails: %v", err)
		}
		if len(flds) == 0 {
			return vC12Fail("accepted-without-fields", "accepted point decodes to zero fields")
		}
		// raw value tokens are numbers / booleans of line protocol by an independent reading
		var tokErr *vC12Err
		nRaw := 0
		ferr := p.ForEachField(func(k, v []byte) bool {
			nRaw++
			if len(v) > 0 && v[0] == '"' {
				return true
			}
			if _, ok := vC12RefValue(string(v)); !ok {
				tokErr = vC12Fail("accepted-bad-value-token", "accepted value token %q is not a number or boolean of line protocol", v)
				return false
			}
			if _, present := flds[string(escapeUnescapeRef(k))]; !present {
				tokErr = vC12Fail("field-key-lost", "raw field key %q not present in Fields() %v", k, flds)
				return false
			}
			return true
		})
		if ferr != nil {
			return vC12Fail("accepted-fields-unwalkable", "ForEachField fails on an accepted point: %v", ferr)
		}
		if tokErr != nil {
			return tokErr
		}
		// iterator agrees with Fields()
		it := p.FieldIterator()
		n := 0
		seen := map[string]interface{}{}
		for it.Next() {
			n++
			if n > 100000 {
				return vC12Fail("iterator-does-not-terminate", "FieldIterator did not stop")
			}
			if len(it.FieldKey()) == 0 {
				continue
			}
			var v interface{}
			var e error
			switch it.Type() {
			case Float:
				v, e = it.FloatValue()
			case Integer:
				v, e = it.IntegerValue()
			case Unsigned:
				v, e = it.UnsignedValue()
			case Boolean:
				v, e = it.BooleanValue()
			case String:
				v = it.StringValue()
			default:
				return vC12Fail("iterator-empty-type", "field %q of an accepted point has type Empty", it.FieldKey())
			}
			if e != nil {
				return vC12Fail("iterator-value-error", "iterator value error: %v", e)
			}
			seen[string(it.FieldKey())] = v
		}
		if d := vC12FieldsEq(flds, Fields(seen)); d != "" {
			return vC12Fail("iterator-disagrees-with-fields", "FieldIterator vs Fields(): %s", d)
		}
		// unquoted tokens: value equals the independent reading (unique keys only)
		cnt := map[string]int{}
		p.ForEachField(func(k, v []byte) bool { cnt[string(escapeUnescapeRef(k))]++; return true })
		p.ForEachField(func(k, v []byte) bool {
			key := string(escapeUnescapeRef(k))
			if cnt[key] != 1 || (len(v) > 0 && v[0] == '"') {
				return true
			}
			want, _ := vC12RefValue(string(v))
			if !vC12ValEq(want, flds[key]) {
				tokErr = vC12Fail("value-differs-from-text", "token %q decodes to %s, an independent reading gives %s", v, vC12ValStr(flds[key]), vC12ValStr(want))
				return false
			}
			return true
		})
		if tokErr != nil {
			return tokErr
		}

		// the timestamp token the parser kept, multiplied by the precision with big integers, is
		// inside the documented range and is exactly the point's time
		if pp, ok := p.(*point); ok && len(pp.ts) > 0 {
			tok := string(pp.ts)
			if !vC12ReTime.MatchString(tok) {
				return vC12Fail("accepted-bad-timestamp-token", "accepted timestamp token %q is not an integer", tok)
			}
			tv, _ := new(big.Int).SetString(tok, 10)
			prod := new(big.Int).Mul(tv, big.NewInt(vC12Mult(prec)))
			if prod.Cmp(big.NewInt(MinNanoTime)) < 0 || prod.Cmp(big.NewInt(MaxNanoTime)) > 0 {
				return vC12Fail("out-of-range-time-accepted", "timestamp %s at precision %q is %s ns, outside [%d, %d], but the line was accepted with time %d", tok, prec, prod, MinNanoTime, MaxNanoTime, p.UnixNano())
			}
			if prod.Int64() != p.UnixNano() {
				return vC12Fail("time-differs-from-text", "timestamp %s at precision %q is %s ns, the point has %d", tok, prec, prod, p.UnixNano())
			}
		}
		key := append([]byte(nil), p.Key()...)
		// O5 (hash part): HashID is FNV-64a of the key, computed by the standard library here
		if p.HashID() != vC12FNV(key) {
			return vC12Fail("hashid-not-fnv64a-of-key", "HashID %x, FNV-64a of key %q is %x", p.HashID(), key, vC12FNV(key))
		}
		name := append([]byte(nil), p.Name()...)
		tags := p.Tags().Clone()
		if pn, pt := ParseKeyBytes(key); !vC12TagsEq(pt, tags) {
			return vC12Fail("tags-differ-from-parsekey", "Tags() %v, ParseKey(Key()) %q %v", tags, pn, pt)
		}

		// O3: String() parses back to the same point
		s := p.String()
		if as := string(p.AppendString(nil)); as != s {
			return vC12Fail("appendstring-differs", "AppendString %q String %q", as, s)
		}
		if p.StringSize() != len(s) {
			return vC12Fail("stringsize-differs", "StringSize %d len(String()) %d for %q", p.StringSize(), len(s), s)
		}
		check := func(what string, q Point) *vC12Err {
			if !bytes.Equal(q.Key(), key) {
				return vC12Fail(what+"-key", "key %q -> %q", key, q.Key())
			}
			if !bytes.Equal(q.Name(), name) {
				return vC12Fail(what+"-name", "name %q -> %q", name, q.Name())
			}
			if !vC12TagsEq(q.Tags(), tags) {
				return vC12Fail(what+"-tags", "tags %v -> %v", tags, q.Tags())
			}
			qf, err := q.Fields()
			if err != nil {
				return vC12Fail(what+"-fields-undecodable", "Fields(): %v", err)
			}
			if d := vC12FieldsEq(flds, qf); d != "" {
				return vC12Fail(what+"-fields", "%s", d)
			}
			if !q.Time().Equal(p.Time()) || q.UnixNano() != p.UnixNano() {
				return vC12Fail(what+"-time", "time %v -> %v", p.Time(), q.Time())
			}
			if q.HashID() != p.HashID() {
				return vC12Fail(what+"-hashid", "hash %x -> %x", p.HashID(), q.HashID())
			}
			return nil
		}
		back, err := ParsePointsWithPrecision([]byte(s), vC12RefTime, "n")
		if err != nil || len(back) != 1 {
			return vC12Fail("string-not-reparsable", "String() %q of an accepted point parses to %d points, err %v", s, len(back), err)
		}
		if e := check("string-roundtrip", back[0]); e != nil {
			e.msg = fmt.Sprintf("String() %q: %s", s, e.msg)
			return e
		}
		m := vC12Mult(prec)
		if p.UnixNano()%m == 0 {
			ps := p.PrecisionString(prec)
			back, err = ParsePointsWithPrecision([]byte(ps), vC12RefTime, prec)
			if err != nil || len(back) != 1 {
				return vC12Fail("precisionstring-not-reparsable", "PrecisionString(%s) %q parses to %d points, err %v", prec, ps, len(back), err)
			}
			if e := check("precisionstring-roundtrip", back[0]); e != nil {
				e.msg = fmt.Sprintf("PrecisionString(%s) %q: %s", prec, ps, e.msg)
				return e
			}
		}

		// O4: binary form
		bin, err := p.MarshalBinary()
		if err != nil {
			return vC12Fail("marshalbinary-error", "MarshalBinary: %v", err)
		}
		q, err := NewPointFromBytes(bin)
		if err != nil {
			return vC12Fail("binary-not-decodable", "NewPointFromBytes(MarshalBinary(p)): %v", err)
		}
		if e := check("binary-roundtrip", q); e != nil {
			return e
		}
		if q.String() != s {
			return vC12Fail("binary-roundtrip-string", "String %q -> %q", s, q.String())
		}

		// Split keeps every field and the key/time
		if splitSize > 0 {
			parts := p.Split(splitSize)
			total := 0
			merged := Fields{}
			for _, sp := range parts {
				if !bytes.Equal(sp.Key(), key) || !sp.Time().Equal(p.Time()) {
					return vC12Fail("split-changes-key-or-time", "split part %q", sp.String())
				}
				sf, err := sp.Fields()
				if err != nil {
					return vC12Fail("split-part-undecodable", "Split(%d) part %q: %v", splitSize, sp.String(), err)
				}
				total += len(sf)
				for k, v := range sf {
					merged[k] = v
				}
			}
			if d := vC12FieldsEq(flds, merged); d != "" && nRaw == len(flds) {
				return vC12Fail("split-loses-fields", "Split(%d): %s", splitSize, d)
			}
		}
		// Round only has to not panic and to keep the key
		back[0].Round(time.Duration(m))
		_ = back[0].RoundedString(time.Duration(m))
		_ = p.HasTag([]byte("a"))
		p.ForEachTag(func(k, v []byte) bool { return true })
		return nil
	})
}

// escapeUnescapeRef is the harness's own reading of a raw field key: the four documented
// escape pairs of the field iterator are removed.
func escapeUnescapeRef(k []byte) []byte {
	if bytes.IndexByte(k, '\\') < 0 {
		return k
	}
	out := make([]byte, 0, len(k))
	for i := 0; i < len(k); i++ {
		if k[i] == '\\' && i+1 < len(k) && (k[i+1] == ',' || k[i+1] == '"' || k[i+1] == ' ' || k[i+1] == '=') {
			out = append(out, k[i+1])
			i++
			continue
		}
		out = append(out, k[i])
	}
	return out
}

func vC12SortedClasses(m map[string]bool) []string {
	l := make([]string, 0, len(m))
	for k := range m {
		l = append(l, k)
	}
	sort.Strings(l)
	return l
}
