//go:build verif

package models

// C12 campaigns: G1 model-first, G2 token soup, G3 multi-line requests, G4 byte mutations,
// and the binary decoder on hostile bytes. See verif_c12_lib_test.go for the model and oracles.

import (
	"bytes"
	"encoding/binary"
	"fmt"
	"sort"
	"strings"
	"testing"
	"time"

	"pgregory.net/rapid"
	"verifkit"
)

// vC12Parse calls the parser under recover.
func vC12Parse(buf []byte, def time.Time, prec string) (pts []Point, err error, panicked interface{}) {
	defer func() {
		if r := recover(); r != nil {
			panicked = r
		}
	}()
	pts, err = ParsePointsWithPrecision(buf, def, prec)
	return
}

func vC12FloorTo(ns, m int64) int64 {
	q := ns / m
	if ns%m < 0 {
		q--
	}
	return q * m
}

// vC12CompareModel is O1: the parsed point is the model point.
func vC12CompareModel(p Point, m vC12Point, def time.Time) *vC12Err {
	return vC12Safely("accessor", func() *vC12Err {
		if string(p.Name()) != m.name {
			return vC12Fail("name-differs-from-model", "measurement %q parsed as %q", m.name, p.Name())
		}
		tags := p.Tags()
		if len(tags) != len(m.tags) {
			return vC12Fail("tags-differ-from-model", "%d tags written, %d parsed: %v", len(m.tags), len(tags), tags)
		}
		want := map[string]string{}
		for _, t := range m.tags {
			want[t[0]] = t[1]
		}
		for _, t := range tags {
			v, ok := want[string(t.Key)]
			if !ok || v != string(t.Value) {
				return vC12Fail("tags-differ-from-model", "tag %q=%q parsed, model has %q (present %v)", t.Key, t.Value, v, ok)
			}
			delete(want, string(t.Key))
		}
		flds, err := p.Fields()
		if err != nil {
			return vC12Fail("accepted-fields-undecodable", "Fields(): %v", err)
		}
		wf := Fields{}
		for _, f := range m.fields {
			wf[f.key] = f.goValue()
		}
		if d := vC12FieldsEq(wf, flds); d != "" {
			return vC12Fail("fields-differ-from-model", "model vs parsed: %s", d)
		}
		var wt int64
		if m.hasTS {
			prod, ok := vC12TimeProduct(m.ts, m.prec)
			if !ok {
				return vC12Fail("out-of-range-time-accepted", "timestamp %d at precision %q is %s ns, outside the valid range, but the line was accepted", m.ts, m.prec, prod)
			}
			wt = prod.Int64()
		} else {
			wt = vC12FloorTo(def.UnixNano(), vC12Mult(m.prec))
		}
		if p.UnixNano() != wt || !p.Time().Equal(time.Unix(0, wt)) {
			return vC12Fail("time-differs-from-model", "time %d parsed, want %d (ts=%d hasTS=%v prec=%s)", p.UnixNano(), wt, m.ts, m.hasTS, m.prec)
		}
		return nil
	})
}

// vC12ModelKey is the harness's own canonical series key: escaped measurement followed by the
// escaped tags ordered by their (wire-form) key bytes.
func vC12ModelKey(m vC12Point) []byte {
	type kv struct{ k, v string }
	var l []kv
	for _, t := range m.tags {
		l = append(l, kv{vC12EscKey(t[0]), vC12EscKey(t[1])})
	}
	sort.Slice(l, func(i, j int) bool { return l[i].k < l[j].k })
	var b bytes.Buffer
	b.WriteString(vC12EscMeasurement(m.name))
	for _, t := range l {
		b.WriteString("," + t.k + "=" + t.v)
	}
	return b.Bytes()
}

func vC12DrawDefTime(rt *rapid.T) time.Time {
	return time.Unix(0, rapid.Int64Range(-(1<<61), 1<<61).Draw(rt, "defaultTime")).UTC()
}

func vC12Describe(line string, extra map[string]interface{}) map[string]interface{} {
	m := map[string]interface{}{"input": fmt.Sprintf("%q", line)}
	for k, v := range extra {
		m[k] = v
	}
	return m
}

// ------------------------------------------------------------------------------------------- G1

func TestVerifC12ModelFirst(t *testing.T) {
	st := verifkit.For("C12", "TestVerifC12ModelFirst",
		"G1: a model point (measurement, <=4 tags, <=4 typed fields, optional timestamp, precision) is written by the harness's own writer with the documented escaping rules and a drawn spelling (tag order, boolean spelling, float format, optional backslash doubling); the parser must accept it and return exactly the model (O1), the same key/hash for a second tag order (O5), and the accepted point must pass the round-trip oracles O3/O4. non-trivial = the line contains an escape sequence, a quote, a numeric/time extreme or a literal backslash; distinct = set of token classes + field type sequence + tag count")
	defer st.Flush()
	rapid.Check(t, func(rt *rapid.T) {
		classes := map[string]bool{}
		m := vC12DrawPoint(rt, classes, "")
		def := vC12DrawDefTime(rt)
		line := vC12Render(rt, m, vC12Perm(rt, len(m.tags)), classes)
		pts, err, pn := vC12Parse([]byte(line), def, m.prec)
		if pn != nil {
			rt.Fatalf("%s parser panicked on %q: %v", verifkit.Sig("parser-panic"), line, pn)
		}
		if m.hasTS && !m.tsValid {
			// ts*multiplier is outside [MinNanoTime, MaxNanoTime]: the line must be rejected
			if err == nil || len(pts) != 0 {
				prod, _ := vC12TimeProduct(m.ts, m.prec)
				got := int64(0)
				if len(pts) > 0 {
					got = pts[0].UnixNano()
				}
				rt.Fatalf("%s line %q (precision %s): timestamp is %s ns, outside [%d, %d], but %d point(s) came back (time %d), err %v", verifkit.Sig("out-of-range-time-accepted"), line, m.prec, prod, MinNanoTime, MaxNanoTime, len(pts), got, err)
			}
			classes["precision:"+m.prec] = true
			classes["time:out-of-range-rejected:"+m.prec] = true
			cl := vC12SortedClasses(classes)
			st.Case(true, "out-of-range/"+m.prec+"/"+fmt.Sprint(m.ts), cl...)
			st.Sample(nil)
			return
		}
		if err != nil || len(pts) != 1 {
			rt.Fatalf("%s valid line %q (precision %s) gave %d points, err %v", verifkit.Sig("valid-line-rejected"), line, m.prec, len(pts), err)
		}
		p := pts[0]
		if classes["time:range-boundary"] {
			classes["time:range-boundary-accepted:"+m.prec] = true
		}
		if e := vC12CompareModel(p, m, def); e != nil {
			rt.Fatalf("%s line %q: %s", verifkit.Sig(e.sig), line, e.msg)
		}
		if wk := vC12ModelKey(m); !bytes.Equal(wk, p.Key()) {
			rt.Fatalf("%s line %q: key %q, canonical key of the model %q", verifkit.Sig("key-not-canonical"), line, p.Key(), wk)
		}
		// O5: another tag order, same key and hash
		if len(m.tags) > 1 {
			line2 := vC12Render(nil, m, vC12Perm(rt, len(m.tags)), map[string]bool{})
			pts2, err2, pn2 := vC12Parse([]byte(line2), def, m.prec)
			if pn2 != nil || err2 != nil || len(pts2) != 1 {
				rt.Fatalf("%s valid line %q gave %d points, err %v panic %v", verifkit.Sig("valid-line-rejected"), line2, len(pts2), err2, pn2)
			}
			if !bytes.Equal(pts2[0].Key(), p.Key()) || pts2[0].HashID() != p.HashID() {
				rt.Fatalf("%s %q -> key %q hash %x; %q -> key %q hash %x", verifkit.Sig("key-depends-on-tag-order"), line, p.Key(), p.HashID(), line2, pts2[0].Key(), pts2[0].HashID())
			}
			classes["tags:reordered"] = true
		}
		split := rapid.SampledFrom([]int{0, 1, 20, 40, 80}).Draw(rt, "splitSize")
		if e := vC12CheckAccepted(p, m.prec, split); e != nil {
			rt.Fatalf("%s line %q: %s", verifkit.Sig(e.sig), line, e.msg)
		}
		nt := false
		for c := range classes {
			if strings.HasPrefix(c, "name-has:") || strings.HasPrefix(c, "str-has:") || strings.Contains(c, "extreme") || strings.Contains(c, "negzero") || strings.Contains(c, "subnormal") {
				nt = true
			}
		}
		types := make([]byte, 0, 4)
		for _, f := range m.fields {
			types = append(types, f.typ)
			classes["field-type:"+string(f.typ)] = true
		}
		classes["precision:"+m.prec] = true
		cl := vC12SortedClasses(classes)
		st.Case(nt, strings.Join(cl, "|")+"/"+string(types)+"/"+fmt.Sprint(len(m.tags)), cl...)
		if st.WantSample() {
			st.Sample(vC12Describe(line, map[string]interface{}{"precision": m.prec, "parsed": p.String()}))
		} else {
			st.Sample(nil)
		}
	})
}

// ------------------------------------------------------------------------------------------- G2

var vC12SoupName = []string{"a", "b", "é", "#", `\ `, `\,`, `\=`, `\\`, `\"`, `"`, `\a`, `\`, "=", "x", "0", "-", "\xff", "\t", "\x00", "i", "t"}
var vC12SoupNameKind = map[string]string{`\ `: "E", `\,`: "E", `\=`: "E", `\\`: "D", `\"`: "Q", `"`: "q", `\a`: "l", `\`: "B", "=": "=", "\xff": "8", "\t": "w", "\x00": "w", "#": "#"}
var vC12SoupNum = []string{"0", "1", "9", "5", ".", "-", "+", "e", "E", "i", "u", "N", "n", "a", "I", "f", "x", "_"}
var vC12NumExtremes = []string{
	"-9223372036854775808i", "9223372036854775807i", "9223372036854775808i", "-9223372036854775809i", "0i", "-0i", "00012i",
	"18446744073709551615u", "18446744073709551616u", "0u", "-1u", "-0u",
	"1.7976931348623157e308", "-1.7976931348623157e308", "1.7976931348623159e308", "5e-324", "4.9e-324", "2e-324", "1e-400", "-0", "-0.0", "0", "1e400", "-1e400",
	"NaN", "nan", "inf", "-inf", "+Inf", "Inf", "Infinity", "1e", "1e+", ".5", "5.", ".", "-.", "-", "1.e+78", "1.E+78", "1e5i", "1.0i", "1.0u", "0x10", "1_000", "1E5", "1e05", "1e-05",
	"123456789012345678901234567890", "0.000000000000000000000000000001", "1" + strings.Repeat("0", 400), "0." + strings.Repeat("0", 400) + "1",
	"t", "T", "true", "True", "TRUE", "f", "F", "false", "False", "FALSE", "tRUE", "tru", "truee", "yes", "1i1", "1ii", "1iu", "1ui", "i", "u", "-i", "-u",
}
var vC12SoupStr = []string{"a", " ", ",", "=", `\"`, `\\`, `\a`, `\,`, `\=`, "\n", "é", "\xff", "#", "0", "i"}
var vC12TimeExtremes = []string{"0", "-0", "1", "-1", "007", "9223372036854775806", "9223372036854775807", "-9223372036854775806", "-9223372036854775807", "9223372036854775808", "-9223372036854775808", "99999999999999999999", "1.5", "1e3", "-", "--1", "+1", "12x", "2562047", "-2562047", "2562048", "153722867", "153722868", "9223372036", "9223372037"}

var vC12ErrClasses = []string{"missing measurement", "missing fields", "missing tag key", "missing tag value", "invalid tag format", "duplicate tags", "missing field key", "missing field value", "invalid field format", "unbalanced quotes", "invalid number", "invalid boolean", "invalid float", "unable to parse integer", "unable to parse unsigned", "bad timestamp", "time outside range", "point is invalid", "max key length exceeded", "invalid value", "value out of range", "invalid syntax"}

func vC12ErrClass(err error) string {
	if err == nil {
		return "accepted"
	}
	s := err.Error()
	for _, c := range vC12ErrClasses {
		if strings.Contains(s, c) {
			return "rejected:" + c
		}
	}
	return "rejected:other"
}

func vC12Soup(rt *rapid.T, label string, pieces []string, lo, hi int, canon *strings.Builder) string {
	n := rapid.IntRange(lo, hi).Draw(rt, label+"N")
	var b strings.Builder
	for i := 0; i < n; i++ {
		p := rapid.SampledFrom(pieces).Draw(rt, label)
		b.WriteString(p)
		if k, ok := vC12SoupNameKind[p]; ok {
			canon.WriteString(k)
		} else {
			canon.WriteByte('.')
		}
	}
	return b.String()
}

// vC12SoupLine builds one text-first line. canon receives the token-class signature.
func vC12SoupLine(rt *rapid.T, canon *strings.Builder, classes map[string]bool, prec string) string {
	var line strings.Builder
	line.WriteString(vC12Soup(rt, "m", vC12SoupName, 1, 4, canon))
	nt := rapid.IntRange(0, 3).Draw(rt, "nt")
	for i := 0; i < nt; i++ {
		canon.WriteByte(',')
		lo := 1
		if rapid.IntRange(0, 9).Draw(rt, "emptyTagPart") == 0 {
			lo = 0
		}
		line.WriteString("," + vC12Soup(rt, "tk", vC12SoupName, lo, 3, canon) + "=" + vC12Soup(rt, "tv", vC12SoupName, lo, 3, canon))
	}
	canon.WriteByte(' ')
	line.WriteString(rapid.SampledFrom([]string{" ", " ", " ", " ", "  ", " \t", ""}).Draw(rt, "sep1"))
	nf := rapid.IntRange(1, 3).Draw(rt, "nf")
	for i := 0; i < nf; i++ {
		if i > 0 {
			line.WriteString(",")
			canon.WriteByte(',')
		}
		flo := 1
		if rapid.IntRange(0, 9).Draw(rt, "emptyFieldKey") == 0 {
			flo = 0
		}
		line.WriteString(vC12Soup(rt, "fk", vC12SoupName, flo, 3, canon))
		line.WriteString("=")
		switch rapid.IntRange(0, 5).Draw(rt, "vkind") {
		case 0, 1:
			v := rapid.SampledFrom(vC12NumExtremes).Draw(rt, "vext")
			line.WriteString(v)
			canon.WriteString("X")
			classes["value:extreme-list"] = true
		case 2:
			var junk strings.Builder
			line.WriteString(vC12Soup(rt, "vnum", vC12SoupNum, 1, 6, &junk))
			canon.WriteString("N")
			classes["value:numeric-soup"] = true
		case 3, 4:
			var junk strings.Builder
			line.WriteString(`"` + vC12Soup(rt, "vstr", vC12SoupStr, 0, 5, &junk) + `"`)
			canon.WriteString("S")
			classes["value:string"] = true
		default:
			line.WriteString(vC12Soup(rt, "vraw", vC12SoupName, 0, 4, canon))
			canon.WriteString("R")
			classes["value:name-soup"] = true
		}
	}
	switch rapid.IntRange(0, 7).Draw(rt, "tskind") {
	case 6, 7:
		// at and around the range ends and the 2^64 wrap points of this precision
		line.WriteString(" " + fmt.Sprint(rapid.SampledFrom(vC12BoundaryTimes(prec)).Draw(rt, "tsboundary")))
		canon.WriteString(" B")
		classes["time:range-boundary"] = true
	case 0:
		canon.WriteString(" -")
	case 1, 2:
		line.WriteString(" " + fmt.Sprint(rapid.Int64Range(-1000000, 1000000).Draw(rt, "ts")))
		canon.WriteString(" t")
	case 3, 4:
		line.WriteString(" " + rapid.SampledFrom(vC12TimeExtremes).Draw(rt, "tsext"))
		canon.WriteString(" T")
		classes["time:extreme-list"] = true
	default:
		var junk strings.Builder
		line.WriteString(" " + vC12Soup(rt, "tssoup", vC12SoupNum, 1, 4, &junk))
		canon.WriteString(" J")
	}
	tail := rapid.SampledFrom([]string{"", "", "", " ", "  ", "\n", "\r", "\r\n", " \n", "\t", `\`}).Draw(rt, "tail")
	if tail != "" {
		classes["tail:"+fmt.Sprintf("%q", tail)] = true
	}
	line.WriteString(tail)
	return line.String()
}

func TestVerifC12TokenSoup(t *testing.T) {
	st := verifkit.For("C12", "TestVerifC12TokenSoup",
		"G2: lines assembled from wire-level pieces (escaped and bare separators, bare and doubled backslashes, quotes, non-UTF-8, whitespace bytes, numeric and timestamp extremes, malformed numbers); whatever the parser accepts must pass the accepted-point oracles (Fields() decodable, value tokens are numbers/booleans by an independent reading and decode to the same bits, String()/PrecisionString()/binary round trips, hash), nothing may panic. Known-finding shapes are skipped and counted. non-trivial = every case (escape/quote/extreme or malformed); distinct = token-class signature of the line + outcome class")
	defer st.Flush()
	rapid.Check(t, func(rt *rapid.T) {
		classes := map[string]bool{}
		var canon strings.Builder
		prec := rapid.SampledFrom(vC12Precisions).Draw(rt, "prec")
		line := vC12SoupLine(rt, &canon, classes, prec)
		if vC12HasEvenBackslashEquals([]byte(line)) {
			st.Exclude(vC12SigFieldKeyBackslash)
			rt.Skip("known finding shape")
		}
		pts, err, pn := vC12Parse([]byte(line), vC12RefTime, prec)
		if pn != nil {
			rt.Fatalf("%s parser panicked on %q: %v", verifkit.Sig("parser-panic"), line, pn)
		}
		oc := vC12ErrClass(err)
		classes[oc] = true
		for _, p := range pts {
			if sig := vC12KnownShape(p); sig != "" {
				st.Exclude(sig)
				rt.Skip("known finding shape")
			}
			if e := vC12CheckAccepted(p, prec, rapid.SampledFrom([]int{0, 1, 30}).Draw(rt, "splitSize")); e != nil {
				rt.Fatalf("%s line %q (precision %s): %s", verifkit.Sig(e.sig), line, prec, e.msg)
			}
			if bytes.IndexByte(p.Key(), '\\') >= 0 {
				classes["accepted:key-with-backslash"] = true
			}
		}
		if len(pts) > 1 {
			classes["accepted:more-than-one-point"] = true
		}
		cl := vC12SortedClasses(classes)
		st.Case(true, canon.String()+"/"+oc, cl...)
		if st.WantSample() {
			st.Sample(vC12Describe(line, map[string]interface{}{"precision": prec, "outcome": oc}))
		} else {
			st.Sample(nil)
		}
	})
}

// ------------------------------------------------------------------------------------------- G3

type vC12Bad struct {
	class string
	text  string
	last  bool // must be the last line of the request (an open string swallows what follows)
}

var vC12BadLines = []vC12Bad{
	{"no-fields", "bad", false}, {"no-fields", "bad,t=v", false}, {"no-fields", "bad,t=v ", false},
	{"no-field-value", "bad f=", false}, {"no-field-value", "bad f=,g=1", false}, {"no-field-value", "bad f=1,g=", false},
	{"no-field-key", "bad =1", false}, {"no-field-key", "bad f=1,=2", false},
	{"field-without-equals", "bad f", false}, {"field-without-equals", "bad f=1,g", false},
	{"unterminated-string", `bad f="abc`, true}, {"unterminated-string", `bad f="abc\"`, true}, {"unterminated-string", `bad f=1,g="`, true},
	{"unquoted-string", "bad f=abc", false}, {"unquoted-string", "bad f='abc'", false},
	{"bad-number", "bad f=1.2.3", false}, {"bad-number", "bad f=1e400", false}, {"bad-number", "bad f=-1e400", false}, {"bad-number", "bad f=1e", false},
	{"bad-number", "bad f=--1", false}, {"bad-number", "bad f=1-", false}, {"bad-number", "bad f=9223372036854775808i", false},
	{"bad-number", "bad f=-9223372036854775809i", false}, {"bad-number", "bad f=18446744073709551616u", false}, {"bad-number", "bad f=-1u", false},
	{"bad-number", "bad f=1.5i", false}, {"bad-number", "bad f=1e3i", false}, {"bad-number", "bad f=1.5u", false}, {"bad-number", "bad f=NaN", false},
	{"bad-number", "bad f=nan", false}, {"bad-number", "bad f=+Inf", false}, {"bad-number", "bad f=inf", false}, {"bad-number", "bad f=-inf", false},
	{"bad-number", "bad f=Inf", false}, {"bad-number", "bad f=0x10", false}, {"bad-number", "bad f=1_000", false}, {"bad-number", "bad f=1i5", false},
	{"bad-number", "bad f=1ii", false}, {"bad-number", "bad f=.", false}, {"bad-number", "bad f=- 5", false}, {"bad-number", "bad f=+1", false},
	{"bad-number", "bad f=1" + strings.Repeat("0", 400), false}, {"bad-number", "bad g=1,f=1e400,h=2 5", false},
	{"bad-boolean", "bad f=tru", false}, {"bad-boolean", "bad f=yes", false}, {"bad-boolean", "bad f=TRue", false}, {"bad-boolean", "bad f=fals", false}, {"bad-boolean", "bad f=truee", false},
	{"duplicate-tag", "bad,a=1,a=2 f=1", false}, {"duplicate-tag", "bad,b=1,a=2,b=3 f=1", false}, {"duplicate-tag", "bad,a=1,b=2,a=3 f=1", false}, {"duplicate-tag", "bad,c=1,b=2,a=3,b=4 f=1", false},
	{"duplicate-tag", `bad,a\ b=1,a\ b=2 f=1`, false}, {"duplicate-tag", "bad,z=1,y=2,x=3,w=4,y=5 f=1", false},
	{"empty-tag-value", "bad,a= f=1", false}, {"empty-tag-value", "bad,a=1,b= f=1", false}, {"empty-tag-value", "bad,a=,b=1 f=1", false},
	{"empty-tag-key", "bad,=v f=1", false}, {"empty-tag-key", "bad,a=1,=v f=1", false},
	{"tag-without-value", "bad,a f=1", false}, {"tag-without-value", "bad,a=1,b f=1", false},
	{"unescaped-equals-in-tag-value", "bad,a=b=c f=1", false},
	{"unescaped-space-in-tag-value", "bad,a=b c f=1", false},
	{"missing-measurement", ",a=1 f=1", false}, {"missing-measurement", ",a=1 f=1 5", false},
	{"bad-timestamp", "bad f=1 12x", false}, {"bad-timestamp", "bad f=1 1.5", false}, {"bad-timestamp", "bad f=1 1e3", false}, {"bad-timestamp", "bad f=1 -", false},
	{"bad-timestamp", "bad f=1 9223372036854775808", false}, {"bad-timestamp", "bad f=1 --5", false}, {"bad-timestamp", "bad f=1 g=2", false},
	{"time-out-of-range", "bad f=1 9223372036854775807", false}, {"time-out-of-range", "bad f=1 -9223372036854775807", false}, {"time-out-of-range", "bad f=1 -9223372036854775808", false},
	{"garbage-after-timestamp", "bad f=1 10 x", false}, {"garbage-after-timestamp", "bad f=1 10 11", false},
}

func TestVerifC12Request(t *testing.T) {
	st := verifkit.For("C12", "TestVerifC12Request",
		"G3: requests of 1-6 valid model-first lines (strings may contain newlines), blank and comment lines, and zero to two malformed lines of a drawn class (no fields, missing value/key, unterminated string (last line only), bad number incl. NaN/Inf/overflow, bad boolean, duplicate/empty tags, bad or out-of-range timestamp, trailing garbage); exactly the valid lines must come back, in order and equal to their models, and the error must name exactly the malformed lines (O2). non-trivial = the request holds a malformed line together with at least one valid line; distinct = sequence of line kinds/classes")
	defer st.Flush()
	rapid.Check(t, func(rt *rapid.T) {
		classes := map[string]bool{}
		prec := rapid.SampledFrom(vC12Precisions).Draw(rt, "prec")
		def := vC12DrawDefTime(rt)
		nValid := rapid.IntRange(0, 6).Draw(rt, "nValid")
		nBad := rapid.SampledFrom([]int{0, 1, 1, 1, 1, 2}).Draw(rt, "nBad")
		type ln struct {
			text  string
			kind  string // valid, bad, blank, comment
			model vC12Point
			bad   vC12Bad
		}
		var lines []ln
		for i := 0; i < nValid; i++ {
			m := vC12DrawPoint(rt, classes, prec)
			vC12ForceValidTime(&m)
			lines = append(lines, ln{text: vC12Render(rt, m, vC12Perm(rt, len(m.tags)), classes), kind: "valid", model: m})
		}
		var lastBad *vC12Bad
		for i := 0; i < nBad; i++ {
			b := rapid.SampledFrom(vC12BadLines).Draw(rt, "bad")
			if b.last {
				if lastBad != nil {
					continue
				}
				bb := b
				lastBad = &bb
				continue
			}
			pos := rapid.IntRange(0, len(lines)).Draw(rt, "badPos")
			lines = append(lines[:pos], append([]ln{{text: b.text, kind: "bad", bad: b}}, lines[pos:]...)...)
		}
		for i := rapid.IntRange(0, 2).Draw(rt, "nNoise"); i > 0; i-- {
			pos := rapid.IntRange(0, len(lines)).Draw(rt, "noisePos")
			n := rapid.SampledFrom([]ln{{text: "", kind: "blank"}, {text: "   ", kind: "blank"}, {text: "\t", kind: "blank"}, {text: "# a comment, with = and spaces", kind: "comment"}, {text: "  # indented comment", kind: "comment"}, {text: "#", kind: "comment"}}).Draw(rt, "noise")
			lines = append(lines[:pos], append([]ln{n}, lines[pos:]...)...)
		}
		if lastBad != nil {
			lines = append(lines, ln{text: lastBad.text, kind: "bad", bad: *lastBad})
		}
		if len(lines) == 0 {
			rt.Skip("empty request")
		}
		var req strings.Builder
		var canon strings.Builder
		for i, l := range lines {
			if i > 0 {
				req.WriteByte('\n')
			}
			req.WriteString(l.text)
			canon.WriteString(l.kind + ":" + l.bad.class + ";")
			classes["line:"+l.kind] = true
			if l.kind == "bad" {
				classes["malformed:"+l.bad.class] = true
			}
		}
		if rapid.Bool().Draw(rt, "finalNewline") && (lastBad == nil) {
			req.WriteByte('\n')
		}
		buf := []byte(req.String())
		pts, err, pn := vC12Parse(buf, def, prec)
		if pn != nil {
			rt.Fatalf("%s parser panicked on %q: %v", verifkit.Sig("parser-panic"), buf, pn)
		}
		var wantValid []ln
		var wantBad []ln
		for _, l := range lines {
			switch l.kind {
			case "valid":
				wantValid = append(wantValid, l)
			case "bad":
				wantBad = append(wantBad, l)
			}
		}
		if len(pts) != len(wantValid) {
			rt.Fatalf("%s request %q: %d valid lines, %d points returned (err %v)", verifkit.Sig("request-wrong-point-count"), buf, len(wantValid), len(pts), err)
		}
		for i, l := range wantValid {
			if e := vC12CompareModel(pts[i], l.model, def); e != nil {
				rt.Fatalf("%s request %q, valid line #%d %q: %s", verifkit.Sig("request-"+e.sig), buf, i, l.text, e.msg)
			}
		}
		if len(wantBad) == 0 {
			if err != nil {
				rt.Fatalf("%s request %q without malformed lines returned error %v", verifkit.Sig("valid-line-rejected"), buf, err)
			}
		} else {
			if err == nil {
				rt.Fatalf("%s request %q: malformed line(s) %q accepted silently", verifkit.Sig("malformed-line-not-reported"), buf, wantBad[0].text)
			}
			es := err.Error()
			if n := strings.Count(es, "unable to parse '"); n != len(wantBad) {
				rt.Fatalf("%s request %q: %d malformed lines, error reports %d: %q", verifkit.Sig("error-names-wrong-lines"), buf, len(wantBad), n, es)
			}
			for _, l := range wantBad {
				if !strings.Contains(es, "unable to parse '"+strings.TrimLeft(l.text, " ")+"': ") {
					rt.Fatalf("%s request %q: error %q does not name malformed line %q", verifkit.Sig("error-names-wrong-lines"), buf, es, l.text)
				}
			}
		}
		// the accepted points also pass the round-trip oracles
		for _, p := range pts {
			if e := vC12CheckAccepted(p, prec, 0); e != nil {
				rt.Fatalf("%s request %q: %s", verifkit.Sig(e.sig), buf, e.msg)
			}
		}
		cl := vC12SortedClasses(classes)
		st.Case(len(wantBad) > 0 && len(wantValid) > 0, canon.String(), cl...)
		if st.WantSample() {
			st.Sample(vC12Describe(string(buf), map[string]interface{}{"precision": prec, "points": len(pts), "error": fmt.Sprint(err)}))
		} else {
			st.Sample(nil)
		}
	})
}

// ------------------------------------------------------------------------------------------- G4

var vC12MutBytes = []byte{'\\', '"', ',', '=', ' ', '\n', 0, 0xff, '0', '9', 'i', 'u', 'e', '-', '.', '#', '\t', '\r', 't', 'N'}

func vC12Mutate(rt *rapid.T, b []byte, canon *strings.Builder) []byte {
	n := rapid.IntRange(1, 4).Draw(rt, "nMut")
	for i := 0; i < n; i++ {
		if len(b) == 0 {
			b = append(b, rapid.SampledFrom(vC12MutBytes).Draw(rt, "mb"))
			continue
		}
		pos := rapid.IntRange(0, len(b)-1).Draw(rt, "mpos")
		switch rapid.IntRange(0, 5).Draw(rt, "mop") {
		case 0:
			c := rapid.SampledFrom(vC12MutBytes).Draw(rt, "mb")
			b[pos] = c
			fmt.Fprintf(canon, "r%q", c)
		case 1:
			c := rapid.SampledFrom(vC12MutBytes).Draw(rt, "mb")
			b = append(b[:pos], append([]byte{c}, b[pos:]...)...)
			fmt.Fprintf(canon, "i%q", c)
		case 2:
			fmt.Fprintf(canon, "d%q", b[pos])
			b = append(b[:pos], b[pos+1:]...)
		case 3:
			b = b[:pos]
			canon.WriteString("t")
		case 4:
			end := rapid.IntRange(pos, len(b)).Draw(rt, "mend")
			span := append([]byte(nil), b[pos:end]...)
			b = append(b[:end], append(span, b[end:]...)...)
			canon.WriteString("D")
		default:
			b[pos] ^= byte(1 << uint(rapid.IntRange(0, 7).Draw(rt, "mbit")))
			canon.WriteString("x")
		}
	}
	return b
}

func TestVerifC12Mutate(t *testing.T) {
	st := verifkit.For("C12", "TestVerifC12Mutate",
		"G4: 1-3 valid model-first lines with 1-4 byte mutations (replace/insert a syntax byte, delete, truncate, duplicate a span, flip a bit), or raw random bytes; nothing may panic and every point that is still accepted must pass the accepted-point oracles; known-finding shapes are skipped and counted. non-trivial = every case; distinct = mutation signature + outcome class")
	defer st.Flush()
	rapid.Check(t, func(rt *rapid.T) {
		classes := map[string]bool{}
		prec := rapid.SampledFrom(vC12Precisions).Draw(rt, "prec")
		var buf []byte
		var canon strings.Builder
		if rapid.IntRange(0, 9).Draw(rt, "raw") == 0 {
			buf = rapid.SliceOfN(rapid.Byte(), 0, 40).Draw(rt, "rawBytes")
			canon.WriteString(fmt.Sprintf("raw%d", len(buf)))
			classes["input:raw-bytes"] = true
		} else {
			n := rapid.IntRange(1, 3).Draw(rt, "nLines")
			for i := 0; i < n; i++ {
				m := vC12DrawPoint(rt, map[string]bool{}, prec)
				vC12ForceValidTime(&m)
				if i > 0 {
					buf = append(buf, '\n')
				}
				buf = append(buf, vC12Render(rt, m, vC12Perm(rt, len(m.tags)), map[string]bool{})...)
			}
			buf = vC12Mutate(rt, buf, &canon)
			classes["input:mutated-lines"] = true
		}
		if vC12HasEvenBackslashEquals(buf) {
			st.Exclude(vC12SigFieldKeyBackslash)
			rt.Skip("known finding shape")
		}
		orig := append([]byte(nil), buf...)
		pts, err, pn := vC12Parse(buf, vC12RefTime, prec)
		if pn != nil {
			rt.Fatalf("%s parser panicked on %q: %v", verifkit.Sig("parser-panic"), orig, pn)
		}
		oc := vC12ErrClass(err)
		classes[oc] = true
		classes[fmt.Sprintf("accepted-points:%d", len(pts))] = true
		for _, p := range pts {
			if sig := vC12KnownShape(p); sig != "" {
				st.Exclude(sig)
				rt.Skip("known finding shape")
			}
			if e := vC12CheckAccepted(p, prec, 0); e != nil {
				rt.Fatalf("%s input %q (precision %s): %s", verifkit.Sig(e.sig), orig, prec, e.msg)
			}
		}
		cl := vC12SortedClasses(classes)
		st.Case(true, canon.String()+"/"+oc+fmt.Sprint(len(pts)), cl...)
		if st.WantSample() {
			st.Sample(vC12Describe(string(orig), map[string]interface{}{"precision": prec, "outcome": oc, "points": len(pts)}))
		} else {
			st.Sample(nil)
		}
	})
}

// ------------------------------------------------------------------------------------------- binary decoder

// vC12ExerciseDecoded calls every accessor of a point that NewPointFromBytes returned (O6).
func vC12ExerciseDecoded(q Point) *vC12Err {
	return vC12Safely("decoded-accessor", func() *vC12Err {
		_ = q.Key()
		_ = q.Name()
		_ = q.Tags()
		_ = q.HashID()
		_ = q.Time()
		_ = q.UnixNano()
		_, _ = q.Fields()
		it := q.FieldIterator()
		n := 0
		for it.Next() {
			if n++; n > 1000000 {
				return vC12Fail("iterator-does-not-terminate", "FieldIterator did not stop")
			}
			_ = it.FieldKey()
			switch it.Type() {
			case Float:
				it.FloatValue()
			case Integer:
				it.IntegerValue()
			case Unsigned:
				it.UnsignedValue()
			case Boolean:
				it.BooleanValue()
			case String:
				_ = it.StringValue()
			}
		}
		s := q.String()
		_ = q.PrecisionString("s")
		_ = q.RoundedString(time.Second)
		_ = q.StringSize() // only meaningful for times inside the valid range; a decoded frame may carry any time
		_ = q.AppendString(nil)
		_ = q.Split(1)
		_ = q.Split(len(s) / 2)
		_ = q.HasTag([]byte("a"))
		q.ForEachTag(func(k, v []byte) bool { return true })
		q.ForEachField(func(k, v []byte) bool { return true })
		b, err := q.MarshalBinary()
		if err == nil {
			r, err := NewPointFromBytes(b)
			if err != nil {
				return vC12Fail("binary-not-decodable", "decoded point re-encodes to bytes the decoder rejects: %v", err)
			}
			if r.String() != s {
				return vC12Fail("binary-roundtrip-string", "decoded point %q re-decodes as %q", s, r.String())
			}
		}
		q.Round(time.Second)
		return nil
	})
}

var vC12BinFieldPieces = []string{"a", "=", ",", `"`, `\`, "1", "i", "u", "t", ".", "-", "e", " ", "x", "\x00", "\xff", `a=1`, `b="s"`, `c=t`, `d=2i`, `e=3u`, `="`, `,=`}
var vC12BinKeyPieces = []string{"m", ",", "=", `\`, " ", "a", "b", "\x00", "\xff", `,a=b`, `\,`, `\=`, `\ `}

func TestVerifC12BinaryDecoder(t *testing.T) {
	st := verifkit.For("C12", "TestVerifC12BinaryDecoder",
		"binary point decoder on hostile bytes: (a) MarshalBinary of a parsed model-first point with 1-4 byte mutations, (b) frames assembled from key/field/time pieces with correct or corrupted length prefixes, (c) raw bytes; NewPointFromBytes and every accessor of a point it returns must not panic, and a decoded point must re-encode to something that decodes to the same text (O4/O6). non-trivial = the decoder accepted the bytes or rejected a mutated valid frame; distinct = construction signature + outcome")
	defer st.Flush()
	rapid.Check(t, func(rt *rapid.T) {
		classes := map[string]bool{}
		var canon strings.Builder
		var buf []byte
		switch rapid.IntRange(0, 5).Draw(rt, "mode") {
		case 0, 1:
			m := vC12DrawPoint(rt, map[string]bool{}, "")
			vC12ForceValidTime(&m)
			line := vC12Render(rt, m, vC12Perm(rt, len(m.tags)), map[string]bool{})
			pts, err, pn := vC12Parse([]byte(line), vC12RefTime, m.prec)
			if pn != nil || err != nil || len(pts) != 1 {
				rt.Fatalf("%s valid line %q gave %d points, err %v panic %v", verifkit.Sig("valid-line-rejected"), line, len(pts), err, pn)
			}
			b, err := pts[0].MarshalBinary()
			if err != nil {
				rt.Fatalf("%s MarshalBinary of %q: %v", verifkit.Sig("marshalbinary-error"), line, err)
			}
			buf = vC12Mutate(rt, b, &canon)
			classes["input:mutated-frame"] = true
		case 2, 3, 4:
			var junk strings.Builder
			key := vC12Soup(rt, "bk", vC12BinKeyPieces, 0, 5, &junk)
			fields := vC12Soup(rt, "bf", vC12BinFieldPieces, 0, 6, &junk)
			canon.WriteString(fmt.Sprintf("frame:%q:%q", key, fields))
			tb, _ := time.Unix(0, rapid.Int64().Draw(rt, "btime")).UTC().MarshalBinary()
			switch rapid.IntRange(0, 4).Draw(rt, "btimeKind") {
			case 0:
				tb, _ = time.Time{}.MarshalBinary()
			case 1:
				tb = tb[:rapid.IntRange(0, len(tb)).Draw(rt, "btimeCut")]
			}
			kl, fl := uint32(len(key)), uint32(len(fields))
			switch rapid.IntRange(0, 7).Draw(rt, "blen") {
			case 0:
				kl = rapid.Uint32().Draw(rt, "bkl")
				canon.WriteString(":kl")
			case 1:
				fl = rapid.Uint32().Draw(rt, "bfl")
				canon.WriteString(":fl")
			case 2:
				fl = uint32(int(fl) + rapid.IntRange(-2, 2).Draw(rt, "bfld"))
				canon.WriteString(":fl±")
			}
			var l [4]byte
			binary.BigEndian.PutUint32(l[:], kl)
			buf = append(buf, l[:]...)
			buf = append(buf, key...)
			binary.BigEndian.PutUint32(l[:], fl)
			buf = append(buf, l[:]...)
			buf = append(buf, fields...)
			buf = append(buf, tb...)
			classes["input:assembled-frame"] = true
		default:
			buf = rapid.SliceOfN(rapid.Byte(), 0, 48).Draw(rt, "rawBytes")
			canon.WriteString(fmt.Sprintf("raw%d", len(buf)))
			classes["input:raw-bytes"] = true
		}
		orig := append([]byte(nil), buf...)
		var q Point
		var derr error
		if e := vC12Safely("decoder", func() *vC12Err { q, derr = NewPointFromBytes(buf); return nil }); e != nil {
			rt.Fatalf("%s NewPointFromBytes(%q): %s", verifkit.Sig(e.sig), orig, e.msg)
		}
		oc := "rejected"
		if derr == nil {
			oc = "accepted"
			pp := q.(*point)
			if e := vC12ExerciseDecoded(q); e != nil {
				rt.Fatalf("%s NewPointFromBytes(%q) accepted (key %q fields %q): %s", verifkit.Sig(e.sig), orig, pp.key, pp.fields, e.msg)
			}
		}
		classes["decoder:"+oc] = true
		cl := vC12SortedClasses(classes)
		st.Case(oc == "accepted" || classes["input:mutated-frame"], canon.String()+"/"+oc, cl...)
		if st.WantSample() {
			st.Sample(map[string]interface{}{"bytes": fmt.Sprintf("%q", orig), "outcome": oc})
		} else {
			st.Sample(nil)
		}
	})
}
