//go:build verif

package models

// C12 directed campaigns for the known findings (HARNESS_GUIDE "Known findings") and the native
// fuzz targets of the thorough tier.

import (
	"bufio"
	"encoding/binary"
	"fmt"
	"os"
	"path/filepath"
	"strconv"
	"strings"
	"testing"
	"time"

	"verifkit"
)

// field key text ends in an even run of backslashes right before '=': the scanner that accepts
// the line treats the run as escaped backslashes, the field iterator treats "\=" as an escaped '='.
var vC12KFBackslashInputs = []string{
	`a \\="a,b=c" 0`,
	`m k\\="x,y=z"`,
	`m,t=v f=1,k\\\\="p,q=r" 5`,
	`m k\\="a=b"`,
}

func TestVerifC12KFFieldKeyBackslash(t *testing.T) {
	st := verifkit.For("C12", "TestVerifC12KFFieldKeyBackslash", "directed: lines whose field key ends in an even run of backslashes before '=' and whose string value contains '='; reproduced when the line is accepted but fails an accepted-point oracle")
	defer st.Flush()
	for _, in := range vC12KFBackslashInputs {
		pts, err, pn := vC12Parse([]byte(in), vC12RefTime, "n")
		reproduced := ""
		if pn != nil {
			reproduced = fmt.Sprintf("parser panics: %v", pn)
		} else if err == nil && len(pts) == 1 {
			if e := vC12CheckAccepted(pts[0], "n", 0); e != nil {
				reproduced = fmt.Sprintf("accepted, then %s: %s", e.sig, e.msg)
			}
		}
		st.Case(true, in, "kf-input")
		if reproduced != "" {
			st.KnownReproduced(vC12SigFieldKeyBackslash, fmt.Sprintf("line %q is accepted but its fields cannot be decoded consistently (%s)", in, reproduced))
			st.Class("kf-reproduced", 1)
		}
		st.Sample(map[string]interface{}{"input": in, "reproduced": reproduced})
	}
}

var vC12KFAfterQuoteInputs = []string{
	`m a="x"y 0`,
	`m a="x"y`,
	`m a="x"yz,b=1 5`,
	`m a="x""`,
	`m a=""x"" 1`,
}

func TestVerifC12KFBytesAfterQuote(t *testing.T) {
	st := verifkit.For("C12", "TestVerifC12KFBytesAfterQuote", "directed: string field values followed by more bytes after the closing quote; reproduced when the line is accepted (a malformed line must be rejected)")
	defer st.Flush()
	for _, in := range vC12KFAfterQuoteInputs {
		pts, err, pn := vC12Parse([]byte(in), vC12RefTime, "n")
		reproduced := ""
		if pn != nil {
			reproduced = fmt.Sprintf("parser panics: %v", pn)
		} else if err == nil && len(pts) == 1 && vC12BytesAfterQuote(pts[0]) {
			f, _ := pts[0].Fields()
			reproduced = fmt.Sprintf("accepted with a=%q", f["a"])
		}
		st.Case(true, in, "kf-input")
		if reproduced != "" {
			st.KnownReproduced(vC12SigBytesAfterQuote, fmt.Sprintf("malformed line %q is %s", in, reproduced))
			st.Class("kf-reproduced", 1)
		}
		st.Sample(map[string]interface{}{"input": in, "reproduced": reproduced})
	}
}

func TestVerifC12KFEmptyFieldKey(t *testing.T) {
	st := verifkit.For("C12", "TestVerifC12KFEmptyFieldKey", "directed: lines whose field section starts with '=' after a tab or NUL byte (no field key); reproduced when the line is accepted")
	defer st.Flush()
	for _, in := range []string{"a \t=1i", "a \x00=1", "m,t=v \t=\"s\" 5", "a \t=1,b=2"} {
		pts, err, pn := vC12Parse([]byte(in), vC12RefTime, "n")
		reproduced := ""
		if pn != nil {
			reproduced = fmt.Sprintf("parser panics: %v", pn)
		} else if err == nil && len(pts) == 1 && vC12EmptyFieldKey(pts[0]) {
			f, ferr := pts[0].Fields()
			reproduced = fmt.Sprintf("accepted; Fields() = %v, %v", f, ferr)
		}
		st.Case(true, in, "kf-input")
		if reproduced != "" {
			st.KnownReproduced(vC12SigEmptyFieldKey, fmt.Sprintf("line %q has no field key and is %s", in, reproduced))
			st.Class("kf-reproduced", 1)
		}
		st.Sample(map[string]interface{}{"input": in, "reproduced": reproduced})
	}
}

// vC12KFRoundTrip is shared by the two line-splitter findings: reproduced when the input is
// accepted as one point of the given shape whose String() does not parse back to the same point.
func vC12KFRoundTrip(st *verifkit.Stats, sig string, inputs []string, shape func(Point) bool, what string) {
	for _, in := range inputs {
		pts, err, pn := vC12Parse([]byte(in), vC12RefTime, "n")
		reproduced := ""
		if pn != nil {
			reproduced = fmt.Sprintf("parser panics: %v", pn)
		} else if err == nil && len(pts) == 1 && shape(pts[0]) {
			if e := vC12CheckAccepted(pts[0], "n", 0); e != nil {
				reproduced = fmt.Sprintf("accepted, then %s: %s", e.sig, e.msg)
			}
		}
		st.Case(true, in, "kf-input")
		if reproduced != "" {
			st.KnownReproduced(sig, fmt.Sprintf("%s: input %q is %s", what, in, reproduced))
			st.Class("kf-reproduced", 1)
		}
		st.Sample(map[string]interface{}{"input": in, "reproduced": reproduced})
	}
}

func TestVerifC12KFKeyBackslashSpace(t *testing.T) {
	st := verifkit.For("C12", "TestVerifC12KFKeyBackslashSpace", "directed: a tag key/value or measurement ending in two backslashes in front of a space, a quote earlier in the key and a string value holding a newline; reproduced when the accepted point's String() does not parse back to it")
	defer st.Flush()
	vC12KFRoundTrip(st, vC12SigKeyBackslashSpace, []string{
		"a,a=\",\\\\ =a a=\"aaaa\n\"",
		"m,b=\",\\\\ =x f=\"p\nq\" 7",
	}, func(p Point) bool { return vC12KeyBackslashSpace(p.Key()) }, "line splitter and key scanner disagree on a space after a doubled backslash")
}

func TestVerifC12KFMalformedFields(t *testing.T) {
	st := verifkit.For("C12", "TestVerifC12KFMalformedFields", "directed: field sections in which a field has no '=' and a later quoted string holds a compensating '=' (the field scanner validates by counting '=' and ','); reproduced when the line is accepted although its field section is not key=value(,key=value)*")
	defer st.Flush()
	for _, in := range []string{`m a,b="=",c=d"`, `a \=-9223372036854775808i,a="=",a=a"`, `m a,b="=",c="x" 5`} {
		pts, err, pn := vC12Parse([]byte(in), vC12RefTime, "n")
		reproduced := ""
		if pn != nil {
			reproduced = fmt.Sprintf("parser panics: %v", pn)
		} else if err == nil && len(pts) == 1 {
			if why := vC12StrictFields(pts[0].(*point).fields); why != "" {
				f, ferr := pts[0].Fields()
				reproduced = fmt.Sprintf("accepted (strict reading: %s); Fields() = %v, %v", why, f, ferr)
			}
		}
		st.Case(true, in, "kf-input")
		if reproduced != "" {
			st.KnownReproduced(vC12SigMalformedFields, fmt.Sprintf("line %q is %s", in, reproduced))
			st.Class("kf-reproduced", 1)
		}
		st.Sample(map[string]interface{}{"input": in, "reproduced": reproduced})
	}
}

func TestVerifC12KFNewlineInKey(t *testing.T) {
	st := verifkit.For("C12", "TestVerifC12KFNewlineInKey", "directed: a line that starts with a space and has =\" followed by a newline inside its measurement/tags; reproduced when it is accepted with a newline in the key and String() does not parse back to it")
	defer st.Flush()
	vC12KFRoundTrip(st, vC12SigNewlineInKey, []string{
		" aaaaa=a\"\n,aa=a,a=a a=0",
		" m=\"\nx,t=v f=1 5",
		" a=a,aaaaa=a\"a,b=aaaaa,aaaa=a \n=0,aaaaaa=-9223372036854775808i",
	}, func(p Point) bool { return vC12KnownShape(p) == vC12SigNewlineInKey }, "a leading space makes the line splitter treat a quote in the key as the start of a string")
}

// The two request-level findings. The request generator (G3) never ends a line in a backslash
// and never puts a quote into a comment, so they are excluded from it by construction.
func TestVerifC12KFBackslashJoinsLines(t *testing.T) {
	st := verifkit.For("C12", "TestVerifC12KFBackslashJoinsLines", "directed: a malformed line that ends in a backslash, followed by the valid line 'cpu v=1 1'; reproduced when the valid line does not come back as measurement cpu (the line splitter skips the newline as an escaped byte)")
	defer st.Flush()
	for _, in := range []string{"bad\\\ncpu v=1 1", "bad f=1x\\\ncpu v=1 1", "bad,t=v\\\ncpu v=1 1\ncpu v=2 2"} {
		pts, err, pn := vC12Parse([]byte(in), vC12RefTime, "n")
		reproduced := ""
		if pn != nil {
			reproduced = fmt.Sprintf("parser panics: %v", pn)
		} else {
			found := false
			for _, p := range pts {
				if string(p.Name()) == "cpu" && p.UnixNano() == 1 {
					found = true
				}
			}
			if !found {
				names := []string{}
				for _, p := range pts {
					names = append(names, string(p.Name()))
				}
				reproduced = fmt.Sprintf("valid line 'cpu v=1 1' lost; returned measurements %q, err %v", names, err)
			}
		}
		st.Case(true, in, "kf-input")
		if reproduced != "" {
			st.KnownReproduced(vC12SigBackslashJoins, fmt.Sprintf("request %q: %s", in, reproduced))
			st.Class("kf-reproduced", 1)
		}
		st.Sample(map[string]interface{}{"input": in, "reproduced": reproduced})
	}
}

func TestVerifC12KFCommentSwallowsLines(t *testing.T) {
	st := verifkit.For("C12", "TestVerifC12KFCommentSwallowsLines", "directed: a comment line that contains =\" followed by valid lines; reproduced when fewer points than valid lines come back (the line splitter opens a string inside the comment and swallows the following lines, without any error)")
	defer st.Flush()
	for _, c := range []struct {
		in   string
		want int
	}{{"# a=\"b\ncpu v=1 1\ncpu v=2 2", 2}, {"cpu v=1 1\n# x=\"\ncpu v=2 2\ncpu v=3 3", 3}} {
		pts, err, pn := vC12Parse([]byte(c.in), vC12RefTime, "n")
		reproduced := ""
		if pn != nil {
			reproduced = fmt.Sprintf("parser panics: %v", pn)
		} else if len(pts) != c.want {
			reproduced = fmt.Sprintf("%d valid lines, %d points returned, err %v", c.want, len(pts), err)
		}
		st.Case(true, c.in, "kf-input")
		if reproduced != "" {
			st.KnownReproduced(vC12SigCommentSwallows, fmt.Sprintf("request %q: %s", c.in, reproduced))
			st.Class("kf-reproduced", 1)
		}
		st.Sample(map[string]interface{}{"input": c.in, "reproduced": reproduced})
	}
}

func vC12Frame(key, fields string) []byte {
	tb, _ := time.Unix(0, 42).UTC().MarshalBinary()
	var b []byte
	var l [4]byte
	binary.BigEndian.PutUint32(l[:], uint32(len(key)))
	b = append(b, l[:]...)
	b = append(b, key...)
	binary.BigEndian.PutUint32(l[:], uint32(len(fields)))
	b = append(b, l[:]...)
	b = append(b, fields...)
	return append(b, tb...)
}

func TestVerifC12KFBinaryLoneQuote(t *testing.T) {
	st := verifkit.For("C12", "TestVerifC12KFBinaryLoneQuote", "directed: binary point frames whose fields section ends in =\" (a string value that consists of the opening quote only); reproduced when NewPointFromBytes accepts the frame and an accessor of the returned point panics")
	defer st.Flush()
	for _, fields := range []string{`a="`, `x=1,a="`, `a=1i,b=t,c="`} {
		frame := vC12Frame("m,t=v", fields)
		var q Point
		var derr error
		reproduced := ""
		if e := vC12Safely("decoder", func() *vC12Err { q, derr = NewPointFromBytes(frame); return nil }); e != nil {
			reproduced = e.msg
		} else if derr == nil {
			if e := vC12ExerciseDecoded(q); e != nil {
				reproduced = fmt.Sprintf("accepted, then %s", e.msg)
			}
		}
		st.Case(true, fields, "kf-input")
		if reproduced != "" {
			st.KnownReproduced(vC12SigBinaryLoneQuote, fmt.Sprintf("binary point with fields %q: %s", fields, reproduced))
			st.Class("kf-reproduced", 1)
		}
		st.Sample(map[string]interface{}{"fields": fields, "reproduced": reproduced})
	}
}

func TestVerifC12KFBinaryEmptyKeyLoneQuote(t *testing.T) {
	st := verifkit.For("C12", "TestVerifC12KFBinaryEmptyKeyLoneQuote", "directed: binary point frames in which a field with an EMPTY key has the lone-quote value (fields section ends in ,=\" or is =\"); reproduced when NewPointFromBytes accepts the frame and iterating its fields the way Engine.WritePoints does (StringValue of every String field) panics")
	defer st.Flush()
	for _, fields := range []string{`a=1,="`, `,=,="`, `a=,="`} {
		frame := vC12Frame("m,t=v", fields)
		var q Point
		var derr error
		reproduced := ""
		if e := vC12Safely("decoder", func() *vC12Err { q, derr = NewPointFromBytes(frame); return nil }); e != nil {
			reproduced = e.msg
		} else if derr == nil {
			if e := vC12ExerciseDecoded(q); e != nil {
				reproduced = fmt.Sprintf("accepted, then %s", e.msg)
			}
		}
		st.Case(true, fields, "kf-input")
		if reproduced != "" {
			st.KnownReproduced(vC12SigBinaryEmptyKeyLQ, fmt.Sprintf("binary point with fields %q: %s", fields, reproduced))
			st.Class("kf-reproduced", 1)
		}
		st.Sample(map[string]interface{}{"fields": fields, "reproduced": reproduced})
	}
}

// ------------------------------------------------------------------------------------------- native fuzz

func vC12Seeds() []string {
	seeds := []string{
		"cpu value=1", "cpu,host=a,region=b value=1.5,n=3i,u=4u,b=t,s=\"x\" 1000",
		`m\ x,t\,k=v\=w f\ k="a\"b\\" -5`, "# comment\ncpu v=1\n\ncpu v=2 2", `a \\="a,b=c" 0`, `m a="x"y 0`,
		"cpu v=-9223372036854775808i,w=18446744073709551615u,x=1.7976931348623157e308,y=5e-324,z=-0 9223372036854775806",
		"cpu,b=1,a=2 v=1\ncpu,a=2,b=1 v=1", "cpu v=\"multi\nline\" 1", "cpu v=1e400", "cpu v=NaN", "cpu,a=1,a=2 v=1",
	}
	if dir := os.Getenv("VERIF_VERIFDIR"); dir != "" {
		if f, err := os.Open(filepath.Join(dir, "corpus", "FuzzVerifC12Parse", "seeds.txt")); err == nil {
			sc := bufio.NewScanner(f)
			sc.Buffer(make([]byte, 1<<20), 1<<20)
			for sc.Scan() {
				if s, err := strconv.Unquote(strings.TrimSpace(sc.Text())); err == nil {
					seeds = append(seeds, s)
				}
			}
			f.Close()
		}
	}
	return seeds
}

func FuzzVerifC12Parse(f *testing.F) {
	for i, s := range vC12Seeds() {
		f.Add([]byte(s), uint8(i))
	}
	f.Fuzz(func(t *testing.T, in []byte, precIdx uint8) {
		prec := vC12Precisions[int(precIdx)%len(vC12Precisions)]
		if vC12HasEvenBackslashEquals(in) {
			return // known finding shape
		}
		orig := append([]byte(nil), in...)
		pts, _, pn := vC12Parse(in, vC12RefTime, prec)
		if pn != nil {
			t.Fatalf("%s parser panicked on %q: %v", verifkit.Sig("parser-panic"), orig, pn)
		}
		for _, p := range pts {
			if vC12KnownShape(p) != "" {
				return // known finding shape
			}
		}
		for _, p := range pts {
			if e := vC12CheckAccepted(p, prec, int(precIdx)); e != nil {
				t.Fatalf("%s input %q (precision %s): %s", verifkit.Sig(e.sig), orig, prec, e.msg)
			}
		}
	})
}

func FuzzVerifC12Binary(f *testing.F) {
	for _, s := range vC12Seeds() {
		pts, _, _ := vC12Parse([]byte(s), vC12RefTime, "n")
		for _, p := range pts {
			if b, err := p.MarshalBinary(); err == nil {
				f.Add(b)
			}
		}
	}
	f.Add(vC12Frame("", ""))
	f.Add(vC12Frame("m", "a"))
	f.Add(vC12Frame("m,a=", "=,="))
	f.Fuzz(func(t *testing.T, in []byte) {
		orig := append([]byte(nil), in...)
		var q Point
		var derr error
		if e := vC12Safely("decoder", func() *vC12Err { q, derr = NewPointFromBytes(in); return nil }); e != nil {
			t.Fatalf("%s NewPointFromBytes(%q): %s", verifkit.Sig(e.sig), orig, e.msg)
		}
		if derr != nil {
			return
		}
		if e := vC12ExerciseDecoded(q); e != nil {
			t.Fatalf("%s NewPointFromBytes(%q) accepted: %s", verifkit.Sig(e.sig), orig, e.msg)
		}
	})
}
