//go:build verif

package run_test

// C16 - a statement runs against the database its grants were checked for. Authorisation looks at the database a
// statement names (its ON clause, else the request's db parameter); execution must read that same database. Here
// a user with READ on db0 only sends listing statements with every combination of ON clause and db parameter to
// a real node; nothing of db2 (no grant) may ever come back, and a request that is allowed must answer from db0.

import (
	"fmt"
	"net/http"
	"strings"
	"testing"

	"pgregory.net/rapid"
	"verifkit"
)

func TestVerifC16ExecutedDatabase(t *testing.T) {
	st := verifkit.For("C16", "TestVerifC16ExecutedDatabase",
		"execution level (real meta service + data node with HTTP auth): user u1 holds READ on db0 only; requests = listing statement (SHOW MEASUREMENTS / TAG KEYS / TAG VALUES / FIELD KEYS / SERIES / RETENTION POLICIES, optionally with FROM) x ON clause in {none, db0, db2} x db parameter in {none, db0, db2} x GET/POST, as u1 and as the administrator. Oracle for u1: the response never contains content of db2; when the database the statement names (ON clause, else db parameter) is db0 the request succeeds and returns db0's content; when it is db2 it is refused. The administrator's answer to the same request is the control that the statement does read the named database. The cardinality statements and FROM clauses that name another database are known findings of the privilege tables and are not generated here. non-trivial = ON clause and db parameter name different databases; distinct = (statement, ON, db, method)")
	defer st.Flush()
	addr, _, shutdown := vC16ExecBed()
	defer shutdown()
	type kind struct {
		pre, post string // text before and after the ON clause
		pub       string // what db0's answer contains
		secret    string // what db2's answer would contain
	}
	kinds := []kind{
		{"SHOW MEASUREMENTS", "", "pubm", "secretm"},
		{"SHOW TAG KEYS", "", "pk", "hiddenkey"},
		{"SHOW TAG KEYS", " FROM pubm", "pk", "\x00never"}, // db2 has no measurement pubm
		{"SHOW TAG VALUES", " WITH KEY =~ /.*/", "pv", "topsecret1"}, // no name of db2 in the statement: errors echo it
		{"SHOW FIELD KEYS", "", "pf", "hiddenfield"},
		{"SHOW SERIES", "", "pubm,pk=pv", "topsecret1"},
		{"SHOW RETENTION POLICIES", "", "autogen", "\x00never"},
	}
	needles := []string{"secretm", "hiddenkey", "topsecret", "hiddenfield"}
	rapid.Check(t, func(rt *rapid.T) {
		k := rapid.SampledFrom(kinds).Draw(rt, "statement")
		on := rapid.SampledFrom([]string{"", "db0", "db2"}).Draw(rt, "on")
		dbp := rapid.SampledFrom([]string{"", "db0", "db2"}).Draw(rt, "dbParam")
		method := rapid.SampledFrom([]string{"GET", "POST"}).Draw(rt, "method")
		q := k.pre
		if on != "" {
			q += " ON " + on
		}
		q += k.post
		named := on
		if named == "" {
			named = dbp
		}
		code, body := vC16Query(addr, "u1", "u1pw", dbp, q, method)
		for _, n := range needles {
			if strings.Contains(body, n) {
				rt.Fatalf("%s %q with db=%q as a user with READ on db0 only returned content of db2 (%q): %d %s", verifkit.Sig("statement-runs-against-ungranted-database"), q, dbp, n, code, strings.TrimSpace(body))
			}
		}
		outcome := "refused-or-error"
		switch named {
		case "db0":
			if code != http.StatusOK || vC16HasError(body) || !strings.Contains(body, k.pub) {
				rt.Fatalf("%s %q with db=%q names db0, on which the user holds READ, but the answer is %d %s (expected db0's %q)", verifkit.Sig("authorized-statement-refused-or-answered-from-another-database"), q, dbp, code, strings.TrimSpace(body), k.pub)
			}
			outcome = "answered-from-db0"
		case "db2":
			if code == http.StatusOK && !vC16HasError(body) {
				rt.Fatalf("%s %q with db=%q names db2, on which the user holds nothing, and was not refused: %d %s", verifkit.Sig("query-runs-without-read-grant"), q, dbp, code, strings.TrimSpace(body))
			}
		}
		// control as administrator: the statement reads the database it names
		if named != "" {
			_, ab := vC16Query(addr, "adm", "admpw", dbp, q, method)
			want := k.pub
			if named == "db2" {
				want = k.secret
			}
			if !strings.HasPrefix(want, "\x00") && !strings.Contains(ab, want) {
				rt.Fatalf("%s as administrator %q with db=%q does not return the content of %s (%q): %s", verifkit.Sig("statement-does-not-read-the-database-it-names"), q, dbp, named, want, strings.TrimSpace(ab))
			}
		}
		st.Case(on != "" && dbp != "" && on != dbp, fmt.Sprint(k.pre, k.post, "|", on, "|", dbp, "|", method), "on:"+on, "db:"+dbp, "outcome:"+outcome)
		if st.WantSample() {
			st.Sample(map[string]interface{}{"q": q, "db_param": dbp, "method": method, "as": "u1 (READ on db0 only)", "status": code, "outcome": outcome})
		} else {
			st.Sample(nil)
		}
	})
}
