//go:build verif

package run_test

// C05 - storage reads whose answer from a remote owner spans many response frames of different sizes. The small
// data sets of TestVerifC05DistributedQuery fit into one frame per node; a Flux read of a real series does not.

import (
	"fmt"
	"os"
	"strings"
	"testing"
	"time"

	"github.com/influxdata/influxdb/models"
	"pgregory.net/rapid"
	"verifkit"
)

func TestVerifC05LargeStorageRead(t *testing.T) {
	stats := verifkit.For("C05", "TestVerifC05LargeStorageRead",
		"bed K, no faults: a fresh RF=1 database with one hourly shard group (one shard per node) is loaded with 1..5 series of 500..40000 float points each (series sizes differ, so that the frames a remote owner streams back differ in size and the last one is short); storage ReadFilter, ReadGroup without grouping and ReadGroup by tag are run on every node. Oracle: every stored value is returned exactly once (row count and the rendered rows equal what was written), identically on every node. non-trivial = some series has more than 5000 points; distinct = (series sizes)")
	defer stats.Flush()
	cl, err := vkSharedCluster()
	if err != nil {
		vkSetupFailed(t, "cluster: %v", err)
	}
	rapid.Check(t, func(rt *rapid.T) {
		vkCaseSeq++
		db := fmt.Sprintf("c05big_%d_%d", os.Getpid(), vkCaseSeq)
		if err := cl.createDB(db, 1, 24*time.Hour); err != nil {
			vkSetupFailed(rt, "createDB: %v", err)
		}
		defer cl.dropDB(db)
		for _, nd := range cl.nodes {
			nd.proxy.setFault(vkFault{Kind: "up"})
			nd.proxy.takeLog()
		}
		base := int64(1600000000) - int64(1600000000)%86400
		ns := rapid.IntRange(1, 5).Draw(rt, "series")
		var sizes []int
		total := 0
		for s := 0; s < ns; s++ {
			n := rapid.SampledFrom([]int{500, 999, 1000, 1001, 3000, 7000, 16000, 40000}).Draw(rt, "points")
			sizes = append(sizes, n)
			total += n
			var pts []models.Point
			for i := 0; i < n; i++ {
				v := float64(s*100000 + i)
				pts = append(pts, models.MustNewPoint("m", models.NewTags(map[string]string{"h": fmt.Sprintf("s%d", s)}), models.Fields{"v": v}, time.Unix(base+int64(i), 0)))
				if len(pts) == 5000 || i == n-1 {
					if err := cl.writeAllUp(s%3, db, pts); err != nil {
						vkSetupFailed(rt, "write: %v", err)
					}
					pts = pts[:0]
				}
			}
		}
		if err := cl.syncMeta(); err != nil {
			vkSetupFailed(rt, "%v", err)
		}
		lo, hi := (base-3600)*1e9, (base+86400)*1e9
		var first, firstWhere string
		for _, mode := range []string{"", " none", " by"} {
			for ni := range cl.nodes {
				text := fmt.Sprintf("storage %d %d%s", lo, hi, mode)
				r := vkExec(cl, ni, db, text)
				for try := 0; try < 3 && vkIsTimeout(r.Err); try++ {
					time.Sleep(500 * time.Millisecond)
					r = vkExec(cl, ni, db, text)
				}
				if r.Err != "" {
					rt.Fatalf("%s fault-free storage read%s of %d points in series of %v on node %d failed: %s", verifkit.Sig("fault-free-query-error"), mode, total, sizes, ni, r.Err)
				}
				if msg := vkWantRows(r, total); msg != "" {
					rt.Fatalf("%s fault-free storage read%s on node %d (series of %v points, one shard per node): %s", verifkit.Sig("fault-free-result-wrong"), mode, ni, sizes, msg)
				}
				// rendered rows: tags, timestamp, value - identical whichever node coordinates and whichever call reads
				gs := r.String()
				if firstWhere == "" {
					first, firstWhere = gs, fmt.Sprintf("node %d%s", ni, mode)
				} else if gs != first {
					a, b := strings.Split(first, "\n"), strings.Split(gs, "\n")
					d := ""
					for i := 0; i < len(a) && i < len(b); i++ {
						if a[i] != b[i] {
							d = fmt.Sprintf("first difference at row %d: %q vs %q", i, a[i], b[i])
							break
						}
					}
					rt.Fatalf("%s storage read%s on node %d returns other rows than %s (series of %v points): %s", verifkit.Sig("fault-free-result-wrong"), mode, ni, firstWhere, sizes, d)
				}
			}
		}
		big := false
		for _, n := range sizes {
			if n > 5000 {
				big = true
			}
		}
		stats.Case(big, fmt.Sprint(sizes), fmt.Sprintf("series:%d", ns), fmt.Sprintf("big:%v", big))
		if stats.WantSample() {
			stats.Sample(map[string]interface{}{"series_sizes": sizes, "rows": total})
		} else {
			stats.Sample(nil)
		}
	})
}
