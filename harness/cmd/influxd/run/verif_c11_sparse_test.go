//go:build verif

package run_test

// C11 - statements with several output columns over SPARSE data: points that carry only some of the fields.
// A row then holds NULL in the columns the point does not have; NULLs travel between nodes as explicit markers,
// so this is where "the result is identical whether the data sits on one node or is spread over several"
// is decided for multi-column raw selects, selectors with extra columns and tag columns.

import (
	"fmt"
	"os"
	"sort"
	"strings"
	"testing"
	"time"

	"github.com/influxdata/influxdb/models"
	"github.com/influxdata/influxdb/query"
	"github.com/influxdata/influxql"
	"pgregory.net/rapid"
	"verifkit"
)

type vqsPoint struct {
	Host   string
	TS     int64 // seconds
	Fields map[string]interface{}
}

// vqsRun executes a statement and renders every row as "[ts c1 c2 ...]" under its series label.
func vqsRun(cl *vkCluster, node int, db, text string) (map[string][]string, []string, string) {
	pq, err := influxql.ParseQuery(text)
	if err != nil {
		return nil, nil, "parse: " + err.Error()
	}
	closing := make(chan struct{})
	defer close(closing)
	ch := cl.nodes[node].srv.QueryExecutor.ExecuteQuery(pq, query.ExecutionOptions{Database: db}, closing)
	out := map[string][]string{}
	var cols []string
	errs := ""
	for r := range ch {
		if r.Err != nil {
			errs = r.Err.Error()
			continue
		}
		for _, row := range r.Series {
			var tags []string
			for k, v := range row.Tags {
				tags = append(tags, k+"="+v)
			}
			sort.Strings(tags)
			label := "{" + strings.Join(tags, ",") + "}"
			cols = row.Columns
			for _, vals := range row.Values {
				var ts int64
				switch t := vals[0].(type) {
				case time.Time:
					ts = t.UnixNano()
				case int64:
					ts = t
				default:
					return nil, nil, fmt.Sprintf("unexpected time column type %T", vals[0])
				}
				cells := []string{fmt.Sprint(ts)}
				for _, v := range vals[1:] {
					cells = append(cells, vqFmt(v))
				}
				out[label] = append(out[label], "["+strings.Join(cells, " ")+"]")
			}
		}
	}
	if errs != "" {
		return nil, nil, errs
	}
	return out, cols, ""
}

func vqsString(c map[string][]string) string {
	var keys []string
	for k := range c {
		keys = append(keys, k)
	}
	sort.Strings(keys)
	var b strings.Builder
	for _, k := range keys {
		fmt.Fprintf(&b, "%s: %s\n", k, strings.Join(c[k], " "))
	}
	return b.String()
}

type vqsStmt struct {
	Cols     []string // field names and possibly the tag "host"
	Selector string   // "" raw; first last max min: applied to Cols[0]
	HasRange bool
	A, B     int64
	HostEq   string
	ByHost   bool
	Desc     bool
	Limit    int
}

func (s vqsStmt) text(db, rp, m string) string {
	cols := append([]string{}, s.Cols...)
	if s.Selector != "" {
		cols[0] = s.Selector + "(" + cols[0] + ")"
	}
	q := fmt.Sprintf("SELECT %s FROM %s.%s.%s", strings.Join(cols, ", "), db, rp, m)
	var conds []string
	if s.HasRange {
		conds = append(conds, fmt.Sprintf("time >= %ds AND time < %ds", s.A, s.B))
	}
	if s.HostEq != "" {
		conds = append(conds, "host = '"+s.HostEq+"'")
	}
	if len(conds) > 0 {
		q += " WHERE " + strings.Join(conds, " AND ")
	}
	if s.ByHost {
		q += " GROUP BY host"
	}
	if s.Desc {
		q += " ORDER BY time DESC"
	}
	if s.Limit > 0 {
		q += fmt.Sprintf(" LIMIT %d", s.Limit)
	}
	return q
}

// vqsReference evaluates the statement over the merged cells (last write wins per series, timestamp and field).
func vqsReference(s vqsStmt, cells map[string]map[int64]map[string]interface{}) map[string][]string {
	const sec = int64(time.Second)
	type rec struct {
		host string
		ts   int64
		f    map[string]interface{}
	}
	groups := map[string][]rec{}
	for host, byTS := range cells {
		if s.HostEq != "" && host != s.HostEq {
			continue
		}
		for ts, f := range byTS {
			if s.HasRange && (ts < s.A || ts >= s.B) {
				continue
			}
			label := "{}"
			if s.ByHost {
				label = "{host=" + host + "}"
			}
			groups[label] = append(groups[label], rec{host, ts, f})
		}
	}
	out := map[string][]string{}
	render := func(r rec, ts int64) string {
		c := []string{fmt.Sprint(ts * sec)}
		for _, col := range s.Cols {
			if col == "host" {
				c = append(c, vqFmt(r.host))
			} else {
				c = append(c, vqFmt(r.f[col]))
			}
		}
		return "[" + strings.Join(c, " ") + "]"
	}
	for label, rs := range groups {
		sort.Slice(rs, func(a, b int) bool { return rs[a].ts < rs[b].ts })
		if s.Selector != "" {
			var best *rec
			for i := range rs {
				v, ok := rs[i].f[s.Cols[0]]
				if !ok {
					continue
				}
				if best == nil {
					best = &rs[i]
					continue
				}
				bv := best.f[s.Cols[0]]
				switch s.Selector {
				case "last":
					best = &rs[i]
				case "max":
					if vqsLess(bv, v) {
						best = &rs[i]
					}
				case "min":
					if vqsLess(v, bv) {
						best = &rs[i]
					}
				}
			}
			if best != nil {
				out[label] = []string{render(*best, 0)} // the time cell of a selector row is dropped before comparing
			}
			continue
		}
		var rows []string
		for _, r := range rs {
			any := false
			for _, col := range s.Cols {
				if _, ok := r.f[col]; ok && col != "host" {
					any = true
				}
			}
			if any {
				rows = append(rows, render(r, r.ts))
			}
		}
		if s.Desc {
			for i, j := 0, len(rows)-1; i < j; i, j = i+1, j-1 {
				rows[i], rows[j] = rows[j], rows[i]
			}
		}
		if s.Limit > 0 && len(rows) > s.Limit {
			rows = rows[:s.Limit]
		}
		if len(rows) > 0 {
			out[label] = rows
		}
	}
	return out
}

func vqsLess(a, b interface{}) bool {
	switch x := a.(type) {
	case float64:
		return x < b.(float64)
	case int64:
		return x < b.(int64)
	}
	return false
}

// vqsDropSelectorTime blanks the time cell of selector rows (the time a selector row carries is compared
// nowhere in this check: the main C11 test does the same).
func vqsDropSelectorTime(c map[string][]string) {
	for k, rows := range c {
		for i, r := range rows {
			if sp := strings.IndexByte(r, ' '); sp > 0 {
				rows[i] = "[T" + r[sp:]
			}
		}
		c[k] = rows
	}
}

func TestVerifC11SparseColumns(t *testing.T) {
	stats := verifkit.For("C11", "TestVerifC11SparseColumns",
		"bed K: 1..3 hosts, up to 40 points at globally unique second timestamps over 6 hours, each carrying a drawn non-empty subset of the fields f (float, distinct values) i (integer, distinct values) s (string) b (boolean), plus later overwrites that carry another subset (fields are merged per timestamp); written into the layouts l1 (one shard, RF 3: every node reads locally), l3 (hourly shards, RF 1, partly snapshotted: most shards are remote) and l4 (daily shards, RF 2). Statements: SELECT of 2..4 columns (fields, optionally the tag host) raw, or with first/last/max/min on the first column, with optional time range, host filter, GROUP BY host, ORDER BY time DESC, LIMIT; run on 3 layouts x 3 nodes. Oracle: all 9 results identical and equal to a reference evaluation (a raw row exists where at least one selected field has a value, missing cells are NULL; a selector row carries the other columns of the selected point). non-trivial = some returned row has a NULL cell; distinct = statement shape")
	defer stats.Flush()
	cl, err := vkSharedCluster()
	if err != nil {
		vkSetupFailed(t, "cluster: %v", err)
	}
	db := fmt.Sprintf("c11s_%d", os.Getpid())
	if err := vqEnsureDB(cl, db); err != nil {
		vkSetupFailed(t, "create db: %v", err)
	}
	layouts := []string{"l1", "l3", "l4"}
	ncase := 0
	rapid.Check(t, func(rt *rapid.T) {
		ncase++
		m := fmt.Sprintf("s%d", ncase)
		hosts := []string{"a", "b", "c"}[:rapid.IntRange(1, 3).Draw(rt, "nhosts")]
		np := rapid.IntRange(2, 40).Draw(rt, "np")
		span := int64(6 * 3600)
		used := map[int64]bool{}
		drawFields := func(k int) map[string]interface{} {
			f := map[string]interface{}{}
			mask := rapid.IntRange(1, 15).Draw(rt, "fieldMask")
			if mask&1 != 0 {
				f["f"] = float64(k*8+rapid.IntRange(0, 7).Draw(rt, "f")) / 4 // distinct per k
			}
			if mask&2 != 0 {
				f["i"] = int64(k*8 + rapid.IntRange(0, 7).Draw(rt, "i"))
			}
			if mask&4 != 0 {
				f["s"] = rapid.SampledFrom([]string{"", "a", "b b"}).Draw(rt, "s")
			}
			if mask&8 != 0 {
				f["b"] = rapid.Bool().Draw(rt, "b")
			}
			return f
		}
		var batch1, batch2 []vqsPoint
		for k := 0; k < np; k++ {
			ts := rapid.Int64Range(0, span-1).Draw(rt, "ts")
			for used[ts] {
				ts = (ts + 1) % span
			}
			used[ts] = true
			batch1 = append(batch1, vqsPoint{Host: rapid.SampledFrom(hosts).Draw(rt, "host"), TS: ts, Fields: drawFields(k)})
		}
		for k := rapid.IntRange(0, 4).Draw(rt, "noverwrites"); k > 0; k-- {
			o := batch1[rapid.IntRange(0, len(batch1)-1).Draw(rt, "ow")]
			batch2 = append(batch2, vqsPoint{Host: o.Host, TS: o.TS, Fields: drawFields(np + k)})
		}
		cells := map[string]map[int64]map[string]interface{}{}
		for _, p := range append(append([]vqsPoint{}, batch1...), batch2...) {
			if cells[p.Host] == nil {
				cells[p.Host] = map[int64]map[string]interface{}{}
			}
			if cells[p.Host][p.TS] == nil {
				cells[p.Host][p.TS] = map[string]interface{}{}
			}
			for f, v := range p.Fields {
				cells[p.Host][p.TS][f] = v
			}
		}
		mk := func(ps []vqsPoint) []models.Point {
			var out []models.Point
			for _, p := range ps {
				out = append(out, models.MustNewPoint(m, models.NewTags(map[string]string{"host": p.Host}), models.Fields(p.Fields), time.Unix(p.TS, 0)))
			}
			return out
		}
		for _, l := range layouts {
			w := rapid.IntRange(0, 2).Draw(rt, "writer")
			if err := cl.writeRP(w, db, l, mk(batch1)); err != nil {
				vkSetupFailed(rt, "write %s: %v", l, err)
			}
			if l == "l3" {
				vqSnapshot(cl, db, l, true, false)
			}
			if len(batch2) > 0 {
				if err := cl.writeRP(w, db, l, mk(batch2)); err != nil {
					vkSetupFailed(rt, "write overwrites %s: %v", l, err)
				}
			}
		}
		if err := cl.syncMeta(); err != nil {
			vkSetupFailed(rt, "%v", err)
		}
		nst := rapid.IntRange(2, 5).Draw(rt, "nstmts")
		for si := 0; si < nst; si++ {
			var s vqsStmt
			pool := []string{"f", "i", "s", "b"}
			perm := rapid.Permutation(pool).Draw(rt, "cols")
			s.Cols = perm[:rapid.IntRange(2, 4).Draw(rt, "ncols")]
			if rapid.IntRange(0, 2).Draw(rt, "selector") == 0 {
				s.Selector = rapid.SampledFrom([]string{"first", "last", "max", "min"}).Draw(rt, "sel")
				if s.Selector == "max" || s.Selector == "min" {
					// numeric first column
					if s.Cols[0] != "f" && s.Cols[0] != "i" {
						for j, c := range s.Cols {
							if c == "f" || c == "i" {
								s.Cols[0], s.Cols[j] = s.Cols[j], s.Cols[0]
								break
							}
						}
					}
					if s.Cols[0] != "f" && s.Cols[0] != "i" {
						s.Cols[0] = "f"
					}
					seen := map[string]bool{}
					var dd []string
					for _, c := range s.Cols {
						if !seen[c] {
							seen[c] = true
							dd = append(dd, c)
						}
					}
					s.Cols = dd
					if len(s.Cols) < 2 {
						s.Cols = append(s.Cols, "s")
					}
				}
			}
			s.ByHost = rapid.IntRange(0, 2).Draw(rt, "byHost") == 0
			if !s.ByHost && rapid.IntRange(0, 2).Draw(rt, "hostColumn") == 0 {
				s.Cols = append(s.Cols, "host")
			}
			if rapid.Bool().Draw(rt, "range") {
				s.HasRange = true
				s.A = rapid.Int64Range(0, span-1).Draw(rt, "a")
				s.B = rapid.Int64Range(s.A+1, span+10).Draw(rt, "b")
			}
			if rapid.IntRange(0, 3).Draw(rt, "hostEq") == 0 {
				s.HostEq = rapid.SampledFrom(hosts).Draw(rt, "hostEqV")
			}
			if s.Selector == "" {
				s.Desc = rapid.Bool().Draw(rt, "desc")
				if rapid.IntRange(0, 2).Draw(rt, "limit") == 0 {
					s.Limit = rapid.IntRange(1, 6).Draw(rt, "limitN")
				}
			}
			want := vqsReference(s, cells)
			if s.Selector != "" {
				vqsDropSelectorTime(want)
			}
			var first, firstWhere string
			for _, l := range layouts {
				for ni := range cl.nodes {
					text := s.text(db, l, m)
					got, _, errs := vqsRun(cl, ni, db, text)
					for try := 0; try < 3 && vkIsTimeout(errs); try++ {
						time.Sleep(500 * time.Millisecond)
						got, _, errs = vqsRun(cl, ni, db, text)
					}
					if errs != "" {
						rt.Fatalf("%s %q on node %d failed: %s", verifkit.Sig("query-error"), text, ni, errs)
					}
					if s.Selector != "" {
						vqsDropSelectorTime(got)
					}
					gs := vqsString(got)
					if firstWhere == "" {
						first, firstWhere = gs, fmt.Sprintf("%s/node%d", l, ni)
					} else if gs != first {
						rt.Fatalf("%s %q gives different results on %s and %s/node%d\n--- %s\n%s--- %s/node%d\n%s--- reference\n%s", verifkit.Sig("result-depends-on-layout"), s.text(db, "<rp>", m), firstWhere, l, ni, firstWhere, first, l, ni, gs, vqsString(want))
					}
				}
			}
			if first != vqsString(want) {
				rt.Fatalf("%s %q: all layouts agree but differ from the reference evaluation\n--- cluster\n%s--- reference\n%s--- batch1 %v\n--- batch2 %v", verifkit.Sig("result-differs-from-reference"), s.text(db, "<rp>", m), first, vqsString(want), batch1, batch2)
			}
			hasNull := strings.Contains(first, " null")
			shape := fmt.Sprintf("cols=%v sel=%s range=%v host=%v byHost=%v desc=%v lim=%v", s.Cols, s.Selector, s.HasRange, s.HostEq != "", s.ByHost, s.Desc, s.Limit > 0)
			stats.Case(hasNull, shape, "selector:"+s.Selector, fmt.Sprintf("nullCell:%v", hasNull), fmt.Sprintf("byHost:%v", s.ByHost), fmt.Sprintf("ncols:%d", len(s.Cols)))
			if stats.WantSample() {
				stats.Sample(map[string]interface{}{"statement": s.text(db, "<rp>", m), "points": len(batch1) + len(batch2), "result": strings.Split(first, "\n")})
			} else {
				stats.Sample(nil)
			}
		}
	})
}
