//go:build verif

package run_test

// C11 - query results depend only on the data and the statement. DESIGN.md section 4, C11.
//
// The same generated data set is loaded into four retention policies of one database that differ
// only in physical layout (replication, shard duration, what is snapshotted / compacted / still in
// the cache, overwrites arriving after a snapshot). A generated statement is run against every
// layout from every node: (a) all results must be identical, (b) they must equal a reference
// evaluation written from the InfluxQL documentation over the deduplicated raw points.

import (
	"strconv"
	"fmt"
	"math"
	"os"
	"sort"
	"strings"
	"testing"
	"time"

	"github.com/influxdata/influxdb/models"
	"github.com/influxdata/influxdb/query"
	"github.com/influxdata/influxdb/services/meta"
	"github.com/influxdata/influxdb/tsdb/engine/tsm1"
	"github.com/influxdata/influxql"
	"pgregory.net/rapid"
	"verifkit"
)

type vqLayout struct {
	Name string
	RF   int
	SGD  time.Duration
}

var vqLayouts = []vqLayout{
	{"l1", 3, 520 * 7 * 24 * time.Hour}, // one huge shard, everything in the cache
	{"l2", 1, 7 * 24 * time.Hour},       // weekly shards, snapshotted
	{"l3", 1, time.Hour},                // hourly shards, partially snapshotted, compaction scheduled
	{"l4", 2, 24 * time.Hour},           // daily shards, overwrites arrive after a snapshot
}

type vqPoint struct {
	Host, Region string
	TS           int64 // seconds
	F            float64
	I            int64
	S            string
	B            bool
}

// vqStmt is a statement of the covered grammar.
type vqStmt struct {
	Field     string // f i s b
	Call      string // "" = raw
	HasRange  bool
	A, B      int64 // seconds: time >= A AND time < B
	BIncl     bool  // the upper bound is written as time <= (B-1)s (the same set of whole-second timestamps)
	HostEq    string
	GroupTime int64 // seconds, 0 = none
	GroupOff  int64 // seconds
	GroupTags []string
	Star      bool
	Fill      string // "" none null num previous linear
	FillNum   int
	Desc      bool
	Limit     int
	Offset    int
	Excluded  string // known finding avoided by construction (counted by the caller)
}

func (s vqStmt) text(db, rp, m string) string {
	var b strings.Builder
	expr := s.Field
	if s.Call != "" {
		expr = s.Call + "(" + s.Field + ")"
	}
	fmt.Fprintf(&b, "SELECT %s FROM %s.%s.%s", expr, db, rp, m)
	var conds []string
	if s.HasRange {
		if s.BIncl {
			conds = append(conds, fmt.Sprintf("time >= %ds AND time <= %ds", s.A, s.B-1))
		} else {
			conds = append(conds, fmt.Sprintf("time >= %ds AND time < %ds", s.A, s.B))
		}
	}
	if s.HostEq != "" {
		conds = append(conds, fmt.Sprintf("host = '%s'", s.HostEq))
	}
	if len(conds) > 0 {
		b.WriteString(" WHERE " + strings.Join(conds, " AND "))
	}
	var gb []string
	if s.GroupTime > 0 {
		if s.GroupOff != 0 {
			gb = append(gb, fmt.Sprintf("time(%ds,%ds)", s.GroupTime, s.GroupOff))
		} else {
			gb = append(gb, fmt.Sprintf("time(%ds)", s.GroupTime))
		}
	}
	if s.Star {
		gb = append(gb, "*")
	} else {
		gb = append(gb, s.GroupTags...)
	}
	if len(gb) > 0 {
		b.WriteString(" GROUP BY " + strings.Join(gb, ", "))
	}
	switch s.Fill {
	case "none", "null", "previous", "linear":
		b.WriteString(" fill(" + s.Fill + ")")
	case "num":
		fmt.Fprintf(&b, " fill(%d)", s.FillNum)
	}
	if s.Desc {
		b.WriteString(" ORDER BY time DESC")
	}
	if s.Limit > 0 {
		fmt.Fprintf(&b, " LIMIT %d", s.Limit)
	}
	if s.Offset > 0 {
		fmt.Fprintf(&b, " OFFSET %d", s.Offset)
	}
	return b.String()
}

// ---- canonical results -----------------------------------------------------------------

type vqRow struct {
	T int64 // ns
	V string
}

// vqCanon: series label -> rows. Rows keep the result order except that rows with equal
// timestamps are ordered by value (InfluxQL orders by time only).
type vqCanon map[string][]vqRow

func (c vqCanon) String() string {
	var keys []string
	for k := range c {
		keys = append(keys, k)
	}
	sort.Strings(keys)
	var b strings.Builder
	for _, k := range keys {
		fmt.Fprintf(&b, "%s:", k)
		for _, r := range c[k] {
			fmt.Fprintf(&b, " [%d %s]", r.T, r.V)
		}
		b.WriteString("\n")
	}
	return b.String()
}

func vqSortTies(rows []vqRow) {
	i := 0
	for i < len(rows) {
		j := i
		for j < len(rows) && rows[j].T == rows[i].T {
			j++
		}
		sort.Slice(rows[i:j], func(a, b int) bool { return rows[i+a].V < rows[i+b].V })
		i = j
	}
}

func vqFmt(v interface{}) string {
	switch x := v.(type) {
	case nil:
		return "null"
	case float64:
		if x == math.Trunc(x) && math.Abs(x) < 1e15 {
			return fmt.Sprintf("%d", int64(x))
		}
		if math.Abs(x) < 1e-9 {
			return "0" // rounding noise around a mean that is exactly zero (absolute tolerance of the oracle)
		}
		// 12 significant digits: a mean over several shards is combined from partial means and may differ
		// from the single-shard mean in the last units of precision (stated tolerance of the oracle)
		return strconv.FormatFloat(x, 'g', 12, 64)
	case int64:
		return fmt.Sprintf("%d", x)
	case uint64:
		return fmt.Sprintf("%d", x)
	case string:
		return fmt.Sprintf("%q", x)
	case bool:
		return fmt.Sprintf("%v", x)
	default:
		return fmt.Sprintf("%v", x)
	}
}

// vqRun executes the statement and returns the canonical result or an error string.
func vqRun(cl *vkCluster, node int, db, text string) (vqCanon, string) {
	pq, err := influxql.ParseQuery(text)
	if err != nil {
		return nil, "parse: " + err.Error()
	}
	closing := make(chan struct{})
	defer close(closing)
	ch := cl.nodes[node].srv.QueryExecutor.ExecuteQuery(pq, query.ExecutionOptions{Database: db}, closing)
	out := vqCanon{}
	errs := ""
	for r := range ch {
		if r.Err != nil {
			errs = r.Err.Error()
			continue
		}
		for _, row := range r.Series {
			var tags []string
			for k, v := range row.Tags {
				tags = append(tags, k+"="+v)
			}
			sort.Strings(tags)
			label := "{" + strings.Join(tags, ",") + "}"
			for _, vals := range row.Values {
				var ts int64
				switch t := vals[0].(type) {
				case time.Time:
					ts = t.UnixNano()
				case int64:
					ts = t
				default:
					return nil, fmt.Sprintf("unexpected time column type %T", vals[0])
				}
				out[label] = append(out[label], vqRow{ts, vqFmt(vals[1])})
			}
		}
	}
	if errs != "" {
		return nil, errs
	}
	for k := range out {
		vqSortTies(out[k])
	}
	return out, ""
}

// ---- reference evaluator ----------------------------------------------------------------

type vqVal struct {
	T int64 // ns
	F float64
	I int64
	S string
	B bool
}

func vqFloorDiv(a, b int64) int64 {
	q := a / b
	if (a%b != 0) && ((a < 0) != (b < 0)) {
		q--
	}
	return q
}

// vqReference evaluates the statement over the deduplicated points.
func vqReference(s vqStmt, pts []vqPoint) vqCanon {
	const sec = int64(time.Second)
	// last write wins per (series, ts)
	type sk struct {
		h, r string
		ts   int64
	}
	last := map[sk]vqPoint{}
	var order []sk
	for _, p := range pts {
		k := sk{p.Host, p.Region, p.TS}
		if _, ok := last[k]; !ok {
			order = append(order, k)
		}
		last[k] = p
	}
	// group
	groups := map[string][]vqVal{}
	for _, k := range order {
		p := last[k]
		if s.HostEq != "" && p.Host != s.HostEq {
			continue
		}
		if s.HasRange && (p.TS < s.A || p.TS >= s.B) {
			continue
		}
		var tags []string
		gt := s.GroupTags
		if s.Star {
			gt = []string{"host", "region"}
		}
		for _, t := range gt {
			if t == "host" {
				tags = append(tags, "host="+p.Host)
			} else {
				tags = append(tags, "region="+p.Region)
			}
		}
		sort.Strings(tags)
		label := "{" + strings.Join(tags, ",") + "}"
		groups[label] = append(groups[label], vqVal{T: p.TS * sec, F: p.F, I: p.I, S: p.S, B: p.B})
	}
	out := vqCanon{}
	isInt := s.Field == "i"
	fieldStr := func(v vqVal) string {
		switch s.Field {
		case "f":
			return vqFmt(v.F)
		case "i":
			return vqFmt(v.I)
		case "s":
			return vqFmt(v.S)
		default:
			return vqFmt(v.B)
		}
	}
	num := func(v vqVal) float64 {
		if isInt {
			return float64(v.I)
		}
		return v.F
	}
	// agg returns the value string and the selector time of a non-empty, time-sorted slice
	agg := func(vs []vqVal) (string, int64, bool) {
		switch s.Call {
		case "count":
			return vqFmt(int64(len(vs))), 0, false
		case "sum":
			if isInt {
				var t int64
				for _, v := range vs {
					t += v.I
				}
				return vqFmt(t), 0, false
			}
			var t float64
			for _, v := range vs {
				t += v.F
			}
			return vqFmt(t), 0, false
		case "mean":
			var t float64
			for _, v := range vs {
				t += num(v)
			}
			return vqFmt(t / float64(len(vs))), 0, false
		case "min", "max":
			best := vs[0]
			for _, v := range vs[1:] {
				if (s.Call == "min" && num(v) < num(best)) || (s.Call == "max" && num(v) > num(best)) {
					best = v
				}
			}
			return fieldStr(best), best.T, true
		case "first", "last":
			// several series of one output group may hold a point at the same extreme timestamp: the reducers
			// (query.*FirstReduce / *LastReduce) then keep the LARGER value, which is what makes the answer
			// independent of the order in which series and shards are merged
			best := vs[0]
			for _, v := range vs[1:] {
				switch {
				case s.Call == "first" && v.T < best.T, s.Call == "last" && v.T > best.T:
					best = v
				case v.T == best.T && num(v) > num(best):
					best = v
				}
			}
			return fieldStr(best), best.T, true
		case "spread":
			mn, mx := vs[0], vs[0]
			for _, v := range vs[1:] {
				if num(v) < num(mn) {
					mn = v
				}
				if num(v) > num(mx) {
					mx = v
				}
			}
			if isInt {
				return vqFmt(mx.I - mn.I), 0, false
			}
			return vqFmt(mx.F - mn.F), 0, false
		case "median":
			x := make([]float64, len(vs))
			for i, v := range vs {
				x[i] = num(v)
			}
			sort.Float64s(x)
			if len(x)%2 == 1 {
				return vqFmt(x[len(x)/2]), 0, false
			}
			return vqFmt((x[len(x)/2-1] + x[len(x)/2]) * 0.5), 0, false
		}
		panic("call " + s.Call)
	}
	for label, vs := range groups {
		sort.SliceStable(vs, func(i, j int) bool { return vs[i].T < vs[j].T })
		var rows []vqRow
		switch {
		case s.Call == "":
			for _, v := range vs {
				rows = append(rows, vqRow{v.T, fieldStr(v)})
			}
		case s.GroupTime == 0:
			val, st, sel := agg(vs)
			t := int64(0)
			if s.HasRange {
				t = s.A * sec
			}
			if sel {
				t = st
			}
			rows = append(rows, vqRow{t, val})
		default:
			d, off := s.GroupTime*sec, s.GroupOff*sec
			win := func(t int64) int64 { return vqFloorDiv(t-off, d)*d + off }
			byWin := map[int64][]vqVal{}
			for _, v := range vs {
				w := win(v.T)
				byWin[w] = append(byWin[w], v)
			}
			prev := "null"
			for w := win(s.A * sec); w <= win(s.B*sec-1); w += d {
				if in := byWin[w]; len(in) > 0 {
					val, _, _ := agg(in)
					rows = append(rows, vqRow{w, val})
					prev = val
					continue
				}
				switch s.Fill {
				case "none":
				case "num":
					rows = append(rows, vqRow{w, vqFmt(int64(s.FillNum))})
				case "previous":
					rows = append(rows, vqRow{w, prev})
				default: // null
					if s.Call == "count" {
						rows = append(rows, vqRow{w, "0"})
					} else {
						rows = append(rows, vqRow{w, "null"})
					}
				}
			}
		}
		if s.Desc {
			for i, j := 0, len(rows)-1; i < j; i, j = i+1, j-1 {
				rows[i], rows[j] = rows[j], rows[i]
			}
		}
		if s.Offset > 0 {
			if s.Offset >= len(rows) {
				rows = nil
			} else {
				rows = rows[s.Offset:]
			}
		}
		if s.Limit > 0 && len(rows) > s.Limit {
			rows = rows[:s.Limit]
		}
		if len(rows) > 0 {
			vqSortTies(rows)
			out[label] = rows
		}
	}
	return out
}

// ---- test ----------------------------------------------------------------------------------

var vqDBReady = map[string]bool{}

func vqEnsureDB(cl *vkCluster, db string) error {
	if vqDBReady[db] {
		return nil
	}
	if _, err := cl.nodes[0].srv.MetaClient.CreateDatabase(db); err != nil {
		return err
	}
	for _, l := range vqLayouts {
		rf, sgd, dur := l.RF, l.SGD, time.Duration(0)
		if _, err := cl.nodes[0].srv.MetaClient.CreateRetentionPolicy(db, &meta.RetentionPolicySpec{Name: l.Name, ReplicaN: &rf, ShardGroupDuration: sgd, Duration: &dur}, false); err != nil {
			return err
		}
	}
	if err := cl.waitAll(func(mc *meta.Client) bool {
		rp, _ := mc.RetentionPolicy(db, "l4")
		return rp != nil
	}); err != nil {
		return err
	}
	vqDBReady[db] = true
	return nil
}

// vqSnapshot snapshots the cache of every local shard of db.rp on every node (optionally only even shard ids).
func vqSnapshot(cl *vkCluster, db, rp string, onlyEven bool, compact bool) {
	for _, nd := range cl.nodes {
		for _, id := range nd.srv.TSDBStore.ShardIDs() {
			sh := nd.srv.TSDBStore.Shard(id)
			if sh == nil || sh.Database() != db || sh.RetentionPolicy() != rp {
				continue
			}
			if onlyEven && id%2 == 1 {
				continue
			}
			e, err := sh.Engine()
			if err != nil {
				continue
			}
			if te, ok := e.(*tsm1.Engine); ok {
				te.WriteSnapshot()
				if compact {
					te.ScheduleFullCompaction()
				}
			}
		}
	}
}

func vqModelPoints(m string, pts []vqPoint) []models.Point {
	var out []models.Point
	for _, p := range pts {
		out = append(out, models.MustNewPoint(m, models.NewTags(map[string]string{"host": p.Host, "region": p.Region}),
			models.Fields{"f": p.F, "i": p.I, "s": p.S, "b": p.B}, time.Unix(p.TS, 0)))
	}
	return out
}

func TestVerifC11QueryLayouts(t *testing.T) {
	stats := verifkit.For("C11", "TestVerifC11QueryLayouts",
		"bed K: a generated data set (<=3 hosts x 2 regions, float k/4 / integer / string / boolean fields, irregular second timestamps over <=10 days, later overwrites; when timestamps are not unique, points of other series are placed at the timestamp of the earliest, the latest and a few other points with different values) is written into 4 retention policies that differ only in physical layout (RF 3 one shard in cache; RF 1 weekly shards snapshotted; RF 1 hourly shards partly snapshotted + full compaction scheduled; RF 2 daily shards with overwrites after a snapshot); a statement from the grammar SELECT field|count|sum|mean|min|max|first|last|spread|median ... WHERE time range [AND host=] GROUP BY [time(d[,off])][,tags|*] fill(none|null|n|previous|linear) ORDER BY time DESC LIMIT OFFSET is run on all 4 layouts x 3 nodes: all 12 results must be identical (rows with equal timestamps compared as multisets) and equal to a reference evaluator written from the InfluxQL documentation. non-trivial = the statement's range spans >=2 shards in some layout and it has an aggregate or LIMIT/OFFSET; distinct = hash of the statement shape; floats are compared at 12 significant digits (absolute values below 1e-9 count as 0); fill(previous) with ORDER BY time DESC is compared across layouts only (the engine fills from the later window, which the documentation does not pin down)")
	defer stats.Flush()
	cl, err := vkSharedCluster()
	if err != nil {
		vkSetupFailed(t, "cluster: %v", err)
	}
	db := fmt.Sprintf("c11_%d", os.Getpid())
	if err := vqEnsureDB(cl, db); err != nil {
		vkSetupFailed(t, "create db: %v", err)
	}
	ncase := 0
	rapid.Check(t, func(rt *rapid.T) {
		ncase++
		m := fmt.Sprintf("m%d", ncase)
		hosts := []string{"a", "b", "c"}[:rapid.IntRange(1, 3).Draw(rt, "nhosts")]
		regions := []string{"x", "y"}[:rapid.IntRange(1, 2).Draw(rt, "nregions")]
		span := rapid.SampledFrom([]int64{3600 * 5, 86400 * 2, 86400 * 10}).Draw(rt, "span")
		uniqueTS := rapid.IntRange(0, 4).Draw(rt, "uniqueTS") > 1
		np := rapid.IntRange(1, 80).Draw(rt, "np")
		used := map[int64]bool{}
		var batch1, batch2 []vqPoint
		for i := 0; i < np; i++ {
			p := vqPoint{Host: rapid.SampledFrom(hosts).Draw(rt, "host"), Region: rapid.SampledFrom(regions).Draw(rt, "region"),
				TS: rapid.Int64Range(0, span-1).Draw(rt, "ts"), F: float64(rapid.IntRange(-4000, 4000).Draw(rt, "f")) / 4,
				I: rapid.Int64Range(-50, 50).Draw(rt, "i"), S: rapid.SampledFrom([]string{"", "a", "b b", "q\"q"}).Draw(rt, "s"), B: rapid.Bool().Draw(rt, "b")}
			if rapid.IntRange(0, 5).Draw(rt, "alignTS") == 0 {
				// a point stamped with the first instant of a shard group
				u := rapid.SampledFrom([]int64{3600, 86400}).Draw(rt, "alignUnit")
				p.TS -= p.TS % u
			}
			if uniqueTS {
				for used[p.TS] {
					p.TS = (p.TS + 1) % span
				}
				used[p.TS] = true
			}
			batch1 = append(batch1, p)
		}
		// ties: points of OTHER series at the timestamp of an existing point (in particular at the earliest and the
		// latest one), with different values - first()/last()/min()/max() and LIMIT must not depend on which of
		// them a layout happens to merge first
		if !uniqueTS && len(hosts)*len(regions) >= 2 {
			lo, hi := 0, 0
			for i, p := range batch1 {
				if p.TS < batch1[lo].TS {
					lo = i
				}
				if p.TS > batch1[hi].TS {
					hi = i
				}
			}
			cands := []int{lo, hi}
			for i := rapid.IntRange(0, 3).Draw(rt, "extraTies"); i > 0; i-- {
				cands = append(cands, rapid.IntRange(0, len(batch1)-1).Draw(rt, "tieOf"))
			}
			for _, ci := range cands {
				if rapid.IntRange(0, 3).Draw(rt, "tie") == 0 {
					continue
				}
				q := batch1[ci]
				for tries := 0; tries < 8 && q.Host == batch1[ci].Host && q.Region == batch1[ci].Region; tries++ {
					q.Host = rapid.SampledFrom(hosts).Draw(rt, "tieHost")
					q.Region = rapid.SampledFrom(regions).Draw(rt, "tieRegion")
				}
				if q.Host == batch1[ci].Host && q.Region == batch1[ci].Region {
					continue
				}
				d := rapid.IntRange(1, 40).Draw(rt, "tieDelta")
				if rapid.Bool().Draw(rt, "tieLower") {
					d = -d
				}
				q.F += float64(d) / 4
				q.I += int64(d)
				batch1 = append(batch1, q)
			}
		}
		// overwrites: same series + time, new values, written later
		nov := rapid.IntRange(0, 5).Draw(rt, "noverwrites")
		for i := 0; i < nov; i++ {
			o := batch1[rapid.IntRange(0, len(batch1)-1).Draw(rt, "ow")]
			o.F = float64(rapid.IntRange(-4000, 4000).Draw(rt, "of")) / 4
			o.I = rapid.Int64Range(-50, 50).Draw(rt, "oi")
			batch2 = append(batch2, o)
		}
		all := append(append([]vqPoint{}, batch1...), batch2...)
		for li, l := range vqLayouts {
			w := rapid.IntRange(0, 2).Draw(rt, "writer")
			if err := cl.nodes[w].srv.PointsWriter.WritePointsPrivileged(db, l.Name, models.ConsistencyLevelAll, vqModelPoints(m, batch1)); err != nil {
				rt.Fatalf("write %s: %v", l.Name, err)
			}
			switch li {
			case 1:
				vqSnapshot(cl, db, l.Name, false, false)
			case 2:
				vqSnapshot(cl, db, l.Name, true, true)
			case 3:
				vqSnapshot(cl, db, l.Name, false, false)
			}
			if len(batch2) > 0 {
				if err := cl.nodes[w].srv.PointsWriter.WritePointsPrivileged(db, l.Name, models.ConsistencyLevelAll, vqModelPoints(m, batch2)); err != nil {
					rt.Fatalf("write overwrites %s: %v", l.Name, err)
				}
			}
		}
		if err := cl.syncMeta(); err != nil {
			vkSetupFailed(rt, "%v", err)
		}
		// statements: several per data set (loading dominates the cost)
		nst := rapid.IntRange(2, 5).Draw(rt, "nstmts")
		for si := 0; si < nst; si++ {
			s := vqDrawStmt(rt, hosts, span, uniqueTS)
			if s.Excluded != "" {
				stats.Exclude(s.Excluded)
			}
			want := vqReference(s, all)
			vqDropSelectorTime(s, want)
			skipRef := s.Fill == "linear" // edges of linear fill are not pinned down by the documentation
			if s.Fill == "previous" && s.Desc {
				// observation, not judged: with ORDER BY time DESC the engine fills a window from the window that
				// precedes it in OUTPUT order (the chronologically later one); the documentation only says "the
				// previous time interval". The layouts must still agree with each other.
				skipRef = true
				stats.Class("observation:fill-previous-desc-fills-from-later-window", 1)
			}
			var first string
			var firstWhere string
			for _, l := range vqLayouts {
				for ni := range cl.nodes {
					text := s.text(db, l.Name, m)
					got, errs := vqRun(cl, ni, db, text)
					if errs != "" {
						rt.Fatalf("%s %q on node %d failed: %s", verifkit.Sig("query-error"), text, ni, errs)
					}
					vqDropSelectorTime(s, got)
					gs := got.String()
					if first == "" && firstWhere == "" {
						first, firstWhere = gs, fmt.Sprintf("%s/node%d", l.Name, ni)
					} else if gs != first {
						// diagnostics: is the difference transient?
						time.Sleep(300 * time.Millisecond)
						again, _ := vqRun(cl, ni, db, text)
						vqDropSelectorTime(s, again)
						gs += fmt.Sprintf("--- same query on the same node 300ms later %s\n%s", map[bool]string{true: "(now equal)", false: "(still different)"}[again.String() == first], again.String())
						rt.Fatalf("%s %q gives different results on %s and %s/node%d\n--- %s\n%s--- %s/node%d\n%s", verifkit.Sig("result-depends-on-layout"), s.text(db, "<rp>", m), firstWhere, l.Name, ni, firstWhere, first, l.Name, ni, gs+fmt.Sprintf("--- reference\n%s--- batch1 %v\n--- batch2 %v", want.String(), batch1, batch2))
					}
				}
			}
			if !skipRef && first != want.String() {
				rt.Fatalf("%s %q: all layouts agree but differ from the reference evaluation\n--- cluster\n%s--- reference\n%s--- points %v", verifkit.Sig("result-differs-from-reference"), s.text(db, "<rp>", m), first, want.String(), all)
			}
			shape := fmt.Sprintf("incl=%v call=%s field=%s range=%v host=%v gt=%v off=%v tags=%v star=%v fill=%s desc=%v lim=%v offs=%v", s.BIncl, s.Call, s.Field, s.HasRange, s.HostEq != "", s.GroupTime, s.GroupOff != 0, s.GroupTags, s.Star, s.Fill, s.Desc, s.Limit > 0, s.Offset > 0)
			width := span
			if s.HasRange {
				width = s.B - s.A
			}
			nt := width > 3600 && (s.Call != "" || s.Limit > 0 || s.Offset > 0)
			cls := []string{"call:" + s.Call, "fill:" + s.Fill, fmt.Sprintf("uniqueTS:%v", uniqueTS)}
			if s.GroupTime > 0 {
				cls = append(cls, "group-by-time")
			}
			if s.Desc {
				cls = append(cls, "desc")
			}
			if s.Limit > 0 || s.Offset > 0 {
				cls = append(cls, "limit/offset")
			}
			if len(want) == 0 {
				cls = append(cls, "empty-result")
			}
			stats.Case(nt, shape, cls...)
			if stats.WantSample() {
				stats.Sample(map[string]interface{}{"statement": s.text(db, "<rp>", m), "points": len(all), "result": strings.Split(first, "\n")})
			} else {
				stats.Sample(nil)
			}
		}
	})
}

func vqDrawStmt(rt *rapid.T, hosts []string, span int64, uniqueTS bool) vqStmt {
	var s vqStmt
	s.Field = rapid.SampledFrom([]string{"f", "f", "i", "i", "s", "b"}).Draw(rt, "field")
	numeric := s.Field == "f" || s.Field == "i"
	calls := []string{"", "count", "sum", "mean", "min", "max", "spread", "median", "first", "last"}
	if numeric {
		s.Call = rapid.SampledFrom(calls).Draw(rt, "call")
	}
	if rapid.IntRange(0, 3).Draw(rt, "hasRange") > 0 {
		s.HasRange = true
		s.A = rapid.Int64Range(-3600, span).Draw(rt, "a")
		s.B = s.A + rapid.SampledFrom([]int64{1, 60, 3600, 3 * 3600, 86400, 3 * 86400, 11 * 86400}).Draw(rt, "width")
		// bounds exactly on shard-group starts (hours, days; the weekly groups start on a day boundary too), and
		// an inclusive upper bound that is the first instant of a group
		if rapid.IntRange(0, 2).Draw(rt, "alignedBounds") == 0 {
			u := rapid.SampledFrom([]int64{3600, 86400}).Draw(rt, "boundUnit")
			s.A -= ((s.A % u) + u) % u
			s.B -= ((s.B % u) + u) % u
			if s.B <= s.A {
				s.B = s.A + u
			}
		}
		if rapid.IntRange(0, 2).Draw(rt, "inclusiveUpper") == 0 {
			s.BIncl = true
			s.B++ // time <= (the aligned instant)
		}
	}
	if rapid.IntRange(0, 3).Draw(rt, "hostEq") == 0 {
		s.HostEq = rapid.SampledFrom(hosts).Draw(rt, "hostv")
	}
	switch rapid.IntRange(0, 4).Draw(rt, "groupTags") {
	case 1:
		s.GroupTags = []string{"host"}
	case 2:
		s.GroupTags = []string{"region"}
	case 3:
		s.Star = true
	}
	if s.Call != "" && s.HasRange && rapid.Bool().Draw(rt, "groupTime") {
		width := s.B - s.A
		var cands []int64
		for _, d := range []int64{60, 600, 3600, 5 * 3600, 7 * 3600, 86400, 2 * 86400} {
			if width/d <= 300 {
				cands = append(cands, d)
			}
		}
		s.GroupTime = rapid.SampledFrom(cands).Draw(rt, "gt")
		if rapid.IntRange(0, 2).Draw(rt, "off") == 0 {
			s.GroupOff = rapid.SampledFrom([]int64{1, 60, 1800, -60}).Draw(rt, "goff")
			if s.GroupOff >= s.GroupTime || -s.GroupOff >= s.GroupTime {
				s.GroupOff = 0
			}
		}
		s.Fill = rapid.SampledFrom([]string{"", "none", "null", "num", "previous", "linear"}).Draw(rt, "fill")
		if s.Fill == "num" {
			s.FillNum = rapid.IntRange(-3, 9).Draw(rt, "fillnum")
		}
	}
	tieSafe := uniqueTS || (len(s.GroupTags) == 2 || s.Star)
	if (s.Call == "first" || s.Call == "last") && s.GroupTime == 0 && !tieSafe {
		// known finding first-last-tie-depends-on-layout: without GROUP BY time the engine answers first()/last()
		// per shard from a sorted merge with LIMIT 1, which breaks a tie between series by series order, while
		// the reducers that combine shards keep the larger value: excluded by construction (directed test below)
		s.Excluded = "first-last-tie-depends-on-layout"
		s.Call = map[string]string{"first": "min", "last": "max"}[s.Call]
	}
	if rapid.IntRange(0, 2).Draw(rt, "desc") == 0 {
		s.Desc = true
	}
	// LIMIT/OFFSET cut inside a group of rows with equal timestamps would be order dependent
	if (s.Call == "" && tieSafe) || (s.Call != "" && s.GroupTime > 0) {
		if rapid.IntRange(0, 2).Draw(rt, "limit") == 0 {
			s.Limit = rapid.IntRange(1, 7).Draw(rt, "limitn")
		}
		// the documentation requires LIMIT with OFFSET ("can cause inconsistent query results" otherwise)
		if s.Limit > 0 && rapid.IntRange(0, 2).Draw(rt, "offset") == 0 {
			s.Offset = rapid.IntRange(1, 4).Draw(rt, "offsetn")
		}
	}
	return s
}

// vqDropSelectorTime: for min/max without GROUP BY time the value is compared always, the
// timestamp of the selected point only when it cannot be tied - here simply never.
func vqDropSelectorTime(s vqStmt, c vqCanon) {
	if (s.Call == "min" || s.Call == "max") && s.GroupTime == 0 {
		for k := range c {
			for i := range c[k] {
				c[k][i].T = 0
			}
		}
	}
}

// Directed campaign for known finding slimit-applied-per-shard.
func TestVerifC11KFSlimit(t *testing.T) {
	stats := verifkit.For("C11", "TestVerifC11KFSlimit", "directed: 6 series spread over hourly shards, SELECT last(i) ... GROUP BY * SLIMIT 2 on the one-shard layout and on the hourly-shard layout")
	defer stats.Flush()
	cl, err := vkSharedCluster()
	if err != nil {
		vkSetupFailed(t, "cluster: %v", err)
	}
	db := fmt.Sprintf("c11kf_%d", os.Getpid())
	if err := vqEnsureDB(cl, db); err != nil {
		t.Fatal(err)
	}
	var pts []vqPoint
	for i, h := range []string{"a", "b", "c"} {
		for j, r := range []string{"x", "y"} {
			pts = append(pts, vqPoint{Host: h, Region: r, TS: int64((i*2+j)*3600 + 5), F: 1, I: int64(i*2 + j), S: "s", B: true})
		}
	}
	for _, l := range vqLayouts {
		if err := cl.nodes[0].srv.PointsWriter.WritePointsPrivileged(db, l.Name, models.ConsistencyLevelAll, vqModelPoints("m", pts)); err != nil {
			t.Fatal(err)
		}
	}
	cl.syncMeta()
	res := map[string]int{}
	for _, l := range vqLayouts {
		got, errs := vqRun(cl, 0, db, fmt.Sprintf("SELECT last(i) FROM %s.%s.m GROUP BY * SLIMIT 2", db, l.Name))
		if errs != "" {
			t.Fatalf("query: %s", errs)
		}
		res[l.Name] = len(got)
		stats.Case(true, fmt.Sprintf("%s:%d", l.Name, len(got)), "directed")
	}
	stats.Sample(res)
	if res["l1"] != res["l3"] {
		stats.KnownReproduced("slimit-applied-per-shard", fmt.Sprintf("SELECT last(i) ... GROUP BY * SLIMIT 2 returns %d series when all data is in one shard and %d series when the series are spread over hourly shards", res["l1"], res["l3"]))
	}
}


// Directed campaign for known finding first-last-tie-depends-on-layout.
func TestVerifC11KFFirstLastTie(t *testing.T) {
	stats := verifkit.For("C11", "TestVerifC11KFFirstLastTie", "directed: six series with one point each at the same timestamp and different values; SELECT last(i) / first(i) FROM m without GROUP BY time on the one-shard layout and on the layouts that spread the series over several shards")
	defer stats.Flush()
	cl, err := vkSharedCluster()
	if err != nil {
		vkSetupFailed(t, "cluster: %v", err)
	}
	db := fmt.Sprintf("c11kft_%d", os.Getpid())
	if err := vqEnsureDB(cl, db); err != nil {
		vkSetupFailed(t, "%v", err)
	}
	var pts []vqPoint
	for i, h := range []string{"a", "b", "c"} {
		for j, r := range []string{"x", "y"} {
			pts = append(pts, vqPoint{Host: h, Region: r, TS: 7205, F: float64((i*2+j)*7%11) + 0.5, I: int64((i*2+j)*7%11 + 1), S: "s", B: true})
		}
	}
	for _, l := range vqLayouts {
		if err := cl.nodes[0].srv.PointsWriter.WritePointsPrivileged(db, l.Name, models.ConsistencyLevelAll, vqModelPoints("m", pts)); err != nil {
			vkSetupFailed(t, "write: %v", err)
		}
	}
	cl.syncMeta()
	differs := ""
	for _, call := range []string{"last", "first"} {
		res := map[string]string{}
		for _, l := range vqLayouts {
			got, errs := vqRun(cl, 0, db, fmt.Sprintf("SELECT %s(i) FROM %s.%s.m", call, db, l.Name))
			if errs != "" {
				t.Fatalf("%s query: %s", verifkit.Sig("fault-free-query-error"), errs)
			}
			res[l.Name] = got.String()
			stats.Case(true, call+":"+l.Name+":"+got.String(), "directed")
		}
		for _, l := range vqLayouts {
			if res[l.Name] != res["l1"] && differs == "" {
				differs = fmt.Sprintf("SELECT %s(i) over six series tied at one timestamp returns %s with all series in one shard and %s on layout %s", call, strings.TrimSpace(res["l1"]), strings.TrimSpace(res[l.Name]), l.Name)
			}
		}
	}
	stats.Sample(map[string]string{"layouts": "l1..l4", "difference": differs})
	if differs != "" {
		stats.KnownReproduced("first-last-tie-depends-on-layout", differs)
	}
}
