//go:build verif

package run_test

// C05 - a distributed query reads every shard exactly once or fails. DESIGN.md section 4, C05.

import (
	"github.com/influxdata/influxdb/tsdb/cursors"
	"github.com/influxdata/influxdb/storage/reads/datatypes"
	"github.com/influxdata/influxdb/services/storage"
	"github.com/gogo/protobuf/types"
	"sort"
	"context"
	"io"
	"net/url"
	"net/http"
	"github.com/influxdata/influxdb/services/meta"
	"fmt"
	"os"
	"strings"
	"testing"
	"time"

	"github.com/influxdata/influxdb/models"
	"pgregory.net/rapid"
	"verifkit"
)

type vkStmt struct {
	Kind string
	Text string
	// Want is what the harness knows the fault-free answer must contain
	Want func(r vkResult) string // "" if ok
}

func TestVerifC05DistributedQuery(t *testing.T) {
	stats := verifkit.For("C05", "TestVerifC05DistributedQuery",
		"bed K (1 meta + 3 data nodes behind TLV-aware fault proxies): per case a fresh database with RF 1..3 and 2..6 hourly shard groups is loaded with uniquely tagged points, optionally a twin measurement, a replication factor altered part-way, and the coordinating node stripped of its copies through remove-shard; a statement (count/sum/raw select on float and unsigned fields with one or two sources or sub-queries, SELECT *, time bounds on shard-group starts, SHOW MEASUREMENTS/TAG KEYS/TAG VALUES/FIELD KEYS/SERIES, storage ReadFilter over the whole range or up to a group start; every case writes one field name no other case uses) is run fault-free on a generated coordinator (R0, cross-checked against what was written) and again under a generated fault set per remote node (refuse, cut response after n bytes, shards disabled = error reply at request time, short/long delay); the faulty result must equal R0 or be an error, and must equal R0 when every shard keeps an owner that answers. non-trivial = a faulty node was actually asked to serve a request of the query; distinct = hash of (rf, groups, coordinator, statement kind, fault kinds, outcome)")
	defer stats.Flush()
	cl, err := vkSharedCluster()
	if err != nil {
		vkSetupFailed(t, "cluster: %v", err)
	}
	rapid.Check(t, func(rt *rapid.T) {
		vkCaseSeq++
		db := fmt.Sprintf("c05_%d_%d", os.Getpid(), vkCaseSeq)
		rf := rapid.IntRange(1, 3).Draw(rt, "rf")
		groups := rapid.IntRange(2, 6).Draw(rt, "groups")
		if err := cl.createDB(db, rf, time.Hour); err != nil {
			vkSetupFailed(rt, "createDB: %v", err)
		}
		defer cl.dropDB(db)
		// reset faults of a previous case
		for _, nd := range cl.nodes {
			nd.proxy.setFault(vkFault{Kind: "up"})
			nd.proxy.takeLog()
		}
		var pts []models.Point
		var ptTimes []int64
		total := 0
		var sumV float64
		var sumU uint64
		base := int64(1600000000) - int64(1600000000)%3600
		// a field name that no other case uses: a field lookup answered with another case's reply shows
		caseField := fmt.Sprintf("c%d", vkCaseSeq)
		twoMeasurements := rapid.Bool().Draw(rt, "twoMeasurements")
		nm := 1
		if twoMeasurements {
			nm = 2
		}
		for g := 0; g < groups; g++ {
			k := rapid.IntRange(1, 6).Draw(rt, "pointsInGroup")
			for i := 0; i < k; i++ {
				v := float64(rapid.IntRange(-400, 400).Draw(rt, "v")) / 4
				u := uint64(rapid.IntRange(0, 1000).Draw(rt, "u"))
				sumV += v
				sumU += u
				total++
				ptTimes = append(ptTimes, base+int64(g)*3600+int64(i))
				pts = append(pts, models.MustNewPoint("m", models.NewTags(map[string]string{"h": fmt.Sprintf("g%di%d", g, i)}),
					models.Fields{"v": v, "u": u, caseField: 1.0}, time.Unix(base+int64(g)*3600+int64(i), 0)))
				if twoMeasurements {
					// the twin in a second measurement: statements with two sources must read every shard once per source
					ptTimes = append(ptTimes, base+int64(g)*3600+int64(i))
					pts = append(pts, models.MustNewPoint("n", models.NewTags(map[string]string{"h": fmt.Sprintf("g%di%d", g, i)}),
						models.Fields{"v": v + 1000, "u": u, caseField: 1.0}, time.Unix(base+int64(g)*3600+int64(i), 0)))
				}
			}
		}
		wnode := rapid.IntRange(0, 2).Draw(rt, "writeNode")
		// replication factor changed part-way (ALTER RETENTION POLICY ... REPLICATION n): the groups created
		// before and after have different numbers of owners, so one node's shards differ in who else owns them
		rf2 := rf
		if rapid.IntRange(0, 2).Draw(rt, "alterRF") == 0 {
			rf2 = rapid.IntRange(1, 3).Draw(rt, "rf2")
		}
		switchAt := base + int64(rapid.IntRange(1, groups).Draw(rt, "alterBeforeGroup"))*3600
		var first, second []models.Point
		for i, p := range pts {
			if rf2 != rf && ptTimes[i] >= switchAt {
				second = append(second, p)
			} else {
				first = append(first, p)
			}
		}
		if err := cl.writeAllUp(wnode, db, first); err != nil {
			vkSetupFailed(rt, "write at consistency all with every node up failed: %v", err)
		}
		if len(second) > 0 {
			if err := cl.nodes[0].srv.MetaClient.UpdateRetentionPolicy(db, "rp", &meta.RetentionPolicyUpdate{ReplicaN: &rf2}, false); err != nil {
				vkSetupFailed(rt, "alter retention policy: %v", err)
			}
			if err := cl.syncMeta(); err != nil {
				vkSetupFailed(rt, "%v", err)
			}
			if err := cl.writeAllUp(wnode, db, second); err != nil {
				vkSetupFailed(rt, "write at consistency all with every node up failed: %v", err)
			}
		}
		if err := cl.syncMeta(); err != nil {
			vkSetupFailed(rt, "%v", err)
		}
		coord := rapid.IntRange(0, 2).Draw(rt, "coordinator")
		// ownership layouts produced by remove-shard: the coordinating node gives up its copy of every shard that
		// has another owner (through the meta node's /remove-shard, as influxd-ctl does), so that it owns no
		// shard of replicated groups and everything it needs is remote
		stripped := 0
		if rapid.IntRange(0, 2).Draw(rt, "stripCoordinator") == 0 {
			for id, os := range cl.shardOwners(db) {
				mine := false
				for _, o := range os {
					if o == cl.nodes[coord].id {
						mine = true
					}
				}
				if !mine || len(os) < 2 {
					continue
				}
				// an owner creates its local shard lazily at the first write; remove-shard refuses an owner whose
				// copy does not exist yet ("shard not found"), so make sure it does (what the write path would do)
				if err := cl.nodes[coord].srv.TSDBStore.CreateShard(db, "rp", id, true); err != nil {
					vkSetupFailed(rt, "CreateShard %d: %v", id, err)
				}
				resp, err := http.PostForm("http://"+cl.metaAddr+"/remove-shard", url.Values{"src": {cl.nodes[coord].proxy.addr()}, "shard": {fmt.Sprint(id)}})
				if err != nil {
					vkSetupFailed(rt, "POST /remove-shard: %v", err)
				}
				body, _ := io.ReadAll(resp.Body)
				resp.Body.Close()
				if resp.StatusCode/100 != 2 {
					vkSetupFailed(rt, "remove-shard %d from node %d: %s %s", id, cl.nodes[coord].id, resp.Status, body)
				}
				stripped++
			}
			if err := cl.syncMeta(); err != nil {
				vkSetupFailed(rt, "%v", err)
			}
		}
		stmts := []vkStmt{
			{"count", "SELECT count(v) FROM m", func(r vkResult) string { return vkWantContains(r, fmt.Sprintf(" %d]", total)) }},
			{"sum", "SELECT sum(v) FROM m", func(r vkResult) string { return vkWantContains(r, fmt.Sprintf(" %v]", sumV)) }},
			{"countUnsigned", "SELECT count(u) FROM m", func(r vkResult) string { return vkWantContains(r, fmt.Sprintf(" %d]", total)) }},
			{"sumUnsigned", "SELECT sum(u) FROM m", func(r vkResult) string { return vkWantContains(r, fmt.Sprintf(" %d]", sumU)) }},
			{"raw", "SELECT v FROM m", func(r vkResult) string { return vkWantRows(r, total) }},
			{"rawUnsigned", "SELECT u FROM m", func(r vkResult) string { return vkWantRows(r, total) }},
			{"countByTag", "SELECT count(v) FROM m GROUP BY h", func(r vkResult) string { return vkWantSeries(r, total) }},
			{"showMeasurements", "SHOW MEASUREMENTS", func(r vkResult) string { return vkWantContains(r, "[m]") }},
			{"showTagKeys", "SHOW TAG KEYS", func(r vkResult) string { return vkWantContains(r, "[h]") }},
			{"showTagValues", "SHOW TAG VALUES WITH KEY = h", func(r vkResult) string { return vkWantRows(r, nm*total) }},
			{"showFieldKeys", "SHOW FIELD KEYS", func(r vkResult) string {
				if m := vkWantContains(r, "[v float]"); m != "" {
					return m
				}
				return vkWantContains(r, "["+caseField+" float]")
			}},
			{"selectStar", "SELECT * FROM m", func(r vkResult) string {
				if m := vkWantContains(r, caseField); m != "" {
					return m
				}
				return vkWantRows(r, total)
			}},
			{"showSeries", "SHOW SERIES", func(r vkResult) string { return vkWantRows(r, nm*total) }},
		}
		// storage reads (Flux): every stored value exactly once - two fields per point
		stmts = append(stmts,
			vkStmt{"storageRead", fmt.Sprintf("storage %d %d", (base-3600)*1e9, (base+int64(groups+1)*3600)*1e9), func(r vkResult) string { return vkWantRows(r, 3*nm*total) }},
			vkStmt{"storageRead", fmt.Sprintf("storage %d %d", (base-3600)*1e9, (base+int64(groups+1)*3600)*1e9), func(r vkResult) string { return vkWantRows(r, 3*nm*total) }},
			// storage ReadGroup (group() pushed down): ungrouped and grouped by the tag; every stored value exactly once
			vkStmt{"storageGroupNone", fmt.Sprintf("storage %d %d none", (base-3600)*1e9, (base+int64(groups+1)*3600)*1e9), func(r vkResult) string { return vkWantRows(r, 3*nm*total) }},
			vkStmt{"storageGroupBy", fmt.Sprintf("storage %d %d by", (base-3600)*1e9, (base+int64(groups+1)*3600)*1e9), func(r vkResult) string { return vkWantRows(r, 3*nm*total) }})
		if twoMeasurements {
			wantBoth := func(n int) func(r vkResult) string {
				return func(r vkResult) string {
					if len(r.Rows) != 2 {
						return fmt.Sprintf("expected one series per measurement, got %d", len(r.Rows))
					}
					for _, row := range r.Rows {
						if !strings.Contains(row, fmt.Sprintf(" %d]", n)) {
							return fmt.Sprintf("expected every measurement to count %d", n)
						}
					}
					return ""
				}
			}
			stmts = append(stmts,
				vkStmt{"countTwoSources", "SELECT count(v) FROM m, n", wantBoth(total)},
				vkStmt{"countTwoSources", "SELECT count(u) FROM n, m", wantBoth(total)},
				vkStmt{"rawTwoSources", "SELECT v FROM m, n", func(r vkResult) string { return vkWantRows(r, 2*total) }},
				vkStmt{"countSubqueries", "SELECT count(v) FROM (SELECT v FROM m), (SELECT v FROM n)", wantBoth(total)},
			)
		}
		boundLo, boundHi := int64(-1<<62), int64(1<<62) // range (seconds) of the bounded statements
		// time-bounded statements whose bound is exactly the first (or last) nanosecond of a shard group: the
		// group at the bound overlaps the range and must be read
		{
			bg := rapid.IntRange(0, groups).Draw(rt, "boundGroup")
			T := base + int64(bg)*3600
			op := rapid.SampledFrom([]string{"<=", "<", ">=", ">", "="}).Draw(rt, "boundOp")
			n := 0
			for _, ts := range ptTimes {
				switch op {
				case "<=":
					if ts <= T {
						n++
					}
				case "<":
					if ts < T {
						n++
					}
				case ">=":
					if ts >= T {
						n++
					}
				case ">":
					if ts > T {
						n++
					}
				default:
					if ts == T {
						n++
					}
				}
			}
			switch op {
			case "<=":
				boundHi = T
			case "<":
				boundHi = T - 1
			case ">=":
				boundLo = T
			case ">":
				boundLo = T + 1
			default:
				boundLo, boundHi = T, T
			}
			n /= nm // ptTimes holds one entry per measurement
			cond := fmt.Sprintf("time %s %ds", op, T)
			if twoMeasurements {
				nn := n
				stmts = append(stmts, vkStmt{"countTwoSourcesBounded", "SELECT count(v) FROM m, n WHERE " + cond, func(r vkResult) string {
					if nn == 0 {
						return vkWantSeries(r, 0)
					}
					if len(r.Rows) != 2 {
						return fmt.Sprintf("expected one series per measurement, got %d", len(r.Rows))
					}
					for _, row := range r.Rows {
						if !strings.Contains(row, fmt.Sprintf(" %d]", nn)) {
							return fmt.Sprintf("expected every measurement to count %d", nn)
						}
					}
					return ""
				}})
			}
			{
				nn := n
				lo, hi := boundLo, boundHi
				if lo < base-3600 {
					lo = base - 3600
				}
				if hi > base+int64(groups+1)*3600 {
					hi = base + int64(groups+1)*3600
				}
				stmts = append(stmts, vkStmt{"storageReadBounded", fmt.Sprintf("storage %d %d", lo*1e9, hi*1e9) /* the range end is inclusive in this storage API */, func(r vkResult) string { return vkWantRows(r, 3*nm*nn) }})
			}
			wantCount := func(r vkResult) string {
				if n == 0 {
					return vkWantSeries(r, 0)
				}
				return vkWantContains(r, fmt.Sprintf(" %d]", n))
			}
			stmts = append(stmts,
				vkStmt{"countBounded", "SELECT count(v) FROM m WHERE " + cond, wantCount},
				vkStmt{"countBounded", "SELECT count(v) FROM m WHERE " + cond, wantCount},
				vkStmt{"rawBounded", "SELECT v FROM m WHERE " + cond, func(r vkResult) string { return vkWantRows(r, n) }},
				vkStmt{"rawBounded", "SELECT u FROM m WHERE " + cond, func(r vkResult) string { return vkWantRows(r, n) }},
			)
		}
		st := rapid.SampledFrom(stmts).Draw(rt, "stmt")
		r0 := vkExec(cl, coord, db, st.Text)
		for try := 0; try < 3 && r0.Err != "" && (strings.Contains(r0.Err, "timeout") || strings.Contains(r0.Err, "deadline")); try++ {
			// the cluster's internal timeouts are 2 s; on a heavily loaded machine a fault-free request can exceed them
			time.Sleep(500 * time.Millisecond)
			r0 = vkExec(cl, coord, db, st.Text)
		}
		if r0.Err != "" {
			rt.Fatalf("%s fault-free %q on node %d failed: %s", verifkit.Sig("fault-free-query-error"), st.Text, coord, r0.Err)
		}
		if msg := st.Want(r0); msg != "" {
			rt.Fatalf("%s fault-free %q on node %d (rf=%d, %d groups, %d points) is wrong: %s\n%s", verifkit.Sig("fault-free-result-wrong"), st.Text, coord, rf, groups, total, msg, r0)
		}
		// fault set
		owners := cl.shardOwners(db)
		faults := map[int]vkFault{}
		var fkinds []string
		requestTimeOnly := true
		for i, nd := range cl.nodes {
			if i == coord {
				continue
			}
			f := vkFault{Kind: "up"}
			switch rapid.IntRange(0, 9).Draw(rt, fmt.Sprintf("fault%d", i)) {
			case 0, 1:
				f = vkFault{Kind: "refuse"}
			case 2, 3:
				f = vkFault{Kind: "cut", Bytes: int64(rapid.SampledFrom([]int{0, 1, 5, 9, 10, 17, 30, 60, 100, 200, 400, 1000}).Draw(rt, "cutBytes"))}
				requestTimeOnly = false
			case 4, 5:
				f = vkFault{Kind: "disabled"}
			case 6:
				if rapid.IntRange(0, 1).Draw(rt, "delayRare") == 0 {
					if rapid.Bool().Draw(rt, "longDelay") {
						f = vkFault{Kind: "delay", Delay: 2600 * time.Millisecond}
						requestTimeOnly = false
					} else {
						f = vkFault{Kind: "delay", Delay: 200 * time.Millisecond}
					}
				}
			}
			faults[i] = f
			fkinds = append(fkinds, fmt.Sprintf("n%d:%s", i, f.Kind))
			if f.Kind == "disabled" {
				for id, os := range owners {
					for _, o := range os {
						if o == nd.id {
							nd.srv.TSDBStore.SetShardEnabled(id, false)
						}
					}
				}
				nd.proxy.setFault(vkFault{Kind: "up"})
			} else {
				nd.proxy.setFault(f)
			}
		}
		rf1 := vkExec(cl, coord, db, st.Text)
		// undo faults before judging (so that a failing case leaves the shared cluster usable)
		avoided := 0
		faultyAsked := false
		var reqLog []string
		for i, nd := range cl.nodes {
			if faults[i].Kind == "disabled" {
				for id, os := range owners {
					for _, o := range os {
						if o == nd.id {
							nd.srv.TSDBStore.SetShardEnabled(id, true)
						}
					}
				}
			}
			nd.proxy.setFault(vkFault{Kind: "up"})
			for _, e := range nd.proxy.takeLog() {
				if faults[i].Kind != "up" && faults[i].Kind != "" {
					faultyAsked = true
				}
				reqLog = append(reqLog, fmt.Sprintf("n%d<-type%d%v", i, e.Type, e.ShardIDs))
			}
			nd.proxy.mu.Lock()
			avoided += nd.proxy.avoided
			nd.proxy.avoided = 0
			nd.proxy.mu.Unlock()
		}
		for i := 0; i < avoided; i++ {
			stats.Exclude("remote-stream-cut-at-frame-boundary")
		}
		// must succeed when every shard (of the statement's time range) keeps an owner that answers at request time
		bounded := strings.HasSuffix(st.Kind, "Bounded")
		storageRead := strings.HasPrefix(st.Kind, "storage")
		inRange := map[uint64]bool{}
		if rpi, err := cl.nodes[0].srv.MetaClient.RetentionPolicy(db, "rp"); err == nil && rpi != nil {
			for _, sg := range rpi.ShardGroups {
				if sg.Deleted() {
					continue
				}
				// the group covers [StartTime, EndTime); the statement covers [boundLo, boundHi] (whole seconds)
				if !bounded || (sg.StartTime.Unix() <= boundHi && sg.EndTime.Unix() > boundLo) {
					for _, sh := range sg.Shards {
						inRange[sh.ID] = true
					}
				}
			}
		}
		servable := true
		anyGood := false    // some in-range shard that holds a point has a reachable owner
		localKnows := false // the coordinating node itself holds an in-range shard that knows the field
		knows := func(nd *vkNode, id uint64) bool {
			if sh := nd.srv.TSDBStore.Shard(id); sh != nil {
				if eng, err := sh.Engine(); err == nil {
					if mf := eng.MeasurementFieldSet().Fields([]byte("m")); mf != nil && mf.Field("v") != nil {
						return true
					}
				}
			}
			return false
		}
		for id, os := range owners {
			if !inRange[id] {
				continue
			}
			good := false
			for _, o := range os {
				for i, nd := range cl.nodes {
					if nd.id != o {
						continue
					}
					if i == coord || faults[i].Kind == "up" || (faults[i].Kind == "delay" && faults[i].Delay < time.Second) {
						good = true
						if knows(nd, id) {
							anyGood = true
							if i == coord {
								localKnows = true
							}
						}
					}
				}
			}
			if !good {
				servable = false
			}
		}
		anyFault, anyDisabled := false, false
		for _, f := range faults {
			if f.Kind != "up" {
				anyFault = true
			}
			if f.Kind == "disabled" {
				anyDisabled = true
			}
		}
		listing := st.Kind == "showMeasurements" || st.Kind == "showTagKeys" || st.Kind == "showTagValues"
		outcome := "equal"
		if rf1.Err != "" {
			outcome = "error"
		} else if rf1.String() != r0.String() && listing && !servable {
			// known finding show-listing-ignores-node-errors: excluded from the main campaign
			stats.Exclude("show-listing-ignores-node-errors")
			outcome = "excluded-known"
		} else if rf1.String() != r0.String() && len(rf1.Rows) == 0 && !storageRead && ((!anyGood && !strings.HasPrefix(st.Kind, "show")) || (!localKnows && anyFault && !listing)) {
			// known finding maptype-rpc-failure-yields-empty-result: field types (MapType / FieldDimensions) have no
			// error path. (a) No node that can be reached knows the field (every shard of the time range that holds a
			// point has only failing owners): the type stays unknown and the SELECT is empty instead of failing.
			// (b) The coordinating node holds no shard that knows the field (it owns nothing in range, e.g. after
			// remove-shard), so the type depends on remote answers alone: a node that refuses, is cut, or whose shards
			// are disabled (tsdb.Shards.MapType turns the shard error into "unknown") leaves the type unknown, no
			// iterator is created at all, and SELECT / SHOW SERIES / SHOW FIELD KEYS return an empty result and no
			// error - even when another owner is alive. Excluded from the main campaign (directed test below).
			stats.Exclude("maptype-rpc-failure-yields-empty-result")
			outcome = "excluded-known"
		} else if rf1.String() != r0.String() && storageRead && anyDisabled {
			// known finding storage-read-skips-unavailable-shards: tsdb.CreateCursorIterators skips a shard that is
			// disabled or closed ("we can safely skip those shards"), so a node asked to serve such a shard for a
			// storage read answers without it and without an error; the coordinator has nothing to fail over on.
			stats.Exclude("storage-read-skips-unavailable-shards")
			outcome = "excluded-known"
		} else if rf1.String() != r0.String() {
			rt.Fatalf("%s %q on node %d under faults %v returned a result that differs from the fault-free result and is not an error (rf=%d, owners %v; requests seen by the proxies: %v)\n--- under faults\n%s\n--- fault-free\n%s",
				verifkit.Sig("silently-incomplete-result"), st.Text, coord, fkinds, rf, owners, reqLog, rf1, r0)
		}
		if servable && requestTimeOnly && outcome == "error" && strings.HasPrefix(st.Kind, "show") == false {
			rt.Fatalf("%s %q on node %d failed (%s) although every shard has an owner that is up and answering; faults %v, rf=%d, owners %v",
				verifkit.Sig("no-failover-to-live-owner"), st.Text, coord, rf1.Err, fkinds, rf, owners)
		}
		cls := []string{"stmt:" + st.Kind, "outcome:" + outcome, fmt.Sprintf("rf:%d", rf), fmt.Sprintf("mixedRF:%v", len(second) > 0), fmt.Sprintf("coordinatorStripped:%v", stripped > 0), fmt.Sprintf("twoMeasurements:%v", twoMeasurements)}
		for _, f := range faults {
			cls = append(cls, "fault:"+f.Kind)
		}
		if servable {
			cls = append(cls, "servable")
		} else {
			cls = append(cls, "not-servable")
		}
		stats.Case(faultyAsked, fmt.Sprintf("rf%d g%d c%d %s %v %s", rf, groups, coord, st.Kind, fkinds, outcome), cls...)
		if stats.WantSample() {
			stats.Sample(map[string]interface{}{"rf": rf, "groups": groups, "points": total, "coordinator": coord, "statement": st.Text, "faults": fkinds, "outcome": outcome, "error": rf1.Err, "owners": fmt.Sprint(owners)})
		} else {
			stats.Sample(nil)
		}
	})
}

// vkExec runs an InfluxQL statement, or - for texts of the form "storage <startNs> <endNs>" - a storage
// ReadFilter (what a Flux from() |> range() issues) over [start, end) through the node's ClusterStore.
func vkExec(cl *vkCluster, node int, db, text string) vkResult {
	if !strings.HasPrefix(text, "storage ") {
		return cl.query(node, db, text)
	}
	var lo, hi int64
	var mode string // "": ReadFilter, "none"/"by": ReadGroup
	fmt.Sscanf(text, "storage %d %d %s", &lo, &hi, &mode)
	srv := cl.nodes[node].srv
	cs := storage.NewClusterStore(srv.ClusterStore, srv.MetaClient, srv.MetaExecutor)
	src, err := types.MarshalAny(&storage.ReadSource{Database: db, RetentionPolicy: "rp"})
	if err != nil {
		return vkResult{Err: "harness: " + err.Error()}
	}
	var out vkResult
	var lines []string
	// one series of a result set (ReadFilter) or of a group (ReadGroup)
	type seriesSrc interface {
		Next() bool
		Cursor() cursors.Cursor
		Tags() models.Tags
	}
	var readSeries func(rs seriesSrc, prefix string) string
	finish := func() vkResult {
		sort.Strings(lines)
		var sb strings.Builder
		sb.WriteString("storage points\n")
		for _, l := range lines {
			sb.WriteString("  [" + l + "]\n")
		}
		out.Rows = []string{sb.String()}
		return out
	}
	readSeries = func(rs seriesSrc, prefix string) string {
	for rs.Next() {
		var key string
		for _, tag := range rs.Tags() {
			key += string(tag.Key) + "=" + string(tag.Value) + ","
		}
		cur := rs.Cursor()
		if cur == nil {
			continue
		}
		add := func(ts []int64, v func(i int) interface{}) {
			for i := range ts {
				lines = append(lines, fmt.Sprintf("%s %d=%v", key, ts[i], v(i)))
			}
		}
		switch c := cur.(type) {
		case cursors.FloatArrayCursor:
			for a := c.Next(); a.Len() > 0; a = c.Next() {
				add(a.Timestamps, func(i int) interface{} { return a.Values[i] })
			}
		case cursors.IntegerArrayCursor:
			for a := c.Next(); a.Len() > 0; a = c.Next() {
				add(a.Timestamps, func(i int) interface{} { return a.Values[i] })
			}
		case cursors.UnsignedArrayCursor:
			for a := c.Next(); a.Len() > 0; a = c.Next() {
				add(a.Timestamps, func(i int) interface{} { return a.Values[i] })
			}
		case cursors.StringArrayCursor:
			for a := c.Next(); a.Len() > 0; a = c.Next() {
				add(a.Timestamps, func(i int) interface{} { return a.Values[i] })
			}
		case cursors.BooleanArrayCursor:
			for a := c.Next(); a.Len() > 0; a = c.Next() {
				add(a.Timestamps, func(i int) interface{} { return a.Values[i] })
			}
		}
		if err := cur.Err(); err != nil {
			cur.Close()
			return err.Error()
		}
		cur.Close()
	}
	return ""
	}
	if mode != "" {
		// ReadGroup (what a Flux group() pushed down to storage issues): group by tag h, or no grouping
		req := &datatypes.ReadGroupRequest{ReadSource: src, Range: datatypes.TimestampRange{Start: lo, End: hi}, Group: datatypes.GroupNone}
		if mode == "by" {
			req.Group = datatypes.GroupBy
			req.GroupKeys = []string{"h"}
		}
		grs, err := cs.ReadGroup(context.Background(), req)
		if err != nil {
			return vkResult{Err: err.Error()}
		}
		if grs == nil {
			return out
		}
		defer grs.Close()
		for gc := grs.Next(); gc != nil; gc = grs.Next() {
			if e := readSeries(gc, ""); e != "" {
				gc.Close()
				return vkResult{Err: e}
			}
			if err := gc.Err(); err != nil {
				gc.Close()
				return vkResult{Err: err.Error()}
			}
			gc.Close()
		}
		if err := grs.Err(); err != nil {
			return vkResult{Err: err.Error()}
		}
		return finish()
	}
	rs, err := cs.ReadFilter(context.Background(), &datatypes.ReadFilterRequest{ReadSource: src, Range: datatypes.TimestampRange{Start: lo, End: hi}})
	if err != nil {
		return vkResult{Err: err.Error()}
	}
	if rs == nil {
		return out
	}
	defer rs.Close()
	if e := readSeries(rs, ""); e != "" {
		return vkResult{Err: e}
	}
	if err := rs.Err(); err != nil {
		return vkResult{Err: err.Error()}
	}
	return finish()
}

func vkWantContains(r vkResult, sub string) string {
	if !strings.Contains(r.String(), sub) {
		return fmt.Sprintf("expected the result to contain %q", sub)
	}
	return ""
}

// vkWantRows: the result has exactly n value rows in total.
func vkWantRows(r vkResult, n int) string {
	got := 0
	for _, s := range r.Rows {
		got += strings.Count(s, "\n  [")
	}
	if got != n {
		return fmt.Sprintf("expected %d rows, got %d", n, got)
	}
	return ""
}

func vkWantSeries(r vkResult, n int) string {
	if len(r.Rows) != n {
		return fmt.Sprintf("expected %d series, got %d", n, len(r.Rows))
	}
	return ""
}

// Directed campaign for known finding show-listing-ignores-node-errors.
func TestVerifC05KFShowListing(t *testing.T) {
	stats := verifkit.For("C05", "TestVerifC05KFShowListing", "directed: RF=1, three hourly groups spread over three nodes, one remote node refuses connections; SHOW TAG VALUES / SHOW MEASUREMENTS / SHOW TAG KEYS on another node")
	defer stats.Flush()
	cl, err := vkSharedCluster()
	if err != nil {
		vkSetupFailed(t, "cluster: %v", err)
	}
	db := fmt.Sprintf("c05kf_%d", os.Getpid())
	if err := cl.createDB(db, 1, time.Hour); err != nil {
		t.Fatal(err)
	}
	defer cl.dropDB(db)
	var pts []models.Point
	base := int64(1600000000) - int64(1600000000)%3600
	for g := 0; g < 6; g++ {
		pts = append(pts, models.MustNewPoint(fmt.Sprintf("m%d", g), models.NewTags(map[string]string{"h": fmt.Sprint("g", g)}), models.Fields{"v": 1.0}, time.Unix(base+int64(g)*3600, 0)))
	}
	if err := cl.write(0, db, pts); err != nil {
		t.Fatal(err)
	}
	for _, q := range []string{"SHOW TAG VALUES WITH KEY = h", "SHOW MEASUREMENTS", "SHOW TAG KEYS"} {
		r0 := cl.query(0, db, q)
		cl.nodes[1].proxy.setFault(vkFault{Kind: "refuse"})
		r1 := cl.query(0, db, q)
		cl.nodes[1].proxy.setFault(vkFault{Kind: "up"})
		stats.Case(true, q+" -> "+fmt.Sprint(r1.Err == "" && r1.String() != r0.String()), "directed")
		if r1.Err == "" && r1.String() != r0.String() {
			stats.KnownReproduced("show-listing-ignores-node-errors", fmt.Sprintf("%q with the only owner of some shards refusing connections returns a shorter listing and no error", q))
		}
	}
	stats.Sample(map[string]string{"layout": "rf=1, 6 hourly groups, node 1 refuses"})
}

// Directed campaign for known finding remote-stream-cut-at-frame-boundary: the response stream of a
// remote iterator is cut exactly between two frames (the TLV response header passed, k point frames passed).
func TestVerifC05KFStreamCutAtFrameBoundary(t *testing.T) {
	stats := verifkit.For("C05", "TestVerifC05KFStreamCutAtFrameBoundary", "directed: RF=1, raw SELECT over a remote shard whose response stream is cut at every byte offset up to 600; offsets that fall exactly on a frame boundary are the known shape")
	defer stats.Flush()
	cl, err := vkSharedCluster()
	if err != nil {
		vkSetupFailed(t, "cluster: %v", err)
	}
	db := fmt.Sprintf("c05kfb_%d", os.Getpid())
	if err := cl.createDB(db, 1, time.Hour); err != nil {
		t.Fatal(err)
	}
	defer cl.dropDB(db)
	var pts []models.Point
	base := int64(1600000000) - int64(1600000000)%3600
	for i := 0; i < 12; i++ {
		pts = append(pts, models.MustNewPoint("m", models.NewTags(map[string]string{"h": "a"}), models.Fields{"v": float64(i)}, time.Unix(base+int64(i), 0)))
	}
	if err := cl.write(0, db, pts); err != nil {
		t.Fatal(err)
	}
	cl.syncMeta()
	// find the owner and query from another node
	// the group has one shard per node: the owner is the node whose local shard holds the series
	var owner *vkNode
	for id, os := range cl.shardOwners(db) {
		nd := cl.nodeByID(os[0])
		if nd == nil || nd.srv.TSDBStore.Shard(id) == nil {
			continue
		}
		if n, _ := nd.srv.TSDBStore.Shard(id).SeriesN(), error(nil); n > 0 {
			owner = nd
		}
	}
	if owner == nil {
		t.Fatal("harness: owner of the data not found")
	}
	coord := 0
	for i, nd := range cl.nodes {
		if nd != owner {
			coord = i
			break
		}
	}
	r0 := cl.query(coord, db, "SELECT v FROM m")
	if msg := vkWantRows(r0, 12); msg != "" {
		t.Fatalf("fault-free: %s", msg)
	}
	owner.proxy.mu.Lock()
	owner.proxy.avoidBoundary = false
	owner.proxy.mu.Unlock()
	defer func() {
		owner.proxy.mu.Lock()
		owner.proxy.avoidBoundary = true
		owner.proxy.mu.Unlock()
		owner.proxy.setFault(vkFault{Kind: "up"})
	}()
	silentOnBoundary, silentElsewhere, boundaries, mapTypeSilent := 0, 0, 0, 0
	var flagged, silent []int64
	var example string
	for n := int64(1); n <= 600; n++ {
		owner.proxy.takeLog()
		owner.proxy.setFault(vkFault{Kind: "cut", Bytes: n})
		r := cl.query(coord, db, "SELECT v FROM m")
		onBoundary := false
		for _, e := range owner.proxy.takeLog() {
			if e.CutOnFrameBoundary {
				onBoundary = true
			}
		}
		if onBoundary {
			boundaries++
			flagged = append(flagged, n)
		}
		if r.Err == "" && r.String() != r0.String() {
			silent = append(silent, n)
		}
		if r.Err == "" && r.String() != r0.String() {
			if onBoundary {
				silentOnBoundary++
				if example == "" {
					example = fmt.Sprintf("cut after %d bytes: %d of 12 rows returned, no error", n, strings.Count(r.String(), "\n  ["))
				}
			} else if n <= 10 {
				// every response is cut after n bytes here, including the 11-byte MapType response of the only
				// node that knows the field: known finding maptype-rpc-failure-yields-empty-result
				mapTypeSilent++
			} else {
				silentElsewhere++
				t.Errorf("%s stream cut after %d bytes (not a frame boundary) gave a silently different result:\n%s", verifkit.Sig("silently-incomplete-result"), n, r)
			}
		}
	}
	stats.Case(true, fmt.Sprintf("boundaries=%d silent=%d", boundaries, silentOnBoundary), "directed")
	stats.Case(true, fmt.Sprintf("silent-elsewhere=%d", silentElsewhere), "directed")
	stats.Sample(map[string]interface{}{"cut_offsets": 600, "offsets_on_frame_boundary": boundaries, "silently_truncated_on_boundary": silentOnBoundary, "example": example, "flagged": fmt.Sprint(flagged), "silent": fmt.Sprint(silent)})
	if silentOnBoundary > 0 {
		stats.KnownReproduced("remote-stream-cut-at-frame-boundary", example)
	}
	if mapTypeSilent > 0 {
		stats.KnownReproduced("maptype-rpc-failure-yields-empty-result", fmt.Sprintf("%d of 10 cut offsets inside the MapType response of the only node holding the field returned an empty result and no error", mapTypeSilent))
	}
}

// Directed campaign for known finding storage-read-skips-unavailable-shards: a storage read (Flux) over
// shards of which one copy is disabled on its only owner.
func TestVerifC05KFStorageReadSkipsDisabledShard(t *testing.T) {
	stats := verifkit.For("C05", "TestVerifC05KFStorageReadSkipsDisabledShard", "directed: RF=1, six hourly groups spread over three nodes; the shards of one remote node are disabled (the node answers, its shards cannot be read); a storage ReadFilter over the whole range on another node")
	defer stats.Flush()
	cl, err := vkSharedCluster()
	if err != nil {
		vkSetupFailed(t, "cluster: %v", err)
	}
	db := fmt.Sprintf("c05kfs_%d", os.Getpid())
	if err := cl.createDB(db, 1, time.Hour); err != nil {
		vkSetupFailed(t, "createDB: %v", err)
	}
	defer cl.dropDB(db)
	var pts []models.Point
	base := int64(1600000000) - int64(1600000000)%3600
	for g := 0; g < 6; g++ {
		for i := 0; i < 4; i++ {
			pts = append(pts, models.MustNewPoint("m", models.NewTags(map[string]string{"h": fmt.Sprintf("g%di%d", g, i)}), models.Fields{"v": 1.0}, time.Unix(base+int64(g)*3600+int64(i), 0)))
		}
	}
	if err := cl.writeAllUp(0, db, pts); err != nil {
		vkSetupFailed(t, "write: %v", err)
	}
	if err := cl.syncMeta(); err != nil {
		vkSetupFailed(t, "%v", err)
	}
	text := fmt.Sprintf("storage %d %d", (base-3600)*1e9, (base+8*3600)*1e9)
	r0 := vkExec(cl, 0, db, text)
	if r0.Err != "" || vkWantRows(r0, len(pts)) != "" {
		t.Fatalf("%s fault-free storage read is wrong: %s %s", verifkit.Sig("fault-free-result-wrong"), r0.Err, vkWantRows(r0, len(pts)))
	}
	owners := cl.shardOwners(db)
	set := func(enabled bool) {
		for id, os := range owners {
			for _, o := range os {
				if o == cl.nodes[1].id {
					cl.nodes[1].srv.TSDBStore.SetShardEnabled(id, enabled)
				}
			}
		}
	}
	set(false)
	r1 := vkExec(cl, 0, db, text)
	set(true)
	stats.Case(true, "disabled-shards-on-node-1", "directed")
	stats.Case(true, fmt.Sprint("silent=", r1.Err == "" && r1.String() != r0.String()), "directed")
	stats.Sample(map[string]interface{}{"layout": "rf=1, 6 hourly groups x 4 points, node 1's shards disabled", "rows_fault_free": len(pts), "error_under_fault": r1.Err, "rows_under_fault": strings.Count(r1.String(), "\n  [")})
	if r1.Err == "" && r1.String() != r0.String() {
		stats.KnownReproduced("storage-read-skips-unavailable-shards", fmt.Sprintf("a storage read over 24 points returned %d points and no error while one node's shards were disabled", strings.Count(r1.String(), "\n  [")))
	}
}

// TestVerifC05TruncatedGroups: metadata layouts produced by truncate-shards (the first step of a rebalance or of
// copy-shard): a truncated shard group keeps the points that were written into it before the truncation, also
// those stamped at or after the truncation time; queries over any range must still read them.
func TestVerifC05TruncatedGroups(t *testing.T) {
	stats := verifkit.For("C05", "TestVerifC05TruncatedGroups",
		"bed K: a fresh database with hourly shard groups around the current hour and RF 1..3 is loaded with uniquely tagged points from 2 h in the past to 3 h in the future; the groups are truncated through the meta node's /truncate-shards with a drawn delay (so that groups already holding points after the truncation time get a successor), more points are written after the truncation time, and count/raw statements with a lower (or no) time bound at the truncation time, just around it, and at group starts are run on every node, fault-free. Oracle: the result equals what was written. non-trivial = a truncated group holds a point at or after its truncation time; distinct = (rf, delay, bound)")
	defer stats.Flush()
	cl, err := vkSharedCluster()
	if err != nil {
		vkSetupFailed(t, "cluster: %v", err)
	}
	rapid.Check(t, func(rt *rapid.T) {
		vkCaseSeq++
		db := fmt.Sprintf("c05t_%d_%d", os.Getpid(), vkCaseSeq)
		rf := rapid.IntRange(1, 3).Draw(rt, "rf")
		if err := cl.createDB(db, rf, time.Hour); err != nil {
			vkSetupFailed(rt, "createDB: %v", err)
		}
		defer cl.dropDB(db)
		now := time.Now()
		base := now.Truncate(time.Hour).Unix()
		var times []int64
		var pts []models.Point
		add := func(ts int64) {
			times = append(times, ts)
			pts = append(pts, models.MustNewPoint("m", models.NewTags(map[string]string{"h": fmt.Sprintf("p%d", len(times))}), models.Fields{"v": float64(len(times))}, time.Unix(ts, 0)))
		}
		n1 := rapid.IntRange(3, 14).Draw(rt, "pointsBefore")
		for i := 0; i < n1; i++ {
			add(base + int64(rapid.IntRange(-7200, 3*3600+1800).Draw(rt, "offset")))
		}
		if err := cl.writeAllUp(rapid.IntRange(0, 2).Draw(rt, "writeNode"), db, pts); err != nil {
			vkSetupFailed(rt, "write: %v", err)
		}
		delay := time.Duration(rapid.SampledFrom([]int{1, 60, 900, 3600, 2 * 3600}).Draw(rt, "delaySeconds")) * time.Second
		resp, err := http.PostForm("http://"+cl.metaAddr+"/truncate-shards", url.Values{"delay": {delay.String()}})
		if err != nil {
			vkSetupFailed(rt, "POST /truncate-shards: %v", err)
		}
		body, _ := io.ReadAll(resp.Body)
		resp.Body.Close()
		if resp.StatusCode/100 != 2 {
			vkSetupFailed(rt, "truncate-shards: %s %s", resp.Status, body)
		}
		if err := cl.syncMeta(); err != nil {
			vkSetupFailed(rt, "%v", err)
		}
		// where did the truncation land?
		var truncs []int64
		heldAfter := false
		if rpi, err := cl.nodes[0].srv.MetaClient.RetentionPolicy(db, "rp"); err == nil && rpi != nil {
			for _, sg := range rpi.ShardGroups {
				if sg.Truncated() {
					tr := sg.TruncatedAt.Unix()
					truncs = append(truncs, tr)
					for _, ts := range times {
						if ts >= tr && ts >= sg.StartTime.Unix() && ts < sg.EndTime.Unix() {
							heldAfter = true
						}
					}
				}
			}
		}
		// more points after the truncation
		var pts2 []models.Point
		n2 := rapid.IntRange(0, 6).Draw(rt, "pointsAfter")
		for i := 0; i < n2; i++ {
			ts := base + int64(rapid.IntRange(0, 3*3600+1800).Draw(rt, "offset2"))
			times = append(times, ts)
			pts2 = append(pts2, models.MustNewPoint("m", models.NewTags(map[string]string{"h": fmt.Sprintf("q%d", len(times))}), models.Fields{"v": float64(len(times))}, time.Unix(ts, 0)))
		}
		if len(pts2) > 0 {
			if err := cl.writeAllUp(rapid.IntRange(0, 2).Draw(rt, "writeNode2"), db, pts2); err != nil {
				vkSetupFailed(rt, "write after truncation: %v", err)
			}
		}
		if err := cl.syncMeta(); err != nil {
			vkSetupFailed(rt, "%v", err)
		}
		// bounds
		bounds := []int64{0, base, base + 3600, base + 7200}
		for _, tr := range truncs {
			bounds = append(bounds, tr-1, tr, tr+1)
		}
		lo := rapid.SampledFrom(bounds).Draw(rt, "lowerBound")
		want := 0
		for _, ts := range times {
			if lo == 0 || ts >= lo {
				want++
			}
		}
		cond := ""
		if lo != 0 {
			cond = fmt.Sprintf(" WHERE time >= %ds", lo)
		}
		for ni := range cl.nodes {
			for _, q := range []string{"SELECT count(v) FROM m" + cond, "SELECT v FROM m" + cond} {
				r := cl.query(ni, db, q)
				for try := 0; try < 3 && r.Err != "" && (strings.Contains(r.Err, "timeout") || strings.Contains(r.Err, "deadline")); try++ {
					time.Sleep(500 * time.Millisecond)
					r = cl.query(ni, db, q)
				}
				if r.Err != "" {
					rt.Fatalf("%s fault-free %q on node %d failed: %s", verifkit.Sig("fault-free-query-error"), q, ni, r.Err)
				}
				msg := ""
				if strings.HasPrefix(q, "SELECT count") {
					if want == 0 {
						msg = vkWantSeries(r, 0)
					} else {
						msg = vkWantContains(r, fmt.Sprintf(" %d]", want))
					}
				} else {
					msg = vkWantRows(r, want)
				}
				if msg != "" {
					rt.Fatalf("%s fault-free %q on node %d after truncate-shards (delay %v, truncation times %v, rf=%d, %d points written of which %d at or after the bound) is wrong: %s\n%s", verifkit.Sig("fault-free-result-wrong"), q, ni, delay, truncs, rf, len(times), want, msg, r)
				}
			}
		}
		stats.Case(heldAfter, fmt.Sprint(rf, delay, lo != 0), fmt.Sprintf("rf:%d", rf), fmt.Sprintf("truncatedGroups:%d", len(truncs)), fmt.Sprintf("groupHoldsPointAfterTruncation:%v", heldAfter))
		if stats.WantSample() {
			stats.Sample(map[string]interface{}{"rf": rf, "delay": delay.String(), "points": len(times), "truncated_groups": len(truncs), "lower_bound": lo, "expected": want})
		} else {
			stats.Sample(nil)
		}
	})
}
