//go:build verif

package run_test

// C05 - what a slow or broken owner leaves behind must not change the answer of LATER requests.
//
// The inter-node protocol has no request ids: a reply is matched to its request only by its position on a
// pooled connection. A request that ends in a timeout or a cut must therefore take its connection out of
// the pool, or the late reply is read as the answer to the next - different - request sent to that node.
// The property ("the result equals the result of the same query over the union of the cluster's data")
// quantifies over every query, including the one issued right after another query hit a slow owner.

import (
	"fmt"
	"os"
	"sort"
	"strings"
	"testing"
	"time"

	"github.com/influxdata/influxdb/models"
	"pgregory.net/rapid"
	"verifkit"
)

// vkStmtsFor lists one statement of every remote-request kind over measurement x (tag key tk, fields fv and fu).
func vkStmtsFor(x, tk, fv, fu string, total, storageRows int, lo, hi int64) []vkStmt {
	cols := []string{tk, fv, fu}
	// columns of SELECT *: time, then fields and tags sorted by name
	for i := 0; i < len(cols); i++ {
		for j := i + 1; j < len(cols); j++ {
			if cols[j] < cols[i] {
				cols[i], cols[j] = cols[j], cols[i]
			}
		}
	}
	star := "cols=[time " + strings.Join(cols, " ") + "]"
	return []vkStmt{
		{"count", "SELECT count(" + fv + ") FROM " + x, func(r vkResult) string { return vkWantContains(r, fmt.Sprintf(" %d]", total)) }},
		{"raw", "SELECT " + fv + " FROM " + x, func(r vkResult) string { return vkWantRows(r, total) }},
		{"selectStar", "SELECT * FROM " + x, func(r vkResult) string {
			if m := vkWantContains(r, star); m != "" {
				return m
			}
			return vkWantRows(r, total)
		}},
		{"groupByStar", "SELECT count(" + fv + ") FROM " + x + " GROUP BY *", func(r vkResult) string {
			if m := vkWantContains(r, "{"+tk+"="); m != "" {
				return m
			}
			return vkWantSeries(r, total)
		}},
		{"showTagKeys", "SHOW TAG KEYS FROM " + x, func(r vkResult) string {
			if m := vkWantContains(r, "["+tk+"]"); m != "" {
				return m
			}
			return vkWantRows(r, 1)
		}},
		{"showFieldKeys", "SHOW FIELD KEYS FROM " + x, func(r vkResult) string {
			if m := vkWantContains(r, "["+fu+" float]"); m != "" {
				return m
			}
			return vkWantRows(r, 2)
		}},
		{"showTagValues", "SHOW TAG VALUES FROM " + x + " WITH KEY = " + tk, func(r vkResult) string { return vkWantRows(r, total) }},
		{"showSeries", "SHOW SERIES FROM " + x, func(r vkResult) string { return vkWantRows(r, total) }},
		{"showMeasurements", "SHOW MEASUREMENTS", func(r vkResult) string { return vkWantRows(r, 2) }},
		{"explain", "EXPLAIN SELECT count(" + fv + ") FROM " + x, func(r vkResult) string { return "" }},
		{"storageRead", fmt.Sprintf("storage %d %d", lo, hi), func(r vkResult) string { return vkWantRows(r, storageRows) }},
		{"storageGroupNone", fmt.Sprintf("storage %d %d none", lo, hi), func(r vkResult) string { return vkWantRows(r, storageRows) }},
		{"storageGroupBy", fmt.Sprintf("storage %d %d by", lo, hi), func(r vkResult) string { return vkWantRows(r, storageRows) }},
	}
}

func vkExecRetry(cl *vkCluster, node int, db, text string) vkResult {
	r := vkExec(cl, node, db, text)
	for try := 0; try < 5 && r.Err != "" && (strings.Contains(r.Err, "timeout") || strings.Contains(r.Err, "deadline")); try++ {
		// the cluster's internal timeouts are 2 s; on a heavily loaded machine a fault-free request can exceed them
		time.Sleep(500 * time.Millisecond)
		r = vkExec(cl, node, db, text)
	}
	return r
}

func TestVerifC05LateReply(t *testing.T) {
	stats := verifkit.For("C05", "TestVerifC05LateReply",
		"bed K: a fresh database (RF 1..2, three hourly groups) holds two measurements with different tag keys and field names (one field name per measurement that no other case uses). Phase A: two to five statements over the first measurement (the remote request type that meets the slow owner is drawn first, then a statement that sends it; kinds: field types, field dimensions, iterator creation, iterator cost, measurement names, tag keys, tag values, series listing, storage ReadFilter and ReadGroup) run while one or both remote nodes answer later than the shard reader timeout (1 s here) or have their reply cut, for every request or only for one of the request types the statement sends to that node; the result must equal the fault-free result or be an error. Phase B: with all faults cleared, one statement of EVERY kind over the second measurement runs at once, in a drawn order, on the same coordinator; each must return exactly its fault-free result (itself cross-checked against what was written). non-trivial = a slow or cut node was asked to serve a request in phase A; distinct = (rf, coordinator, phase A kinds, fault kinds, phase B order prefix)")
	defer stats.Flush()
	// a short shard reader timeout keeps a slow owner cheap (each request to it costs one timeout), so that
	// several statements per case can meet one
	vkReaderTimeout = 1000 * time.Millisecond
	slow := 1500 * time.Millisecond
	cl, err := vkSharedCluster()
	if err != nil {
		vkSetupFailed(t, "cluster: %v", err)
	}
	rapid.Check(t, func(rt *rapid.T) {
		vkCaseSeq++
		db := fmt.Sprintf("c05l_%d_%d", os.Getpid(), vkCaseSeq)
		rf := rapid.IntRange(1, 2).Draw(rt, "rf")
		if err := cl.createDB(db, rf, time.Hour); err != nil {
			vkSetupFailed(rt, "createDB: %v", err)
		}
		defer cl.dropDB(db)
		for _, nd := range cl.nodes {
			nd.proxy.setFault(vkFault{Kind: "up"})
			nd.proxy.takeLog()
		}
		base := int64(1600000000) - int64(1600000000)%3600
		mu, nu := fmt.Sprintf("mf%d", vkCaseSeq), fmt.Sprintf("nf%d", vkCaseSeq)
		var pts []models.Point
		total := 0
		for g := 0; g < 3; g++ {
			k := rapid.IntRange(1, 4).Draw(rt, "pointsInGroup")
			for i := 0; i < k; i++ {
				total++
				ts := time.Unix(base+int64(g)*3600+int64(i), 0)
				pts = append(pts,
					models.MustNewPoint("m", models.NewTags(map[string]string{"h": fmt.Sprintf("g%di%d", g, i)}), models.Fields{"v": float64(i), mu: 1.0}, ts),
					models.MustNewPoint("n", models.NewTags(map[string]string{"k": fmt.Sprintf("g%di%d", g, i)}), models.Fields{"w": float64(i), nu: 1.0}, ts))
			}
		}
		if err := cl.writeAllUp(rapid.IntRange(0, 2).Draw(rt, "writeNode"), db, pts); err != nil {
			vkSetupFailed(rt, "write at consistency all with every node up failed: %v", err)
		}
		if err := cl.syncMeta(); err != nil {
			vkSetupFailed(rt, "%v", err)
		}
		coord := rapid.IntRange(0, 2).Draw(rt, "coordinator")
		lo, hi := (base-3600)*1e9, (base+4*3600)*1e9
		as := vkStmtsFor("m", "h", "v", mu, total, 4*total, lo, hi)
		bs := vkStmtsFor("n", "k", "w", nu, total, 4*total, lo, hi)
		// fault-free references, cross-checked against what was written; the proxies' logs tell which request
		// types each statement sends to each node
		ref := func(sts []vkStmt) ([]vkResult, []map[int][]byte) {
			out := make([]vkResult, len(sts))
			types := make([]map[int][]byte, len(sts))
			for i, st := range sts {
				for _, nd := range cl.nodes {
					nd.proxy.takeLog()
				}
				r := vkExecRetry(cl, coord, db, st.Text)
				if vkIsTimeout(r.Err) {
					vkSetupFailed(rt, "fault-free %q timed out repeatedly on a loaded machine (reader timeout %v): %s", st.Text, vkReaderTimeout, r.Err)
				}
				if r.Err != "" {
					rt.Fatalf("%s fault-free %q on node %d failed: %s", verifkit.Sig("fault-free-query-error"), st.Text, coord, r.Err)
				}
				if msg := st.Want(r); msg != "" {
					rt.Fatalf("%s fault-free %q on node %d (rf=%d, %d points per measurement) is wrong: %s\n%s", verifkit.Sig("fault-free-result-wrong"), st.Text, coord, rf, total, msg, r)
				}
				out[i] = r
				types[i] = map[int][]byte{}
				for ni, nd := range cl.nodes {
					seen := map[byte]bool{}
					for _, e := range nd.proxy.takeLog() {
						if !seen[e.Type] {
							seen[e.Type] = true
							types[i][ni] = append(types[i][ni], e.Type)
						}
					}
					sort.Slice(types[i][ni], func(a, b int) bool { return types[i][ni][a] < types[i][ni][b] })
				}
			}
			return out, types
		}
		a0, atypes := ref(as)
		b0, _ := ref(bs)
		// phase A: slow / cut owners
		var fkinds []string
		faults := map[int]vkFault{}
		remotes := []int{}
		for i := range cl.nodes {
			if i != coord {
				remotes = append(remotes, i)
			}
		}
		owners := cl.shardOwners(db)
		localOwns := false
		for _, os := range owners {
			for _, o := range os {
				if o == cl.nodes[coord].id {
					localOwns = true
				}
			}
		}
		// every (statement, remote node, request type) that occurs fault-free; phase A draws the request type
		// first, so that every kind of remote request meets a slow owner equally often
		type vkTarget struct {
			ai, node int
			typ      byte
		}
		byType := map[byte][]vkTarget{}
		var types []byte
		for ai := range as {
			for _, i := range remotes {
				for _, ty := range atypes[ai][i] {
					if byType[ty] == nil {
						types = append(types, ty)
					}
					byType[ty] = append(byType[ty], vkTarget{ai, i, ty})
				}
			}
		}
		sort.Slice(types, func(a, b int) bool { return types[a] < types[b] })
		if len(types) == 0 {
			vkSetupFailed(rt, "no remote request was seen in the fault-free runs (rf=%d, owners %v)", rf, owners)
		}
		na := rapid.IntRange(2, 5).Draw(rt, "phaseAStatements")
		var akinds []string
		var aOutcome []string
		var pending []string // judged after the faults are cleared
		faultyAsked := false
		// phase B (after every statement of phase A): every kind over the other measurement, at once, all nodes up
		var bkinds []string
		phaseB := func() {
			order := rapid.Permutation(vkIota(len(bs))).Draw(rt, "phaseBOrder")
			bkinds = bkinds[:0]
			for _, bi := range order {
				st := bs[bi]
				bkinds = append(bkinds, st.Kind)
				r := vkExecRetry(cl, coord, db, st.Text)
				if vkIsTimeout(r.Err) {
					vkSetupFailed(rt, "%q with every node up timed out repeatedly on a loaded machine (reader timeout %v): %s", st.Text, vkReaderTimeout, r.Err)
				}
				if r.Err != "" {
					rt.Fatalf("%s %q on node %d with every node up failed (%s) right after %v ran against slow/cut owners %v (rf=%d)",
						verifkit.Sig("fault-free-query-error-after-slow-owner"), st.Text, coord, r.Err, akinds, fkinds, rf)
				}
				if st.Kind == "explain" && rf > 1 {
					continue // which replica is costed is a free choice; replicas may differ in cache/file split
				}
				if r.String() != b0[bi].String() || st.Want(r) != "" {
					rt.Fatalf("%s %q on node %d with every node up returned another answer right after %v ran against slow/cut owners %v (rf=%d, owners %v); statements of phase B so far: %v\n--- now\n%s\n--- before the slow requests\n%s",
						verifkit.Sig("late-reply-answers-later-request"), st.Text, coord, akinds, fkinds, rf, owners, bkinds, r, b0[bi])
				}
			}
		}
		for k := 0; k < na; k++ {
			ty := rapid.SampledFrom(types).Draw(rt, "slowRequestType")
			tg := byType[ty][rapid.IntRange(0, len(byType[ty])-1).Draw(rt, "target")]
			ai := tg.ai
			st := as[ai]
			akinds = append(akinds, fmt.Sprintf("%s/type%d", st.Kind, ty))
			bothSlow := rapid.IntRange(0, 2).Draw(rt, "bothRemotesSlow") == 0
			for _, i := range remotes {
				f := vkFault{Kind: "up"}
				if i == tg.node || bothSlow {
					if rapid.IntRange(0, 9).Draw(rt, "faultKind") < 7 {
						f = vkFault{Kind: "delay", Delay: slow}
					} else {
						f = vkFault{Kind: "cut", Bytes: int64(rapid.SampledFrom([]int{0, 1, 5, 9, 10, 17, 30, 60}).Draw(rt, "cutBytes"))}
					}
					// the fault hits only the requests of the drawn type (a node that is slow for one kind of lookup),
					// or every request to the node
					if rapid.IntRange(0, 5).Draw(rt, "allTypes") > 0 {
						f.OnlyType = ty
					}
				}
				faults[i] = f
				fkinds = append(fkinds, fmt.Sprintf("n%d:%s/type%d", i, f.Kind, f.OnlyType))
				cl.nodes[i].proxy.setFault(f)
			}
			r := vkExec(cl, coord, db, st.Text)
			for _, nd := range cl.nodes {
				for _, e := range nd.proxy.takeLog() {
					if e.Fault != "up" {
						faultyAsked = true
					}
				}
			}
			switch {
			case r.Err != "":
				aOutcome = append(aOutcome, "error")
			case r.String() == a0[ai].String():
				aOutcome = append(aOutcome, "equal")
			case st.Kind == "showMeasurements" || st.Kind == "showTagKeys" || st.Kind == "showTagValues":
				stats.Exclude("show-listing-ignores-node-errors")
				aOutcome = append(aOutcome, "excluded-known")
			case st.Kind == "explain":
				// the cost estimate of EXPLAIN is not a query result; an estimate that leaves out a shard is not what the property speaks about
				aOutcome = append(aOutcome, "explain-differs")
			case len(r.Rows) == 0 && !strings.HasPrefix(st.Kind, "storage") && !localOwns:
				stats.Exclude("maptype-rpc-failure-yields-empty-result")
				aOutcome = append(aOutcome, "excluded-known")
			default:
				pending = append(pending, fmt.Sprintf("%s %q on node %d with slow/cut owners %v returned a result that differs from the fault-free result and is not an error (rf=%d, owners %v)\n--- under faults\n%s\n--- fault-free\n%s",
					verifkit.Sig("silently-incomplete-result"), st.Text, coord, fkinds, rf, owners, r, a0[ai]))
			}
			// faults off, then every kind of request at once: what the slow owner left behind must not answer them
			for _, nd := range cl.nodes {
				nd.proxy.setFault(vkFault{Kind: "up"})
				nd.proxy.takeLog()
				nd.proxy.mu.Lock()
				for ; nd.proxy.avoided > 0; nd.proxy.avoided-- {
					stats.Exclude("remote-stream-cut-at-frame-boundary")
				}
				nd.proxy.mu.Unlock()
			}
			if len(pending) > 0 {
				rt.Fatalf("%s", pending[0])
			}
			phaseB()
		}
		cls := []string{fmt.Sprintf("rf:%d", rf), fmt.Sprintf("localOwns:%v", localOwns)}
		for _, k := range akinds {
			cls = append(cls, "phaseA:"+k)
		}
		for _, o := range aOutcome {
			cls = append(cls, "phaseAOutcome:"+o)
		}
		for _, f := range faults {
			cls = append(cls, "fault:"+f.Kind)
		}
		stats.Case(faultyAsked, fmt.Sprintf("rf%d c%d %v %v %v", rf, coord, akinds, fkinds, bkinds[:3]), cls...)
		if stats.WantSample() {
			stats.Sample(map[string]interface{}{"rf": rf, "coordinator": coord, "phaseA": akinds, "phaseA_outcome": aOutcome, "faults": fkinds, "phaseB_order": bkinds, "owners": fmt.Sprint(owners)})
		} else {
			stats.Sample(nil)
		}
	})
}

func vkIota(n int) []int {
	out := make([]int, n)
	for i := range out {
		out[i] = i
	}
	return out
}
