//go:build verif

package run_test

// C16 - execution-level confirmation of the known findings #2-#5 (authorisation gaps that live in the
// influxql dependency's RequiredPrivileges). A real single-server meta service and one real data node with
// HTTP authentication enabled; database db2 holds data the non-admin user u1 has no grant on (u1 holds
// READ on db0 only). Each directed statement is sent over HTTP with u1's credentials and the response is
// searched for db2's content, so that "the model refuses it although the implementation allows it" is
// shown to mean "data of a database without grant is really returned / really written", not an
// over-strict oracle. Reproductions are recorded with KnownReproduced; nothing fails for a known shape.

import (
	"encoding/json"
	"fmt"
	"io"
	"net"
	"net/http"
	"net/url"
	"os"
	"path/filepath"
	"strings"
	"testing"
	"time"

	"github.com/influxdata/influxdb/cmd/influxd/run"
	"github.com/influxdata/influxdb/coordinator"
	"github.com/influxdata/influxdb/models"
	"github.com/influxdata/influxdb/services/meta"
	"github.com/influxdata/influxdb/tcp"
	itoml "github.com/influxdata/influxdb/toml"
	"go.uber.org/zap"
	"verifkit"
)

// vC16FreeAddr: a loopback address no other listener of this process has been given (verifkit.FreeAddr).
func vC16FreeAddr() string { return verifkit.FreeAddr() }

func vC16ExecInconclusive(msg string) {
	fmt.Println("VERIF-INCONCLUSIVE " + msg)
	verifkit.FlushAll()
	os.Exit(3)
}

func vC16Query(addr, user, pw, db, q, method string) (int, string) {
	v := url.Values{"q": {q}, "u": {user}, "p": {pw}}
	if db != "" {
		v.Set("db", db)
	}
	var resp *http.Response
	var err error
	if method == "GET" {
		resp, err = http.Get("http://" + addr + "/query?" + v.Encode())
	} else {
		resp, err = http.Post("http://"+addr+"/query?"+v.Encode(), "application/x-www-form-urlencoded", nil)
	}
	if err != nil {
		return 0, err.Error()
	}
	defer resp.Body.Close()
	b, _ := io.ReadAll(resp.Body)
	return resp.StatusCode, string(b)
}

func vC16HasError(body string) bool {
	var r struct {
		Error   string `json:"error"`
		Results []struct {
			Error string `json:"error"`
		} `json:"results"`
	}
	if json.Unmarshal([]byte(body), &r) != nil {
		return true
	}
	if r.Error != "" {
		return true
	}
	for _, x := range r.Results {
		if x.Error != "" {
			return true
		}
	}
	return false
}

// vC16ExecBed starts a real single-server meta service and one real data node with HTTP authentication:
// databases db0 (one public series) and db2 (three "secret" series), administrator adm/admpw, user u1/u1pw with
// READ on db0 only. It returns the node's HTTP address, db2's default retention policy and a shutdown function.
func vC16ExecBed() (addr string, rp string, shutdown func()) {
	var cleanup []func()
	shutdown = func() {
		for i := len(cleanup) - 1; i >= 0; i-- {
			cleanup[i]()
		}
	}
	dir, err := os.MkdirTemp("", "c16exec")
	if err != nil {
		vC16ExecInconclusive(err.Error())
	}
	cleanup = append(cleanup, func() { os.RemoveAll(dir) })

	// meta service
	mc := meta.NewConfig()
	mc.BindAddress = vC16FreeAddr()
	mc.HTTPBindAddress = vC16FreeAddr()
	mc.Dir = filepath.Join(dir, "m")
	mc.SingleServer = true
	mc.LoggingEnabled = false
	ln, err := net.Listen("tcp", mc.BindAddress)
	if err != nil {
		vC16ExecInconclusive(err.Error())
	}
	mux := tcp.NewMux()
	ms := meta.NewService(mc)
	ms.RPCClient = coordinator.NewClient(nil, coordinator.DefaultDialTimeout)
	ms.RaftListener = mux.Listen(meta.MuxHeader)
	go mux.Serve(ln)
	if err := ms.Open(); err != nil {
		vC16ExecInconclusive("meta service: " + err.Error())
	}
	cleanup = append(cleanup, func() { ms.Close() })

	// data node with authentication
	c := run.NewConfig()
	c.BindAddress = vC16FreeAddr()
	c.HTTPD.BindAddress = vC16FreeAddr()
	c.HTTPD.LogEnabled = false
	c.HTTPD.AuthEnabled = true
	c.Meta.Dir = filepath.Join(dir, "d", "meta")
	c.Data.Dir = filepath.Join(dir, "d", "data")
	c.Data.WALDir = filepath.Join(dir, "d", "wal")
	c.HintedHandoff.Dir = filepath.Join(dir, "d", "hh")
	c.ReportingDisabled = true
	c.Monitor.StoreEnabled = false
	c.GraphiteInputs = nil
	c.CollectdInputs = nil
	c.OpenTSDBInputs = nil
	c.UDPInputs = nil
	c.ContinuousQuery.Enabled = false
	c.Retention.Enabled = false
	c.Precreator.Enabled = false
	c.AntiEntropy.Enabled = false
	c.Subscriber.Enabled = false
	c.Coordinator.WriteTimeout = itoml.Duration(5 * time.Second)
	s, err := run.NewServer(c, &run.BuildInfo{Version: "verif"})
	if err != nil {
		vC16ExecInconclusive("data node: " + err.Error())
	}
	s.Logger = zap.NewNop()
	if err := s.Open(); err != nil {
		vC16ExecInconclusive("data node open: " + err.Error())
	}
	cleanup = append(cleanup, func() { s.Close() })
	s.MetaClient.SetMetaServers([]string{mc.HTTPBindAddress})
	if _, err := s.MetaClient.CreateDataNode(s.HTTPAddr(), s.TCPAddr()); err != nil {
		vC16ExecInconclusive("CreateDataNode: " + err.Error())
	}
	mcli := s.MetaClient
	for _, db := range []string{"db0", "db2"} {
		if _, err := mcli.CreateDatabase(db); err != nil {
			vC16ExecInconclusive("CreateDatabase: " + err.Error())
		}
	}
	if _, err := mcli.CreateUser("adm", "admpw", true); err != nil {
		vC16ExecInconclusive("CreateUser: " + err.Error())
	}
	if _, err := mcli.CreateUser("u1", "u1pw", false); err != nil {
		vC16ExecInconclusive("CreateUser: " + err.Error())
	}
	if err := mcli.SetPrivilege("u1", "db0", 1 /* influxql.ReadPrivilege */); err != nil {
		vC16ExecInconclusive("SetPrivilege: " + err.Error())
	}
	deadline := time.Now().Add(20 * time.Second)
	for mcli.Database("db2") == nil || mcli.Database("db0") == nil {
		if time.Now().After(deadline) {
			vC16ExecInconclusive("databases did not appear on the data node")
		}
		time.Sleep(10 * time.Millisecond)
	}
	rp = mcli.Database("db2").DefaultRetentionPolicy
	if rp == "" {
		vC16ExecInconclusive("db2 has no default retention policy")
	}
	base := time.Date(2024, 1, 1, 0, 0, 10, 0, time.UTC)
	var secret []models.Point
	for i := 0; i < 3; i++ {
		secret = append(secret, models.MustNewPoint("secretm", models.NewTags(map[string]string{"hiddenkey": fmt.Sprintf("topsecret%d", i)}), models.Fields{"hiddenfield": float64(40 + i)}, base.Add(time.Duration(i)*10*time.Second)))
	}
	if err := s.PointsWriter.WritePointsPrivileged("db2", rp, models.ConsistencyLevelAll, secret); err != nil {
		vC16ExecInconclusive("write db2: " + err.Error())
	}
	pub := []models.Point{models.MustNewPoint("pubm", models.NewTags(map[string]string{"pk": "pv"}), models.Fields{"pf": 1.0}, base)}
	if err := s.PointsWriter.WritePointsPrivileged("db0", mcli.Database("db0").DefaultRetentionPolicy, models.ConsistencyLevelAll, pub); err != nil {
		vC16ExecInconclusive("write db0: " + err.Error())
	}
	addr = s.HTTPAddr()
	return addr, rp, shutdown
}

func TestVerifC16KFExecution(t *testing.T) {
	st := verifkit.For("C16", "TestVerifC16KFExecution", "directed, execution level: real meta service + data node with HTTP auth; user u1 (READ on db0 only) sends each known-finding statement; the response is searched for content of db2 (no grant); one case per statement")
	defer st.Flush()
	addr, rp, shutdown := vC16ExecBed()
	defer shutdown()

	// sanity of the bed: u1 cannot read db2 directly, and can read db0
	if code, body := vC16Query(addr, "u1", "u1pw", "db0", "SELECT * FROM db2.."+"secretm", "GET"); code != http.StatusForbidden {
		vC16ExecInconclusive(fmt.Sprintf("bed sanity: SELECT on db2 as u1 gave %d %s (want 403)", code, body))
	}
	if code, body := vC16Query(addr, "u1", "u1pw", "db0", "SHOW SERIES", "GET"); code != http.StatusOK || !strings.Contains(body, "pubm") {
		vC16ExecInconclusive(fmt.Sprintf("bed sanity: SHOW SERIES on db0 as u1 gave %d %s", code, body))
	}

	type kfc struct {
		sig, q, needle string
	}
	cases := []kfc{
		{"show-from-other-database-unchecked", "SHOW SERIES ON db0 FROM db2..secretm", "topsecret1"},
		{"control-source-database-ignored", "SHOW TAG KEYS ON db0 FROM db2..secretm", "hiddenkey"},
		{"control-source-database-ignored", "SHOW TAG VALUES ON db0 FROM db2..secretm WITH KEY = hiddenkey", "topsecret1"},
		{"show-from-other-database-unchecked", "SHOW FIELD KEYS ON db0 FROM db2..secretm", "hiddenfield"},
		{"control-source-database-ignored", "SHOW MEASUREMENTS ON db0 WITH MEASUREMENT = db2..secretm", "secretm"},
		{"show-from-other-database-unchecked", "SHOW SERIES CARDINALITY ON db0 FROM db2..secretm", "[[3]]"},
		{"show-cardinality-on-database-unchecked", "SHOW SERIES EXACT CARDINALITY ON db2", "[[3]]"},
		{"show-cardinality-on-database-unchecked", "SHOW MEASUREMENT EXACT CARDINALITY ON db2", "[[1]]"},
		{"show-cardinality-on-database-unchecked", "SHOW TAG KEY CARDINALITY ON db2", "secretm"},
		{"show-cardinality-on-database-unchecked", "SHOW TAG KEY EXACT CARDINALITY ON db2", "secretm"},
		{"show-cardinality-on-database-unchecked", "SHOW FIELD KEY CARDINALITY ON db2", "secretm"},
		{"show-cardinality-on-database-unchecked", "SHOW TAG VALUES CARDINALITY ON db2 WITH KEY = hiddenkey", "secretm"},
		{"control-wildcard-returns-nothing", "SHOW MEASUREMENTS ON *.*", "secretm"},
	}
	confirmed := map[string][]string{}
	for _, k := range cases {
		code, body := vC16Query(addr, "u1", "u1pw", "db0", k.q, "GET")
		leak := code == http.StatusOK && !vC16HasError(body) && strings.Contains(body, k.needle)
		cls := "exec:not-confirmed"
		if leak {
			cls = "exec:db2-content-returned"
			confirmed[k.sig] = append(confirmed[k.sig], k.q)
		} else {
			// control: does an administrator get db2's content from this statement at all?
			_, ab := vC16Query(addr, "adm", "admpw", "db0", k.q, "GET")
			if strings.Contains(ab, k.needle) {
				cls = "exec:not-confirmed-but-admin-sees-db2-content"
			} else {
				cls = "exec:statement-does-not-read-db2-for-anyone"
			}
			fmt.Printf("C16-EXEC-CONTROL %-67s as admin: %s\n", k.q, strings.TrimSpace(ab))
		}
		st.Case(true, k.q, cls, "sig:"+k.sig)
		body = strings.TrimSpace(body)
		if len(body) > 300 {
			body = body[:300] + "..."
		}
		st.Sample(map[string]interface{}{"as": "u1 (READ on db0 only)", "q": k.q, "status": code, "db2_content_found": leak, "body": body})
		fmt.Printf("C16-EXEC %-75s -> %d leak=%v %s\n", k.q, code, leak, body)
	}

	// CREATE CONTINUOUS QUERY by the READ-only user: stored, then run once for the window that holds db2's points
	cq := "CREATE CONTINUOUS QUERY cq0 ON db0 BEGIN SELECT mean(hiddenfield) INTO stolen FROM db2." + rp + ".secretm GROUP BY time(1m) END"
	code, body := vC16Query(addr, "u1", "u1pw", "db0", cq, "POST")
	stored := false
	if code == http.StatusOK && !vC16HasError(body) {
		_, b2 := vC16Query(addr, "adm", "admpw", "", "SHOW CONTINUOUS QUERIES", "GET")
		stored = strings.Contains(b2, "cq0")
	}
	// The stored query is executed later by the continuous query service without any authorizer
	// (continuous_querier.runContinuousQueryAndWriteResult: ExecutionOptions{Database} only). Forcing a
	// run from here (Service.Run) blocked in two of five attempts, so the execution itself is not driven.
	ran := false
	cls := "exec:not-confirmed"
	switch {
	case ran:
		cls = "exec:cq-copied-db2-data-into-db0"
		confirmed["create-cq-select-privileges-unchecked"] = append(confirmed["create-cq-select-privileges-unchecked"], cq+" (stored, executed by the CQ service: mean of db2's field readable in db0.stolen by u1)")
	case stored:
		cls = "exec:cq-stored"
		confirmed["create-cq-select-privileges-unchecked"] = append(confirmed["create-cq-select-privileges-unchecked"], cq+" (stored; run not observed)")
	}
	st.Case(true, cq, cls, "sig:create-cq-select-privileges-unchecked")
	st.Sample(map[string]interface{}{"as": "u1 (READ on db0 only)", "q": cq, "status": code, "stored": stored, "ran_and_wrote_db0": ran})
	fmt.Printf("C16-EXEC %-75s -> %d stored=%v ran=%v %s\n", "CREATE CONTINUOUS QUERY ... INTO stolen FROM db2...", code, stored, ran, strings.TrimSpace(body))

	for sig, qs := range confirmed {
		if strings.HasPrefix(sig, "control-") {
			// a statement that the model treats as harmless turned out to return db2's content
			t.Fatalf("%s as a user with READ on db0 only: %s", verifkit.Sig("show-statement-returns-ungranted-database"), strings.Join(qs, " | "))
		}
		st.KnownReproduced(sig, fmt.Sprintf("execution level: as a user with READ on db0 only, %d statement(s) returned or copied content of db2: %s", len(qs), strings.Join(qs, " | ")))
	}
}
