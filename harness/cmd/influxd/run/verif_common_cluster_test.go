//go:build verif

package run_test

// Bed K (DESIGN.md section 3): one single-server meta service plus three real data nodes
// (run.Server) in one process. Each data node is registered in the metadata under the address
// of a harness TCP proxy in front of its real cluster listener; the proxy understands the
// type-length-value framing of the inter-node protocol and can, per request, forward, refuse,
// delay, or cut the response after n bytes.

import (
	"encoding/binary"
	"fmt"
	"io"
	"net"
	"os"
	"path/filepath"
	"sort"
	"strings"
	"sync"
	"time"

	"github.com/influxdata/influxdb/cmd/influxd/run"
	"github.com/influxdata/influxdb/coordinator"
	"github.com/influxdata/influxdb/models"
	"github.com/influxdata/influxdb/query"
	"github.com/influxdata/influxdb/services/meta"
	"github.com/influxdata/influxdb/tcp"
	itoml "github.com/influxdata/influxdb/toml"
	"github.com/influxdata/influxql"
	"go.uber.org/zap"
	"verifkit"
)

// vkFreeAddr: a loopback address no other listener of this process has been given (verifkit.FreeAddr).
func vkFreeAddr() string { return verifkit.FreeAddr() }

// ---- fault proxy ---------------------------------------------------------------------

const (
	vkMsgCreateIteratorReq = 21
	vkMsgStoreReadFilterReq = 17
	vkMsgStoreReadGroupReq  = 19
)

// vkFault is what the proxy does with the next request(s) to its node.
type vkFault struct {
	Kind  string // "up" | "refuse" | "cut" | "delay"
	Bytes int64  // cut: number of response bytes to let through
	Delay time.Duration
	// OnlyType, if non-zero, restricts the fault to requests of that message type (the others pass)
	OnlyType byte
}

type vkReqLog struct {
	Type               byte
	ShardIDs           []uint64
	Fault              string
	CutOnFrameBoundary bool
}

type vkProxy struct {
	ln     net.Listener
	target string
	mu     sync.Mutex
	fault  vkFault
	log    []vkReqLog
	// frame-boundary avoidance for the known finding remote-stream-cut-at-frame-boundary
	avoidBoundary bool
	avoided       int
}

func vkNewProxy(target string) (*vkProxy, error) {
	ln, err := net.Listen("tcp", "127.0.0.1:0")
	if err != nil {
		return nil, err
	}
	p := &vkProxy{ln: ln, target: target, fault: vkFault{Kind: "up"}, avoidBoundary: true}
	go func() {
		for {
			c, err := ln.Accept()
			if err != nil {
				return
			}
			go p.handle(c)
		}
	}()
	return p, nil
}

func (p *vkProxy) addr() string { return p.ln.Addr().String() }

func (p *vkProxy) setFault(f vkFault) {
	p.mu.Lock()
	p.fault = f
	p.mu.Unlock()
}

func (p *vkProxy) takeLog() []vkReqLog {
	p.mu.Lock()
	defer p.mu.Unlock()
	l := p.log
	p.log = nil
	return l
}

// respState is shared between the request parser and the response copier of one connection.
type vkRespState struct {
	mu        sync.Mutex
	cut       int64 // remaining response bytes allowed; <0 = unlimited
	delay     time.Duration
	streaming bool // response is a TLV followed by uint32-length frames (iterator stream)
	allTLV    bool // response is a TLV followed by TLV frames (storage read stream)
	logIdx    int
}

func (p *vkProxy) handle(c net.Conn) {
	defer c.Close()
	u, err := net.Dial("tcp", p.target)
	if err != nil {
		return
	}
	defer u.Close()
	st := &vkRespState{cut: -1}
	done := make(chan struct{}, 2)
	// client -> upstream: parse request frames
	go func() {
		defer func() { done <- struct{}{} }()
		hdr := make([]byte, 1)
		// mux header byte
		if _, err := io.ReadFull(c, hdr); err != nil {
			return
		}
		if _, err := u.Write(hdr); err != nil {
			return
		}
		for {
			var th [9]byte
			if _, err := io.ReadFull(c, th[:]); err != nil {
				return
			}
			sz := int64(binary.BigEndian.Uint64(th[1:]))
			if sz < 0 || sz > 1<<30 {
				return
			}
			payload := make([]byte, sz)
			if _, err := io.ReadFull(c, payload); err != nil {
				return
			}
			p.mu.Lock()
			f := p.fault
			if f.OnlyType != 0 && f.OnlyType != th[0] {
				f = vkFault{Kind: "up"}
			}
			entry := vkReqLog{Type: th[0], Fault: f.Kind}
			if th[0] == vkMsgCreateIteratorReq {
				var req coordinator.CreateIteratorRequest
				if err := req.UnmarshalBinary(payload); err == nil {
					entry.ShardIDs = req.ShardIDs
				}
			}
			p.log = append(p.log, entry)
			idx := len(p.log) - 1
			p.mu.Unlock()
			if f.Kind == "refuse" {
				return
			}
			st.mu.Lock()
			st.cut, st.delay = -1, 0
			st.allTLV = th[0] == vkMsgStoreReadFilterReq || th[0] == vkMsgStoreReadGroupReq
			st.streaming = th[0] == vkMsgCreateIteratorReq || st.allTLV
			st.logIdx = idx
			if f.Kind == "cut" {
				st.cut = f.Bytes
			}
			if f.Kind == "delay" {
				st.delay = f.Delay
			}
			st.mu.Unlock()
			if _, err := u.Write(th[:]); err != nil {
				return
			}
			if _, err := u.Write(payload); err != nil {
				return
			}
		}
	}()
	// upstream -> client: copy the response applying delay / cut
	go func() {
		defer func() { done <- struct{}{} }()
		buf := make([]byte, 32*1024)
		var seen int64 // response bytes of the current request passed so far
		var fp vkFrameParser
		lastIdx := -1
		for {
			n, err := u.Read(buf)
			if n > 0 {
				st.mu.Lock()
				if st.logIdx != lastIdx {
					lastIdx, seen = st.logIdx, 0
					fp = vkFrameParser{allTLV: st.allTLV}
				}
				delay := st.delay
				st.delay = 0
				cut := st.cut
				streaming := st.streaming
				st.mu.Unlock()
				if delay > 0 {
					time.Sleep(delay)
				}
				data := buf[:n]
				if cut >= 0 && cut-seen < int64(len(data)) {
					pass := cut - seen
					if pass < 0 {
						pass = 0
					}
					if streaming {
						fp.feed(data[:pass])
						if fp.atBoundary() && seen+pass > 0 {
							// the stream would end exactly between two frames: known finding
							// remote-stream-cut-at-frame-boundary
							p.mu.Lock()
							avoid := p.avoidBoundary
							if avoid {
								p.avoided++
							} else if lastIdx >= 0 && lastIdx < len(p.log) {
								p.log[lastIdx].CutOnFrameBoundary = true
							}
							p.mu.Unlock()
							if avoid {
								pass++ // excluded by construction: cut one byte later, inside the next frame
							}
						}
					}
					if os.Getenv("VERIF_DEBUG_PROXY") != "" {
						fmt.Fprintf(os.Stderr, "PROXYDBG cut: seen=%d pass=%d cut=%d streaming=%v atBoundary=%v data=%x\n", seen, pass, cut, streaming, fp.atBoundary(), data[:pass])
					}
					c.Write(data[:pass])
					return
				}
				if streaming {
					fp.feed(data)
				}
				seen += int64(n)
				if _, werr := c.Write(data); werr != nil {
					return
				}
			}
			if err != nil {
				return
			}
		}
	}()
	<-done
}

// vkFrameParser follows the framing of a CreateIterator response: one TLV (type byte + 8-byte
// length + body) followed by frames of a uint32 length + body.
type vkFrameParser struct {
	tlvDone bool
	hdr     []byte
	need    int64
	allTLV  bool // storage read streams: every frame is a TLV (type byte + 8-byte length + body)
}

func (f *vkFrameParser) feed(b []byte) {
	for _, x := range b {
		if f.need > 0 {
			f.need--
			continue
		}
		f.hdr = append(f.hdr, x)
		if (!f.tlvDone || f.allTLV) && len(f.hdr) == 9 {
			f.need = int64(binary.BigEndian.Uint64(f.hdr[1:9]))
			f.hdr = f.hdr[:0]
			f.tlvDone = true
		} else if f.tlvDone && !f.allTLV && len(f.hdr) == 4 {
			f.need = int64(binary.BigEndian.Uint32(f.hdr))
			f.hdr = f.hdr[:0]
		}
	}
}

func (f *vkFrameParser) atBoundary() bool { return f.need == 0 && len(f.hdr) == 0 }

// ---- cluster -------------------------------------------------------------------------

type vkNode struct {
	srv   *run.Server
	proxy *vkProxy
	id    uint64
}

type vkCluster struct {
	dir      string
	metaSvc  *meta.Service
	metaAddr string
	nodes    []*vkNode
}

func vkStartMeta(dir string) (*meta.Service, string, error) {
	cfg := meta.NewConfig()
	cfg.BindAddress = vkFreeAddr()
	cfg.HTTPBindAddress = vkFreeAddr()
	cfg.Dir = dir
	cfg.SingleServer = true
	cfg.LoggingEnabled = false
	ln, err := net.Listen("tcp", cfg.BindAddress)
	if err != nil {
		return nil, "", err
	}
	mux := tcp.NewMux()
	s := meta.NewService(cfg)
	s.RPCClient = coordinator.NewClient(nil, coordinator.DefaultDialTimeout)
	s.RaftListener = mux.Listen(meta.MuxHeader)
	go mux.Serve(ln)
	if err := s.Open(); err != nil {
		return nil, "", err
	}
	return s, cfg.HTTPBindAddress, nil
}

func vkStartData(dir, metaAddr string, readerTimeout time.Duration) (*vkNode, error) {
	c := run.NewConfig()
	c.BindAddress = vkFreeAddr()
	c.HTTPD.BindAddress = vkFreeAddr()
	c.HTTPD.LogEnabled = false
	c.Meta.Dir = filepath.Join(dir, "meta")
	c.Data.Dir = filepath.Join(dir, "data")
	c.Data.WALDir = filepath.Join(dir, "wal")
	c.HintedHandoff.Dir = filepath.Join(dir, "hh")
	c.ReportingDisabled = true
	c.Monitor.StoreEnabled = false
	c.GraphiteInputs, c.CollectdInputs, c.OpenTSDBInputs, c.UDPInputs = nil, nil, nil, nil
	c.ContinuousQuery.Enabled = false
	c.Retention.Enabled = false
	c.Precreator.Enabled = false
	c.AntiEntropy.Enabled = false
	c.Subscriber.Enabled = false
	c.Coordinator.WriteTimeout = itoml.Duration(5 * time.Second)
	c.Coordinator.ShardReaderTimeout = itoml.Duration(readerTimeout)
	s, err := run.NewServer(c, &run.BuildInfo{Version: "verif"})
	if err != nil {
		return nil, err
	}
	s.Logger = zap.NewNop()
	if err := s.Open(); err != nil {
		return nil, err
	}
	p, err := vkNewProxy(s.TCPAddr())
	if err != nil {
		return nil, err
	}
	s.MetaClient.SetTCPAddr(p.addr())
	s.MetaClient.SetMetaServers([]string{metaAddr})
	if _, err := s.MetaClient.CreateDataNode(s.HTTPAddr(), p.addr()); err != nil {
		return nil, err
	}
	return &vkNode{srv: s, proxy: p}, nil
}

func vkStartCluster(dir string, n int, readerTimeout time.Duration) (*vkCluster, error) {
	ms, maddr, err := vkStartMeta(filepath.Join(dir, "m"))
	if err != nil {
		return nil, err
	}
	cl := &vkCluster{dir: dir, metaSvc: ms, metaAddr: maddr}
	for i := 0; i < n; i++ {
		nd, err := vkStartData(filepath.Join(dir, fmt.Sprintf("d%d", i)), maddr, readerTimeout)
		if err != nil {
			cl.close()
			return nil, err
		}
		cl.nodes = append(cl.nodes, nd)
	}
	// wait until every node knows every node and its own id
	deadline := time.Now().Add(90 * time.Second)
	for {
		ok := true
		for _, nd := range cl.nodes {
			if len(nd.srv.MetaClient.DataNodes()) != n || nd.srv.MetaClient.NodeID() == 0 {
				ok = false
			}
		}
		if ok {
			break
		}
		if time.Now().After(deadline) {
			cl.close()
			return nil, fmt.Errorf("data nodes did not register within 90s")
		}
		time.Sleep(20 * time.Millisecond)
	}
	for _, nd := range cl.nodes {
		nd.id = nd.srv.MetaClient.NodeID()
	}
	return cl, nil
}

func (cl *vkCluster) close() {
	for _, nd := range cl.nodes {
		nd.srv.Close()
		nd.proxy.ln.Close()
	}
	if cl.metaSvc != nil {
		cl.metaSvc.Close()
	}
}

func (cl *vkCluster) nodeByID(id uint64) *vkNode {
	for _, nd := range cl.nodes {
		if nd.id == id {
			return nd
		}
	}
	return nil
}

// createDB creates database db with retention policy "rp" and waits until every node sees it.
func (cl *vkCluster) createDB(db string, rf int, shardDur time.Duration) error {
	spec := &meta.RetentionPolicySpec{Name: "rp", ReplicaN: &rf, ShardGroupDuration: shardDur}
	if _, err := cl.nodes[0].srv.MetaClient.CreateDatabaseWithRetentionPolicy(db, spec); err != nil {
		return err
	}
	return cl.waitAll(func(mc *meta.Client) bool { return mc.Database(db) != nil })
}

func (cl *vkCluster) waitAll(pred func(mc *meta.Client) bool) error {
	deadline := time.Now().Add(90 * time.Second)
	for {
		ok := true
		for _, nd := range cl.nodes {
			if !pred(nd.srv.MetaClient) {
				ok = false
			}
		}
		if ok {
			return nil
		}
		if time.Now().After(deadline) {
			return fmt.Errorf("metadata did not propagate within 90s")
		}
		time.Sleep(10 * time.Millisecond)
	}
}

// syncMeta waits until every node's metadata cache has reached the newest index any node has
// seen (shard groups created by a write on one node reach the others by long polling).
func (cl *vkCluster) syncMeta() error {
	// a command that always goes through raft: when it returns, node 0's cache holds every
	// metadata change committed before it (including changes made by the meta service itself)
	cl.nodes[0].srv.MetaClient.DropDatabase("zz_sync_barrier")
	var max uint64
	for _, nd := range cl.nodes {
		if d := nd.srv.MetaClient.Data(); d.Index > max {
			max = d.Index
		}
	}
	return cl.waitAll(func(mc *meta.Client) bool { d := mc.Data(); return d.Index >= max })
}

// dropDB retires a case's database. The drop itself is deferred by eight cases: a node may still be streaming
// the answer to a request whose connection the proxy cut, and dropping the database under such a stream makes
// the node dereference unmapped index memory (observed: SIGSEGV in tsdb.(*MeasurementFieldSet).Fields under
// storage/reads array cursors when a database is dropped during a storage read - a genuine crash, outside the
// properties decided here, see DESIGN.md section 8.6) and kills the whole test process.
func (cl *vkCluster) dropDB(db string) {
	vkDropMu.Lock()
	vkDropQueue = append(vkDropQueue, db)
	var victim string
	if len(vkDropQueue) > 8 {
		victim, vkDropQueue = vkDropQueue[0], vkDropQueue[1:]
	}
	vkDropMu.Unlock()
	if victim != "" {
		cl.dropDBNow(victim)
	}
}

var (
	vkDropMu    sync.Mutex
	vkDropQueue []string
)

func (cl *vkCluster) dropDBNow(db string) {
	cl.nodes[0].srv.MetaClient.DropDatabase(db)
	for _, nd := range cl.nodes {
		nd.srv.TSDBStore.DeleteDatabase(db)
	}
	cl.waitAll(func(mc *meta.Client) bool { return mc.Database(db) == nil })
}

func (cl *vkCluster) write(node int, db string, pts []models.Point) error {
	return cl.nodes[node].srv.PointsWriter.WritePointsPrivileged(db, "rp", models.ConsistencyLevelAll, pts)
}

// vkIsTimeout: the error text of a request that ran into one of the cluster's internal timeouts (never a
// correctness signal: such requests are retried, and a repeated timeout makes the case inconclusive).
func vkIsTimeout(e string) bool {
	return e != "" && (strings.Contains(e, "timeout") || strings.Contains(e, "deadline"))
}

// writeRP writes into a named retention policy at consistency all, repeating the idempotent write a few times
// (a failure with every node up can only be a timeout of the loaded machine).
func (cl *vkCluster) writeRP(node int, db, rp string, pts []models.Point) error {
	var err error
	for try := 0; try < 6; try++ {
		if err = cl.nodes[node].srv.PointsWriter.WritePointsPrivileged(db, rp, models.ConsistencyLevelAll, pts); err == nil {
			return nil
		}
		time.Sleep(time.Duration(200*(try+1)) * time.Millisecond)
	}
	return err
}

// writeAllUp is write for the set-up phase of a case, when every node is up and no fault is injected: a
// failure there can only be a timeout of the loaded machine (the cluster's internal timeouts are 2 s),
// so the idempotent write is repeated a few times before the bed gives up.
func (cl *vkCluster) writeAllUp(node int, db string, pts []models.Point) error {
	var err error
	for try := 0; try < 6; try++ {
		if err = cl.write(node, db, pts); err == nil {
			return nil
		}
		time.Sleep(time.Duration(200*(try+1)) * time.Millisecond)
	}
	return err
}

// vkSetupFailed reports a failure of the bed itself (a set-up step that is not the property under test):
// the driver counts the run as inconclusive (exit 2), never as a violation.
func vkSetupFailed(t interface {
	Fatalf(format string, args ...interface{})
}, format string, args ...interface{}) {
	t.Fatalf("VERIF-INCONCLUSIVE harness: "+format, args...)
}

// shardOwners returns shard id -> owner node ids for db.rp, waiting for the local caches to agree is
// the caller's business.
func (cl *vkCluster) shardOwners(db string) map[uint64][]uint64 {
	out := map[uint64][]uint64{}
	rpi, err := cl.nodes[0].srv.MetaClient.RetentionPolicy(db, "rp")
	if err != nil || rpi == nil {
		return out
	}
	for _, sg := range rpi.ShardGroups {
		if sg.Deleted() {
			continue
		}
		for _, sh := range sg.Shards {
			for _, o := range sh.Owners {
				out[sh.ID] = append(out[sh.ID], o.NodeID)
			}
		}
	}
	return out
}

// vkResult is the canonical text of a statement result, or the error.
type vkResult struct {
	Err  string
	Rows []string
}

func (r vkResult) String() string {
	if r.Err != "" {
		return "ERR(" + r.Err + ")"
	}
	return strings.Join(r.Rows, "\n")
}

// query runs one statement on a node and canonicalises the result (series sorted by name+tags).
func (cl *vkCluster) query(node int, db, q string) vkResult {
	pq, err := influxql.ParseQuery(q)
	if err != nil {
		return vkResult{Err: "parse: " + err.Error()}
	}
	closing := make(chan struct{})
	defer close(closing)
	ch := cl.nodes[node].srv.QueryExecutor.ExecuteQuery(pq, query.ExecutionOptions{Database: db, ReadOnly: false}, closing)
	var out vkResult
	for r := range ch {
		if r.Err != nil {
			out.Err = r.Err.Error()
			continue
		}
		var ss []string
		for _, row := range r.Series {
			var tags []string
			for k, v := range row.Tags {
				tags = append(tags, k+"="+v)
			}
			sort.Strings(tags)
			var sb strings.Builder
			fmt.Fprintf(&sb, "series %s{%s} cols=%v partial=%v\n", row.Name, strings.Join(tags, ","), row.Columns, row.Partial)
			for _, v := range row.Values {
				fmt.Fprintf(&sb, "  %v\n", v)
			}
			ss = append(ss, sb.String())
		}
		sort.Strings(ss)
		out.Rows = append(out.Rows, ss...)
	}
	return out
}

func vkMkdirTemp(prefix string) string {
	d, err := os.MkdirTemp("", prefix)
	if err != nil {
		panic(err)
	}
	return d
}

// vkReaderTimeout is the shard reader timeout of the shared cluster; a test that wants another value sets it
// before its first call to vkSharedCluster (every test runs in a process of its own).
var vkReaderTimeout = 2 * time.Second

var (
	vkOnce    sync.Once
	vkShared  *vkCluster
	vkErr     error
	vkCaseSeq int
)

func vkSharedCluster() (*vkCluster, error) {
	vkOnce.Do(func() {
		// ports are picked by binding to port 0 and releasing it; another test process may take one in between,
		// so a start that fails with "address already in use" is repeated with fresh ports
		for try := 0; try < 4; try++ {
			dir := vkMkdirTemp("bedK")
			vkShared, vkErr = vkStartCluster(dir, 3, vkReaderTimeout)
			if vkErr == nil || !strings.Contains(vkErr.Error(), "address already in use") {
				break
			}
		}
	})
	return vkShared, vkErr
}

