//go:build verif

package run_test

// C18 (b) - copy-shard between real data nodes under faults on the backup stream. DESIGN.md C18.

import (
	"context"
	"fmt"
	"io"
	"net/http"
	"net/url"
	"os"
	"sort"
	"strings"
	"testing"
	"time"

	"github.com/influxdata/influxdb/models"
	"github.com/influxdata/influxdb/query"
	"github.com/influxdata/influxdb/tsdb/engine/tsm1"
	"github.com/influxdata/influxql"
	"pgregory.net/rapid"
	"verifkit"
)

// vkReadShard reads field v of measurement m from one node's local copy of a shard.
func vkReadShard(nd *vkNode, shardID uint64) ([]string, error) {
	sh := nd.srv.TSDBStore.Shard(shardID)
	if sh == nil {
		return nil, fmt.Errorf("shard %d not on node %d", shardID, nd.id)
	}
	itr, err := sh.CreateIterator(context.Background(), &influxql.Measurement{Name: "m"}, query.IteratorOptions{
		Expr: &influxql.VarRef{Val: "v"}, Ascending: true, StartTime: influxql.MinTime, EndTime: influxql.MaxTime, Dimensions: []string{"h"}, Ordered: true})
	if err != nil {
		return nil, err
	}
	if itr == nil {
		return nil, nil
	}
	defer itr.Close()
	fi, ok := itr.(query.FloatIterator)
	if !ok {
		return nil, fmt.Errorf("iterator type %T", itr)
	}
	var out []string
	for {
		p, err := fi.Next()
		if err != nil {
			return nil, err
		}
		if p == nil {
			break
		}
		out = append(out, fmt.Sprintf("%s %d %v", p.Tags.ID(), p.Time, p.Value))
	}
	sort.Strings(out)
	return out, nil
}

func TestVerifC18CopyShard(t *testing.T) {
	stats := verifkit.For("C18", "TestVerifC18CopyShard",
		"bed K: a fresh RF=1 database with one shard group; the shard on its owner A holds snapshotted files plus cache data; copy-shard A->B is requested through the meta HTTP handler while A's proxy forwards, refuses, or cuts the backup stream after n bytes; after success B's local shard content must equal A's and B must be listed as owner; after a failure the call must report an error and B must not be listed as owner, and the copy is requested again without a fault: if that is acknowledged B's content must equal A's. non-trivial = the backup stream was refused or cut; distinct = hash of (files, cache, fault, outcome)")
	defer stats.Flush()
	cl, err := vkSharedCluster()
	if err != nil {
		vkSetupFailed(t, "cluster: %v", err)
	}
	rapid.Check(t, func(rt *rapid.T) {
		vkCaseSeq++
		db := fmt.Sprintf("c18_%d_%d", os.Getpid(), vkCaseSeq)
		if err := cl.createDB(db, 1, 24*time.Hour); err != nil {
			vkSetupFailed(rt, "createDB: %v", err)
		}
		defer cl.dropDB(db)
		for _, nd := range cl.nodes {
			nd.proxy.setFault(vkFault{Kind: "up"})
		}
		base := int64(1600000000) - int64(1600000000)%86400
		mk := func(n, off int) []models.Point {
			var pts []models.Point
			for i := 0; i < n; i++ {
				// one series so that every point lands in one shard of the group
				pts = append(pts, models.MustNewPoint("m", models.NewTags(map[string]string{"h": "a"}), models.Fields{"v": float64(off + i)}, time.Unix(base+int64(off+i), 0)))
			}
			return pts
		}
		nfiles := rapid.IntRange(0, 3).Draw(rt, "files")
		total := 0
		var shardID uint64
		var src *vkNode
		for f := 0; f <= nfiles; f++ {
			n := rapid.IntRange(1, 300).Draw(rt, "n")
			if err := cl.write(0, db, mk(n, total)); err != nil {
				rt.Fatalf("write: %v", err)
			}
			total += n
			if shardID == 0 {
				cl.syncMeta()
				for id, os := range cl.shardOwners(db) {
					nd := cl.nodeByID(os[0])
					if nd != nil && nd.srv.TSDBStore.Shard(id) != nil {
						if rows, _ := vkReadShard(nd, id); len(rows) > 0 {
							shardID, src = id, nd
						}
					}
				}
				if src == nil {
					rt.Fatalf("harness: could not find the shard holding the data")
				}
			}
			if f < nfiles { // flush to a file, keep the last batch in the cache
				if e, err := src.srv.TSDBStore.Shard(shardID).Engine(); err == nil {
					if te, ok := e.(*tsm1.Engine); ok {
						te.WriteSnapshot()
					}
				}
			}
		}
		var dst *vkNode
		for _, nd := range cl.nodes {
			if nd != src {
				dst = nd
				break
			}
		}
		want, err := vkReadShard(src, shardID)
		if err != nil || len(want) != total {
			rt.Fatalf("harness: source shard reads %d rows (err %v), wrote %d", len(want), err, total)
		}
		fault := vkFault{Kind: "up"}
		switch rapid.IntRange(0, 3).Draw(rt, "fault") {
		case 1:
			fault = vkFault{Kind: "refuse"}
		case 2, 3:
			fault = vkFault{Kind: "cut", Bytes: int64(rapid.OneOf(rapid.IntRange(0, 3000), rapid.IntRange(0, 40000), rapid.SampledFrom([]int{0, 1, 511, 512, 513, 1024, 1536, 2048})).Draw(rt, "cutBytes"))}
		}
		src.proxy.setFault(fault)
		resp, err := http.PostForm("http://"+cl.metaAddr+"/copy-shard", url.Values{"src": {src.proxy.addr()}, "dest": {dst.proxy.addr()}, "shard": {fmt.Sprint(shardID)}})
		src.proxy.setFault(vkFault{Kind: "up"})
		if err != nil {
			rt.Fatalf("harness: POST /copy-shard: %v", err)
		}
		body, _ := io.ReadAll(resp.Body)
		resp.Body.Close()
		ok := resp.StatusCode/100 == 2
		cl.syncMeta()
		owners := cl.shardOwners(db)[shardID]
		dstOwner := false
		for _, o := range owners {
			if o == dst.id {
				dstOwner = true
			}
		}
		outcome := "failed"
		if ok {
			outcome = "copied"
			if !dstOwner {
				rt.Fatalf("%s copy-shard reported success (%d) but node %d is not listed as owner of shard %d (owners %v)", verifkit.Sig("copy-success-without-owner"), resp.StatusCode, dst.id, shardID, owners)
			}
			got, err := vkReadShard(dst, shardID)
			if err != nil {
				rt.Fatalf("%s copy-shard reported success but the destination cannot read the shard: %v", verifkit.Sig("copied-shard-unreadable"), err)
			}
			if strings.Join(got, "\n") != strings.Join(want, "\n") {
				sig := "copied-shard-differs"
				if fault.Kind == "cut" {
					sig = "cut-copy-acknowledged"
				}
				rt.Fatalf("%s copy-shard (%s after %d bytes) reported success but the destination holds %d rows, the source %d", verifkit.Sig(sig), fault.Kind, fault.Bytes, len(got), len(want))
			}
		} else if dstOwner {
			rt.Fatalf("%s copy-shard failed (%d %s) but node %d is advertised as owner of shard %d", verifkit.Sig("failed-copy-advertised-as-replica"), resp.StatusCode, strings.TrimSpace(string(body)), dst.id, shardID)
		}
		if !ok && fault.Kind != "up" {
			// the operator's next step after a failed copy: request it again, now without a fault. Whatever the failed
			// attempt left on the destination, a copy that is acknowledged must be complete.
			resp2, err := http.PostForm("http://"+cl.metaAddr+"/copy-shard", url.Values{"src": {src.proxy.addr()}, "dest": {dst.proxy.addr()}, "shard": {fmt.Sprint(shardID)}})
			if err != nil {
				rt.Fatalf("harness: POST /copy-shard (retry): %v", err)
			}
			io.ReadAll(resp2.Body)
			resp2.Body.Close()
			cl.syncMeta()
			if resp2.StatusCode/100 == 2 {
				outcome = "failed-then-copied"
				listed := false
				for _, o := range cl.shardOwners(db)[shardID] {
					if o == dst.id {
						listed = true
					}
				}
				if !listed {
					rt.Fatalf("%s the retried copy-shard reported success but node %d is not listed as owner of shard %d", verifkit.Sig("copy-success-without-owner"), dst.id, shardID)
				}
				got, err := vkReadShard(dst, shardID)
				if err != nil {
					rt.Fatalf("%s the retried copy-shard reported success but the destination cannot read the shard: %v", verifkit.Sig("copied-shard-unreadable"), err)
				}
				if strings.Join(got, "\n") != strings.Join(want, "\n") {
					rt.Fatalf("%s copy-shard failed (%s after %d bytes), was requested again without a fault and reported success, but the destination holds %d rows, the source %d", verifkit.Sig("retried-copy-acknowledged-but-incomplete"), fault.Kind, fault.Bytes, len(got), len(want))
				}
			} else {
				stats.Class("observation:retry-after-failed-copy-failed", 1)
			}
		}
		if fault.Kind == "up" && !ok {
			// observation, not judged: the property demands that a copy is exact or fails cleanly, not that it
			// succeeds. On a heavily loaded machine about 1 fault-free copy in 500 fails because the source's backup
			// ends early (the destination then refuses the stream: no end-of-archive marker) - the clean failure
			// was checked above (the destination is not advertised as owner).
			stats.Class("observation:fault-free-copy-failed", 1)
		}
		stats.Case(fault.Kind != "up", fmt.Sprintf("files%d total%d %s %s", nfiles, total, fault.Kind, outcome), "fault:"+fault.Kind, "outcome:"+outcome, fmt.Sprintf("files:%d", nfiles))
		if stats.WantSample() {
			stats.Sample(map[string]interface{}{"files": nfiles, "rows": total, "fault": fault.Kind, "cut_bytes": fault.Bytes, "http_status": resp.StatusCode, "dest_is_owner": dstOwner})
		} else {
			stats.Sample(nil)
		}
	})
}
