//go:build verif

package tsdb_test

// Directed campaigns for the known findings of C14. Each reproduces one shape on purpose, prints
// the KNOWN-FINDING marker when the defect is still there and passes silently when it is not.
// They never fail for the known shape; anything else they notice (a dropped series coming back in
// a series listing, a live value missing) is a violation with its own signature.

import (
	"fmt"
	"strings"
	"testing"
	"time"

	"github.com/influxdata/influxdb/models"
	"github.com/influxdata/influxql"
	"verifkit"
)

func vC14Point(key string, ts int64) models.Point {
	name, tags := vDualKeyParts(key)
	p, err := models.NewPoint(name, models.NewTags(tags), models.Fields{"v": 1.0}, time.Unix(0, ts))
	if err != nil {
		panic(err)
	}
	return p
}

type vC14KF struct {
	t   *testing.T
	st  *verifkit.Stats
	bed *vDualBed
	log []string
}

func vC14NewKF(t *testing.T, st *verifkit.Stats, cfg vDualCfg) *vC14KF {
	b, err := vDualNewBed(cfg)
	if err != nil {
		t.Fatalf("harness: %v", err)
	}
	return &vC14KF{t: t, st: st, bed: b, log: []string{fmt.Sprintf("config %+v", cfg)}}
}

func (k *vC14KF) write(sh uint64, keys ...string) {
	var pts []models.Point
	for _, key := range keys {
		pts = append(pts, vC14Point(key, (int64(sh)-1)*vDualShardSpan+500))
	}
	k.log = append(k.log, fmt.Sprintf("write shard=%d %v", sh, keys))
	if err := k.bed.Write(sh, pts); err != nil {
		k.t.Fatalf("%s write: %v", verifkit.Sig("write-error"), err)
	}
}

func (k *vC14KF) drop(names []string, cond string) {
	var e influxql.Expr
	if cond != "" {
		e = influxql.MustParseExpr(cond)
	}
	k.log = append(k.log, fmt.Sprintf("DROP/DELETE FROM %v WHERE %s", names, cond))
	err, hung := k.bed.DeleteSeries(names, e)
	if hung {
		k.t.Fatalf("%s %v", verifkit.Sig("drop-series-hang"), err)
	}
	if err != nil {
		k.t.Fatalf("%s %v", verifkit.Sig("drop-series-error"), err)
	}
}

func (k *vC14KF) must(l []string, err error) []string {
	if err != nil {
		k.t.Fatalf("%s listing failed: %v\n%s", verifkit.Sig("listing-error"), err, strings.Join(k.log, "\n"))
	}
	return l
}

func (k *vC14KF) expect(sig, what string, got []string, want ...string) {
	if d := vDualDiff(got, want); d != "" {
		k.t.Fatalf("%s %s: %s\n%s", verifkit.Sig(sig), what, d, strings.Join(k.log, "\n"))
	}
}

func vC14Has(l []string, s string) bool {
	for _, x := range l {
		if x == s {
			return true
		}
	}
	return false
}

// write m1,a=x; write m1; DROP SERIES FROM m1 WHERE a='x'  ->  tsi1 still lists key a / value x.
func TestVerifC14KFTagValueLingers(t *testing.T) {
	st := verifkit.For("C14", "TestVerifC14KFTagValueLingers", "directed: the last series carrying a tag value is dropped while its measurement stays; with one log file, with index files, and after reopen")
	defer st.Flush()
	for _, logSize := range []int{vC14BigLog, 1} {
		for _, reopen := range []bool{false, true} {
			k := vC14NewKF(t, st, vDualCfg{NShards: 1, LogSize: logSize, Partitions: 1, CacheSize: 100})
			k.write(1, "m1,a=x")
			k.write(1, "m1")
			k.drop([]string{"m1"}, "a = 'x'")
			if reopen {
				k.log = append(k.log, "reopen")
				if err := k.bed.Reopen(); err != nil {
					t.Fatalf("%s %v", verifkit.Sig("reopen-error"), err)
				}
				k.bed.Quiesce()
			}
			all := k.bed.shardIDs()
			// everything that is not the known shape stays asserted
			k.expect("tagkeys-inmem-unexpected", "inmem TagKeys", k.must(k.bed.TagKeys(0, all, "")))
			k.expect("tagvalues-inmem-unexpected", "inmem TagValues", k.must(k.bed.TagValues(0, all, "_tagKey = 'a'")))
			for i, kind := range vDualKinds {
				k.expect("series-listing-"+kind+"-wrong", kind+" series of m1", k.must(k.bed.SeriesByExpr(i, all, "m1", nil)), "m1")
				k.expect("series-predicate-"+kind+"-unexpected", kind+" series a='x'", k.must(k.bed.SeriesByExpr(i, all, "m1", &vDualPred{Op: "cmp", Key: "a", Cmp: "=", Val: "x"})))
				k.expect("tagvalues-where-"+kind+"-unexpected", kind+" TagValues WHERE a='x'", k.must(k.bed.TagValues(i, all, "_tagKey = 'a' AND a = 'x'")))
			}
			keys := k.must(k.bed.TagKeys(1, all, ""))
			vals := k.must(k.bed.TagValues(1, all, "_tagKey = 'a'"))
			names := k.must(k.bed.MeasurementNames(1, &vDualPred{Op: "cmp", Key: "a", Cmp: "=", Val: "x"}))
			rep := vC14Has(keys, "m1 a") || vC14Has(vals, "m1 a x") || vC14Has(names, "m1")
			if rep {
				st.KnownReproduced(vC14SigLinger, fmt.Sprintf("after write m1,a=x; write m1; DROP SERIES FROM m1 WHERE a='x' (logsize=%d reopen=%v) tsi1 lists TagKeys=%v TagValues(a)=%v MeasurementNames(a='x')=%v; inmem lists none", logSize, reopen, keys, vals, names))
			}
			st.Case(true, fmt.Sprintf("linger/%d/%v/%v", logSize, reopen, rep), fmt.Sprintf("kf:lingers reproduced=%v", rep))
			st.Sample(k.log)
			k.bed.Close()
		}
	}
}

// write m0,a=x,c=y; DROP SERIES FROM m0 (measurement goes); write m0,a=x  ->  with index files
// tsi1 lists key c / value y of the dropped incarnation again.
func TestVerifC14KFDroppedMeasurementTagsResurface(t *testing.T) {
	st := verifkit.For("C14", "TestVerifC14KFDroppedMeasurementTagsResurface", "directed: a measurement is dropped as a whole, its log file is compacted into an index file, the measurement is re-created with fewer tags")
	defer st.Flush()
	for _, how := range []string{"drop-series", "drop-measurement"} {
		for _, reopen := range []bool{false, true} {
			k := vC14NewKF(t, st, vDualCfg{NShards: 1, LogSize: 1, Partitions: 1, CacheSize: 100})
			k.write(1, "m0,a=x,c=y")
			if how == "drop-series" {
				k.drop([]string{"m0"}, "")
			} else {
				k.log = append(k.log, "DROP MEASUREMENT m0")
				if err, hung := k.bed.DeleteMeasurement("m0"); err != nil || hung {
					t.Fatalf("%s %v", verifkit.Sig("drop-measurement-error"), err)
				}
			}
			all := k.bed.shardIDs()
			for i, kind := range vDualKinds {
				k.expect("measurement-names-"+kind+"-unexpected", kind+" names after drop", k.must(k.bed.MeasurementNames(i, nil)))
				k.expect("tagkeys-"+kind+"-unexpected", kind+" tag keys after drop", k.must(k.bed.TagKeys(i, all, "")))
			}
			k.write(1, "m0,a=x")
			if reopen {
				k.log = append(k.log, "reopen")
				if err := k.bed.Reopen(); err != nil {
					t.Fatalf("%s %v", verifkit.Sig("reopen-error"), err)
				}
				k.bed.Quiesce()
			}
			k.expect("tagkeys-inmem-wrong", "inmem TagKeys", k.must(k.bed.TagKeys(0, all, "")), "m0 a")
			for i, kind := range vDualKinds {
				k.expect("series-listing-"+kind+"-wrong", kind+" series of m0", k.must(k.bed.SeriesByExpr(i, all, "m0", nil)), "m0,a=x")
				k.expect("series-predicate-"+kind+"-unexpected", kind+" series c='y'", k.must(k.bed.SeriesByExpr(i, all, "m0", &vDualPred{Op: "cmp", Key: "c", Cmp: "=", Val: "y"})))
			}
			keys := k.must(k.bed.TagKeys(1, all, ""))
			vals := k.must(k.bed.TagValues(1, all, "_tagKey = 'c'"))
			if !vC14Has(keys, "m0 a") {
				t.Fatalf("%s tsi1 misses live key a: %v", verifkit.Sig("tagkeys-tsi1-missing"), keys)
			}
			rep := vC14Has(keys, "m0 c") || vC14Has(vals, "m0 c y")
			if rep {
				st.KnownReproduced(vC14SigResurface, fmt.Sprintf("after write m0,a=x,c=y; %s m0; write m0,a=x (log file size 1, reopen=%v) tsi1 lists TagKeys=%v TagValues(c)=%v; inmem lists only key a", how, reopen, keys, vals))
			}
			st.Case(true, fmt.Sprintf("resurface/%s/%v/%v", how, reopen, rep), fmt.Sprintf("kf:resurface reproduced=%v", rep))
			st.Sample(k.log)
			k.bed.Close()
		}
	}
}

// series m1 lives in shards 1 and 2; a time-range delete removes it from shard 2 only  ->  with
// index files the tsi1 index of shard 2 still yields it from its series iterators.
func TestVerifC14KFShardListsSeriesDroppedThere(t *testing.T) {
	st := verifkit.For("C14", "TestVerifC14KFShardListsSeriesDroppedThere", "directed: a series living in two shards is removed from one of them by a time-range delete; the shard-local tsi1 listings of that shard are read")
	defer st.Flush()
	for _, reopen := range []bool{false, true} {
		k := vC14NewKF(t, st, vDualCfg{NShards: 2, LogSize: 1, Partitions: 1, CacheSize: 100})
		k.write(1, "m1")
		k.write(2, "m1", "m1,a=x")
		k.drop([]string{"m1"}, "a = '' AND time >= 1000 AND time <= 1999")
		if reopen {
			k.log = append(k.log, "reopen")
			if err := k.bed.Reopen(); err != nil {
				t.Fatalf("%s %v", verifkit.Sig("reopen-error"), err)
			}
			k.bed.Quiesce()
		}
		for i, kind := range vDualKinds {
			set, n, err := k.bed.ShardSeries(i, 2)
			k.expect("shard-series-set-"+kind+"-wrong", kind+" series id set of shard 2", k.must(set, err), "m1,a=x")
			if n != 1 {
				t.Fatalf("%s %s SeriesN of shard 2 = %d, want 1", verifkit.Sig("shard-seriesN-"+kind), kind, n)
			}
			k.expect("series-listing-"+kind+"-wrong", kind+" database-wide series of m1", k.must(k.bed.SeriesByExpr(i, k.bed.shardIDs(), "m1", nil)), "m1", "m1,a=x")
		}
		got := k.must(k.bed.SeriesByExpr(1, []uint64{2}, "m1", nil))
		if !vC14Has(got, "m1,a=x") {
			t.Fatalf("%s shard 2 misses live series: %v", verifkit.Sig("pershard-series-listing-tsi1-missing"), got)
		}
		rep := vC14Has(got, "m1")
		if rep {
			st.KnownReproduced(vC14SigGhost, fmt.Sprintf("m1 written to shards 1 and 2, then DELETE FROM m1 WHERE a='' AND time in shard 2 (reopen=%v): shard 2's tsi1 index still lists %v (its series id set holds only m1,a=x)", reopen, got))
		}
		st.Case(true, fmt.Sprintf("ghost/%v/%v", reopen, rep), fmt.Sprintf("kf:ghost reproduced=%v", rep))
		st.Sample(k.log)
		k.bed.Close()
	}
}

// DROP SERIES over two measurements with a 1-byte log file: the tombstones of the first
// measurement start a log compaction that cannot finish while Store.DeleteSeries still holds the
// first measurement's iterator, and the second measurement's delete waits for that compaction.
// (Same root cause as C19's delete-vs-tsi-compaction-deadlock; no second goroutine is needed.)
func TestVerifC14KFMultiMeasurementDeleteHang(t *testing.T) {
	st := verifkit.For("C14", "TestVerifC14KFMultiMeasurementDeleteHang", "directed: DROP SERIES without FROM clause over two measurements with a tsi1 log file size of 1 byte, under a 20 s watchdog")
	defer st.Flush()
	k := vC14NewKF(t, st, vDualCfg{NShards: 1, LogSize: 1, Partitions: 1, CacheSize: 100})
	k.write(1, "m0,a=x", "m1,a=x")
	k.bed.Quiesce()
	s := k.bed.stores[1]
	var err error
	ok := verifkit.Watch(20*time.Second, func() {
		err = s.DeleteSeries(vDualDB, nil, influxql.MustParseExpr("a = 'x'"))
	})
	if !ok {
		st.KnownReproduced(vC14SigDeadlock, "single-threaded: write m0,a=x m1,a=x; DROP SERIES WHERE a='x' on a tsi1 store with max-index-log-file-size=1 does not return within 20 s")
		st.Case(true, "hang/true", "kf:multi-measurement-delete-hang reproduced=true")
		st.Sample(k.log)
		k.bed.stores[1] = nil // wedged; leave its directory to the driver's cleanup
		k.bed.stores[0].Close()
		k.bed.stores[0] = nil
		return
	}
	if err != nil {
		t.Fatalf("%s %v", verifkit.Sig("drop-series-error"), err)
	}
	st.Case(true, "hang/false", "kf:multi-measurement-delete-hang reproduced=false")
	st.Sample(k.log)
	k.bed.Close()
}

// series written and compacted into an index file, one of them dropped (tombstone stays in the
// log file, id deleted from the series file), series file compacted, store reopened  ->  the
// tombstone entry is skipped at replay because the id has no key any more, and the dropped id is
// back in the shard's series id set / SeriesN.
func TestVerifC14KFSeriesTombstoneLostOnReplay(t *testing.T) {
	st := verifkit.For("C14", "TestVerifC14KFSeriesTombstoneLostOnReplay", "directed: insert in an index file, tombstone in the log file, series-file compaction, reopen")
	defer st.Flush()
	k := vC14NewKF(t, st, vDualCfg{NShards: 1, LogSize: 64, Partitions: 1, CacheSize: 100})
	k.write(1, "m0,a=x", "m0,a=y", "m0,a=z", "m0,b=x", "m0,b=y", "m0,b=z")
	files := strings.Join(k.bed.tsiFileList(), " ")
	// a log entry of an insert is ~10 bytes; keep writing other series until the log file has
	// been rolled and compacted into an index file, so that the six inserts sit in an index file
	for i := 0; i < 20 && !strings.Contains(files, ".tsi"); i++ {
		k.write(1, fmt.Sprintf("m1,a=x,c=v%d", i), fmt.Sprintf("m1,a=y,c=v%d", i))
		files = strings.Join(k.bed.tsiFileList(), " ")
	}
	k.log = append(k.log, "tsi files after writes: "+files)
	k.drop([]string{"m0"}, "a = 'x'")
	k.log = append(k.log, "tsi files after drop: "+strings.Join(k.bed.tsiFileList(), " "))
	k.log = append(k.log, "series file compaction")
	if _, err := k.bed.CompactSeriesFile(); err != nil {
		t.Fatalf("%s %v", verifkit.Sig("series-file-compaction-error"), err)
	}
	k.log = append(k.log, "reopen")
	if err := k.bed.Reopen(); err != nil {
		t.Fatalf("%s %v", verifkit.Sig("reopen-error"), err)
	}
	k.bed.Quiesce()
	want := []string{"m0,a=y", "m0,a=z", "m0,b=x", "m0,b=y", "m0,b=z"}
	inSet, inN, err := k.bed.ShardSeries(0, 1)
	k.must(inSet, err)
	if int(inN) != len(inSet) {
		t.Fatalf("%s inmem SeriesN = %d, set has %d", verifkit.Sig("shard-seriesN-inmem"), inN, len(inSet))
	}
	for i, kind := range vDualKinds {
		k.expect("series-listing-"+kind+"-wrong", kind+" series of m0", k.must(k.bed.SeriesByExpr(i, k.bed.shardIDs(), "m0", nil)), want...)
	}
	set, n, err := k.bed.ShardSeries(1, 1)
	k.must(set, err)
	var real []string
	phantom := 0
	for _, s := range set {
		if strings.HasPrefix(s, "<id ") {
			phantom++
		} else {
			real = append(real, s)
		}
	}
	k.expect("shard-series-set-tsi1-wrong", "tsi1 series id set (keyed entries) against the inmem one", real, inSet...)
	rep := phantom > 0 || n != inN
	if rep {
		st.KnownReproduced(vC14SigPhantom, fmt.Sprintf("6 series compacted into an index file (%s), DROP SERIES FROM m0 WHERE a='x', series-file compaction, reopen: tsi1 shard series id set = %v, SeriesN = %d (inmem: %d)", files, set, n, inN))
	}
	st.Case(true, fmt.Sprintf("phantom/%v", rep), fmt.Sprintf("kf:phantom reproduced=%v", rep))
	st.Sample(k.log)
	k.bed.Close()
}

// Two points of one series in a TSM file; DELETE the first by time, then DELETE the second by
// time. No point of the series is left, but the engine's reconcile step (deleteSeriesRange) keeps
// every series whose key is still in a TSM file's index, and the TSM index only drops a key when
// ONE range (or contiguous ranges) covers all of its blocks - two disjoint tombstones that cover
// both points leave the key in place. The series stays listed by both index types (until the
// file is compacted and the store restarted), although a single DELETE over both points removes it.
func TestVerifC14KFSeriesLingersAfterPiecewiseDeletes(t *testing.T) {
	st := verifkit.For("C14", "TestVerifC14KFSeriesLingersAfterPiecewiseDeletes", "directed: a series with two points in one TSM file is deleted by two disjoint time-range deletes; control: by one delete covering both")
	defer st.Flush()
	for _, piecewise := range []bool{true, false} {
		k := vC14NewKF(t, st, vDualCfg{NShards: 1, LogSize: vC14BigLog, Partitions: 1, CacheSize: 100})
		pts := []models.Point{vC14Point("m0,a=x", 1), vC14Point("m0,a=x", 10), vC14Point("m0,a=y", 1)}
		k.log = append(k.log, "write shard=1 m0,a=x@1 m0,a=x@10 m0,a=y@1")
		if err := k.bed.Write(1, pts); err != nil {
			t.Fatalf("%s write: %v", verifkit.Sig("write-error"), err)
		}
		k.log = append(k.log, "snapshot shard=1")
		if err := k.bed.Snapshot(1); err != nil {
			t.Fatalf("%s %v", verifkit.Sig("snapshot-error"), err)
		}
		if piecewise {
			k.drop([]string{"m0"}, "a = 'x' AND time >= 1 AND time <= 1")
			k.drop([]string{"m0"}, "a = 'x' AND time >= 10 AND time <= 10")
		} else {
			k.drop([]string{"m0"}, "a = 'x' AND time >= 1 AND time <= 10")
		}
		all := k.bed.shardIDs()
		var lingering []string
		for i, kind := range vDualKinds {
			got := k.must(k.bed.SeriesByExpr(i, all, "m0", nil))
			if !vC14Has(got, "m0,a=y") {
				t.Fatalf("%s %s lost m0,a=y: %v\n%s", verifkit.Sig("series-listing-"+kind+"-missing"), kind, got, strings.Join(k.log, "\n"))
			}
			if vC14Has(got, "m0,a=x") {
				lingering = append(lingering, kind)
			}
		}
		if !piecewise && len(lingering) > 0 {
			t.Fatalf("%s a single DELETE over all points left the series listed on %v\n%s", verifkit.Sig("series-lingers-after-single-range-delete"), lingering, strings.Join(k.log, "\n"))
		}
		if piecewise && len(lingering) > 0 {
			st.KnownReproduced(vC14SigPiecewise, fmt.Sprintf("m0,a=x written at t=1 and t=10, snapshotted, DELETE time 1..1 then DELETE time 10..10: no point is left but the series is still listed on %v; one DELETE over 1..10 removes it", lingering))
		}
		st.Case(true, fmt.Sprintf("piecewise/%v/%v", piecewise, lingering), fmt.Sprintf("kf:piecewise=%v reproduced=%v", piecewise, len(lingering) > 0))
		st.Sample(k.log)
		k.bed.Close()
	}
}
