//go:build verif

package tsdb_test

// C14 - the series index always matches the data, for both index types (DESIGN.md section 4, C14).
//
// Two stores (inmem, tsi1) are driven in lock-step by a generated history; after every step all
// listings of both stores are compared with a set model of the live series (and thereby with
// each other).

import (
	"fmt"
	"runtime/debug"
	"sort"
	"strings"
	"testing"
	"time"

	"github.com/influxdata/influxdb/models"
	"github.com/influxdata/influxql"
	"pgregory.net/rapid"
	"verifkit"
)

const (
	vC14SigLinger    = "tsi1-tagvalue-lingers-after-last-series-dropped"
	vC14SigResurface = "tsi1-dropped-measurement-tags-resurface-on-recreation"
	vC14SigGhost     = "tsi1-shard-lists-series-dropped-from-that-shard-only"
	vC14SigPhantom   = "tsi1-series-tombstone-lost-on-log-replay-after-series-file-compaction"
	vC14SigDeadlock  = "delete-vs-tsi-compaction-deadlock"
	vC14SigPiecewise = "series-lingers-after-piecewise-time-range-deletes"
	vC14BigLog       = 1 << 20
)

var vC14Measurements = []string{"m0", "m1", "m2"}

// vC14AllMeasurements also holds a name that is never written.
var vC14AllMeasurements = []string{"m0", "m1", "m2", "mz"}

type vC14Case struct {
	rt    *rapid.T
	st    *verifkit.Stats
	cfg   vDualCfg
	bed   *vDualBed
	model *vDualModel
	hist  []string
	// keys dropped from a shard and not re-created there since: "shard|key"
	dropped map[string]bool
	classes map[string]bool
	canon   strings.Builder

	droppedSomething bool // a series left the index at some point
	dropThenShake    bool // ... and a compaction/reopen happened after that
	ntQuery          bool // ... and a check ran after that
	recreated        bool // a dropped series was written again
	sfileDeleted     bool // a series id was removed from the series file (dropped from every shard)
	// "shard|key" of series that lost some but not all of their points to a time-range delete and
	// have not left the shard since (see vC14SigPiecewise)
	partial map[string]bool
	checks  int
}

func (c *vC14Case) fail(sig, format string, a ...interface{}) {
	c.rt.Helper()
	c.rt.Fatalf("%s %s\nconfig: %+v\nhistory:\n  %s", verifkit.Sig(sig), fmt.Sprintf(format, a...), c.cfg, strings.Join(c.hist, "\n  "))
}

// do runs a call into the code under test; a panic or an error is a violation of its own.
func (c *vC14Case) do(what string, f func() error) {
	var err error
	var pan interface{}
	var stack []byte
	func() {
		defer func() {
			if r := recover(); r != nil {
				pan, stack = r, debug.Stack()
			}
		}()
		err = f()
	}()
	if pan != nil {
		c.fail(what+"-panic", "%s panicked: %v\n%s", what, pan, stack)
	}
	if err != nil {
		c.fail(what+"-error", "%s failed: %v", what, err)
	}
}

func vC14DrawCmp(rt *rapid.T, label string) *vDualPred {
	p := &vDualPred{Op: "cmp"}
	p.Key = rapid.SampledFrom([]string{"a", "a", "a", "b", "b", "c", "d"}).Draw(rt, label+".key")
	p.Cmp = rapid.SampledFrom([]string{"=", "!=", "=~", "!~"}).Draw(rt, label+".cmp")
	if p.Cmp == "=~" || p.Cmp == "!~" {
		p.Val = rapid.SampledFrom([]string{"x", "^x$", "x|y", "^[xy]$", "^(y|z)$", ".*", "^$", "q", "^.$", "^x?$"}).Draw(rt, label+".re")
	} else {
		p.Val = rapid.SampledFrom([]string{"x", "x", "y", "z", "", "q"}).Draw(rt, label+".val")
	}
	return p
}

func vC14DrawPred(rt *rapid.T, label string) *vDualPred {
	switch rapid.IntRange(0, 4).Draw(rt, label+".shape") {
	case 3:
		return &vDualPred{Op: "AND", L: vC14DrawCmp(rt, label+".l"), R: vC14DrawCmp(rt, label+".r")}
	case 4:
		return &vDualPred{Op: "OR", L: vC14DrawCmp(rt, label+".l"), R: vC14DrawCmp(rt, label+".r")}
	}
	return vC14DrawCmp(rt, label)
}

func vC14DrawKey(rt *rapid.T) string {
	m := rapid.SampledFrom(vC14Measurements).Draw(rt, "m")
	tags := map[string]string{}
	if v := rapid.SampledFrom([]string{"", "x", "x", "y", "z"}).Draw(rt, "a"); v != "" {
		tags["a"] = v
	}
	if v := rapid.SampledFrom([]string{"", "", "x", "y", "z"}).Draw(rt, "b"); v != "" {
		tags["b"] = v
	}
	if v := rapid.SampledFrom([]string{"", "", "", "x", "y", "z"}).Draw(rt, "c"); v != "" {
		tags["c"] = v
	}
	return string(models.MakeKey([]byte(m), models.NewTags(tags)))
}

func (c *vC14Case) class(l string) { c.classes[l] = true }

// ----------------------------------------------------------------------------------------------
// actions

func (c *vC14Case) stepWrite() {
	rt := c.rt
	sh := uint64(rapid.IntRange(1, c.cfg.NShards).Draw(rt, "shard"))
	n := rapid.IntRange(1, 4).Draw(rt, "npoints")
	sm := c.model.shards[sh]
	var pts []models.Point
	var desc []string
	created, again, rec := 0, 0, 0
	type add struct {
		key string
		ts  int64
	}
	var adds []add
	for i := 0; i < n; i++ {
		var key string
		var pool []string
		mode := rapid.IntRange(0, 9).Draw(rt, "mode")
		switch {
		case mode < 4: // re-create something that was dropped (from this shard or from another one)
			for k := range c.dropped {
				pool = append(pool, k[strings.IndexByte(k, '|')+1:])
			}
		case mode < 6: // an existing series (of any shard)
			pool = c.model.view(c.bed.shardIDs()).keys
		}
		if len(pool) > 0 {
			sort.Strings(pool)
			key = rapid.SampledFrom(pool).Draw(rt, "key")
		} else {
			key = vC14DrawKey(rt)
		}
		ts := (int64(sh)-1)*vDualShardSpan + rapid.SampledFrom([]int64{1, 2, 500, 998}).Draw(rt, "ts")
		name, tags := vDualKeyParts(key)
		p, err := models.NewPoint(name, models.NewTags(tags), models.Fields{"v": float64(len(c.hist))}, time.Unix(0, ts))
		if err != nil {
			rt.Fatalf("harness: NewPoint: %v", err)
		}
		pts = append(pts, p)
		adds = append(adds, add{key, ts})
		desc = append(desc, fmt.Sprintf("%s@%d", key, ts))
	}
	c.hist = append(c.hist, fmt.Sprintf("write shard=%d %s", sh, strings.Join(desc, " ")))
	c.do("write", func() error { return c.bed.Write(sh, pts) })
	for _, a := range adds {
		dk := fmt.Sprintf("%d|%s", sh, a.key)
		if sm.add(a.key, a.ts) {
			created++
			if c.dropped[dk] {
				rec++
				delete(c.dropped, dk)
			}
		} else {
			again++
		}
	}
	if rec > 0 {
		c.recreated = true
		c.class("write:recreates-dropped-series")
	}
	fmt.Fprintf(&c.canon, "w%d:%d/%d/%d;", sh, created, again, rec)
	c.class("act:write")
}

// wouldFinishPiecewise reports whether DELETE (names, p, [lo,hi]) removes the last points of a
// series that an earlier time-range delete already cut.
func (c *vC14Case) wouldFinishPiecewise(names []string, p *vDualPred, lo, hi int64) bool {
	nameSet := map[string]bool{}
	for _, n := range names {
		nameSet[n] = true
	}
	for _, sh := range c.bed.shardIDs() {
		for key, tss := range c.model.shards[sh].live {
			if !c.partial[fmt.Sprintf("%d|%s", sh, key)] {
				continue
			}
			name, tags := vDualKeyParts(key)
			if len(names) > 0 && !nameSet[name] {
				continue
			}
			if p != nil && !p.Eval(tags) {
				continue
			}
			left := 0
			for ts := range tss {
				if ts < lo || ts > hi {
					left++
				}
			}
			if left == 0 {
				return true
			}
		}
	}
	return false
}

func (c *vC14Case) applyDelete(kind string, names []string, p *vDualPred, lo, hi int64) {
	gone := 0
	touched := 0
	nameSet := map[string]bool{}
	for _, n := range names {
		nameSet[n] = true
	}
	// bookkeeping for vC14SigPiecewise: which series lose some but not all points to this delete
	full := lo == influxql.MinTime && hi == influxql.MaxTime
	if !full {
		for _, sh := range c.bed.shardIDs() {
			for key, tss := range c.model.shards[sh].live {
				name, tags := vDualKeyParts(key)
				if (len(names) > 0 && !nameSet[name]) || (p != nil && !p.Eval(tags)) {
					continue
				}
				in := 0
				for ts := range tss {
					if ts >= lo && ts <= hi {
						in++
					}
				}
				if in > 0 && in < len(tss) {
					c.partial[fmt.Sprintf("%d|%s", sh, key)] = true
				}
			}
		}
	}
	for _, sh := range c.bed.shardIDs() {
		g, t := c.model.shards[sh].deleteRange(func(name string, tags map[string]string) bool {
			if len(names) > 0 && !nameSet[name] {
				return false
			}
			return p == nil || p.Eval(tags)
		}, lo, hi)
		touched += t
		for _, k := range g {
			delete(c.partial, fmt.Sprintf("%d|%s", sh, k))
			c.dropped[fmt.Sprintf("%d|%s", sh, k)] = true
			// gone from every shard?
			still := false
			for _, o := range c.bed.shardIDs() {
				if _, ok := c.model.shards[o].live[k]; ok {
					still = true
				}
			}
			if !still {
				c.sfileDeleted = true
			} else {
				c.class("drop:series-stays-in-other-shard")
			}
		}
		gone += len(g)
	}
	if gone > 0 {
		c.droppedSomething = true
		c.class(kind + ":removes-series")
	} else if touched > 0 {
		c.class(kind + ":matches-but-series-stay")
	} else {
		c.class(kind + ":matches-nothing")
	}
	fmt.Fprintf(&c.canon, "%s:%d/%d;", kind, touched, gone)
}

func (c *vC14Case) drawNames() []string {
	rt := c.rt
	switch rapid.IntRange(0, 9).Draw(rt, "from") {
	case 0, 1: // several measurements / no FROM clause: see vC14SigDeadlock
		if c.cfg.LogSize != vC14BigLog {
			// Store.DeleteSeries keeps the series iterator of the first measurement (and with it
			// the retained file set) until it returns; with a small log file the first
			// measurement's tombstones start a log compaction and the second measurement's
			// DeleteSeriesRange waits for it forever. Known finding of C19; excluded here.
			c.st.Exclude(vC14SigDeadlock)
			break
		}
		if rapid.Bool().Draw(rt, "nofrom") {
			c.class("drop:no-from-clause")
			return nil
		}
		c.class("drop:two-measurements")
		return []string{"m0", "m1"}
	}
	return []string{rapid.SampledFrom(vC14AllMeasurements).Draw(rt, "from.m")}
}

func (c *vC14Case) stepDropSeries() {
	rt := c.rt
	names := c.drawNames()
	var p *vDualPred
	if rapid.IntRange(0, 7).Draw(rt, "haspred") > 0 {
		p = vC14DrawPred(rt, "drop")
	}
	c.hist = append(c.hist, fmt.Sprintf("DROP SERIES FROM %v WHERE %s", names, p.String()))
	var hung bool
	c.do("drop-series", func() error {
		err, h := c.bed.DeleteSeries(names, p.Expr())
		hung = h
		if h {
			return nil
		}
		return err
	})
	if hung {
		c.fail("drop-series-hang", "DROP SERIES did not return within %v", vDualDeleteTimeout)
	}
	ops := map[string]bool{}
	p.Ops(ops)
	for o := range ops {
		c.class("drop:op" + o)
	}
	if p == nil {
		c.class("drop:no-predicate")
	}
	c.applyDelete("drop", names, p, influxql.MinTime, influxql.MaxTime)
	c.class("act:drop-series")
}

func (c *vC14Case) stepDeleteRange() {
	rt := c.rt
	names := c.drawNames()
	var p *vDualPred
	if rapid.IntRange(0, 2).Draw(rt, "haspred") == 0 {
		p = vC14DrawPred(rt, "del")
	}
	sh := int64(rapid.IntRange(1, c.cfg.NShards).Draw(rt, "range.shard"))
	base := (sh - 1) * vDualShardSpan
	lo, hi := int64(influxql.MinTime), int64(influxql.MaxTime)
	var parts []string
	if p != nil {
		parts = append(parts, "("+p.String()+")")
	}
	shape := rapid.SampledFrom([]string{"shard", "shard", "lower", "upper", "all", "from", "upto", "point"}).Draw(rt, "range.shape")
	switch shape {
	case "shard":
		lo, hi = base, base+vDualShardSpan-1
	case "lower":
		lo, hi = base, base+499
	case "upper":
		lo, hi = base+500, base+vDualShardSpan-1
	case "all":
		lo, hi = 0, int64(c.cfg.NShards)*vDualShardSpan
	case "from":
		lo = base + 2
	case "upto":
		hi = base + 500
	case "point":
		lo = base + rapid.SampledFrom([]int64{1, 2, 500, 998}).Draw(rt, "range.ts")
		hi = lo
	}
	if lo != influxql.MinTime {
		parts = append(parts, fmt.Sprintf("time >= %d", lo))
	}
	if hi != influxql.MaxTime {
		parts = append(parts, fmt.Sprintf("time <= %d", hi))
	}
	condText := strings.Join(parts, " AND ")
	// Known finding vC14SigPiecewise: after a time-range delete the engine keeps a series in the
	// index when its key is still in a TSM file's index, even if every point of it is covered by
	// tombstones - which is what happens when several disjoint ranges delete it piece by piece
	// (the TSM index only notices full coverage for one range or contiguous ranges). A delete
	// that would remove the LAST points of a series that already lost points to an earlier
	// time-range delete is therefore not generated.
	if c.wouldFinishPiecewise(names, p, lo, hi) {
		c.st.Exclude(vC14SigPiecewise)
		c.hist = append(c.hist, fmt.Sprintf("(skipped: DELETE FROM %v WHERE %s would finish a piecewise delete)", names, condText))
		c.class("delrange:skipped-piecewise")
		return
	}
	c.hist = append(c.hist, fmt.Sprintf("DELETE FROM %v WHERE %s", names, condText))
	cond := influxql.MustParseExpr(condText)
	var hung bool
	c.do("delete-range", func() error {
		err, h := c.bed.DeleteSeries(names, cond)
		hung = h
		if h {
			return nil
		}
		return err
	})
	if hung {
		c.fail("delete-range-hang", "DELETE did not return within %v", vDualDeleteTimeout)
	}
	c.class("delrange:" + shape)
	c.applyDelete("delrange", names, p, lo, hi)
	c.class("act:delete-range")
}

func (c *vC14Case) stepDropMeasurement() {
	name := rapid.SampledFrom(vC14AllMeasurements).Draw(c.rt, "dropm")
	c.hist = append(c.hist, "DROP MEASUREMENT "+name)
	var hung bool
	c.do("drop-measurement", func() error {
		err, h := c.bed.DeleteMeasurement(name)
		hung = h
		if h {
			return nil
		}
		return err
	})
	if hung {
		c.fail("drop-measurement-hang", "DROP MEASUREMENT did not return within %v", vDualDeleteTimeout)
	}
	c.applyDelete("dropm", []string{name}, nil, influxql.MinTime, influxql.MaxTime)
	c.class("act:drop-measurement")
}

func (c *vC14Case) shake(what string) {
	if c.droppedSomething {
		c.dropThenShake = true
		c.class("nt:drop-then-" + what)
	}
}

func (c *vC14Case) stepSnapshot() {
	sh := uint64(rapid.IntRange(1, c.cfg.NShards).Draw(c.rt, "snap.shard"))
	c.hist = append(c.hist, fmt.Sprintf("snapshot shard=%d", sh))
	c.do("snapshot", func() error { return c.bed.Snapshot(sh) })
	fmt.Fprintf(&c.canon, "snap%d;", sh)
	c.class("act:snapshot")
}

func (c *vC14Case) stepReopen() {
	c.hist = append(c.hist, "reopen")
	before := c.bed.maxLevel
	c.do("reopen", func() error {
		if err := c.bed.Reopen(); err != nil {
			return err
		}
		c.bed.Quiesce()
		return nil
	})
	_ = before
	c.shake("reopen")
	c.canon.WriteString("reopen;")
	c.class("act:reopen")
}

func (c *vC14Case) stepSeriesFileCompact() {
	c.hist = append(c.hist, "series file compaction")
	var n int
	c.do("series-file-compaction", func() error {
		var err error
		n, err = c.bed.CompactSeriesFile()
		return err
	})
	if n > 0 {
		c.class("sfile:compaction-moved-entries-to-disk")
		if c.sfileDeleted {
			c.class("sfile:compaction-after-series-id-deleted")
		}
		c.shake("series-file-compaction")
	} else {
		c.class("sfile:compaction-nothing-to-do")
	}
	fmt.Fprintf(&c.canon, "sfc%d;", n)
	c.class("act:series-file-compaction")
}

// ----------------------------------------------------------------------------------------------
// oracle

// exact compares a listing with the model.
func (c *vC14Case) exact(sig, what string, kind string, got, want []string) {
	if d := vDualDiff(got, want); d != "" {
		suffix := "-wrong"
		if strings.Contains(d, "unexpected=[]") {
			suffix = "-missing"
		} else if strings.Contains(d, "missing=[]") {
			suffix = "-unexpected"
		}
		c.fail(sig+"-"+kind+suffix, "%s on %s: %s\n  got  %v\n  want %v", what, kind, d, got, want)
	}
}

// vC14Tol is a set of listing elements that a known finding allows tsi1 to report in addition
// to what the model holds.
type vC14Tol struct {
	sig string
	set map[string]bool
}

func vC14SetOf(l []string) map[string]bool {
	m := map[string]bool{}
	for _, s := range l {
		m[s] = true
	}
	return m
}

// within compares a tsi1 listing that known findings may enlarge: everything the model holds must
// be listed; anything else must belong to one of the tolerated sets (each such comparison is
// counted as excluded under the finding's signature). With empty tolerated sets it is `exact`.
func (c *vC14Case) within(sig, what string, got, want []string, tol ...vC14Tol) {
	w := vC14SetOf(want)
	g := map[string]bool{}
	hit := map[string]bool{}
	for _, s := range got {
		if g[s] {
			c.fail(sig+"-tsi1-duplicate", "%s on tsi1 lists %q twice: %v", what, s, got)
		}
		g[s] = true
		if w[s] {
			continue
		}
		ok := false
		for _, t := range tol {
			if t.set[s] {
				hit[t.sig] = true
				ok = true
				break
			}
		}
		if !ok {
			c.fail(sig+"-tsi1-unexpected", "%s on tsi1 lists %q which the model does not hold and no known finding explains\n  got  %v\n  want %v", what, s, got, want)
		}
	}
	for _, s := range want {
		if !g[s] {
			c.fail(sig+"-tsi1-missing", "%s on tsi1 misses %q\n  got  %v\n  want %v", what, s, got, want)
		}
	}
	for k := range hit {
		c.st.Exclude(k)
		c.class("kf-observed:" + k)
	}
}

type vC14KeyCond struct {
	text string
	ok   func(string) bool
}

var vC14KeyConds = []vC14KeyCond{
	{"_tagKey = 'a'", func(k string) bool { return k == "a" }},
	{"_tagKey != 'a'", func(k string) bool { return k != "a" }},
	{"_tagKey =~ /a|b/", func(k string) bool { return k == "a" || k == "b" }},
	{"_tagKey !~ /^b$/", func(k string) bool { return k != "b" }},
	{"(_tagKey = 'a' OR _tagKey = 'c')", func(k string) bool { return k == "a" || k == "c" }},
	{"_tagKey = 'd'", func(k string) bool { return k == "d" }},
}

var vC14NameConds = []vC14KeyCond{
	{"", nil},
	{"", nil},
	{"_name = 'm1'", func(n string) bool { return n == "m1" }},
	{"_name != 'm0'", func(n string) bool { return n != "m0" }},
	{"_name =~ /m[01]/", func(n string) bool { return n == "m0" || n == "m1" }},
}

func vC14Join(parts ...string) string {
	var out []string
	for _, p := range parts {
		if p != "" {
			out = append(out, p)
		}
	}
	return strings.Join(out, " AND ")
}

func vC14KeysOf(triples []string) []string {
	set := map[string]bool{}
	for _, t := range triples {
		f := strings.SplitN(t, " ", 3)
		set[f[0]+" "+f[1]] = true
	}
	return vDualSorted(set)
}

func vC14KeysOfSet(triples map[string]bool) map[string]bool {
	set := map[string]bool{}
	for t := range triples {
		f := strings.SplitN(t, " ", 3)
		set[f[0]+" "+f[1]] = true
	}
	return set
}

// check compares every listing of both stores with the model.
func (c *vC14Case) check() {
	rt := c.rt
	c.checks++
	all := c.bed.shardIDs()
	db := c.model.view(all)
	if c.dropThenShake {
		c.ntQuery = true
	}

	// (1) per shard: the shard-local series set and Shard.SeriesN (exact in both index types)
	for _, sh := range all {
		want := c.model.view([]uint64{sh}).keys
		for i, kind := range vDualKinds {
			var got []string
			var n int64
			c.do("shard-series", func() (err error) { got, n, err = c.bed.ShardSeries(i, sh); return })
			c.exact("shard-series-set", fmt.Sprintf("series id set of shard %d", sh), kind, got, want)
			if n != int64(len(want)) {
				c.fail("shard-seriesN-"+kind, "Shard(%d).SeriesN() = %d on %s, model has %d live series %v", sh, n, kind, len(want), want)
			}
		}
	}

	// predicates of this check
	p1 := vC14DrawPred(rt, "q1")
	p2 := vC14DrawPred(rt, "q2")
	ops := map[string]bool{}
	p1.Ops(ops)
	p2.Ops(ops)
	for o := range ops {
		c.class("query:op" + o)
	}

	// (2) series listings, database wide, both stores; per shard for tsi1 (its index is per shard)
	for _, m := range vC14AllMeasurements {
		for _, p := range []*vDualPred{nil, p1, p2} {
			want := db.series(m, p, false)
			for i, kind := range vDualKinds {
				var got []string
				c.do("series-iterator", func() (err error) { got, err = c.bed.SeriesByExpr(i, all, m, p); return })
				sig := "series-listing"
				if p != nil {
					sig = "series-predicate"
				}
				c.exact(sig, fmt.Sprintf("MeasurementSeriesByExprIterator(%s, %s)", m, p.String()), kind, got, want)
			}
			if p != nil && len(want) > 0 {
				c.class("query:predicate-selects-series")
			}
		}
	}

	// (3) measurement names
	{
		want := db.measurements()
		for i, kind := range vDualKinds {
			var got []string
			c.do("measurement-names", func() (err error) { got, err = c.bed.MeasurementNames(i, nil); return })
			c.exact("measurement-names", "MeasurementNames(nil)", kind, got, want)
		}
		for _, p := range []*vDualPred{p1, p2} {
			for i, kind := range vDualKinds {
				var got []string
				c.do("measurement-names", func() (err error) { got, err = c.bed.MeasurementNames(i, p); return })
				gs := map[string]bool{}
				for _, g := range got {
					gs[g] = true
				}
				for _, m := range vC14AllMeasurements {
					tri := db.measurementMatches(m, p, kind == "tsi1")
					listed := gs[m]
					delete(gs, m)
					if tri == vDualUnknown {
						c.st.Exclude(vC14SigLinger)
						continue
					}
					if listed != (tri == vDualTrue) {
						c.fail("measurement-names-where-"+kind, "MeasurementNames(WHERE %s) on %s: %s listed=%v, model says %v\n  got %v\n  live series %v", p.String(), kind, m, listed, tri == vDualTrue, got, db.byM[m])
					}
				}
				if len(gs) > 0 {
					c.fail("measurement-names-where-"+kind, "MeasurementNames(WHERE %s) on %s lists unknown measurements %v", p.String(), kind, got)
				}
			}
		}
	}

	// (4) tag keys and tag values, database wide for both stores, then per shard for tsi1
	nc := rapid.SampledFrom(vC14NameConds).Draw(rt, "namecond")
	kc := rapid.SampledFrom(vC14KeyConds).Draw(rt, "keycond")
	scopes := [][]uint64{all}
	if c.cfg.NShards > 1 {
		for _, sh := range all {
			scopes = append(scopes, []uint64{sh})
		}
	}
	for si, ids := range scopes {
		v := db
		scope := "db"
		pre := ""
		if si > 0 {
			v = c.model.view(ids)
			scope = fmt.Sprintf("shard%d", ids[0])
			pre = "pershard-"
			if v.hasGhosts() {
				c.class("state:shard-has-series-dropped-here-but-live-elsewhere")
			}
		}
		// what the known findings allow tsi1 to add
		tolPairs := func(nameOK, keyOK func(string) bool, p *vDualPred, unfiltered bool) []vC14Tol {
			var tol []vC14Tol
			if unfiltered {
				cur, old := v.lingerPairs(nameOK, keyOK)
				tol = append(tol, vC14Tol{vC14SigLinger, cur}, vC14Tol{vC14SigResurface, old})
			}
			if v.hasGhosts() {
				// a ghost series is yielded by some of the shard's raw iterators and not by others, so
				// under the set algebra of a predicate it can surface whether or not it satisfies it
				tol = append(tol, vC14Tol{vC14SigGhost, vC14SetOf(v.pairs(nil, nameOK, keyOK, true))})
			}
			return tol
		}
		keysOfTol := func(tol []vC14Tol) []vC14Tol {
			out := make([]vC14Tol, len(tol))
			for i, t := range tol {
				out[i] = vC14Tol{t.sig, vC14KeysOfSet(t.set)}
			}
			return out
		}
		for i, kind := range vDualKinds {
			if si > 0 && kind == "inmem" {
				continue // the inmem index is database wide by design; a shard list does not narrow it
			}
			// tag keys, no tag filter
			for _, kcond := range []vC14KeyCond{{"", nil}, kc} {
				cond := vC14Join(nc.text, kcond.text)
				var got []string
				c.do("tag-keys", func() (err error) { got, err = c.bed.TagKeys(i, ids, cond); return })
				want := vC14KeysOf(v.pairs(nil, nc.ok, kcond.ok, false))
				what := fmt.Sprintf("TagKeys(%s; %s)", scope, cond)
				if kind == "tsi1" {
					c.within(pre+"tagkeys", what, got, want, keysOfTol(tolPairs(nc.ok, kcond.ok, nil, true))...)
				} else {
					c.exact(pre+"tagkeys", what, kind, got, want)
				}
			}
			// tag keys with a tag filter
			{
				p := p1
				cond := vC14Join(nc.text, "("+p.String()+")")
				var got []string
				c.do("tag-keys", func() (err error) { got, err = c.bed.TagKeys(i, ids, cond); return })
				want := vC14KeysOf(v.pairs(p, nc.ok, nil, false))
				what := fmt.Sprintf("TagKeys(%s; %s)", scope, cond)
				if kind == "tsi1" {
					c.within(pre+"tagkeys-where", what, got, want, keysOfTol(tolPairs(nc.ok, nil, p, false))...)
				} else {
					c.exact(pre+"tagkeys-where", what, kind, got, want)
				}
			}
			// tag values without a tag filter
			{
				cond := vC14Join(nc.text, kc.text)
				var got []string
				c.do("tag-values", func() (err error) { got, err = c.bed.TagValues(i, ids, cond); return })
				want := v.pairs(nil, nc.ok, kc.ok, false)
				what := fmt.Sprintf("TagValues(%s; %s)", scope, cond)
				if kind == "tsi1" {
					c.within(pre+"tagvalues", what, got, want, tolPairs(nc.ok, kc.ok, nil, true)...)
				} else {
					c.exact(pre+"tagvalues", what, kind, got, want)
				}
			}
			// tag values with equality / regex conditions on tags
			for _, p := range []*vDualPred{p1, p2} {
				cond := vC14Join(nc.text, kc.text, "("+p.String()+")")
				var got []string
				c.do("tag-values", func() (err error) { got, err = c.bed.TagValues(i, ids, cond); return })
				want := v.pairs(p, nc.ok, kc.ok, false)
				what := fmt.Sprintf("TagValues(%s; %s)", scope, cond)
				if kind == "tsi1" {
					c.within(pre+"tagvalues-where", what, got, want, tolPairs(nc.ok, kc.ok, p, false)...)
				} else {
					c.exact(pre+"tagvalues-where", what, kind, got, want)
				}
				if len(want) > 0 {
					c.class("query:tagvalues-where-nonempty")
				}
			}
		}
		// per-shard series listings through the shard's own tsi1 index
		if si > 0 {
			for _, m := range vC14AllMeasurements {
				for _, p := range []*vDualPred{nil, p1} {
					var got []string
					c.do("series-iterator", func() (err error) { got, err = c.bed.SeriesByExpr(1, ids, m, p); return })
					sig := "pershard-series-listing"
					if p != nil {
						sig = "pershard-series-predicate"
					}
					var tol []vC14Tol
					if v.hasGhosts() {
						tol = append(tol, vC14Tol{vC14SigGhost, vC14SetOf(v.series(m, nil, true))})
					}
					c.within(sig, fmt.Sprintf("shard %d MeasurementSeriesByExprIterator(%s, %s)", ids[0], m, p.String()), got, v.series(m, p, false), tol...)
				}
			}
		}
	}
}

// ----------------------------------------------------------------------------------------------

const vC14Rule = "bed I: inmem and tsi1 stores in lock-step, 1-2 shards, tsi1 log file size 1 B..1 MiB, 1/2/8 index partitions; 3-30 generated steps (write over a pool of 3 measurements x tags a,b,c x 3 values with re-creation of dropped series, DROP SERIES / DELETE with =,!=,=~,!~,AND,OR predicates and time ranges, DROP MEASUREMENT, snapshot, reopen, series-file compaction; index compactions driven to a fixed point after every step); after every step all listings of both stores are compared with the set model; non-trivial = a series left the index, then a reopen / index compaction to a new level / series-file compaction happened, then a check ran - or a dropped series was re-created; distinct = hash of the sequence of (action, effect on the model)"

func vC14Run(rt *rapid.T, st *verifkit.Stats) {
	cfg := vDualCfg{
		NShards:    rapid.IntRange(1, 2).Draw(rt, "nshards"),
		LogSize:    rapid.SampledFrom([]int{1, 1, 1, 64, 64, 300, 1500, vC14BigLog}).Draw(rt, "logsize"),
		Partitions: rapid.SampledFrom([]uint64{1, 1, 1, 2, 8}).Draw(rt, "partitions"),
		CacheSize:  rapid.SampledFrom([]int{0, 100, 100}).Draw(rt, "idsetcache"),
	}
	bed, err := vDualNewBed(cfg)
	if err != nil {
		rt.Fatalf("harness: cannot create bed: %v", err)
	}
	defer bed.Close()
	c := &vC14Case{rt: rt, st: st, cfg: cfg, bed: bed, model: vDualNewModel(bed.shardIDs()),
		dropped: map[string]bool{}, classes: map[string]bool{}, partial: map[string]bool{}}
	n := rapid.IntRange(3, 30).Draw(rt, "steps")
	for step := 0; step < n; step++ {
		lvlBefore := bed.maxLevel
		evBefore := len(bed.tsiFiles)
		k := rapid.IntRange(0, 99).Draw(rt, "action")
		switch {
		case k < 42 || step == 0:
			c.stepWrite()
		case k < 58:
			c.stepDropSeries()
		case k < 68:
			c.stepDeleteRange()
		case k < 74:
			c.stepDropMeasurement()
		case k < 82:
			c.stepSnapshot()
		case k < 92:
			c.stepReopen()
		default:
			// (the tombstone-lost-on-log-replay defect that used to be excluded here is fixed in /repo)
			c.stepSeriesFileCompact()
		}
		if bed.maxLevel > lvlBefore || len(bed.tsiFiles) > evBefore {
			// new index files appeared: log->L1 and/or level compactions really ran in this step
			for ev := range bed.tsiEvents {
				c.class(ev)
			}
			if bed.maxLevel >= 2 {
				c.shake("tsi-level-compaction")
			} else if bed.maxLevel >= 1 {
				c.shake("tsi-log-compaction")
			}
		}
		c.check()
	}
	c.class(fmt.Sprintf("cfg:shards=%d", cfg.NShards))
	c.class(fmt.Sprintf("cfg:logsize=%d", cfg.LogSize))
	c.class(fmt.Sprintf("cfg:partitions=%d", cfg.Partitions))
	c.class(fmt.Sprintf("tsi:max-level=%d", bed.maxLevel))
	nt := (c.dropThenShake && c.ntQuery) || c.recreated
	if c.dropThenShake && c.ntQuery {
		c.class("nt:create-drop-shake-query")
	}
	if c.recreated {
		c.class("nt:recreated-dropped-series")
	}
	var cl []string
	for k := range c.classes {
		cl = append(cl, k)
	}
	sort.Strings(cl)
	st.Case(nt, c.canon.String(), cl...)
	if st.WantSample() {
		st.Sample(map[string]interface{}{"config": cfg, "history": c.hist, "tsi_files": bed.tsiFileList(), "live": c.model.view(bed.shardIDs()).keys})
	} else {
		st.Sample(nil)
	}
}

func TestVerifC14DualIndex(t *testing.T) {
	st := verifkit.For("C14", "TestVerifC14DualIndex", vC14Rule)
	defer st.Flush()
	rapid.Check(t, func(rt *rapid.T) { vC14Run(rt, st) })
}
