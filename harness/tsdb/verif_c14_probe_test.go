//go:build verif

package tsdb_test

import (
	"fmt"
	"testing"
	"time"

	"github.com/influxdata/influxdb/models"
	"github.com/influxdata/influxql"
)

func vProbePt(key string, ts int64) models.Point {
	name, tags := vDualKeyParts(key)
	p, _ := models.NewPoint(name, models.NewTags(tags), models.Fields{"v": 1.0}, time.Unix(0, ts))
	return p
}

func vProbeDump(t *testing.T, b *vDualBed, label string) {
	for i, kind := range vDualKinds {
		tk, _ := b.TagKeys(i, b.shardIDs(), "")
		tv, _ := b.TagValues(i, b.shardIDs(), "_tagKey =~ /.*/")
		mn, _ := b.MeasurementNames(i, nil)
		line := fmt.Sprintf("%s %s: names=%v keys=%v values=%v", label, kind, mn, tk, tv)
		for _, sh := range b.shardIDs() {
			for _, m := range vC14Measurements {
				s, _ := b.SeriesByExpr(i, []uint64{sh}, m, nil)
				if len(s) > 0 {
					line += fmt.Sprintf(" sh%d/%s=%v", sh, m, s)
				}
			}
			ss, n, _ := b.ShardSeries(i, sh)
			line += fmt.Sprintf(" sh%d.set=%v n=%d", sh, ss, n)
		}
		t.Log(line)
	}
	t.Log("files:", b.tsiFileList())
}

func TestVerifC14ProbeA(t *testing.T) {
	for _, ls := range []int{1, 1 << 20} {
		b, err := vDualNewBed(vDualCfg{NShards: 1, LogSize: ls, Partitions: 1, CacheSize: 100})
		if err != nil {
			t.Fatal(err)
		}
		b.Write(1, []models.Point{vProbePt("m0,a=x,c=y", 1)})
		vProbeDump(t, b, "A1")
		b.DeleteSeries([]string{"m0"}, nil)
		vProbeDump(t, b, "A2")
		b.Write(1, []models.Point{vProbePt("m0,a=x", 2)})
		vProbeDump(t, b, "A3")
		b.Reopen()
		b.Quiesce()
		vProbeDump(t, b, "A4")
		b.Close()
	}
}

func TestVerifC14ProbeB(t *testing.T) {
	for _, ls := range []int{1, 1 << 20} {
		b, err := vDualNewBed(vDualCfg{NShards: 2, LogSize: ls, Partitions: 1, CacheSize: 100})
		if err != nil {
			t.Fatal(err)
		}
		b.Write(1, []models.Point{vProbePt("m1", 500)})
		b.Write(2, []models.Point{vProbePt("m1", 1500), vProbePt("m1,a=x", 1500)})
		vProbeDump(t, b, "B1")
		b.DeleteSeries([]string{"m1"}, influxql.MustParseExpr("a = '' AND time >= 1000 AND time <= 1999"))
		vProbeDump(t, b, "B2")
		b.Reopen()
		b.Quiesce()
		vProbeDump(t, b, "B3")
		b.Close()
	}
}
