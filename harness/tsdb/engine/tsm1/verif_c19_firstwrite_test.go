//go:build verif

package tsm1

// C19 - aligned races on "first" operations, where lazily created state is set up:
// the first writes into a fresh (or freed) cache, and reads of a tag value that race with
// the write that creates the first series carrying it.

import (
	"fmt"
	"os"
	"runtime"
	"strings"
	"sync"
	"sync/atomic"
	"testing"
	"time"

	"github.com/influxdata/influxql"
	"pgregory.net/rapid"
	"verifkit"
)

// vSpin is a one-shot spin barrier for n goroutines.
type vSpin struct{ n, c int64 }

var vSpinSink int64

func (s *vSpin) wait() {
	atomic.AddInt64(&s.c, 1)
	for atomic.LoadInt64(&s.c) < s.n {
		runtime.Gosched()
	}
}

func TestVerifC19CacheFirstWrite(t *testing.T) {
	stats := verifkit.For("C19", "TestVerifC19CacheFirstWrite",
		"2..8 goroutines, lined up by a spin barrier, write one value each into a cache that is fresh or has just been freed (Cache.Free), over a drawn number of rounds, to one shared key or to a key each; oracle: every write that returned nil is present in Cache.Values afterwards. non-trivial = at least 3 goroutines; distinct = (goroutines, rounds, shared, freed)")
	defer stats.Flush()
	rapid.Check(t, func(rt *rapid.T) {
		g := rapid.IntRange(2, 8).Draw(rt, "goroutines")
		rounds := rapid.IntRange(500, 3000).Draw(rt, "rounds")
		shared := rapid.Bool().Draw(rt, "sharedKey")
		freed := rapid.Bool().Draw(rt, "freedBefore")
		for r := 0; r < rounds; r++ {
			c := NewCache(0)
			if freed {
				if err := c.Write([]byte("warm#!~#f"), []Value{NewFloatValue(1, 1)}); err != nil {
					rt.Fatalf("warm-up write: %v", err)
				}
				c.Delete([][]byte{[]byte("warm#!~#f")})
				c.Free()
			}
			bar := &vSpin{n: int64(g)}
			acked := make([]bool, g)
			var wg sync.WaitGroup
			for i := 0; i < g; i++ {
				wg.Add(1)
				go func(i int) {
					defer wg.Done()
					key := "k#!~#f"
					if !shared {
						key = fmt.Sprintf("k%d#!~#f", i)
					}
					bar.wait()
					err := c.WriteMulti(map[string][]Value{key: {NewFloatValue(int64(i), float64(i))}})
					acked[i] = err == nil
				}(i)
			}
			wg.Wait()
			for i := 0; i < g; i++ {
				if !acked[i] {
					continue
				}
				key := "k#!~#f"
				if !shared {
					key = fmt.Sprintf("k%d#!~#f", i)
				}
				found := false
				for _, v := range c.Values([]byte(key)) {
					if v.UnixNano() == int64(i) {
						found = true
					}
				}
				if !found {
					rt.Fatalf("%s round %d: goroutine %d's acknowledged first write to the cache (key %s, ts=%d) is not in the cache afterwards (%d goroutines, shared key %v, cache freed before %v); cache holds %v", verifkit.Sig("acknowledged-write-lost"), r, i, key, i, g, shared, freed, c.Values([]byte(key)))
				}
			}
		}
		stats.Case(g >= 3, fmt.Sprint(g, rounds, shared, freed), fmt.Sprintf("shared:%v", shared), fmt.Sprintf("freed:%v", freed))
		if stats.WantSample() {
			stats.Sample(map[string]interface{}{"goroutines": g, "rounds": rounds, "sharedKey": shared, "freedBefore": freed})
		} else {
			stats.Sample(nil)
		}
	})
}

func TestVerifC19ReadDuringSeriesCreate(t *testing.T) {
	stats := verifkit.For("C19", "TestVerifC19ReadDuringSeriesCreate",
		"on one real shard (inmem or tsi1) a writer creates, round after round, the first series carrying a new tag value while 1..6 readers, lined up with it by a spin barrier, query exactly that tag value (and a second tag shared by all series); oracle: after the round every later read by tag value returns the acknowledged point (a read that raced may or may not see it; a read after the acknowledgement must). non-trivial = at least 2 readers and 10 rounds; distinct = (index, readers, rounds)")
	defer stats.Flush()
	rapid.Check(t, func(rt *rapid.T) {
		root, err := os.MkdirTemp("", "c19r")
		if err != nil {
			rt.Fatal(err)
		}
		defer os.RemoveAll(root)
		idx := rapid.SampledFrom([]string{"inmem", "tsi1", "tsi1"}).Draw(rt, "index")
		b, err := vNewBed(root, idx, 1)
		if err != nil {
			rt.Fatalf("open: %v", err)
		}
		defer b.close()
		readers := rapid.IntRange(1, 6).Draw(rt, "readers")
		rounds := rapid.IntRange(20, 150).Draw(rt, "rounds")
		spin := rapid.IntRange(0, 400).Draw(rt, "spinUnit") // readers start their first read after a staggered busy wait
		// the shared tag value gets a cached set early
		if err := b.store.WriteToShard(1, []modelsPoint{vPt{M: "m0", Tags: map[string]string{"host": "seed", "dc": "x"}, Fields: map[string]vVal{"f0": vF(0)}, TS: 0}.point()}); err != nil {
			rt.Fatalf("seed write: %v", err)
		}
		for r := 0; r < rounds; r++ {
			bar := &vSpin{n: int64(readers + 1)}
			host := fmt.Sprintf("h%d", r)
			var wg sync.WaitGroup
			var werr error
			var rerr atomic.Value
			wg.Add(1)
			go func() {
				defer wg.Done()
				bar.wait()
				werr = b.store.WriteToShard(1, []modelsPoint{vPt{M: "m0", Tags: map[string]string{"host": host, "dc": "x"}, Fields: map[string]vVal{"f0": vF(float64(r))}, TS: int64(r + 1)}.point()})
			}()
			for k := 0; k < readers; k++ {
				wg.Add(1)
				go func(k int) {
					defer wg.Done()
					bar.wait()
					for w := 0; w < ((r*7+k*13)%32)*spin; w++ {
						atomic.AddInt64(&vSpinSink, 1)
					}
					for n := 0; n < 3; n++ {
						cond := fmt.Sprintf("host = '%s'", host)
						if k%2 == 1 {
							cond = "dc = 'x'"
						}
						if _, err := b.readField(1, "m0", "f0", true, influxql.MinTime, influxql.MaxTime, cond); err != nil {
							rerr.Store(err)
						}
					}
				}(k)
			}
			wg.Wait()
			if werr != nil {
				rt.Fatalf("%s write of the new series: %v", verifkit.Sig("concurrent-write-error"), werr)
			}
			if e := rerr.Load(); e != nil {
				rt.Fatalf("%s read racing with series creation: %v", verifkit.Sig("concurrent-read-error"), e)
			}
			for _, cond := range []string{fmt.Sprintf("host = '%s'", host), "dc = 'x'"} {
				rows, err := b.readField(1, "m0", "f0", true, influxql.MinTime, influxql.MaxTime, cond)
				if err != nil {
					rt.Fatalf("%s read after the round: %v", verifkit.Sig("concurrent-read-error"), err)
				}
				found := false
				for _, row := range rows {
					if row.TS == int64(r+1) {
						found = true
					}
				}
				if !found {
					rt.Fatalf("%s round %d: the acknowledged first point of the new series m0,dc=x,host=%s is not returned by a later read WHERE %s (%d rows returned; index %s, %d readers raced with the write)", verifkit.Sig("read-misses-acknowledged-write"), r, host, cond, len(rows), idx, readers)
				}
			}
		}
		stats.Case(readers >= 2 && rounds >= 10, fmt.Sprint(idx, readers, rounds, spin), "index:"+idx, fmt.Sprintf("readers:%d", readers))
		if stats.WantSample() {
			stats.Sample(map[string]interface{}{"index": idx, "readers": readers, "rounds": rounds})
		} else {
			stats.Sample(nil)
		}
	})
}

func TestVerifC19FieldTypeRace(t *testing.T) {
	stats := verifkit.For("C19", "TestVerifC19FieldTypeRace",
		"2..8 goroutines, lined up by a spin barrier, each write one point that creates the same brand-new field of a brand-new measurement with a per-goroutine type (drawn; at least two different types), round after round; oracle: every acknowledged writer's type is the type the field ends up with, and exactly the acknowledged points are readable. non-trivial = at least 3 goroutines; distinct = (index, types, rounds)")
	defer stats.Flush()
	rapid.Check(t, func(rt *rapid.T) {
		root, err := os.MkdirTemp("", "c19t")
		if err != nil {
			rt.Fatal(err)
		}
		defer os.RemoveAll(root)
		idx := rapid.SampledFrom([]string{"inmem", "inmem", "tsi1"}).Draw(rt, "index")
		b, err := vNewBed(root, idx, 1)
		if err != nil {
			rt.Fatalf("open: %v", err)
		}
		defer b.close()
		g := rapid.IntRange(2, 8).Draw(rt, "goroutines")
		rounds := rapid.IntRange(50, 400).Draw(rt, "rounds")
		types := make([]byte, g)
		for i := range types {
			types[i] = rapid.SampledFrom(vTypes).Draw(rt, "type")
		}
		if types[0] == types[1] {
			for _, c := range vTypes {
				if c != types[0] {
					types[1] = c
					break
				}
			}
		}
		for r := 0; r < rounds; r++ {
			m := fmt.Sprintf("r%d", r)
			bar := &vSpin{n: int64(g)}
			acked := make([]bool, g)
			var wg sync.WaitGroup
			for i := 0; i < g; i++ {
				wg.Add(1)
				go func(i int) {
					defer wg.Done()
					var v vVal
					switch types[i] {
					case 'f':
						v = vF(1.5)
					case 'i':
						v = vI(7)
					case 'u':
						v = vU(9)
					case 's':
						v = vS("x")
					default:
						v = vB(true)
					}
					p := []modelsPoint{vPt{M: m, Tags: map[string]string{"host": fmt.Sprintf("g%d", i)}, Fields: map[string]vVal{"raced": v}, TS: int64(i)}.point()}
					bar.wait()
					acked[i] = b.store.WriteToShard(1, p) == nil
				}(i)
			}
			wg.Wait()
			var ft byte
			if mf := b.store.Shard(1).MeasurementFields([]byte(m)); mf != nil {
				if f := mf.Field("raced"); f != nil {
					ft = vTypeOfInfluxQL(f.Type)
				}
			}
			var rows []vRow
			var rpanic interface{}
			func() {
				defer func() { rpanic = recover() }()
				rows, err = b.readField(1, m, "raced", true, influxql.MinTime, influxql.MaxTime, "")
			}()
			if rpanic != nil {
				rt.Fatalf("%s round %d: reading field %s.raced after concurrent creation with types %q (acknowledged %v) panics: %v; engine keys %v", verifkit.Sig("field-holds-two-types"), r, m, string(types), acked, rpanic, vC19Keys(b, m+","))
			}
			if err != nil {
				rt.Fatalf("%s reading the raced field: %v", verifkit.Sig("concurrent-read-error"), err)
			}
			nok := 0
			for i := 0; i < g; i++ {
				if !acked[i] {
					continue
				}
				nok++
				if types[i] != ft {
					rt.Fatalf("%s round %d: goroutine %d created field %s.raced as %c and was acknowledged, but the field has type %c (types %q, acknowledged %v, readable rows %v, engine keys %v)", verifkit.Sig("conflicting-write-acknowledged"), r, i, m, types[i], ft, string(types), acked, rows, vC19Keys(b, m+","))
				}
			}
			if nok == 0 {
				rt.Fatalf("%s round %d: none of the %d concurrent creators of field %s.raced was acknowledged", verifkit.Sig("raced-field-nobody-won"), r, g, m)
			}
			if nok != len(rows) {
				rt.Fatalf("%s round %d: %d writers of %s.raced were acknowledged but %d values are readable (%v)", verifkit.Sig("raced-field-acked-count"), r, nok, m, len(rows), rows)
			}
		}
		stats.Case(g >= 3, fmt.Sprint(idx, string(types), rounds), "index:"+idx, fmt.Sprintf("goroutines:%d", g))
		if stats.WantSample() {
			stats.Sample(map[string]interface{}{"index": idx, "types": string(types), "rounds": rounds})
		} else {
			stats.Sample(nil)
		}
	})
}

// TestVerifC19SnapshotVsDelete (run with -race): cache snapshots racing with series deletes of another
// measurement and with writes; the race detector is the oracle, plus: the untouched series keeps every
// acknowledged point.
func TestVerifC19SnapshotVsDelete(t *testing.T) {
	stats := verifkit.For("C19", "TestVerifC19SnapshotVsDelete",
		"one real shard (inmem; tsi1 is excluded here because of the known delete-vs-tsi-compaction-deadlock): a writer appends to a kept series and to a victim measurement (in one case out of three also a wide batch of 200..1500 series x 3 fields per write call), a second goroutine takes cache snapshots, a third deletes victim series with and without time bounds, for a drawn number of rounds; oracle: no race-detector report, no error, no panic, and the kept series - and every value of the wide batches - is readable afterwards. non-trivial = at least 20 rounds; distinct = (rounds, batch size)")
	defer stats.Flush()
	rapid.Check(t, func(rt *rapid.T) {
		root, err := os.MkdirTemp("", "c19s")
		if err != nil {
			rt.Fatal(err)
		}
		defer os.RemoveAll(root)
		b, err := vNewBed(root, "inmem", 1)
		if err != nil {
			rt.Fatalf("open: %v", err)
		}
		defer b.close()
		rounds := rapid.IntRange(5, 60).Draw(rt, "rounds")
		batch := rapid.IntRange(1, 20).Draw(rt, "batch")
		snapshotters := rapid.IntRange(1, 2).Draw(rt, "snapshotters")
		deleters := rapid.IntRange(1, 4).Draw(rt, "deleters")
		wide := 0
		if rapid.IntRange(0, 2).Draw(rt, "wideBatch") == 0 {
			wide = rapid.IntRange(200, 1500).Draw(rt, "wide")
			if rounds > 15 {
				rounds = 15
			}
		}
		var wideAcked int64
		var wg sync.WaitGroup
		var failMu sync.Mutex
		var failure string
		fail := func(s string) {
			failMu.Lock()
			if failure == "" {
				failure = s
			}
			failMu.Unlock()
		}
		var acked int64
		stop := make(chan struct{})
		wg.Add(1 + snapshotters + deleters)
		go func() { // writer
			defer wg.Done()
			defer close(stop)
			for r := 0; r < rounds; r++ {
				var pts []modelsPoint
				n0 := atomic.LoadInt64(&acked)
				for k := 0; k < batch; k++ {
					pts = append(pts, vPt{M: "m0", Tags: map[string]string{"host": "keep"}, Fields: map[string]vVal{"f0": vF(float64(n0 + int64(k)))}, TS: n0 + int64(k)}.point())
					pts = append(pts, vPt{M: "m1", Tags: map[string]string{"host": fmt.Sprintf("v%d", k%3)}, Fields: map[string]vVal{"f0": vF(1)}, TS: n0 + int64(k)}.point())
				}
				// a wide batch: many series and fields in ONE write call, so that a snapshot can fall between
				// two keys of the same batch
				for w := 0; w < wide; w++ {
					pts = append(pts, vPt{M: "m4", Tags: map[string]string{"host": fmt.Sprintf("w%d", w)}, Fields: map[string]vVal{"f0": vF(float64(r)), "f1": vI(int64(r)), "f2": vB(true)}, TS: int64(r)}.point())
				}
				if err := b.store.WriteToShard(1, pts); err != nil {
					fail("write: " + err.Error())
					return
				}
				atomic.StoreInt64(&acked, n0+int64(batch))
				atomic.AddInt64(&wideAcked, 1)
			}
		}()
		for sn := 0; sn < snapshotters; sn++ {
			go func() { // snapshotter
				defer wg.Done()
				for {
					select {
					case <-stop:
						return
					default:
					}
					if err := b.snapshot(1); err != nil && err != ErrSnapshotInProgress && err != errSnapshotsDisabled && !strings.Contains(err.Error(), "snapshot in progress") {
						fail("snapshot: " + err.Error())
						return
					}
					runtime.Gosched()
				}
			}()
		}
		for dl := 0; dl < deleters; dl++ {
			go func(dl int) { // deleter
				defer wg.Done()
				for i := dl; ; i++ {
					select {
					case <-stop:
						return
					default:
					}
					sel := vSel{M: "m1", TagK: "host", TagV: fmt.Sprintf("v%d", i%3)}
					switch i % 3 {
					case 0:
						sel.HasMin, sel.HasMax, sel.Min, sel.Max = true, true, 0, int64(i)
					case 1:
						// a range no file overlaps: the delete then looks at the cache alone
						sel.HasMin, sel.HasMax, sel.Min, sel.Max = true, true, 1<<40, 1<<41
					}
					if err := b.deleteSeries(sel); err != nil {
						fail("delete: " + err.Error())
						return
					}
				}
			}(dl)
		}
		done := make(chan struct{})
		go func() { wg.Wait(); close(done) }()
		select {
		case <-done:
		case <-time.After(120 * time.Second):
			rt.Fatalf("%s writer, snapshotter and deleter did not finish within 120s", verifkit.Sig("concurrent-deadlock"))
		}
		if failure != "" {
			rt.Fatalf("%s %s", verifkit.Sig("concurrent-operation-error"), failure)
		}
		rows, err := b.readField(1, "m0", "f0", true, influxql.MinTime, influxql.MaxTime, "host = 'keep'")
		if err != nil {
			rt.Fatalf("%s %v", verifkit.Sig("concurrent-read-error"), err)
		}
		have := map[int64]bool{}
		for _, r := range rows {
			have[r.TS] = true
		}
		for ts := int64(0); ts < acked; ts++ {
			if !have[ts] {
				rt.Fatalf("%s point ts=%d of the kept series was acknowledged and is not readable after %d rounds of concurrent snapshots and deletes of another measurement (%d of %d present)", verifkit.Sig("acknowledged-write-lost"), ts, rounds, len(rows), acked)
			}
		}
		if wide > 0 {
			for _, f := range []string{"f0", "f1", "f2"} {
				rows, err := b.readField(1, "m4", f, true, influxql.MinTime, influxql.MaxTime, "")
				if err != nil {
					rt.Fatalf("%s %v", verifkit.Sig("concurrent-read-error"), err)
				}
				if want := int(wideAcked) * wide; len(rows) != want {
					rt.Fatalf("%s %d write calls of %d series x 3 fields were acknowledged while cache snapshots and deletes of another measurement ran, but field %s of m4 returns %d of %d values", verifkit.Sig("acknowledged-write-lost"), wideAcked, wide, f, len(rows), want)
				}
			}
		}
		stats.Case(rounds >= 20 || wide > 0, fmt.Sprint(rounds, batch, snapshotters, deleters, wide), fmt.Sprintf("wideBatch:%v", wide > 0), fmt.Sprintf("rounds>=20:%v", rounds >= 20))
		if stats.WantSample() {
			stats.Sample(map[string]interface{}{"rounds": rounds, "batch": batch, "acked_points": acked})
		} else {
			stats.Sample(nil)
		}
	})
}
