//go:build verif

package tsm1

import (
	"flag"
	"fmt"
	"os"
	"sort"
	"strings"
	"sync"
	"testing"

	jw "github.com/jwilder/encoding/simple8b"
	"pgregory.net/rapid"
	"verifkit"

	s8b "github.com/influxdata/influxdb/pkg/encoding/simple8b"
)

// vC13Seen collects the classes reached in this process so that a generator that stopped
// reaching a scheme is reported (DESIGN C13, NT rule) instead of passing silently.
type vC13Seen struct {
	mu sync.Mutex
	m  map[string]int
}

func (s *vC13Seen) add(cl []string) {
	s.mu.Lock()
	for _, c := range cl {
		s.m[c]++
	}
	s.mu.Unlock()
}

// vC13Require stops the process with exit code 3 (the driver reports "inconclusive", never a
// pass) when a required class was not reached by a campaign of at least minCases cases.
func vC13Require(st *verifkit.Stats, seen *vC13Seen, cases int, minCases int, required []string) {
	if f := flag.Lookup("rapid.failfile"); f != nil && f.Value.String() != "" {
		return // replay of one recorded case
	}
	if cases < minCases {
		return
	}
	if x := os.Getenv("VERIF_C13_REQUIRE_EXTRA"); x != "" { // lets the exit path itself be tested
		required = append(append([]string(nil), required...), x)
	}
	var missing []string
	for _, r := range required {
		if seen.m[r] == 0 {
			missing = append(missing, r)
		}
	}
	if len(missing) > 0 {
		st.Note("generator-broken", strings.Join(missing, ","))
		st.Flush()
		fmt.Printf("VERIF-GENERATOR-BROKEN: %d cases and no case of: %s\n", cases, strings.Join(missing, ", "))
		os.Exit(3)
	}
}

func vC13SortedClasses(m map[string]bool) []string {
	l := make([]string, 0, len(m))
	for k := range m {
		l = append(l, k)
	}
	sort.Strings(l)
	return l
}

var vC13RequiredBlocks = func() []string {
	r := []string{"time-scheme:raw", "time-scheme:simple8b", "time-scheme:rle", "int-scheme:raw", "int-scheme:simple8b", "int-scheme:rle",
		"kind:f", "kind:i", "kind:u", "kind:b", "kind:s", "len:1", "len:2", "len:block-boundary", "len:2-4-blocks"}
	for s := 0; s < 16; s++ {
		r = append(r, fmt.Sprintf("time-s8b-selector:%02d", s), fmt.Sprintf("int-s8b-selector:%02d", s))
	}
	for d := 0; d <= 12; d++ {
		r = append(r, fmt.Sprintf("time-divisor:1e%d", d))
	}
	return r
}()

func TestVerifC13Blocks(t *testing.T) {
	st := verifkit.For("C13", "TestVerifC13Blocks",
		"sequences of 1..4000 (timestamp,value) pairs of one field type; timestamps and integers are built from delta shapes that aim at run-length, every simple8b selector, every power-of-ten divisor, the 2^60 limit and raw storage (constant, constant-but-last, exact bit widths, scaled, unit runs, one big delta, non-monotone, extremes); floats from xor-window shapes (all finite bit patterns, NaN/Inf excluded); booleans around multiples of 8; strings empty..64 KiB. Each sequence is encoded by the three encoders of the format and decoded by DecodeBlock and by the array decoders; all must return the input bit for bit, BlockType/BlockCount must match. non-trivial = not both sections in the trivial layout (the time or value scheme is run-length or raw, a simple8b word with a selector other than the widest, or length at a block boundary); distinct = kind + shapes + length class + scheme nibbles")
	defer st.Flush()
	seen := &vC13Seen{m: map[string]int{}}
	cases := 0
	rapid.Check(t, func(rt *rapid.T) {
		classes := map[string]bool{}
		var canon strings.Builder
		q := &vC13Seq{kind: rapid.SampledFrom([]byte{'f', 'i', 'i', 'u', 'b', 's'}).Draw(rt, "kind")}
		classes["kind:"+string(q.kind)] = true
		n := vC13DrawLen(rt, classes)
		if q.kind == 's' && n > 1001 {
			n = 1001
		}
		canon.WriteByte(q.kind)
		q.ts = vC13DrawTimes(rt, n, classes, &canon)
		canon.WriteByte('|')
		switch q.kind {
		case 'f':
			q.f = vC13DrawFloats(rt, n, classes, &canon)
		case 'i':
			q.i = vC13DrawInts(rt, n, classes, &canon)
		case 'u':
			v := vC13DrawInts(rt, n, classes, &canon)
			q.u = make([]uint64, n)
			for k := range v {
				q.u[k] = uint64(v[k])
			}
		case 'b':
			q.b = vC13DrawBools(rt, n, classes, &canon)
		case 's':
			q.s = vC13DrawStrings(rt, n, classes, &canon)
		}
		blk, e := vC13CheckBlock(q, classes)
		if e != nil {
			rt.Fatalf("%s kind %c, %d values (%s): %s", verifkit.Sig(e.sig), q.kind, n, canon.String(), e.msg)
		}
		tsS, valS := vC13Schemes(blk, q.kind, map[string]bool{})
		nt := tsS != timeCompressedPackedSimple || classes["len:block-boundary"] || n <= 2
		if q.kind == 'i' || q.kind == 'u' {
			nt = nt || valS != intCompressedSimple
		}
		for c := range classes {
			if strings.Contains(c, "s8b-selector:") && !strings.HasSuffix(c, ":15") {
				nt = true
			}
		}
		cl := vC13SortedClasses(classes)
		lenClass := ""
		for _, c := range cl {
			if strings.HasPrefix(c, "len:") {
				lenClass += c
			}
		}
		st.Case(nt, fmt.Sprintf("%s/%s/%d/%d", canon.String(), lenClass, tsS, valS), cl...)
		seen.add(cl)
		cases++
		if st.WantSample() {
			m := map[string]interface{}{"kind": string(q.kind), "n": n, "shapes": canon.String(), "time_scheme": tsS, "value_scheme": valS, "block_bytes": len(blk)}
			k := n
			if k > 6 {
				k = 6
			}
			var head []string
			for j := 0; j < k; j++ {
				head = append(head, q.describe(j))
			}
			m["first_values"] = head
			st.Sample(m)
		} else {
			st.Sample(nil)
		}
	})
	vC13Require(st, seen, cases, 20000, vC13RequiredBlocks)
}

// TestVerifC13Simple8b is a differential test of the two simple8b implementations the codecs
// use (github.com/jwilder/encoding/simple8b in the iterator codecs, pkg/encoding/simple8b in the
// batch codecs): each must decode what itself and the other one encoded.
func TestVerifC13Simple8b(t *testing.T) {
	st := verifkit.For("C13", "TestVerifC13Simple8b",
		"slices of 1..600 values below 2^60 built from the same width shapes; encoded with both simple8b packages (EncodeAll and the streaming Encoder), decoded with both (DecodeAll, DecodeBytesBigEndian, the streaming Decoder), counted with CountBytes; every combination must return the input. non-trivial = more than one selector in the encoded words; distinct = shape + selector set")
	defer st.Flush()
	seen := &vC13Seen{m: map[string]int{}}
	cases := 0
	rapid.Check(t, func(rt *rapid.T) {
		classes := map[string]bool{}
		var canon strings.Builder
		n := rapid.SampledFrom([]int{1, 2, 7, 8, 59, 60, 61, 119, 120, 121, 239, 240, 241, 300, 481, 600}).Draw(rt, "n")
		if rapid.Bool().Draw(rt, "anyLen") {
			n = rapid.IntRange(1, 600).Draw(rt, "nAny")
		}
		shape := rapid.SampledFrom([]string{"width", "width-mixed", "ones-run", "boundary", "zeros", "scaled"}).Draw(rt, "shape")
		src := vC13Deltas(rt, n+1, shape, &canon)
		for i := range src {
			if shape == "scaled" {
				src[i] %= 1 << 60
			}
			if src[i] >= 1<<60 {
				src[i] = 1<<60 - 1
			}
		}
		cp := func() []uint64 { return append([]uint64(nil), src...) }
		e := vC13Safely("simple8b", func() *vC13Err {
			encA, err := s8b.EncodeAll(cp())
			if err != nil {
				return vC13Fail("simple8b-encode-error", "pkg EncodeAll: %v", err)
			}
			encA = append([]uint64(nil), encA...)
			encB, err := jw.EncodeAll(cp())
			if err != nil {
				return vC13Fail("simple8b-encode-error", "jwilder EncodeAll: %v", err)
			}
			encB = append([]uint64(nil), encB...)
			se := s8b.NewEncoder()
			for _, v := range src {
				if err := se.Write(v); err != nil {
					return vC13Fail("simple8b-encode-error", "pkg Encoder.Write(%d): %v", v, err)
				}
			}
			encCb, err := se.Bytes()
			if err != nil {
				return vC13Fail("simple8b-encode-error", "pkg Encoder.Bytes: %v", err)
			}
			encCb = append([]byte(nil), encCb...)
			for _, w := range encA {
				classes[fmt.Sprintf("s8b-selector:%02d", w>>60)] = true
			}
			check := func(what string, got []uint64) *vC13Err {
				if len(got) != len(src) {
					return vC13Fail("simple8b-roundtrip-differs", "%s: %d values, want %d", what, len(got), len(src))
				}
				for i := range src {
					if got[i] != src[i] {
						return vC13Fail("simple8b-roundtrip-differs", "%s: value #%d is %d, want %d (n=%d)", what, i, got[i], src[i], len(src))
					}
				}
				return nil
			}
			toBytes := func(w []uint64) []byte {
				b := make([]byte, 8*len(w))
				for i, v := range w {
					for j := 0; j < 8; j++ {
						b[i*8+j] = byte(v >> uint(56-8*j))
					}
				}
				return b
			}
			for name, enc := range map[string][]uint64{"pkg.EncodeAll": encA, "jwilder.EncodeAll": encB} {
				dst := make([]uint64, len(src)+240)
				k, err := s8b.DecodeAll(dst, enc)
				if err != nil {
					return vC13Fail("simple8b-decode-error", "pkg DecodeAll(%s): %v", name, err)
				}
				if e := check(name+" -> pkg.DecodeAll", dst[:k]); e != nil {
					return e
				}
				dst = make([]uint64, len(src)+240)
				k, err = jw.DecodeAll(dst, enc)
				if err != nil {
					return vC13Fail("simple8b-decode-error", "jwilder DecodeAll(%s): %v", name, err)
				}
				if e := check(name+" -> jwilder.DecodeAll", dst[:k]); e != nil {
					return e
				}
				b := toBytes(enc)
				dst = make([]uint64, len(src)+240)
				k, err = s8b.DecodeBytesBigEndian(dst, b)
				if err != nil {
					return vC13Fail("simple8b-decode-error", "pkg DecodeBytesBigEndian(%s): %v", name, err)
				}
				if e := check(name+" -> pkg.DecodeBytesBigEndian", dst[:k]); e != nil {
					return e
				}
				if c, err := s8b.CountBytes(b); err != nil || c != len(src) {
					return vC13Fail("simple8b-count-wrong", "pkg CountBytes(%s) = %d, %v; want %d", name, c, err, len(src))
				}
				if c, err := jw.CountBytes(b); err != nil || c != len(src) {
					return vC13Fail("simple8b-count-wrong", "jwilder CountBytes(%s) = %d, %v; want %d", name, c, err, len(src))
				}
				var got []uint64
				d := s8b.NewDecoder(b)
				for d.Next() {
					got = append(got, d.Read())
				}
				if e := check(name+" -> pkg.Decoder", got); e != nil {
					return e
				}
				got = got[:0]
				jd := jw.NewDecoder(b)
				for jd.Next() {
					got = append(got, jd.Read())
				}
				if e := check(name+" -> jwilder.Decoder", got); e != nil {
					return e
				}
			}
			var got []uint64
			d := s8b.NewDecoder(encCb)
			for d.Next() {
				got = append(got, d.Read())
			}
			return check("pkg.Encoder -> pkg.Decoder", got)
		})
		if e != nil {
			rt.Fatalf("%s shape %s n=%d: %s", verifkit.Sig(e.sig), canon.String(), len(src), e.msg)
		}
		nsel := 0
		var sel []string
		for c := range classes {
			nsel++
			sel = append(sel, c[len(c)-2:])
		}
		sort.Strings(sel)
		cl := vC13SortedClasses(classes)
		st.Case(nsel > 1, canon.String()+"/"+strings.Join(sel, ","), cl...)
		seen.add(cl)
		cases++
		if st.WantSample() {
			k := len(src)
			if k > 8 {
				k = 8
			}
			st.Sample(map[string]interface{}{"shape": canon.String(), "n": len(src), "first_values": fmt.Sprint(src[:k]), "selectors": sel})
		} else {
			st.Sample(nil)
		}
	})
	var req []string
	for s := 0; s < 16; s++ {
		req = append(req, fmt.Sprintf("s8b-selector:%02d", s))
	}
	vC13Require(st, seen, cases, 5000, req)
}
