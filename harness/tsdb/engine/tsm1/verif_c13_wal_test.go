//go:build verif

package tsm1

import (
	"bytes"
	"fmt"
	"io"
	"math"
	"sort"
	"strings"
	"testing"

	"github.com/golang/snappy"
	"pgregory.net/rapid"
	"verifkit"
)

// ---------------------------------------------------------------- WAL entries

type vC13Buf struct{ bytes.Buffer }

func (b *vC13Buf) Close() error { return nil }

func vC13DrawKey(rt *rapid.T, label string, allowNewline bool) []byte {
	n := rapid.IntRange(1, 24).Draw(rt, label+"Len")
	b := make([]byte, n)
	for i := range b {
		c := rapid.SampledFrom([]byte{'c', 'p', 'u', ',', '=', ' ', '#', '!', '~', 'a', '0', 0, 0xff, '\\', '\n', 'v'}).Draw(rt, label)
		if c == '\n' && !allowNewline {
			c = 'n'
		}
		b[i] = c
	}
	return b
}

func vC13DrawWALValues(rt *rapid.T, classes map[string]bool) []Value {
	kind := rapid.SampledFrom([]byte{'f', 'i', 'u', 'b', 's'}).Draw(rt, "wkind")
	classes["wal-value:"+string(kind)] = true
	n := rapid.IntRange(1, 6).Draw(rt, "wn")
	if rapid.IntRange(0, 19).Draw(rt, "wmany") == 0 {
		n = rapid.IntRange(50, 400).Draw(rt, "wnMany")
		classes["wal-value:many"] = true
	}
	rng := vC13Rng(rapid.Uint64().Draw(rt, "wseed"))
	vals := make([]Value, n)
	for k := range vals {
		t := int64(rng.next())
		if rng.intn(4) == 0 {
			t = []int64{0, -1, math.MinInt64, math.MaxInt64, 1500000000000000000}[rng.intn(5)]
		}
		switch kind {
		case 'f':
			vals[k] = NewFloatValue(t, math.Float64frombits(vC13Finite(rng.next())))
		case 'i':
			vals[k] = NewIntegerValue(t, int64(rng.next()))
		case 'u':
			vals[k] = NewUnsignedValue(t, rng.next())
		case 'b':
			vals[k] = NewBooleanValue(t, rng.next()&1 == 1)
		case 's':
			l := rng.intn(40)
			if rng.intn(30) == 0 {
				l = 3000 + rng.intn(3000)
				classes["wal-value:long-string"] = true
			}
			b := make([]byte, l)
			for j := range b {
				b[j] = byte(rng.next())
			}
			vals[k] = NewStringValue(t, string(b))
		}
	}
	return vals
}

func vC13DrawEntry(rt *rapid.T, classes map[string]bool) WALEntry {
	switch rapid.IntRange(0, 9).Draw(rt, "entryKind") {
	case 0, 1:
		e := &DeleteWALEntry{}
		// series keys never contain a newline or are empty (the entry format joins keys with '\n');
		// WAL.Delete is never called with zero keys
		for i := rapid.IntRange(1, 5).Draw(rt, "delKeys"); i > 0; i-- {
			e.Keys = append(e.Keys, vC13DrawKey(rt, "delKey", false))
		}
		classes["wal-entry:delete"] = true
		return e
	case 2, 3:
		e := &DeleteRangeWALEntry{Min: rapid.SampledFrom([]int64{math.MinInt64, 0, -5, 1500000000000000000}).Draw(rt, "min"), Max: rapid.SampledFrom([]int64{math.MaxInt64, 0, 5, 1600000000000000000}).Draw(rt, "max")}
		for i := rapid.IntRange(1, 5).Draw(rt, "drKeys"); i > 0; i-- {
			e.Keys = append(e.Keys, vC13DrawKey(rt, "drKey", true))
		}
		classes["wal-entry:delete-range"] = true
		return e
	}
	e := &WriteWALEntry{Values: map[string][]Value{}}
	nk := rapid.IntRange(1, 5).Draw(rt, "writeKeys")
	for i := 0; i < nk; i++ {
		e.Values[string(vC13DrawKey(rt, "wKey", true))] = vC13DrawWALValues(rt, classes)
	}
	classes["wal-entry:write"] = true
	if len(e.Values) > 1 {
		classes["wal-entry:write-multi-key"] = true
	}
	return e
}

func vC13ValuesEq(a, b []Value) string {
	if len(a) != len(b) {
		return fmt.Sprintf("%d values vs %d", len(a), len(b))
	}
	for i := range a {
		if a[i].UnixNano() != b[i].UnixNano() {
			return fmt.Sprintf("value #%d time %d vs %d", i, a[i].UnixNano(), b[i].UnixNano())
		}
		x, y := a[i].Value(), b[i].Value()
		if fx, ok := x.(float64); ok {
			fy, ok2 := y.(float64)
			if !ok2 || math.Float64bits(fx) != math.Float64bits(fy) {
				return fmt.Sprintf("value #%d float bits %x vs %v", i, math.Float64bits(fx), y)
			}
			continue
		}
		if fmt.Sprintf("%T", x) != fmt.Sprintf("%T", y) || x != y {
			return fmt.Sprintf("value #%d %T(%v) vs %T(%v)", i, x, x, y, y)
		}
	}
	return ""
}

func vC13KeysEq(a, b [][]byte) bool {
	if len(a) != len(b) {
		return false
	}
	for i := range a {
		if !bytes.Equal(a[i], b[i]) {
			return false
		}
	}
	return true
}

func vC13EntryEq(a, b WALEntry) string {
	switch x := a.(type) {
	case *WriteWALEntry:
		y, ok := b.(*WriteWALEntry)
		if !ok {
			return fmt.Sprintf("entry type %T vs %T", a, b)
		}
		if len(x.Values) != len(y.Values) {
			return fmt.Sprintf("%d keys vs %d", len(x.Values), len(y.Values))
		}
		for k, v := range x.Values {
			w, ok := y.Values[k]
			if !ok {
				return fmt.Sprintf("key %q missing", k)
			}
			if d := vC13ValuesEq(v, w); d != "" {
				return fmt.Sprintf("key %q: %s", k, d)
			}
		}
	case *DeleteWALEntry:
		y, ok := b.(*DeleteWALEntry)
		if !ok {
			return fmt.Sprintf("entry type %T vs %T", a, b)
		}
		if !vC13KeysEq(x.Keys, y.Keys) {
			return fmt.Sprintf("delete keys %q vs %q", x.Keys, y.Keys)
		}
	case *DeleteRangeWALEntry:
		y, ok := b.(*DeleteRangeWALEntry)
		if !ok {
			return fmt.Sprintf("entry type %T vs %T", a, b)
		}
		if x.Min != y.Min || x.Max != y.Max || !vC13KeysEq(x.Keys, y.Keys) {
			return fmt.Sprintf("delete-range [%d,%d] %q vs [%d,%d] %q", x.Min, x.Max, x.Keys, y.Min, y.Max, y.Keys)
		}
	}
	return ""
}

func vC13EntryKind(e WALEntry) string {
	switch x := e.(type) {
	case *WriteWALEntry:
		return fmt.Sprintf("W%d", len(x.Values))
	case *DeleteWALEntry:
		return fmt.Sprintf("D%d", len(x.Keys))
	case *DeleteRangeWALEntry:
		return fmt.Sprintf("R%d", len(x.Keys))
	}
	return "?"
}

func vC13NewEntry(t WalEntryType) WALEntry {
	switch t {
	case WriteWALEntryType:
		return &WriteWALEntry{Values: map[string][]Value{}}
	case DeleteWALEntryType:
		return &DeleteWALEntry{}
	}
	return &DeleteRangeWALEntry{}
}

// vC13ReadSegment replays a (possibly cut) segment exactly like CacheLoader.Load does: stop at
// the first entry that cannot be read.
func vC13ReadSegment(seg []byte) (got []WALEntry, count int64, stoppedOnError bool, e *vC13Err) {
	e = vC13Safely("wal-reader", func() *vC13Err {
		r := NewWALSegmentReader(io.NopCloser(bytes.NewReader(seg)))
		defer r.Close()
		for n := 0; r.Next(); n++ {
			if n > len(seg)+10 {
				return vC13Fail("wal-reader-does-not-terminate", "reader yielded more than %d entries from %d bytes", n, len(seg))
			}
			entry, err := r.Read()
			if err != nil {
				stoppedOnError = true
				break
			}
			got = append(got, entry)
		}
		count = r.Count()
		return nil
	})
	return
}

func TestVerifC13WAL(t *testing.T) {
	st := verifkit.For("C13", "TestVerifC13WAL",
		"WAL segments of 1-30 entries (write entries with 1-5 keys of any field type and 1-400 values, delete and delete-range entries) written through WALSegmentWriter exactly as WAL.writeToLog does (Encode, snappy, 5-byte frame); every entry must survive MarshalBinary/UnmarshalBinary and Encode into a recycled buffer pre-filled with 0x01/0xff/0x00, and the segment cut at every byte offset (exhaustive up to 4 KiB, every entry boundary +-3 and 256 drawn offsets beyond) must replay exactly the entries that end at or before the cut, report Count() = end of the last complete entry, and stop without panic. non-trivial = a (segment, cut) pair whose cut lies strictly inside an entry that follows at least one complete entry; distinct = entry kind sequence + position of the cut inside the torn entry (header / payload)")
	defer st.Flush()
	seen := &vC13Seen{m: map[string]int{}}
	cases := 0
	rapid.Check(t, func(rt *rapid.T) {
		classes := map[string]bool{}
		n := rapid.IntRange(1, 30).Draw(rt, "entries")
		if rapid.IntRange(0, 2).Draw(rt, "short") > 0 {
			n = rapid.IntRange(1, 6).Draw(rt, "entriesShort")
		}
		var entries []WALEntry
		var ends []int
		var kinds []string
		buf := &vC13Buf{}
		w := NewWALSegmentWriter(buf)
		for i := 0; i < n; i++ {
			en := vC13DrawEntry(rt, classes)
			// entry-level round trip
			var raw []byte
			slack := rapid.IntRange(0, 8).Draw(rt, "slack") // drawn outside the recover wrapper below
			if e := vC13Safely("wal-entry", func() *vC13Err {
				b, err := en.MarshalBinary()
				if err != nil {
					return vC13Fail("wal-entry-marshal-error", "MarshalBinary of %s: %v", vC13EntryKind(en), err)
				}
				raw = append([]byte(nil), b...)
				back := vC13NewEntry(en.Type())
				if err := back.UnmarshalBinary(raw); err != nil {
					return vC13Fail("wal-entry-unmarshal-error", "UnmarshalBinary(MarshalBinary(%s)): %v", vC13EntryKind(en), err)
				}
				if d := vC13EntryEq(en, back); d != "" {
					return vC13Fail("wal-entry-roundtrip-differs", "%s: %s", vC13EntryKind(en), d)
				}
				// WAL.writeToLog encodes into a recycled buffer (bytesPool), whose previous content is arbitrary:
				// the encoding must not depend on it
				for _, fill := range []byte{0x01, 0xff, 0x00} {
					dst := bytes.Repeat([]byte{fill}, en.MarshalSize()+slack)
					enc, err := en.Encode(dst)
					if err != nil {
						return vC13Fail("wal-entry-marshal-error", "Encode of %s into a used buffer: %v", vC13EntryKind(en), err)
					}
					// (the byte strings themselves may differ: keys are encoded in map iteration order)
					back2 := vC13NewEntry(en.Type())
					if err := back2.UnmarshalBinary(append([]byte(nil), enc...)); err != nil {
						return vC13Fail("wal-entry-encoding-depends-on-buffer-content", "%s encoded into a recycled buffer filled with 0x%02x does not decode: %v", vC13EntryKind(en), fill, err)
					}
					if d := vC13EntryEq(en, back2); d != "" {
						return vC13Fail("wal-entry-encoding-depends-on-buffer-content", "%s encoded into a recycled buffer filled with 0x%02x decodes to something else: %s", vC13EntryKind(en), fill, d)
					}
				}
				return nil
			}); e != nil {
				rt.Fatalf("%s %s", verifkit.Sig(e.sig), e.msg)
			}
			if err := w.Write(en.Type(), snappy.Encode(nil, raw)); err != nil {
				rt.Fatalf("%s segment write: %v", verifkit.Sig("wal-write-error"), err)
			}
			if err := w.Flush(); err != nil {
				rt.Fatalf("%s segment flush: %v", verifkit.Sig("wal-write-error"), err)
			}
			entries = append(entries, en)
			ends = append(ends, buf.Len())
			kinds = append(kinds, vC13EntryKind(en))
		}
		seg := append([]byte(nil), buf.Bytes()...)
		// which cuts
		var cuts []int
		if len(seg) <= 4096 {
			for o := 0; o <= len(seg); o++ {
				cuts = append(cuts, o)
			}
			classes["wal-cuts:exhaustive"] = true
		} else {
			set := map[int]bool{0: true, len(seg): true}
			for _, e := range ends {
				for d := -3; d <= 8; d++ {
					if o := e + d; o >= 0 && o <= len(seg) {
						set[o] = true
					}
				}
			}
			for i := 0; i < 256; i++ {
				set[rapid.IntRange(0, len(seg)).Draw(rt, "cut")] = true
			}
			for o := range set {
				cuts = append(cuts, o)
			}
			sort.Ints(cuts)
			classes["wal-cuts:stratified"] = true
		}
		ntCuts := 0
		for _, o := range cuts {
			k := 0
			for k < len(ends) && ends[k] <= o {
				k++
			}
			wantCount := int64(0)
			if k > 0 {
				wantCount = int64(ends[k-1])
			}
			got, count, onErr, e := vC13ReadSegment(seg[:o])
			if e != nil {
				rt.Fatalf("%s segment [%s] of %d bytes cut at %d: %s", verifkit.Sig(e.sig), strings.Join(kinds, " "), len(seg), o, e.msg)
			}
			if len(got) > k {
				rt.Fatalf("%s segment [%s] (entry ends %v) cut at %d: %d entries replayed, only %d are complete", verifkit.Sig("wal-torn-entry-replayed"), strings.Join(kinds, " "), ends, o, len(got), k)
			}
			if len(got) < k {
				rt.Fatalf("%s segment [%s] (entry ends %v) cut at %d: %d entries replayed, %d are complete", verifkit.Sig("wal-complete-entry-lost"), strings.Join(kinds, " "), ends, o, len(got), k)
			}
			for i := range got {
				if d := vC13EntryEq(entries[i], got[i]); d != "" {
					rt.Fatalf("%s segment [%s] cut at %d: entry #%d differs: %s", verifkit.Sig("wal-replayed-entry-differs"), strings.Join(kinds, " "), o, i, d)
				}
			}
			if count != wantCount {
				rt.Fatalf("%s segment [%s] (entry ends %v) cut at %d: Count() = %d, want %d", verifkit.Sig("wal-count-wrong"), strings.Join(kinds, " "), ends, o, count, wantCount)
			}
			torn := int64(o) != wantCount
			if torn && !onErr {
				rt.Fatalf("%s segment [%s] (entry ends %v) cut at %d inside an entry: the reader stopped without reporting an error", verifkit.Sig("wal-torn-tail-not-reported"), strings.Join(kinds, " "), ends, o)
			}
			if torn {
				where := "payload"
				if int64(o)-wantCount < 5 {
					where = "header"
				}
				classes["wal-cut:inside-"+where] = true
				if k > 0 {
					ntCuts++
				}
			} else {
				classes["wal-cut:at-boundary"] = true
			}
		}
		classes[fmt.Sprintf("wal-entries:%s", map[bool]string{true: "1-6", false: "7-30"}[n <= 6])] = true
		cl := vC13SortedClasses(classes)
		st.Case(ntCuts > 0, strings.Join(kinds, " "), cl...)
		st.Class("wal-cuts-evaluated", int64(len(cuts)))
		st.Class("wal-cuts-inside-entry-after-complete-entry", int64(ntCuts))
		seen.add(cl)
		cases++
		if st.WantSample() {
			st.Sample(map[string]interface{}{"entries": kinds, "entry_ends": ends, "segment_bytes": len(seg), "cuts": len(cuts)})
		} else {
			st.Sample(nil)
		}
	})
	vC13Require(st, seen, cases, 200, []string{"wal-entry:write", "wal-entry:delete", "wal-entry:delete-range", "wal-cut:inside-header", "wal-cut:inside-payload", "wal-cut:at-boundary", "wal-cuts:exhaustive", "wal-cuts:stratified",
		"wal-value:f", "wal-value:i", "wal-value:u", "wal-value:b", "wal-value:s"})
}
