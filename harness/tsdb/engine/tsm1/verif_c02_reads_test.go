//go:build verif

package tsm1

// C02 - reads equal a last-write-wins model of the shard. DESIGN.md section 4, C02.

import (
	"fmt"
	"os"
	"strings"
	"sync/atomic"
	"testing"

	"github.com/influxdata/influxdb/pkg/verifhook"
	"github.com/influxdata/influxdb/tsdb"
	"github.com/influxdata/influxql"
	"pgregory.net/rapid"
	"verifkit"
)

// vC02Check compares ranged reads (iterator and array cursor, both directions) of a generated
// subset of series fields with the model, and a full read of everything with the whole model.
func vC02Check(rt *rapid.T, b *vBed, where string, full bool, cls map[string]bool) {
	if full {
		got, err := b.readAll()
		if err != nil {
			if strings.Contains(err.Error(), "DUP") {
				rt.Fatalf("%s %s: %v", verifkit.Sig("read-duplicate-timestamp"), where, err)
			}
			rt.Fatalf("%s %s: %v", verifkit.Sig("read-error"), where, err)
		}
		if kind, msg := b.diffModel(got); kind != "" {
			rt.Fatalf("%s %s: full read differs from model: %s", verifkit.Sig("read-"+kind), where, msg)
		}
	}
	series := b.modelSeries(0)
	if len(series) == 0 {
		return
	}
	nq := rapid.IntRange(1, 3).Draw(rt, "nq")
	for q := 0; q < nq; q++ {
		shard := rapid.SampledFrom(b.shards).Draw(rt, "rshard")
		s := rapid.SampledFrom(series).Draw(rt, "rseries")
		f := rapid.SampledFrom(b.fields).Draw(rt, "rfield")
		asc := rapid.Bool().Draw(rt, "asc")
		tmin := rapid.SampledFrom([]int64{influxql.MinTime, 0, 5, 20, 999, 1000, 30}).Draw(rt, "tmin")
		tmax := rapid.SampledFrom([]int64{influxql.MaxTime, 1000, 25, 2500, 5, 999, 1029, 3}).Draw(rt, "tmax")
		want := b.modelSeriesRows(shard, s, f, asc, tmin, tmax)
		if tmin > tmax {
			want = nil
			cls["read:inverted-range"] = true
		}
		if tmin == tmax {
			cls["read:single-instant"] = true
		}
		name, tags := vParseSeries(s)
		cond := ""
		for _, tk := range b.tagKeys {
			if cond != "" {
				cond += " AND "
			}
			cond += fmt.Sprintf("%s = '%s'", tk, tags[tk])
		}
		rows, err := b.readField(shard, name, f, asc, tmin, tmax, cond)
		if err != nil {
			rt.Fatalf("%s %s: iterator read %s.%s [%d,%d]: %v", verifkit.Sig("read-error"), where, s, f, tmin, tmax, err)
		}
		if !vRowsEqual(rows, want) {
			rt.Fatalf("%s %s: iterator read shard %d %s.%s asc=%v [%d,%d]\n got %s\nwant %s", verifkit.Sig("ranged-read-differs"), where, shard, s, f, asc, tmin, tmax, vRowsString(rows), vRowsString(want))
		}
		if tmin <= tmax {
			crow, err := b.readCursor(shard, s, f, asc, tmin, tmax)
			if err != nil {
				rt.Fatalf("%s %s: cursor read %s.%s [%d,%d]: %v", verifkit.Sig("read-error"), where, s, f, tmin, tmax, err)
			}
			if !vRowsEqual(crow, want) {
				rt.Fatalf("%s %s: array cursor read shard %d %s.%s asc=%v [%d,%d]\n got %s\nwant %s", verifkit.Sig("cursor-read-differs"), where, shard, s, f, asc, tmin, tmax, vRowsString(crow), vRowsString(want))
			}
		}
		if len(want) >= 1000 {
			cls["read:>=1000-points"] = true
		}
	}
}

func vParseSeries(s string) (string, map[string]string) {
	name, tags := modelsParseKey(s)
	return name, tags
}

func TestVerifC02Reads(t *testing.T) {
	stats := verifkit.For("C02", "TestVerifC02Reads",
		"rapid state machine on bed E (real tsdb.Store, 1-2 shards, inmem or tsi1): typed writes incl. type-conflicting points, ~1000-point series, snapshots, all compaction kinds via the engine's planner, range deletes, reopen, reads inside the snapshot-flush window; after every action ranged reads (iterator + array cursor, asc/desc) and a full read are compared with a last-write-wins map. non-trivial = a read happened while data was in >=2 sources (hot cache / snapshot in flight / >=2 TSM files) or a >=1000-point block or after a partial tombstone; distinct = hash of the action-kind/outcome sequence")
	defer stats.Flush()
	rapid.Check(t, func(rt *rapid.T) {
		root, err := os.MkdirTemp("", "c02")
		if err != nil {
			rt.Fatal(err)
		}
		defer os.RemoveAll(root)
		idx := rapid.SampledFrom([]string{"inmem", "inmem", "tsi1"}).Draw(rt, "index")
		nsh := rapid.IntRange(1, 2).Draw(rt, "nshards")
		b, err := vNewBed(root, idx, nsh)
		if err != nil {
			rt.Fatalf("open: %v", err)
		}
		defer b.close()
		defer verifhook.Set(nil)
		b.onExclude = stats.Exclude
		cls := map[string]bool{"index:" + idx: true}
		var canon strings.Builder
		var sample []string
		nontrivial := false
		note := func(s string) {
			canon.WriteString(s + ";")
			if len(sample) < 60 {
				sample = append(sample, s)
			}
		}
		cacheDirty := map[uint64]bool{}
		steps := 0
		rt.Repeat(map[string]func(*rapid.T){
			"write": func(rt *rapid.T) {
				shard := rapid.SampledFrom(b.shards).Draw(rt, "shard")
				pts := b.vDrawBatch(rt, shard, 25)
				if err := b.write(shard, pts); err != nil {
					rt.Fatalf("%s well-typed write failed: %v", verifkit.Sig("write-rejected"), err)
				}
				if d := b.applyWrite(shard, pts); d != 0 {
					rt.Fatalf("harness: generated a conflicting batch")
				}
				cacheDirty[shard] = true
				note(fmt.Sprintf("write(shard %d, %d)", shard, len(pts)))
			},
			"rewriteIdentical": func(rt *rapid.T) {
				// re-writing points that are already stored with identical values changes nothing
				var keys []vKey
				for k := range b.model {
					keys = append(keys, k)
				}
				if len(keys) == 0 {
					rt.Skip("empty")
				}
				vSortKeys(keys)
				k := rapid.SampledFrom(keys).Draw(rt, "key")
				name, tags := vParseSeries(k.Series)
				p := vPt{M: name, Tags: tags, Fields: map[string]vVal{k.Field: b.model[k]}, TS: k.TS}
				if err := b.write(k.Shard, []vPt{p}); err != nil {
					rt.Fatalf("%s identical re-write failed: %v", verifkit.Sig("write-rejected"), err)
				}
				cacheDirty[k.Shard] = true
				cls["op:rewrite-identical"] = true
				note("rewrite")
			},
			"bigwrite": func(rt *rapid.T) {
				shard := rapid.SampledFrom(b.shards).Draw(rt, "shard")
				pts := b.vDrawBigSeries(rt, shard)
				if err := b.write(shard, pts); err != nil {
					rt.Fatalf("%s well-typed write failed: %v", verifkit.Sig("write-rejected"), err)
				}
				b.applyWrite(shard, pts)
				cacheDirty[shard] = true
				cls["op:bigwrite"] = true
				nontrivial = true
				note(fmt.Sprintf("bigwrite(%d)", len(pts)))
			},
			"conflictWrite": func(rt *rapid.T) {
				// a batch mixing good points with points whose field type conflicts with the stored type
				shard := rapid.SampledFrom(b.shards).Draw(rt, "shard")
				var typed []string
				for tk := range b.types {
					if strings.HasPrefix(tk, fmt.Sprintf("%d#", shard)) && b.confirmed[tk] {
						typed = append(typed, tk)
					}
				}
				if len(typed) == 0 {
					rt.Skip("no typed field yet")
				}
				sortStrings(typed)
				pts := b.vDrawBatch(rt, shard, 6)
				nbad := rapid.IntRange(1, 3).Draw(rt, "nbad")
				for i := 0; i < nbad; i++ {
					tk := rapid.SampledFrom(typed).Draw(rt, "typedField")
					parts := strings.SplitN(tk, "#", 3)
					cur := b.types[tk]
					var other []byte
					for _, x := range vTypes {
						if x != cur {
							other = append(other, x)
						}
					}
					bt := rapid.SampledFrom(other).Draw(rt, "badType")
					bad := vPt{M: parts[1], Tags: vDrawTags(rt), Fields: map[string]vVal{parts[2]: vDrawValue(rt, bt)}, TS: vDrawTS(rt)}
					if rapid.Bool().Draw(rt, "withNewFieldFirst") {
						// a brand-new field that sorts before the conflicting one: the point must still be dropped as a whole
						bad.Fields[rapid.SampledFrom([]string{"a0", "a1", "a2"}).Draw(rt, "newField")] = vDrawValue(rt, rapid.SampledFrom(vTypes).Draw(rt, "newFieldT"))
						cls["op:conflict-after-new-field"] = true
					}
					if rapid.Bool().Draw(rt, "withGoodField") {
						// a second, well-typed field on the same point must be dropped with it
						for _, f2 := range b.fields {
							if f2 != parts[2] {
								if t2, ok := b.types[vTypeKey(shard, parts[1], f2)]; ok && b.confirmed[vTypeKey(shard, parts[1], f2)] {
									bad.Fields[f2] = vDrawValue(rt, t2)
								}
								break
							}
						}
					}
					pos := rapid.IntRange(0, len(pts)).Draw(rt, "pos")
					pts = append(pts[:pos], append([]vPt{bad}, pts[pos:]...)...)
				}
				err := b.write(shard, pts)
				want := 0
				for _, p := range pts {
					if b.conflicts(shard, p) {
						want++
					}
				}
				pw, ok := err.(tsdb.PartialWriteError)
				if !ok {
					rt.Fatalf("%s batch with %d type-conflicting points returned %v (%T), want tsdb.PartialWriteError", verifkit.Sig("conflict-not-reported-as-partial-write"), want, err, err)
				}
				if pw.Dropped != want {
					var desc []string
					for _, p := range pts {
						var ft []string
						for f := range p.Fields {
							ft = append(ft, fmt.Sprintf("%s:model=%c", f, b.types[vTypeKey(shard, p.M, f)]))
						}
						desc = append(desc, fmt.Sprintf("[%s conflict=%v %v]", p.String(), b.conflicts(shard, p), ft))
					}
					var storeTypes []string
					for _, id := range b.shards {
						for _, m := range b.measurements {
							if mf := b.store.Shard(id).MeasurementFields([]byte(m)); mf != nil {
								for _, f := range b.fields {
									if fd := mf.Field(f); fd != nil {
										storeTypes = append(storeTypes, fmt.Sprintf("%d#%s#%s=%c(model %c)", id, m, f, vTypeOfInfluxQL(fd.Type), b.types[vTypeKey(id, m, f)]))
									}
								}
							}
						}
					}
					rt.Fatalf("%s PartialWriteError.Dropped=%d, want %d (%v)\nshard %d batch: %s\nstore field types: %v\nhistory: %s", verifkit.Sig("partial-write-dropped-count"), pw.Dropped, want, pw, shard, strings.Join(desc, "\n  "), storeTypes, canon.String())
				}
				b.applyWrite(shard, pts)
				cacheDirty[shard] = true
				cls["op:conflict-write"] = true
				note(fmt.Sprintf("conflictWrite(%d,%d)", len(pts), want))
			},
			"newFieldTwoTypes": func(rt *rapid.T) {
				// one batch gives a field that is new to the shard two (or three) different types, on different series of
				// one measurement. Whatever the write reports, the field must end up with one type and only values of it.
				if rapid.IntRange(0, 2).Draw(rt, "rare") != 0 {
					rt.Skip("rare")
				}
				shard := rapid.SampledFrom(b.shards).Draw(rt, "shard")
				m := rapid.SampledFrom(b.measurements).Draw(rt, "m")
				seen := map[string]bool{}
				var series []string
				for k := range b.model {
					if name, _ := vParseSeries(k.Series); k.Shard == shard && name == m && !seen[k.Series] {
						seen[k.Series] = true
						series = append(series, k.Series)
					}
				}
				if len(series) < 2 {
					rt.Skip("needs two series of the measurement")
				}
				sortStrings(series)
				var nf string
				for _, cand := range []string{"n0", "n1", "n2", "n3", "n4", "n5"} {
					if mf := b.store.Shard(shard).MeasurementFields([]byte(m)); mf == nil || mf.Field(cand) == nil {
						nf = cand
						break
					}
				}
				if nf == "" {
					rt.Skip("no unused field name left")
				}
				types := rapid.Permutation(append([]byte(nil), vTypes...)).Draw(rt, "types")
				n := rapid.IntRange(2, 3).Draw(rt, "npts")
				if n > len(series) {
					n = len(series)
				}
				picked := rapid.Permutation(series).Draw(rt, "series")[:n]
				var pts []vPt
				for i, sk := range picked {
					name, tags := vParseSeries(sk)
					pts = append(pts, vPt{M: name, Tags: tags, Fields: map[string]vVal{nf: vDrawValue(rt, types[i])}, TS: 5000 + int64(i)})
				}
				err := b.write(shard, pts)
				_, partial := err.(tsdb.PartialWriteError)
				// what the field holds now
				var ft string
				if mf := b.store.Shard(shard).MeasurementFields([]byte(m)); mf != nil {
					if fd := mf.Field(nf); fd != nil {
						ft = string(vTypeOfInfluxQL(fd.Type))
					}
				}
				var rows []vRow
				var rerr error
				func() {
					defer func() {
						if p := recover(); p != nil {
							rerr = fmt.Errorf("panic: %v", p)
						}
					}()
					rows, rerr = b.readField(shard, m, nf, true, influxql.MinTime, influxql.MaxTime, "")
				}()
				if rerr != nil {
					rt.Fatalf("%s after a batch that gave the new field %s.%s the types %q on different series (write returned %v), reading the field fails: %v", verifkit.Sig("field-holds-two-types"), m, nf, types[:n], err, rerr)
				}
				got := map[byte]int{}
				for _, r := range rows {
					got[r.V.T]++
				}
				if len(got) > 1 || (len(got) == 1 && ft != "" && got[ft[0]] == 0) {
					rt.Fatalf("%s after a batch that gave the new field %s.%s the types %q on different series (write returned %v) the field is registered as %q and holds values of types %v", verifkit.Sig("field-holds-two-types"), m, nf, types[:n], err, ft, got)
				}
				if err == nil && len(rows) != n {
					rt.Fatalf("%s a batch that gave the new field %s.%s the types %q on different series was acknowledged without an error, but %d of its %d points are readable", verifkit.Sig("conflicting-write-acknowledged"), m, nf, types[:n], len(rows), n)
				}
				if err != nil && !partial && len(rows) > 0 {
					rt.Fatalf("%s the write failed with %v (not a partial write) but %d of its points are stored", verifkit.Sig("failed-write-stored-points"), err, len(rows))
				}
				if pw, ok := err.(tsdb.PartialWriteError); ok && pw.Dropped != n-len(rows) {
					rt.Fatalf("%s PartialWriteError.Dropped=%d but %d of the %d points are missing", verifkit.Sig("partial-write-dropped-count"), pw.Dropped, n-len(rows), n)
				}
				cacheDirty[shard] = true
				cls["op:new-field-two-types"] = true
				nontrivial = true
				note(fmt.Sprintf("newFieldTwoTypes(%d)", n))
			},
			"snapshotInstallFails": func(rt *rapid.T) {
				// the new file cannot be installed (the file store observer refuses it): the snapshot must fail
				// cleanly, everything stays readable from the cache, and a later snapshot succeeds
				if rapid.IntRange(0, 2).Draw(rt, "rare") != 0 {
					rt.Skip("rare")
				}
				shard := rapid.SampledFrom(b.shards).Draw(rt, "shard")
				if !cacheDirty[shard] {
					rt.Skip("nothing to snapshot")
				}
				atomic.StoreInt32(&vObs.failNext, 1)
				before := atomic.LoadInt32(&vObs.refused)
				err := b.snapshot(shard)
				atomic.StoreInt32(&vObs.failNext, 0)
				if atomic.LoadInt32(&vObs.refused) > before {
					cls["op:snapshot-install-refused"] = true
					if err == nil {
						rt.Fatalf("%s WriteSnapshot returned nil although the file store refused to install the new file", verifkit.Sig("failed-snapshot-reported-as-success"))
					}
					nontrivial = true
					// everything is still readable (cache snapshot kept for the retry)
					got, rerr := b.readAll()
					if rerr != nil {
						rt.Fatalf("%s after a failed snapshot install: %v", verifkit.Sig("read-error"), rerr)
					}
					if kind, msg := b.diffModel(got); kind != "" {
						rt.Fatalf("%s after a failed snapshot install: %s", verifkit.Sig("read-"+kind+"-after-failed-snapshot"), msg)
					}
					// retry at once: while the failed snapshot's store is pending, a delete would only reach the hot
					// cache (known finding delete-inside-snapshot-window, C10); excluded here by construction
					stats.Exclude("delete-inside-snapshot-window")
					if err := b.snapshot(shard); err != nil {
						rt.Fatalf("%s snapshot retry after an install failure: %v", verifkit.Sig("snapshot-error"), err)
					}
					cacheDirty[shard] = false
				}
				note("snapshotInstallFails")
			},
			"snapshot": func(rt *rapid.T) {
				shard := rapid.SampledFrom(b.shards).Draw(rt, "shard")
				withReads := rapid.Bool().Draw(rt, "readsInsideWindow")
				var inside string
				fired := false
				// a write that overwrites stored points and lands after the cache snapshot was taken, before it is flushed
				var lateWrite []vPt
				if rapid.Bool().Draw(rt, "writeInsideWindow") {
					var keys []vKey
					for k := range b.model {
						if k.Shard == shard {
							keys = append(keys, k)
						}
					}
					vSortKeys(keys)
					n := rapid.IntRange(1, 4).Draw(rt, "nLate")
					for i := 0; i < n && len(keys) > 0; i++ {
						k := rapid.SampledFrom(keys).Draw(rt, "lateKey")
						name, tags := vParseSeries(k.Series)
						lateWrite = append(lateWrite, vPt{M: name, Tags: tags, Fields: map[string]vVal{k.Field: vDrawValue(rt, b.model[k].T)}, TS: k.TS})
					}
				}
				lateDone := false
				if withReads || len(lateWrite) > 0 {
					verifhook.Set(func(ev, path string, n int64) {
						if ev == "snap.taken" && len(lateWrite) > 0 && !lateDone {
							lateDone = true
							if err := b.write(shard, lateWrite); err != nil {
								inside = "write inside snapshot window failed: " + err.Error()
								return
							}
							b.applyWrite(shard, lateWrite)
							cacheDirty[shard] = true
							// read right away: the overwritten value sits in the in-flight snapshot, the new one in the hot cache
							got, err := b.readAll()
							if err != nil {
								inside = "read error after a write inside the snapshot window: " + err.Error()
							} else if kind, msg := b.diffModel(got); kind != "" {
								inside = "read-" + kind + " after overwriting points held by the in-flight snapshot: " + msg
							}
						}
						if !withReads {
							return
						}
						if ev == "snap.written" && !fired {
							fired = true
							// the snapshot file is written but not yet installed: data of this shard is
							// served from the snapshot store + hot cache + existing files
							got, err := b.readAll()
							if err != nil {
								inside = "read error inside snapshot window: " + err.Error()
								return
							}
							if kind, msg := b.diffModel(got); kind != "" {
								inside = "read-" + kind + " inside snapshot window: " + msg
							}
						}
					})
				}
				err := b.snapshot(shard)
				verifhook.Set(nil)
				if err != nil {
					rt.Fatalf("%s snapshot: %v", verifkit.Sig("snapshot-error"), err)
				}
				if inside != "" {
					rt.Fatalf("%s %s", verifkit.Sig("read-inside-snapshot-window"), inside)
				}
				if fired {
					cls["read:inside-snapshot-window"] = true
					nontrivial = true
				}
				if lateDone {
					cls["op:overwrite-inside-snapshot-window"] = true
					nontrivial = true
				} else {
					cacheDirty[shard] = false
				}
				note("snapshot")
			},
			"compact": func(rt *rapid.T) {
				shard := rapid.SampledFrom(b.shards).Draw(rt, "shard")
				kind := rapid.SampledFrom(vCompactKinds).Draw(rt, "kind")
				n, err := b.compact(shard, kind)
				if err != nil {
					rt.Fatalf("compact: %v", err)
				}
				if n > 0 {
					cls["op:compact-"+kind] = true
				}
				note(fmt.Sprintf("compact(%s,%d)", kind, n))
			},
			"delete": func(rt *rapid.T) {
				sel := b.vDrawSel(rt)
				var derr error
				if !verifkit.Watch(vOpTimeout, func() { derr = b.deleteSeries(sel) }) {
					rt.Fatalf("%s DeleteSeries(%v) did not return", verifkit.Sig("delete-hang"), sel)
				}
				if derr != nil {
					rt.Fatalf("%s DeleteSeries(%v): %v", verifkit.Sig("delete-error"), sel, derr)
				}
				n := b.applyDelete(sel)
				if n > 0 {
					cls["op:delete-effective"] = true
				}
				note(fmt.Sprintf("delete(%v removed %d)", sel, n))
			},
			"reopen": func(rt *rapid.T) {
				if err := b.reopen(); err != nil {
					rt.Fatalf("%s reopen: %v", verifkit.Sig("reopen-error"), err)
				}
				cls["op:reopen"] = true
				note("reopen")
			},
			"": func(rt *rapid.T) {
				steps++
				// non-triviality: >=2 sources for some shard
				for _, id := range b.shards {
					nf := len(b.tsmFiles(id))
					if nf >= 2 || (nf >= 1 && cacheDirty[id]) {
						nontrivial = true
						cls["read:multi-source"] = true
					}
					if nf >= 3 {
						cls["read:>=3-files"] = true
					}
				}
				vC02Check(rt, b, fmt.Sprintf("after step %d", steps), true, cls)
			},
		})
		var cl []string
		for k := range cls {
			cl = append(cl, k)
		}
		stats.Case(nontrivial, canon.String(), cl...)
		if stats.WantSample() {
			stats.Sample(map[string]interface{}{"index": idx, "shards": nsh, "actions": sample, "model_points": len(b.model)})
		} else {
			stats.Sample(nil)
		}
	})
}
