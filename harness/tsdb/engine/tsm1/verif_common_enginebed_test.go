//go:build verif

package tsm1

// Bed E (DESIGN.md section 3): a real tsdb.Store on a fresh directory with one or two shards,
// background compaction inert, plus a last-write-wins reference model of what has been
// acknowledged. Used by C01, C02, C10, C18 and C19.

import (
	"context"
	"fmt"
	"math"
	"os"
	"path/filepath"
	"sort"
	"strings"
	"sync/atomic"
	"time"

	"github.com/influxdata/influxdb/models"
	"github.com/influxdata/influxdb/query"
	"github.com/influxdata/influxdb/tsdb"
	"github.com/influxdata/influxdb/tsdb/index/tsi1"
	"github.com/influxdata/influxql"
	"go.uber.org/zap"
	"go.uber.org/zap/zaptest/observer"
	"pgregory.net/rapid"
)

// vVal is a typed field value; comparable, floats are compared by their bits.
type vVal struct {
	T byte // 'f' 'i' 'u' 's' 'b'
	F uint64
	I int64
	U uint64
	S string
	B bool
}

func (v vVal) String() string {
	switch v.T {
	case 'f':
		return fmt.Sprintf("f:%v", math.Float64frombits(v.F))
	case 'i':
		return fmt.Sprintf("i:%d", v.I)
	case 'u':
		return fmt.Sprintf("u:%d", v.U)
	case 's':
		return fmt.Sprintf("s:%q", v.S)
	case 'b':
		return fmt.Sprintf("b:%v", v.B)
	}
	return "?"
}

func (v vVal) iface() interface{} {
	switch v.T {
	case 'f':
		return math.Float64frombits(v.F)
	case 'i':
		return v.I
	case 'u':
		return v.U
	case 's':
		return v.S
	case 'b':
		return v.B
	}
	panic("bad vVal")
}

func vF(f float64) vVal { return vVal{T: 'f', F: math.Float64bits(f)} }
func vI(i int64) vVal   { return vVal{T: 'i', I: i} }
func vU(u uint64) vVal  { return vVal{T: 'u', U: u} }
func vS(s string) vVal  { return vVal{T: 's', S: s} }
func vB(b bool) vVal    { return vVal{T: 'b', B: b} }

// vPt is a generated point.
type vPt struct {
	M      string
	Tags   map[string]string
	Fields map[string]vVal
	TS     int64
}

func (p vPt) point() models.Point {
	f := models.Fields{}
	for k, v := range p.Fields {
		f[k] = v.iface()
	}
	return models.MustNewPoint(p.M, models.NewTags(p.Tags), f, time.Unix(0, p.TS))
}

func (p vPt) series() string { return string(models.MakeKey([]byte(p.M), models.NewTags(p.Tags))) }

func (p vPt) String() string {
	var fs []string
	for k, v := range p.Fields {
		fs = append(fs, k+"="+v.String())
	}
	sort.Strings(fs)
	return fmt.Sprintf("%s %s %d", p.series(), strings.Join(fs, ","), p.TS)
}

// vKey identifies one stored value.
type vKey struct {
	Shard  uint64
	Series string
	Field  string
	TS     int64
}

// vBed is the engine bed.
type vBed struct {
	root   string // directory containing data/ and wal/
	idx    string
	store  *tsdb.Store
	shards []uint64
	model  map[vKey]vVal
	types  map[string]byte // "shard#measurement#field" -> type
	// pools used for full reads
	measurements []string
	fields       []string
	tagKeys      []string
	// preWriteModel is set by C18 to the model before a write that races with a backup
	preWriteModel map[vKey]vVal
	// onExclude is called when the bed steers around a known finding
	onExclude func(sig string)
	// lingerOK holds series that may stay listed although empty (known finding
	// series-lingers-after-piecewise-time-range-deletes), see applyDelete
	lingerOK map[string]bool
	extent   map[string][2]int64 // per "shard|series": min/max timestamp ever written since it was last empty
	// uncertainTypes: "shard#measurement" whose field definitions may or may not have been dropped
	uncertainTypes map[string]bool
	// confirmed: type keys whose type the shard certainly holds (see resetEmptyMeasurements)
	confirmed map[string]bool
}

const vDB, vRP = "db", "rp"

func vOpenStoreAt(root, idx string) (*tsdb.Store, error) {
	s := tsdb.NewStore(filepath.Join(root, "data"))
	s.EngineOptions.Config.Dir = filepath.Join(root, "data")
	s.EngineOptions.Config.WALDir = filepath.Join(root, "wal")
	s.EngineOptions.IndexVersion = idx
	s.EngineOptions.CompactionDisabled = true
	// small tsi1 log files so that index compactions happen in histories of this size
	s.EngineOptions.Config.MaxIndexLogFileSize = 2048
	s.EngineOptions.FileStoreObserver = vObs
	core, logs := observer.New(zap.InfoLevel)
	s.WithLogger(zap.New(core))
	vLastOpenLogs = logs
	if err := s.Open(); err != nil {
		return nil, err
	}
	return s, nil
}

// vLastOpenLogs holds the log entries of the most recent store (Store.Open only logs, and
// skips, a shard that fails to open).
var vLastOpenLogs *observer.ObservedLogs

func vOpenProblems() string {
	if vLastOpenLogs == nil {
		return ""
	}
	var sb strings.Builder
	for _, e := range vLastOpenLogs.All() {
		if e.Level >= zap.WarnLevel || strings.Contains(strings.ToLower(e.Message), "fail") {
			fmt.Fprintf(&sb, "[%s %s %v] ", e.Level, e.Message, e.ContextMap())
		}
	}
	return sb.String()
}

func vNewBed(root, idx string, nshards int) (*vBed, error) {
	b := &vBed{root: root, idx: idx, model: map[vKey]vVal{}, types: map[string]byte{},
		measurements: []string{"m0", "m1", "m2"}, fields: []string{"f0", "f1", "f2"}, tagKeys: []string{"host", "region"}}
	s, err := vOpenStoreAt(root, idx)
	if err != nil {
		return nil, err
	}
	b.store = s
	for i := 1; i <= nshards; i++ {
		id := uint64(i)
		if err := s.CreateShard(vDB, vRP, id, true); err != nil {
			return nil, err
		}
		b.shards = append(b.shards, id)
		b.touchDoNotCompact(id)
	}
	return b, nil
}

func (b *vBed) shardDir(id uint64) string {
	if sh := b.store.Shard(id); sh != nil {
		return filepath.Join(b.root, "data", vDB, sh.RetentionPolicy(), fmt.Sprint(id))
	}
	return filepath.Join(b.root, "data", vDB, vRP, fmt.Sprint(id))
}

func (b *vBed) shardDirRP(rp string, id uint64) string {
	return filepath.Join(b.root, "data", vDB, rp, fmt.Sprint(id))
}

func (b *vBed) walDir(id uint64) string {
	return filepath.Join(b.root, "wal", vDB, vRP, fmt.Sprint(id))
}

// touchDoNotCompact makes the engine's background compaction loop inert: a delete re-enables
// level compactions even when the shard was opened with CompactionDisabled.
func (b *vBed) touchDoNotCompact(id uint64) {
	os.WriteFile(filepath.Join(b.shardDir(id), DoNotCompactFile), nil, 0644)
}

func (b *vBed) engine(id uint64) (*Engine, error) {
	sh := b.store.Shard(id)
	if sh == nil {
		return nil, fmt.Errorf("shard %d not found", id)
	}
	e, err := sh.Engine()
	if err != nil {
		return nil, err
	}
	return e.(*Engine), nil
}

// quiesce waits for tsi1 index compactions so that none is in flight at the next step
// (a series delete that starts while one runs can deadlock: known finding under C19).
func (b *vBed) quiesce() {
	if b.idx != "tsi1" {
		return
	}
	for _, id := range b.shards {
		if sh := b.store.Shard(id); sh != nil {
			if ix, err := sh.Index(); err == nil {
				if ti, ok := ix.(*tsi1.Index); ok {
					ti.Wait()
				}
			}
		}
	}
}

func (b *vBed) close() {
	if b.store != nil {
		b.store.Close()
		b.store = nil
	}
}

func (b *vBed) reopen() error {
	b.close()
	s, err := vOpenStoreAt(b.root, b.idx)
	if err != nil {
		return err
	}
	b.store = s
	return nil
}

func vTypeKey(shard uint64, m, f string) string { return fmt.Sprintf("%d#%s#%s", shard, m, f) }

// conflicts reports whether p carries a field whose type differs from the type that field
// already has in the shard according to the model.
func (b *vBed) conflicts(shard uint64, p vPt) bool {
	for f, v := range p.Fields {
		if t, ok := b.types[vTypeKey(shard, p.M, f)]; ok && t != v.T && b.confirmed[vTypeKey(shard, p.M, f)] {
			return true
		}
	}
	return false
}

// applyWrite updates the model with the points of an acknowledged write; points that
// conflict with the pre-batch field types are the ones the shard must have dropped.
func (b *vBed) applyWrite(shard uint64, pts []vPt) (dropped int) {
	pre := map[string]byte{}
	for k, v := range b.types {
		pre[k] = v
	}
	preConfirmed := map[string]bool{}
	for k := range b.confirmed {
		preConfirmed[k] = true
	}
	for _, p := range pts {
		bad := false
		for f, v := range p.Fields {
			if t, ok := pre[vTypeKey(shard, p.M, f)]; ok && t != v.T && preConfirmed[vTypeKey(shard, p.M, f)] {
				bad = true
			}
		}
		if bad {
			dropped++
			continue
		}
		s := p.series()
		b.noteExtent(shard, s, p.TS)
		for f, v := range p.Fields {
			b.types[vTypeKey(shard, p.M, f)] = v.T
			if b.confirmed == nil {
				b.confirmed = map[string]bool{}
			}
			b.confirmed[vTypeKey(shard, p.M, f)] = true
			b.model[vKey{shard, s, f, p.TS}] = v
		}
	}
	return dropped
}

// write sends the batch to the shard and returns the error of WriteToShard.
func (b *vBed) write(shard uint64, pts []vPt) error {
	mp := make([]models.Point, 0, len(pts))
	for _, p := range pts {
		mp = append(mp, p.point())
	}
	err := b.store.WriteToShard(shard, mp)
	b.quiesce()
	return err
}

func (b *vBed) snapshot(shard uint64) error {
	e, err := b.engine(shard)
	if err != nil {
		return err
	}
	// known finding (C09) keycursor-misorders-more-than-12-overlapping-blocks: reads over more than 12
	// overlapping block locations of one key may return an older value. Histories of this bed keep the
	// number of files below that by compacting first (excluded by construction, counted).
	if len(b.tsmFiles(shard)) >= 10 {
		if b.onExclude != nil {
			b.onExclude("keycursor-misorders-more-than-12-overlapping-blocks")
		}
		if _, err := b.compact(shard, "forcefull"); err != nil {
			return err
		}
	}
	err = e.WriteSnapshot()
	if err == errSnapshotsDisabled {
		// Store.monitorShards (every 10 s) frees a shard it finds idle, which disables snapshot compactions; when
		// that lands right after a write made the shard busy again, the cache is non-empty with snapshots
		// disabled until the next tick or write re-enables them. Do what Store.WriteToShard does and retry.
		if sh := b.store.Shard(shard); sh != nil {
			sh.SetCompactionsEnabled(true)
		}
		err = e.WriteSnapshot()
	}
	return err
}

// compact runs the engine's own planner and strategies synchronously. It returns the number of groups compacted.
func (b *vBed) compact(shard uint64, kind string) (int, error) {
	e, err := b.engine(shard)
	if err != nil {
		return 0, err
	}
	var groups []CompactionGroup
	switch kind {
	case "l1":
		groups = e.CompactionPlan.PlanLevel(1)
	case "l2":
		groups = e.CompactionPlan.PlanLevel(2)
	case "l3":
		groups = e.CompactionPlan.PlanLevel(3)
	case "full":
		groups = e.CompactionPlan.Plan(time.Now().Add(-24 * time.Hour))
	case "opt":
		groups = e.CompactionPlan.PlanOptimize()
	case "forcefull":
		e.CompactionPlan.ForceFull()
		groups = e.CompactionPlan.Plan(time.Now().Add(-24 * time.Hour))
	default:
		return 0, fmt.Errorf("unknown compaction kind %q", kind)
	}
	for _, g := range groups {
		switch kind {
		case "l1":
			e.levelCompactionStrategy(g, false, 1).Apply()
		case "l2":
			e.levelCompactionStrategy(g, false, 2).Apply()
		case "l3":
			e.levelCompactionStrategy(g, true, 3).Apply()
		case "opt":
			e.fullCompactionStrategy(g, true).Apply()
		default:
			e.fullCompactionStrategy(g, false).Apply()
		}
	}
	e.CompactionPlan.Release(groups)
	return len(groups), nil
}

var vCompactKinds = []string{"l1", "l1", "l2", "l3", "full", "opt", "forcefull"}

// tsmFiles lists the shard's *.tsm files.
func (b *vBed) tsmFiles(shard uint64) []string {
	m, _ := filepath.Glob(filepath.Join(b.shardDir(shard), "*.tsm"))
	sort.Strings(m)
	return m
}

// ---- deletes -------------------------------------------------------------------

// vSel is a delete selection: measurement ("" = whole database) plus optional tag predicate.
type vSel struct {
	M      string // "" = all measurements
	TagK   string // "" = no predicate
	TagV   string
	Regex  bool // TagV is a regular expression (=~)
	HasMin bool
	Min    int64
	HasMax bool
	Max    int64
}

func (s vSel) String() string {
	return fmt.Sprintf("from=%q %s", s.M, s.cond())
}

func (s vSel) cond() string {
	var parts []string
	if s.TagK != "" {
		if s.Regex {
			parts = append(parts, fmt.Sprintf("%s =~ /%s/", s.TagK, s.TagV))
		} else {
			parts = append(parts, fmt.Sprintf("%s = '%s'", s.TagK, s.TagV))
		}
	}
	if s.HasMin {
		parts = append(parts, fmt.Sprintf("time >= %d", s.Min))
	}
	if s.HasMax {
		parts = append(parts, fmt.Sprintf("time <= %d", s.Max))
	}
	return strings.Join(parts, " AND ")
}

func (s vSel) matchesSeries(series string) bool {
	name, tags := models.ParseKey([]byte(series))
	if s.M != "" && name != s.M {
		return false
	}
	if s.TagK == "" {
		return true
	}
	v := tags.GetString(s.TagK)
	if s.Regex {
		// generated regexes are of the form ^(a|b)$ or plain literals: evaluate with the same semantics
		return vRegexMatch(s.TagV, v)
	}
	return v == s.TagV
}

func (s vSel) matchesTime(ts int64) bool {
	if s.HasMin && ts < s.Min {
		return false
	}
	if s.HasMax && ts > s.Max {
		return false
	}
	return true
}

// vRegexMatch supports the tiny regex dialect the generator produces: "^(x|y)$" and "^x".
func vRegexMatch(re, v string) bool {
	if strings.HasPrefix(re, "^(") && strings.HasSuffix(re, ")$") {
		for _, alt := range strings.Split(re[2:len(re)-2], "|") {
			if v == alt {
				return true
			}
		}
		return false
	}
	if strings.HasPrefix(re, "^") {
		return strings.HasPrefix(v, re[1:])
	}
	return strings.Contains(v, re)
}

// deleteSeries runs Store.DeleteSeries with the selection.
func (b *vBed) deleteSeries(sel vSel) error {
	var sources []influxql.Source
	if sel.M != "" {
		sources = []influxql.Source{&influxql.Measurement{Name: sel.M}}
	}
	var cond influxql.Expr
	if c := sel.cond(); c != "" {
		var err error
		cond, err = influxql.ParseExpr(c)
		if err != nil {
			return fmt.Errorf("harness: parse %q: %v", c, err)
		}
	}
	b.quiesce()
	err := b.store.DeleteSeries(vDB, sources, cond)
	for _, id := range b.shards {
		b.touchDoNotCompact(id)
	}
	b.quiesce()
	return err
}

// applyDelete removes the selection from the model and resets the field types of
// measurements that lost their last point in a shard.
func (b *vBed) applyDelete(sel vSel) (removed int) {
	hit := map[string]bool{} // "shard|series" that lost points
	for k := range b.model {
		if sel.matchesSeries(k.Series) && sel.matchesTime(k.TS) {
			delete(b.model, k)
			removed++
			hit[fmt.Sprintf("%d|%s", k.Shard, k.Series)] = true
		}
	}
	// series emptied by this delete: if the delete's range does not span everything the series ever
	// held, the engine may keep it listed (known finding series-lingers-after-piecewise-time-range-deletes)
	left := map[string]bool{}
	for k := range b.model {
		left[fmt.Sprintf("%d|%s", k.Shard, k.Series)] = true
	}
	for sk := range hit {
		if left[sk] {
			continue
		}
		ext := b.extent[sk]
		if (sel.HasMin && sel.Min > ext[0]) || (sel.HasMax && sel.Max < ext[1]) {
			if b.lingerOK == nil {
				b.lingerOK = map[string]bool{}
			}
			b.lingerOK[sk[strings.Index(sk, "|")+1:]] = true
			if b.onExclude != nil {
				b.onExclude("series-lingers-after-piecewise-time-range-deletes")
			}
		}
		delete(b.extent, sk)
	}
	b.resetEmptyMeasurements()
	return removed
}

func (b *vBed) noteExtent(shard uint64, series string, ts int64) {
	if b.extent == nil {
		b.extent = map[string][2]int64{}
	}
	sk := fmt.Sprintf("%d|%s", shard, series)
	e, ok := b.extent[sk]
	if !ok {
		e = [2]int64{ts, ts}
	}
	if ts < e[0] {
		e[0] = ts
	}
	if ts > e[1] {
		e[1] = ts
	}
	b.extent[sk] = e
	delete(b.lingerOK, series)
}

func (b *vBed) dropMeasurement(m string) error {
	b.quiesce()
	err := b.store.DeleteMeasurement(vDB, m)
	for _, id := range b.shards {
		b.touchDoNotCompact(id)
	}
	b.quiesce()
	return err
}

func (b *vBed) applyDropMeasurement(m string) {
	for k := range b.model {
		name, _ := models.ParseKey([]byte(k.Series))
		if name == m {
			delete(b.model, k)
		}
	}
	// DROP MEASUREMENT removes the measurement and its field definitions from every shard
	for tk := range b.types {
		if strings.SplitN(tk, "#", 3)[1] == m {
			delete(b.types, tk)
		}
	}
	b.resetEmptyMeasurements()
}

// resetEmptyMeasurements: when a (shard, measurement) pair has no model point left the shard MAY have
// dropped the measurement and its field definitions - or not (the database-wide inmem index keeps a
// measurement that is alive in another shard; series created for points that were rejected keep it alive;
// an emptied series may linger, see the known findings). The model therefore keeps the old types as hints
// (the generator goes on writing them, which is accepted in both cases) but un-confirms them: a field is
// used for deliberate type conflicts only while confirmed, i.e. after a write carrying it was accepted
// since the pair was last empty.
func (b *vBed) resetEmptyMeasurements() {
	alive := map[string]bool{}
	for k := range b.model {
		name, _ := models.ParseKey([]byte(k.Series))
		alive[fmt.Sprintf("%d#%s", k.Shard, name)] = true
	}
	for tk := range b.types {
		parts := strings.SplitN(tk, "#", 3)
		if !alive[parts[0]+"#"+parts[1]] {
			delete(b.confirmed, tk)
		}
	}
}

// ---- reads ---------------------------------------------------------------------

func vSeriesFromTags(name string, t query.Tags) string {
	m := map[string]string{}
	for k, v := range t.KeyValues() {
		if v != "" {
			m[k] = v
		}
	}
	return string(models.MakeKey([]byte(name), models.NewTags(m)))
}

// readField reads one (measurement, field) of a shard through Shard.CreateIterator over
// [tmin,tmax] and returns the points in iteration order.
type vRow struct {
	Series string
	TS     int64
	V      vVal
}

func (b *vBed) readField(shard uint64, m, f string, asc bool, tmin, tmax int64, cond string) ([]vRow, error) {
	sh := b.store.Shard(shard)
	if sh == nil {
		return nil, fmt.Errorf("shard %d not found", shard)
	}
	opt := query.IteratorOptions{
		Expr: &influxql.VarRef{Val: f}, Ascending: asc, StartTime: tmin, EndTime: tmax,
		Dimensions: b.tagKeys, Ordered: true,
	}
	if cond != "" {
		opt.Condition = influxql.MustParseExpr(cond)
	}
	itr, err := sh.CreateIterator(context.Background(), &influxql.Measurement{Name: m}, opt)
	if err != nil {
		return nil, err
	}
	if itr == nil {
		return nil, nil
	}
	defer itr.Close()
	var out []vRow
	switch it := itr.(type) {
	case query.FloatIterator:
		for {
			p, err := it.Next()
			if err != nil {
				return nil, err
			}
			if p == nil {
				return out, nil
			}
			out = append(out, vRow{vSeriesFromTags(m, p.Tags), p.Time, vF(p.Value)})
		}
	case query.IntegerIterator:
		for {
			p, err := it.Next()
			if err != nil {
				return nil, err
			}
			if p == nil {
				return out, nil
			}
			out = append(out, vRow{vSeriesFromTags(m, p.Tags), p.Time, vI(p.Value)})
		}
	case query.UnsignedIterator:
		for {
			p, err := it.Next()
			if err != nil {
				return nil, err
			}
			if p == nil {
				return out, nil
			}
			out = append(out, vRow{vSeriesFromTags(m, p.Tags), p.Time, vU(p.Value)})
		}
	case query.StringIterator:
		for {
			p, err := it.Next()
			if err != nil {
				return nil, err
			}
			if p == nil {
				return out, nil
			}
			out = append(out, vRow{vSeriesFromTags(m, p.Tags), p.Time, vS(p.Value)})
		}
	case query.BooleanIterator:
		for {
			p, err := it.Next()
			if err != nil {
				return nil, err
			}
			if p == nil {
				return out, nil
			}
			out = append(out, vRow{vSeriesFromTags(m, p.Tags), p.Time, vB(p.Value)})
		}
	default:
		return nil, fmt.Errorf("unexpected iterator type %T", itr)
	}
}

// readAll reads every (measurement, field) of the pools from every shard, full range.
func (b *vBed) readAll() (map[vKey]vVal, error) {
	out := map[vKey]vVal{}
	for _, id := range b.shards {
		for _, m := range b.measurements {
			for _, f := range b.fields {
				rows, err := b.readField(id, m, f, true, influxql.MinTime, influxql.MaxTime, "")
				if err != nil {
					return nil, fmt.Errorf("read shard %d %s.%s: %v", id, m, f, err)
				}
				for _, r := range rows {
					k := vKey{id, r.Series, f, r.TS}
					if _, dup := out[k]; dup {
						return nil, fmt.Errorf("%s duplicate timestamp %d returned for %s.%s in shard %d", "DUP", r.TS, r.Series, f, id)
					}
					out[k] = r.V
				}
			}
		}
	}
	return out, nil
}

// diffModel compares a full read with the model. extra/missing/wrong are returned as text
// (bounded), "" if equal.
func (b *vBed) diffModel(got map[vKey]vVal) (kind, msg string) {
	var miss, wrong, extra []string
	for k, v := range b.model {
		g, ok := got[k]
		if !ok {
			miss = append(miss, fmt.Sprintf("%v=%v", k, v))
		} else if g != v {
			wrong = append(wrong, fmt.Sprintf("%v want %v got %v", k, v, g))
		}
	}
	for k, g := range got {
		if _, ok := b.model[k]; !ok {
			extra = append(extra, fmt.Sprintf("%v=%v", k, g))
		}
	}
	cut := func(s []string) []string {
		sort.Strings(s)
		if len(s) > 8 {
			return append(s[:8], fmt.Sprintf("... %d more", len(s)-8))
		}
		return s
	}
	switch {
	case len(miss) > 0:
		return "missing", fmt.Sprintf("missing %v (wrong %v extra %v)", cut(miss), cut(wrong), cut(extra))
	case len(wrong) > 0:
		return "wrong-value", fmt.Sprintf("wrong %v (extra %v)", cut(wrong), cut(extra))
	case len(extra) > 0:
		return "unexpected", fmt.Sprintf("unexpected %v", cut(extra))
	}
	return "", ""
}

// modelRows returns what a ranged read of (shard, measurement, field) must return for one series
// ("" = all series, ordered by series key then time as the iterator merges them is NOT assumed:
// callers compare per series).
func (b *vBed) modelSeriesRows(shard uint64, series, f string, asc bool, tmin, tmax int64) []vRow {
	var out []vRow
	for k, v := range b.model {
		if k.Shard == shard && k.Series == series && k.Field == f && k.TS >= tmin && k.TS <= tmax {
			out = append(out, vRow{series, k.TS, v})
		}
	}
	sort.Slice(out, func(i, j int) bool { return (out[i].TS < out[j].TS) == asc })
	return out
}

// readCursor reads one series field through the array cursor API.
func (b *vBed) readCursor(shard uint64, series, f string, asc bool, tmin, tmax int64) ([]vRow, error) {
	sh := b.store.Shard(shard)
	if sh == nil {
		return nil, fmt.Errorf("shard %d not found", shard)
	}
	ci, err := sh.CreateCursorIterator(context.Background())
	if err != nil {
		return nil, err
	}
	name, tags := models.ParseKeyBytes([]byte(series))
	cur, err := ci.Next(context.Background(), &tsdb.CursorRequest{Name: name, Tags: tags, Field: f, Ascending: asc, StartTime: tmin, EndTime: tmax})
	if err != nil {
		return nil, err
	}
	if cur == nil {
		return nil, nil
	}
	defer cur.Close()
	var out []vRow
	switch c := cur.(type) {
	case tsdb.FloatArrayCursor:
		for a := c.Next(); a.Len() > 0; a = c.Next() {
			for i := range a.Timestamps {
				out = append(out, vRow{series, a.Timestamps[i], vF(a.Values[i])})
			}
		}
	case tsdb.IntegerArrayCursor:
		for a := c.Next(); a.Len() > 0; a = c.Next() {
			for i := range a.Timestamps {
				out = append(out, vRow{series, a.Timestamps[i], vI(a.Values[i])})
			}
		}
	case tsdb.UnsignedArrayCursor:
		for a := c.Next(); a.Len() > 0; a = c.Next() {
			for i := range a.Timestamps {
				out = append(out, vRow{series, a.Timestamps[i], vU(a.Values[i])})
			}
		}
	case tsdb.StringArrayCursor:
		for a := c.Next(); a.Len() > 0; a = c.Next() {
			for i := range a.Timestamps {
				out = append(out, vRow{series, a.Timestamps[i], vS(a.Values[i])})
			}
		}
	case tsdb.BooleanArrayCursor:
		for a := c.Next(); a.Len() > 0; a = c.Next() {
			for i := range a.Timestamps {
				out = append(out, vRow{series, a.Timestamps[i], vB(a.Values[i])})
			}
		}
	default:
		return nil, fmt.Errorf("unexpected cursor type %T", cur)
	}
	return out, cur.Err()
}

func vRowsEqual(a, b []vRow) bool {
	if len(a) != len(b) {
		return false
	}
	for i := range a {
		if a[i] != b[i] {
			return false
		}
	}
	return true
}

func vRowsString(r []vRow) string {
	var sb strings.Builder
	for i, x := range r {
		if i >= 12 {
			fmt.Fprintf(&sb, " ...(%d rows)", len(r))
			break
		}
		fmt.Fprintf(&sb, " %d=%v", x.TS, x.V)
	}
	return sb.String()
}

// modelSeries lists the series keys with at least one model point (per shard, or all shards with shard=0).
func (b *vBed) modelSeries(shard uint64) []string {
	set := map[string]bool{}
	for k := range b.model {
		if shard == 0 || k.Shard == shard {
			set[k.Series] = true
		}
	}
	var out []string
	for s := range set {
		out = append(out, s)
	}
	sort.Strings(out)
	return out
}

// ---- generators ----------------------------------------------------------------

var (
	vHosts   = []string{"a", "b", "c"}
	vRegions = []string{"", "x", "y"}
)

func vDrawTags(rt *rapid.T) map[string]string {
	t := map[string]string{"host": rapid.SampledFrom(vHosts).Draw(rt, "host")}
	if r := rapid.SampledFrom(vRegions).Draw(rt, "region"); r != "" {
		t["region"] = r
	}
	return t
}

var vTypes = []byte{'f', 'i', 'u', 's', 'b'}

func vDrawValue(rt *rapid.T, typ byte) vVal {
	switch typ {
	case 'f':
		return vF(rapid.OneOf(
			rapid.Float64Range(-1000, 1000),
			rapid.SampledFrom([]float64{0, math.Copysign(0, -1), 1, -1, math.MaxFloat64, -math.MaxFloat64, math.SmallestNonzeroFloat64, 1e-300, 0.1, 1.5}),
		).Draw(rt, "fv"))
	case 'i':
		return vI(rapid.OneOf(rapid.Int64Range(-1000, 1000), rapid.SampledFrom([]int64{0, math.MaxInt64, math.MinInt64, 1 << 40})).Draw(rt, "iv"))
	case 'u':
		return vU(rapid.OneOf(rapid.Uint64Range(0, 1000), rapid.SampledFrom([]uint64{0, math.MaxUint64, 1 << 63})).Draw(rt, "uv"))
	case 's':
		return vS(rapid.SampledFrom([]string{"", "a", "hello world", "quote\"inside", "comma,eq=sp ace", strings.Repeat("z", 300), "\x00\xff"}).Draw(rt, "sv"))
	default:
		return vB(rapid.Bool().Draw(rt, "bv"))
	}
}

// vDrawTS draws a timestamp from a small pool (so overwrites are frequent) with rare extremes.
func vDrawTS(rt *rapid.T) int64 {
	return rapid.OneOf(
		rapid.Int64Range(0, 60),
		rapid.Int64Range(0, 60),
		rapid.Int64Range(0, 60),
		rapid.SampledFrom([]int64{models.MinNanoTime, models.MaxNanoTime, -1, 1000, 2000, 999}),
	).Draw(rt, "ts")
}

// fieldTypeFor picks the type for (shard, m, f): the model type if the field exists, otherwise a
// per-batch choice recorded in batchTypes so that one batch never gives a new field two types.
func (b *vBed) fieldTypeFor(rt *rapid.T, shard uint64, m, f string, batchTypes map[string]byte) byte {
	k := vTypeKey(shard, m, f)
	if t, ok := b.types[k]; ok {
		return t
	}
	if t, ok := batchTypes[k]; ok {
		return t
	}
	t := rapid.SampledFrom(vTypes).Draw(rt, "newFieldType")
	batchTypes[k] = t
	return t
}

// vDrawBatch draws a well-typed batch for a shard (no type conflicts).
func (b *vBed) vDrawBatch(rt *rapid.T, shard uint64, maxPts int) []vPt {
	n := rapid.IntRange(1, maxPts).Draw(rt, "npts")
	bt := map[string]byte{}
	var pts []vPt
	for i := 0; i < n; i++ {
		m := rapid.SampledFrom(b.measurements).Draw(rt, "m")
		p := vPt{M: m, Tags: vDrawTags(rt), Fields: map[string]vVal{}, TS: vDrawTS(rt)}
		nf := rapid.IntRange(1, 2).Draw(rt, "nf")
		for j := 0; j < nf; j++ {
			f := rapid.SampledFrom(b.fields).Draw(rt, "f")
			p.Fields[f] = vDrawValue(rt, b.fieldTypeFor(rt, shard, m, f, bt))
		}
		pts = append(pts, p)
	}
	return pts
}

// vDrawBigSeries draws one series with around a block's worth of consecutive points.
func (b *vBed) vDrawBigSeries(rt *rapid.T, shard uint64) []vPt {
	m := rapid.SampledFrom(b.measurements).Draw(rt, "m")
	tags := vDrawTags(rt)
	f := rapid.SampledFrom(b.fields).Draw(rt, "f")
	typ := b.fieldTypeFor(rt, shard, m, f, map[string]byte{})
	n := rapid.SampledFrom([]int{999, 1000, 1001, 2000, 2100}).Draw(rt, "n")
	base := rapid.Int64Range(0, 30).Draw(rt, "base")
	seed := rapid.Int64Range(0, 1000).Draw(rt, "vseed")
	pts := make([]vPt, 0, n)
	for i := 0; i < n; i++ {
		var v vVal
		x := seed + int64(i)
		switch typ {
		case 'f':
			v = vF(float64(x) / 4)
		case 'i':
			v = vI(x * 3)
		case 'u':
			v = vU(uint64(x) * 5)
		case 's':
			v = vS(fmt.Sprint("s", x%17))
		default:
			v = vB(x%3 == 0)
		}
		pts = append(pts, vPt{M: m, Tags: tags, Fields: map[string]vVal{f: v}, TS: base + int64(i)})
	}
	return pts
}

// vDrawSel draws a delete selection.
func (b *vBed) vDrawSel(rt *rapid.T) vSel {
	var s vSel
	switch rapid.IntRange(0, 9).Draw(rt, "selKind") {
	case 0: // whole database
	case 1, 2: // whole measurement
		s.M = rapid.SampledFrom(b.measurements).Draw(rt, "m")
	case 3, 4, 5, 6: // tag predicate
		s.M = rapid.SampledFrom(b.measurements).Draw(rt, "m")
		s.TagK = "host"
		s.TagV = rapid.SampledFrom(vHosts).Draw(rt, "host")
	case 7:
		s.M = rapid.SampledFrom(b.measurements).Draw(rt, "m")
		s.TagK = "region"
		s.TagV = rapid.SampledFrom([]string{"x", "y"}).Draw(rt, "region")
	case 8: // regex
		s.M = rapid.SampledFrom(b.measurements).Draw(rt, "m")
		s.TagK = "host"
		s.Regex = true
		s.TagV = rapid.SampledFrom([]string{"^(a|b)$", "^(c)$", "^(a|b|c)$", "^a"}).Draw(rt, "re")
	case 9: // database-wide with tag predicate
		s.TagK = "host"
		s.TagV = rapid.SampledFrom(vHosts).Draw(rt, "host")
	}
	switch rapid.IntRange(0, 6).Draw(rt, "rangeKind") {
	case 0: // all time
	case 1: // closed
		s.HasMin, s.HasMax = true, true
		if rapid.IntRange(0, 2).Draw(rt, "farRange") == 0 {
			// inside the later blocks of a ~1000..2100-point series
			s.Min = rapid.Int64Range(900, 2200).Draw(rt, "min")
			s.Max = s.Min + rapid.Int64Range(0, 400).Draw(rt, "width")
		} else {
			s.Min = rapid.Int64Range(-5, 60).Draw(rt, "min")
			s.Max = rapid.Int64Range(s.Min, 70).Draw(rt, "max")
		}
	case 2: // open-ended right
		s.HasMin = true
		s.Min = rapid.Int64Range(-5, 1100).Draw(rt, "min")
	case 3: // open-ended left
		s.HasMax = true
		s.Max = rapid.Int64Range(-5, 1100).Draw(rt, "max")
	case 4: // single instant
		s.HasMin, s.HasMax = true, true
		s.Min = rapid.Int64Range(0, 60).Draw(rt, "at")
		s.Max = s.Min
	case 5: // empty
		s.HasMin, s.HasMax = true, true
		s.Min = rapid.Int64Range(3000, 4000).Draw(rt, "min")
		s.Max = s.Min + 5
	case 6: // covering everything explicitly
		s.HasMin, s.HasMax = true, true
		s.Min, s.Max = models.MinNanoTime, models.MaxNanoTime
	}
	return s
}

// vObserver is the file store observer of every bed store; it can refuse the next n files that are
// about to be installed (FileStore.replace / tombstone commit -> FileFinishing).
type vObserver struct {
	failNext int32
	refused  int32
}

var vObs = &vObserver{}

func (o *vObserver) FileFinishing(path string) error {
	if atomic.LoadInt32(&o.failNext) > 0 && atomic.AddInt32(&o.failNext, -1) >= 0 {
		atomic.AddInt32(&o.refused, 1)
		return fmt.Errorf("verif: injected install failure for %s", path)
	}
	return nil
}

func (o *vObserver) FileUnlinking(path string) error { return nil }
