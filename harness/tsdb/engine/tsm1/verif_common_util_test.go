//go:build verif

package tsm1

import (
	"github.com/influxdata/influxql"
	"math"
	"sort"
	"time"

	"github.com/influxdata/influxdb/models"
	"github.com/influxdata/influxdb/tsdb"
)

const vOpTimeout = 60 * time.Second

func modelsParseKey(s string) (string, map[string]string) {
	name, tags := models.ParseKey([]byte(s))
	m := map[string]string{}
	for _, t := range tags {
		m[string(t.Key)] = string(t.Value)
	}
	return name, m
}

func sortStrings(s []string) { sort.Strings(s) }

func vSortKeys(k []vKey) {
	sort.Slice(k, func(i, j int) bool {
		a, b := k[i], k[j]
		if a.Shard != b.Shard {
			return a.Shard < b.Shard
		}
		if a.Series != b.Series {
			return a.Series < b.Series
		}
		if a.Field != b.Field {
			return a.Field < b.Field
		}
		return a.TS < b.TS
	})
}

func tsdbIndexSet(ix tsdb.Index, sf *tsdb.SeriesFile) tsdb.IndexSet {
	return tsdb.IndexSet{Indexes: []tsdb.Index{ix}, SeriesFile: sf}
}

func vKeys(m map[string]bool) []string {
	var out []string
	for k := range m {
		out = append(out, k)
	}
	sort.Strings(out)
	return out
}

type modelsPoint = models.Point

func mathFloat64frombits(b uint64) float64 { return math.Float64frombits(b) }

func vTypeOfInfluxQL(t influxql.DataType) byte {
	switch t {
	case influxql.Float:
		return 'f'
	case influxql.Integer:
		return 'i'
	case influxql.Unsigned:
		return 'u'
	case influxql.String:
		return 's'
	case influxql.Boolean:
		return 'b'
	}
	return 0
}
