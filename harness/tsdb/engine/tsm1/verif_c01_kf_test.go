//go:build verif

package tsm1

// Directed campaign for the known finding interrupted-delete-exposes-overwritten-value (C01/C10):
// a range delete that is cut by a crash after the tombstone of the file holding the newest
// value was committed, but before the file holding an older value of the same point was
// tombstoned, makes the overwritten value visible again after restart.

import (
	"fmt"
	"os"
	"path/filepath"
	"testing"

	"github.com/influxdata/influxdb/pkg/verifhook"
	"verifkit"
)

func TestVerifC01KFInterruptedDelete(t *testing.T) {
	stats := verifkit.For("C01", "TestVerifC01KFInterruptedDelete", "directed: two files hold an old and a new value of one point; a delete of that point is cut after each ts.committed event in turn")
	defer stats.Flush()
	flog := vOpenFsyncLog()
	reproduced := ""
	for k := 0; k < 2; k++ {
		root, _ := os.MkdirTemp("", "c01kf")
		b, err := vNewBed(filepath.Join(root, "g0"), "inmem", 1)
		if err != nil {
			t.Fatal(err)
		}
		b.measurements, b.fields, b.tagKeys = []string{"m0"}, []string{"f1"}, []string{"host"}
		pt := func(v int64) []vPt {
			return []vPt{{M: "m0", Tags: map[string]string{"host": "a"}, Fields: map[string]vVal{"f1": vI(v)}, TS: 5}}
		}
		must := func(err error) {
			if err != nil {
				t.Fatal(err)
			}
		}
		must(b.write(1, pt(1)))
		must(b.snapshot(1))
		must(b.write(1, pt(2)))
		must(b.snapshot(1))
		n, img := 0, ""
		verifhook.Set(func(ev, path string, _ int64) {
			flog.poll()
			if ev == "ts.committed" {
				if n == k && img == "" {
					flog.poll()
					img = filepath.Join(root, "img")
					if err := vCopyTree(b.root, img); err != nil {
						t.Fatal(err)
					}
					flog.poll()
					vPessimise(flog, b.root, img, 0)
				}
				n++
			}
		})
		must(b.deleteSeries(vSel{M: "m0", HasMin: true, Min: 0, HasMax: true, Max: 10}))
		verifhook.Set(nil)
		b.close()
		if img != "" {
			b.root = img
			must(b.reopen())
			got, err := b.readAll()
			must(err)
			v, ok := got[vKey{1, "m0,host=a", "f1", 5}]
			stats.Case(true, fmt.Sprintf("cut-after-commit-%d present=%v value=%v", k, ok, v), "directed")
			if ok && v == vI(1) {
				reproduced = fmt.Sprintf("delete cut after tombstone commit #%d: point reads back the overwritten value 1 (newest acknowledged value was 2)", k)
			}
			b.close()
		}
		os.RemoveAll(root)
	}
	stats.Sample(map[string]string{"result": reproduced})
	if reproduced != "" {
		stats.KnownReproduced("interrupted-delete-exposes-overwritten-value", reproduced)
	}
}
