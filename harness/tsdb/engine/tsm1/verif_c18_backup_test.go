//go:build verif

package tsm1

// C18 (a) - backup and restore / export and import reproduce the shard exactly, and leave the
// source unchanged. DESIGN.md section 4, C18.

import (
	"bytes"
	"fmt"
	"os"
	"path/filepath"
	"sort"
	"strings"
	"testing"
	"time"

	"github.com/influxdata/influxdb/pkg/verifhook"
	"pgregory.net/rapid"
	"verifkit"
)

func vDirListing(dir string) []string {
	var out []string
	filepath.Walk(dir, func(p string, info os.FileInfo, err error) error {
		if err == nil {
			rel, _ := filepath.Rel(dir, p)
			out = append(out, rel)
		}
		return nil
	})
	sort.Strings(out)
	return out
}

func vHasTombstones(b *vBed, shard uint64) bool {
	m, _ := filepath.Glob(filepath.Join(b.shardDir(shard), "*.tombstone*"))
	return len(m) > 0
}

// vRestoreInto creates a fresh store with shard 1 and restores/imports the stream into it.
func vRestoreInto(root, idx string, stream []byte, imp bool) (*vBed, error) {
	d, err := vNewBed(root, idx, 1)
	if err != nil {
		return nil, err
	}
	if imp {
		err = d.store.ImportShard(1, bytes.NewReader(stream))
	} else {
		err = d.store.RestoreShard(1, bytes.NewReader(stream))
	}
	if err != nil {
		d.close()
		return nil, err
	}
	return d, nil
}

func vCopyModel(m map[vKey]vVal) map[vKey]vVal {
	out := make(map[vKey]vVal, len(m))
	for k, v := range m {
		out[k] = v
	}
	return out
}

func TestVerifC18BackupRestore(t *testing.T) {
	stats := verifkit.For("C18", "TestVerifC18BackupRestore",
		"bed E: a source shard is driven by generated writes (incl. ~1000-point series), snapshots, compactions, deletes and reopen so that it holds cache data and several file generations; then a full BackupShard (optionally with a write issued from inside the snapshot step of the backup, or arriving while another cache snapshot of the shard is held in flight for 40 ms) or a full-range ExportShard is taken and restored (RestoreShard) or imported (ImportShard) into a fresh store; the destination's full content and series listing must equal the source model at backup time (or the model after the in-flight write), the source content and directory listing must be unchanged, and a time-bounded export must contain every point inside the bounds and nothing the source does not have. non-trivial = source had un-snapshotted cache values and >=2 TSM files at backup time; distinct = hash of the action sequence + backup kind")
	defer stats.Flush()
	rapid.Check(t, func(rt *rapid.T) {
		root, err := os.MkdirTemp("", "c18")
		if err != nil {
			rt.Fatal(err)
		}
		defer os.RemoveAll(root)
		idx := rapid.SampledFrom([]string{"inmem", "tsi1"}).Draw(rt, "index")
		b, err := vNewBed(filepath.Join(root, "src"), idx, 1)
		if err != nil {
			rt.Fatalf("open: %v", err)
		}
		defer b.close()
		defer verifhook.Set(nil)
		b.onExclude = stats.Exclude
		var canon strings.Builder
		cacheDirty := false
		n := rapid.IntRange(3, 18).Draw(rt, "steps")
		for i := 0; i < n; i++ {
			switch rapid.SampledFrom([]string{"write", "write", "write", "bigwrite", "snapshot", "snapshot", "snapshot", "compact", "delete", "reopen"}).Draw(rt, "action") {
			case "write":
				pts := b.vDrawBatch(rt, 1, 20)
				if err := b.write(1, pts); err != nil {
					rt.Fatalf("write: %v", err)
				}
				b.applyWrite(1, pts)
				cacheDirty = true
				canon.WriteString("w;")
			case "bigwrite":
				if rapid.IntRange(0, 2).Draw(rt, "rare") != 0 {
					continue
				}
				pts := b.vDrawBigSeries(rt, 1)
				if err := b.write(1, pts); err != nil {
					rt.Fatalf("write: %v", err)
				}
				b.applyWrite(1, pts)
				cacheDirty = true
				canon.WriteString("W;")
			case "snapshot":
				if err := b.snapshot(1); err != nil {
					rt.Fatalf("snapshot: %v", err)
				}
				cacheDirty = false
				canon.WriteString("s;")
			case "compact":
				k := rapid.SampledFrom(vCompactKinds).Draw(rt, "kind")
				if _, err := b.compact(1, k); err != nil {
					rt.Fatalf("compact: %v", err)
				}
				canon.WriteString("c;")
			case "delete":
				sel := b.vDrawSel(rt)
				if err := b.deleteSeries(sel); err != nil {
					rt.Fatalf("delete: %v", err)
				}
				b.applyDelete(sel)
				canon.WriteString("d;")
			case "reopen":
				if err := b.reopen(); err != nil {
					rt.Fatalf("reopen: %v", err)
				}
				canon.WriteString("r;")
			}
		}
		// known finding restore-drops-tombstones: compact pending tombstones away first (counted)
		if vHasTombstones(b, 1) {
			stats.Exclude("restore-drops-tombstones")
			if _, err := b.compact(1, "forcefull"); err != nil {
				rt.Fatalf("compact: %v", err)
			}
			if vHasTombstones(b, 1) {
				// a single file is not re-compacted by the planner: skip this case
				return
			}
		}
		if rapid.IntRange(0, 2).Draw(rt, "finalWrite") > 0 {
			pts := b.vDrawBatch(rt, 1, 10)
			if err := b.write(1, pts); err != nil {
				rt.Fatalf("write: %v", err)
			}
			b.applyWrite(1, pts)
			cacheDirty = true
			canon.WriteString("w;")
		}
		nfiles := len(b.tsmFiles(1))
		kind := rapid.SampledFrom([]string{"backup-restore", "backup-restore", "backup-import", "export-import", "export-import", "backup-with-write", "export-bounded", "backup-during-snapshot"}).Draw(rt, "kind")
		before := vCopyModel(b.model)
		after := before
		listingBefore := vDirListing(b.shardDir(1))
		var stream bytes.Buffer
		var berr error
		var lo, hi int64
		switch kind {
		case "backup-restore", "backup-import":
			berr = b.store.BackupShard(1, time.Time{}, &stream)
		case "backup-with-write":
			// a write lands while the backup's cache snapshot is being written: the copy must equal
			// the state before or after that write
			pts := b.vDrawBatch(rt, 1, 5)
			fired := false
			var werr error
			verifhook.Set(func(ev, path string, n int64) {
				if ev == "snap.written" && !fired {
					fired = true
					werr = b.write(1, pts)
				}
			})
			berr = b.store.BackupShard(1, time.Time{}, &stream)
			verifhook.Set(nil)
			if !fired {
				werr = b.write(1, pts)
			}
			if werr != nil {
				rt.Fatalf("write during backup: %v", werr)
			}
			b.preWriteModel = vCopyModel(b.model)
			b.applyWrite(1, pts)
			after = vCopyModel(b.model)
			if !fired {
				// the write happened after the backup completed: only the pre-write state is allowed
				after = b.preWriteModel
			}
		case "backup-during-snapshot":
			// another cache snapshot of the shard (the engine's own, or a second backup) is in flight when the
			// backup arrives: the backup waits for it (CreateSnapshot retries) and then flushes what is left, so
			// the copy still holds everything. The in-flight snapshot is held at snap.taken for 40 ms.
			eng, err := b.engine(1)
			if err != nil {
				rt.Fatal(err)
			}
			inflight, release := make(chan struct{}), make(chan struct{})
			held := false
			verifhook.Set(func(ev, path string, n int64) {
				if ev == "snap.taken" && !held {
					held = true
					close(inflight)
					<-release
				}
			})
			sdone := make(chan error, 1)
			go func() { sdone <- eng.WriteSnapshot() }()
			var serr error
			finished := false
			select {
			case <-inflight:
			case serr = <-sdone: // empty cache: the snapshot returned before writing anything
				finished = true
			}
			t0 := time.Now()
			bdone := make(chan error, 1)
			go func() { bdone <- b.store.BackupShard(1, time.Time{}, &stream) }()
			if !finished {
				time.Sleep(40 * time.Millisecond)
				close(release)
				serr = <-sdone
			}
			slow := time.Since(t0) > 500*time.Millisecond
			berr = <-bdone
			verifhook.Set(nil)
			if serr != nil {
				rt.Fatalf("%s the in-flight snapshot failed: %v", verifkit.Sig("snapshot-error"), serr)
			}
			if slow {
				// CreateSnapshot gives up waiting after about a second and then backs up without the cache
				// contents by design (skipCacheOk); on a machine this slow the case is not judged
				stats.Class("skipped:in-flight-snapshot-slower-than-500ms", 1)
				return
			}
			if held {
				stats.Class("backup-arrived-during-in-flight-snapshot", 1)
			}
		case "export-import":
			berr = b.store.ExportShard(1, time.Unix(0, vMinT), time.Unix(0, vMaxT), &stream)
		case "export-bounded":
			lo = rapid.Int64Range(-5, 50).Draw(rt, "lo")
			hi = rapid.Int64Range(lo, 1100).Draw(rt, "hi")
			berr = b.store.ExportShard(1, time.Unix(0, lo), time.Unix(0, hi), &stream)
		}
		if berr != nil && kind == "export-bounded" && strings.Contains(berr.Error(), "no values written") {
			// observation (not judged under C18, which is about the exactness of a copy that was produced): a
			// time-bounded export fails as a whole when a file overlaps the bounds but holds no block inside them
			stats.Class("observation:export-bounded-fails-no-values-written", 1)
			return
		}
		if berr != nil {
			rt.Fatalf("%s %s failed: %v", verifkit.Sig("backup-error"), kind, berr)
		}
		// the source is unchanged: content and files (a backup may flush the cache into a new file, that is a snapshot)
		got, err := b.readAll()
		if err != nil {
			rt.Fatalf("%s reading the source after %s: %v", verifkit.Sig("read-error"), kind, err)
		}
		if k, msg := b.diffModel(got); k != "" {
			rt.Fatalf("%s source content changed by %s: %s", verifkit.Sig("backup-changes-source"), kind, msg)
		}
		for _, f := range vDirListing(b.shardDir(1)) {
			if strings.Contains(f, ".tmp") || strings.HasSuffix(f, ".snapshot") || strings.Contains(f, "snapshot") {
				rt.Fatalf("%s %s left %q in the source shard directory (before: %v)", verifkit.Sig("backup-leaves-temp-files"), kind, f, listingBefore)
			}
		}
		// restore
		imp := strings.HasSuffix(kind, "import") || kind == "export-bounded"
		d, err := vRestoreInto(filepath.Join(root, "dst"), idx, stream.Bytes(), imp)
		if err != nil {
			rt.Fatalf("%s restoring a %s stream of %d bytes failed: %v", verifkit.Sig("restore-error"), kind, stream.Len(), err)
		}
		defer d.close()
		dgot, err := d.readAll()
		if err != nil {
			rt.Fatalf("%s reading the restored shard: %v", verifkit.Sig("read-error"), err)
		}
		match := func(model map[vKey]vVal) (string, string) {
			d.model = model
			return d.diffModel(dgot)
		}
		switch kind {
		case "export-bounded":
			// everything inside the bounds is there, nothing the source does not have
			for k, v := range before {
				if k.TS >= lo && k.TS <= hi {
					if g, ok := dgot[k]; !ok || g != v {
						rt.Fatalf("%s export [%d,%d]: point %v=%v inside the bounds is missing or wrong in the import (got %v present=%v)", verifkit.Sig("export-loses-point-in-range"), lo, hi, k, v, g, ok)
					}
				}
			}
			for k, g := range dgot {
				if k.TS < lo || k.TS > hi {
					// whole blocks overlapping the bounds are exported: what lies outside the
					// bounds is outside the claim (it may even be a value overwritten later)
					continue
				}
				if v, ok := before[k]; !ok || v != g {
					rt.Fatalf("%s export [%d,%d]: import contains %v=%v which the source does not have (source value %v present=%v; history %s)", verifkit.Sig("export-invents-point"), lo, hi, k, g, v, ok, canon.String())
				}
			}
		case "backup-with-write":
			k1, m1 := match(after)
			if k1 != "" {
				if k0, m0 := match(b.preWriteModel); k0 != "" {
					rt.Fatalf("%s backup taken while a write arrived equals neither the state before nor after that write: vs after: %s | vs before: %s", verifkit.Sig("backup-copy-differs"), m1, m0)
				}
			}
		default:
			if k, msg := match(before); k != "" {
				rt.Fatalf("%s %s copy differs from the source at backup time: %s", verifkit.Sig("backup-copy-differs"), kind, msg)
			}
			// the series listing of the copy equals the source's
			d.model = before
			if sig, msg := vC10Listings(d); sig != "" {
				rt.Fatalf("%s %s copy: %s", verifkit.Sig("backup-copy-listing-"+sig), kind, msg)
			}
		}
		nt := cacheDirty && nfiles >= 2
		stats.Case(nt, canon.String()+kind, "kind:"+kind, "index:"+idx, fmt.Sprintf("files>=2:%v", nfiles >= 2), fmt.Sprintf("cacheDirty:%v", cacheDirty))
		if stats.WantSample() {
			stats.Sample(map[string]interface{}{"history": canon.String(), "kind": kind, "tsm_files": nfiles, "cache_dirty": cacheDirty, "points": len(before), "stream_bytes": stream.Len()})
		} else {
			stats.Sample(nil)
		}
	})
}

const (
	vMinT = -9223372036854775806
	vMaxT = 9223372036854775806
)

// Directed campaign for the known finding restore-drops-tombstones.
func TestVerifC18KFRestoreDropsTombstones(t *testing.T) {
	stats := verifkit.For("C18", "TestVerifC18KFRestoreDropsTombstones", "directed: 5 points flushed to a TSM file, 3 of them deleted (tombstone file pending), full backup, restore into a fresh store")
	defer stats.Flush()
	root, _ := os.MkdirTemp("", "c18kf")
	defer os.RemoveAll(root)
	b, err := vNewBed(filepath.Join(root, "src"), "inmem", 1)
	if err != nil {
		t.Fatal(err)
	}
	defer b.close()
	var pts []vPt
	for i := 1; i <= 5; i++ {
		pts = append(pts, vPt{M: "m0", Tags: map[string]string{"host": "a"}, Fields: map[string]vVal{"f0": vI(int64(i))}, TS: int64(i)})
	}
	if err := b.write(1, pts); err != nil {
		t.Fatal(err)
	}
	b.applyWrite(1, pts)
	if err := b.snapshot(1); err != nil {
		t.Fatal(err)
	}
	sel := vSel{M: "m0", HasMin: true, Min: 2, HasMax: true, Max: 4}
	if err := b.deleteSeries(sel); err != nil {
		t.Fatal(err)
	}
	b.applyDelete(sel)
	var stream bytes.Buffer
	if err := b.store.BackupShard(1, time.Time{}, &stream); err != nil {
		t.Fatal(err)
	}
	d, err := vRestoreInto(filepath.Join(root, "dst"), "inmem", stream.Bytes(), false)
	if err != nil {
		t.Fatal(err)
	}
	defer d.close()
	got, err := d.readAll()
	if err != nil {
		t.Fatal(err)
	}
	stats.Case(true, fmt.Sprintf("restored-points=%d", len(got)), "directed")
	stats.Case(true, "source-points=2", "directed")
	stats.Sample(map[string]interface{}{"source_points": len(b.model), "restored_points": len(got)})
	if len(got) > len(b.model) {
		stats.KnownReproduced("restore-drops-tombstones", fmt.Sprintf("source reads %d points after a range delete, the restored copy reads %d: tombstone files are skipped by restore, deleted points come back", len(b.model), len(got)))
	}
}

// TestVerifC18Incremental: a full backup, further history, then an incremental backup (since = the instant
// just before the full backup was taken); restoring full + incremental into a fresh store must reproduce
// the source at the time of the incremental backup.
func TestVerifC18Incremental(t *testing.T) {
	stats := verifkit.For("C18", "TestVerifC18Incremental",
		"bed E: generated history, full BackupShard, more writes/snapshots/compactions, incremental BackupShard(since = instant before the full backup); RestoreShard(full) then RestoreShard(incremental) into a fresh store must equal the source model at the time of the incremental backup. non-trivial = the incremental part holds >=1 new TSM file; distinct = hash of the history")
	defer stats.Flush()
	rapid.Check(t, func(rt *rapid.T) {
		root, err := os.MkdirTemp("", "c18i")
		if err != nil {
			rt.Fatal(err)
		}
		defer os.RemoveAll(root)
		b, err := vNewBed(filepath.Join(root, "src"), "inmem", 1)
		if err != nil {
			rt.Fatalf("open: %v", err)
		}
		defer b.close()
		b.onExclude = stats.Exclude
		var canon strings.Builder
		phase := func(n int) {
			for i := 0; i < n; i++ {
				switch rapid.SampledFrom([]string{"write", "write", "snapshot", "snapshot", "compact"}).Draw(rt, "action") {
				case "write":
					pts := b.vDrawBatch(rt, 1, 15)
					if err := b.write(1, pts); err != nil {
						rt.Fatalf("write: %v", err)
					}
					b.applyWrite(1, pts)
					canon.WriteString("w;")
				case "snapshot":
					if err := b.snapshot(1); err != nil {
						rt.Fatalf("snapshot: %v", err)
					}
					canon.WriteString("s;")
				case "compact":
					// level compactions only: a full compaction would rewrite files the full backup already holds under new names
					if _, err := b.compact(1, "l1"); err != nil {
						rt.Fatalf("compact: %v", err)
					}
					canon.WriteString("c;")
				}
			}
		}
		phase(rapid.IntRange(1, 8).Draw(rt, "steps1"))
		since := time.Now()
		var full, incr bytes.Buffer
		if err := b.store.BackupShard(1, time.Time{}, &full); err != nil {
			rt.Fatalf("%s full backup: %v", verifkit.Sig("backup-error"), err)
		}
		filesAtFull := len(b.tsmFiles(1))
		canon.WriteString("FULL;")
		phase(rapid.IntRange(1, 8).Draw(rt, "steps2"))
		if err := b.store.BackupShard(1, since, &incr); err != nil {
			rt.Fatalf("%s incremental backup: %v", verifkit.Sig("backup-error"), err)
		}
		want := vCopyModel(b.model)
		newFiles := len(b.tsmFiles(1)) - filesAtFull
		d, err := vRestoreInto(filepath.Join(root, "dst"), "inmem", full.Bytes(), false)
		if err != nil {
			rt.Fatalf("%s restoring the full backup: %v", verifkit.Sig("restore-error"), err)
		}
		defer d.close()
		if err := d.store.RestoreShard(1, bytes.NewReader(incr.Bytes())); err != nil {
			rt.Fatalf("%s restoring the incremental backup: %v", verifkit.Sig("restore-error"), err)
		}
		got, err := d.readAll()
		if err != nil {
			rt.Fatalf("%s reading the restored shard: %v", verifkit.Sig("read-error"), err)
		}
		d.model = want
		if k, msg := d.diffModel(got); k != "" {
			rt.Fatalf("%s full + incremental restore differs from the source at the time of the incremental backup: %s (history %s)", verifkit.Sig("incremental-backup-copy-differs"), msg, canon.String())
		}
		stats.Case(newFiles > 0, canon.String(), fmt.Sprintf("new-files:%v", newFiles > 0))
		if stats.WantSample() {
			stats.Sample(map[string]interface{}{"history": canon.String(), "points": len(want), "full_bytes": full.Len(), "incremental_bytes": incr.Len()})
		} else {
			stats.Sample(nil)
		}
	})
}
