//go:build verif

package tsm1

// C09 - snapshot and compaction never change what reads return; outputs are valid; a failed or
// aborted compaction leaves the originals in place and readable. DESIGN.md section 4, C09.

import (
	"fmt"
	"os"
	"path/filepath"
	"sort"
	"strings"
	"sync/atomic"
	"testing"

	"github.com/influxdata/influxdb/pkg/verifhook"
	"github.com/influxdata/influxdb/tsdb"
	"pgregory.net/rapid"
	"verifkit"
)

// Generator switches named after the known findings they exclude. Set one to false once the
// corresponding repair is in /repo (and mark the finding "fixed" in known_findings.json): the main
// campaign then covers the shape itself and the directed TestVerifC09KF* test asserts the
// repaired behaviour.
const (
	// compaction-spins-forever-on-undecodable-block: corrupt only blocks that are never decoded
	vC09ExcludeDecodeSpin = false
	// aborted-snapshot-left-tmp: never fire DisableSnapshots at the last block of a snapshot
	vC09ExcludeSnapshotLastBlockAbort = false
)

// vC09Hook is the per-case callback behind the process-wide verifhook.
var vC09Hook atomic.Value // func(ev, path string, n int64)

func vC09InstallHook() {
	verifhook.Set(func(ev, path string, n int64) {
		if f, ok := vC09Hook.Load().(func(string, string, int64)); ok && f != nil {
			f(ev, path, n)
		}
	})
}

func vC09SetHook(f func(ev, path string, n int64)) {
	if f == nil {
		f = func(string, string, int64) {}
	}
	vC09Hook.Store(f)
}

type vC09Run struct {
	outs     []string
	err      error
	hung     bool
	panicked interface{}
}

// vC09Compact runs one compaction under a watchdog and with panics caught.
func vC09Compact(c *Compactor, fast bool, paths []string) vC09Run {
	var r vC09Run
	ok := verifkit.Watch(vOpTimeout, func() {
		defer func() {
			if p := recover(); p != nil {
				r.panicked = p
			}
		}()
		if fast {
			r.outs, r.err = c.CompactFast(paths)
		} else {
			r.outs, r.err = c.CompactFull(paths)
		}
	})
	if !ok {
		return vC09Run{hung: true}
	}
	return r
}

// vC09Generations groups the files of the store by generation, in order.
func vC09Generations(fs *FileStore) ([][]string, error) {
	rs, err := vC09SortedReaders(fs)
	if err != nil {
		return nil, err
	}
	var gens [][]string
	last := -1
	for _, nr := range rs {
		if nr.gen != last {
			gens = append(gens, nil)
			last = nr.gen
		}
		gens[len(gens)-1] = append(gens[len(gens)-1], nr.r.Path())
	}
	return gens, nil
}

func vC09TmpFiles(dir string) []string {
	ents, _ := os.ReadDir(dir)
	var out []string
	for _, e := range ents {
		if strings.HasSuffix(e.Name(), "."+TmpTSMFileExtension) {
			out = append(out, e.Name())
		}
	}
	return out
}

func vC09SizeOf(size int) int {
	if size <= 0 {
		return tsdb.DefaultMaxPointsPerBlock
	}
	return size
}

func TestVerifC09Compaction(t *testing.T) {
	vC09CompactionProperty(t, "TestVerifC09Compaction", false,
		"bed T: 1-8 generated generations of TSM files (drawn generation/sequence numbers, a generation cut into 1-3 consecutive sequence files, files created in drawn order; 1-12 keys of all five types, keys missing from some files, one key near the maximum length; per key and file 0-6 blocks of 1/2/999/1000/random points whose ranges across generations are disjoint, adjacent, interleaved, nested or identical; tombstones per file: whole key, key range, whole block, partial, covering nothing, random; applied before or after the store is opened; timestamps also at both ends of the valid range), a group of whole contiguous generations compacted with CompactFast/CompactFull at Size default/10/1, optional failure injection (DisableCompactions from the compact.block / compact.filewritten hook, corrupted block, pre-existing output name) followed by a retry, optional second compaction round, reopen; oracle = independent newest-wins fold minus per-file tombstones read through ReadAll and KeyCursor (asc/desc), output validity, originals byte-identical after a failure. non-trivial = two group files share a key with identical/nested/interleaved block ranges or a tombstone cuts a block partially; distinct = hash of the full layout + mode + size + injection; injection reader-error: at the first block written the last key of one input file (holding at least two keys) is removed from that file's reader - the one error a block iterator reports - and the compaction must fail, leave the originals in place and be repeatable")
}

// TestVerifC09BlockLimit is the same property on the block-count-limit scenario: one key with
// 66-68 full blocks and a tombstone, re-chunked at one point per block, so that the 65535
// blocks-per-key limit of a TSM file is reached and the output rolls over to a second file.
func TestVerifC09BlockLimit(t *testing.T) {
	vC09CompactionProperty(t, "TestVerifC09BlockLimit", true,
		"bed T, block-count limit: one file whose first key holds 66-68 blocks of 1000 points plus a tombstone (so every block is decoded), Size=1, CompactFast/CompactFull with the same failure injections as TestVerifC09Compaction: the output must roll over to a further file after 65535 blocks of the key and read back as the reference. non-trivial = always (a tombstone cuts a block); distinct = hash of layout + mode + injection")
}

func vC09CompactionProperty(t *testing.T, name string, blockLimit bool, rule string) {
	st := verifkit.For("C09", name, rule)
	defer st.Flush()
	vC09InstallHook()
	defer verifhook.Set(nil)
	var hookBlocks int64
	var cases int64
	rapid.Check(t, func(rt *rapid.T) {
		vC09SetHook(nil)
		dir, err := vC09TempDir()
		if err != nil {
			rt.Fatal(err)
		}
		defer os.RemoveAll(dir)
		c := vC09DrawCase(rt, 8, blockLimit)
		mode := rapid.SampledFrom([]string{"fast", "full"}).Draw(rt, "mode")
		size := rapid.SampledFrom([]int{0, 0, 10, 1}).Draw(rt, "size")
		if c.forceSize != 0 {
			size = c.forceSize
		}
		inj := rapid.SampledFrom([]string{"none", "none", "none", "none", "none", "none", "abort-block", "abort-block", "abort-file", "corrupt", "corrupt", "exists", "reader-error", "reader-error"}).Draw(rt, "inject")
		classes := map[string]bool{}
		cl := func(s string) { classes[s] = true }

		// group = contiguous run of whole generations
		var genIdx [][]int
		for i, fl := range c.files {
			if i == 0 || fl.gen != c.files[i-1].gen {
				genIdx = append(genIdx, nil)
			}
			genIdx[len(genIdx)-1] = append(genIdx[len(genIdx)-1], i)
		}
		gi, gj := 0, len(genIdx)-1
		if len(genIdx) > 1 && rapid.IntRange(0, 2).Draw(rt, "partialGroup") == 0 {
			gi = rapid.IntRange(0, len(genIdx)-1).Draw(rt, "groupFrom")
			gj = rapid.IntRange(gi, len(genIdx)-1).Draw(rt, "groupTo")
		}
		inGroup := map[int]bool{}
		for g := gi; g <= gj; g++ {
			for _, fi := range genIdx[g] {
				inGroup[fi] = true
			}
		}
		whole := len(inGroup) == len(c.files)

		if err := c.write(dir); err != nil {
			rt.Fatalf("harness: building input files: %v", err)
		}
		var group []string
		for fi, fl := range c.files {
			if inGroup[fi] {
				group = append(group, fl.path)
			}
		}

		// corrupt one block of a group file before the file store maps it
		skip := map[string]bool{}
		if inj == "corrupt" {
			// Known finding compaction-spins-forever-on-undecodable-block: a block that fails to
			// DECODE makes tsmBatchKeyIterator.Next loop forever. The main campaign therefore only
			// corrupts blocks that the compactor provably never decodes: the key lives in exactly
			// one file of the group, that file has no tombstone naming the key, and either the
			// mode is fast (blocks are passed through) or the key has a single block.
			var cands [][3]int
			for fi, fl := range c.files {
				if !inGroup[fi] {
					continue
				}
				for k, lay := range fl.blocks {
					holders := 0
					for fj, o := range c.files {
						if inGroup[fj] && len(o.blocks[k]) > 0 {
							holders++
						}
					}
					tombed := false
					for _, tb := range fl.tombs {
						for _, tk := range tb.keys {
							if tk == k {
								tombed = true
							}
						}
					}
					for b := range lay {
						if !vC09ExcludeDecodeSpin || holders == 1 && !tombed && (mode == "fast" || len(lay) == 1) {
							cands = append(cands, [3]int{fi, k, b})
						}
					}
				}
			}
			if len(cands) == 0 {
				st.Exclude("compaction-spins-forever-on-undecodable-block")
				inj = "none"
			} else {
				ch := cands[rapid.IntRange(0, len(cands)-1).Draw(rt, "corruptBlock")]
				how := rapid.SampledFrom([]string{"len", "len", "type"}).Draw(rt, "corruptHow")
				fl := c.files[ch[0]]
				fd, err := os.Open(fl.path)
				if err != nil {
					rt.Fatal(err)
				}
				r, err := NewTSMReader(fd)
				if err != nil {
					rt.Fatal(err)
				}
				es := r.Entries([]byte(c.keys[ch[1]]))
				r.Close()
				if ch[2] >= len(es) {
					// a tombstone loaded from disk already removed the key from the index (only
					// possible when vC09ExcludeDecodeSpin is off): nothing to corrupt
					inj = "none"
				} else {
					f, err := os.OpenFile(fl.path, os.O_RDWR, 0666)
					if err != nil {
						rt.Fatal(err)
					}
					// block = 4 byte checksum, 1 byte type, uvarint length of the timestamp section, ...
					if how == "type" {
						_, err = f.WriteAt([]byte{0x55}, es[ch[2]].Offset+4) // BlockCount works, decoders reject it
					} else {
						_, err = f.WriteAt([]byte{0xff, 0xff, 0xff, 0x7f}, es[ch[2]].Offset+5) // BlockCount fails
					}
					if err != nil {
						rt.Fatal(err)
					}
					f.Close()
					skip[c.keys[ch[1]]] = true
					inj = "corrupt-" + how
				}
			}
		}

		fs := NewFileStore(dir)
		if err := fs.Open(); err != nil {
			rt.Fatalf("harness: FileStore.Open: %v", err)
		}
		closed := false
		defer func() {
			if !closed {
				fs.Close()
			}
		}()
		if err := c.applyLate(fs); err != nil {
			rt.Fatalf("harness: late tombstone: %v", err)
		}
		ref := c.reference()

		check := func(when string) {
			got, err := vC09ReadFold(fs, c.keys, skip)
			if err != nil {
				rt.Fatalf("%s %s: %v", verifkit.Sig("read-error-"+when), when, err)
			}
			if d := vC09Diff(ref, got, skip); d != "" {
				rt.Fatalf("%s %s: ReadAll fold differs from the reference: %s\ncase: %s", verifkit.Sig("content-differs-"+when), when, d, strings.Join(c.describe(), "\n"))
			}
			// known finding keycursor-misorders-more-than-12-overlapping-blocks: the KeyCursor is
			// compared only for keys with at most 12 block locations in the store
			cskip := map[string]bool{}
			for k := range skip {
				cskip[k] = true
			}
			nloc, err := vC09GroupBlocks(fs, nil, c.keys)
			if err != nil {
				rt.Fatalf("harness: %v", err)
			}
			for k, kb := range nloc {
				if kb.n > 3000 && !cskip[k] {
					// KeyCursor.Next is quadratic in the number of block locations; the block-count
					// limit scenario (66000 one-point blocks) is read through ReadAll only
					cskip[k] = true
					cl("cursor:skipped-for-cost(>3000 blocks)")
				}
				if kb.n > vC09MaxCursorLocations && kb.overlap && !cskip[k] {
					cskip[k] = true
					st.Exclude("keycursor-misorders-more-than-12-overlapping-blocks")
				}
			}
			for _, asc := range []bool{true, false} {
				gc, err := vC09CursorContent(fs, c.keys, c.types, asc, cskip)
				if err != nil {
					rt.Fatalf("%s %s asc=%v: %v", verifkit.Sig("keycursor-error-"+when), when, asc, err)
				}
				if d := vC09Diff(ref, gc, cskip); d != "" {
					rt.Fatalf("%s %s asc=%v: KeyCursor read differs from the reference: %s\ncase: %s", verifkit.Sig("keycursor-differs-"+when), when, asc, d, strings.Join(c.describe(), "\n"))
				}
			}
		}
		check("before-compaction")

		// known finding compaction-misorders-more-than-20-blocks-of-a-key: sort.Stable with the
		// non-transitive blocks.Less is only an insertion sort (which never swaps two overlapping
		// blocks) up to 20 elements; a key with more blocks in the group is not compared.
		excludeManyBlocks := func(group []string) {
			n, err := vC09GroupBlocks(fs, group, c.keys)
			if err != nil {
				rt.Fatalf("harness: %v", err)
			}
			for k, kb := range n {
				if kb.n > vC09MaxMergeBlocks && kb.overlap && !skip[k] {
					skip[k] = true
					st.Exclude("compaction-misorders-more-than-20-blocks-of-a-key")
				}
			}
		}

		cp := NewCompactor()
		cp.Dir = dir
		cp.FileStore = fs
		cp.Size = size
		cp.Open()
		defer cp.Close()

		// failure injection
		fired := false
		var junk string
		nblocks := 0
		var victimTomb string
		if inj == "reader-error" && c.emptiedKey {
			// the injection below relies on "at the first block written the victim file's iterator still has keys to
			// visit"; with a key that yields no block at all the first block may already belong to the file's last key
			inj = "none"
		}
		if inj == "reader-error" {
			// the one error a BlockIterator reports: the number of keys of an input file changes while the
			// compaction iterates it. At the first block written, the last key of one group file that holds at
			// least two keys is removed from that file's reader; the file's iterator still has keys to visit,
			// so the compaction must fail and leave the originals (plus the tombstone of that delete) in place.
			type cand struct {
				f   TSMFile
				key []byte
			}
			var cands []cand
			inG := map[string]bool{}
			for _, p := range group {
				inG[p] = true
			}
			fs.mu.RLock()
			for _, f := range fs.files {
				if inG[f.Path()] && f.KeyCount() >= 2 {
					k, _ := f.KeyAt(f.KeyCount() - 1)
					cands = append(cands, cand{f, append([]byte(nil), k...)})
				}
			}
			fs.mu.RUnlock()
			if len(cands) == 0 {
				inj = "none"
			} else {
				v := cands[rapid.IntRange(0, len(cands)-1).Draw(rt, "victimFile")]
				skip[string(v.key)] = true
				victimTomb = strings.TrimSuffix(filepath.Base(v.f.Path()), "."+TSMFileExtension) + "." + TombstoneFileExtension
				vC09SetHook(func(ev, path string, _ int64) {
					if ev == "compact.block" && strings.HasPrefix(path, dir) {
						nblocks++
						if !fired {
							fired = true
							if err := v.f.Delete([][]byte{v.key}); err != nil {
								panic(fmt.Sprintf("harness: delete during compaction: %v", err))
							}
						}
					}
				})
			}
		}
		switch inj {
		case "reader-error":
		case "abort-block":
			n := rapid.SampledFrom([]int{1, 1, 2, 3, 5, 8, 13, 40, 200}).Draw(rt, "abortAt")
			vC09SetHook(func(ev, path string, _ int64) {
				if ev == "compact.block" && strings.HasPrefix(path, dir) {
					nblocks++
					if nblocks == n && !fired {
						fired = true
						cp.DisableCompactions()
					}
				}
			})
		case "abort-file":
			vC09SetHook(func(ev, path string, _ int64) {
				if ev == "compact.block" && strings.HasPrefix(path, dir) {
					nblocks++
				}
				if ev == "compact.filewritten" && strings.HasPrefix(path, dir) && !fired {
					fired = true
					cp.DisableCompactions()
				}
			})
		default:
			vC09SetHook(func(ev, path string, _ int64) {
				if ev == "compact.block" && strings.HasPrefix(path, dir) {
					nblocks++
				}
			})
		}
		if inj == "exists" {
			mg, ms := 0, 0
			for _, p := range group {
				g, s, _ := DefaultParseFileName(p)
				if g > mg || (g == mg && s > ms) {
					mg, ms = g, s
				}
			}
			junk = filepath.Join(dir, DefaultFormatFileName(mg, ms+1)+"."+TSMFileExtension+"."+TmpTSMFileExtension)
			if err := os.WriteFile(junk, []byte("another compaction is writing this"), 0666); err != nil {
				rt.Fatal(err)
			}
		}

		excludeManyBlocks(group)
		inMax, err := vC09MaxBlockPoints(fs, group, skip)
		if err != nil {
			rt.Fatalf("harness: reading input block sizes: %v", err)
		}
		before, err := vC09DirState(dir)
		if err != nil {
			rt.Fatal(err)
		}

		run := vC09Compact(cp, mode == "fast", group)
		atomic.AddInt64(&hookBlocks, int64(nblocks))
		vC09SetHook(nil)
		if run.hung {
			rt.Fatalf("%s compaction (%s size=%d inject=%s) did not return within %v\ncase: %s", verifkit.Sig("compaction-hang"), mode, size, inj, vOpTimeout, strings.Join(c.describe(), "\n"))
		}
		if run.panicked != nil {
			rt.Fatalf("%s compaction (%s size=%d inject=%s) panicked: %v\ncase: %s", verifkit.Sig("compaction-panic"), mode, size, inj, run.panicked, strings.Join(c.describe(), "\n"))
		}
		outcome := "ok"
		if run.err != nil {
			outcome = "failed"
			expected := (inj == "abort-block" || inj == "abort-file" || inj == "reader-error") && fired || strings.HasPrefix(inj, "corrupt-") || inj == "exists"
			if !expected {
				rt.Fatalf("%s compaction (%s size=%d inject=%s fired=%v) failed: %v\ncase: %s", verifkit.Sig("compaction-failed-unexpectedly"), mode, size, inj, fired, run.err, strings.Join(c.describe(), "\n"))
			}
			// originals in place and readable, nothing temporary left
			after, err := vC09DirState(dir)
			if err != nil {
				rt.Fatal(err)
			}
			if victimTomb != "" {
				// the delete issued by the harness legitimately wrote (or rewrote) that file's tombstones
				delete(after, victimTomb)
				delete(before, victimTomb)
			}
			if d := vC09DirDiff(before, after); d != "" {
				sig := "failed-compaction-changed-files"
				if strings.Contains(d, "new ") && strings.Contains(d, "."+TmpTSMFileExtension) && !strings.Contains(d, "missing") && !strings.Contains(d, "changed") {
					sig = "failed-compaction-left-tmp"
				}
				rt.Fatalf("%s after a failed compaction (%s size=%d inject=%s err=%v) the directory differs: %s", verifkit.Sig(sig), mode, size, inj, run.err, d)
			}
			check("after-failed-compaction")
			switch inj {
			case "abort-block", "abort-file":
				cp.EnableCompactions()
			case "exists":
				os.Remove(junk)
			case "reader-error":
				vC09SetHook(nil)
			}
			if !strings.HasPrefix(inj, "corrupt-") {
				// the same group must be compactable afterwards (nothing stays reserved)
				run = vC09Compact(cp, mode == "fast", group)
				if run.hung || run.panicked != nil || run.err != nil {
					rt.Fatalf("%s retry after a failed compaction (%s size=%d inject=%s): hung=%v panic=%v err=%v", verifkit.Sig("retry-after-failed-compaction-fails"), mode, size, inj, run.hung, run.panicked, run.err)
				}
				outcome = "failed-then-ok"
			}
		} else if inj == "exists" {
			rt.Fatalf("%s compaction succeeded although its output name %s already existed", verifkit.Sig("compaction-overwrote-existing-output"), filepath.Base(junk))
		} else if inj == "reader-error" && fired {
			rt.Fatalf("%s a key was removed from an input file (%s) while the compaction (%s size=%d) was iterating it, the file's block iterator reports \"delete during iteration\", yet the compaction reported success with outputs %v\ncase: %s", verifkit.Sig("reader-error-ignored"), victimTomb, mode, size, run.outs, strings.Join(c.describe(), "\n"))
		}

		install := func(group, outs []string, size int, inMax map[string]int, when string) []string {
			for _, o := range outs {
				if !strings.HasSuffix(o, "."+TSMFileExtension+"."+TmpTSMFileExtension) {
					rt.Fatalf("%s output %s is not a .tsm.tmp file", verifkit.Sig("output-name-unexpected"), o)
				}
			}
			if err := fs.Replace(group, outs); err != nil {
				rt.Fatalf("%s FileStore.Replace(%v, %v): %v", verifkit.Sig("replace-failed"), group, outs, err)
			}
			var final []string
			for _, o := range outs {
				final = append(final, strings.TrimSuffix(o, "."+TmpTSMFileExtension))
			}
			sig, msg, vs := vC09Validate(fs, final, vC09SizeOf(size), inMax, skip)
			if sig != "" {
				rt.Fatalf("%s %s (%s): %s\ncase: %s", verifkit.Sig(sig), when, mode, msg, strings.Join(c.describe(), "\n"))
			}
			if len(outs) > 1 {
				cl("out:multiple-files")
			}
			if len(outs) == 0 {
				cl("out:no-file(all tombstoned)")
			}
			if vs["maxBlocksPerKey"] >= maxIndexEntries {
				cl("out:key-at-block-count-limit")
			}
			check(when)
			return final
		}

		if run.err == nil {
			install(group, run.outs, size, inMax, "after-compaction")

			// optional second round on whatever the store holds now
			// (not with a corrupted block in the store: a second group could pair it with an
			// overlapping block and hit the known decode spin)
			if len(skip) == 0 && rapid.IntRange(0, 2).Draw(rt, "secondRound") == 0 {
				gens, err := vC09Generations(fs)
				if err != nil {
					rt.Fatal(err)
				}
				if len(gens) > 0 {
					a := rapid.IntRange(0, len(gens)-1).Draw(rt, "g2From")
					b := rapid.IntRange(a, len(gens)-1).Draw(rt, "g2To")
					var g2 []string
					for i := a; i <= b; i++ {
						g2 = append(g2, gens[i]...)
					}
					mode2 := rapid.SampledFrom([]string{"fast", "full"}).Draw(rt, "mode2")
					size2 := rapid.SampledFrom([]int{0, 0, 10, 1}).Draw(rt, "size2")
					cp.Size = size2
					excludeManyBlocks(g2)
					inMax2, err := vC09MaxBlockPoints(fs, g2, skip)
					if err != nil {
						rt.Fatalf("harness: %v", err)
					}
					run2 := vC09Compact(cp, mode2 == "fast", g2)
					if run2.hung || run2.panicked != nil || run2.err != nil {
						rt.Fatalf("%s second compaction (%s size=%d of %d files): hung=%v panic=%v err=%v", verifkit.Sig("second-compaction-failed"), mode2, size2, len(g2), run2.hung, run2.panicked, run2.err)
					}
					install(g2, run2.outs, size2, inMax2, "after-second-compaction")
					cl("round2:" + mode2)
				}
			}

			// what a restart sees
			fs.Close()
			closed = true
			fs2 := NewFileStore(dir)
			if err := fs2.Open(); err != nil {
				rt.Fatalf("%s reopening the file store after compaction: %v", verifkit.Sig("reopen-after-compaction-failed"), err)
			}
			got, err := vC09ReadFold(fs2, c.keys, skip)
			if err == nil {
				if d := vC09Diff(ref, got, skip); d != "" {
					err = fmt.Errorf("%s", d)
				}
			}
			fs2.Close()
			if err != nil {
				rt.Fatalf("%s after compaction and reopen: %v\ncase: %s", verifkit.Sig("content-differs-after-reopen"), err, strings.Join(c.describe(), "\n"))
			}
		}

		// ---- evidence ----
		rel := vC09Relations(c, inGroup)
		partial := vC09PartialTomb(c, inGroup)
		nontrivial := rel["identical"] || rel["nested"] || rel["interleaved"] || partial
		for r := range rel {
			cl("rel:" + r)
		}
		if partial {
			cl("tomb:cuts-a-block-partially")
		}
		m := mode
		if mode == "fast" && whole {
			m = "optimize(fast on the whole store)"
		}
		cl("mode:" + m)
		cl(fmt.Sprintf("size:%d", size))
		cl("inject:" + inj + ":" + outcome)
		if (inj == "abort-block" || inj == "abort-file" || inj == "reader-error") && !fired {
			cl("inject:abort-point-not-reached")
		}
		if !whole {
			cl("group:part-of-the-store")
		}
		if c.base != 0 {
			cl("time:at-range-end")
		}
		for i, k := range c.keys {
			if len(k) > 60000 {
				cl("key:near-max-length")
			}
			used := false
			for fi, fl := range c.files {
				if inGroup[fi] && len(fl.blocks[i]) > 0 {
					used = true
				}
			}
			if used {
				cl(fmt.Sprintf("type:%c", c.types[i]))
			}
		}
		for fi, fl := range c.files {
			if fi > 0 && fl.gen == c.files[fi-1].gen {
				cl("files:same-generation-several-sequences")
			}
			for k, lay := range fl.blocks {
				if len(lay) == 0 && inGroup[fi] {
					cl("key:missing-from-some-file")
				}
				for _, b := range lay {
					switch len(b.ts) {
					case 1:
						cl("blk:1-point")
					case 999:
						cl("blk:999-points")
					case 1000:
						cl("blk:1000-points")
					}
				}
				_ = k
			}
			for _, tb := range fl.tombs {
				if inGroup[fi] {
					cl("tomb:" + tb.kind)
					if tb.late {
						cl("tomb:applied-through-open-store")
					} else {
						cl("tomb:loaded-from-tombstone-file")
					}
				}
			}
		}
		cl(fmt.Sprintf("files:%d", len(c.files)))
		var cls []string
		for k := range classes {
			cls = append(cls, k)
		}
		sort.Strings(cls)
		st.Case(nontrivial, c.canon()+"|"+mode+fmt.Sprint(size)+inj+fmt.Sprint(gi, gj), cls...)
		atomic.AddInt64(&cases, 1)
		if st.WantSample() {
			st.Sample(map[string]interface{}{"mode": mode, "size": size, "inject": inj, "outcome": outcome, "group": fmt.Sprintf("generations %d..%d of %d", gi, gj, len(genIdx)), "input": c.describe()})
		} else {
			st.Sample(nil)
		}
	})
	if atomic.LoadInt64(&cases) >= 200 && atomic.LoadInt64(&hookBlocks) == 0 {
		t.Fatalf("%s %d cases ran and the compact.block hook never fired: the abort injections tested nothing", verifkit.Sig("hook-compact-block-never-fired"), cases)
	}
}
