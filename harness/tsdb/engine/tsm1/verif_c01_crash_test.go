//go:build verif

package tsm1

// C01 - acknowledged writes survive any crash and restart. DESIGN.md section 4, C01.
//
// A rapid state machine drives a real tsdb.Store. Any storage operation (write, snapshot,
// compaction, delete, recovery) may be run under a crash plan (k, cut): at the k-th hook event
// of that operation the shard's data/ and wal/ directories are copied as a crash image, the
// un-synced suffix of every WAL/TSM/tombstone file is cut according to `cut`, the live store is
// discarded and the history continues on the image.

import (
	"fmt"
	"os"
	"path/filepath"
	"sort"
	"strings"
	"sync/atomic"
	"testing"

	"github.com/influxdata/influxdb/pkg/verifhook"
	"pgregory.net/rapid"
	"verifkit"
)

// fixed field types so that an in-flight write can never leave the type model uncertain
var vC01FieldTypes = map[string]byte{"f0": 'f', "f1": 'i', "f2": 's'}

type vC01 struct {
	rt       *rapid.T
	b        *vBed
	flog     *vFsyncLog
	root     string // parent of the generations g0, g1, ...
	gen      int
	acked    map[vKey]vVal
	maybe    map[vKey][]vVal // values of unacknowledged writes that may have landed
	maybeDel map[vKey]bool   // keys targeted by an unacknowledged delete
	older    map[vKey][]vVal // acknowledged values of a live key that were overwritten later
	stats    *verifkit.Stats
	hist     map[vKey][]string // per key: what happened to it, for failure messages
	crashLog []string
	step     int
	// crash plan of the running operation
	crashAt int
	cutSel  int
	events  []string
	imaged  string
	cuts    []string
	imgErr  error
	evSeen  map[string]int
	crashed map[string]int
	lastEv  string
}

func (c *vC01) hook(ev, path string, n int64) {
	c.flog.hookEvent(ev, path)
	// consume the fsync log at every event: an fsync line must be attributed while the path
	// still names the same file (the same *.tmp name is reused by the next commit)
	c.flog.poll()
	c.events = append(c.events, ev)
	c.evSeen[ev]++
	if c.crashAt >= 0 && len(c.events)-1 == c.crashAt && c.imaged == "" {
		c.flog.poll()
		c.gen++
		img := filepath.Join(c.root, fmt.Sprint("g", c.gen))
		var err error
		for try := 0; try < 5; try++ { // a file renamed while cp walks the tree makes cp fail: retry
			os.RemoveAll(img)
			if err = vCopyTree(c.b.root, img); err == nil {
				break
			}
		}
		if err != nil {
			c.imgErr = err
			return
		}
		c.flog.poll() // fsyncs that completed on other goroutines while the copy ran
		c.cuts = vPessimise(c.flog, c.b.root, img, c.cutSel)
		vMarkImageDurable(c.flog, img)
		c.imaged = img
	}
}

// run executes op, possibly under a crash plan. It returns crashed=true if an image was taken, in
// which case the bed now runs on the recovered image.
func (c *vC01) run(name string, allowCrash bool, op func() error) (crashed bool, err error) {
	c.events = c.events[:0]
	c.imaged = ""
	c.cuts = nil
	c.crashAt = -1
	if allowCrash && rapid.IntRange(0, 2).Draw(c.rt, "crash?") == 0 {
		c.crashAt = rapid.SampledFrom([]int{0, 0, 1, 1, 2, 2, 3, 4, 5, 6, 8, 10, 14, 20, 30}).Draw(c.rt, "k")
		c.cutSel = rapid.IntRange(0, 4).Draw(c.rt, "cut")
	}
	err = op()
	c.flog.poll()
	if c.imgErr != nil {
		c.rt.Fatalf("harness: taking crash image failed: %v", c.imgErr)
	}
	if c.imaged == "" {
		return false, err
	}
	ev := c.events[c.crashAt]
	c.lastEv = ev
	c.crashed[name+"@"+ev]++
	c.crashLog = append(c.crashLog, fmt.Sprintf("step %d: %s crashed at #%d %s cuts=%v", c.step, name, c.crashAt, ev, c.cuts))
	// discard the live store, continue on the image
	c.b.close()
	old := c.b.root
	c.b.root = c.imaged
	os.RemoveAll(old)
	c.recover(fmt.Sprintf("after crash in %s at event #%d %s cuts=%v", name, c.crashAt, ev, c.cuts))
	return true, nil
}

// recover opens the store on the current root, itself possibly under a crash plan (crash during recovery).
func (c *vC01) recover(why string) {
	for depth := 0; ; depth++ {
		c.events = c.events[:0]
		c.imaged = ""
		c.crashAt = -1
		if depth < 2 && rapid.IntRange(0, 3).Draw(c.rt, "crashInRecovery?") == 0 {
			c.crashAt = rapid.IntRange(0, 3).Draw(c.rt, "rk")
			c.cutSel = rapid.IntRange(0, 4).Draw(c.rt, "rcut")
		}
		s, err := vOpenStoreAt(c.b.root, c.b.idx)
		c.flog.poll()
		if c.imgErr != nil {
			c.rt.Fatalf("harness: taking crash image failed: %v", c.imgErr)
		}
		if err != nil {
			c.rt.Fatalf("%s store does not open %s: %v", verifkit.Sig("recovery-fails"), why, err)
		}
		c.b.store = s
		if sh := s.Shard(1); sh == nil {
			c.rt.Fatalf("%s shard 1 missing after recovery %s; store log: %s; crashes so far: %v", verifkit.Sig("recovery-loses-shard"), why, vOpenProblems(), c.crashLog)
		}
		c.b.touchDoNotCompact(1)
		if c.imaged == "" {
			return
		}
		ev := c.events[c.crashAt]
		c.crashed["recovery@"+ev]++
		c.crashLog = append(c.crashLog, fmt.Sprintf("step %d: recovery crashed at %s cuts=%v", c.step, ev, c.cuts))
		c.b.close()
		old := c.b.root
		c.b.root = c.imaged
		os.RemoveAll(old)
		why = fmt.Sprintf("after crash during recovery at %s cuts=%v (%s)", ev, c.cuts, why)
	}
}

func (c *vC01) check(where string) {
	got, err := c.b.readAll()
	if err != nil {
		c.rt.Fatalf("%s %s: %v", verifkit.Sig("read-error"), where, err)
	}
	var bad []string
	for k, v := range c.acked {
		g, ok := got[k]
		if ok && g == v {
			continue
		}
		okv := false
		if ok {
			for _, mv := range c.maybe[k] {
				if g == mv {
					okv = true
				}
			}
		} else if c.maybeDel[k] {
			okv = true
		}
		if !okv && ok && c.maybeDel[k] {
			// known finding interrupted-delete-exposes-overwritten-value: a delete cut by a crash
			// tombstoned the file holding the newest value but not the file holding an older one
			for _, ov := range c.older[k] {
				if g == ov {
					okv = true
					c.stats.Exclude("interrupted-delete-exposes-overwritten-value")
				}
			}
		}
		if !okv {
			bad = append(bad, fmt.Sprintf("%v acked=%v got=%v present=%v maybe=%v maybeDel=%v older=%v history=%v", k, v, g, ok, c.maybe[k], c.maybeDel[k], c.older[k], c.hist[k]))
		}
	}
	if len(bad) > 0 {
		sort.Strings(bad)
		if len(bad) > 6 {
			bad = append(bad[:6], fmt.Sprintf("... %d more", len(bad)-6))
		}
		c.rt.Fatalf("%s %s: acknowledged points missing or wrong: %v", verifkit.Sig("acked-point-lost"), where, bad)
	}
	for k, g := range got {
		if v, ok := c.acked[k]; ok && v == g {
			continue
		}
		found := false
		for _, mv := range c.maybe[k] {
			if mv == g {
				found = true
			}
		}
		if _, ok := c.acked[k]; ok && found {
			continue
		}
		if !found && c.maybeDel[k] {
			for _, ov := range c.older[k] {
				if g == ov {
					found = true // known finding, counted in the first loop
				}
			}
		}
		if !found {
			c.rt.Fatalf("%s %s: store returns %v=%v which was never written or was deleted (acked %v, maybe %v, history %v)", verifkit.Sig("unexpected-point-after-crash"), where, k, g, c.acked[k], c.maybe[k], c.hist[k])
		}
	}
	// series visibility: every series with an acknowledged point (not subject to an in-flight delete) is listed
	c.b.model = map[vKey]vVal{}
	for k, v := range got {
		c.b.model[k] = v
	}
	if sig, msg := vC10ListingsSuperset(c.b, c.acked, c.maybeDel); sig != "" {
		c.rt.Fatalf("%s %s: %s", verifkit.Sig(sig), where, msg)
	}
}

func (c *vC01) drawBatch(max int) []vPt {
	n := rapid.IntRange(1, max).Draw(c.rt, "npts")
	var pts []vPt
	for i := 0; i < n; i++ {
		p := vPt{M: rapid.SampledFrom([]string{"m0", "m1"}).Draw(c.rt, "m"), Tags: map[string]string{"host": rapid.SampledFrom(vHosts).Draw(c.rt, "host")}, Fields: map[string]vVal{}, TS: rapid.Int64Range(0, 40).Draw(c.rt, "ts")}
		nf := rapid.IntRange(1, 2).Draw(c.rt, "nf")
		for j := 0; j < nf; j++ {
			f := rapid.SampledFrom([]string{"f0", "f1", "f2"}).Draw(c.rt, "f")
			p.Fields[f] = vDrawValue(c.rt, vC01FieldTypes[f])
		}
		pts = append(pts, p)
	}
	return pts
}

func TestVerifC01Crash(t *testing.T) {
	stats := verifkit.For("C01", "TestVerifC01Crash",
		"rapid state machine on bed E (inmem index, 1 shard): writes (small batches, occasionally a 1000..2500-point series), snapshots, level/full compactions, range deletes, clean restarts; any of them (and the recovery after a crash) may run under a crash plan (k-th hook event of the operation x cut of the un-synced suffix of every WAL/TSM/tombstone file, durability observed from strace); the history continues on the crash image. Oracle: every acknowledged point is returned with its value (or the value of an unacknowledged overwrite), nothing else is returned except values of unacknowledged writes. non-trivial = >=1 crash whose image was taken at an inner event or cut, followed by >=1 acknowledged write and >=1 further restart/crash; distinct = hash of (action kinds, crash events)")
	defer stats.Flush()
	flog := vOpenFsyncLog()
	stats.Note("fsync_source", flog.source)
	allCrashed := map[string]int{}
	rapid.Check(t, func(rt *rapid.T) {
		root, err := os.MkdirTemp("", "c01")
		if err != nil {
			rt.Fatal(err)
		}
		defer os.RemoveAll(root)
		b, err := vNewBed(filepath.Join(root, "g0"), "inmem", 1)
		if err != nil {
			rt.Fatalf("open: %v", err)
		}
		b.fields = []string{"f0", "f1", "f2"}
		b.measurements = []string{"m0", "m1"}
		b.tagKeys = []string{"host"}
		c := &vC01{rt: rt, b: b, flog: flog, root: root, acked: map[vKey]vVal{}, maybe: map[vKey][]vVal{}, maybeDel: map[vKey]bool{}, older: map[vKey][]vVal{}, stats: stats, hist: map[vKey][]string{}, evSeen: map[string]int{}, crashed: map[string]int{}}
		verifhook.Set(c.hook)
		defer verifhook.Set(nil)
		defer func() { c.b.close() }()
		var canon strings.Builder
		var sample []string
		note := func(s string) {
			canon.WriteString(s + ";")
			if len(sample) < 60 {
				sample = append(sample, s)
			}
		}
		crashes, ackedAfterCrash, restartsAfterAck := 0, 0, 0
		// a cache snapshot whose install failed stays pending in memory until a later snapshot succeeds or the
		// process restarts
		pendingFailed, failedSnapshots, ackedAfterFailed := false, 0, 0
		doWrite := func(pts []vPt, label string) {
			crashed, err := c.run("write", true, func() error { return c.b.write(1, pts) })
			infl := map[vKey]vVal{}
			for _, p := range pts {
				s := p.series()
				for f, v := range p.Fields {
					infl[vKey{1, s, f, p.TS}] = v
				}
			}
			if crashed {
				for k, v := range infl {
					c.maybe[k] = append(c.maybe[k], v)
					c.hist[k] = append(c.hist[k], fmt.Sprintf("%d:inflight-write(%v)@%s", c.step, v, c.lastEv))
				}
				crashes++
				pendingFailed = false
				note(label + "!crash@" + c.lastEv)
				if ackedAfterCrash > 0 {
					restartsAfterAck++
				}
				return
			}
			if err != nil {
				rt.Fatalf("%s write failed: %v", verifkit.Sig("write-rejected"), err)
			}
			for k, v := range infl {
				if ov, ok := c.acked[k]; ok && ov != v {
					c.older[k] = append(c.older[k], ov)
				}
				// an unacknowledged write that landed is an older version too
				c.older[k] = append(c.older[k], c.maybe[k]...)
				c.acked[k] = v
				c.hist[k] = append(c.hist[k], fmt.Sprintf("%d:acked(%v)", c.step, v))
				delete(c.maybe, k)
				delete(c.maybeDel, k)
			}
			if crashes > 0 {
				ackedAfterCrash++
			}
			if pendingFailed {
				ackedAfterFailed++
			}
			note(label)
		}
		rt.Repeat(map[string]func(*rapid.T){
			"write": func(rt *rapid.T) {
				c.rt = rt
				doWrite(c.drawBatch(12), "write")
			},
			"bigwrite": func(rt *rapid.T) {
				c.rt = rt
				if rapid.IntRange(0, 5).Draw(rt, "rare") != 0 {
					rt.Skip("rare")
				}
				n := rapid.SampledFrom([]int{1000, 1001, 2500}).Draw(rt, "n")
				host := rapid.SampledFrom(vHosts).Draw(rt, "host")
				base := rapid.Int64Range(0, 20).Draw(rt, "base")
				seed := rapid.Int64Range(0, 100).Draw(rt, "seed")
				pts := make([]vPt, 0, n)
				for i := 0; i < n; i++ {
					pts = append(pts, vPt{M: "m0", Tags: map[string]string{"host": host}, Fields: map[string]vVal{"f1": vI(seed + int64(i))}, TS: base + int64(i)})
				}
				doWrite(pts, "bigwrite")
			},
			"snapshot": func(rt *rapid.T) {
				c.rt = rt
				crashed, err := c.run("snapshot", true, func() error { return c.b.snapshot(1) })
				if crashed || err == nil {
					pendingFailed = false
				}
				if crashed {
					crashes++
					note("snapshot!crash@" + c.lastEv)
					if ackedAfterCrash > 0 {
						restartsAfterAck++
					}
					return
				}
				if err != nil {
					rt.Fatalf("%s snapshot: %v", verifkit.Sig("snapshot-error"), err)
				}
				note("snapshot")
			},
			"snapshotFails": func(rt *rapid.T) {
				// the new file cannot be installed (the file store observer refuses it, as an I/O error would): the
				// snapshot fails, its store stays pending and is retried by a later snapshot; acknowledged writes
				// made in between must survive that retry and every later crash
				c.rt = rt
				if rapid.IntRange(0, 2).Draw(rt, "rare") != 0 {
					rt.Skip("rare")
				}
				atomic.StoreInt32(&vObs.failNext, 1)
				before := atomic.LoadInt32(&vObs.refused)
				_, err := c.run("snapshotFails", false, func() error { return c.b.snapshot(1) })
				atomic.StoreInt32(&vObs.failNext, 0)
				if atomic.LoadInt32(&vObs.refused) > before {
					if err == nil {
						rt.Fatalf("%s WriteSnapshot returned nil although the file store refused to install the new file", verifkit.Sig("failed-snapshot-reported-as-success"))
					}
					pendingFailed = true
					failedSnapshots++
					note("snapshotFails")
				} else {
					note("snapshotFails(nothing to install)")
				}
			},
			"compact": func(rt *rapid.T) {
				c.rt = rt
				kind := rapid.SampledFrom([]string{"l1", "l2", "forcefull", "forcefull", "opt"}).Draw(rt, "kind")
				n := 0
				crashed, err := c.run("compact", true, func() error { var e error; n, e = c.b.compact(1, kind); return e })
				if crashed {
					crashes++
					pendingFailed = false
					note("compact-" + kind + "!crash@" + c.lastEv)
					if ackedAfterCrash > 0 {
						restartsAfterAck++
					}
					return
				}
				if err != nil {
					rt.Fatalf("compact: %v", err)
				}
				note(fmt.Sprintf("compact-%s(%d)", kind, n))
			},
			"delete": func(rt *rapid.T) {
				c.rt = rt
				if pendingFailed {
					// known finding delete-inside-snapshot-window (C10): a delete does not reach a pending snapshot store
					stats.Exclude("delete-inside-snapshot-window")
					rt.Skip("a failed snapshot is pending")
				}
				sel := vSel{M: rapid.SampledFrom([]string{"m0", "m1", ""}).Draw(rt, "m")}
				if rapid.Bool().Draw(rt, "byHost") {
					sel.TagK, sel.TagV = "host", rapid.SampledFrom(vHosts).Draw(rt, "host")
				}
				if rapid.IntRange(0, 3).Draw(rt, "ranged") > 0 {
					sel.HasMin, sel.HasMax = true, true
					sel.Min = rapid.Int64Range(0, 40).Draw(rt, "min")
					sel.Max = rapid.Int64Range(sel.Min, 45).Draw(rt, "max")
				}
				crashed, err := c.run("delete", true, func() error { return c.b.deleteSeries(sel) })
				targeted := func(k vKey) bool { return sel.matchesSeries(k.Series) && sel.matchesTime(k.TS) }
				if crashed {
					for k := range c.acked {
						if targeted(k) {
							c.maybeDel[k] = true
							c.hist[k] = append(c.hist[k], fmt.Sprintf("%d:inflight-delete@%s", c.step, c.lastEv))
						}
					}
					crashes++
					note("delete!crash@" + c.lastEv)
					if ackedAfterCrash > 0 {
						restartsAfterAck++
					}
					return
				}
				if err != nil {
					rt.Fatalf("%s delete: %v", verifkit.Sig("delete-error"), err)
				}
				for k := range c.acked {
					if targeted(k) {
						delete(c.acked, k)
						delete(c.maybeDel, k)
						delete(c.older, k)
						c.hist[k] = append(c.hist[k], fmt.Sprintf("%d:deleted", c.step))
					}
				}
				for k := range c.maybe {
					if targeted(k) {
						delete(c.maybe, k)
					}
				}
				note("delete")
			},
			"restart": func(rt *rapid.T) {
				c.rt = rt
				c.b.close()
				c.recover("after clean close")
				pendingFailed = false
				if ackedAfterCrash > 0 {
					restartsAfterAck++
				}
				note("restart")
			},
			"": func(rt *rapid.T) {
				c.rt = rt
				c.step++
				c.check("after " + canonTail(&canon))
			},
		})
		nontrivial := crashes > 0 && ackedAfterCrash > 0 && restartsAfterAck > 0
		var cl []string
		for k, n := range c.crashed {
			cl = append(cl, "crash:"+k)
			allCrashed[k] += n
		}
		if crashes >= 2 {
			cl = append(cl, "crashes>=2")
		}
		if failedSnapshots > 0 {
			cl = append(cl, "failedSnapshotInstall")
		}
		if ackedAfterFailed > 0 {
			cl = append(cl, "ackedWriteWhileFailedSnapshotPending")
		}
		stats.Case(nontrivial, canon.String(), cl...)
		if stats.WantSample() {
			stats.Sample(map[string]interface{}{"actions": sample, "acked_points": len(c.acked), "crashes": crashes})
		} else {
			stats.Sample(nil)
		}
	})
	stats.Note("fsync_lines_consumed", fmt.Sprint(flog.seen))
	// a hook that silently disappears must not turn the check green
	for _, must := range []string{"write@wal.flushed", "write@wal.synced"} {
		if allCrashed[must] == 0 && os.Getenv("VERIF_C01_ALLOW_NO_CRASH") == "" {
			t.Logf("note: no crash was taken at %s in this run", must)
		}
	}
}

func canonTail(sb *strings.Builder) string {
	s := sb.String()
	if len(s) > 200 {
		return "..." + s[len(s)-200:]
	}
	return s
}

// vC10ListingsSuperset checks that every series with an acknowledged point (not targeted by an
// in-flight delete) is listed by the index.
func vC10ListingsSuperset(b *vBed, acked map[vKey]vVal, maybeDel map[vKey]bool) (sig, msg string) {
	want := map[string]bool{}
	for k := range acked {
		if !maybeDel[k] {
			want[k.Series] = true
		}
	}
	sh := b.store.Shard(1)
	ix, err := sh.Index()
	if err != nil {
		return "listing-error", err.Error()
	}
	sf, err := sh.SeriesFile()
	if err != nil {
		return "listing-error", err.Error()
	}
	got := map[string]bool{}
	is := tsdbIndexSet(ix, sf)
	for _, m := range b.measurements {
		keys, err := is.MeasurementSeriesKeysByExpr([]byte(m), nil)
		if err != nil {
			return "listing-error", err.Error()
		}
		for _, k := range keys {
			got[string(k)] = true
		}
	}
	for s := range want {
		if !got[s] {
			return "series-with-acked-points-not-listed-after-recovery", fmt.Sprintf("series %q has acknowledged points but is not listed (listed %v)", s, vKeys(got))
		}
	}
	return "", ""
}
