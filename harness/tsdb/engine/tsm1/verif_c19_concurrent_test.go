//go:build verif

package tsm1

// C19 - concurrent operation never corrupts state or loses writes (run with -race).
// A rapid-generated program of goroutines works on one real shard; the schedule is whatever
// the Go runtime does (schedule sampling). DESIGN.md section 4, C19.

import (
	"fmt"
	"os"
	"runtime"
	"strings"
	"sync"
	"sync/atomic"
	"testing"
	"time"

	"github.com/influxdata/influxdb/tsdb"
	"github.com/influxdata/influxql"
	"pgregory.net/rapid"
	"verifkit"
)

type vC19Op struct {
	Kind string
	N    int
	Arg  string
}

const vC19Rounds = 40

func vC19Val(g int, ts int64) float64 { return float64(g*100000) + float64(ts)/4 }

func TestVerifC19Engine(t *testing.T) {
	stats := verifkit.For("C19", "TestVerifC19Engine",
		"generated programs of 2..10 goroutines on one real shard (inmem or tsi1): each goroutine appends acknowledged batches to its own series and interleaves reads of its own and of other goroutines' series, cache snapshots, compactions (planner+strategies), deletes of a separate victim measurement, and - all at once at the start - a write of a brand-new field with a per-goroutine type. Oracle: no race-detector report, no panic, every operation returns within the watchdog, a read returns at least every point acknowledged before it began (own goroutine: all; other goroutine: the published acknowledged prefix), after the join every acknowledged point is readable, and the raced field has exactly one type with every successful writer having that type. non-trivial = >=3 goroutines with >=2 different operation kinds; distinct = hash of the program")
	defer stats.Flush()
	rapid.Check(t, func(rt *rapid.T) {
		root, err := os.MkdirTemp("", "c19")
		if err != nil {
			rt.Fatal(err)
		}
		defer os.RemoveAll(root)
		idx := rapid.SampledFrom([]string{"inmem", "inmem", "tsi1"}).Draw(rt, "index")
		b, err := vNewBed(root, idx, 1)
		if err != nil {
			rt.Fatalf("open: %v", err)
		}
		defer b.close()
		g := rapid.IntRange(2, 10).Draw(rt, "goroutines")
		typeRace := rapid.Bool().Draw(rt, "typeRace")
		kindsPool := []string{"write", "write", "write", "readOwn", "readOther", "snapshot", "compact", "victimWrite", "deleteVictim", "gosched"}
		if idx == "tsi1" {
			// known finding delete-vs-tsi-compaction-deadlock: no deletes on tsi1 in the main campaign
			kindsPool = []string{"write", "write", "write", "readOwn", "readOther", "snapshot", "compact", "victimWrite", "gosched"}
		}
		progs := make([][]vC19Op, g)
		kindSet := map[string]bool{}
		for i := range progs {
			n := rapid.IntRange(5, 30).Draw(rt, fmt.Sprintf("len%d", i))
			for j := 0; j < n; j++ {
				k := rapid.SampledFrom(kindsPool).Draw(rt, "op")
				op := vC19Op{Kind: k, N: rapid.IntRange(1, 40).Draw(rt, "n")}
				if k == "compact" {
					op.Arg = rapid.SampledFrom(vCompactKinds).Draw(rt, "ckind")
				}
				if k == "readOther" {
					op.N = rapid.IntRange(0, g-1).Draw(rt, "other")
				}
				progs[i] = append(progs[i], op)
				kindSet[k] = true
			}
		}
		acked := make([]int64, g) // number of acknowledged points of goroutine i (timestamps 0..n-1), atomic
		var failMu sync.Mutex
		var failure, failSig string
		fail := func(sig, msg string) {
			failMu.Lock()
			if failure == "" {
				failSig, failure = sig, msg
			}
			failMu.Unlock()
		}
		series := func(i int) string { return fmt.Sprintf("m0,host=g%d", i) }
		readCheck := func(who, i int, atLeast int64) {
			rows, err := b.readField(1, "m0", "f0", true, influxql.MinTime, influxql.MaxTime, fmt.Sprintf("host = 'g%d'", i))
			if err != nil {
				fail("concurrent-read-error", fmt.Sprintf("goroutine %d reading series of %d: %v", who, i, err))
				return
			}
			have := map[int64]float64{}
			for _, r := range rows {
				if r.V.T != 'f' {
					fail("concurrent-read-wrong-type", fmt.Sprintf("series %s returned %v", series(i), r.V))
					return
				}
				have[r.TS] = rowFloat(r)
			}
			for ts := int64(0); ts < atLeast; ts++ {
				v, ok := have[ts]
				if !ok || v != vC19Val(i, ts) {
					fail("read-misses-acknowledged-write", fmt.Sprintf("goroutine %d read series %s and did not get point ts=%d (value %v present=%v) acknowledged before the read began (%d acknowledged, %d rows returned)", who, series(i), ts, v, ok, atLeast, len(rows)))
					return
				}
			}
		}
		sharedKey := rapid.Bool().Draw(rt, "sharedNewKey")
		barrier := make([]int64, vC19Rounds)
		sharedAcked := make([]int64, vC19Rounds*16)
		var raceTypes []byte
		raceOK := make([]bool, g)
		if typeRace {
			for i := 0; i < g; i++ {
				raceTypes = append(raceTypes, rapid.SampledFrom(vTypes).Draw(rt, "raceType"))
			}
		}
		ctx := fmt.Sprintf(" [index %s, %d goroutines, typeRace %v, sharedNewKey %v]", idx, g, typeRace, sharedKey)
		start := make(chan struct{})
		var wg sync.WaitGroup
		for i := 0; i < g; i++ {
			wg.Add(1)
			go func(i int) {
				defer wg.Done()
				defer func() {
					if p := recover(); p != nil {
						buf := make([]byte, 4096)
						buf = buf[:runtime.Stack(buf, false)]
						fail("concurrent-panic", fmt.Sprintf("goroutine %d panicked: %v\n%s", i, p, buf))
					}
				}()
				<-start
				if sharedKey {
					// rounds of aligned first writes: in every round all goroutines create (or race to create) the
					// same brand-new series/field key; a spin barrier lines them up to make the race likely
					for r := 0; r < vC19Rounds; r++ {
						atomic.AddInt64(&barrier[r], 1)
						for atomic.LoadInt64(&barrier[r]) < int64(g) {
							runtime.Gosched()
						}
						err := b.store.WriteToShard(1, []modelsPoint{vPt{M: "m3", Tags: map[string]string{"host": fmt.Sprintf("s%d", r)}, Fields: map[string]vVal{"f0": vF(float64(i))}, TS: int64(i)}.point()})
						if err == nil {
							atomic.AddInt64(&sharedAcked[r*16+i], 1)
						}
					}
				}
				if typeRace {
					var v vVal
					switch raceTypes[i] {
					case 'f':
						v = vF(1.5)
					case 'i':
						v = vI(7)
					case 'u':
						v = vU(9)
					case 's':
						v = vS("x")
					default:
						v = vB(true)
					}
					err := b.store.WriteToShard(1, []modelsPoint{vPt{M: "m2", Tags: map[string]string{"host": fmt.Sprintf("g%d", i)}, Fields: map[string]vVal{"raced": v}, TS: int64(i)}.point()})
					raceOK[i] = err == nil
				}
				var victimSeq int64
				for _, op := range progs[i] {
					switch op.Kind {
					case "write":
						n0 := atomic.LoadInt64(&acked[i])
						var pts []vPt
						for k := int64(0); k < int64(op.N); k++ {
							pts = append(pts, vPt{M: "m0", Tags: map[string]string{"host": fmt.Sprintf("g%d", i)}, Fields: map[string]vVal{"f0": vF(vC19Val(i, n0+k))}, TS: n0 + k})
						}
						mp := make([]modelsPoint, len(pts))
						for k, p := range pts {
							mp[k] = p.point()
						}
						if err := b.store.WriteToShard(1, mp); err != nil {
							fail("concurrent-write-error", fmt.Sprintf("goroutine %d write: %v", i, err))
							return
						}
						atomic.StoreInt64(&acked[i], n0+int64(op.N))
					case "readOwn":
						readCheck(i, i, atomic.LoadInt64(&acked[i]))
					case "readOther":
						readCheck(i, op.N, atomic.LoadInt64(&acked[op.N]))
					case "snapshot":
						if err := b.snapshot(1); err != nil && err != ErrSnapshotInProgress && err != errSnapshotsDisabled && !strings.Contains(err.Error(), "snapshot in progress") {
							fail("concurrent-snapshot-error", fmt.Sprintf("snapshot: %v", err))
							return
						}
					case "compact":
						b.compact(1, op.Arg)
					case "victimWrite":
						victimSeq++
						b.store.WriteToShard(1, []modelsPoint{vPt{M: "m1", Tags: map[string]string{"host": fmt.Sprintf("v%d", i%3)}, Fields: map[string]vVal{"f0": vF(1)}, TS: victimSeq}.point()})
					case "deleteVictim":
						sel := vSel{M: "m1", TagK: "host", TagV: fmt.Sprintf("v%d", op.N%3)}
						if op.N%2 == 0 {
							sel.HasMin, sel.HasMax, sel.Min, sel.Max = true, true, 0, int64(op.N)
						}
						if err := b.deleteSeries(sel); err != nil {
							fail("concurrent-delete-error", fmt.Sprintf("delete: %v", err))
							return
						}
					case "gosched":
						runtime.Gosched()
					}
				}
			}(i)
		}
		close(start)
		done := make(chan struct{})
		go func() { wg.Wait(); close(done) }()
		select {
		case <-done:
		case <-time.After(120 * time.Second):
			buf := make([]byte, 1<<20)
			buf = buf[:runtime.Stack(buf, true)]
			os.WriteFile("deadlock-goroutines.txt", buf, 0644)
			rt.Fatalf("%s program of %d goroutines did not finish within 120s (goroutine dump in the work dir)", verifkit.Sig("concurrent-deadlock"), g)
		}
		if failure != "" {
			rt.Fatalf("%s %s%s", verifkit.Sig(failSig), failure, ctx)
		}
		// after the join: every acknowledged point is readable
		for i := 0; i < g; i++ {
			readCheck(-1, i, acked[i])
		}
		if failure != "" {
			rt.Fatalf("%s after join: %s%s", verifkit.Sig(failSig), failure, ctx)
		}
		if sharedKey {
			for r := 0; r < vC19Rounds; r++ {
				rows, err := b.readField(1, "m3", "f0", true, influxql.MinTime, influxql.MaxTime, fmt.Sprintf("host = 's%d'", r))
				if err != nil {
					rt.Fatalf("%s reading the shared series: %v", verifkit.Sig("concurrent-read-error"), err)
				}
				have := map[int64]bool{}
				for _, row := range rows {
					have[row.TS] = true
				}
				for i := 0; i < g; i++ {
					if sharedAcked[r*16+i] > 0 && !have[int64(i)] {
						rt.Fatalf("%s goroutine %d's acknowledged first write to the new key m3,host=s%d (ts=%d) is not readable; %d of %d points present%s", verifkit.Sig("acknowledged-write-lost"), i, r, i, len(rows), g, ctx)
					}
				}
			}
		}
		if typeRace {
			rows, err := b.readField(1, "m2", "raced", true, influxql.MinTime, influxql.MaxTime, "")
			if err != nil {
				rt.Fatalf("%s reading the raced field: %v", verifkit.Sig("concurrent-read-error"), err)
			}
			types := map[byte]bool{}
			for _, r := range rows {
				types[r.V.T] = true
			}
			if len(types) > 1 {
				rt.Fatalf("%s field written concurrently with different types holds values of %d types: %v", verifkit.Sig("field-holds-two-types"), len(types), rows)
			}
			var ft byte
			if mf := b.store.Shard(1).MeasurementFields([]byte("m2")); mf != nil {
				if f := mf.Field("raced"); f != nil {
					ft = vTypeOfInfluxQL(f.Type)
				}
			}
			nok := 0
			for i := 0; i < g; i++ {
				if raceOK[i] {
					nok++
					if ft != 0 && raceTypes[i] != ft {
						rt.Fatalf("%s goroutine %d wrote the new field as %c and was acknowledged, but the field has type %c (types written %q, acknowledged %v, stored rows %v; index %s; engine keys of m2: %v)", verifkit.Sig("conflicting-write-acknowledged"), i, raceTypes[i], ft, string(raceTypes), raceOK, rows, idx, vC19Keys(b, "m2"))
					}
				}
			}
			if nok != len(rows) {
				rt.Fatalf("%s %d writers of the raced field were acknowledged but %d values are stored", verifkit.Sig("raced-field-acked-count"), nok, len(rows))
			}
		}
		var cl []string
		for k := range kindSet {
			cl = append(cl, "op:"+k)
		}
		cl = append(cl, "index:"+idx, fmt.Sprintf("typeRace:%v", typeRace), fmt.Sprintf("sharedNewKey:%v", sharedKey))
		stats.Case(g >= 3 && len(kindSet) >= 2, fmt.Sprint(idx, typeRace, progs), cl...)
		if stats.WantSample() {
			stats.Sample(map[string]interface{}{"index": idx, "goroutines": g, "typeRace": typeRace, "programs": progs})
		} else {
			stats.Sample(nil)
		}
	})
}

func vC19Keys(b *vBed, prefix string) []string {
	e, err := b.engine(1)
	if err != nil {
		return nil
	}
	var out []string
	for _, k := range e.Cache.Keys() {
		if strings.HasPrefix(string(k), prefix) {
			out = append(out, "cache:"+string(k)+fmt.Sprint(e.Cache.Values(k)))
		}
	}
	e.FileStore.WalkKeys(nil, func(k []byte, typ byte) error {
		if strings.HasPrefix(string(k), prefix) {
			out = append(out, fmt.Sprintf("tsm:%s(type %d)", k, typ))
		}
		return nil
	})
	return out
}

func rowFloat(r vRow) float64 { return mathFloat64frombits(r.V.F) }

var _ = tsdb.ErrFieldTypeConflict
