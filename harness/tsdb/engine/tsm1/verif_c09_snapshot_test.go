//go:build verif

package tsm1

// C09, snapshot part: writing the cache out to a data file never changes what reads return.

import (
	"fmt"
	"os"
	"sort"
	"strings"
	"testing"

	"github.com/influxdata/influxdb/models"
	"github.com/influxdata/influxdb/pkg/verifhook"
	"github.com/influxdata/influxdb/tsdb"
	"pgregory.net/rapid"
	"verifkit"
)

func vC09CacheValue(typ byte, ts int64, tag int) Value {
	switch typ {
	case 'f':
		return NewFloatValue(ts, float64(tag)+0.5)
	case 'i':
		return NewIntegerValue(ts, -int64(tag))
	case 'u':
		return NewUnsignedValue(ts, uint64(tag)<<20)
	case 'b':
		return NewBooleanValue(ts, tag%2 == 0)
	default:
		return NewStringValue(ts, fmt.Sprintf("c%d", tag))
	}
}

// vC09Overlay is the content a reader sees: files folded, then the cache on top.
func vC09Overlay(fs *FileStore, cache *Cache, keys []string) (vC09Content, error) {
	got, err := vC09ReadFold(fs, keys, nil)
	if err != nil {
		return nil, err
	}
	for _, k := range keys {
		for _, v := range cache.Values([]byte(k)) {
			got[k][v.UnixNano()] = v.Value()
		}
	}
	return got, nil
}

func TestVerifC09Snapshot(t *testing.T) {
	st := verifkit.For("C09", "TestVerifC09Snapshot",
		"bed T: 0-3 generated TSM files plus a Cache filled by 1-5 WriteMulti batches with unsorted, duplicated timestamps (1..2500 values per key, all five types, timestamps also at the ends of the valid range); Snapshot+Deduplicate+Compactor.WriteSnapshot+FileStore.Replace as the engine does; optional abort (DisableSnapshots from the compact.block hook) followed by a retry; oracle = files folded newest-wins with the cache writes on top (last write wins), read through ReadAll and the KeyCursor before and after, output validity (sorted, non-overlapping, <= 1000 points per block, newest generation). non-trivial = the cache overwrites timestamps held by a file or repeats a timestamp; distinct = hash of file layout + cache batches")
	defer st.Flush()
	vC09InstallHook()
	defer verifhook.Set(nil)
	rapid.Check(t, func(rt *rapid.T) {
		vC09SetHook(nil)
		dir, err := vC09TempDir()
		if err != nil {
			rt.Fatal(err)
		}
		defer os.RemoveAll(dir)
		c := vC09DrawCase(rt, 3, false)
		if rapid.IntRange(0, 4).Draw(rt, "noFiles") == 0 {
			c.files, c.order = nil, nil
		}
		classes := map[string]bool{}
		cl := func(s string) { classes[s] = true }
		if err := c.write(dir); err != nil {
			rt.Fatalf("harness: building input files: %v", err)
		}
		fs := NewFileStore(dir)
		if err := fs.Open(); err != nil {
			rt.Fatalf("harness: FileStore.Open: %v", err)
		}
		closed := false
		defer func() {
			if !closed {
				fs.Close()
			}
		}()
		if err := c.applyLate(fs); err != nil {
			rt.Fatalf("harness: late tombstone: %v", err)
		}
		ref := c.reference()

		// cache content
		cache := NewCache(0)
		abs := func(rel int64) int64 {
			switch {
			case c.base < 0:
				return models.MinNanoTime + rel
			case c.base > 0:
				return models.MaxNanoTime - rel
			}
			return rel
		}
		nbatch := rapid.IntRange(1, 5).Draw(rt, "batches")
		tag := 0
		overwrites, repeats := false, false
		cacheTs := map[string]map[int64]bool{}
		var canon strings.Builder
		budget := 6000
		for b := 0; b < nbatch; b++ {
			batch := map[string][]Value{}
			for ki, k := range c.keys {
				if len(c.keys) > 1 && !rapid.Bool().Draw(rt, "inBatch") {
					continue
				}
				n := rapid.SampledFrom([]int{1, 1, 2, 5, 30, 999, 1000, 1001, 2500}).Draw(rt, "cacheN")
				if n > 30 && budget <= 0 {
					n = 5
				}
				budget -= n
				span := int64(60)
				if n > 30 {
					span = rapid.SampledFrom([]int64{int64(n) / 2, int64(n), 3 * int64(n)}).Draw(rt, "span")
				}
				var vals []Value
				seen := map[int64]bool{}
				if n > 30 {
					// bulk: a drawn permutation-free pattern (descending or strided) instead of n draws
					pat := rapid.SampledFrom([]string{"desc", "stride", "asc"}).Draw(rt, "pattern")
					for i := 0; i < n; i++ {
						var rel int64
						switch pat {
						case "desc":
							rel = (int64(n-1-i) * 7) % (span + 1)
						case "stride":
							rel = (int64(i) * 37) % (span + 1)
						default:
							rel = int64(i) % (span + 1)
						}
						tag++
						ts := abs(rel)
						if seen[ts] {
							repeats = true
						}
						seen[ts] = true
						vals = append(vals, vC09CacheValue(c.types[ki], ts, tag))
					}
				} else {
					for i := 0; i < n; i++ {
						tag++
						ts := abs(rapid.Int64Range(0, span).Draw(rt, "cacheTs"))
						if seen[ts] {
							repeats = true
						}
						seen[ts] = true
						vals = append(vals, vC09CacheValue(c.types[ki], ts, tag))
					}
				}
				batch[k] = vals
				fmt.Fprintf(&canon, "b%d:k%d:n%d:%d..;", b, ki, n, vals[0].UnixNano())
				if cacheTs[k] == nil {
					cacheTs[k] = map[int64]bool{}
				}
				for _, v := range vals {
					cacheTs[k][v.UnixNano()] = true
					if _, ok := ref[k][v.UnixNano()]; ok {
						overwrites = true
					}
					ref[k][v.UnixNano()] = v.Value()
				}
				switch {
				case n >= 1000:
					cl("cache:key-with->=1000-values")
				case n == 999:
					cl("cache:key-with-999-values")
				}
				cl(fmt.Sprintf("type:%c", c.types[ki]))
			}
			if len(batch) == 0 {
				continue
			}
			if err := cache.WriteMulti(batch); err != nil {
				rt.Fatalf("harness: cache write: %v", err)
			}
		}
		if cache.Size() == 0 {
			// the engine never snapshots an empty cache
			v := vC09CacheValue(c.types[0], abs(1), 1)
			if err := cache.Write([]byte(c.keys[0]), []Value{v}); err != nil {
				rt.Fatalf("harness: cache write: %v", err)
			}
			ref[c.keys[0]][v.UnixNano()] = v.Value()
			cacheTs[c.keys[0]] = map[int64]bool{v.UnixNano(): true}
		}
		// number of blocks the snapshot will write: per key ceil(distinct timestamps / 1000)
		totalBlocks := 0
		for _, m := range cacheTs {
			totalBlocks += (len(m) + tsdb.DefaultMaxPointsPerBlock - 1) / tsdb.DefaultMaxPointsPerBlock
		}

		check := func(when string, withCache bool) {
			var got vC09Content
			var err error
			if withCache {
				got, err = vC09Overlay(fs, cache, c.keys)
			} else {
				got, err = vC09ReadFold(fs, c.keys, nil)
			}
			if err != nil {
				rt.Fatalf("%s %s: %v", verifkit.Sig("read-error-"+when), when, err)
			}
			if d := vC09Diff(ref, got, nil); d != "" {
				rt.Fatalf("%s %s: content differs from the reference: %s\ncase: %s", verifkit.Sig("content-differs-"+when), when, d, strings.Join(c.describe(), "\n"))
			}
		}
		// Cache.Values sorts and de-duplicates the entries it touches, so a read before the snapshot
		// changes what the snapshot finds; both histories (with and without a reader) are drawn.
		if rapid.Bool().Draw(rt, "readBefore") {
			check("before-snapshot", true)
			cl("history:read-before-snapshot")
		} else {
			cl("history:no-read-before-snapshot")
		}

		cp := NewCompactor()
		cp.Dir = dir
		cp.FileStore = fs
		cp.Open()
		defer cp.Close()

		abort := rapid.IntRange(0, 3).Draw(rt, "abort") == 0
		fired := false
		nblocks := 0
		abortAt := 0
		if abort {
			abortAt = rapid.SampledFrom([]int{1, 1, 2, 3, 5}).Draw(rt, "abortAt")
			if vC09ExcludeSnapshotLastBlockAbort && abortAt == totalBlocks {
				// known finding aborted-snapshot-left-tmp: DisableSnapshots after the last block was
				// read makes WriteSnapshot return errSnapshotsDisabled without removing the file it
				// completed (TestVerifC09KFSnapshotAbortLeavesTmp)
				st.Exclude("aborted-snapshot-left-tmp")
				abort = false
			}
		}
		if abort {
			n := abortAt
			vC09SetHook(func(ev, path string, _ int64) {
				if ev == "compact.block" && strings.HasPrefix(path, dir) {
					nblocks++
					if nblocks == n && !fired {
						fired = true
						cp.DisableSnapshots()
					}
				}
			})
		}
		before, err := vC09DirState(dir)
		if err != nil {
			rt.Fatal(err)
		}
		maxGen := 0
		for _, fl := range c.files {
			if fl.gen > maxGen {
				maxGen = fl.gen
			}
		}

		snapshot := func() ([]string, error, bool, interface{}) {
			var outs []string
			var err error
			var pan interface{}
			ok := verifkit.Watch(vOpTimeout, func() {
				defer func() {
					if p := recover(); p != nil {
						pan = p
					}
				}()
				var snap *Cache
				snap, err = cache.Snapshot()
				if err != nil {
					return
				}
				snap.Deduplicate()
				outs, err = cp.WriteSnapshot(snap)
			})
			return outs, err, !ok, pan
		}
		outs, err, hung, pan := snapshot()
		vC09SetHook(nil)
		if hung {
			rt.Fatalf("%s WriteSnapshot did not return within %v", verifkit.Sig("snapshot-hang"), vOpTimeout)
		}
		if pan != nil {
			rt.Fatalf("%s WriteSnapshot panicked: %v", verifkit.Sig("snapshot-panic"), pan)
		}
		outcome := "ok"
		if err != nil {
			if !fired {
				rt.Fatalf("%s WriteSnapshot failed: %v\ncase: %s", verifkit.Sig("snapshot-failed-unexpectedly"), err, strings.Join(c.describe(), "\n"))
			}
			cache.ClearSnapshot(false)
			after, err2 := vC09DirState(dir)
			if err2 != nil {
				rt.Fatal(err2)
			}
			if d := vC09DirDiff(before, after); d != "" {
				sig := "aborted-snapshot-changed-files"
				if strings.Contains(d, "new ") && !strings.Contains(d, "missing") && !strings.Contains(d, "changed") {
					sig = "aborted-snapshot-left-tmp"
				}
				rt.Fatalf("%s after an aborted snapshot (err=%v, abort at block %d of >=%d) the directory differs: %s", verifkit.Sig(sig), err, nblocks, nblocks, d)
			}
			check("after-aborted-snapshot", true)
			cp.EnableSnapshots()
			outs, err, hung, pan = snapshot()
			if hung || pan != nil || err != nil {
				rt.Fatalf("%s retry after an aborted snapshot: hung=%v panic=%v err=%v", verifkit.Sig("retry-after-aborted-snapshot-fails"), hung, pan, err)
			}
			outcome = "aborted-then-ok"
		}
		for _, o := range outs {
			g, _, perr := DefaultParseFileName(o)
			if perr != nil || g <= maxGen {
				rt.Fatalf("%s snapshot file %s does not have a generation above the existing %d", verifkit.Sig("snapshot-generation-not-newest"), o, maxGen)
			}
		}
		if err := fs.Replace(nil, outs); err != nil {
			rt.Fatalf("%s FileStore.Replace(nil, %v): %v", verifkit.Sig("replace-failed"), outs, err)
		}
		cache.ClearSnapshot(true)
		var final []string
		for _, o := range outs {
			final = append(final, strings.TrimSuffix(o, "."+TmpTSMFileExtension))
		}
		if sig, msg, _ := vC09Validate(fs, final, tsdb.DefaultMaxPointsPerBlock, nil, nil); sig != "" {
			rt.Fatalf("%s snapshot output: %s", verifkit.Sig("snapshot-"+sig), msg)
		}
		for _, k := range c.keys {
			if n := len(cache.Values([]byte(k))); n != 0 {
				rt.Fatalf("%s %d values of key %.40s are still in the cache after the snapshot was committed", verifkit.Sig("cache-not-empty-after-snapshot"), n, k)
			}
		}
		check("after-snapshot", false)
		// KeyCursor view (subject to the known ordering finding)
		nloc, err := vC09GroupBlocks(fs, nil, c.keys)
		if err != nil {
			rt.Fatalf("harness: %v", err)
		}
		cskip := map[string]bool{}
		for k, kb := range nloc {
			if kb.n > vC09MaxCursorLocations && kb.overlap {
				cskip[k] = true
				st.Exclude("keycursor-misorders-more-than-12-overlapping-blocks")
			}
		}
		for _, asc := range []bool{true, false} {
			gc, err := vC09CursorContent(fs, c.keys, c.types, asc, cskip)
			if err != nil {
				rt.Fatalf("%s asc=%v: %v", verifkit.Sig("keycursor-error-after-snapshot"), asc, err)
			}
			if d := vC09Diff(ref, gc, cskip); d != "" {
				rt.Fatalf("%s asc=%v: KeyCursor read differs from the reference: %s\ncase: %s", verifkit.Sig("keycursor-differs-after-snapshot"), asc, d, strings.Join(c.describe(), "\n"))
			}
		}
		fs.Close()
		closed = true
		fs2 := NewFileStore(dir)
		if err := fs2.Open(); err != nil {
			rt.Fatalf("%s reopening the file store after the snapshot: %v", verifkit.Sig("reopen-after-snapshot-failed"), err)
		}
		got, err := vC09ReadFold(fs2, c.keys, nil)
		if err == nil {
			if d := vC09Diff(ref, got, nil); d != "" {
				err = fmt.Errorf("%s", d)
			}
		}
		fs2.Close()
		if err != nil {
			rt.Fatalf("%s after snapshot and reopen: %v", verifkit.Sig("content-differs-after-snapshot-reopen"), err)
		}

		cl("snapshot:" + outcome)
		if abort && !fired {
			cl("snapshot:abort-point-not-reached")
		}
		cl(fmt.Sprintf("files:%d", len(c.files)))
		if overwrites {
			cl("cache:overwrites-file-timestamps")
		}
		if repeats {
			cl("cache:repeats-a-timestamp-in-one-batch")
		}
		if c.base != 0 {
			cl("time:at-range-end")
		}
		if len(outs) == 0 {
			cl("out:no-file")
		}
		var cls []string
		for k := range classes {
			cls = append(cls, k)
		}
		sort.Strings(cls)
		st.Case(overwrites || repeats, c.canon()+"|"+canon.String(), cls...)
		if st.WantSample() {
			st.Sample(map[string]interface{}{"files": c.describe(), "cache": canon.String(), "outcome": outcome})
		} else {
			st.Sample(nil)
		}
	})
}
