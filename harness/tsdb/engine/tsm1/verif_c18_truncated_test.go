//go:build verif

package tsm1

// C18 - a copy stream that ends early (the peer closed the connection) is never taken for a
// complete copy: restore/import of a truncated stream fails, or the destination holds everything.

import (
	"archive/tar"
	"bytes"
	"fmt"
	"io"
	"os"
	"path/filepath"
	"testing"
	"time"

	"pgregory.net/rapid"
	"verifkit"
)

type vCountReader struct {
	r io.Reader
	n int64
}

func (c *vCountReader) Read(p []byte) (int, error) {
	n, err := c.r.Read(p)
	c.n += int64(n)
	return n, err
}

// vTarBoundaries returns the offsets at which an archive member (header) starts and the offset
// of the end-of-archive marker.
func vTarBoundaries(stream []byte) []int64 {
	cr := &vCountReader{r: bytes.NewReader(stream)}
	tr := tar.NewReader(cr)
	var out []int64
	for {
		hdr, err := tr.Next()
		if err != nil {
			break
		}
		// cr.n is just past this member's header block(s); the member started at a multiple of 512 before
		// it. archive/tar reads exactly the header, so header start = cr.n - 512 for plain headers.
		out = append(out, cr.n-512)
		io.Copy(io.Discard, tr)
		_ = hdr
	}
	return out
}

func TestVerifC18TruncatedStream(t *testing.T) {
	stats := verifkit.For("C18", "TestVerifC18TruncatedStream",
		"bed E: a source shard with 2..6 TSM files (generated writes and snapshots) is backed up or exported; the stream is cut at a drawn offset - exactly at an archive-member boundary, one byte or one 512-byte block around it, inside the end-of-archive marker, or anywhere - and fed to RestoreShard/ImportShard of a fresh store, as happens when the peer of a shard copy closes the connection. Oracle: the restore fails, or the destination's content equals the source's. non-trivial = cut at a member boundary after at least two members; distinct = (files, kind, cut class, members before the cut)")
	defer stats.Flush()
	rapid.Check(t, func(rt *rapid.T) {
		root, err := os.MkdirTemp("", "c18t")
		if err != nil {
			rt.Fatal(err)
		}
		defer os.RemoveAll(root)
		idx := rapid.SampledFrom([]string{"inmem", "tsi1"}).Draw(rt, "index")
		b, err := vNewBed(filepath.Join(root, "src"), idx, 1)
		if err != nil {
			rt.Fatalf("open: %v", err)
		}
		defer b.close()
		b.onExclude = stats.Exclude
		nfiles := rapid.IntRange(2, 6).Draw(rt, "files")
		for i := 0; i < nfiles; i++ {
			pts := b.vDrawBatch(rt, 1, 12)
			if err := b.write(1, pts); err != nil {
				rt.Fatalf("write: %v", err)
			}
			b.applyWrite(1, pts)
			if err := b.snapshot(1); err != nil {
				rt.Fatalf("snapshot: %v", err)
			}
		}
		kind := rapid.SampledFrom([]string{"backup-restore", "backup-import", "export-import"}).Draw(rt, "kind")
		var stream bytes.Buffer
		if kind == "export-import" {
			err = b.store.ExportShard(1, time.Unix(0, vMinT), time.Unix(0, vMaxT), &stream)
		} else {
			err = b.store.BackupShard(1, time.Time{}, &stream)
		}
		if err != nil {
			rt.Fatalf("%s %s failed: %v", verifkit.Sig("backup-error"), kind, err)
		}
		full := stream.Bytes()
		bounds := vTarBoundaries(full)
		if len(bounds) == 0 {
			rt.Fatalf("harness: no archive members in a %d byte stream", len(full))
		}
		class := rapid.SampledFrom([]string{"boundary", "boundary", "boundary", "boundary+-1", "boundary+-512", "in-end-marker", "anywhere"}).Draw(rt, "cutClass")
		var cut int64
		members := 0
		switch class {
		case "boundary", "boundary+-1", "boundary+-512":
			k := rapid.IntRange(0, len(bounds)).Draw(rt, "member")
			if k == len(bounds) {
				// the end of the last member = start of the end-of-archive marker
				cut = int64(len(full)) - 1024
			} else {
				cut = bounds[k]
			}
			members = k
			if class == "boundary+-1" {
				cut += int64(rapid.SampledFrom([]int{-1, 1}).Draw(rt, "d"))
			} else if class == "boundary+-512" {
				cut += int64(rapid.SampledFrom([]int{-512, 512}).Draw(rt, "d"))
			}
		case "in-end-marker":
			cut = int64(len(full)) - int64(rapid.IntRange(1, 1023).Draw(rt, "back"))
		default:
			cut = rapid.Int64Range(0, int64(len(full))-1).Draw(rt, "offset")
		}
		if cut < 0 {
			cut = 0
		}
		if cut >= int64(len(full)) {
			cut = int64(len(full)) - 1
		}
		imp := kind != "backup-restore"
		d, rerr := vRestoreInto(filepath.Join(root, "dst"), idx, full[:cut], imp)
		outcome := "refused"
		if rerr == nil {
			outcome = "accepted"
			defer d.close()
			dgot, err := d.readAll()
			if err != nil {
				rt.Fatalf("%s reading the restored shard: %v", verifkit.Sig("read-error"), err)
			}
			d.model = vCopyModel(b.model)
			if k, msg := d.diffModel(dgot); k != "" {
				rt.Fatalf("%s a %s stream of %d bytes cut at offset %d (%s, %d of %d members complete) was accepted as a complete copy, but the destination differs from the source: %s", verifkit.Sig("truncated-copy-accepted"), kind, len(full), cut, class, members, len(bounds), msg)
			}
		}
		stats.Case(class == "boundary" && members >= 2 && members <= len(bounds), fmt.Sprint(nfiles, kind, class, members), "kind:"+kind, "cut:"+class, "outcome:"+outcome, "index:"+idx)
		if stats.WantSample() {
			stats.Sample(map[string]interface{}{"files": nfiles, "kind": kind, "stream_bytes": len(full), "cut": cut, "cut_class": class, "members_before_cut": members, "members": len(bounds), "outcome": outcome})
		} else {
			stats.Sample(nil)
		}
	})
}
