//go:build verif

package tsm1

// Crash imager shared by C01 and the crash clause of C10 (DESIGN.md section 2.4 and C01).
// Which bytes are durable is OBSERVED from an strace log of fsync/fdatasync/rename calls
// ($VERIF_FSYNC_LOG, written by the driver's strace wrapper), not declared by the hooks.

import (
	"bufio"
	"fmt"
	"io"
	"os"
	"os/exec"
	"path/filepath"
	"regexp"
	"strings"
	"syscall"
)

type vFsyncLog struct {
	f       *os.File
	r       *bufio.Reader
	pending map[string]string // pid -> path of unfinished fsync
	durable map[uint64]int64  // inode -> durable length
	gone    map[string]bool   // fsynced paths that no longer exist under that name (await rename)
	seen    int
	source  string // "strace" or "hook"
}

var (
	vReFsync   = regexp.MustCompile(`^(\d+)\s+(?:fsync|fdatasync)\(\d+<([^>]*)>(.*)$`)
	vReRename  = regexp.MustCompile(`^(\d+)\s+rename(?:at2?)?\((?:AT_FDCWD(?:<[^>]*>)?, )?"([^"]*)", (?:AT_FDCWD(?:<[^>]*>)?, )?"([^"]*)"`)
	vReResumed = regexp.MustCompile(`^(\d+)\s+<\.\.\. (?:fsync|fdatasync) resumed>\)\s+=\s+0`)
)

// vOpenFsyncLog opens the strace log; if none is configured the log works in "hook" mode where
// durability is taken from the declared *.synced hook events (weaker: a removed fsync goes unnoticed).
func vOpenFsyncLog() *vFsyncLog {
	l := &vFsyncLog{pending: map[string]string{}, durable: map[uint64]int64{}, gone: map[string]bool{}, source: "hook"}
	p := os.Getenv("VERIF_FSYNC_LOG")
	if p == "" {
		return l
	}
	f, err := os.Open(p)
	if err != nil {
		return l
	}
	l.f, l.r, l.source = f, bufio.NewReader(f), "strace"
	return l
}

func (l *vFsyncLog) mark(path string) {
	st, err := os.Stat(path)
	if err != nil {
		l.gone[path] = true
		return
	}
	ino := st.Sys().(*syscall.Stat_t).Ino
	l.durable[ino] = st.Size()
	l.seen++
}

// hookEvent is the fallback source of durability.
func (l *vFsyncLog) hookEvent(ev, path string) {
	if l.source != "hook" {
		return
	}
	switch ev {
	case "wal.synced", "ts.tmpwritten", "ts.committed", "fs.rename", "compact.filewritten":
		if path != "" {
			l.mark(path)
		}
	}
}

func (l *vFsyncLog) poll() {
	if l.r == nil {
		return
	}
	for {
		line, err := l.r.ReadString('\n')
		if err == io.EOF {
			if len(line) > 0 { // partial line: re-read it next time
				l.f.Seek(-int64(len(line)), io.SeekCurrent)
				l.r.Reset(l.f)
			}
			return
		}
		if err != nil {
			return
		}
		line = strings.TrimRight(line, "\n")
		if m := vReFsync.FindStringSubmatch(line); m != nil {
			if strings.Contains(m[3], "unfinished") {
				l.pending[m[1]] = m[2]
			} else if strings.Contains(m[3], "= 0") {
				l.mark(m[2])
			}
			continue
		}
		if m := vReRename.FindStringSubmatch(line); m != nil {
			if l.gone[m[2]] {
				delete(l.gone, m[2])
				l.mark(m[3])
			}
			continue
		}
		if m := vReResumed.FindStringSubmatch(line); m != nil {
			if p, ok := l.pending[m[1]]; ok {
				l.mark(p)
				delete(l.pending, m[1])
			}
		}
	}
}

func vCopyTree(src, dst string) error {
	out, err := exec.Command("cp", "-a", src, dst).CombinedOutput()
	if err != nil {
		return fmt.Errorf("cp -a: %v: %s", err, out)
	}
	return nil
}

func vCrashClass(base string) bool {
	return strings.HasSuffix(base, ".wal") || strings.Contains(base, ".tsm") || strings.Contains(base, ".tombstone")
}

// vPessimise applies the un-synced-suffix rule to an image: every file of the anchored classes
// is cut back to durable + cut*(size-durable). cutSel: 0 = only durable bytes, 1 = half of the
// unsynced suffix, 2 = all but one byte, 3 = everything written, 4 = durable + 1 byte.
func vPessimise(l *vFsyncLog, origRoot, imgRoot string, cutSel int) (cuts []string) {
	filepath.Walk(origRoot, func(p string, info os.FileInfo, err error) error {
		if err != nil || info.IsDir() {
			return nil
		}
		if !vCrashClass(filepath.Base(p)) {
			return nil
		}
		ino := info.Sys().(*syscall.Stat_t).Ino
		dur, ok := l.durable[ino]
		n := info.Size()
		if ok && dur >= n {
			return nil
		}
		if !ok {
			dur = 0
		}
		var keep int64
		switch cutSel {
		case 0:
			keep = dur
		case 1:
			keep = dur + (n-dur)/2
		case 2:
			keep = n - 1
		case 3:
			keep = n
		default:
			keep = dur + 1
		}
		if keep < dur {
			keep = dur
		}
		if keep > n {
			keep = n
		}
		rel, _ := filepath.Rel(origRoot, p)
		ip := filepath.Join(imgRoot, rel)
		if st, err := os.Stat(ip); err == nil && st.Size() > keep {
			os.Truncate(ip, keep)
			cuts = append(cuts, fmt.Sprintf("%s:%d->%d(durable %d)", rel, n, keep, dur))
		}
		return nil
	})
	return
}

// vMarkImageDurable: whatever is in a freshly taken image is, by definition, what survived.
func vMarkImageDurable(l *vFsyncLog, img string) {
	filepath.Walk(img, func(p string, info os.FileInfo, err error) error {
		if err == nil && !info.IsDir() {
			l.durable[info.Sys().(*syscall.Stat_t).Ino] = info.Size()
		}
		return nil
	})
}
