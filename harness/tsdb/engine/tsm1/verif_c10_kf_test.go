//go:build verif

package tsm1

// Directed campaigns for known findings under C10.

import (
	"fmt"
	"os"
	"strings"

	"github.com/influxdata/influxdb/pkg/verifhook"
	"testing"

	"verifkit"
)

func TestVerifC10KFPiecewiseDelete(t *testing.T) {
	stats := verifkit.For("C10", "TestVerifC10KFPiecewiseDelete", "directed: one series with points at t=1 and t=10 flushed to a TSM file, DELETE time 1..1 then DELETE time 10..10 (both index types)")
	defer stats.Flush()
	for _, idx := range []string{"inmem", "tsi1"} {
		root, _ := os.MkdirTemp("", "c10kf")
		b, err := vNewBed(root, idx, 1)
		if err != nil {
			t.Fatal(err)
		}
		pts := []vPt{{M: "m0", Tags: map[string]string{"host": "a"}, Fields: map[string]vVal{"f0": vI(1)}, TS: 1}, {M: "m0", Tags: map[string]string{"host": "a"}, Fields: map[string]vVal{"f0": vI(2)}, TS: 10}}
		if err := b.write(1, pts); err != nil {
			t.Fatal(err)
		}
		b.applyWrite(1, pts)
		if err := b.snapshot(1); err != nil {
			t.Fatal(err)
		}
		for _, ts := range []int64{1, 10} {
			sel := vSel{M: "m0", HasMin: true, Min: ts, HasMax: true, Max: ts}
			if err := b.deleteSeries(sel); err != nil {
				t.Fatal(err)
			}
			b.applyDelete(sel)
		}
		got, err := b.readAll()
		if err != nil {
			t.Fatal(err)
		}
		b.lingerOK = nil
		sig, msg := vC10Listings(b)
		t.Logf("%s: points=%d listing sig=%q msg=%q", idx, len(got), sig, msg)
		stats.Case(true, fmt.Sprintf("%s points=%d listing=%s", idx, len(got), sig), "directed")
		if len(got) == 0 && strings.HasPrefix(sig, "emptied-") {
			stats.KnownReproduced("series-lingers-after-piecewise-time-range-deletes", idx+": "+msg)
		}
		b.close()
		os.RemoveAll(root)
	}
	stats.Sample(map[string]string{"history": "write t=1,t=10; snapshot; delete [1,1]; delete [10,10]"})
}

// Directed campaign for known finding delete-inside-snapshot-window: a delete that runs while a cache
// snapshot is being written (here: from the snap.written hook) only reaches the hot cache; the points
// already moved to the snapshot store are written to the new file untouched.
func TestVerifC10KFDeleteInsideSnapshotWindow(t *testing.T) {
	stats := verifkit.For("C10", "TestVerifC10KFDeleteInsideSnapshotWindow", "directed: 5 cached points, WriteSnapshot, a range delete of 3 of them issued from the snap.written hook (snapshot file written, not yet installed)")
	defer stats.Flush()
	root, _ := os.MkdirTemp("", "c10kfw")
	defer os.RemoveAll(root)
	b, err := vNewBed(root, "inmem", 1)
	if err != nil {
		t.Fatal(err)
	}
	defer b.close()
	var pts []vPt
	for i := 1; i <= 5; i++ {
		pts = append(pts, vPt{M: "m0", Tags: map[string]string{"host": "a"}, Fields: map[string]vVal{"f0": vI(int64(i))}, TS: int64(i)})
	}
	if err := b.write(1, pts); err != nil {
		t.Fatal(err)
	}
	b.applyWrite(1, pts)
	sel := vSel{M: "m0", HasMin: true, Min: 2, HasMax: true, Max: 4}
	fired := false
	var derr error
	verifhook.Set(func(ev, path string, n int64) {
		if ev == "snap.written" && !fired {
			fired = true
			derr = b.deleteSeries(sel)
		}
	})
	serr := b.snapshot(1)
	verifhook.Set(nil)
	if serr != nil || derr != nil || !fired {
		t.Fatalf("snapshot err=%v delete err=%v hook fired=%v", serr, derr, fired)
	}
	b.applyDelete(sel)
	got, err := b.readAll()
	if err != nil {
		t.Fatal(err)
	}
	stats.Case(true, fmt.Sprintf("points-after=%d", len(got)), "directed")
	stats.Case(true, "model-points=2", "directed")
	stats.Sample(map[string]interface{}{"model_points": len(b.model), "read_points": len(got)})
	if len(got) > len(b.model) {
		stats.KnownReproduced("delete-inside-snapshot-window", fmt.Sprintf("a completed range delete issued while the cache snapshot was being flushed left %d of 3 targeted points readable (also after the snapshot was installed)", len(got)-len(b.model)))
	}
}
