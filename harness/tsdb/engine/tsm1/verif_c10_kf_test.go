//go:build verif

package tsm1

// Directed campaigns for known findings under C10.

import (
	"fmt"
	"os"
	"strings"
	"testing"

	"verifkit"
)

func TestVerifC10KFPiecewiseDelete(t *testing.T) {
	stats := verifkit.For("C10", "TestVerifC10KFPiecewiseDelete", "directed: one series with points at t=1 and t=10 flushed to a TSM file, DELETE time 1..1 then DELETE time 10..10 (both index types)")
	defer stats.Flush()
	for _, idx := range []string{"inmem", "tsi1"} {
		root, _ := os.MkdirTemp("", "c10kf")
		b, err := vNewBed(root, idx, 1)
		if err != nil {
			t.Fatal(err)
		}
		pts := []vPt{{M: "m0", Tags: map[string]string{"host": "a"}, Fields: map[string]vVal{"f0": vI(1)}, TS: 1}, {M: "m0", Tags: map[string]string{"host": "a"}, Fields: map[string]vVal{"f0": vI(2)}, TS: 10}}
		if err := b.write(1, pts); err != nil {
			t.Fatal(err)
		}
		b.applyWrite(1, pts)
		if err := b.snapshot(1); err != nil {
			t.Fatal(err)
		}
		for _, ts := range []int64{1, 10} {
			sel := vSel{M: "m0", HasMin: true, Min: ts, HasMax: true, Max: ts}
			if err := b.deleteSeries(sel); err != nil {
				t.Fatal(err)
			}
			b.applyDelete(sel)
		}
		got, err := b.readAll()
		if err != nil {
			t.Fatal(err)
		}
		b.lingerOK = nil
		sig, msg := vC10Listings(b)
		t.Logf("%s: points=%d listing sig=%q msg=%q", idx, len(got), sig, msg)
		stats.Case(true, fmt.Sprintf("%s points=%d listing=%s", idx, len(got), sig), "directed")
		if len(got) == 0 && strings.HasPrefix(sig, "emptied-") {
			stats.KnownReproduced("series-lingers-after-piecewise-time-range-deletes", idx+": "+msg)
		}
		b.close()
		os.RemoveAll(root)
	}
	stats.Sample(map[string]string{"history": "write t=1,t=10; snapshot; delete [1,1]; delete [10,10]"})
}
