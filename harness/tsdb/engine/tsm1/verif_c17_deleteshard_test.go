//go:build verif

package tsm1

// C17 (storage side) - removing an expired shard must not remove anything from other shards, also when
// the same series lives in shards of other retention policies of the database. DESIGN.md C17.

import (
	"fmt"
	"os"
	"strings"
	"testing"

	"pgregory.net/rapid"
	"verifkit"
)

func TestVerifC17DeleteShardKeepsOthers(t *testing.T) {
	stats := verifkit.For("C17", "TestVerifC17DeleteShardKeepsOthers",
		"bed E with 2..4 shards spread over two retention policies of one database (inmem or tsi1): generated writes put overlapping series into several shards, some shards are snapshotted; one shard is removed with Store.DeleteShard (what retention enforcement calls); every other shard must still return exactly its model content, immediately and after reopening the store. non-trivial = the removed shard shared >=1 series with a shard of another retention policy; distinct = hash of layout+history")
	defer stats.Flush()
	rapid.Check(t, func(rt *rapid.T) {
		root, err := os.MkdirTemp("", "c17d")
		if err != nil {
			rt.Fatal(err)
		}
		defer os.RemoveAll(root)
		idx := rapid.SampledFrom([]string{"inmem", "tsi1"}).Draw(rt, "index")
		b, err := vNewBed(root, idx, 0)
		if err != nil {
			rt.Fatalf("open: %v", err)
		}
		defer b.close()
		n := rapid.IntRange(2, 4).Draw(rt, "nshards")
		rpOf := map[uint64]string{}
		for i := 1; i <= n; i++ {
			rp := rapid.SampledFrom([]string{"rp", "rp", "forever"}).Draw(rt, "rp")
			if i == 2 && rpOf[1] == rp {
				rp = map[string]string{"rp": "forever", "forever": "rp"}[rp]
			}
			if err := b.store.CreateShard(vDB, rp, uint64(i), true); err != nil {
				rt.Fatalf("create shard: %v", err)
			}
			rpOf[uint64(i)] = rp
			b.shards = append(b.shards, uint64(i))
			os.WriteFile(b.shardDirRP(rp, uint64(i))+"/"+DoNotCompactFile, nil, 0644)
		}
		var canon strings.Builder
		steps := rapid.IntRange(2, 10).Draw(rt, "steps")
		for s := 0; s < steps; s++ {
			shard := rapid.SampledFrom(b.shards).Draw(rt, "shard")
			if rapid.IntRange(0, 3).Draw(rt, "snap") == 0 {
				if e, err := b.engine(shard); err == nil {
					e.WriteSnapshot()
				}
				fmt.Fprintf(&canon, "s%d;", shard)
				continue
			}
			pts := b.vDrawBatch(rt, shard, 10)
			if err := b.write(shard, pts); err != nil {
				rt.Fatalf("write: %v", err)
			}
			b.applyWrite(shard, pts)
			fmt.Fprintf(&canon, "w%d;", shard)
		}
		victim := rapid.SampledFrom(b.shards).Draw(rt, "victim")
		shared := false
		vs := map[string]bool{}
		for _, sk := range b.modelSeries(victim) {
			vs[sk] = true
		}
		for _, id := range b.shards {
			if id != victim && rpOf[id] != rpOf[victim] {
				for _, sk := range b.modelSeries(id) {
					if vs[sk] {
						shared = true
					}
				}
			}
		}
		if err := b.store.DeleteShard(victim); err != nil {
			rt.Fatalf("%s DeleteShard(%d): %v", verifkit.Sig("delete-shard-error"), victim, err)
		}
		for k := range b.model {
			if k.Shard == victim {
				delete(b.model, k)
			}
		}
		var rest []uint64
		for _, id := range b.shards {
			if id != victim {
				rest = append(rest, id)
			}
		}
		b.shards = rest
		check := func(where string) {
			got, err := b.readAll()
			if err != nil {
				rt.Fatalf("%s %s: %v", verifkit.Sig("read-error"), where, err)
			}
			if k, msg := b.diffModel(got); k != "" {
				rt.Fatalf("%s %s removing shard %d (policy %s) changed what the other shards return: %s (layout %v, history %s)", verifkit.Sig("shard-removal-damages-other-shards"), where, victim, rpOf[victim], msg, rpOf, canon.String())
			}
		}
		check("right after")
		if err := b.reopen(); err != nil {
			rt.Fatalf("%s reopen: %v", verifkit.Sig("reopen-error"), err)
		}
		check("after reopen")
		stats.Case(shared, fmt.Sprint(rpOf, canon.String(), victim), "index:"+idx, fmt.Sprintf("shared-series-across-policies:%v", shared))
		if stats.WantSample() {
			stats.Sample(map[string]interface{}{"index": idx, "layout": fmt.Sprint(rpOf), "history": canon.String(), "removed": victim})
		} else {
			stats.Sample(nil)
		}
	})
}
